(* Trie/RangeComplete.v — completeness of the two-edge branch of VerifyRangeProof (C09):
   an honest response (the run is exactly the content of [firstKey, lastKey], both edge paths
   present) is accepted.  The invariant [Q A π p t] relates the partial tree [p] under
   construction to the true trie [t]: untouched parts are partial views of t whose keys are all
   present (in A); emptied slots are being rebuilt as the canonical trie of the keys re-inserted
   so far; the nodes on the edge paths are retained as they are. *)
From GV Require Import Lib.Tactics Lib.Bytes Trie.Hex Trie.HexProofs Trie.Node Trie.Ops Trie.Hash Trie.OpsProofs Trie.Canon.
From GV Require Import Trie.Stack Trie.StackProofs Trie.Proof Trie.ProofProofs Trie.Range Trie.RangeProofs.
Local Open Scope N_scope.

Lemma gone_or_stays rl key r : gone rl key r \/ stays rl key r.
Proof.
  unfold gone, stays. destruct (list_eq_dec N.eq_dec r key) as [->|Ne]; [left; left; reflexivity|].
  destruct rl.
  - destruct (slice_lt r key) eqn:L; [left; right; reflexivity|right]. apply slice_lt_total; [congruence|exact L].
  - destruct (slice_lt key r) eqn:L; [left; right; reflexivity|right]. apply slice_lt_total; [congruence|exact L].
Qed.

Lemma gone_not_stays rl key r : gone rl key r -> stays rl key r -> False.
Proof.
  unfold gone, stays. intros [->|G] S; destruct rl; try (rewrite slice_lt_irrefl in S; discriminate);
    rewrite (slice_lt_asym _ _ G) in S; discriminate.
Qed.

(* a strict difference inside the first |b| positions decides the comparison with every extension of b *)
Lemma slice_lt_firstn_l b : forall a r, slice_lt (firstn (length b) a) b = true -> slice_lt a (b ++ r) = true.
Proof.
  induction b as [|y b IH]; intros a r E; [destruct (firstn 0 a); discriminate|].
  destruct a as [|x a]; [reflexivity|]. simpl in E |- *.
  destruct (x <? y); [reflexivity|]. destruct (x =? y); [apply IH; exact E|discriminate].
Qed.

Lemma slice_lt_firstn_r b : forall a r, slice_lt b (firstn (length b) a) = true -> slice_lt a (b ++ r) = false.
Proof.
  induction b as [|y b IH]; intros a r E; [discriminate|].
  destruct a as [|x a]; [discriminate|]. simpl in E |- *.
  destruct (y <? x) eqn:L1.
  - assert (x <? y = false) by lia. rewrite H. destruct (N.eqb_spec x y); [lia|reflexivity].
  - destruct (N.eqb_spec y x) as [->|]; [|discriminate]. rewrite N.ltb_irrefl, N.eqb_refl. apply IH. exact E.
Qed.

Lemma slice_lt_trans a : forall b c, slice_lt a b = true -> slice_lt b c = true -> slice_lt a c = true.
Proof.
  induction a as [|x a IH]; intros [|y b] [|z c] E1 E2; try discriminate; try reflexivity.
  apply slice_lt_cons in E1. apply slice_lt_cons in E2. apply slice_lt_cons.
  destruct E1 as [?|[-> E1]]; destruct E2 as [?|[-> E2]]; try (left; lia). right. split; [reflexivity|eapply IH; eassumption].
Qed.

Lemma option_iff_eq {A} (a b : option A) : (forall v, a = Some v <-> b = Some v) -> a = b.
Proof.
  intros Hi. destruct a as [x|]; destruct b as [y|]; try reflexivity.
  - apply Hi. reflexivity.
  - symmetry. apply Hi. reflexivity.
  - apply Hi. reflexivity.
Qed.


(* ---- the closed interval, nibble by nibble *)
Lemma between_app p l r k : between (p ++ l) (p ++ r) (p ++ k) <-> between l r k.
Proof.
  unfold between. rewrite !slice_lt_app. split; intros [[E1|L1] [E2|L2]]; repeat split; auto;
    try (left; apply app_inv_head in E1; exact E1); try (left; apply app_inv_head in E2; exact E2);
    try (left; congruence).
Qed.

Lemma between_cons_mid l0 lr r0 rr0 j r : l0 < j -> j < r0 -> between (l0 :: lr) (r0 :: rr0) (j :: r).
Proof. intros H1 H2. split; right; apply slice_lt_cons; left; assumption. Qed.

Lemma between_cons_out l0 lr r0 rr0 j r : j < l0 \/ r0 < j -> ~ between (l0 :: lr) (r0 :: rr0) (j :: r).
Proof.
  intros Ho [B1 B2].
  assert (l0 <= j) by (destruct B1 as [E1|L1]; [inversion E1; lia|apply slice_lt_cons in L1; lia]).
  assert (j <= r0) by (destruct B2 as [E2|L2]; [inversion E2; lia|apply slice_lt_cons in L2; lia]).
  lia.
Qed.

Lemma between_cons_left l0 lr r0 rr0 r : l0 < r0 ->
  (between (l0 :: lr) (r0 :: rr0) (l0 :: r) <-> gone false lr r).
Proof.
  intros Hlt. unfold between, gone. split.
  - intros [[E1|L1] _]; [left; congruence|right]. apply slice_lt_cons in L1. destruct L1 as [?|[_ L1]]; [lia|exact L1].
  - intros [->|L1]; (split; [|right; apply slice_lt_cons; left; exact Hlt]); [left; reflexivity|right].
    apply slice_lt_cons. right. auto.
Qed.

Lemma between_cons_right l0 lr r0 rr0 r : l0 < r0 ->
  (between (l0 :: lr) (r0 :: rr0) (r0 :: r) <-> gone true rr0 r).
Proof.
  intros Hlt. unfold between, gone. split.
  - intros [_ [E2|L2]]; [left; congruence|right]. apply slice_lt_cons in L2. destruct L2 as [?|[_ L2]]; [lia|exact L2].
  - intros [->|L2]; (split; [right; apply slice_lt_cons; left; exact Hlt|]); [left; reflexivity|right].
    apply slice_lt_cons. right. auto.
Qed.

Lemma between_cons_same x l r k : between (x :: l) (x :: r) (x :: k) <-> between l r k.
Proof. apply (between_app [x]). Qed.

Lemma gone_true_not_stays key r : stays true key r -> ~ gone true key r.
Proof. intros S G. exact (gone_not_stays _ _ _ G S). Qed.

Section Rebuild.
  Variable H : list N -> list N.
  Hypothesis H_len : forall x, length (H x) = 32%nat.
  Notation pv := (pv H).

  Inductive Q (A : list N -> Prop) : list N -> node -> node -> Prop :=
  | Q_pv pi p t : pv p t -> (forall r v, lk t r = Some v -> A (pi ++ r)) -> Q A pi p t
  | Q_slot pi p t : (p = NEmpty \/ can p) ->
      (forall r v, lk p r = Some v <-> (A (pi ++ r) /\ lk t r = Some v)) -> Q A pi p t
  | Q_short pi k c cs' : Q A (pi ++ k) c (NFull cs') -> Q A pi (NShort k c) (NShort k (NFull cs'))
  | Q_full pi cs cs' : length cs = length cs' ->
      (forall i c c', nth_error cs i = Some c -> nth_error cs' i = Some c' -> Q A (pi ++ [N.of_nat i]) c c') ->
      Q A pi (NFull cs) (NFull cs').

  (* only the keys below the position matter *)
  Lemma Q_ext A A' t : forall pi p, (forall r, A (pi ++ r) <-> A' (pi ++ r)) -> Q A pi p t -> Q A' pi p t.
  Proof.
    induction t as [|v|k c IH|cs' IH|h] using node_ind'; intros pi p Hx Hq;
      inversion Hq as [? ? ? Hp Hk|? ? ? Hc Hl|? ? ? ? Hq'|? ? ? Hlen Hs]; subst;
      try solve [apply Q_pv; [exact Hp|intros r0 v0 L0; apply Hx; eapply Hk; exact L0]];
      try solve [apply Q_slot; [exact Hc|intros r0 v0; rewrite Hl; split; intros [A1 L0]; (split; [apply Hx; exact A1|exact L0])]].
    - apply Q_short. apply IH; [|exact Hq']. intros r. rewrite <- !app_assoc. apply Hx.
    - apply Q_full; [exact Hlen|]. intros i c c' Ec Ec'. rewrite Forall_forall in IH.
      apply (IH c' (nth_error_In _ _ Ec')); [|eapply Hs; eassumption]. intros r. rewrite <- !app_assoc. apply Hx.
  Qed.

  Lemma pv_refl t : slotcan t -> pv t t.
  Proof.
    induction t as [|v|k c IH|cs IH|h] using node_ind'; intros Hs.
    - constructor.
    - constructor.
    - destruct Hs as [?|[[? ?]|Hc]]; try discriminate. constructor. apply IH.
      destruct (can_short_inv _ _ Hc) as [[_ [v ->]]|(_ & _ & cs & -> & Hc')]; [right; left; eauto|right; right; exact Hc'].
    - destruct Hs as [?|[[? ?]|Hc]]; try discriminate. destruct (can_full_inv _ Hc) as (L17 & Hch & Hv16 & _).
      constructor; [reflexivity|]. intros i c c' E E'. rewrite E in E'. inversion E'; subst c'.
      rewrite Forall_forall in IH. apply (IH c (nth_error_In _ _ E)).
      assert (i < 17)%nat by (rewrite <- L17; apply nth_error_Some; congruence).
      destruct (Nat.eq_dec i 16) as [->|Hne].
      + destruct (Hv16 _ E) as [->|[v ->]]; [left; reflexivity|right; left; eauto].
      + destruct (Hch _ _ E ltac:(lia)) as [->|Hcc]; [left; reflexivity|right; right; exact Hcc].
    - destruct Hs as [?|[[? ?]|Hc]]; try discriminate. inversion Hc.
  Qed.

  Lemma can_lk_nil p : can p -> lk p [] = None.
  Proof.
    intros Hc. inversion Hc as [k v Vk|k cs Nk Ne Hc'|cs L C V Cn]; subst.
    - rewrite lk_short. destruct k; [destruct Vk|reflexivity].
    - rewrite lk_short. destruct k; [congruence|reflexivity].
    - apply lk_full_nil.
  Qed.

  (* a rebuilt region holding every key of the original is the original *)
  Lemma Q_slot_final A pi p t : (p = NEmpty \/ can p) ->
    (forall r v, lk p r = Some v <-> (A (pi ++ r) /\ lk t r = Some v)) -> slotcan t ->
    (forall r v, lk t r = Some v -> A (pi ++ r)) -> pv p t.
  Proof.
    intros Hc Hl Hs Hall.
    assert (Hlk : forall r, lk p r = lk t r).
    { intros r. apply option_iff_eq. intros v0. rewrite Hl. split; [intros [_ L]; exact L|].
      intros L. split; [eapply Hall; exact L|exact L]. }
    destruct Hs as [->|[[v0 ->]|Hct]].
    - assert (p = NEmpty) by (apply canon_unique; [exact Hc|left; reflexivity|intros; apply Hlk]). subst. constructor.
    - exfalso. specialize (Hlk []). rewrite lk_value in Hlk.
      destruct Hc as [->|Hcp]; [rewrite lk_empty in Hlk; discriminate|rewrite (can_lk_nil _ Hcp) in Hlk; discriminate].
    - assert (p = t) by (apply canon_unique; [exact Hc|right; exact Hct|intros; apply Hlk]). subst.
      apply pv_refl. right; right; exact Hct.
  Qed.

  (* once every key of the true trie is present, the partial tree is a partial view of it *)
  Lemma Q_final A t : forall pi p, Q A pi p t -> slotcan t ->
    (forall r v, lk t r = Some v -> A (pi ++ r)) -> pv p t.
  Proof.
    induction t as [|v|k c IH|cs' IH|h] using node_ind'; intros pi p Hq Hs Hall;
      inversion Hq as [? ? ? Hp Hk|? ? ? Hc Hl|? ? ? ? Hq'|? ? ? Hlen Hsl]; subst; try exact Hp;
      try (eapply Q_slot_final; eassumption).
    - (* retained extension *)
      destruct Hs as [?|[[? ?]|Hct]]; try discriminate.
      destruct (can_short_inv _ _ Hct) as [[_ [v ?]]|(_ & _ & cs & Ecs & Hc')]; [discriminate|]. inversion Ecs; subst cs.
      constructor. apply (IH (pi ++ k)); [exact Hq'|right; right; exact Hc'|].
      intros r v L. rewrite <- app_assoc. apply (Hall (k ++ r) v). rewrite lk_short, strip_app_same. exact L.
    - (* retained branch *)
      destruct Hs as [?|[[? ?]|Hct]]; try discriminate. destruct (can_full_inv _ Hct) as (L17 & Hch & Hv16 & _).
      constructor; [exact Hlen|]. intros i c c' Ec Ec'. rewrite Forall_forall in IH.
      apply (IH c' (nth_error_In _ _ Ec') (pi ++ [N.of_nat i])); [eapply Hsl; eassumption| |].
      + assert (i < 17)%nat by (rewrite <- L17; apply nth_error_Some; congruence).
        destruct (Nat.eq_dec i 16) as [->|Hne].
        * destruct (Hv16 _ Ec') as [->|[v ->]]; [left; reflexivity|right; left; eauto].
        * destruct (Hch _ _ Ec' ltac:(lia)) as [->|Hcc]; [left; reflexivity|right; right; exact Hcc].
      + intros r v L. rewrite <- app_assoc. apply (Hall (N.of_nat i :: r) v). rewrite lk_full, Nat2N.id, Ec'. exact L.
  Qed.

  (* re-inserting a key of the true trie that is not present yet *)
  Lemma insert_Q : forall fuel A pi p t prefix key v,
    Q A pi p t -> slotcan t -> ulen t (length key) -> valid_key key -> (length key < fuel)%nat ->
    lk t key = Some v -> ~ A (pi ++ key) ->
    exists d p' ev, insert no_resolve fuel p prefix key (NValue v) = TOk (d, p', ev) /\
                    Q (fun k => A k \/ k = pi ++ key) pi p' t.
  Proof.
    induction fuel as [|f IH]; intros A pi p t prefix key v Hq Hs Hu Vk Hf L HnA; [lia|].
    inversion Hq as [? ? ? Hp Hk|? ? ? Hc Hl|? k c cs' Hq'|? cs cs' Hlen Hsl]; subst.
    - exfalso. apply HnA. eapply Hk. exact L.
    - (* a region under reconstruction: canonical insertion *)
      assert (Hwf : wfpos p key).
      { right. split; [exact Vk|]. destruct Hc as [->|Hcp]; [constructor|apply can_wfn; exact Hcp]. }
      destruct (insert_spec no_resolve (S f) p prefix key v Hf Hwf) as (d & p' & ev & Ei & P1 & P2 & P3 & P4 & _ & _ & P7 & _).
      exists d, p', ev. split; [exact Ei|]. apply Q_slot.
      + destruct (P7 (or_intror (conj Vk Hc))) as [[-> _]|[_ Hc']]; [destruct Vk|exact Hc'].
      + intros r w. destruct (list_eq_dec N.eq_dec r key) as [->|Ne].
        * rewrite P3. split; [intros E; inversion E; subst w; split; [right; reflexivity|exact L]|intros [_ E]; congruence].
        * rewrite (P4 r Ne), Hl. split; intros [A1 L1]; (split; [|exact L1]); [left; exact A1|].
          destruct A1 as [A1|E]; [exact A1|]. apply app_inv_head in E. congruence.
    - (* a retained extension *)
      destruct Hs as [?|[[? ?]|Hct]]; try discriminate.
      destruct (can_short_inv _ _ Hct) as [[_ [w ?]]|(Nk & Nne & cs0 & Ecs & Hc')]; [discriminate|]. inversion Ecs; subst cs0.
      rewrite lk_short in L. destruct (strip k key) as [rest|] eqn:Es; [|discriminate]. apply strip_some in Es. subst key.
      assert (Hrest : rest <> []) by (intros ->; rewrite app_nil_r in Vk; exact (valid_key_not_nibbles _ Vk Nk)).
      destruct (valid_key_app_inv _ _ Vk Hrest) as [_ Vrest].
      rewrite insert_short_unfold by (destruct k; [congruence|discriminate]). cbv zeta.
      rewrite prefix_len_app_full, Nat.eqb_refl, skipn_app_exact.
      destruct (IH A (pi ++ k) c (NFull cs') (prefix ++ firstn (length k) (k ++ rest)) rest v Hq' (or_intror (or_intror Hc')))
        as (d0 & nn & ev0 & Ei & Hq2); auto.
      + intros r w Lr. specialize (Hu (k ++ r) w). rewrite lk_short, strip_app_same in Hu. specialize (Hu Lr).
        rewrite !app_length in Hu. lia.
      + rewrite app_length in Hf. destruct k; [congruence|]. simpl in Hf. lia.
      + rewrite <- app_assoc. exact HnA.
      + rewrite Ei. destruct (insert_res _ _ _ _ _ _ _ _ Ei) as [_ Hsame].
        assert (Hq3 : Q (fun k0 => A k0 \/ k0 = pi ++ k ++ rest) (pi ++ k) nn (NFull cs')).
        { eapply Q_ext; [|exact Hq2]. intros r. rewrite <- !app_assoc. reflexivity. }
        destruct d0.
        * eexists _, _, _. split; [reflexivity|]. apply Q_short. exact Hq3.
        * rewrite (Hsame eq_refl) in Hq3. eexists _, _, _. split; [reflexivity|]. apply Q_short. exact Hq3.
    - (* a retained branch *)
      destruct Hs as [?|[[? ?]|Hct]]; try discriminate. destruct (can_full_inv _ Hct) as (L17 & Hch & Hv16 & _).
      destruct key as [|k0 kr]; [destruct Vk|]. apply valid_key_cons in Vk.
      assert (Hk0 : k0 < 16 /\ valid_key kr).
      { destruct Vk as [[-> ->]|Vk]; [|exact Vk]. exfalso. apply (can_full_not_len1 _ Hct Hu). }
      destruct Hk0 as [Hk0 Vkr].
      rewrite lk_full in L. destruct (nth_error cs' (N.to_nat k0)) as [c'|] eqn:Ec'; [|discriminate].
      destruct (nth_error cs (N.to_nat k0)) as [c|] eqn:Ec; [|apply nth_error_None in Ec; lia].
      rewrite insert_full_unfold'. unfold child. rewrite Ec.
      pose proof (Hsl _ _ _ Ec Ec') as Hqc. rewrite N2Nat.id in Hqc.
      destruct (IH A (pi ++ [k0]) c c' (prefix ++ [k0]) kr v Hqc (match Hch _ _ Ec' ltac:(lia) with or_introl e => or_introl e | or_intror e => or_intror (or_intror e) end))
        as (d0 & nn & ev0 & Ei & Hq2); auto.
      + intros r w Lr. specialize (Hu (k0 :: r) w). rewrite lk_full, Ec' in Hu. specialize (Hu Lr). simpl in Hu. lia.
      + simpl in Hf. lia.
      + rewrite <- app_assoc. exact HnA.
      + rewrite Ei. destruct (insert_res _ _ _ _ _ _ _ _ Ei) as [_ Hsame].
        assert (Hq3 : Q (fun k1 => A k1 \/ k1 = pi ++ k0 :: kr) (pi ++ [k0]) nn c').
        { eapply Q_ext; [|exact Hq2]. intros r. rewrite <- !app_assoc. reflexivity. }
        assert (Hother : forall i x x', i <> N.to_nat k0 -> nth_error cs i = Some x -> nth_error cs' i = Some x' ->
                  Q (fun k1 => A k1 \/ k1 = pi ++ k0 :: kr) (pi ++ [N.of_nat i]) x x').
        { intros i x x' Hi Ex Ex'. eapply Q_ext; [|eapply Hsl; eassumption]. intros r. split; [left; assumption|].
          intros [A1|E]; [exact A1|]. rewrite <- app_assoc in E. apply app_inv_head in E. inversion E. lia. }
        destruct d0.
        * destruct (set_nth_some (N.to_nat k0) nn cs ltac:(lia)) as [cs2 S2]. unfold set_child. rewrite S2.
          destruct (set_nth_spec _ _ _ _ S2) as [L2 N2].
          eexists _, _, _. split; [reflexivity|]. apply Q_full; [lia|].
          intros i x x' Ex Ex'. rewrite N2 in Ex. destruct (Nat.eqb i (N.to_nat k0)) eqn:B.
          -- apply Nat.eqb_eq in B. subst i. inversion Ex; subst x. rewrite Ec' in Ex'. inversion Ex'; subst x'.
             rewrite N2Nat.id. exact Hq3.
          -- apply Nat.eqb_neq in B. apply Hother; assumption.
        * rewrite (Hsame eq_refl) in Hq3. eexists _, _, _. split; [reflexivity|]. apply Q_full; [exact Hlen|].
          intros i x x' Ex Ex'. destruct (Nat.eq_dec i (N.to_nat k0)) as [->|B].
          -- rewrite Ec in Ex. inversion Ex; subst x. rewrite Ec' in Ex'. inversion Ex'; subst x'. rewrite N2Nat.id. exact Hq3.
          -- apply Hother; assumption.
  Qed.

  (* a node that one unset pass removes altogether / leaves alone, judged by what unset_spec
     says about the full trie *)
  Lemma Q_removed A pi t :
    (forall r v, lk t r = Some v -> ~ A (pi ++ r)) -> Q A pi NEmpty t.
  Proof.
    intros Hn. apply Q_slot; [left; reflexivity|]. intros r v. rewrite lk_empty. split; [discriminate|].
    intros [A1 L]. exfalso. exact (Hn _ _ L A1).
  Qed.

  (* one unset pass along an edge key: everything [gone] is absent from A, everything that
     [stays] is in A *)
  Lemma unset_Q t : forall p key rl a A pi,
    pv p t -> slotok t -> (t = NEmpty \/ can t) -> ulen t (length key) -> (key = [] \/ valid_key key) ->
    unset p key rl = TOk a ->
    (forall r, gone rl key r -> ~ A (pi ++ r)) -> (forall r, stays rl key r -> A (pi ++ r)) ->
    Q A pi (act_node a) t.
  Proof.
    induction t as [|v|ck cv' IH|cs' IH|h] using node_ind'; intros p key rl a A pi Hp Hso Hc Hu Hk E HG HS.
    - apply (pv_empty_r H) in Hp. subst p. inversion E; subst. apply Q_pv; [constructor|]. intros r v L. rewrite lk_empty in L. discriminate.
    - destruct Hc as [?|Hc]; [discriminate|inversion Hc].
    - (* short *)
      destruct Hc as [?|Hcan]; [discriminate|].
      destruct (unset_sim H _ _ _ _ _ Hp E) as (a' & Ea' & Hact).
      destruct (unset_spec _ _ _ _ Hso Hu Hk Ea') as [G St].
      (* whole-node outcomes *)
      assert (Hrem : a = URemove -> Q A pi (act_node a) (NShort ck cv')).
      { intros ->. destruct a' as [x|]; [destruct Hact|]. cbn [act_node] in *. apply Q_removed. intros r v L A1.
        destruct (gone_or_stays rl key r) as [Gr|Sr]; [exact (HG _ Gr A1)|].
        rewrite <- (St _ Sr), lk_empty in L. discriminate. }
      assert (Hkeep : a = UKeep p -> a' = UKeep (NShort ck cv') -> Q A pi (act_node a) (NShort ck cv')).
      { intros -> ->. cbn [act_node] in *. apply Q_pv; [exact Hp|]. intros r v L.
        destruct (gone_or_stays rl key r) as [Gr|Sr]; [|exact (HS _ Sr)]. rewrite (G _ Gr) in L. discriminate. }
      inversion Hp as [| |t0 e Hw Ee Le|k0 c0 x Hcc|]; subst; [discriminate|].
      cbn [unset] in E, Ea'. destruct (negb (is_prefix_of ck key)) eqn:Epf.
      + destruct rl.
        * destruct (slice_lt ck key); inversion E; inversion Ea'; subst; auto.
        * destruct (slice_lt key ck); inversion E; inversion Ea'; subst; auto.
      + destruct (can_short_inv _ _ Hcan) as [[Vck [w ->]]|(Nk & Nne & cs & -> & Hc')].
        * apply (pv_value_r H) in Hcc. subst c0. inversion E; subst. apply Hrem. reflexivity.
        * inversion Hcc as [| |t0 e Hw Ee Le| |cs0 cs1 Hl Hcs]; subst; [discriminate|].
          destruct (unset (NFull cs0) (skipn (length ck) key) rl) as [[x|]|e] eqn:Eu; try discriminate.
          inversion E; subst a. cbn [act_node].
          apply negb_false_iff in Epf. pose proof (is_prefix_strip ck key) as Sp.
          destruct (strip ck key) as [rest|] eqn:Es; [|congruence]. destruct Sp as [_ S2]. rewrite S2 in Eu.
          apply strip_some in Es. subst key.
          assert (Hk' : rest = [] \/ valid_key rest).
          { destruct rest as [|y rest]; [left; reflexivity|right]. destruct Hk as [Hk|Hk]; [destruct ck; discriminate|].
            apply (valid_key_app_inv _ _ Hk). discriminate. }
          apply Q_short. apply (IH (NFull cs0) rest rl (UKeep x) A (pi ++ ck)); auto.
          -- right; right. destruct Hso as [?|[[? ?]|Hw]]; try discriminate. inversion Hw; subst; assumption.
          -- intros r v L. specialize (Hu (ck ++ r) v). rewrite lk_short, strip_app_same in Hu. specialize (Hu L).
             rewrite !app_length in Hu. lia.
          -- intros r Gr. rewrite <- app_assoc. apply HG. unfold gone in *. destruct Gr as [->|Gr]; [left; reflexivity|right].
             destruct rl; rewrite slice_lt_app; exact Gr.
          -- intros r Sr. rewrite <- app_assoc. apply HS. unfold stays in *. destruct rl; rewrite slice_lt_app; exact Sr.
    - (* branch *)
      destruct Hc as [?|Hcan]; [discriminate|].
      inversion Hp as [| |t0 e Hw Ee Le| |cs0 cs1 Hl Hcs]; subst; [discriminate|].
      destruct (can_full_inv _ Hcan) as (L17 & Hch & Hv16 & _).
      destruct key as [|k0 kr]; [discriminate|]. destruct Hk as [?|Hk]; [discriminate|]. apply valid_key_cons in Hk.
      assert (Hk0 : k0 < 16 /\ valid_key kr).
      { destruct Hk as [[-> ->]|Hk]; [|exact Hk]. exfalso. apply (can_full_not_len1 _ Hcan Hu). }
      destruct Hk0 as [Hk0 Vkr].
      destruct (unset_sim H _ _ _ _ _ Hp E) as (a' & Ea' & Hact).
      assert (Vk : valid_key (k0 :: kr)) by (apply valid_key_cons; right; split; assumption).
      destruct (unset_spec _ _ _ _ Hso Hu (or_intror Vk) Ea') as [G St].
      rewrite unset_full in E, Ea'. cbv zeta in E, Ea'.
      destruct (nth_error cs0 (N.to_nat k0)) as [c|] eqn:Ec; [|discriminate].
      destruct (nth_error cs' (N.to_nat k0)) as [c'|] eqn:Ec'; [|discriminate].
      destruct (unset c kr rl) as [a0|e0] eqn:Eu; [|discriminate].
      destruct (unset c' kr rl) as [a0'|e0'] eqn:Eu'; [|discriminate].
      destruct (apply_act _ k0 a0) as [cs2|] eqn:Ea; [|discriminate].
      destruct (apply_act _ k0 a0') as [cs2'|] eqn:Ea2; [|discriminate].
      inversion E; subst a. inversion Ea'; subst a'. cbn [act_node] in *.
      destruct (apply_act_nth _ _ _ _ Ea) as [L2 N2]. destruct (apply_act_nth _ _ _ _ Ea2) as [L2' N2'].
      assert (Hlen2 : length cs2 = length cs') by (rewrite L2; destruct rl; rewrite clear_range_length; lia).
      apply Q_full; [exact Hlen2|]. intros i x x' Ex Ex'.
      rewrite N2 in Ex. destruct (Nat.eqb i (N.to_nat k0)) eqn:B.
      + apply Nat.eqb_eq in B. subst i. inversion Ex; subst x. rewrite Ec' in Ex'. inversion Ex'; subst x'. rewrite N2Nat.id.
        rewrite Forall_forall in IH. apply (IH c' (nth_error_In _ _ Ec') c kr rl a0 A (pi ++ [k0])); auto.
        * apply (Hcs _ _ _ Ec Ec').
        * eapply pwf_full_slot; [|exact Ec']. destruct Hso as [?|[[? ?]|Hw]]; try discriminate. exact Hw.
        * apply (Hch _ _ Ec'). lia.
        * intros r v L. specialize (Hu (k0 :: r) v). rewrite lk_full, Ec' in Hu. specialize (Hu L). simpl in Hu. lia.
        * intros r Gr. rewrite <- app_assoc. apply HG. unfold gone in *. destruct Gr as [->|Gr]; [left; reflexivity|right].
          destruct rl; apply slice_lt_cons; right; auto.
        * intros r Sr. rewrite <- app_assoc. apply HS. unfold stays in *. destruct rl; apply slice_lt_cons; right; auto.
      + apply Nat.eqb_neq in B.
        (* what the slot holds on either side *)
        assert (Hp2 : nth_error cs2' i = nth_error (if rl then clear_range 0 (N.to_nat k0) cs' else clear_range (N.to_nat k0 + 1) 16 cs') i).
        { rewrite N2'. replace (Nat.eqb i (N.to_nat k0)) with false by (symmetry; apply Nat.eqb_neq; exact B). reflexivity. }
        assert (Hcl : exists bclr : bool, nth_error (if rl then clear_range 0 (N.to_nat k0) cs0 else clear_range (N.to_nat k0 + 1) 16 cs0) i =
                        match nth_error cs0 i with Some y => Some (if bclr then NEmpty else y) | None => None end /\
                      nth_error (if rl then clear_range 0 (N.to_nat k0) cs' else clear_range (N.to_nat k0 + 1) 16 cs') i =
                        match nth_error cs' i with Some y => Some (if bclr then NEmpty else y) | None => None end).
        { destruct rl; eexists; split; rewrite clear_range_nth; reflexivity. }
        destruct Hcl as (bclr & C1 & C2). rewrite C1 in Ex. rewrite C2 in Hp2. rewrite Ex' in Hp2.
        destruct (nth_error cs0 i) as [y|] eqn:Ey; [|discriminate]. inversion Ex; subst x.
        assert (Hi : N.to_nat (N.of_nat i) = i) by apply Nat2N.id.
        destruct bclr.
        * (* cleared *)
          apply Q_removed. intros r v L A1. rewrite <- app_assoc in A1.
          destruct (gone_or_stays rl (k0 :: kr) (N.of_nat i :: r)) as [Gr|Sr]; [exact (HG _ Gr A1)|].
          pose proof (St _ Sr) as E1. rewrite !lk_full, Hi, Hp2, Ex', lk_empty in E1. congruence.
        * (* untouched *)
          apply Q_pv; [eapply Hcs; eassumption|]. intros r v L. rewrite <- app_assoc.
          destruct (gone_or_stays rl (k0 :: kr) (N.of_nat i :: r)) as [Gr|Sr]; [|exact (HS _ Sr)].
          pose proof (G _ Gr) as E1. rewrite lk_full, Hi, Hp2 in E1. congruence.
    - destruct Hc as [?|Hc]; [discriminate|inversion Hc].
  Qed.

  (* unsetInternal when the right edge key is a key of the trie: A = everything outside the
     closed interval *)
  Lemma unset_internal_Q t : forall p left right a A pi vr,
    pv p t -> can t -> slotok t -> ulen t (length left) -> length left = length right ->
    valid_key left -> valid_key right -> slice_lt left right = true ->
    lk t right = Some vr -> unset_internal p left right = Rok a ->
    (forall r, between left right r -> ~ A (pi ++ r)) -> (forall r, ~ between left right r -> A (pi ++ r)) ->
    Q A pi (act_node a) t.
  Proof.
    induction t as [|v|rk c' IH|cs' IH|h] using node_ind';
      intros p left right a A pi vr Hp Hcan Hso Hu Hlen Vl Vr Hlt Lr E HB HNB; try solve [inversion Hcan].
    - (* short *)
      inversion Hp as [| |t0 e Hw Ee Le|k0 c0 x Hc|]; subst; [discriminate|].
      rewrite lk_short in Lr. destruct (strip rk right) as [r'|] eqn:Es; [|discriminate]. apply strip_some in Es.
      cbn [unset_internal] in E. cbv zeta in E.
      assert (Fr : bcmp (firstn (length rk) right) rk = Eq).
      { rewrite Es, firstn_app_exact. unfold bcmp. rewrite slice_lt_irrefl. reflexivity. }
      rewrite Fr in E.
      assert (Sk : skipn (length rk) right = r') by (rewrite Es; apply skipn_app_exact).
      destruct (bcmp (firstn (length rk) left) rk) eqn:Fl.
      + (* both edges run through *)
        apply bcmp_eq in Fl. pose proof (firstn_eq_split _ _ Fl) as El.
        remember (skipn (length rk) left) as l' eqn:Dl in *. rewrite Sk in E.
        destruct (can_short_inv _ _ Hcan) as [[Vrk [w ->]]|(Nk & Nne & cs & -> & Hc')].
        { exfalso. rewrite El in Vl. rewrite Es in Vr.
          pose proof (valid_key_prefix_end _ _ Vrk Vl) as E1. pose proof (valid_key_prefix_end _ _ Vrk Vr) as E2.
          rewrite E1, app_nil_r in El. rewrite E2, app_nil_r in Es. rewrite El, Es, slice_lt_irrefl in Hlt. discriminate. }
        inversion Hc as [| |t0 e Hw Ee Le| |cs0 cs1 Hl Hcs]; subst c0; [discriminate|]. subst cs1.
        destruct (unset_internal (NFull cs0) l' r') as [[x|]|e] eqn:Eu; try discriminate. inversion E; subst a. cbn [act_node].
        assert (Nl : l' <> []) by (intros En; rewrite En, app_nil_r in El; rewrite El in Vl; exact (valid_key_not_nibbles _ Vl Nk)).
        assert (Nr : r' <> []) by (intros En; rewrite En, app_nil_r in Es; rewrite Es in Vr; exact (valid_key_not_nibbles _ Vr Nk)).
        rewrite El in Vl, Hlt, Hlen, Hu, HB, HNB. rewrite Es in Vr, Hlt, Hlen, HB, HNB.
        destruct (valid_key_app_inv _ _ Vl Nl) as [_ Vl']. destruct (valid_key_app_inv _ _ Vr Nr) as [_ Vr'].
        rewrite slice_lt_app in Hlt. rewrite !app_length in Hlen.
        apply Q_short. apply (IH (NFull cs0) l' r' (UKeep x) A (pi ++ rk) vr); auto.
        * destruct Hso as [?|[[? ?]|Hw]]; try discriminate. inversion Hw; subst. right; right; assumption.
        * intros r v L. specialize (Hu (rk ++ r) v). rewrite lk_short, strip_app_same in Hu. specialize (Hu L).
          rewrite !app_length in Hu. lia.
        * lia.
        * intros r Br. rewrite <- app_assoc. apply HB. apply between_app. exact Br.
        * intros r Br. rewrite <- app_assoc. apply HNB. intros Bx. apply Br. apply (between_app rk). exact Bx.
      + (* the left edge passes below this node *)
        apply bcmp_lt in Fl.
        assert (Hleft : forall r, slice_lt left (rk ++ r) = true) by (intros r; apply slice_lt_firstn_l; exact Fl).
        rewrite Sk in E.
        destruct (can_short_inv _ _ Hcan) as [[Vrk [w ->]]|(Nk & Nne & cs & -> & Hc')].
        * apply (pv_value_r H) in Hc. subst c0. inversion E; subst a. cbn [act_node]. apply Q_removed.
          intros r v L A1. rewrite lk_leaf in L. destruct (bytes_eqb r rk) eqn:B; [|discriminate]. apply bytes_eqb_eq in B. subst r.
          rewrite Es in Vr. pose proof (valid_key_prefix_end _ _ Vrk Vr) as E2. rewrite E2, app_nil_r in Es.
          apply (HB rk); [|exact A1]. split; [right; rewrite <- (app_nil_r rk); apply Hleft|left; congruence].
        * inversion Hc as [| |t0 e Hw Ee Le| |cs0 cs1 Hl Hcs]; subst c0; [discriminate|]. subst cs1.
          destruct (unset (NFull cs0) r' true) as [[x|]|e] eqn:Eu; try discriminate. inversion E; subst a. cbn [act_node].
          assert (Nr : r' <> []) by (intros En; rewrite En, app_nil_r in Es; rewrite Es in Vr; exact (valid_key_not_nibbles _ Vr Nk)).
          assert (Vr' : valid_key r') by (rewrite Es in Vr; apply (valid_key_app_inv _ _ Vr Nr)).
          apply Q_short. apply (unset_Q (NFull cs) (NFull cs0) r' true (UKeep x) A (pi ++ rk)); auto.
          -- destruct Hso as [?|[[? ?]|Hw]]; try discriminate. inversion Hw; subst. right; right; assumption.
          -- intros r v L. specialize (Hu (rk ++ r) v). rewrite lk_short, strip_app_same in Hu. specialize (Hu L).
             rewrite Hlen, Es, !app_length in Hu. lia.
          -- intros r Gr. rewrite <- app_assoc. apply HB. split; [right; apply Hleft|].
             rewrite Es. unfold gone in Gr. destruct Gr as [->|Gr]; [left; reflexivity|right; rewrite slice_lt_app; exact Gr].
          -- intros r Sr. rewrite <- app_assoc. apply HNB. intros [_ [E2|L2]].
             ++ rewrite Es in E2. apply app_inv_head in E2. subst r. unfold stays in Sr. rewrite slice_lt_irrefl in Sr. discriminate.
             ++ rewrite Es, slice_lt_app in L2. unfold stays in Sr. rewrite (slice_lt_asym _ _ Sr) in L2. discriminate.
      + exfalso. apply bcmp_gt in Fl. rewrite Es in Hlt. rewrite (slice_lt_firstn_r _ _ r' Fl) in Hlt. discriminate.
    - (* branch *)
      inversion Hp as [| |t0 e Hw Ee Le| |cs0 cs1 Hl Hcs]; subst; [discriminate|].
      destruct (can_full_inv _ Hcan) as (L17 & Hch & Hv16 & _).
      destruct left as [|l0 lr]; [destruct Vl|]. destruct right as [|r0 rr0]; [destruct Vr|].
      apply valid_key_cons in Vl. apply valid_key_cons in Vr.
      assert (Hl0 : l0 < 16 /\ valid_key lr).
      { destruct Vl as [[-> ->]|Vl]; [|exact Vl]. exfalso. apply (can_full_not_len1 _ Hcan Hu). }
      assert (Hr0 : r0 < 16 /\ valid_key rr0).
      { destruct Vr as [[-> ->]|Vr]; [|exact Vr]. exfalso. simpl in Hlen. destruct lr; [|discriminate].
        apply (can_full_not_len1 _ Hcan Hu). }
      destruct Hl0 as [Hl0 Vlr]. destruct Hr0 as [Hr0 Vrr].
      assert (Hpw : pwf (NFull cs')) by (destruct Hso as [?|[[? ?]|Hw]]; try discriminate; exact Hw).
      rewrite lk_full in Lr. destruct (nth_error cs' (N.to_nat r0)) as [rn'|] eqn:Ern'; [|discriminate].
      rewrite unset_internal_full in E. unfold child in E.
      destruct (nth_error cs0 (N.to_nat l0)) as [ln|] eqn:Eln; [|discriminate].
      destruct (nth_error cs0 (N.to_nat r0)) as [rn|] eqn:Ern; [|discriminate].
      destruct (nth_error cs' (N.to_nat l0)) as [ln'|] eqn:Eln'; [|apply nth_error_None in Eln'; lia].
      pose proof (Hcs _ _ _ Eln Eln') as Pl. pose proof (Hcs _ _ _ Ern Ern') as Pr.
      assert (Hul : forall j c, nth_error cs' (N.to_nat j) = Some c -> ulen c (length lr)).
      { intros j c Ec r v L. specialize (Hu (j :: r) v). rewrite lk_full, Ec in Hu. specialize (Hu L). simpl in Hu. lia. }
      apply slice_lt_cons in Hlt. simpl in Hlen.
      (* the slots neither edge passes through *)
      assert (Hout : forall i x x', nth_error cs0 i = Some x -> nth_error cs' i = Some x' ->
                (N.of_nat i < l0 \/ r0 < N.of_nat i) -> Q A (pi ++ [N.of_nat i]) x x').
      { intros i x x' Ex Ex' Ho. apply Q_pv; [eapply Hcs; eassumption|]. intros r v L. rewrite <- app_assoc.
        apply HNB. apply between_cons_out. exact Ho. }
      destruct (if is_empty ln || is_empty rn then Some true else iface_neq l0 r0 ln rn) as [[|]|] eqn:Fk; [| |discriminate].
      + (* the fork point *)
        assert (Hne : l0 <> r0).
        { intros <-. rewrite Ern in Eln. inversion Eln; subst rn. rewrite Ern' in Eln'. inversion Eln'; subst rn'.
          assert (ln = NEmpty) by (destruct ln; try reflexivity; cbn in Fk; rewrite ?N.eqb_refl in Fk; discriminate).
          subst ln. apply (pv_empty_inv H) in Pl. subst ln'. rewrite lk_empty in Lr. discriminate. }
        assert (Hlt0 : l0 < r0) by lia.
        unfold ui_fork in E. cbv zeta in E. unfold child in E.
        set (cs1 := clear_range (N.to_nat l0 + 1) (N.to_nat r0) cs0) in E.
        assert (N1 : forall j, nth_error cs1 j = match nth_error cs0 j with
                  | Some x => Some (if Nat.ltb (N.to_nat l0) j && Nat.ltb j (N.to_nat r0) then NEmpty else x)
                  | None => None end).
        { intros j. unfold cs1. rewrite clear_range_nth. destruct (nth_error cs0 j); [|reflexivity].
          replace (Nat.leb (N.to_nat l0 + 1) j) with (Nat.ltb (N.to_nat l0) j); [reflexivity|].
          destruct (Nat.ltb_spec (N.to_nat l0) j); symmetry; [apply Nat.leb_le|apply Nat.leb_gt]; lia. }
        rewrite N1, Eln in E. rewrite Nat.ltb_irrefl in E. cbn [andb] in E.
        destruct (unset ln lr false) as [a1|e1] eqn:E1; [|discriminate].
        destruct (apply_act cs1 l0 a1) as [cs2|] eqn:A1; [|discriminate].
        destruct (apply_act_nth _ _ _ _ A1) as [L2 N2].
        rewrite N2 in E. replace (Nat.eqb (N.to_nat r0) (N.to_nat l0)) with false in E by (symmetry; apply Nat.eqb_neq; lia).
        rewrite N1, Ern in E. rewrite Nat.ltb_irrefl, andb_false_r in E.
        destruct (unset rn rr0 true) as [a2|e2] eqn:E2; [|discriminate].
        destruct (apply_act cs2 r0 a2) as [cs3|] eqn:A2; [|discriminate].
        destruct (apply_act_nth _ _ _ _ A2) as [L3 N3].
        inversion E; subst a. cbn [act_node].
        assert (Lc1 : length cs1 = length cs0) by apply clear_range_length.
        apply Q_full; [lia|]. intros i x x' Ex Ex'. rewrite N3 in Ex.
        destruct (Nat.eqb i (N.to_nat r0)) eqn:Br.
        * apply Nat.eqb_eq in Br. subst i. inversion Ex; subst x. rewrite Ern' in Ex'. inversion Ex'; subst x'. rewrite N2Nat.id.
          assert (Hur : ulen rn' (length rr0)).
          { intros r v L. specialize (Hu (r0 :: r) v). rewrite lk_full, Ern' in Hu. specialize (Hu L). simpl in Hu. lia. }
          apply (unset_Q rn' rn rr0 true a2 A (pi ++ [r0]) Pr (pwf_full_slot _ _ _ Hpw Ern') (Hch _ _ Ern' ltac:(lia)) Hur (or_intror Vrr) E2).
          -- intros r Gr. rewrite <- app_assoc. apply HB. apply between_cons_right; assumption.
          -- intros r Sr. rewrite <- app_assoc. apply HNB. intros Bx. apply between_cons_right in Bx; [|exact Hlt0].
             exact (gone_not_stays _ _ _ Bx Sr).
        * apply Nat.eqb_neq in Br. rewrite N2 in Ex. destruct (Nat.eqb i (N.to_nat l0)) eqn:Bl.
          -- apply Nat.eqb_eq in Bl. subst i. inversion Ex; subst x. rewrite Eln' in Ex'. inversion Ex'; subst x'. rewrite N2Nat.id.
             apply (unset_Q ln' ln lr false a1 A (pi ++ [l0]) Pl (pwf_full_slot _ _ _ Hpw Eln') (Hch _ _ Eln' ltac:(lia)) (Hul _ _ Eln') (or_intror Vlr) E1).
             ++ intros r Gr. rewrite <- app_assoc. apply HB. apply between_cons_left; assumption.
             ++ intros r Sr. rewrite <- app_assoc. apply HNB. intros Bx. apply between_cons_left in Bx; [|exact Hlt0].
                exact (gone_not_stays _ _ _ Bx Sr).
          -- apply Nat.eqb_neq in Bl. rewrite N1 in Ex. destruct (nth_error cs0 i) as [y|] eqn:Ey; [|discriminate].
             inversion Ex; subst x. destruct (Nat.ltb (N.to_nat l0) i && Nat.ltb i (N.to_nat r0)) eqn:Bm.
             ++ apply andb_true_iff in Bm. destruct Bm as [B1 B2]. apply Nat.ltb_lt in B1. apply Nat.ltb_lt in B2.
                apply Q_removed. intros r v L Ax. rewrite <- app_assoc in Ax. apply (HB (N.of_nat i :: r)); [|exact Ax].
                apply between_cons_mid; lia.
             ++ apply Hout; auto. apply andb_false_iff in Bm. destruct Bm as [B1|B1]; apply Nat.ltb_ge in B1; lia.
      + (* both edges continue into the same child *)
        assert (l0 = r0).
        { destruct (is_empty ln || is_empty rn); [discriminate|].
          destruct ln, rn; cbn in Fk; try discriminate; inversion Fk as [Fe]; apply negb_false_iff in Fe; apply N.eqb_eq; exact Fe. }
        subst r0. rewrite Ern in Eln. inversion Eln; subst rn. rewrite Ern' in Eln'. inversion Eln'; subst rn'.
        destruct (unset_internal ln lr rr0) as [a0|e0] eqn:Eu; [|discriminate].
        destruct (apply_act cs0 l0 a0) as [cs2|] eqn:Aa; [|discriminate]. inversion E; subst a. cbn [act_node].
        destruct (apply_act_nth _ _ _ _ Aa) as [L2 N2].
        destruct Hlt as [?|[_ Hlt]]; [lia|].
        assert (Cl : can ln').
        { destruct (Hch _ _ Ern' ltac:(lia)) as [->|Cl]; [rewrite lk_empty in Lr; discriminate|exact Cl]. }
        apply Q_full; [lia|]. intros i x x' Ex Ex'. rewrite N2 in Ex. destruct (Nat.eqb i (N.to_nat l0)) eqn:B.
        * apply Nat.eqb_eq in B. subst i. inversion Ex; subst x. rewrite Ern' in Ex'. inversion Ex'; subst x'. rewrite N2Nat.id.
          rewrite Forall_forall in IH. assert (Hlen' : length lr = length rr0) by lia.
          apply (IH ln' (nth_error_In _ _ Ern') ln lr rr0 a0 A (pi ++ [l0]) vr Pl Cl (pwf_full_slot _ _ _ Hpw Ern')
                   (Hul _ _ Ern') Hlen' Vlr Vrr Hlt Lr Eu).
          -- intros r Br. rewrite <- app_assoc. apply HB. apply between_cons_same. exact Br.
          -- intros r Br. rewrite <- app_assoc. apply HNB. intros Bx. apply Br. apply (between_cons_same l0). exact Bx.
        * apply Nat.eqb_neq in B. apply Hout; auto. lia.
  Qed.

  (* re-inserting the whole run *)
  Lemma reinsert_Q t : forall keys values A p,
    Q A [] p t -> slotcan t ->
    Forall (fun k => forallb byteb k = true /\ ulen t (length (keybytes_to_hex k))) keys ->
    Forall (fun v => v <> []) values ->
    Forall2 (fun k v => lk t (keybytes_to_hex k) = Some v) keys values ->
    Forall (fun k => ~ A (keybytes_to_hex k)) keys ->
    NoDup (map keybytes_to_hex keys) ->
    exists p3, reinsert p keys values = Rok p3 /\
               Q (fun x => A x \/ In x (map keybytes_to_hex keys)) [] p3 t.
  Proof.
    induction keys as [|k kr IH]; intros values A p Hq Hs HK HV HL HA HN.
    - inversion HL; subst. exists p. split; [reflexivity|]. eapply Q_ext; [|exact Hq]. intros r. simpl. tauto.
    - inversion HL as [|? v ? vr Lk HL']; subst. inversion HK as [|? ? [Hb Hu] HK']; subst.
      inversion HV as [|? ? Hv HV']; subst. inversion HA as [|? ? Ha HA']; subst. inversion HN as [|? ? Hnin HN']; subst.
      cbn [reinsert]. unfold update. cbv zeta. destruct v as [|b0 v]; [congruence|].
      set (hk0 := keybytes_to_hex k) in *.
      destruct (insert_Q (ops_fuel hk0) A [] p t [] hk0 (b0 :: v) Hq Hs Hu (keybytes_to_hex_valid _ Hb) (ops_fuel_ok hk0) Lk Ha)
        as (d & p1 & ev & Ei & Hq1).
      rewrite Ei.
      destruct (IH vr (fun x => A x \/ x = [] ++ hk0) p1 Hq1 Hs HK' HV' HL') as (p3 & E3 & Hq3); auto.
      + apply Forall_forall. intros k' Hin [Ax|Ex].
        * rewrite Forall_forall in HA'. exact (HA' _ Hin Ax).
        * apply Hnin. simpl in Ex. rewrite <- Ex. apply in_map. exact Hin.
      + exists p3. split; [exact E3|]. eapply Q_ext; [|exact Hq3]. intros r. simpl. fold hk0. split.
        * intros [[Ax|Ex]|Hin]; [left; exact Ax|right; left; congruence|right; right; exact Hin].
        * intros [Ax|[Ex|Hin]]; [left; left; exact Ax|left; right; congruence|right; exact Hin].
  Qed.
End Rebuild.

Lemma between_dec l r k : {between l r k} + {~ between l r k}.
Proof.
  unfold between.
  destruct (list_eq_dec N.eq_dec k l) as [E1|N1]; destruct (slice_lt l k) eqn:L1;
    destruct (list_eq_dec N.eq_dec k r) as [E2|N2]; destruct (slice_lt k r) eqn:L2;
    try (left; split; auto; fail); right; intros [[?|?] [?|?]]; congruence.
Qed.

Lemma sorted_from_all prev keys : sorted_from prev keys -> Forall (fun k => slice_lt prev k = true) keys.
Proof.
  revert prev. induction keys as [|k kr IH]; intros prev Hs; [constructor|]. destruct Hs as [L Hs]. constructor; [exact L|].
  eapply Forall_impl; [|apply IH; exact Hs]. intros x Lx. eapply slice_lt_trans; eassumption.
Qed.

Lemma sorted_nodup keys : sorted keys -> NoDup keys.
Proof.
  destruct keys as [|k kr]; [constructor|]. simpl. revert k. induction kr as [|k2 kr IH]; intros k Hs.
  - constructor; [intros []|constructor].
  - destruct Hs as [L Hs]. constructor; [|apply IH; exact Hs].
    intros Hin. pose proof (sorted_from_all k (k2 :: kr) (conj L Hs)) as Hall. rewrite Forall_forall in Hall.
    specialize (Hall _ Hin). rewrite slice_lt_irrefl in Hall. discriminate.
Qed.

Section Honest.
  Variable H : list N -> list N.
  Hypothesis H_len : forall x, length (H x) = 32%nat.
  Variable db : pdb.
  Variable P : list N -> Prop.
  Hypothesis faithful : forall e b, P e -> db_get db (H e) = Some b -> b = e.
  Variable t : node.
  Variable r : list N.
  Hypothesis Hcan : can t.
  Hypothesis Hok : content_ok t.
  Hypothesis Hroot : hash_root H t = Some r.
  Hypothesis HP : forall e, genuine H t e -> P e.

  (* range_complete_honest: the honest response to a range request - the run is exactly the
     content of the trie on [firstKey, lastKey], the root node and the hashed nodes on the two
     edge paths are in the proof set - is accepted, and "more" is exactly "the trie holds a key
     beyond the last one" *)
  Theorem range_complete_honest first last keys values Lb :
    keys_fixed t Lb -> (0 < Lb)%nat -> N.of_nat Lb < 2 ^ 30 ->
    length first = Lb -> forallb byteb first = true ->
    Forall (fun k => length k = Lb /\ forallb byteb k = true) keys ->
    sorted keys ->
    Forall2 (fun k v => lk t (keybytes_to_hex k) = Some v) keys values ->
    Forall (fun k => between (keybytes_to_hex first) (keybytes_to_hex last) (keybytes_to_hex k)) keys ->
    (forall hk v, lk t hk = Some v -> between (keybytes_to_hex first) (keybytes_to_hex last) hk ->
                  In hk (map keybytes_to_hex keys)) ->
    last_opt keys = Some last ->
    (forall k0, hd_error keys = Some k0 -> slice_lt k0 first = false) ->
    slice_lt first last = true ->
    db_get db r <> None ->
    ~ missing_on H db t (keybytes_to_hex first) -> ~ missing_on H db t (keybytes_to_hex last) ->
    exists b, verify_range_proof H r first keys values (Some db) = Rok b /\
              (b = true <-> has_gt t (keybytes_to_hex last)).
  Proof.
    intros Hfix HL0 HLs Hlf Hbf HK Hsorted HL2 Hin Hcov Hlast Hfirst Hlt Hr Hm1 Hm2.
    pose proof (can_pwf t Hcan Hok) as Hw.
    assert (El : length keys = length values) by (clear - HL2; induction HL2; simpl; congruence).
    assert (HKl : Forall (fun k => length k = Lb) keys) by (eapply Forall_impl; [|exact HK]; intros k [? _]; assumption).
    assert (Hne : Forall (fun v => v <> []) values).
    { clear - HL2 Hok. induction HL2 as [|k v ks vs L _ IH]; constructor; [|exact IH]. destruct (Hok _ _ L) as [[Hv _] _]. exact Hv. }
    assert (Hlin : In last keys) by (apply last_opt_in; exact Hlast).
    assert (Hll : length last = Lb /\ forallb byteb last = true) by (rewrite Forall_forall in HK; apply HK; exact Hlin).
    destruct Hll as [Hll Hbl].
    assert (Lvl : exists vl, lk t (keybytes_to_hex last) = Some vl).
    { clear - HL2 Hlin. induction HL2 as [|k v ks vs L _ IH]; [destruct Hlin|]. destruct Hlin as [->|Hi]; eauto. }
    destruct Lvl as [vl Lvl].
    assert (Hulen : forall k, length k = Lb -> ulen t (length (keybytes_to_hex k))).
    { intros k Hk. rewrite hex_length, Hk. apply keys_fixed_ulen. exact Hfix. }
    unfold verify_range_proof. rewrite El, Nat.eqb_refl. cbn [negb].
    assert (C : check_run keys values = None) by (apply (check_run_spec Lb keys values HKl El); auto).
    rewrite C. destruct keys as [|k0 kr]; [discriminate|]. destruct values as [|v0 vr]; [discriminate|].
    rewrite (Hfirst k0 eq_refl), Hlast.
    assert (Hbr : bytes_eqb first last = false).
    { destruct (bytes_eqb first last) eqn:B; [|reflexivity]. apply bytes_eqb_eq in B. subst last.
      rewrite slice_lt_irrefl in Hlt. discriminate. }
    rewrite Hbr, andb_false_r, Hlt. cbn [negb]. rewrite Hlf, Hll, Nat.eqb_refl. cbn [negb].
    destruct (ptp_root H H_len db P faithful t r Hcan Hok Hroot HP first true Hbf) as [[G _]|[_ Q1]]; [congruence|].
    destruct (proof_to_path db r None first true) as [[root1 val1]|e1]; cbn [ptp_post] in Q1.
    2: { exfalso. destruct Q1 as [[_ M]|(_ & A & _)]; [exact (Hm1 M)|discriminate]. }
    destruct Q1 as (Pv1 & In1 & _ & Rs1 & _).
    unfold proof_to_path at 1. cbv zeta.
    pose proof (ptp_spec H H_len db P faithful _ root1 t (keybytes_to_hex last) true Pv1 Hw In1
                  (keybytes_to_hex_valid _ Hbl) (ptp_fuel_ok _ db) HP) as Q2.
    destruct (ptp (ptp_fuel (keybytes_to_hex last) db) db true root1 (keybytes_to_hex last)) as [[root2 val2]|e2] eqn:E2;
      cbn [ptp_post] in Q2.
    2: { exfalso. destruct Q2 as [[_ M]|(_ & A & _)]; [exact (Hm2 M)|discriminate]. }
    destruct Q2 as (Pv2 & In2 & _ & Rs2 & _).
    pose proof (ptp_res_mono _ _ _ _ _ _ _ E2 _ Rs1) as Rs1'.
    assert (Hu0 : ulen t (length (keybytes_to_hex first))) by (apply Hulen; exact Hlf).
    assert (Hlen0 : length (keybytes_to_hex first) = length (keybytes_to_hex last)) by (rewrite !hex_length; lia).
    assert (Hlt0 : slice_lt (keybytes_to_hex first) (keybytes_to_hex last) = true) by (rewrite slice_lt_hex; auto; lia).
    destruct (unset_internal_progress H H_len t root2 (keybytes_to_hex first) (keybytes_to_hex last) Hcan Pv2 Rs1' Rs2
                Hu0 Hlen0 (keybytes_to_hex_valid _ Hbf) (keybytes_to_hex_valid _ Hbl) Hlt0)
      as [(act & E3 & _)|E3].
    2: { exfalso. exact (no_empty_range H t _ _ _ _ Pv2 Lvl E3). }
    rewrite E3.
    change (match act with URemove => NEmpty | UKeep r0 => r0 end) with (act_node act).
    (* the invariant: everything outside the interval is present, nothing inside *)
    set (A0 := fun k => ~ between (keybytes_to_hex first) (keybytes_to_hex last) k).
    assert (Q0 : Q H A0 [] (act_node act) t).
    { apply (unset_internal_Q H H_len t root2 (keybytes_to_hex first) (keybytes_to_hex last) act A0 [] vl Pv2 Hcan
               (or_intror (or_intror Hw)) Hu0 Hlen0 (keybytes_to_hex_valid _ Hbf) (keybytes_to_hex_valid _ Hbl) Hlt0 Lvl E3).
      - intros x B nB. exact (nB B).
      - intros x nB. exact nB. }
    destruct (reinsert_Q H H_len t (k0 :: kr) (v0 :: vr) A0 (act_node act) Q0 (or_intror (or_intror Hcan))) as (root3 & E4 & Q3); auto.
    { eapply Forall_impl; [|exact HK]. intros k [Hk1 Hk2]. split; [exact Hk2|apply Hulen; exact Hk1]. }
    { eapply Forall_impl; [|exact Hin]. intros k B nB. exact (nB B). }
    { assert (ND : NoDup (k0 :: kr)) by (apply sorted_nodup; exact Hsorted).
      clear - ND HK. induction ND as [|x l Hx ND IH]; [constructor|]. inversion HK as [|? ? [_ Hbx] HK']; subst.
      simpl. constructor; [|apply IH; exact HK']. intros Hi. apply in_map_iff in Hi. destruct Hi as (y & Ey & Hy).
      rewrite Forall_forall in HK'. destruct (HK' _ Hy) as [_ Hby].
      apply hex_inj in Ey; [subst y; exact (Hx Hy)|exact Hby|exact Hbx]. }
    rewrite E4.
    assert (Pv4 : pv H root3 t).
    { apply (Q_final H H_len _ t [] root3 Q3 (or_intror (or_intror Hcan))). intros x v Lx. simpl.
      destruct (between_dec (keybytes_to_hex first) (keybytes_to_hex last) x) as [B|nB]; [right; eapply Hcov; eassumption|left; exact nB]. }
    rewrite (hash_root_pv' H H_len _ _ Pv4 (or_intror Hw)), Hroot, bytes_eqb_refl. cbn [negb].
    pose proof (reinsert_res _ _ _ _ _ Hne E4 Hlast) as Rs3.
    destruct (has_right_spec H H_len t root3 (keybytes_to_hex last) (or_intror (or_intror Hcan)) Pv4 (or_introl Rs3)
                (Hulen _ Hll) (or_intror (keybytes_to_hex_valid _ Hbl))) as (b & Eb & Hb).
    rewrite Eb. exists b. split; [reflexivity|exact Hb].
  Qed.
End Honest.
