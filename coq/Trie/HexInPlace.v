(* Trie/HexInPlace.v — hexToCompactInPlace (index-wise overwrite of the input
   slice) computes the same bytes as hexToCompact, for every non-empty input.
   The empty input is the exact exception: Go's  hex[0] = firstByte  panics on
   it while hexToCompact returns [0]; both callers (stacktrie.go ext/leaf
   encoding) pass non-empty keys. *)
From GV Require Import Lib.Tactics Trie.Hex Trie.HexProofs.
Local Open Scope nat_scope.

(* ---------- list plumbing ---------- *)

Lemma nth_error_ext {A} (l1 l2 : list A) :
  (forall i, nth_error l1 i = nth_error l2 i) -> l1 = l2.
Proof.
  revert l2. induction l1 as [|x l1 IH]; intros [|y l2] H.
  - reflexivity.
  - specialize (H 0). discriminate.
  - specialize (H 0). discriminate.
  - pose proof (H 0) as H0. cbn in H0. inversion H0; subst. f_equal.
    apply IH. intros i. exact (H (S i)).
Qed.

Lemma nth_error_firstn_lt {A} n (l : list A) i :
  i < n -> nth_error (firstn n l) i = nth_error l i.
Proof.
  revert l i. induction n as [|n IH]; intros l i H; [lia|].
  destruct l as [|x l]; [destruct i; reflexivity|].
  destruct i as [|i]; [reflexivity|]. cbn. apply IH. lia.
Qed.

Lemma nth_error_firstn_ge {A} n (l : list A) i :
  n <= i -> nth_error (firstn n l) i = None.
Proof.
  intros H. apply nth_error_None. rewrite firstn_length. lia.
Qed.

Lemma upd_some {A} i (v : A) l : i < length l -> exists l', upd i v l = Some l'.
Proof.
  revert i. induction l as [|x l IH]; intros i H; [cbn in H; lia|].
  destruct i as [|i]; [eexists; reflexivity|].
  cbn [length] in H. destruct (IH i ltac:(lia)) as [l' E]. cbn [upd]. rewrite E. eauto.
Qed.

Lemma upd_spec {A} i (v : A) l l' :
  upd i v l = Some l' ->
  length l' = length l /\
  forall j, nth_error l' j = if Nat.eqb j i then Some v else nth_error l j.
Proof.
  revert i l'. induction l as [|x l IH]; intros i l' H; [destruct i; discriminate|].
  destruct i as [|i].
  - inversion H; subst. split; [reflexivity|]. intros [|j]; reflexivity.
  - cbn [upd] in H. destruct (upd i v l) as [r|] eqn:E; [|discriminate].
    inversion H; subst. destruct (IH i r E) as [L N]. split; [cbn; lia|].
    intros [|j]; [reflexivity|]. cbn [nth_error]. rewrite N. reflexivity.
Qed.

Lemma removelast_firstn_len' {A} (l : list A) : removelast l = firstn (length l - 1) l.
Proof.
  destruct l as [|x l]; [reflexivity|].
  replace (length (x :: l) - 1) with (pred (length (x :: l))) by lia.
  apply removelast_firstn_len.
Qed.

(* ---------- decode_nibbles, index-wise ---------- *)

Lemma decode_nth l t :
  decode_nibbles l = Some t ->
  forall i, i < length t ->
    exists a b, nth_error l (2 * i) = Some a /\ nth_error l (2 * i + 1) = Some b /\
                nth_error t i = Some (bor4 a b).
Proof.
  revert t. induction l as [|a|a b l IH] using pair_list_ind; intros t D i Hi.
  - inversion D; subst. cbn in Hi. lia.
  - discriminate.
  - cbn [decode_nibbles] in D. destruct (decode_nibbles l) as [t'|] eqn:E; [|discriminate].
    inversion D; subst. destruct i as [|i].
    + exists a, b. repeat split.
    + cbn [length] in Hi. destruct (IH t' eq_refl i ltac:(lia)) as [a' [b' [H1 [H2 H3]]]].
      exists a', b'. replace (2 * S i) with (S (S (2 * i))) by lia.
      replace (S (S (2 * i)) + 1) with (S (S (2 * i + 1))) by lia.
      cbn [nth_error]. auto.
Qed.

(* ---------- the loop ---------- *)

Lemma ip_loop_spec (o : list N) :
  forall n ni bi s,
    length s = length o ->
    1 <= bi -> bi <= ni + 1 -> (ni = 0 \/ bi <= ni) ->
    ni + 2 * n <= length o ->
    (forall j, (j = 0 \/ bi <= j) -> nth_error s j = nth_error o j) ->
    exists r, ip_loop n ni bi s = Some r /\ length r = length s /\
      (forall j, j < bi -> nth_error r j = nth_error s j) /\
      (forall i, i < n -> exists a b,
          nth_error o (ni + 2 * i) = Some a /\ nth_error o (ni + 2 * i + 1) = Some b /\
          nth_error r (bi + i) = Some (bor4 a b)).
Proof.
  induction n as [|n IH]; intros ni bi s Ls B1 B2 B3 Bn Inv.
  - exists s. cbn [ip_loop]. repeat split; auto. intros i Hi; lia.
  - cbn [ip_loop].
    assert (Ha : exists a, nth_error o ni = Some a).
    { destruct (nth_error o ni) eqn:E; eauto. apply nth_error_None in E. lia. }
    assert (Hb : exists b, nth_error o (ni + 1) = Some b).
    { destruct (nth_error o (ni + 1)) eqn:E; eauto. apply nth_error_None in E. lia. }
    destruct Ha as [a Ha]. destruct Hb as [b Hb].
    rewrite (Inv ni) by lia. rewrite (Inv (ni + 1)) by lia. rewrite Ha, Hb.
    destruct (upd_some bi (bor4 a b) s ltac:(lia)) as [s' Es]. rewrite Es.
    destruct (upd_spec _ _ _ _ Es) as [Ls' Ns'].
    destruct (IH (ni + 2) (bi + 1) s') as [r [Er [Lr [Rlow Rhi]]]]; try lia.
    { intros j Hj. rewrite Ns'. destruct (Nat.eqb_spec j bi) as [->|Ne]; [lia|].
      apply Inv. lia. }
    exists r. split; [exact Er|]. split; [lia|]. split.
    + intros j Hj. rewrite Rlow by lia. rewrite Ns'.
      destruct (Nat.eqb_spec j bi) as [->|Ne]; [lia|reflexivity].
    + intros i Hi. destruct i as [|i].
      * exists a, b. replace (ni + 2 * 0) with ni by lia. replace (bi + 0) with bi by lia.
        repeat split; auto. rewrite Rlow by lia. rewrite Ns', Nat.eqb_refl. reflexivity.
      * destruct (Rhi i ltac:(lia)) as [a' [b' [H1 [H2 H3]]]]. exists a', b'.
        replace (ni + 2 * S i) with (ni + 2 + 2 * i) by lia.
        replace (bi + S i) with (bi + 1 + i) by lia. auto.
Qed.

(* ---------- hex_to_compact, index-wise ---------- *)

(* common shape of both encoders: [p] = path without terminator *)
Lemma hp_body_nth flag p c :
  hp_body flag p = Some c ->
  let ni0 := if Nat.odd (length p) then 1 else 0 in
  length c = length p / 2 + 1 /\
  nth_error c 0 = Some (if Nat.odd (length p)
                        then N.lor (N.lor flag 16) (hd 0%N p) else flag) /\
  forall i, i < length p / 2 -> exists a b,
      nth_error p (ni0 + 2 * i) = Some a /\ nth_error p (ni0 + 2 * i + 1) = Some b /\
      nth_error c (1 + i) = Some (bor4 a b).
Proof.
  unfold hp_body. destruct (Nat.odd (length p)) eqn:O.
  - destruct p as [|h0 rest]; [discriminate|].
    destruct (decode_nibbles rest) as [t|] eqn:D; [|discriminate].
    intros E; inversion E; subst c; clear E. cbn zeta.
    pose proof (decode_length _ _ D) as L.
    assert (L2 : length (h0 :: rest) / 2 = length t).
    { cbn [length]. rewrite L. replace (S (2 * length t)) with (1 + length t * 2) by lia.
      rewrite Nat.div_add by lia. reflexivity. }
    split; [cbn [length] in *; lia|]. split; [reflexivity|].
    intros i Hi. rewrite L2 in Hi.
    destruct (decode_nth _ _ D i Hi) as [a [b [H1 [H2 H3]]]]. exists a, b.
    replace (1 + 2 * i) with (S (2 * i)) by lia. replace (S (2 * i) + 1) with (S (2 * i + 1)) by lia.
    cbn [nth_error]. auto.
  - destruct (decode_nibbles p) as [t|] eqn:D; [|discriminate].
    intros E; inversion E; subst c; clear E. cbn zeta.
    pose proof (decode_length _ _ D) as L.
    assert (L2 : length p / 2 = length t).
    { rewrite L. replace (2 * length t) with (length t * 2) by lia. apply Nat.div_mul. lia. }
    split; [cbn [length]; lia|]. split; [reflexivity|].
    intros i Hi. rewrite L2 in Hi.
    destruct (decode_nth _ _ D i Hi) as [a [b [H1 [H2 H3]]]]. exists a, b.
    cbn [plus nth_error]. auto.
Qed.

Theorem in_place_eq h :
  h <> [] -> hex_to_compact_in_place h = hex_to_compact h.
Proof.
  intros Hne.
  destruct (hex_to_compact_total h) as [c Ec]. rewrite Ec.
  unfold hex_to_compact in Ec. unfold hex_to_compact_in_place.
  assert (Ht : (match length h with 0 => false | S _ => N.eqb (last h 0%N) 16 end) = has_term h).
  { unfold has_term. destruct h; [congruence|reflexivity]. }
  rewrite Ht.
  set (term := has_term h) in *.
  set (p := if term then removelast h else h) in *.
  set (flag := (if term then 32 else 0)%N) in *.
  set (hexLen := if term then length h - 1 else length h).
  assert (Lp : length p = hexLen).
  { unfold p, hexLen. destruct term; [|reflexivity].
    rewrite removelast_firstn_len', firstn_length. lia. }
  assert (Lh : 1 <= length h) by (destruct h; [congruence|cbn; lia]).
  assert (HL : hexLen <= length h) by (unfold hexLen; destruct term; lia).
  assert (Np : forall j, j < hexLen -> nth_error p j = nth_error h j).
  { intros j Hj. unfold p, hexLen in *. destruct term; [|reflexivity].
    rewrite removelast_firstn_len'. apply nth_error_firstn_lt. exact Hj. }
  change (hp_body flag p = Some c) in Ec.
  destruct (hp_body_nth _ _ _ Ec) as [Lc [C0 Ci]]. rewrite Lp in *.
  set (odd := Nat.odd hexLen) in *.
  set (ni0 := if odd then 1 else 0) in *.
  (* first byte *)
  assert (Hfb : (if odd then match nth_error h 0 with
                            | Some h0 => Some (N.lor (N.lor flag 16) h0) | None => None end
                 else Some flag)
                = Some (if odd then N.lor (N.lor flag 16) (hd 0%N p) else flag)).
  { destruct odd eqn:O; [|reflexivity].
    assert (0 < hexLen) by (destruct hexLen; [cbn in O; discriminate|lia]).
    rewrite <- (Np 0) by lia. destruct p as [|x p']; [cbn in Lp; lia|]. reflexivity. }
  rewrite Hfb. clear Hfb.
  (* iterations *)
  assert (Hit : (hexLen - ni0 + 1) / 2 = hexLen / 2 /\ ni0 + 2 * (hexLen / 2) = hexLen).
  { unfold ni0, odd. destruct (Nat.odd hexLen) eqn:O.
    - apply Nat.odd_spec in O. destruct O as [k Hk]. rewrite Hk.
      replace (2 * k + 1 - 1 + 1) with (1 + k * 2) by lia.
      replace (2 * k + 1) with (1 + k * 2) by lia.
      rewrite !Nat.div_add by lia. cbn. lia.
    - assert (E : Nat.even hexLen = true) by (rewrite <- Nat.negb_odd, O; reflexivity).
      apply Nat.even_spec in E. destruct E as [k Hk]. rewrite Hk.
      replace (2 * k - 0 + 1) with (1 + k * 2) by lia.
      replace (2 * k) with (k * 2) by lia.
      rewrite Nat.div_add, Nat.div_mul by lia. cbn. lia. }
  destruct Hit as [Hit Hsum]. rewrite Hit.
  destruct (ip_loop_spec h (hexLen / 2) ni0 1 h) as [r [Er [Lr [Rlow Rhi]]]]; try lia; auto.
  all: try (unfold ni0; destruct odd; cbn iota; lia).
  rewrite Er.
  destruct (upd_some 0 (if odd then N.lor (N.lor flag 16) (hd 0%N p) else flag) r ltac:(lia))
    as [r' Er']. rewrite Er'.
  destruct (upd_spec _ _ _ _ Er') as [Lr' Nr'].
  f_equal. apply nth_error_ext. intros i.
  destruct (Nat.lt_ge_cases i (hexLen / 2 + 1)) as [Hi|Hi].
  - rewrite nth_error_firstn_lt by exact Hi. rewrite Nr'.
    destruct i as [|i]; [cbn [Nat.eqb]; symmetry; exact C0|].
    cbn [Nat.eqb].
    destruct (Ci i ltac:(lia)) as [a [b [H1 [H2 H3]]]].
    destruct (Rhi i ltac:(lia)) as [a' [b' [G1 [G2 G3]]]].
    rewrite Np in H1 by lia. rewrite Np in H2 by lia.
    rewrite H1 in G1. rewrite H2 in G2. inversion G1; inversion G2; subst.
    cbn [Nat.add] in H3, G3. rewrite H3. exact G3.
  - rewrite nth_error_firstn_ge by exact Hi. symmetry. apply nth_error_None. lia.
Qed.
