(* Trie/StackProofs.v — the stack trie (Trie/Stack.v, stacktrie.go) is sound
   w.r.t. the ordinary trie (Trie/Ops.v): whenever the builder accepts a
   sequence of updates and produces a root, it is the root hash of the trie
   obtained by inserting the same pairs one by one.

   [R st n]: stack node [st] represents trie node [n]; a hashed stack node
   holds the reference (embedded encoding or hash) of the subtrie it replaced. *)
From GV Require Import Lib.Tactics Lib.Bytes Rlp.Codec Trie.Hex Trie.HexProofs Trie.HexInPlace Trie.Node Trie.Ops Trie.Hash Trie.OpsProofs Trie.Canon Trie.Stack.
Local Open Scope N_scope.

Section stnode_ind'.
  Variable P : stnode -> Prop.
  Hypothesis HN : P StNil.
  Hypothesis HE : P StEmpty.
  Hypothesis HB : forall cs, Forall P cs -> P (StBranch cs).
  Hypothesis HX : forall k c, P c -> P (StExt k c).
  Hypothesis HL : forall k v, P (StLeaf k v).
  Hypothesis HH : forall v, P (StHashed v).
  Fixpoint stnode_ind' (n : stnode) : P n :=
    match n with
    | StNil => HN
    | StEmpty => HE
    | StBranch cs =>
        HB cs ((fix go (l : list stnode) : Forall P l :=
                  match l with
                  | [] => Forall_nil P
                  | y :: r => Forall_cons y (stnode_ind' y) (go r)
                  end) cs)
    | StExt k c => HX k c (stnode_ind' c)
    | StLeaf k v => HL k v
    | StHashed v => HH v
    end.
End stnode_ind'.

Definition inner (n : node) : Prop :=
  match n with NShort _ _ | NFull _ => True | _ => False end.

Lemma enc_head_nonempty a b s : enc_head a b s <> [].
Proof. unfold enc_head. destruct (s <? 56); discriminate. Qed.

Lemma list_wrap_nonempty p : list_wrap p <> [].
Proof.
  unfold list_wrap. destruct (enc_head 192 247 (lenN p)) eqn:E; [|discriminate].
  exfalso. exact (enc_head_nonempty _ _ _ E).
Qed.

Section SP.
  Variable H : list N -> list N.
  Hypothesis H_len : forall x, length (H x) = 32%nat.

  Inductive R : stnode -> node -> Prop :=
  | R_leaf k v : nibbles k -> R (StLeaf k v) (NShort (k ++ [16]) (NValue v))
  | R_ext k c cs : k <> [] -> nibbles k -> R c (NFull cs) -> R (StExt k c) (NShort k (NFull cs))
  | R_branch scs cs :
      length scs = 16%nat -> length cs = 17%nat -> nth_error cs 16 = Some NEmpty ->
      (forall i c, nth_error scs i = Some c ->
         exists n, nth_error cs i = Some n /\
                   ((c = StNil /\ n = NEmpty) \/ (c <> StNil /\ inner n /\ R c n))) ->
      R (StBranch scs) (NFull cs)
  | R_hashed v n e : inner n -> node_enc H n = Some e -> v = ref_of_enc H e -> R (StHashed v) n.

  Lemma R_inv st n : R st n ->
    match st with
    | StLeaf k v => n = NShort (k ++ [16]) (NValue v) /\ nibbles k
    | StExt k c => exists cs, n = NShort k (NFull cs) /\ k <> [] /\ nibbles k /\ R c (NFull cs)
    | StBranch scs =>
        exists cs, n = NFull cs /\ length scs = 16%nat /\ length cs = 17%nat /\
          nth_error cs 16 = Some NEmpty /\
          (forall i c, nth_error scs i = Some c ->
             exists n, nth_error cs i = Some n /\
                       ((c = StNil /\ n = NEmpty) \/ (c <> StNil /\ inner n /\ R c n)))
    | StHashed v => exists e, inner n /\ node_enc H n = Some e /\ v = ref_of_enc H e
    | _ => False
    end.
  Proof. destruct 1; eauto 10. Qed.

  Lemma node_enc_nonempty n e : node_enc H n = Some e -> e <> [].
  Proof.
    destruct n; try discriminate.
    - rewrite node_enc_short. destruct (hex_to_compact k); [|discriminate]. cbv zeta.
      match goal with |- match ?b with _ => _ end = _ -> _ => destruct b end; [|discriminate].
      intros E; inversion E. apply list_wrap_nonempty.
    - rewrite node_enc_full. destruct (enc_go H 0 cs); [|discriminate].
      intros E; inversion E. apply list_wrap_nonempty.
  Qed.

  Lemma ref_nonempty n e : node_enc H n = Some e -> ref_of_enc H e <> [].
  Proof.
    intros E. unfold ref_of_enc. destruct (Nat.ltb (length e) 32).
    - exact (node_enc_nonempty _ _ E).
    - intros E0. pose proof (H_len e) as L. rewrite E0 in L. discriminate.
  Qed.

  Lemma write_ref_child r : r <> [] -> enc_child_val r = write_ref r.
  Proof.
    intros Hr. unfold enc_child_val, write_ref. destruct r as [|x r]; [congruence|].
    destruct (Nat.leb_spec 32 (length (x :: r))); destruct (Nat.ltb_spec (length (x :: r)) 32);
      try reflexivity; lia.
  Qed.

  (* the loop over the children in StackTrie.hash, named *)
  Fixpoint st_go (l : list stnode) : tres (list N) :=
    match l with
    | [] => TOk [128]
    | c :: r =>
        let e := match c with
                 | StNil => TOk [128]
                 | _ => match st_hash H c true with
                        | TOk v => TOk (enc_child_val v)
                        | TErr e => TErr e
                        end
                 end in
        match e, st_go r with
        | TOk a, TOk b => TOk (a ++ b)
        | TErr e, _ => TErr e
        | _, TErr e => TErr e
        end
    end.

  Lemma st_hash_branch cs nonroot :
    st_hash H (StBranch cs) nonroot =
    match st_go cs with
    | TOk payload =>
        if Nat.ltb (length (list_wrap payload)) 32 && nonroot
        then TOk (list_wrap payload) else TOk (H (list_wrap payload))
    | TErr e => TErr e
    end.
  Proof. reflexivity. Qed.

  Lemma fin_true b :
    (if Nat.ltb (length b) 32 && true then @TOk (list N) b else TOk (H b)) = TOk (ref_of_enc H b).
  Proof. unfold ref_of_enc. rewrite andb_true_r. destruct (Nat.ltb (length b) 32); reflexivity. Qed.

  Lemma fin_false b :
    (if Nat.ltb (length b) 32 && false then @TOk (list N) b else TOk (H b)) = TOk (H b).
  Proof. rewrite andb_false_r. reflexivity. Qed.

  Definition unhashed (st : stnode) : Prop := match st with StHashed _ => False | _ => True end.

  (* L1: hashing a stack node gives the reference of the node it represents *)
  Lemma hash_R : forall st n, R st n ->
    exists e, node_enc H n = Some e /\
      st_hash H st true = TOk (ref_of_enc H e) /\
      (unhashed st -> st_hash H st false = TOk (H e)).
  Proof.
    induction st as [| |scs IH|k c IH|k v|v] using stnode_ind'; intros n HR; apply R_inv in HR;
      try solve [destruct HR].
    - (* branch *)
      destruct HR as (cs & -> & H1 & H2 & H3 & H4).
      rewrite node_enc_full.
      assert (G : forall l ns i, (i + length l = 16)%nat -> length ns = S (length l) ->
                nth_error ns (length l) = Some NEmpty ->
                Forall (fun c => forall n, R c n -> exists e, node_enc H n = Some e /\
                          st_hash H c true = TOk (ref_of_enc H e) /\
                          (unhashed c -> st_hash H c false = TOk (H e))) l ->
                (forall j c, nth_error l j = Some c -> exists n, nth_error ns j = Some n /\
                   ((c = StNil /\ n = NEmpty) \/ (c <> StNil /\ inner n /\ R c n))) ->
                exists p, enc_go H i ns = Some p /\ st_go l = TOk p).
      { induction l as [|c l IHl]; intros ns i Hi Hlen H16 HF Hch.
        - destruct ns as [|n0 ns]; [discriminate|]. destruct ns; [|discriminate]. simpl in H16.
          inversion H16; subst. exists [128]. split; reflexivity.
        - destruct ns as [|n0 ns]; [discriminate|]. simpl in Hlen, H16. inversion HF as [|? ? Hc HF']; subst.
          destruct (IHl ns (S i) ltac:(simpl in Hi; lia) ltac:(lia) H16 HF') as (p & Ep & Sp).
          { intros j c0 Hj. apply (Hch (S j) c0 Hj). }
          destruct (Hch O c eq_refl) as (n & En & Hcn). simpl in En. inversion En; subst n0.
          cbn [enc_go st_go]. rewrite Ep, Sp.
          destruct Hcn as [[-> ->]|(Hnn & Hin & HRc)].
          + eexists. split; reflexivity.
          + destruct (Hc _ HRc) as (e & Ee & Eh & _).
            replace (Nat.eqb i 16) with false by (symmetry; apply Nat.eqb_neq; simpl in Hi; lia).
            rewrite Eh, (write_ref_child _ (ref_nonempty _ _ Ee)).
            exists (write_ref (ref_of_enc H e) ++ p). split.
            * destruct n; try destruct Hin; rewrite Ee; reflexivity.
            * destruct c; try reflexivity. congruence. }
      destruct (G scs cs O ltac:(lia) ltac:(lia) ltac:(rewrite H1; assumption) IH H4) as (p & Ep & Sp).
      rewrite Ep. exists (list_wrap p). split; [reflexivity|].
      rewrite !st_hash_branch, Sp, fin_true, fin_false. split; reflexivity.
    - (* extension *)
      destruct HR as (cs & -> & H2 & H4 & H5).
      destruct (IH _ H5) as (ec & Eec & Ehc & _).
      rewrite node_enc_short. destruct (hex_to_compact_total k) as [ck Eck]. rewrite Eck. cbv zeta.
      rewrite (has_term_nib_false _ (nibbles_forallb _ H4)), Eec.
      eexists. split; [reflexivity|].
      cbn [st_hash]. rewrite Ehc. rewrite (in_place_eq k H2). rewrite Eck.
      rewrite (write_ref_child _ (ref_nonempty _ _ Eec)), fin_true, fin_false. split; reflexivity.
    - (* leaf *)
      destruct HR as [-> Hk].
      rewrite node_enc_short. destruct (hex_to_compact_total (k ++ [16])) as [ck Eck]. rewrite Eck. cbv zeta.
      rewrite has_term_app_16. eexists. split; [reflexivity|].
      cbn [st_hash]. rewrite (in_place_eq (k ++ [16])) by (destruct k; discriminate). rewrite Eck.
      rewrite fin_true, fin_false. split; reflexivity.
    - (* hashed *)
      destruct HR as (e & Hin & Ee & ->).
      exists e. split; [assumption|]. split; [reflexivity|]. intros [].
  Qed.

  (* ---------------------------------------------------------------- insert *)

  Lemma gdi_spec k : forall key d, get_diff_index k key = Some d ->
    exists p k1 key1, k = p ++ k1 /\ key = p ++ key1 /\ d = length p /\
      match k1, key1 with
      | x :: _, y :: _ => x <> y
      | [], _ => True
      | _ :: _, [] => False
      end.
  Proof.
    induction k as [|x k IH]; intros key d Hd; simpl in Hd.
    - inversion Hd; subst. exists [], [], key. auto.
    - destruct key as [|y key]; [discriminate|]. destruct (N.eqb_spec x y) as [->|Ne].
      + destruct (get_diff_index k key) as [d'|] eqn:E; [|discriminate]. inversion Hd; subst.
        destruct (IH _ _ E) as (p & k1 & key1 & -> & -> & -> & Hm).
        exists (y :: p), k1, key1. auto.
      + inversion Hd; subst. exists [], (x :: k), (y :: key). auto.
  Qed.

  Lemma prefix_len_app_neq (p : list N) a s b t :
    b <> a -> prefix_len (p ++ b :: s) (p ++ a :: t) = length p.
  Proof.
    intros Hn. induction p as [|z p IH]; simpl.
    - destruct (N.eqb_spec b a); congruence.
    - rewrite N.eqb_refl, IH. reflexivity.
  Qed.

  Lemma prefix_len_app_full (p s : list N) : prefix_len (p ++ s) p = length p.
  Proof.
    induction p as [|z p IH]; simpl; [destruct s; reflexivity|]. rewrite N.eqb_refl, IH. reflexivity.
  Qed.

  Lemma insert_nil_snoc pre (s : list N) x c :
    insert_nil pre (s ++ [x]) c = (NShort (s ++ [x]) c, [TIns pre]).
  Proof. destruct s; reflexivity. Qed.

  Lemma set_nth_lt {A} i (v : A) l l' : set_nth i v l = Some l' -> (i < length l)%nat.
  Proof.
    intros Hs. destruct (set_nth_spec _ _ _ _ Hs) as [L Hn]. specialize (Hn i).
    rewrite Nat.eqb_refl in Hn. rewrite <- L. apply nth_error_Some. congruence.
  Qed.

  Lemma nibbles_app_l (p q : list N) : nibbles (p ++ q) -> nibbles p.
  Proof. intros Hn. apply nibbles_app in Hn. tauto. Qed.
  Lemma nibbles_app_r (p q : list N) : nibbles (p ++ q) -> nibbles q.
  Proof. intros Hn. apply nibbles_app in Hn. tauto. Qed.
  Lemma nibbles_tl x (q : list N) : nibbles (x :: q) -> nibbles q.
  Proof. intros Hn. inversion Hn; assumption. Qed.

  Definition good (c : stnode) (n : node) : Prop := c <> StNil /\ inner n /\ R c n.

  Definition children_rel (scs : list stnode) (cs : list node) : Prop :=
    forall i c, nth_error scs i = Some c ->
      exists n, nth_error cs i = Some n /\ ((c = StNil /\ n = NEmpty) \/ good c n).

  Lemma nth_error_st_empty16 i c : nth_error st_empty16 i = Some c -> c = StNil.
  Proof. intros Hc. apply nth_error_In in Hc. apply repeat_spec in Hc. exact Hc. Qed.

  (* hashing a represented node in place keeps the representation *)
  Lemma hashed_R c n c' : R c n -> inner n -> hashed H c = TOk c' -> good c' n.
  Proof.
    intros HR Hin Hh. unfold hashed in Hh. destruct (hash_R _ _ HR) as (e & Ee & Eh & _).
    rewrite Eh in Hh. inversion Hh; subst. split; [discriminate|]. split; [assumption|].
    eapply R_hashed; eauto.
  Qed.

  (* the fresh two-child branch built when a leaf or an extension is split *)
  Lemma branch2_R a c1 n1 b c2 n2 p' :
    a <> b -> branch2 a c1 b c2 = TOk p' -> good c1 n1 -> good c2 n2 ->
    exists cs1 cs2, set_child empty17 a n1 = Some cs1 /\ set_child cs1 b n2 = Some cs2 /\
                    R p' (NFull cs2).
  Proof.
    intros Hab Hb G1 G2. unfold branch2 in Hb.
    destruct (set_nth (N.to_nat a) c1 st_empty16) as [scs1|] eqn:S1; [|discriminate].
    destruct (set_nth (N.to_nat b) c2 scs1) as [scs2|] eqn:S2; [|discriminate]. inversion Hb; subst p'.
    pose proof (set_nth_lt _ _ _ _ S1) as La. pose proof (set_nth_lt _ _ _ _ S2) as Lb.
    destruct (set_nth_spec _ _ _ _ S1) as [L1 N1]. destruct (set_nth_spec _ _ _ _ S2) as [L2 N2].
    change (length st_empty16) with 16%nat in *. rewrite L1 in Lb.
    unfold set_child.
    destruct (set_nth_some (N.to_nat a) n1 empty17) as [cs1 T1]; [change (length empty17) with 17%nat; lia|].
    destruct (set_nth_spec _ _ _ _ T1) as [M1 P1].
    destruct (set_nth_some (N.to_nat b) n2 cs1) as [cs2 T2]; [rewrite M1; change (length empty17) with 17%nat; lia|].
    destruct (set_nth_spec _ _ _ _ T2) as [M2 P2].
    exists cs1, cs2. split; [assumption|]. split; [assumption|].
    assert (E17 : forall i, (i < 17)%nat -> nth_error empty17 i = Some NEmpty).
    { intros i Hi. destruct (nth_error empty17 i) eqn:E.
      - f_equal. eapply nth_error_empty17; eassumption.
      - apply nth_error_None in E. change (length empty17) with 17%nat in E. lia. }
    apply R_branch.
    - lia.
    - rewrite M2, M1. reflexivity.
    - rewrite P2, P1. destruct (Nat.eqb_spec 16 (N.to_nat b)); [lia|].
      destruct (Nat.eqb_spec 16 (N.to_nat a)); [lia|]. apply E17. lia.
    - intros i c Hc. rewrite N2 in Hc. rewrite P2, P1.
      destruct (Nat.eqb_spec i (N.to_nat b)).
      + inversion Hc; subst c. exists n2. split; [reflexivity|]. right. exact G2.
      + rewrite N1 in Hc. destruct (Nat.eqb_spec i (N.to_nat a)).
        * inversion Hc; subst c. exists n1. split; [reflexivity|]. right. exact G1.
        * pose proof (nth_error_st_empty16 _ _ Hc) as ->.
          assert ((i < 16)%nat) by (change 16%nat with (length st_empty16); apply nth_error_Some; congruence).
          exists NEmpty. split; [apply E17; lia|]. left. auto.
  Qed.

  Lemma hash_prev_R cs : forall i scs scs1, hash_prev H i scs = TOk scs1 ->
    children_rel scs cs -> children_rel scs1 cs /\ length scs1 = length scs.
  Proof.
    induction i as [|j IH]; intros scs scs1 Hh Hrel; simpl in Hh.
    - inversion Hh; subst. auto.
    - destruct (nth_error scs j) as [c|] eqn:Ec; [|discriminate].
      destruct (Hrel _ _ Ec) as (n & En & Hcn).
      assert (Hgen : c <> StNil -> unhashed c ->
                match hashed H c with
                | TErr e => TErr e
                | TOk c' => match set_nth j c' scs with Some cs' => TOk cs' | None => TErr EPanic end
                end = TOk scs1 -> children_rel scs1 cs /\ length scs1 = length scs).
      { intros Hnn _ Hx. destruct Hcn as [[-> _]|(_ & Hin & HR)]; [congruence|].
        destruct (hashed H c) as [c'|] eqn:Eh; [|discriminate].
        destruct (set_nth j c' scs) as [scs'|] eqn:Es; [|discriminate]. inversion Hx; subst scs'.
        destruct (set_nth_spec _ _ _ _ Es) as [L Hn]. split; [|exact L].
        intros i c0 Hc0. rewrite Hn in Hc0. destruct (Nat.eqb_spec i j) as [->|Nij]; [|apply Hrel; exact Hc0].
        inversion Hc0; subst c0. exists n. split; [exact En|]. right. eapply hashed_R; eassumption. }
      destruct c; try (apply Hgen; [discriminate|exact I|exact Hh]).
      + apply (IH _ _ Hh Hrel).
      + inversion Hh; subst. auto.
  Qed.

  Variable resolve : list N -> list N -> option (node * list N).

  Lemma insert_empty_snoc f pre (s : list N) x value :
    insert resolve (S f) NEmpty pre (s ++ [x]) value = TOk (true, NShort (s ++ [x]) value, [TIns pre]).
  Proof. destruct s; reflexivity. Qed.

  Lemma insert_full_unfold f cs pre k0 kr value :
    insert resolve (S f) (NFull cs) pre (k0 :: kr) value =
    match child cs k0 with
    | None => TErr EPanic
    | Some c =>
        match insert resolve f c (pre ++ [k0]) kr value with
        | TOk (true, nn, ev) =>
            match set_child cs k0 nn with
            | Some cs' => TOk (true, NFull cs', ev)
            | None => TErr EPanic
            end
        | TOk (false, _, ev) => TOk (false, NFull cs, ev)
        | TErr e => TErr e
        end
    end.
  Proof. reflexivity. Qed.

  (* the split of a short node, on the ordinary trie's side *)
  Lemma insert_split f p a k2 nv b key2 pre v cs1 cs2 :
    b <> a ->
    set_child empty17 a (inil k2 nv) = Some cs1 ->
    set_child cs1 b (NShort (key2 ++ [16]) (NValue v)) = Some cs2 ->
    exists ev, insert resolve (S f) (NShort (p ++ a :: k2) nv) pre (p ++ b :: key2 ++ [16]) (NValue v) =
               TOk (true, wrap p (NFull cs2), ev).
  Proof.
    intros Hba S1 S2. rewrite insert_short_unfold by (destruct p; discriminate). cbv zeta.
    rewrite (prefix_len_app_neq p a (key2 ++ [16]) b k2 Hba), app_length. simpl length.
    replace (Nat.eqb (length p) (length p + S (length k2))) with false
      by (symmetry; apply Nat.eqb_neq; lia).
    rewrite !nth_error_app_exact. simpl hd_error. cbv iota.
    rewrite !firstn_app_succ, !skipn_app_succ, firstn_app_exact, insert_nil_snoc.
    destruct (insert_nil (pre ++ p ++ [a]) k2 nv) as [c1 ev1] eqn:E1.
    assert (c1 = inil k2 nv) by (rewrite <- (insert_nil_fst (pre ++ p ++ [a])), E1; reflexivity). subst c1.
    rewrite S1, S2. destruct p; simpl Nat.eqb; cbv iota; eexists; reflexivity.
  Qed.

  (* L2: a successful stack insert mirrors the ordinary insert *)
  Lemma insert_R : forall fuel st key v st' n,
    R st n -> nibbles key -> st_insert H fuel st key v = TOk st' ->
    forall f' pre, (length key + 1 < f')%nat ->
    exists n' ev,
      insert resolve f' n pre (key ++ [16]) (NValue v) = TOk (true, n', ev) /\
      R st' n' /\ inner n' /\ unhashed st' /\ (forall cs, n = NFull cs -> exists cs', n' = NFull cs').
  Proof.
    induction fuel as [|f IH]; intros st key v st' n HR Hk Hi f' pre Hf; [discriminate|].
    destruct f' as [|f'']; [lia|].
    destruct st as [| |scs|k c|k v0|hv]; apply R_inv in HR; try solve [destruct HR]; cbn [st_insert] in Hi.
    - (* branch *)
      destruct HR as (cs & -> & Ls & Lc & H16 & Hrel).
      destruct key as [|k0 kr]; [discriminate|].
      destruct (hash_prev H (N.to_nat k0) scs) as [scs1|] eqn:Ehp; [|discriminate].
      destruct (hash_prev_R cs _ _ _ Ehp Hrel) as [Hrel1 Ls1].
      destruct (nth_error scs1 (N.to_nat k0)) as [c|] eqn:Ec; [|discriminate].
      assert (Hk0 : (N.to_nat k0 < 16)%nat) by (rewrite <- Ls, <- Ls1; apply nth_error_Some; congruence).
      destruct (Hrel1 _ _ Ec) as (nc & Enc & Hcn).
      simpl app. rewrite insert_full_unfold. unfold child. rewrite Enc.
      assert (Hfin : forall c' nc' ev scs2,
                set_nth (N.to_nat k0) c' scs1 = Some scs2 -> good c' nc' ->
                insert resolve f'' nc (pre ++ [k0]) (kr ++ [16]) (NValue v) = TOk (true, nc', ev) ->
                exists n' ev0,
                  match insert resolve f'' nc (pre ++ [k0]) (kr ++ [16]) (NValue v) with
                  | TOk (true, nn, ev) =>
                      match set_child cs k0 nn with
                      | Some cs' => TOk (true, NFull cs', ev)
                      | None => TErr EPanic
                      end
                  | TOk (false, _, ev) => TOk (false, NFull cs, ev)
                  | TErr e => TErr e
                  end = TOk (true, n', ev0) /\
                  R (StBranch scs2) n' /\ inner n' /\ unhashed (StBranch scs2) /\
                  (forall cs0, NFull cs = NFull cs0 -> exists cs', n' = NFull cs')).
      { intros c' nc' ev scs2 Hs Hg Ein. rewrite Ein. unfold set_child.
        destruct (set_nth_some (N.to_nat k0) nc' cs) as [cs' Hs']; [lia|]. rewrite Hs'.
        destruct (set_nth_spec _ _ _ _ Hs) as [L2 N2]. destruct (set_nth_spec _ _ _ _ Hs') as [M2 P2].
        exists (NFull cs'), ev. split; [reflexivity|]. split; [|split; [exact I|split; [exact I|eauto]]].
        apply R_branch; [lia|lia| |].
        - rewrite P2. destruct (Nat.eqb_spec 16 (N.to_nat k0)); [lia|assumption].
        - intros i c0 Hc0. rewrite N2 in Hc0. rewrite P2.
          destruct (Nat.eqb_spec i (N.to_nat k0)); [|apply Hrel1; exact Hc0].
          inversion Hc0; subst c0. exists nc'. split; [reflexivity|]. right. exact Hg. }
      assert (Hdesc : c <> StNil -> st_insert H f c kr v = TOk ?[c'] -> True) by auto.
      assert (Hgen : c <> StNil ->
                match st_insert H f c kr v with
                | TErr e => TErr e
                | TOk c' => match set_nth (N.to_nat k0) c' scs1 with
                            | Some cs2 => TOk (StBranch cs2) | None => TErr EPanic end
                end = TOk st' ->
                exists n' ev, _ = TOk (true, n', ev) /\ R st' n' /\ inner n' /\ unhashed st' /\
                  (forall cs0, NFull cs = NFull cs0 -> exists cs', n' = NFull cs')).
      { intros Hnn Hx. destruct Hcn as [[-> _]|(_ & Hin & HRc)]; [congruence|].
        destruct (st_insert H f c kr v) as [c'|] eqn:Eins; [|discriminate].
        destruct (set_nth (N.to_nat k0) c' scs1) as [scs2|] eqn:Es; [|discriminate]. inversion Hx; subst st'.
        destruct (IH _ _ _ _ _ HRc (nibbles_tl _ _ Hk) Eins f'' (pre ++ [k0]) ltac:(simpl in Hf; lia))
          as (nc' & ev & Ein & HR' & Hin' & _ & _).
        apply (Hfin c' nc' ev scs2 Es); [|exact Ein].
        split; [|split; assumption]. intros ->. apply R_inv in HR'. exact HR'. }
      destruct c; try (apply Hgen; [discriminate|exact Hi]).
      (* nil child: a new leaf *)
      destruct (set_nth (N.to_nat k0) (StLeaf kr v) scs1) as [scs2|] eqn:Es; [|discriminate].
      inversion Hi; subst st'. destruct Hcn as [[_ ->]|(Hnn & _)]; [|congruence].
      destruct f'' as [|f3]; [simpl in Hf; lia|].
      apply (Hfin (StLeaf kr v) (NShort (kr ++ [16]) (NValue v)) [TIns (pre ++ [k0])] scs2 Es).
      + split; [discriminate|]. split; [exact I|]. apply R_leaf. exact (nibbles_tl _ _ Hk).
      + apply insert_empty_snoc.
    - (* extension *)
      destruct HR as (cs & -> & Hkne & Hkn & HRc).
      destruct (get_diff_index k key) as [d|] eqn:Ed; [|discriminate].
      destruct (gdi_spec _ _ _ Ed) as (p & k1 & key1 & -> & -> & -> & Hm).
      destruct (Nat.eqb_spec (length p) (length (p ++ k1))) as [El|Nl].
      + (* the whole extension key matches: descend *)
        assert (k1 = []) by (rewrite app_length in El; destruct k1; [reflexivity|simpl in El; lia]). subst k1.
        rewrite app_nil_r in *. rewrite skipn_app_exact in Hi.
        destruct (st_insert H f c key1 v) as [c'|] eqn:Eins; [|discriminate]. inversion Hi; subst st'.
        destruct (IH _ _ _ _ _ HRc (nibbles_app_r _ _ Hk) Eins f'' (pre ++ p))
          as (nc' & ev & Ein & HR' & _ & _ & Hfull).
        { rewrite app_length in Hf. destruct p; [congruence|simpl in Hf; lia]. }
        destruct (Hfull _ eq_refl) as [cs' ->].
        exists (NShort p (NFull cs')), ev. rewrite <- app_assoc.
        rewrite insert_short_unfold by (destruct p; [congruence|discriminate]). cbv zeta.
        rewrite prefix_len_app_full, Nat.eqb_refl, firstn_app_exact, skipn_app_exact, Ein.
        split; [reflexivity|]. split; [apply R_ext; assumption|]. split; [exact I|]. split; [exact I|].
        intros cs0 E0. discriminate.
      + (* split the extension *)
        destruct k1 as [|a k2]; [rewrite app_nil_r in Nl; congruence|].
        destruct key1 as [|b key2]; [destruct Hm|].
        rewrite !nth_error_app_exact in Hi. simpl hd_error in Hi. cbv iota in Hi.
        rewrite skipn_app_succ, firstn_app_exact in Hi.
        assert (Hk2 : nibbles k2) by (apply nibbles_app_r in Hkn; exact (nibbles_tl _ _ Hkn)).
        assert (Hg1 : exists c1, (if Nat.ltb (length p) (length (p ++ a :: k2) - 1)
                                  then hashed H (StExt (skipn (length p + 1) (p ++ a :: k2)) c)
                                  else hashed H c) = TOk c1 /\ good c1 (inil k2 (NFull cs))).
        { rewrite skipn_app_succ, app_length. simpl length.
          destruct k2 as [|x k2].
          - replace (Nat.ltb (length p) (length p + 1 - 1)) with false by (symmetry; apply Nat.ltb_ge; lia).
            destruct (hashed H c) as [c1|] eqn:Eh.
            + exists c1. split; [reflexivity|]. apply (hashed_R c); [exact HRc|exact I|exact Eh].
            + rewrite Nat.ltb_irrefl in Hi. replace (length p + 1 - 1)%nat with (length p) in Hi by lia.
              rewrite app_length in Hi. simpl length in Hi.
              replace (Nat.ltb (length p) (length p + 1 - 1)) with false in Hi by (symmetry; apply Nat.ltb_ge; lia).
              rewrite Eh in Hi. discriminate.
          - replace (Nat.ltb (length p) (length p + S (S (length k2)) - 1)) with true
              by (symmetry; apply Nat.ltb_lt; lia).
            assert (HRx : R (StExt (x :: k2) c) (NShort (x :: k2) (NFull cs)))
              by (apply R_ext; [discriminate|assumption|assumption]).
            destruct (hashed H (StExt (x :: k2) c)) as [c1|] eqn:Eh.
            + exists c1. split; [reflexivity|]. apply (hashed_R _ _ _ HRx I Eh).
            + rewrite skipn_app_succ, app_length in Hi. simpl length in Hi.
              replace (Nat.ltb (length p) (length p + S (S (length k2)) - 1)) with true in Hi
                by (symmetry; apply Nat.ltb_lt; lia).
              rewrite Eh in Hi. discriminate. }
        destruct Hg1 as (c1 & Ec1 & Hgood1). rewrite Ec1 in Hi.
        destruct (branch2 a c1 b (StLeaf (skipn (length p + 1) (p ++ b :: key2)) v)) as [p'|] eqn:Eb2; [|discriminate].
        rewrite skipn_app_succ in Eb2.
        assert (Hkey2 : nibbles key2) by (apply nibbles_app_r in Hk; exact (nibbles_tl _ _ Hk)).
        destruct (branch2_R a c1 (inil k2 (NFull cs)) b (StLeaf key2 v) (NShort (key2 ++ [16]) (NValue v)) p'
                    Hm Eb2 Hgood1) as (cs1 & cs2 & S1 & S2 & HRp).
        { split; [discriminate|]. split; [exact I|]. apply R_leaf. exact Hkey2. }
        destruct (insert_split f'' p a k2 (NFull cs) b key2 pre v cs1 cs2 ltac:(congruence) S1 S2) as [ev Ein].
        exists (wrap p (NFull cs2)), ev. rewrite <- app_assoc. simpl app. split; [exact Ein|].
        destruct p as [|p0 p]; simpl Nat.eqb in Hi; cbv iota in Hi; inversion Hi; subst st'; simpl wrap.
        * split; [exact HRp|]. split; [exact I|]. split; [exact I|]. intros cs0 E0; discriminate.
        * split; [apply R_ext; [discriminate|exact (nibbles_app_l _ _ Hkn)|exact HRp]|].
          split; [exact I|]. split; [exact I|]. intros cs0 E0; discriminate.
    - (* leaf *)
      destruct HR as [-> Hkn].
      destruct (get_diff_index k key) as [d|] eqn:Ed; [|discriminate].
      destruct (gdi_spec _ _ _ Ed) as (p & k1 & key1 & -> & -> & -> & Hm).
      destruct (Nat.leb_spec (length (p ++ k1)) (length p)) as [Hle|Hlt]; [discriminate|].
      destruct k1 as [|a k2]; [rewrite app_nil_r in Hlt; lia|].
      destruct key1 as [|b key2]; [destruct Hm|].
      rewrite !nth_error_app_exact in Hi. simpl hd_error in Hi. cbv iota in Hi.
      rewrite !skipn_app_succ, firstn_app_exact in Hi.
      assert (Hk2 : nibbles k2) by (apply nibbles_app_r in Hkn; exact (nibbles_tl _ _ Hkn)).
      assert (Hkey2 : nibbles key2) by (apply nibbles_app_r in Hk; exact (nibbles_tl _ _ Hk)).
      destruct (hashed H (StLeaf k2 v0)) as [c1|] eqn:Eh; [|discriminate].
      pose proof (hashed_R _ _ _ (R_leaf k2 v0 Hk2) I Eh) as Hgood1.
      destruct (branch2 a c1 b (StLeaf key2 v)) as [p'|] eqn:Eb2; [|discriminate].
      destruct (branch2_R a c1 (inil (k2 ++ [16]) (NValue v0)) b (StLeaf key2 v)
                  (NShort (key2 ++ [16]) (NValue v)) p' Hm Eb2) as (cs1 & cs2 & S1 & S2 & HRp).
      { replace (inil (k2 ++ [16]) (NValue v0)) with (NShort (k2 ++ [16]) (NValue v0)) by (destruct k2; reflexivity).
        exact Hgood1. }
      { split; [discriminate|]. split; [exact I|]. apply R_leaf. exact Hkey2. }
      destruct (insert_split f'' p a (k2 ++ [16]) (NValue v0) b key2 pre v cs1 cs2 ltac:(congruence) S1 S2) as [ev Ein].
      exists (wrap p (NFull cs2)), ev. rewrite <- !app_assoc. simpl app. split; [exact Ein|].
      destruct p as [|p0 p]; simpl Nat.eqb in Hi; cbv iota in Hi; inversion Hi; subst st'; simpl wrap.
      * split; [exact HRp|]. split; [exact I|]. split; [exact I|]. intros cs0 E0; discriminate.
      * split; [apply R_ext; [discriminate|exact (nibbles_app_l _ _ Hkn)|exact HRp]|].
        split; [exact I|]. split; [exact I|]. intros cs0 E0; discriminate.
    - (* hashed: the Go code panics *)
      discriminate.
  Qed.
End SP.
