(* Trie/StackProofs.v — the stack trie (Trie/Stack.v, stacktrie.go) is sound
   w.r.t. the ordinary trie (Trie/Ops.v): whenever the builder accepts a
   sequence of updates and produces a root, it is the root hash of the trie
   obtained by inserting the same pairs one by one.

   [R st n]: stack node [st] represents trie node [n]; a hashed stack node
   holds the reference (embedded encoding or hash) of the subtrie it replaced. *)
From GV Require Import Lib.Tactics Lib.Bytes Rlp.Codec Trie.Hex Trie.HexProofs Trie.HexInPlace Trie.Node Trie.Ops Trie.Hash Trie.OpsProofs Trie.Canon Trie.Stack.
Local Open Scope N_scope.

Section stnode_ind'.
  Variable P : stnode -> Prop.
  Hypothesis HN : P StNil.
  Hypothesis HE : P StEmpty.
  Hypothesis HB : forall cs, Forall P cs -> P (StBranch cs).
  Hypothesis HX : forall k c, P c -> P (StExt k c).
  Hypothesis HL : forall k v, P (StLeaf k v).
  Hypothesis HH : forall v, P (StHashed v).
  Fixpoint stnode_ind' (n : stnode) : P n :=
    match n with
    | StNil => HN
    | StEmpty => HE
    | StBranch cs =>
        HB cs ((fix go (l : list stnode) : Forall P l :=
                  match l with
                  | [] => Forall_nil P
                  | y :: r => Forall_cons y (stnode_ind' y) (go r)
                  end) cs)
    | StExt k c => HX k c (stnode_ind' c)
    | StLeaf k v => HL k v
    | StHashed v => HH v
    end.
End stnode_ind'.

Definition inner (n : node) : Prop :=
  match n with NShort _ _ | NFull _ => True | _ => False end.

Lemma enc_head_nonempty a b s : enc_head a b s <> [].
Proof. unfold enc_head. destruct (s <? 56); discriminate. Qed.

Lemma list_wrap_nonempty p : list_wrap p <> [].
Proof.
  unfold list_wrap. destruct (enc_head 192 247 (lenN p)) eqn:E; [|discriminate].
  exfalso. exact (enc_head_nonempty _ _ _ E).
Qed.

Section SP.
  Variable H : list N -> list N.
  Hypothesis H_len : forall x, length (H x) = 32%nat.

  Inductive R : stnode -> node -> Prop :=
  | R_leaf k v : nibbles k -> R (StLeaf k v) (NShort (k ++ [16]) (NValue v))
  | R_ext k c cs : k <> [] -> nibbles k -> R c (NFull cs) -> R (StExt k c) (NShort k (NFull cs))
  | R_branch scs cs :
      length scs = 16%nat -> length cs = 17%nat -> nth_error cs 16 = Some NEmpty ->
      (forall i c, nth_error scs i = Some c ->
         exists n, nth_error cs i = Some n /\
                   ((c = StNil /\ n = NEmpty) \/ (c <> StNil /\ inner n /\ R c n))) ->
      R (StBranch scs) (NFull cs)
  | R_hashed v n e : inner n -> node_enc H n = Some e -> v = ref_of_enc H e -> R (StHashed v) n.

  Lemma R_inv st n : R st n ->
    match st with
    | StLeaf k v => n = NShort (k ++ [16]) (NValue v) /\ nibbles k
    | StExt k c => exists cs, n = NShort k (NFull cs) /\ k <> [] /\ nibbles k /\ R c (NFull cs)
    | StBranch scs =>
        exists cs, n = NFull cs /\ length scs = 16%nat /\ length cs = 17%nat /\
          nth_error cs 16 = Some NEmpty /\
          (forall i c, nth_error scs i = Some c ->
             exists n, nth_error cs i = Some n /\
                       ((c = StNil /\ n = NEmpty) \/ (c <> StNil /\ inner n /\ R c n)))
    | StHashed v => exists e, inner n /\ node_enc H n = Some e /\ v = ref_of_enc H e
    | _ => False
    end.
  Proof. destruct 1; eauto 10. Qed.

  Lemma node_enc_nonempty n e : node_enc H n = Some e -> e <> [].
  Proof.
    destruct n; try discriminate.
    - rewrite node_enc_short. destruct (hex_to_compact k); [|discriminate]. cbv zeta.
      match goal with |- match ?b with _ => _ end = _ -> _ => destruct b end; [|discriminate].
      intros E; inversion E. apply list_wrap_nonempty.
    - rewrite node_enc_full. destruct (enc_go H 0 cs); [|discriminate].
      intros E; inversion E. apply list_wrap_nonempty.
  Qed.

  Lemma ref_nonempty n e : node_enc H n = Some e -> ref_of_enc H e <> [].
  Proof.
    intros E. unfold ref_of_enc. destruct (Nat.ltb (length e) 32).
    - exact (node_enc_nonempty _ _ E).
    - intros E0. pose proof (H_len e) as L. rewrite E0 in L. discriminate.
  Qed.

  Lemma write_ref_child r : r <> [] -> enc_child_val r = write_ref r.
  Proof.
    intros Hr. unfold enc_child_val, write_ref. destruct r as [|x r]; [congruence|].
    destruct (Nat.leb_spec 32 (length (x :: r))); destruct (Nat.ltb_spec (length (x :: r)) 32);
      try reflexivity; lia.
  Qed.

  (* the loop over the children in StackTrie.hash, named *)
  Fixpoint st_go (l : list stnode) : tres (list N) :=
    match l with
    | [] => TOk [128]
    | c :: r =>
        let e := match c with
                 | StNil => TOk [128]
                 | _ => match st_hash H c true with
                        | TOk v => TOk (enc_child_val v)
                        | TErr e => TErr e
                        end
                 end in
        match e, st_go r with
        | TOk a, TOk b => TOk (a ++ b)
        | TErr e, _ => TErr e
        | _, TErr e => TErr e
        end
    end.

  Lemma st_hash_branch cs nonroot :
    st_hash H (StBranch cs) nonroot =
    match st_go cs with
    | TOk payload =>
        if Nat.ltb (length (list_wrap payload)) 32 && nonroot
        then TOk (list_wrap payload) else TOk (H (list_wrap payload))
    | TErr e => TErr e
    end.
  Proof. reflexivity. Qed.

  Lemma fin_true b :
    (if Nat.ltb (length b) 32 && true then @TOk (list N) b else TOk (H b)) = TOk (ref_of_enc H b).
  Proof. unfold ref_of_enc. rewrite andb_true_r. destruct (Nat.ltb (length b) 32); reflexivity. Qed.

  Lemma fin_false b :
    (if Nat.ltb (length b) 32 && false then @TOk (list N) b else TOk (H b)) = TOk (H b).
  Proof. rewrite andb_false_r. reflexivity. Qed.

  Definition unhashed (st : stnode) : Prop := match st with StHashed _ => False | _ => True end.

  (* L1: hashing a stack node gives the reference of the node it represents *)
  Lemma hash_R : forall st n, R st n ->
    exists e, node_enc H n = Some e /\
      st_hash H st true = TOk (ref_of_enc H e) /\
      (unhashed st -> st_hash H st false = TOk (H e)).
  Proof.
    induction st as [| |scs IH|k c IH|k v|v] using stnode_ind'; intros n HR; apply R_inv in HR;
      try solve [destruct HR].
    - (* branch *)
      destruct HR as (cs & -> & H1 & H2 & H3 & H4).
      rewrite node_enc_full.
      assert (G : forall l ns i, (i + length l = 16)%nat -> length ns = S (length l) ->
                nth_error ns (length l) = Some NEmpty ->
                Forall (fun c => forall n, R c n -> exists e, node_enc H n = Some e /\
                          st_hash H c true = TOk (ref_of_enc H e) /\
                          (unhashed c -> st_hash H c false = TOk (H e))) l ->
                (forall j c, nth_error l j = Some c -> exists n, nth_error ns j = Some n /\
                   ((c = StNil /\ n = NEmpty) \/ (c <> StNil /\ inner n /\ R c n))) ->
                exists p, enc_go H i ns = Some p /\ st_go l = TOk p).
      { induction l as [|c l IHl]; intros ns i Hi Hlen H16 HF Hch.
        - destruct ns as [|n0 ns]; [discriminate|]. destruct ns; [|discriminate]. simpl in H16.
          inversion H16; subst. exists [128]. split; reflexivity.
        - destruct ns as [|n0 ns]; [discriminate|]. simpl in Hlen, H16. inversion HF as [|? ? Hc HF']; subst.
          destruct (IHl ns (S i) ltac:(simpl in Hi; lia) ltac:(lia) H16 HF') as (p & Ep & Sp).
          { intros j c0 Hj. apply (Hch (S j) c0 Hj). }
          destruct (Hch O c eq_refl) as (n & En & Hcn). simpl in En. inversion En; subst n0.
          cbn [enc_go st_go]. rewrite Ep, Sp.
          destruct Hcn as [[-> ->]|(Hnn & Hin & HRc)].
          + eexists. split; reflexivity.
          + destruct (Hc _ HRc) as (e & Ee & Eh & _).
            replace (Nat.eqb i 16) with false by (symmetry; apply Nat.eqb_neq; simpl in Hi; lia).
            rewrite Eh, (write_ref_child _ (ref_nonempty _ _ Ee)).
            exists (write_ref (ref_of_enc H e) ++ p). split.
            * destruct n; try destruct Hin; rewrite Ee; reflexivity.
            * destruct c; try reflexivity. congruence. }
      destruct (G scs cs O ltac:(lia) ltac:(lia) ltac:(rewrite H1; assumption) IH H4) as (p & Ep & Sp).
      rewrite Ep. exists (list_wrap p). split; [reflexivity|].
      rewrite !st_hash_branch, Sp, fin_true, fin_false. split; reflexivity.
    - (* extension *)
      destruct HR as (cs & -> & H2 & H4 & H5).
      destruct (IH _ H5) as (ec & Eec & Ehc & _).
      rewrite node_enc_short. destruct (hex_to_compact_total k) as [ck Eck]. rewrite Eck. cbv zeta.
      rewrite (has_term_nib_false _ (nibbles_forallb _ H4)), Eec.
      eexists. split; [reflexivity|].
      cbn [st_hash]. rewrite Ehc. rewrite (in_place_eq k H2). rewrite Eck.
      rewrite (write_ref_child _ (ref_nonempty _ _ Eec)), fin_true, fin_false. split; reflexivity.
    - (* leaf *)
      destruct HR as [-> Hk].
      rewrite node_enc_short. destruct (hex_to_compact_total (k ++ [16])) as [ck Eck]. rewrite Eck. cbv zeta.
      rewrite has_term_app_16. eexists. split; [reflexivity|].
      cbn [st_hash]. rewrite (in_place_eq (k ++ [16])) by (destruct k; discriminate). rewrite Eck.
      rewrite fin_true, fin_false. split; reflexivity.
    - (* hashed *)
      destruct HR as (e & Hin & Ee & ->).
      exists e. split; [assumption|]. split; [reflexivity|]. intros [].
  Qed.

  (* ---------------------------------------------------------------- insert *)

  Lemma gdi_spec k : forall key d, get_diff_index k key = Some d ->
    exists p k1 key1, k = p ++ k1 /\ key = p ++ key1 /\ d = length p /\
      match k1, key1 with
      | x :: _, y :: _ => x <> y
      | [], _ => True
      | _ :: _, [] => False
      end.
  Proof.
    induction k as [|x k IH]; intros key d Hd; simpl in Hd.
    - inversion Hd; subst. exists [], [], key. auto.
    - destruct key as [|y key]; [discriminate|]. destruct (N.eqb_spec x y) as [->|Ne].
      + destruct (get_diff_index k key) as [d'|] eqn:E; [|discriminate]. inversion Hd; subst.
        destruct (IH _ _ E) as (p & k1 & key1 & -> & -> & -> & Hm).
        exists (y :: p), k1, key1. auto.
      + inversion Hd; subst. exists [], (x :: k), (y :: key). auto.
  Qed.

  Lemma prefix_len_app_neq (p : list N) a s b t :
    b <> a -> prefix_len (p ++ b :: s) (p ++ a :: t) = length p.
  Proof.
    intros Hn. induction p as [|z p IH]; simpl.
    - destruct (N.eqb_spec b a); congruence.
    - rewrite N.eqb_refl, IH. reflexivity.
  Qed.

  Lemma prefix_len_app_full (p s : list N) : prefix_len (p ++ s) p = length p.
  Proof.
    induction p as [|z p IH]; simpl; [destruct s; reflexivity|]. rewrite N.eqb_refl, IH. reflexivity.
  Qed.

  Lemma insert_nil_snoc pre (s : list N) x c :
    insert_nil pre (s ++ [x]) c = (NShort (s ++ [x]) c, [TIns pre]).
  Proof. destruct s; reflexivity. Qed.

  Lemma set_nth_lt {A} i (v : A) l l' : set_nth i v l = Some l' -> (i < length l)%nat.
  Proof.
    intros Hs. destruct (set_nth_spec _ _ _ _ Hs) as [L Hn]. specialize (Hn i).
    rewrite Nat.eqb_refl in Hn. rewrite <- L. apply nth_error_Some. congruence.
  Qed.

  Lemma nibbles_app_l (p q : list N) : nibbles (p ++ q) -> nibbles p.
  Proof. intros Hn. apply nibbles_app in Hn. tauto. Qed.
  Lemma nibbles_app_r (p q : list N) : nibbles (p ++ q) -> nibbles q.
  Proof. intros Hn. apply nibbles_app in Hn. tauto. Qed.
  Lemma nibbles_tl x (q : list N) : nibbles (x :: q) -> nibbles q.
  Proof. intros Hn. inversion Hn; assumption. Qed.

  Definition good (c : stnode) (n : node) : Prop := c <> StNil /\ inner n /\ R c n.

  Definition children_rel (scs : list stnode) (cs : list node) : Prop :=
    forall i c, nth_error scs i = Some c ->
      exists n, nth_error cs i = Some n /\ ((c = StNil /\ n = NEmpty) \/ good c n).

  Lemma nth_error_st_empty16 i c : nth_error st_empty16 i = Some c -> c = StNil.
  Proof. intros Hc. apply nth_error_In in Hc. apply repeat_spec in Hc. exact Hc. Qed.

  (* hashing a represented node in place keeps the representation *)
  Lemma hashed_R c n c' : R c n -> inner n -> hashed H c = TOk c' -> good c' n.
  Proof.
    intros HR Hin Hh. unfold hashed in Hh. destruct (hash_R _ _ HR) as (e & Ee & Eh & _).
    rewrite Eh in Hh. inversion Hh; subst. split; [discriminate|]. split; [assumption|].
    eapply R_hashed; eauto.
  Qed.

  (* the fresh two-child branch built when a leaf or an extension is split *)
  Lemma branch2_R a c1 n1 b c2 n2 p' :
    a <> b -> branch2 a c1 b c2 = TOk p' -> good c1 n1 -> good c2 n2 ->
    exists cs1 cs2, set_child empty17 a n1 = Some cs1 /\ set_child cs1 b n2 = Some cs2 /\
                    R p' (NFull cs2) /\ unhashed p'.
  Proof.
    intros Hab Hb G1 G2. unfold branch2 in Hb.
    destruct (set_nth (N.to_nat a) c1 st_empty16) as [scs1|] eqn:S1; [|discriminate].
    destruct (set_nth (N.to_nat b) c2 scs1) as [scs2|] eqn:S2; [|discriminate]. inversion Hb; subst p'.
    pose proof (set_nth_lt _ _ _ _ S1) as La. pose proof (set_nth_lt _ _ _ _ S2) as Lb.
    destruct (set_nth_spec _ _ _ _ S1) as [L1 N1]. destruct (set_nth_spec _ _ _ _ S2) as [L2 N2].
    change (length st_empty16) with 16%nat in *. rewrite L1 in Lb.
    unfold set_child.
    destruct (set_nth_some (N.to_nat a) n1 empty17) as [cs1 T1]; [change (length empty17) with 17%nat; lia|].
    destruct (set_nth_spec _ _ _ _ T1) as [M1 P1].
    destruct (set_nth_some (N.to_nat b) n2 cs1) as [cs2 T2]; [rewrite M1; change (length empty17) with 17%nat; lia|].
    destruct (set_nth_spec _ _ _ _ T2) as [M2 P2].
    exists cs1, cs2. split; [assumption|]. split; [assumption|]. split; [|exact I].
    assert (E17 : forall i, (i < 17)%nat -> nth_error empty17 i = Some NEmpty).
    { intros i Hi. destruct (nth_error empty17 i) eqn:E.
      - f_equal. eapply nth_error_empty17; eassumption.
      - apply nth_error_None in E. change (length empty17) with 17%nat in E. lia. }
    apply R_branch.
    - lia.
    - rewrite M2, M1. reflexivity.
    - rewrite P2, P1. destruct (Nat.eqb_spec 16 (N.to_nat b)); [lia|].
      destruct (Nat.eqb_spec 16 (N.to_nat a)); [lia|]. apply E17. lia.
    - intros i c Hc. rewrite N2 in Hc. rewrite P2, P1.
      destruct (Nat.eqb_spec i (N.to_nat b)).
      + inversion Hc; subst c. exists n2. split; [reflexivity|]. right. exact G2.
      + rewrite N1 in Hc. destruct (Nat.eqb_spec i (N.to_nat a)).
        * inversion Hc; subst c. exists n1. split; [reflexivity|]. right. exact G1.
        * pose proof (nth_error_st_empty16 _ _ Hc) as ->.
          assert ((i < 16)%nat) by (change 16%nat with (length st_empty16); apply nth_error_Some; congruence).
          exists NEmpty. split; [apply E17; lia|]. left. auto.
  Qed.

  Lemma hash_prev_R cs : forall i scs scs1, hash_prev H i scs = TOk scs1 ->
    children_rel scs cs -> children_rel scs1 cs /\ length scs1 = length scs.
  Proof.
    induction i as [|j IH]; intros scs scs1 Hh Hrel; simpl in Hh.
    - inversion Hh; subst. auto.
    - destruct (nth_error scs j) as [c|] eqn:Ec; [|discriminate].
      destruct (Hrel _ _ Ec) as (n & En & Hcn).
      assert (Hgen : c <> StNil -> unhashed c ->
                match hashed H c with
                | TErr e => TErr e
                | TOk c' => match set_nth j c' scs with Some cs' => TOk cs' | None => TErr EPanic end
                end = TOk scs1 -> children_rel scs1 cs /\ length scs1 = length scs).
      { intros Hnn _ Hx. destruct Hcn as [[-> _]|(_ & Hin & HR)]; [congruence|].
        destruct (hashed H c) as [c'|] eqn:Eh; [|discriminate].
        destruct (set_nth j c' scs) as [scs'|] eqn:Es; [|discriminate]. inversion Hx; subst scs'.
        destruct (set_nth_spec _ _ _ _ Es) as [L Hn]. split; [|exact L].
        intros i c0 Hc0. rewrite Hn in Hc0. destruct (Nat.eqb_spec i j) as [->|Nij]; [|apply Hrel; exact Hc0].
        inversion Hc0; subst c0. exists n. split; [exact En|]. right. eapply hashed_R; eassumption. }
      destruct c; try (apply Hgen; [discriminate|exact I|exact Hh]).
      + apply (IH _ _ Hh Hrel).
      + inversion Hh; subst. auto.
  Qed.

  Variable resolve : list N -> list N -> option (node * list N).

  Lemma insert_empty_snoc f pre (s : list N) x value :
    insert resolve (S f) NEmpty pre (s ++ [x]) value = TOk (true, NShort (s ++ [x]) value, [TIns pre]).
  Proof. destruct s; reflexivity. Qed.

  Lemma insert_full_unfold f cs pre k0 kr value :
    insert resolve (S f) (NFull cs) pre (k0 :: kr) value =
    match child cs k0 with
    | None => TErr EPanic
    | Some c =>
        match insert resolve f c (pre ++ [k0]) kr value with
        | TOk (true, nn, ev) =>
            match set_child cs k0 nn with
            | Some cs' => TOk (true, NFull cs', ev)
            | None => TErr EPanic
            end
        | TOk (false, _, ev) => TOk (false, NFull cs, ev)
        | TErr e => TErr e
        end
    end.
  Proof. reflexivity. Qed.

  (* the split of a short node, on the ordinary trie's side *)
  Lemma insert_split f p a k2 nv b key2 pre v cs1 cs2 :
    b <> a ->
    set_child empty17 a (inil k2 nv) = Some cs1 ->
    set_child cs1 b (NShort (key2 ++ [16]) (NValue v)) = Some cs2 ->
    exists ev, insert resolve (S f) (NShort (p ++ a :: k2) nv) pre (p ++ b :: key2 ++ [16]) (NValue v) =
               TOk (true, wrap p (NFull cs2), ev).
  Proof.
    intros Hba S1 S2. rewrite insert_short_unfold by (destruct p; discriminate). cbv zeta.
    rewrite (prefix_len_app_neq p a (key2 ++ [16]) b k2 Hba), app_length. simpl length.
    replace (Nat.eqb (length p) (length p + S (length k2))) with false
      by (symmetry; apply Nat.eqb_neq; lia).
    rewrite !nth_error_app_exact. simpl hd_error. cbv iota.
    rewrite !firstn_app_succ, !skipn_app_succ, firstn_app_exact, insert_nil_snoc.
    destruct (insert_nil (pre ++ p ++ [a]) k2 nv) as [c1 ev1] eqn:E1.
    assert (c1 = inil k2 nv) by (rewrite <- (insert_nil_fst (pre ++ p ++ [a])), E1; reflexivity). subst c1.
    rewrite S1, S2. destruct p; simpl Nat.eqb; cbv iota; eexists; reflexivity.
  Qed.

  (* L2: a successful stack insert mirrors the ordinary insert *)
  Lemma insert_R : forall fuel st key v st' n,
    R st n -> nibbles key -> st_insert H fuel st key v = TOk st' ->
    forall f' pre, (length key + 1 < f')%nat ->
    exists n' ev,
      insert resolve f' n pre (key ++ [16]) (NValue v) = TOk (true, n', ev) /\
      R st' n' /\ inner n' /\ unhashed st' /\ (forall cs, n = NFull cs -> exists cs', n' = NFull cs').
  Proof.
    induction fuel as [|f IH]; intros st key v st' n HR Hk Hi f' pre Hf; [discriminate|].
    destruct f' as [|f'']; [lia|].
    destruct st as [| |scs|k c|k v0|hv]; apply R_inv in HR; try solve [destruct HR]; cbn [st_insert] in Hi.
    - (* branch *)
      destruct HR as (cs & -> & Ls & Lc & H16 & Hrel).
      destruct key as [|k0 kr]; [discriminate|].
      destruct (hash_prev H (N.to_nat k0) scs) as [scs1|] eqn:Ehp; [|discriminate].
      destruct (hash_prev_R cs _ _ _ Ehp Hrel) as [Hrel1 Ls1].
      destruct (nth_error scs1 (N.to_nat k0)) as [c|] eqn:Ec; [|discriminate].
      assert (Hk0 : (N.to_nat k0 < 16)%nat) by (rewrite <- Ls, <- Ls1; apply nth_error_Some; congruence).
      destruct (Hrel1 _ _ Ec) as (nc & Enc & Hcn).
      simpl app. rewrite insert_full_unfold. unfold child. rewrite Enc.
      assert (Hfin : forall c' nc' ev scs2,
                set_nth (N.to_nat k0) c' scs1 = Some scs2 -> good c' nc' ->
                insert resolve f'' nc (pre ++ [k0]) (kr ++ [16]) (NValue v) = TOk (true, nc', ev) ->
                exists n' ev0,
                  match insert resolve f'' nc (pre ++ [k0]) (kr ++ [16]) (NValue v) with
                  | TOk (true, nn, ev) =>
                      match set_child cs k0 nn with
                      | Some cs' => TOk (true, NFull cs', ev)
                      | None => TErr EPanic
                      end
                  | TOk (false, _, ev) => TOk (false, NFull cs, ev)
                  | TErr e => TErr e
                  end = TOk (true, n', ev0) /\
                  R (StBranch scs2) n' /\ inner n' /\ unhashed (StBranch scs2) /\
                  (forall cs0, NFull cs = NFull cs0 -> exists cs', n' = NFull cs')).
      { intros c' nc' ev scs2 Hs Hg Ein. rewrite Ein. unfold set_child.
        destruct (set_nth_some (N.to_nat k0) nc' cs) as [cs' Hs']; [lia|]. rewrite Hs'.
        destruct (set_nth_spec _ _ _ _ Hs) as [L2 N2]. destruct (set_nth_spec _ _ _ _ Hs') as [M2 P2].
        exists (NFull cs'), ev. split; [reflexivity|]. split; [|split; [exact I|split; [exact I|eauto]]].
        apply R_branch; [lia|lia| |].
        - rewrite P2. destruct (Nat.eqb_spec 16 (N.to_nat k0)); [lia|assumption].
        - intros i c0 Hc0. rewrite N2 in Hc0. rewrite P2.
          destruct (Nat.eqb_spec i (N.to_nat k0)); [|apply Hrel1; exact Hc0].
          inversion Hc0; subst c0. exists nc'. split; [reflexivity|]. right. exact Hg. }
      match goal with |- ?G =>
        assert (Hgen : c <> StNil ->
                match st_insert H f c kr v with
                | TErr e => TErr e
                | TOk c' => match set_nth (N.to_nat k0) c' scs1 with
                            | Some cs2 => TOk (StBranch cs2) | None => TErr EPanic end
                end = TOk st' -> G)
      end.
      { intros Hnn Hx. destruct Hcn as [[-> _]|(_ & Hin & HRc)]; [congruence|].
        destruct (st_insert H f c kr v) as [c'|] eqn:Eins; [|discriminate].
        destruct (set_nth (N.to_nat k0) c' scs1) as [scs2|] eqn:Es; [|discriminate]. inversion Hx; subst st'.
        destruct (IH _ _ _ _ _ HRc (nibbles_tl _ _ Hk) Eins f'' (pre ++ [k0]) ltac:(simpl in Hf; lia))
          as (nc' & ev & Ein & HR' & Hin' & _ & _).
        apply (Hfin c' nc' ev scs2 Es); [|exact Ein].
        split; [|split; assumption]. intros ->. apply R_inv in HR'. exact HR'. }
      destruct c; try (apply Hgen; [discriminate|exact Hi]).
      (* nil child: a new leaf *)
      destruct (set_nth (N.to_nat k0) (StLeaf kr v) scs1) as [scs2|] eqn:Es; [|discriminate].
      inversion Hi; subst st'. destruct Hcn as [[_ ->]|(Hnn & _)]; [|congruence].
      destruct f'' as [|f3]; [simpl in Hf; lia|].
      apply (Hfin (StLeaf kr v) (NShort (kr ++ [16]) (NValue v)) [TIns (pre ++ [k0])] scs2 Es).
      + split; [discriminate|]. split; [exact I|]. apply R_leaf. exact (nibbles_tl _ _ Hk).
      + apply insert_empty_snoc.
    - (* extension *)
      destruct HR as (cs & -> & Hkne & Hkn & HRc).
      destruct (get_diff_index k key) as [d|] eqn:Ed; [|discriminate].
      destruct (gdi_spec _ _ _ Ed) as (p & k1 & key1 & -> & -> & -> & Hm).
      destruct (Nat.eqb_spec (length p) (length (p ++ k1))) as [El|Nl].
      + (* the whole extension key matches: descend *)
        assert (k1 = []) by (rewrite app_length in El; destruct k1; [reflexivity|simpl in El; lia]). subst k1.
        rewrite app_nil_r in *. rewrite skipn_app_exact in Hi.
        destruct (st_insert H f c key1 v) as [c'|] eqn:Eins; [|discriminate]. inversion Hi; subst st'.
        destruct (IH _ _ _ _ _ HRc (nibbles_app_r _ _ Hk) Eins f'' (pre ++ p))
          as (nc' & ev & Ein & HR' & _ & _ & Hfull).
        { rewrite app_length in Hf. destruct p; [congruence|simpl in Hf; lia]. }
        destruct (Hfull _ eq_refl) as [cs' ->].
        exists (NShort p (NFull cs')), ev. rewrite <- app_assoc.
        rewrite insert_short_unfold by (destruct p; [congruence|discriminate]). cbv zeta.
        rewrite prefix_len_app_full, Nat.eqb_refl, firstn_app_exact, skipn_app_exact, Ein.
        split; [reflexivity|]. split; [apply R_ext; assumption|]. split; [exact I|]. split; [exact I|].
        intros cs0 E0. discriminate.
      + (* split the extension *)
        destruct k1 as [|a k2]; [rewrite app_nil_r in Nl; congruence|].
        destruct key1 as [|b key2]; [destruct Hm|].
        rewrite !nth_error_app_exact in Hi. simpl hd_error in Hi. cbv iota in Hi.
        rewrite skipn_app_succ, firstn_app_exact in Hi.
        assert (Hk2 : nibbles k2) by (apply nibbles_app_r in Hkn; exact (nibbles_tl _ _ Hkn)).
        rewrite ?skipn_app_succ in Hi.
        match type of Hi with match ?X with _ => _ end = _ =>
          assert (Hg1 : forall c1, X = TOk c1 -> good c1 (inil k2 (NFull cs)));
            [|destruct X as [c1|] eqn:Ec1; [specialize (Hg1 _ eq_refl)|discriminate]]
        end.
        { intros c1 EX. destruct k2 as [|x k2].
          - match type of EX with (if ?bb then _ else _) = _ =>
              replace bb with false in EX by (symmetry; apply Nat.ltb_ge; rewrite ?app_length; simpl; lia) end.
            apply (hashed_R c _ _ HRc I EX).
          - match type of EX with (if ?bb then _ else _) = _ =>
              replace bb with true in EX by (symmetry; apply Nat.ltb_lt; rewrite ?app_length; simpl; lia) end.
            rewrite ?skipn_app_succ in EX.
            apply (hashed_R _ _ _ (R_ext (x :: k2) c cs ltac:(discriminate) Hk2 HRc) I EX). }
        rename Hg1 into Hgood1.
        destruct (branch2 a c1 b (StLeaf key2 v)) as [p'|] eqn:Eb2; [|discriminate].
        assert (Hkey2 : nibbles key2) by (apply nibbles_app_r in Hk; exact (nibbles_tl _ _ Hk)).
        destruct (branch2_R a c1 (inil k2 (NFull cs)) b (StLeaf key2 v) (NShort (key2 ++ [16]) (NValue v)) p'
                    Hm Eb2 Hgood1) as (cs1 & cs2 & S1 & S2 & HRp & Hup).
        { split; [discriminate|]. split; [exact I|]. apply R_leaf. exact Hkey2. }
        destruct (insert_split f'' p a k2 (NFull cs) b key2 pre v cs1 cs2 ltac:(congruence) S1 S2) as [ev Ein].
        exists (wrap p (NFull cs2)), ev. rewrite <- app_assoc. simpl app. split; [exact Ein|].
        destruct p as [|p0 p]; simpl Nat.eqb in Hi; cbv iota in Hi; inversion Hi; subst st'; simpl wrap.
        * split; [exact HRp|]. split; [exact I|]. split; [exact Hup|]. intros cs0 E0; discriminate.
        * split; [apply R_ext; [discriminate|exact (nibbles_app_l _ _ Hkn)|exact HRp]|].
          split; [exact I|]. split; [exact I|]. intros cs0 E0; discriminate.
    - (* leaf *)
      destruct HR as [-> Hkn].
      destruct (get_diff_index k key) as [d|] eqn:Ed; [|discriminate].
      destruct (gdi_spec _ _ _ Ed) as (p & k1 & key1 & -> & -> & -> & Hm).
      destruct (Nat.leb_spec (length (p ++ k1)) (length p)) as [Hle|Hlt]; [discriminate|].
      destruct k1 as [|a k2]; [rewrite app_nil_r in Hlt; lia|].
      destruct key1 as [|b key2]; [destruct Hm|].
      rewrite !nth_error_app_exact in Hi. simpl hd_error in Hi. cbv iota in Hi.
      rewrite !skipn_app_succ, firstn_app_exact in Hi.
      assert (Hk2 : nibbles k2) by (apply nibbles_app_r in Hkn; exact (nibbles_tl _ _ Hkn)).
      assert (Hkey2 : nibbles key2) by (apply nibbles_app_r in Hk; exact (nibbles_tl _ _ Hk)).
      destruct (hashed H (StLeaf k2 v0)) as [c1|] eqn:Eh; [|discriminate].
      pose proof (hashed_R _ _ _ (R_leaf k2 v0 Hk2) I Eh) as Hgood1.
      destruct (branch2 a c1 b (StLeaf key2 v)) as [p'|] eqn:Eb2; [|discriminate].
      destruct (branch2_R a c1 (inil (k2 ++ [16]) (NValue v0)) b (StLeaf key2 v)
                  (NShort (key2 ++ [16]) (NValue v)) p' Hm Eb2) as (cs1 & cs2 & S1 & S2 & HRp & Hup).
      { replace (inil (k2 ++ [16]) (NValue v0)) with (NShort (k2 ++ [16]) (NValue v0)) by (destruct k2; reflexivity).
        exact Hgood1. }
      { split; [discriminate|]. split; [exact I|]. apply R_leaf. exact Hkey2. }
      destruct (insert_split f'' p a (k2 ++ [16]) (NValue v0) b key2 pre v cs1 cs2 ltac:(congruence) S1 S2) as [ev Ein].
      exists (wrap p (NFull cs2)), ev. rewrite <- !app_assoc. simpl app. split; [exact Ein|].
      destruct p as [|p0 p]; simpl Nat.eqb in Hi; cbv iota in Hi; inversion Hi; subst st'; simpl wrap.
      * split; [exact HRp|]. split; [exact I|]. split; [exact Hup|]. intros cs0 E0; discriminate.
      * split; [apply R_ext; [discriminate|exact (nibbles_app_l _ _ Hkn)|exact HRp]|].
        split; [exact I|]. split; [exact I|]. intros cs0 E0; discriminate.
    - (* hashed: the Go code panics *)
      discriminate.
  Qed.

  (* ---------------------------------------------------------------- the whole builder *)

  Definition rroot (st : stnode) (t : node) : Prop :=
    (st = StEmpty /\ t = NEmpty) \/ (R st t /\ inner t /\ unhashed st).

  (* feed the pairs in order; None = an Update returned an error or panicked *)
  Fixpoint st_feed (s : stack) (kvs : list (list N * list N)) : option stack :=
    match kvs with
    | [] => Some s
    | (k, v) :: r =>
        match st_update H s k v with
        | TOk (inr s') => st_feed s' r
        | _ => None
        end
    end.

  Lemma st_update_cons s k v : k <> [] ->
    st_update H s k v =
    match v with
    | [] => TOk (inl 1)
    | _ :: _ =>
        let hk := nibbles_of k in
        if negb (slice_lt (snd s) hk) then TOk (inl 2)
        else match st_insert H (S (length hk)) (fst s) hk v with
             | TErr e => TErr e
             | TOk r => TOk (inr (r, hk))
             end
    end.
  Proof. intros Hk. unfold st_update. destruct v; [reflexivity|]. destruct k; [congruence|reflexivity]. Qed.

  Lemma st_feed_sound : forall kvs s t s',
    rroot (fst s) t -> bytes_ops kvs -> st_feed s kvs = Some s' ->
    exists t' ev, update_seq resolve t kvs = TOk (t', ev) /\ rroot (fst s') t'.
  Proof.
    induction kvs as [|[k v] kvs IH]; intros [st last] t s' Hr HB Hfeed.
    - simpl in Hfeed. inversion Hfeed; subst. exists t, []. auto.
    - inversion HB as [|? ? Hk HB']; subst. simpl in Hk. cbn [st_feed] in Hfeed.
      destruct (st_update H (st, last) k v) as [[c|s1]|] eqn:Eu; try discriminate.
      assert (Hkne : k <> []) by (intros ->; unfold st_update in Eu; destruct v; discriminate).
      rewrite (st_update_cons _ _ _ Hkne) in Eu. cbv zeta in Eu.
      destruct v as [|b v]; [discriminate|]. cbn [fst snd] in Eu.
      destruct (negb (slice_lt last (nibbles_of k))); [discriminate|].
      destruct (st_insert H (S (length (nibbles_of k))) st (nibbles_of k) (b :: v)) as [r|] eqn:Ei; [|discriminate].
      inversion Eu; subst s1. clear Eu.
      pose proof (nibbles_of_nibbles _ Hk) as Hn.
      assert (Hstep : exists t1 ev1,
                insert resolve (ops_fuel (keybytes_to_hex k)) t [] (keybytes_to_hex k) (NValue (b :: v))
                  = TOk (true, t1, ev1) /\ rroot r t1).
      { unfold keybytes_to_hex. cbn [fst] in Hr. destruct Hr as [[-> ->]|(HR & Hin & Hun)].
        - simpl in Ei. inversion Ei; subst r.
          replace (ops_fuel (nibbles_of k ++ [16])) with (S (ops_fuel (nibbles_of k ++ [16]) - 1))
            by (unfold ops_fuel; lia).
          rewrite insert_empty_snoc. eexists _, _. split; [reflexivity|]. right.
          split; [apply R_leaf; exact Hn|]. split; exact I.
        - destruct (insert_R _ _ _ _ _ _ HR Hn Ei (ops_fuel (nibbles_of k ++ [16])) [])
            as (t1 & ev1 & E1 & HR1 & Hin1 & Hun1 & _).
          { unfold ops_fuel. rewrite app_length. simpl. lia. }
          exists t1, ev1. split; [exact E1|]. right. auto. }
      destruct Hstep as (t1 & ev1 & E1 & Hr1).
      destruct (IH (r, nibbles_of k) t1 s' Hr1 HB' Hfeed) as (t' & ev' & E' & Hr').
      exists t', (ev1 ++ ev'). split; [|exact Hr'].
      cbn [update_seq]. unfold update. cbv zeta. rewrite E1, E'. reflexivity.
  Qed.

  (* (g, stack trie) SOUNDNESS of the streaming builder: whenever StackTrie
     accepts the pairs (no error return, no panic) its Hash() is the root hash
     of the ordinary trie built from the same pairs by Trie.Update. *)
  Theorem stack_trie_sound kvs s :
    bytes_ops kvs -> st_feed stack_new kvs = Some s ->
    exists t ev h, update_seq resolve NEmpty kvs = TOk (t, ev) /\
      st_root H s = TOk h /\ hash_root H t = Some h.
  Proof.
    intros HB Hfeed.
    destruct (st_feed_sound kvs stack_new NEmpty s (or_introl (conj eq_refl eq_refl)) HB Hfeed)
      as (t & ev & E & Hr).
    exists t, ev. unfold st_root. destruct Hr as [[-> ->]|(HR & Hin & Hun)].
    - exists (H [128]). auto.
    - destruct (hash_R _ _ HR) as (e & Ee & _ & Ef). exists (H e). split; [exact E|].
      split; [exact (Ef Hun)|]. unfold hash_root, node_ref.
      destruct t; try destruct Hin; rewrite Ee, andb_false_r; reflexivity.
  Qed.

  (* ---------------------------------------------------------------- progress: ascending equal-length keys are accepted *)

  (* [sp st l]: [l] (the last inserted key, from this node down) is the rightmost
     path of [st]; everything left of it is nil or already hashed *)
  Inductive sp : stnode -> list N -> Prop :=
  | sp_leaf k v : sp (StLeaf k v) k
  | sp_ext k c l' : sp c l' -> sp (StExt k c) (k ++ l')
  | sp_branch cs x l' c :
      nth_error cs (N.to_nat x) = Some c -> sp c l' ->
      (forall j cj, nth_error cs j = Some cj -> (N.to_nat x < j)%nat -> cj = StNil) ->
      (forall j cj, nth_error cs j = Some cj -> (j < N.to_nat x)%nat ->
         cj = StNil \/ exists v, cj = StHashed v) ->
      sp (StBranch cs) (x :: l').

  Lemma sp_inv st l : sp st l ->
    match st with
    | StLeaf k _ => l = k
    | StExt k c => exists l', l = k ++ l' /\ sp c l'
    | StBranch cs =>
        exists x l' c, l = x :: l' /\ nth_error cs (N.to_nat x) = Some c /\ sp c l' /\
          (forall j cj, nth_error cs j = Some cj -> (N.to_nat x < j)%nat -> cj = StNil) /\
          (forall j cj, nth_error cs j = Some cj -> (j < N.to_nat x)%nat ->
             cj = StNil \/ exists v, cj = StHashed v)
    | _ => False
    end.
  Proof. destruct 1; eauto 10. Qed.

  Lemma slice_lt_app (p a b : list N) : slice_lt (p ++ a) (p ++ b) = slice_lt a b.
  Proof. induction p as [|z p IH]; [reflexivity|]. simpl. rewrite N.ltb_irrefl, N.eqb_refl. exact IH. Qed.

  Lemma slice_lt_split (l : list N) : forall key, length l = length key -> slice_lt l key = true ->
    exists p a b l2 key2, l = p ++ a :: l2 /\ key = p ++ b :: key2 /\ a < b.
  Proof.
    induction l as [|x l IH]; intros [|y key] HL Hlt; simpl in *; try discriminate.
    destruct (N.ltb_spec x y) as [Hxy|Hxy].
    - exists [], x, y, l, key. auto.
    - destruct (N.eqb_spec x y) as [->|Ne]; [|discriminate].
      destruct (IH key ltac:(lia) Hlt) as (p & a & b & l2 & key2 & -> & -> & Hab).
      exists (y :: p), a, b, l2, key2. auto.
  Qed.

  Lemma gdi_app_neq (p : list N) a k2 b key2 :
    a <> b -> get_diff_index (p ++ a :: k2) (p ++ b :: key2) = Some (length p).
  Proof.
    intros Hn. induction p as [|z p IH]; simpl.
    - destruct (N.eqb_spec a b); congruence.
    - rewrite N.eqb_refl, IH. reflexivity.
  Qed.

  Lemma gdi_full (k key1 : list N) : get_diff_index k (k ++ key1) = Some (length k).
  Proof. induction k as [|z k IH]; simpl; [reflexivity|]. rewrite N.eqb_refl, IH. reflexivity. Qed.

  Lemma hashed_ok c n : R c n -> exists v, hashed H c = TOk (StHashed v).
  Proof.
    intros HR. destruct (hash_R _ _ HR) as (e & _ & Eh & _). unfold hashed. rewrite Eh. eauto.
  Qed.

  Lemma branch2_ok a c1 b c2 : a < 16 -> b < 16 -> a <> b ->
    exists scs2, branch2 a c1 b c2 = TOk (StBranch scs2) /\
      forall j, nth_error scs2 j =
                if Nat.eqb j (N.to_nat b) then Some c2
                else if Nat.eqb j (N.to_nat a) then Some c1 else nth_error st_empty16 j.
  Proof.
    intros Ha Hb Hab. unfold branch2.
    destruct (set_nth_some (N.to_nat a) c1 st_empty16) as [scs1 S1]; [change (length st_empty16) with 16%nat; lia|].
    destruct (set_nth_spec _ _ _ _ S1) as [L1 N1]. rewrite S1.
    destruct (set_nth_some (N.to_nat b) c2 scs1) as [scs2 S2]; [rewrite L1; change (length st_empty16) with 16%nat; lia|].
    destruct (set_nth_spec _ _ _ _ S2) as [L2 N2]. rewrite S2.
    exists scs2. split; [reflexivity|]. intros j. rewrite N2, N1. reflexivity.
  Qed.

  (* the branch with the old subtree (hashed) at [a] and the new leaf at [b > a] *)
  Lemma sp_branch2 a v1 b key2 v scs2 :
    a < b ->
    (forall j, nth_error scs2 j =
               if Nat.eqb j (N.to_nat b) then Some (StLeaf key2 v)
               else if Nat.eqb j (N.to_nat a) then Some (StHashed v1) else nth_error st_empty16 j) ->
    sp (StBranch scs2) (b :: key2).
  Proof.
    intros Hab Hn. apply (sp_branch scs2 b key2 (StLeaf key2 v)).
    - rewrite Hn, Nat.eqb_refl. reflexivity.
    - constructor.
    - intros j cj Hj Hlt. rewrite Hn in Hj.
      destruct (Nat.eqb_spec j (N.to_nat b)); [lia|]. destruct (Nat.eqb_spec j (N.to_nat a)); [lia|].
      eapply nth_error_st_empty16; eassumption.
    - intros j cj Hj Hlt. rewrite Hn in Hj.
      destruct (Nat.eqb_spec j (N.to_nat b)); [lia|]. destruct (Nat.eqb_spec j (N.to_nat a)).
      + inversion Hj; subst. right. eauto.
      + left. eapply nth_error_st_empty16; eassumption.
  Qed.

  Lemma hash_prev_same : forall i scs, (i <= length scs)%nat ->
    (forall j cj, nth_error scs j = Some cj -> (j < i)%nat -> cj = StNil \/ exists v, cj = StHashed v) ->
    hash_prev H i scs = TOk scs.
  Proof.
    induction i as [|j0 IH]; intros scs Hi Hl; [reflexivity|]. simpl.
    destruct (nth_error scs j0) as [c|] eqn:Ec; [|apply nth_error_None in Ec; lia].
    destruct (Hl _ _ Ec ltac:(lia)) as [->|[v ->]]; [|reflexivity].
    apply IH; [lia|]. intros j cj Hj Hlt. apply (Hl _ _ Hj). lia.
  Qed.

  Lemma hash_prev_spine cs x c : forall i scs,
    children_rel scs cs -> (i <= length scs)%nat -> (N.to_nat x < i)%nat ->
    nth_error scs (N.to_nat x) = Some c -> c <> StNil ->
    (forall j cj, nth_error scs j = Some cj -> (N.to_nat x < j)%nat -> cj = StNil) ->
    (forall j cj, nth_error scs j = Some cj -> (j < N.to_nat x)%nat ->
       cj = StNil \/ exists v, cj = StHashed v) ->
    exists scs1, hash_prev H i scs = TOk scs1 /\
      (forall j, (i <= j)%nat -> nth_error scs1 j = nth_error scs j) /\
      (forall j cj, nth_error scs1 j = Some cj -> (j < i)%nat -> cj = StNil \/ exists v, cj = StHashed v).
  Proof.
    induction i as [|j0 IH]; intros scs Hrel Hi Hx Hc Hnn Hright Hleft; [lia|]. simpl.
    destruct (Nat.eq_dec j0 (N.to_nat x)) as [->|Nj].
    - rewrite Hc.
      assert (Hdone : forall scs1, (forall j, nth_error scs1 j =
                         if Nat.eqb j (N.to_nat x) then (match nth_error scs1 (N.to_nat x) with Some y => Some y | None => None end)
                         else nth_error scs j) ->
                (exists v, nth_error scs1 (N.to_nat x) = Some (StHashed v)) ->
                (forall j, (S (N.to_nat x) <= j)%nat -> nth_error scs1 j = nth_error scs j) /\
                (forall j cj, nth_error scs1 j = Some cj -> (j < S (N.to_nat x))%nat ->
                   cj = StNil \/ exists v, cj = StHashed v)).
      { intros scs1 Hn [v Hv]. split.
        - intros j Hj. rewrite Hn. destruct (Nat.eqb_spec j (N.to_nat x)); [lia|reflexivity].
        - intros j cj Hj Hlt. destruct (Nat.eq_dec j (N.to_nat x)) as [->|Nx].
          + rewrite Hv in Hj. inversion Hj; subst. right. eauto.
          + rewrite Hn in Hj. destruct (Nat.eqb_spec j (N.to_nat x)); [congruence|].
            apply (Hleft _ _ Hj). lia. }
      destruct (Hrel _ _ Hc) as (n & En & [[-> _]|(_ & Hin & HR)]); [congruence|].
      assert (Hgen : unhashed c -> exists scs1,
                match hashed H c with
                | TErr e => TErr e
                | TOk c' => match set_nth (N.to_nat x) c' scs with Some cs' => TOk cs' | None => TErr EPanic end
                end = TOk scs1 /\
                (forall j, (S (N.to_nat x) <= j)%nat -> nth_error scs1 j = nth_error scs j) /\
                (forall j cj, nth_error scs1 j = Some cj -> (j < S (N.to_nat x))%nat ->
                   cj = StNil \/ exists v, cj = StHashed v)).
      { intros _. destruct (hashed_ok _ _ HR) as [v Ev]. rewrite Ev.
        destruct (set_nth_some (N.to_nat x) (StHashed v) scs) as [scs1 Es]; [lia|]. rewrite Es.
        destruct (set_nth_spec _ _ _ _ Es) as [L Hn]. exists scs1. split; [reflexivity|].
        apply Hdone.
        - intros j. rewrite !Hn, Nat.eqb_refl. destruct (Nat.eqb j (N.to_nat x)); reflexivity.
        - exists v. rewrite Hn, Nat.eqb_refl. reflexivity. }
      destruct c; try (apply Hgen; exact I); [congruence|].
      exists scs. split; [reflexivity|]. apply Hdone.
      + intros j. rewrite Hc. destruct (Nat.eqb_spec j (N.to_nat x)) as [->|]; [exact Hc|reflexivity].
      + eauto.
    - destruct (nth_error scs j0) as [cj|] eqn:Ej; [|apply nth_error_None in Ej; lia].
      pose proof (Hright _ _ Ej ltac:(lia)) as ->.
      destruct (IH scs Hrel ltac:(lia) ltac:(lia) Hc Hnn Hright Hleft) as (scs1 & E1 & U1 & L1).
      exists scs1. split; [exact E1|]. split.
      + intros j Hj. apply U1. lia.
      + intros j cj Hj Hlt. destruct (Nat.eq_dec j j0) as [->|Njj].
        * rewrite U1 in Hj by lia. rewrite Ej in Hj. inversion Hj; subst. left. reflexivity.
        * apply (L1 _ _ Hj). lia.
  Qed.

  Lemma insert_progress : forall fuel st l, sp st l ->
    forall n key v, R st n -> nibbles key -> length key = length l -> slice_lt l key = true ->
    (length key < fuel)%nat ->
    exists st', st_insert H fuel st key v = TOk st' /\ sp st' key.
  Proof.
    induction fuel as [|f IH]; intros st l Hsp n key v HR Hk HL Hlt Hf; [lia|].
    destruct st as [| |scs|k c|k v0|hv]; apply sp_inv in Hsp; try solve [destruct Hsp];
      apply R_inv in HR; cbn [st_insert].
    - (* branch *)
      destruct Hsp as (x & l' & c & -> & Hc & Hspc & Hright & Hleft).
      destruct HR as (cs & -> & Ls & Lc & H16 & Hrel).
      destruct key as [|k0 kr]; [discriminate|]. simpl in HL, Hlt.
      inversion Hk as [|? ? Hk0 Hkr]; subst.
      assert (Hcnn : c <> StNil) by (intros ->; inversion Hspc).
      assert (Hxl : (N.to_nat x < 16)%nat) by (rewrite <- Ls; apply nth_error_Some; congruence).
      destruct (N.ltb_spec x k0) as [Hxk|Hxk].
      + (* a new child to the right of the spine *)
        destruct (hash_prev_spine cs x c (N.to_nat k0) scs Hrel ltac:(lia) ltac:(lia) Hc Hcnn Hright Hleft)
          as (scs1 & E1 & U1 & L1).
        rewrite E1. rewrite (U1 (N.to_nat k0) ltac:(lia)).
        destruct (nth_error scs (N.to_nat k0)) as [ck|] eqn:Eck; [|apply nth_error_None in Eck; lia].
        pose proof (Hright _ _ Eck ltac:(lia)) as ->.
        assert (Ls1 : length scs1 = 16%nat).
        { destruct (hash_prev_R cs _ _ _ E1 Hrel) as [_ L]. lia. }
        destruct (set_nth_some (N.to_nat k0) (StLeaf kr v) scs1) as [scs2 Es]; [lia|]. rewrite Es.
        destruct (set_nth_spec _ _ _ _ Es) as [L2 N2].
        exists (StBranch scs2). split; [reflexivity|].
        apply (sp_branch scs2 k0 kr (StLeaf kr v)).
        * rewrite N2, Nat.eqb_refl. reflexivity.
        * constructor.
        * intros j cj Hj Hjl. rewrite N2 in Hj. destruct (Nat.eqb_spec j (N.to_nat k0)); [lia|].
          rewrite U1 in Hj by lia. apply (Hright _ _ Hj). lia.
        * intros j cj Hj Hjl. rewrite N2 in Hj. destruct (Nat.eqb_spec j (N.to_nat k0)); [lia|].
          apply (L1 _ _ Hj). lia.
      + (* descend along the spine *)
        destruct (N.eqb_spec x k0) as [->|Ne]; [|discriminate].
        rewrite (hash_prev_same (N.to_nat k0) scs ltac:(lia) Hleft), Hc.
        destruct (Hrel _ _ Hc) as (nc & Enc & [[-> _]|(_ & Hin & HRc)]); [congruence|].
        destruct (IH c l' Hspc nc kr v HRc Hkr ltac:(lia) Hlt ltac:(simpl in Hf; lia)) as (c' & Ei & Hsp').
        assert (Hgoal : exists st',
                  match st_insert H f c kr v with
                  | TErr e => TErr e
                  | TOk c' => match set_nth (N.to_nat k0) c' scs with
                              | Some cs2 => TOk (StBranch cs2) | None => TErr EPanic end
                  end = TOk st' /\ sp st' (k0 :: kr)).
        { rewrite Ei. destruct (set_nth_some (N.to_nat k0) c' scs) as [scs2 Es]; [lia|]. rewrite Es.
          destruct (set_nth_spec _ _ _ _ Es) as [L2 N2].
          exists (StBranch scs2). split; [reflexivity|]. apply (sp_branch scs2 k0 kr c').
          - rewrite N2, Nat.eqb_refl. reflexivity.
          - exact Hsp'.
          - intros j cj Hj Hjl. rewrite N2 in Hj. destruct (Nat.eqb_spec j (N.to_nat k0)); [lia|].
            apply (Hright _ _ Hj Hjl).
          - intros j cj Hj Hjl. rewrite N2 in Hj. destruct (Nat.eqb_spec j (N.to_nat k0)); [lia|].
            apply (Hleft _ _ Hj Hjl). }
        destruct c; try exact Hgoal; congruence.
    - (* extension *)
      destruct Hsp as (l' & -> & Hspc).
      destruct HR as (cs & -> & Hkne & Hkn & HRc).
      destruct (slice_lt_split _ _ (eq_sym HL) Hlt) as (p & a & b & l2 & key2 & El & -> & Hab).
      assert (Hnib : a < 16 /\ b < 16).
      { apply nibbles_app_r in Hk. inversion Hk; subst. split; [lia|assumption]. }
      assert (Hfull : forall q, p = k ++ q -> l' = q ++ a :: l2 ->
                exists st', st_insert H (S f) (StExt k c) (p ++ b :: key2) v = TOk st' /\ sp st' (p ++ b :: key2)).
      { intros q -> ->. cbn [st_insert]. rewrite <- app_assoc, gdi_full, Nat.eqb_refl, skipn_app_exact.
        destruct (IH c _ Hspc (NFull cs) (q ++ b :: key2) v HRc) as (c' & Ei & Hsp').
        - rewrite <- app_assoc in Hk. exact (nibbles_app_r _ _ Hk).
        - clear -HL. rewrite !app_length in *. simpl in *. lia.
        - rewrite slice_lt_app. simpl. destruct (N.ltb_spec a b); [reflexivity|lia].
        - clear -Hf Hkne. rewrite !app_length in *. destruct k; [congruence|]. simpl in *. lia.
        - rewrite Ei. exists (StExt k c'). split; [reflexivity|]. constructor. exact Hsp'. }
      cbn [st_insert] in Hfull.
      apply app_eq_app in El as [lq [[Ek El']|[Ep El']]].
      + destruct lq as [|a' k2].
        * rewrite app_nil_r in Ek. subst k. apply (Hfull []); [rewrite app_nil_r; reflexivity|symmetry; exact El'].
        * simpl in El'. inversion El'; subst a' l2. subst k.
          (* the keys diverge inside the extension key *)
          rewrite (gdi_app_neq p a k2 b key2 ltac:(lia)).
          replace (Nat.eqb (length p) (length (p ++ a :: k2))) with false
            by (symmetry; apply Nat.eqb_neq; rewrite app_length; simpl; lia).
          rewrite !nth_error_app_exact. simpl hd_error. cbv iota.
          rewrite !skipn_app_succ, firstn_app_exact.
          assert (Hk2 : nibbles k2) by (apply nibbles_app_r in Hkn; exact (nibbles_tl _ _ Hkn)).
          assert (Hh : exists v1, (if Nat.ltb (length p) (length (p ++ a :: k2) - 1)
                                   then hashed H (StExt k2 c) else hashed H c) = TOk (StHashed v1)).
          { destruct (Nat.ltb (length p) (length (p ++ a :: k2) - 1)) eqn:Eb.
            - destruct k2 as [|x2 k2]; [apply Nat.ltb_lt in Eb; rewrite app_length in Eb; simpl in Eb; lia|].
              apply (hashed_ok _ _ (R_ext (x2 :: k2) c cs ltac:(discriminate) Hk2 HRc)).
            - apply (hashed_ok _ _ HRc). }
          destruct Hh as [v1 ->].
          destruct (branch2_ok a (StHashed v1) b (StLeaf key2 v) (proj1 Hnib) (proj2 Hnib) ltac:(lia))
            as (scs2 & Eb2 & Hn2).
          rewrite Eb2. pose proof (sp_branch2 a v1 b key2 v scs2 Hab Hn2) as Hspb.
          destruct p as [|p0 p]; simpl Nat.eqb; cbv iota; eexists; (split; [reflexivity|]).
          -- exact Hspb.
          -- apply (sp_ext (p0 :: p)). exact Hspb.
      + apply (Hfull lq Ep El').
    - (* leaf *)
      subst l. destruct HR as [-> Hkn].
      destruct (slice_lt_split _ _ (eq_sym HL) Hlt) as (p & a & b & l2 & key2 & -> & -> & Hab).
      assert (Hnib : a < 16 /\ b < 16).
      { apply nibbles_app_r in Hk. apply nibbles_app_r in Hkn. inversion Hk; inversion Hkn; subst. split; assumption. }
      rewrite (gdi_app_neq p a l2 b key2 ltac:(lia)).
      replace (Nat.leb (length (p ++ a :: l2)) (length p)) with false
        by (symmetry; apply Nat.leb_gt; rewrite app_length; simpl; lia).
      rewrite !nth_error_app_exact. simpl hd_error. cbv iota.
      rewrite !skipn_app_succ, firstn_app_exact.
      assert (Hl2 : nibbles l2) by (apply nibbles_app_r in Hkn; exact (nibbles_tl _ _ Hkn)).
      destruct (hashed_ok _ _ (R_leaf l2 v0 Hl2)) as [v1 ->].
      destruct (branch2_ok a (StHashed v1) b (StLeaf key2 v) (proj1 Hnib) (proj2 Hnib) ltac:(lia))
        as (scs2 & Eb2 & Hn2).
      rewrite Eb2. pose proof (sp_branch2 a v1 b key2 v scs2 Hab Hn2) as Hspb.
      destruct p as [|p0 p]; simpl Nat.eqb; cbv iota; eexists; (split; [reflexivity|]).
      + exact Hspb.
      + apply (sp_ext (p0 :: p)). exact Hspb.
  Qed.

  (* strictly ascending hex keys (bytes.Compare(t.last, k) < 0 at every Update) *)
  Fixpoint asc (last : list N) (kvs : list (list N * list N)) : Prop :=
    match kvs with
    | [] => True
    | (k, v) :: r => slice_lt last (nibbles_of k) = true /\ asc (nibbles_of k) r
    end.

  Definition sroot (s : stack) (t : node) (L : nat) : Prop :=
    (fst s = StEmpty /\ t = NEmpty /\ snd s = []) \/
    (R (fst s) t /\ inner t /\ unhashed (fst s) /\ sp (fst s) (snd s) /\ length (snd s) = L).

  Lemma st_feed_total : forall kvs s t L,
    sroot s t L -> bytes_ops kvs ->
    Forall (fun kv => snd kv <> [] /\ length (nibbles_of (fst kv)) = L) kvs ->
    asc (snd s) kvs -> exists s', st_feed s kvs = Some s'.
  Proof.
    induction kvs as [|[k v] kvs IH]; intros [st last] t L Hr HB HF Hasc; [eexists; reflexivity|].
    inversion HB as [|? ? Hk HB']; subst. inversion HF as [|? ? Hvl HF']; subst. destruct Hvl as [Hv HLk]. simpl in Hk, Hv, HLk.
    destruct Hasc as [Hlt Hasc']. cbn [fst snd] in *.
    pose proof (nibbles_of_nibbles _ Hk) as Hn.
    assert (Hstep : exists st' t', st_insert H (S (length (nibbles_of k))) st (nibbles_of k) v = TOk st' /\
                      sroot (st', nibbles_of k) t' (length (nibbles_of k))).
    { unfold sroot in Hr. cbn [fst snd] in Hr.
      destruct Hr as [(-> & -> & ->)|(HR & Hin & Hun & Hsp & HLl)]; unfold sroot; cbn [fst snd] in *.
      - exists (StLeaf (nibbles_of k) v), (NShort (nibbles_of k ++ [16]) (NValue v)).
        split; [reflexivity|]. right. cbn [fst snd].
        split; [apply R_leaf; exact Hn|]. split; [exact I|]. split; [exact I|]. split; [constructor|reflexivity].
      - destruct (insert_progress (S (length (nibbles_of k))) st last Hsp t (nibbles_of k) v HR Hn)
          as (st' & Ei & Hsp'); [lia|exact Hlt|lia|].
        destruct (insert_R _ _ _ _ _ _ HR Hn Ei (length (nibbles_of k) + 2)%nat [])
          as (t' & ev & _ & HR' & Hin' & Hun' & _); [lia|].
        exists st', t'. split; [exact Ei|]. right. cbn [fst snd]. auto. }
    destruct Hstep as (st' & t' & Ei & Hr').
    assert (Hkne : k <> []) by (intros ->; simpl in Hlt; destruct last; discriminate).
    cbn [st_feed]. rewrite (st_update_cons _ _ _ Hkne). cbv zeta. cbn [fst snd]. destruct v as [|b v]; [congruence|].
    rewrite Hlt. cbn [negb]. rewrite Ei.
    apply (IH (st', nibbles_of k) t' (length (nibbles_of k)) Hr' HB'); [|exact Hasc'].
    eapply Forall_impl; [|exact HF']. intros kv [? ?]. split; [assumption|]. lia.
  Qed.

  (* (g, stack trie) FULL: for byte keys of one length in strictly ascending
     order with non-empty values, StackTrie accepts every pair (no error, no
     panic) and its Hash() is the root hash of the ordinary trie built from the
     same pairs *)
  Theorem stack_trie_root kvs Lb :
    bytes_ops kvs ->
    Forall (fun kv => snd kv <> [] /\ length (fst kv) = Lb) kvs ->
    asc [] kvs ->
    exists s t ev h, st_feed stack_new kvs = Some s /\
      update_seq resolve NEmpty kvs = TOk (t, ev) /\
      st_root H s = TOk h /\ hash_root H t = Some h.
  Proof.
    intros HB HF Hasc.
    destruct (st_feed_total kvs stack_new NEmpty (2 * Lb)%nat) as [s Hs]; try assumption.
    - left. auto.
    - eapply Forall_impl; [|exact HF]. intros kv [? <-]. split; [assumption|]. apply nibbles_of_length.
    - destruct (stack_trie_sound kvs s HB Hs) as (t & ev & h & E1 & E2 & E3).
      exists s, t, ev, h. auto.
  Qed.
End SP.
