(* Trie/GenerateSlim2.v — after a successful GenerateTrie every flat account entry
   decodes to the original account with its storage root corrected (C11). *)
From GV Require Import Lib.Tactics Lib.Bytes Lib.BytesProofs Rlp.Codec Trie.Hex Trie.Node Trie.Ops Trie.Hash Trie.OpsProofs Trie.Canon Trie.Stack Trie.StackProofs Trie.ProofProofs Trie.Commit Trie.CommitProofs Trie.CommitTracer Trie.Generate Trie.GenerateWalk Trie.GenerateWalk2 Trie.GenerateKeys Trie.GenerateSched Trie.GenerateRoot Trie.GenerateRoot2 Trie.GenerateFlat Trie.GenerateFlat2 Trie.GenerateSlim Trie.GenerateTotal2.
Local Open Scope N_scope.

Section Slim2.
  Variable H : list N -> list N.
  Hypothesis H_len : forall x, length (H x) = 32%nat.

  (* success implies that every account entry decoded *)
  Theorem success_decodable sc expected db st : wf_db db ->
    fst (generate H sc expected db) = GOk st -> decodable H db.
  Proof.
    intros Hwf Hok kv Hin.
    destruct (gen_ok_root H sc expected db st Hok) as (rs & ws & Er & _).
    pose proof (run_partitions_F2 H sc db partitions rs Er) as HF2.
    pose proof (wf_ka db Hwf) as Hka. unfold wf_accts in Hka. rewrite Forall_forall in Hka.
    pose proof (nib0_lt16 _ (Hka kv Hin)) as Hq.
    destruct (F2_in_l _ _ _ _ HF2 (in_partitions _ Hq)) as (r & _ & Ep).
    destruct (partition_spec H H_len sc _ db r Hwf Ep) as (t & _ & _ & Hd & _).
    rewrite Forall_forall in Hd. apply Hd. unfold part. apply filter_In. split; [exact Hin|]. unfold in_part. apply N.eqb_refl.
  Qed.

  (* the flat account key space afterwards: same keys, every entry decodes to the corrected account *)
  Theorem gen_flat_decodes sc expected db st : wf_db db ->
    Forall (fun kv => bytesb (snd kv) = true /\ lenN (snd kv) < 2 ^ 32) (g_accts db) ->
    fst (generate H sc expected db) = GOk st ->
    Forall2 (fun kv0 kv => fst kv = fst kv0 /\
               exists acc, full_account H (snd kv0) = Some acc /\
                           full_account H (snd kv) = Some (corrected H (g_stor db) (fst kv0) acc))
            (g_accts db) (g_accts (snd (generate H sc expected db))).
  Proof.
    intros Hwf Hb Hok. destruct (gen_flat H H_len sc expected db st Hwf Hok) as [Ea _]. rewrite Ea. unfold correct_accts.
    pose proof (success_decodable sc expected db st Hwf Hok) as Hdec. unfold decodable in Hdec.
    pose proof (wf_ks db Hwf) as Hks.
    revert Hb Hdec. generalize (g_accts db) as l. induction l as [|kv l IH]; intros Hb Hdec; [constructor|].
    inversion Hb as [|? ? [Hbb Hl] Hb']; subst. cbn [map]. constructor.
    - split; [reflexivity|]. destruct (full_account H (snd kv)) as [acc|] eqn:E; [|exfalso; apply (Hdec kv (or_introl eq_refl)); exact E].
      exists acc. split; [reflexivity|]. apply corrected_entry_decodes; assumption.
    - apply IH; [exact Hb'|]. intros x Hx. apply Hdec. right. exact Hx.
  Qed.
End Slim2.
