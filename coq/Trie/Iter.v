(* Trie/Iter.v — executable model of /repo/trie/iterator.go: the node iterator
   (nodeIterator.Next(true), peek, nextChild, findChild, push, pop,
   nextChildIndex / prevChildIndex) started at the beginning of the trie
   (start = nil: seek returns before pushing anything), and the key/value
   Iterator built on it (Iterator.Next: advance until Leaf()).

   * The stack is a list with the TOP FIRST (Go appends at the end).
   * Hash nodes would be resolved through the database (state.resolve); on the
     in-memory tries of C06 none exists and the model returns EMissing there.
   * Node hashes / parent hashes kept in the Go states are not modelled (they
     do not influence the traversal).
   * Loops run on fuel; EFuel is proved unreachable in Trie/IterProofs.v.

   Names other families rely on (keep stable):
     ist iter istate next_ci prev_ci find_child next_child peek_push node_next
     kv_next iter_all entries visit_order *)
From Coq Require Import ZArith.
From GV Require Import Trie.Hex Trie.Node.
Local Open Scope Z_scope.

(* nodeIteratorState: node, index of the child processed last, length of the
   path of the parent *)
Record ist : Type := mkIst { i_node : node; i_index : Z; i_pathlen : nat }.

(* the running iterator: stack (top first) and current path *)
Record iter : Type := mkIter { it_stack : list ist; it_path : list N }.

(* iterator.go:nextChildIndex *)
Definition next_ci (i : Z) : Z :=
  if Z.eqb i (-1) then 16 else if Z.eqb i 15 then 17 else if Z.eqb i 16 then 0 else i + 1.

(* iterator.go:prevChildIndex *)
Definition prev_ci (i : Z) : Z :=
  if Z.eqb i 0 then 16 else if Z.eqb i 16 then -1 else if Z.eqb i 17 then 15 else i - 1.

(* findChild: for ; index < len(n.Children); index = nextChildIndex(index) —
   the first non-nil child at or after [index] in traversal order *)
Fixpoint find_child (fuel : nat) (cs : list node) (index : Z) : tres (option (node * Z)) :=
  match fuel with
  | O => TErr EFuel
  | S f =>
      if Z.ltb index 17 then
        match (if Z.ltb index 0 then None else nth_error cs (Z.to_nat index)) with
        | None => TErr EPanic                        (* index out of range *)
        | Some NEmpty => find_child f cs (next_ci index)
        | Some c => TOk (Some (c, index))
        end
      else TOk None
  end.

(* nextChild: the updated parent state, the child's state and the child's path *)
Definition next_child (parent : ist) (path : list N) : tres (option (ist * ist * list N)) :=
  match i_node parent with
  | NFull cs =>
      match find_child 19 cs (next_ci (i_index parent)) with
      | TErr e => TErr e
      | TOk (Some (c, idx)) =>
          TOk (Some (mkIst (i_node parent) (prev_ci idx) (i_pathlen parent),
                     mkIst c (-1) (length path),
                     path ++ [Z.to_N idx]))
      | TOk None => TOk None
      end
  | NShort k v =>
      if Z.ltb (i_index parent) 0
      then TOk (Some (parent, mkIst v (-1) (length path), path ++ k))
      else TOk None
  | _ => TOk None
  end.

(* the loop of peek(descend = true) followed by push; None = errIteratorEnd *)
Fixpoint peek_push (fuel : nat) (stack : list ist) (path : list N) : tres (option iter) :=
  match fuel with
  | O => TErr EFuel
  | S f =>
      match stack with
      | [] => TOk None
      | parent :: rest =>
          match next_child parent path with
          | TErr e => TErr e
          | TOk (Some (parent', st, cpath)) =>
              match i_node st with
              | NHash _ => TErr EMissing             (* state.resolve: not in memory *)
              | _ =>
                  (* push: the parent index is advanced: nextChildIndex of parentIndex *)
                  TOk (Some (mkIter (st :: mkIst (i_node parent') (next_ci (i_index parent'))
                                                 (i_pathlen parent') :: rest) cpath))
              end
          | TOk None =>
              (* pop: it.path = it.path[:last.pathlen] *)
              peek_push f rest (firstn (i_pathlen parent) path)
          end
      end
  end.

Inductive istate : Type :=
| IStart                 (* created, Next not yet called *)
| IRun (it : iter)
| IEnd.                  (* err == errIteratorEnd *)

(* newNodeIterator + nodeIterator.Next(true) *)
Definition node_next (root : node) (s : istate) : tres istate :=
  match s with
  | IEnd => TOk IEnd
  | IStart =>
      match root with
      | NEmpty => TOk IEnd                          (* trie.Hash() == EmptyRootHash *)
      | NHash _ => TErr EMissing
      | _ => TOk (IRun (mkIter [mkIst root (-1) 0] []))   (* init; push(state, nil, nil) *)
      end
  | IRun it =>
      match peek_push (S (length (it_stack it))) (it_stack it) (it_path it) with
      | TErr e => TErr e
      | TOk None => TOk IEnd
      | TOk (Some it') => TOk (IRun it')
      end
  end.

(* Leaf() / LeafKey() / LeafBlob() of the current position *)
Definition leaf_of (it : iter) : tres (option (list N * list N)) :=
  if has_term (it_path it) then
    match it_stack it with
    | mkIst (NValue v) _ _ :: _ =>
        match hex_to_keybytes (it_path it) with
        | Some k => TOk (Some (k, v))
        | None => TErr EPanic                       (* hexToKeybytes: odd length *)
        end
    | _ => TErr EPanic                              (* "not at leaf" *)
    end
  else TOk None.

(* Iterator.Next: advance to the next leaf *)
Fixpoint kv_next (fuel : nat) (root : node) (s : istate) : tres (istate * option (list N * list N)) :=
  match fuel with
  | O => TErr EFuel
  | S f =>
      match node_next root s with
      | TErr e => TErr e
      | TOk IEnd => TOk (IEnd, None)
      | TOk IStart => TErr EPanic
      | TOk (IRun it) =>
          match leaf_of it with
          | TErr e => TErr e
          | TOk (Some kv) => TOk (IRun it, Some kv)
          | TOk None => kv_next f root (IRun it)
          end
      end
  end.

(* for it.Next() { collect (it.Key, it.Value) } *)
Fixpoint iter_all (fuel : nat) (root : node) (s : istate) : tres (list (list N * list N)) :=
  match fuel with
  | O => TErr EFuel
  | S f =>
      match kv_next fuel root s with
      | TErr e => TErr e
      | TOk (_, None) => TOk []
      | TOk (s', Some kv) =>
          match iter_all f root s' with
          | TErr e => TErr e
          | TOk l => TOk (kv :: l)
          end
      end
  end.

(* ---- the reference the iterator is proved against: the entries of a trie in
   pre-order with the value slot of a full node first ---- *)

Definition visit_order : list nat :=
  [16; 0; 1; 2; 3; 4; 5; 6; 7; 8; 9; 10; 11; 12; 13; 14; 15]%nat.

(* (hex path, value) of every value node below [n], [p] = path to [n] *)
Fixpoint entries (n : node) (p : list N) {struct n} : list (list N * list N) :=
  match n with
  | NValue v => [(p, v)]
  | NShort k c => entries c (p ++ k)
  | NFull cs =>
      let fs := (fix mp (l : list node) : list (list N -> list (list N * list N)) :=
                   match l with [] => [] | c :: r => entries c :: mp r end) cs in
      flat_map (fun i => match nth_error fs i with
                         | Some f => f (p ++ [N.of_nat i])
                         | None => []
                         end) visit_order
  | _ => []
  end.

(* number of non-empty nodes (values included): the iterator arrives at each once *)
Fixpoint nsize (n : node) : nat :=
  match n with
  | NEmpty => O
  | NShort _ c => S (nsize c)
  | NFull cs => S ((fix sm (l : list node) : nat :=
                      match l with [] => O | c :: r => (nsize c + sm r)%nat end) cs)
  | _ => 1%nat
  end.

(* fuel that always suffices for a full iteration (Trie/IterProofs.v) *)
Definition iter_fuel (root : node) : nat := (nsize root + 2)%nat.

(* NewIterator(t.NodeIterator(nil)) drained *)
Definition trie_iterate (root : node) : tres (list (list N * list N)) :=
  iter_all (iter_fuel root) root IStart.
