(* Trie/ProofDecodeProofs.v — decodeNode (Hash.decode_node_f) with its local
   functions named: decodeRef = [dref], the child loop of decodeFull =
   [dchildren], the 2/17 element dispatch = [dbody] (C08). *)
From GV Require Import Lib.Tactics Lib.Bytes Lib.BytesProofs Rlp.Item Rlp.Raw Rlp.Codec Rlp.RawProofs Rlp.CodecProofs.
From GV Require Import Trie.Hex Trie.HexProofs Trie.Node Trie.Ops Trie.Hash Trie.OpsProofs Trie.Proof.
Local Open Scope N_scope.

(* ------------------------------------------------------------------ decodeNode, named pieces *)

(* node.go:decodeRef over decode_node_f with fuel f *)
Definition dref (f : nat) (b : list N) : dres (node * list N) :=
  match Raw.split b with
  | Err e => DErr (DRlp e)
  | Ok (k, val, rest) =>
      match k with
      | KList =>
          let size := (length b - length rest)%nat in
          if Nat.leb 32 size then DErr DOversized
          else match decode_node_f f b with
               | DOk n => DOk (n, rest)
               | DErr e => DErr e
               end
      | _ =>
          match length val with
          | O => DOk (NEmpty, rest)
          | 32%nat => DOk (NHash val, rest)
          | _ => DErr DRefSize
          end
      end
  end.

(* the loop of decodeFull *)
Definition dchildren (f : nat) : nat -> list N -> dres (list node * list N) :=
  fix children (i : nat) (b : list N) : dres (list node * list N) :=
    match i with
    | O => DOk ([], b)
    | S i' =>
        match dref f b with
        | DErr e => DErr e
        | DOk (cld, rest) =>
            match children i' rest with
            | DErr e => DErr e
            | DOk (l, rest') => DOk (cld :: l, rest')
            end
        end
    end.

Definition dbody (f : nat) (elems : list N) (c : N) : dres node :=
  if c =? 2 then
    match split_string elems with
    | Err e => DErr (DRlp e)
    | Ok (kbuf, rest) =>
        let key := compact_to_hex kbuf in
        if has_term key then
          match split_string rest with
          | Err e => DErr (DRlp e)
          | Ok (val, _) => DOk (NShort key (NValue val))
          end
        else
          match dref f rest with
          | DOk (r, _) => DOk (NShort key r)
          | DErr e => DErr e
          end
    end
  else if c =? 17 then
    match dchildren f 16%nat elems with
    | DErr e => DErr e
    | DOk (cs, rest) =>
        match split_string rest with
        | Err e => DErr (DRlp e)
        | Ok (val, _) =>
            DOk (NFull (cs ++ [match val with [] => NEmpty | _ => NValue val end]))
        end
    end
  else DErr DCount.

Lemma decode_node_f_S f buf :
  decode_node_f (S f) buf =
  match buf with
  | [] => DErr DEmpty
  | _ =>
      match split_list buf with
      | Err e => DErr (DRlp e)
      | Ok (elems, _) =>
          match count_values elems with
          | (_, Some e) => DErr (DRlp e)
          | (c, None) => dbody f elems c
          end
      end
  end.
Proof. reflexivity. Qed.

Lemma dchildren_S f i b :
  dchildren f (S i) b =
  match dref f b with
  | DErr e => DErr e
  | DOk (cld, rest) =>
      match dchildren f i rest with
      | DErr e => DErr e
      | DOk (l, rest') => DOk (cld :: l, rest')
      end
  end.
Proof. reflexivity. Qed.

Global Opaque decode_node_f.
