(* Trie/GenerateRoot3.v — C11_gen_root: composition of the merge walk, the
   per-partition builder and assembleRoot (0 / 1 / >= 2 populated partitions)
   with the canonical-form theory: the assembled trie IS the trie of the whole
   corrected account set. *)
From GV Require Import Lib.Tactics Lib.Bytes Rlp.Codec Trie.Hex Trie.HexProofs Trie.Node Trie.Ops Trie.Hash Trie.OpsProofs Trie.Canon Trie.Stack Trie.StackProofs Trie.ProofProofs Trie.Commit Trie.CommitProofs Trie.CommitTracer Trie.Generate Trie.GenerateProofs Trie.GenerateWalk Trie.GenerateWalk2 Trie.GenerateWalk3 Trie.GenerateKeys Trie.GenerateSize Trie.GenerateAssemble Trie.GenerateAssemble2 Trie.GenerateSched Trie.GenerateRoot Trie.GenerateRoot2.
Local Open Scope N_scope.

(* ---------------------------------------------------------------- sixteen slots: none / one / several populated *)

Lemma all_empty_repeat (ts : list node) : (forall t, In t ts -> t = NEmpty) -> ts = repeat NEmpty (length ts).
Proof.
  induction ts as [|x ts IH]; intros Ha; [reflexivity|]. cbn [length repeat].
  rewrite (Ha x (or_introl eq_refl)). f_equal. apply IH. intros t Ht. apply Ha. right. exact Ht.
Qed.

Lemma is_empty_true t : is_empty t = true -> t = NEmpty.
Proof. destruct t; try discriminate; reflexivity. Qed.
Lemma is_empty_false t : is_empty t = false -> t <> NEmpty.
Proof. destruct t; try discriminate; congruence. Qed.

Lemma count_single p t m : t <> NEmpty -> (1 <= count (repeat NEmpty p ++ t :: repeat NEmpty m))%nat.
Proof.
  intros Hne. eapply (count_ge_1 _ p t); [|exact Hne].
  rewrite nth_error_app2 by (rewrite repeat_length; lia). rewrite repeat_length, Nat.sub_diag. reflexivity.
Qed.

Lemma ts_shape : forall ts : list node,
  (forall t, In t ts -> t = NEmpty) \/
  (exists p t, ts = repeat NEmpty p ++ t :: repeat NEmpty (length ts - 1 - p) /\ t <> NEmpty /\ (p < length ts)%nat) \/
  (2 <= count ts)%nat.
Proof.
  induction ts as [|x ts IH]; [left; intros t []|].
  destruct (is_empty x) eqn:Ex.
  - apply is_empty_true in Ex. subst x. destruct IH as [Ha|[(p & t & E & Hne & Hp)|Hc]].
    + left. intros t [<-|Ht]; [reflexivity|apply Ha, Ht].
    + right. left. exists (S p), t. split; [|split; [exact Hne|simpl; lia]].
      cbn [length repeat app]. replace (S (length ts) - 1 - S p)%nat with (length ts - 1 - p)%nat by lia.
      f_equal. exact E.
    + right. right. rewrite count_cons. simpl. exact Hc.
  - pose proof (is_empty_false _ Ex) as Hne. destruct IH as [Ha|[(p & t & E & Hnt & Hp)|Hc]].
    + right. left. exists O, x. split; [|split; [exact Hne|simpl; lia]].
      cbn [repeat app length]. replace (S (length ts) - 1 - 0)%nat with (length ts) by lia.
      f_equal. apply all_empty_repeat, Ha.
    + right. right. rewrite count_cons, Ex. rewrite E. pose proof (count_single p t (length ts - 1 - p) Hnt). lia.
    + right. right. rewrite count_cons, Ex. lia.
Qed.

Lemma nth_single_lk (p : nat) t m i (r : list N) :
  match nth_error (repeat NEmpty p ++ t :: repeat NEmpty m) i with Some t' => lk t' r | None => None end =
  if Nat.eqb p i then lk t r else None.
Proof.
  destruct (Nat.eqb_spec p i) as [<-|Hne].
  - rewrite nth_error_app2 by (rewrite repeat_length; lia). rewrite repeat_length, Nat.sub_diag. reflexivity.
  - destruct (nth_error (repeat NEmpty p ++ t :: repeat NEmpty m) i) as [t'|] eqn:E; [|reflexivity].
    assert (t' = NEmpty).
    { destruct (Nat.lt_ge_cases i p) as [Hlt|Hge].
      - rewrite nth_error_app1 in E by (rewrite repeat_length; exact Hlt).
        apply nth_error_In, repeat_spec in E. exact E.
      - rewrite nth_error_app2 in E by (rewrite repeat_length; exact Hge). rewrite repeat_length in E.
        destruct (i - p)%nat as [|j] eqn:Ej; [lia|]. simpl in E. apply nth_error_In, repeat_spec in E. exact E. }
    subst t'. reflexivity.
Qed.

Lemma nth_partitions n : (n < 16)%nat -> nth_error partitions n = Some (N.of_nat n).
Proof. intros Hn. do 16 (destruct n as [|n]; [reflexivity|]). lia. Qed.

Lemma F2_impl {A B} (P Q : A -> B -> Prop) la lb : (forall a b, P a b -> Q a b) -> Forall2 P la lb -> Forall2 Q la lb.
Proof. intros Hpq. induction 1; constructor; auto. Qed.

Section Root3.
  Variable H : list N -> list N.
  Hypothesis H_len : forall x, length (H x) = 32%nat.

  Lemma group_eq (f : list N * list N -> list N) q : forall m, wf_accts m ->
    tlkeys (group_by_nibble q (hexops (map (fun kv => (fst kv, f kv)) m))) =
    hops (map (fun kv => (tl (nibbles_of (fst kv)), f kv)) (filter (in_part q) m)).
  Proof.
    induction m as [|[h s] m IH]; intros Hw; [reflexivity|].
    inversion Hw as [|? ? [L32 Hb] Hw']; subst. cbn [fst] in *.
    destruct h as [|x a]; [discriminate|].
    cbn [map hexops fst snd filter]. unfold in_part at 1. cbn [fst]. rewrite nib0_cons.
    unfold group_by_nibble. cbn [filter fst keybytes_to_hex nibbles_of app].
    fold (group_by_nibble q (hexops (map (fun kv => (fst kv, f kv)) m))).
    destruct (N.eqb (x / 16) q).
    - cbn [tlkeys map fst snd tl hops app]. f_equal. apply IH. exact Hw'.
    - apply IH. exact Hw'.
  Qed.

  Lemma blob_of_good t : tgood H t -> t <> NEmpty -> exists e, blob_of H t = Some e /\ node_enc H t = Some e /\ (32 <= length e)%nat /\ can t /\ pwf t.
  Proof.
    intros [->|(Hc & Hw & e & Ee & Le)] Hne; [congruence|]. exists e.
    split; [destruct t; try congruence; exact Ee|]. auto.
  Qed.

  Lemma count_blobs ts : Forall (tgood H) ts ->
    length (filter (fun b : option (list N) => match b with Some _ => true | None => false end) (map (blob_of H) ts)) = count ts.
  Proof.
    induction 1 as [|t ts Ht _ IH]; [reflexivity|]. cbn [map filter]. rewrite count_cons.
    destruct (is_empty t) eqn:Ex.
    - apply is_empty_true in Ex. subst t. cbn. exact IH.
    - destruct (blob_of_good t Ht (is_empty_false _ Ex)) as (e & -> & _). cbn [length]. rewrite IH. reflexivity.
  Qed.

  Lemma map_repeat {A B} (f : A -> B) x n : map f (repeat x n) = repeat (f x) n.
  Proof. induction n; [reflexivity|]. cbn. f_equal. exact IHn. Qed.

  (* GenerateTrie succeeds only with the root of the corrected flat state *)
  Theorem gen_root sc expected db st : wf_db db -> small_state H db ->
    fst (generate H sc expected db) = GOk st -> expected = state_root H db.
  Proof.
    intros Hwf Hsm Hok.
    destruct (gen_ok_root H sc expected db st Hok) as (rs & ws & Er & Ea & _).
    pose proof (run_partitions_F2 H sc db partitions rs Er) as HF2.
    assert (HF2' : Forall2 (fun p r => exists t, pspec H db p r t) partitions rs).
    { eapply F2_impl; [|exact HF2]. intros p r E. apply (partition_spec H H_len sc p db r Hwf E). }
    destruct (F2_ex_F3 _ _ _ HF2') as [ts HF3].
    pose proof (F3_len _ _ _ _ HF3) as Lts. change (length partitions) with 16%nat in Lts.
    assert (Hblobs : map r_root rs = map (blob_of H) ts).
    { eapply F3_map; [exact HF3|]. intros p r t (_ & _ & _ & Hb & _). exact Hb. }
    assert (Hgood : Forall (tgood H) ts).
    { rewrite Forall_forall. intros t Ht. destruct (F3_In3 _ _ _ _ HF3 t Ht) as (p & r & _ & _ & Hp).
      eapply pspec_good; eassumption. }
    rewrite Hblobs in Ea.
    (* the reference trie *)
    assert (Hbo : bytes_ops (leaves H db)).
    { unfold bytes_ops, leaves. rewrite Forall_forall. intros kv Hin. apply in_map_iff in Hin as (x & <- & Hx).
      pose proof (wf_ka db Hwf) as Hk. unfold wf_accts in Hk. rewrite Forall_forall in Hk. apply (Hk x Hx). }
    destruct (ref_root_spec H H_len (leaves H db) Hbo) as (S & ev & h & _ & HcS & LS & EhS & ErS & _).
    unfold state_root. rewrite ErS.
    (* lookups of the reference trie under nibble q *)
    assert (LSq : forall q r, lk S (q :: r) = apply_ops (fun _ => None) (hops (pleaves H db q)) r).
    { intros q r. rewrite LS.
      rewrite (apply_ops_group q (hexops (leaves H db)) ltac:(unfold hexops, keybytes_to_hex; rewrite Forall_forall;
                 intros kv Hin; apply in_map_iff in Hin as (x & <- & _); cbn [fst]; destruct (nibbles_of (fst x)); discriminate)
                 (fun _ => None) (fun _ => None) r eq_refl).
      unfold leaves, pleaves, part. rewrite (group_eq (leaf H (g_stor db)) q (g_accts db) (wf_ka db Hwf)). reflexivity. }
    (* any canonical trie that holds slot q's content under nibble q is the reference trie *)
    assert (Hid : forall A, canon A ->
              (forall q r, lk A (q :: r) = match nth_error ts (N.to_nat q) with Some t => lk t r | None => None end) -> A = S).
    { intros A HcA LA. apply canon_unique; [exact HcA|exact HcS|].
      intros k Hk. destruct k as [|q r]; [destruct Hk|]. rewrite LA, LSq.
      destruct (N.lt_ge_cases q 16) as [Hq|Hq].
      - assert (Hnp : nth_error partitions (N.to_nat q) = Some q).
        { assert (Hq' : (N.to_nat q < 16)%nat) by lia. rewrite <- (N2Nat.id q) at 2.
          apply nth_partitions. exact Hq'. }
        destruct (F3_nth _ _ _ _ HF3 _ _ Hnp) as (r0 & t & _ & Et & (_ & Lt & _)). rewrite Et. apply Lt.
      - rewrite (proj2 (nth_error_None ts (N.to_nat q))) by lia.
        assert (Hpe : part q db = []).
        { unfold part. apply filter_nil_of. intros kv Hin. unfold in_part. apply N.eqb_neq.
          pose proof (wf_ka db Hwf) as Hk2. unfold wf_accts in Hk2. rewrite Forall_forall in Hk2.
          destruct (Hk2 kv Hin) as [L32 Hb]. destruct (fst kv) as [|x a]; [discriminate|]. rewrite nib0_cons.
          simpl in Hb. apply andb_true_iff in Hb as [Hx _]. unfold Hex.byteb in Hx.
          assert (x / 16 < 16) by (apply N.div_lt_upper_bound; lia). lia. }
        unfold pleaves. rewrite Hpe. reflexivity. }
    destruct (ts_shape ts) as [Hall|[(p & t & Ets & Hne & Hp)|Hcnt]].
    - (* empty state *)
      rewrite (all_empty_repeat ts Hall), Lts, map_repeat in Ea. cbn [blob_of] in Ea.
      destruct (assemble_empty H sc) as [Ae _]. rewrite Ae in Ea. inversion Ea; subst.
      assert (E0 : NEmpty = S).
      { apply Hid; [left; reflexivity|]. intros q r. rewrite lk_empty.
        destruct (nth_error ts (N.to_nat q)) as [t|] eqn:Et; [|reflexivity].
        rewrite (Hall t (nth_error_In _ _ Et)). reflexivity. }
      rewrite <- E0 in EhS. cbn in EhS. inversion EhS. reflexivity.
    - (* one populated partition: the fold *)
      rewrite Lts in Ets, Hp.
      assert (Ht : In t ts) by (rewrite Ets; apply in_or_app; right; left; reflexivity).
      rewrite Forall_forall in Hgood.
      destruct (blob_of_good t (Hgood t Ht) Hne) as (e & Eb & Ee & Le & Hc & Hw).
      assert (Hsb : map (blob_of H) ts = single_blobs p e).
      { rewrite Ets, map_app. cbn [map]. rewrite !map_repeat, Eb. cbn [blob_of]. unfold single_blobs.
        replace (16 - 1 - p)%nat with (15 - p)%nat by lia. reflexivity. }
      rewrite Hsb in Ea.
      destruct (assemble_single H H_len sc p t e Hp Hc Hw Ee Le) as (e' & _ & Ehm & Am).
      rewrite Am in Ea. inversion Ea; subst expected.
      assert (E1 : mount (N.of_nat p) t = S).
      { apply Hid; [right; apply mount_can; [lia|exact Hc]|]. intros q r.
        rewrite (mount_lk (N.of_nat p) t q r Hc), Ets, nth_single_lk.
        destruct (N.eqb_spec (N.of_nat p) q) as [<-|Nq].
        - rewrite Nat2N.id, Nat.eqb_refl. reflexivity.
        - replace (Nat.eqb p (N.to_nat q)) with false; [reflexivity|]. symmetry. apply Nat.eqb_neq. lia. }
      rewrite E1 in Ehm. rewrite EhS in Ehm. inversion Ehm. reflexivity.
    - (* two or more: the branch *)
      assert (Hslots : Forall (slot_ok H) ts).
      { eapply Forall_impl; [|exact Hgood]. intros t [->|(Hc & _ & e & Ee & Le)]; [left; reflexivity|right].
        split; [destruct (can_cases _ Hc) as [(? & ? & -> & _)|[(? & ? & -> & _)|(? & ->)]]; exact I|]. exists e. auto. }
      destruct (assemble_many H H_len sc ts Lts Hslots ltac:(rewrite (count_blobs ts Hgood); exact Hcnt))
        as (e & _ & Ehb & Ab).
      rewrite Ab in Ea. inversion Ea; subst expected.
      assert (E2 : NFull (ts ++ [NEmpty]) = S).
      { apply Hid.
        - right. apply many_can; [exact Lts| |exact Hcnt].
          eapply Forall_impl; [|exact Hgood]. intros t [->|(Hc & _)]; [left; reflexivity|right; exact Hc].
        - intros q r. apply many_lk. exact Lts. }
      rewrite E2 in Ehb. rewrite EhS in Ehb. inversion Ehb. reflexivity.
  Qed.
End Root3.
