(* Trie/SyncInv.v — the target of a sync and the invariant [sound] (HASH scheme):
   everything requested, cached, buffered or flushed is a node / code of the target
   that was not already present.  Over all histories. *)
From Coq Require Import ZArith Lia.
From GV Require Import Lib.Tactics Lib.Bytes Trie.Node Trie.Hash Storage.KV Storage.KVProofs Trie.Sync Trie.SyncProofs.
Local Open Scope N_scope.

Lemma has_true k m : has k m = true <-> exists v, get k m = Some v.
Proof. unfold has. destruct (get k m); split; intros X; eauto; try discriminate. destruct X; discriminate. Qed.
Lemma has_false k m : has k m = false <-> get k m = None.
Proof. unfold has. destruct (get k m); split; intros X; auto; discriminate. Qed.

Lemma In_qpush p it q x : In x (qpush p it q) -> x = (p, it) \/ In x q.
Proof.
  induction q as [|[p' it'] r IH]; simpl; [intros [E|[]]; auto|].
  destruct (Z.ltb p' p); simpl; [intros [E|E]; auto|]. intros [E|E]; [auto|]. destruct (IH E); auto.
Qed.

Section Target.
  Variable H : list N -> list N.
  (* the serving side: node blobs by hash, codes by hash *)
  Variable T CD : list N -> option (list N).
  Variable root : list N.
  Variable cb0 : cbkind.
  Variable db0 : kv.                (* the destination database at NewSync *)

  (* nodes_of target: (path, hash, callback kind) reachable from the root, through
     the account leaves into the storage tries *)
  Inductive RN : list N -> list N -> cbkind -> Prop :=
  | RN_root : root <> empty_root H -> RN [] root cb0
  | RN_child p h cb b n cl cp ch :
      RN p h cb -> T h = Some b -> decode_node b = DOk n -> child_list p n = Some cl ->
      In (cp, NHash ch) cl -> RN cp ch cb
  | RN_stor p h b n cl cp v sroot chash :
      RN p h CbAccount -> T h = Some b -> decode_node b = DOk n -> child_list p n = Some cl ->
      In (cp, NValue v) cl -> dec_account v = Some (sroot, chash) ->
      sroot <> empty_root H -> RN cp sroot CbNone.
  (* codes of the target *)
  Inductive RC : list N -> Prop :=
  | RC_intro p h b n cl cp v sroot chash :
      RN p h CbAccount -> T h = Some b -> decode_node b = DOk n -> child_list p n = Some cl ->
      In (cp, NValue v) cl -> dec_account v = Some (sroot, chash) ->
      bytes_to_hash chash <> empty_code H -> RC (bytes_to_hash chash).

  Definition RNh (h : list N) : Prop := exists p cb, RN p h cb.

  Record sound (s : sync) : Prop := {
    so_sc : sc_path s = false;
    so_req : forall p r, aget p (nreqs s) = Some r ->
      RN p (nr_hash r) (nr_cb r) /\ has (nr_hash r) db0 = false /\
      (forall b, nr_data r = Some b -> T (nr_hash r) = Some b);
    so_creq : forall h c, aget h (creqs s) = Some c -> RC h /\ has (code_key h) db0 = false;
    so_queue : forall p h, In (p, QCode h) (queue s) -> RC h /\ has (code_key h) db0 = false;
    so_mb : forall o p b h, In (OpWrite o p b h) (mb_nodes s) -> b = [] \/ (RNh h /\ T h = Some b);
    so_nodel : forall o p, ~ In (OpDel o p) (mb_nodes s);
    so_codes : Forall (fun hc => RC (fst hc) /\ CD (fst hc) = Some (snd hc)) (mb_codes s);
    so_db : forall k v, get k (sc_db s) = Some v ->
      get k db0 = Some v \/ (RNh k /\ T k = Some v) \/
      (exists h, k = code_key h /\ RC h /\ CD h = Some v);
    so_db0 : forall k v, get k db0 = Some v -> get k (sc_db s) = Some v }.

  Lemma mb_del_hash s o p : sc_path s = false -> mb_del_node s o p = s.
  Proof. intros E. unfold mb_del_node. rewrite E. reflexivity. Qed.

  Lemma has_node_hash s o p h : sc_path s = false -> has_node H s o p h = (has h (sc_db s), false).
  Proof. intros E. unfold has_node. rewrite E. reflexivity. Qed.

  Lemma not_in_db0 s k : sound s -> has k (sc_db s) = false -> has k db0 = false.
  Proof.
    intros Hs Hf. destruct (has k db0) eqn:E; [|reflexivity].
    apply has_true in E. destruct E as [v E]. apply (so_db0 s Hs) in E.
    apply has_false in Hf. congruence.
  Qed.

  (* replacing a request by one with the same hash and callback *)
  Lemma sound_set_req s p r r' :
    sound s -> aget p (nreqs s) = Some r ->
    nr_hash r' = nr_hash r -> nr_cb r' = nr_cb r ->
    (forall b, nr_data r' = Some b -> T (nr_hash r) = Some b) ->
    sound (set_nreqs s (aput p r' (nreqs s))).
  Proof.
    intros [S0 A B Q C D E F G] Hr Hh Hc Hd. constructor; ssimpl; auto.
    intros q x. rewrite aget_aput. destruct (beq q p) eqn:Eq; [|apply A].
    apply beq_eq in Eq. subst q. intros X; inversion X; subst x.
    destruct (A _ _ Hr) as (A1 & A2 & A3). rewrite Hh, Hc. auto.
  Qed.

  Lemma sound_bump s s' path d : sound s -> bump_deps s path d = Some s' -> sound s'.
  Proof.
    intros Hs E. unfold bump_deps in E. destruct (aget path (nreqs s)) as [a|] eqn:Ea; [|discriminate].
    inversion E; subst. eapply sound_set_req; eauto. simpl. apply (so_req s Hs _ _ Ea).
  Qed.

  Lemma sound_sched_node s path r :
    sound s -> RN path (nr_hash r) (nr_cb r) -> has (nr_hash r) db0 = false -> nr_data r = None ->
    sound (schedule_node s path r).
  Proof.
    intros [S0 A B Q C D E F G] H1 H2 H3. unfold schedule_node. constructor; ssimpl; auto.
    - intros q x. rewrite aget_aput. destruct (beq q path) eqn:Eq; [|apply A].
      apply beq_eq in Eq. subst q. intros X; inversion X; subst x. rewrite H3. repeat split; auto. discriminate.
    - intros p h Hin. apply In_qpush in Hin. destruct Hin as [X|X]; [discriminate|eapply Q; eauto].
  Qed.

  Lemma sound_sched_code s h r :
    sound s -> RC h -> has (code_key h) db0 = false -> sound (schedule_code s h r).
  Proof.
    intros [S0 A B Q C D E F G] H1 H2. unfold schedule_code.
    destruct (aget h (creqs s)) as [old|] eqn:Eo; constructor; ssimpl; auto.
    - intros h' c. rewrite aget_aput. destruct (beq h' h) eqn:Eq; [|apply B].
      apply beq_eq in Eq. subst h'. intros _. auto.
    - intros h' c. rewrite aget_aput. destruct (beq h' h) eqn:Eq; [|apply B].
      apply beq_eq in Eq. subst h'. intros _. auto.
    - intros p h' Hin. apply In_qpush in Hin. destruct Hin as [X|X]; [|eapply Q; eauto].
      inversion X; subst. auto.
  Qed.

  Definition unsum (x : sync + sync) : sync := match x with inl a => a | inr a => a end.

  Lemma sound_add_sub_trie s rt path parent pp cb :
    sound s -> (rt <> empty_root H -> RN path rt cb) ->
    sound (unsum (add_sub_trie H s rt path parent pp cb)).
  Proof.
    intros Hs Hrn. unfold add_sub_trie.
    destruct (beq rt (empty_root H)) eqn:Er; [exact Hs|].
    assert (Hne : rt <> empty_root H) by (intros X; subst; rewrite beq_refl in Er; discriminate).
    destruct (resolve_path path) as [[owner inner]|]; [|exact Hs].
    rewrite (has_node_hash _ _ _ _ (so_sc s Hs)).
    destruct (has rt (sc_db s)) eqn:Eh; [exact Hs|].
    pose proof (not_in_db0 _ _ Hs Eh) as H0.
    destruct (aget path (nreqs s)); [exact Hs|].
    destruct (negb (beq parent zero32)).
    - destruct (bump_deps s pp 1) as [s2|] eqn:Eb; [|exact Hs]. simpl.
      apply sound_sched_node; simpl; auto. eapply sound_bump; eauto.
    - simpl. apply sound_sched_node; simpl; auto.
  Qed.

  Lemma sound_add_code_entry s h path parent pp :
    sound s -> (h <> empty_code H -> RC h) ->
    sound (unsum (add_code_entry H s h path parent pp)).
  Proof.
    intros Hs Hrc. unfold add_code_entry.
    destruct (beq h (empty_code H)) eqn:Er; [exact Hs|].
    assert (Hne : h <> empty_code H) by (intros X; subst; rewrite beq_refl in Er; discriminate).
    destruct (has h (mb_codes s)); [exact Hs|].
    destruct (has (code_key h) (sc_db s)) eqn:Eh; [exact Hs|].
    pose proof (not_in_db0 _ _ Hs Eh) as H0.
    destruct (negb (beq parent zero32)).
    - destruct (bump_deps s pp 1) as [s1|] eqn:Eb; [|exact Hs]. simpl.
      apply sound_sched_code; auto. eapply sound_bump; eauto.
    - simpl. apply sound_sched_code; auto.
  Qed.

  Lemma sound_on_account s cpath leaf parent pp :
    sound s ->
    (forall sroot ch, dec_account leaf = Some (sroot, ch) ->
       (sroot <> empty_root H -> RN cpath sroot CbNone) /\
       (bytes_to_hash ch <> empty_code H -> RC (bytes_to_hash ch))) ->
    sound (fst (on_account H s cpath leaf parent pp)).
  Proof.
    intros Hs Hl. unfold on_account. destruct (dec_account leaf) as [[sroot ch]|]; [|exact Hs].
    destruct (Hl _ _ eq_refl) as [H1 H2].
    pose proof (sound_add_sub_trie s sroot cpath parent pp CbNone Hs H1) as Ha.
    destruct (add_sub_trie H s sroot cpath parent pp CbNone) as [s1|s1]; [exact Ha|]. simpl in Ha.
    pose proof (sound_add_code_entry s1 (bytes_to_hash ch) cpath parent pp Ha H2) as Hb.
    destruct (add_code_entry H s1 (bytes_to_hash ch) cpath parent pp) as [s2|s2]; exact Hb.
  Qed.

  Definition acc_ok (acc : list (list N * nreq)) : Prop :=
    Forall (fun pr => RN (fst pr) (nr_hash (snd pr)) (nr_cb (snd pr)) /\
                      has (nr_hash (snd pr)) db0 = false /\ nr_data (snd pr) = None) acc.

  Lemma sound_children_loop b n cl0 : forall cl s path hash cb acc,
    sound s -> RN path hash cb -> T hash = Some b -> decode_node b = DOk n ->
    child_list path n = Some cl0 -> incl cl cl0 -> acc_ok acc ->
    let '(s', acc', _) := children_loop H s path hash cb cl acc in
    sound s' /\ acc_ok acc'.
  Proof.
    induction cl as [|[cpath cn] rest IH]; intros s path hash cb acc Hs Hrn Ht Hd Hcl Hin Ha;
      cbn [children_loop]; [split; assumption|].
    assert (Hin' : incl rest cl0) by (intros x Hx; apply Hin; right; exact Hx).
    assert (Hhd : In (cpath, cn) cl0) by (apply Hin; left; reflexivity).
    set (cbres := match cb with
                  | CbNone => (s, ROk)
                  | CbAccount => match cn with
                                 | NValue v => if callback_paths_ok cpath then on_account H s cpath v hash path else (s, RPanic)
                                 | _ => (s, ROk)
                                 end
                  end).
    assert (Hcb : sound (fst cbres)).
    { unfold cbres. destruct cb; [exact Hs|]. destruct cn; try exact Hs.
      destruct (callback_paths_ok cpath); [|exact Hs].
      apply sound_on_account; [exact Hs|]. intros sroot ch Hda. split; intros Hne.
      - eapply RN_stor; eauto.
      - eapply RC_intro; eauto. }
    destruct cbres as [s1 rc]. simpl in Hcb.
    destruct rc; try (split; assumption).
    destruct cn; try (apply IH; assumption).
    destruct (resolve_path cpath) as [[owner inner]|]; [|split; assumption].
    rewrite (has_node_hash _ _ _ _ (so_sc s1 Hcb)).
    destruct (has h (sc_db s1)) eqn:Eh; [apply IH; assumption|].
    apply IH; try assumption.
    constructor; [|exact Ha]. simpl. split; [eapply RN_child; eauto|].
    split; [eapply not_in_db0; eauto|reflexivity].
  Qed.

  Lemma sound_children s path hash cb b n :
    sound s -> RN path hash cb -> T hash = Some b -> decode_node b = DOk n ->
    let '(s', acc', _) := children H s path hash cb n in
    sound s' /\ acc_ok acc'.
  Proof.
    intros Hs Hrn Ht Hd. unfold children.
    destruct (child_list path n) as [cl|] eqn:Ecl; [|split; [exact Hs|constructor]].
    rewrite (so_sc s Hs).
    assert (E : match n with NShort _ (NHash _) => Some s | _ => Some s end = Some s)
      by (destruct n; try reflexivity; destruct n; reflexivity).
    rewrite E.
    eapply sound_children_loop; eauto; [apply incl_refl|constructor].
  Qed.

  Lemma sound_commit_node_request : forall fuel s path,
    sound s -> sound (fst (commit_node_request fuel s path)).
  Proof.
    induction fuel as [|f IH]; intros s path Hs; [exact Hs|]. cbn [commit_node_request].
    destruct (aget path (nreqs s)) as [r|] eqn:Er; [|exact Hs].
    destruct (resolve_path path) as [[owner inner]|]; [|exact Hs].
    set (blob := match nr_data r with Some b => b | None => [] end).
    set (s2 := set_fetches _ _).
    assert (Hs2 : sound s2).
    { pose proof Hs as [S0 A B Q C D E F G]. unfold s2, mb_add_node. constructor; ssimpl; auto.
      - intros p x. rewrite aget_adel. destruct (beq p path); [discriminate|]. apply A.
      - intros o p b h [X|X]; [|eapply C; eauto]. inversion X; subst.
        unfold blob. destruct (nr_data r) as [d|] eqn:Dd; [|left; reflexivity].
        right. destruct (A _ _ Er) as (A1 & A2 & A3). split; [eexists; eexists; exact A1|auto].
      - intros o p [X|X]; [discriminate|eapply D; eauto]. }
    destruct (nr_parent r) as [pp|]; [|exact Hs2].
    destruct (aget pp (nreqs s2)) as [p|] eqn:Ep; [|exact Hs2].
    set (s3 := set_nreqs s2 _).
    assert (Hs3 : sound s3).
    { unfold s3. eapply sound_set_req; eauto. simpl. apply (so_req s2 Hs2 _ _ Ep). }
    destruct (Z.eqb (nr_deps p - 1) 0); [apply IH|]; exact Hs3.
  Qed.

  Lemma sound_commit_code_parents : forall parents s,
    sound s -> sound (fst (commit_code_parents s parents)).
  Proof.
    induction parents as [|pp rest IH]; intros s Hs; cbn [commit_code_parents]; [exact Hs|].
    destruct (aget pp (nreqs s)) as [p|] eqn:Ep; [|exact Hs].
    set (s1 := set_nreqs s _).
    assert (Hs1 : sound s1).
    { unfold s1. eapply sound_set_req; eauto. simpl. apply (so_req s Hs _ _ Ep). }
    destruct (Z.eqb (nr_deps p - 1) 0); [|apply IH; exact Hs1].
    pose proof (sound_commit_node_request (cnr_fuel s1) s1 pp Hs1) as Hc.
    destruct (commit_node_request (cnr_fuel s1) s1 pp) as [s2 rc]. simpl in Hc.
    destruct rc; try exact Hc. apply IH; exact Hc.
  Qed.

  Lemma sound_process_code s h data :
    (forall c, aget h (creqs s) = Some c -> CD h = Some data) ->
    sound s -> sound (fst (process_code s h data)).
  Proof.
    intros Hd Hs. unfold process_code.
    destruct (aget h (creqs s)) as [r|] eqn:Er; [|exact Hs].
    destruct (cr_data r); [exact Hs|].
    apply sound_commit_code_parents.
    pose proof Hs as [S0 A B Q C D E F G]. unfold mb_add_code. constructor; ssimpl; auto.
    - intros h' c. rewrite aget_adel. destruct (beq h' h); [discriminate|]. apply B.
    - apply Forall_put; [simpl; split; [apply (B _ _ Er)|eauto]|exact E].
  Qed.

  Lemma sound_schedule_all : forall reqs s s',
    acc_ok reqs -> sound s -> schedule_all s reqs = Some s' -> sound s'.
  Proof.
    induction reqs as [|[p r] rest IH]; intros s s' Hf Hs E; cbn [schedule_all] in E.
    - inversion E; subst. exact Hs.
    - inversion Hf as [|? ? (H1 & H2 & H3) Hf']; subst. destruct (aget p (nreqs s)); [discriminate|].
      eapply IH; [exact Hf'| |exact E]. apply sound_sched_node; assumption.
  Qed.

  Lemma sound_process_node s path data :
    (forall r, aget path (nreqs s) = Some r -> T (nr_hash r) = Some data) ->
    sound s -> sound (fst (process_node H s path data)).
  Proof.
    intros Hd Hs. unfold process_node.
    destruct (aget path (nreqs s)) as [r|] eqn:Er; [|exact Hs].
    destruct (nr_data r) eqn:Edata; [exact Hs|].
    destruct (decode_node data) as [n|] eqn:Edec; [|exact Hs].
    set (s1 := set_nreqs s _).
    assert (Hs1 : sound s1).
    { unfold s1. eapply sound_set_req; eauto. simpl. intros b X; inversion X; subst. auto. }
    destruct (so_req s Hs _ _ Er) as (R1 & R2 & R3).
    pose proof (sound_children s1 path (nr_hash r) (nr_cb r) data n Hs1 R1 (Hd _ eq_refl) Edec) as Hc.
    destruct (children H s1 path (nr_hash r) (nr_cb r) n) as [[s2 reqs] rc].
    destruct Hc as [Hs2 Hreqs].
    destruct rc; try exact Hs2.
    destruct (aget path (nreqs s2)) as [r2|] eqn:Er2; [|exact Hs2].
    destruct (Nat.eqb (length reqs) 0 && Z.eqb (nr_deps r2) 0).
    - apply sound_commit_node_request. exact Hs2.
    - match goal with |- context [schedule_all ?a ?b] => destruct (schedule_all a b) as [s3|] eqn:Esa end; [|exact Hs2].
      cbn [fst]. eapply sound_schedule_all; [unfold acc_ok; apply Forall_rev; exact Hreqs| |exact Esa].
      eapply sound_set_req; eauto. simpl. apply (so_req s2 Hs2 _ _ Er2).
  Qed.

  Definition same6 (s s' : sync) : Prop :=
    sc_path s' = sc_path s /\ sc_db s' = sc_db s /\ nreqs s' = nreqs s /\ creqs s' = creqs s /\
    mb_nodes s' = mb_nodes s /\ mb_codes s' = mb_codes s.

  Lemma sound_same s s' :
    same6 s s' -> (forall x, In x (queue s') -> In x (queue s)) -> sound s -> sound s'.
  Proof.
    intros (E1 & E2 & E3 & E4 & E5 & E6) Hq [S0 A B Q C D E F G].
    constructor; rewrite ?E1, ?E2, ?E3, ?E4, ?E5, ?E6; auto.
    intros p h Hin. eapply Q. apply Hq. exact Hin.
  Qed.

  (* Missing: the state stays sound and everything it returns is a target node / code
     that was not present *)
  Definition ns_ok (ns : list (list N * list N)) : Prop :=
    Forall (fun ph => (exists cb, RN (fst ph) (snd ph) cb) /\ has (snd ph) db0 = false) ns.
  Definition cs_ok (cs : list (list N)) : Prop :=
    Forall (fun h => RC h /\ has (code_key h) db0 = false) cs.

  Lemma sound_missing_go mfd : forall q max count s ns cs,
    sound s -> (forall x, In x q -> In x (queue s)) -> ns_ok ns -> cs_ok cs ->
    let '(s', ns', cs') := missing_go mfd q max count s ns cs in
    sound s' /\ ns_ok ns' /\ cs_ok cs'.
  Proof.
    induction q as [|[p it] rest IH]; intros max count s ns cs Hs Hq Hn Hc; cbn [missing_go].
    - split; [|split; [apply Forall_rev; exact Hn|apply Forall_rev; exact Hc]].
      apply (sound_same s); [repeat split|ssimpl; intros x []|exact Hs].
    - destruct (negb (max =? 0) && negb (count <? max)).
      { split; [|split; [apply Forall_rev; exact Hn|apply Forall_rev; exact Hc]].
        apply (sound_same s); [repeat split|ssimpl; exact Hq|exact Hs]. }
      destruct (Z.ltb mfd (fget (prio_depth p) (fetches s))).
      { split; [|split; [apply Forall_rev; exact Hn|apply Forall_rev; exact Hc]].
        apply (sound_same s); [repeat split|ssimpl; exact Hq|exact Hs]. }
      set (s1 := set_fetches s _).
      assert (Hs1 : sound s1).
      { apply (sound_same s); [repeat split|unfold s1; ssimpl; intros x Hx; exact Hx|exact Hs]. }
      assert (Hq1 : forall x, In x rest -> In x (queue s1)) by (intros x Hx; apply Hq; right; exact Hx).
      destruct it as [path|h].
      + destruct (aget path (nreqs s1)) as [r|] eqn:Er; [|apply IH; assumption].
        apply IH; try assumption. constructor; [|exact Hn]. simpl.
        destruct (so_req s1 Hs1 _ _ Er) as (R1 & R2 & _). split; [eexists; exact R1|exact R2].
      + apply IH; try assumption. constructor; [|exact Hc].
        apply (so_queue s Hs p h). apply Hq. left. reflexivity.
  Qed.

  Lemma sound_missing s k :
    sound s ->
    let '(s', ns', cs') := missing s k in sound s' /\ ns_ok ns' /\ cs_ok cs'.
  Proof.
    intros Hs. unfold missing, missing_b. apply sound_missing_go; auto; constructor.
  Qed.

  (* the destination agrees with the target where they overlap (from: keyed by hash +
     no collision) *)
  Hypothesis agree0 : forall k v, get k db0 = Some v ->
    (forall b, RNh k -> T k = Some b -> v = b) /\
    (forall h c, k = code_key h -> RC h -> CD h = Some c -> v = c).

  Lemma sound_apply_ops : forall ops d d',
    (forall o p b h, In (OpWrite o p b h) ops -> b = [] \/ (RNh h /\ T h = Some b)) ->
    (forall o p, ~ In (OpDel o p) ops) ->
    apply_ops false d ops = Some d' ->
    (forall k v, get k d = Some v -> get k db0 = Some v \/ (RNh k /\ T k = Some v) \/
        (exists h, k = code_key h /\ RC h /\ CD h = Some v)) ->
    (forall k v, get k db0 = Some v -> get k d = Some v) ->
    (forall k v, get k d' = Some v -> get k db0 = Some v \/ (RNh k /\ T k = Some v) \/
        (exists h, k = code_key h /\ RC h /\ CD h = Some v)) /\
    (forall k v, get k db0 = Some v -> get k d' = Some v).
  Proof.
    induction ops as [|o ops IH]; simpl; intros d d' Hw Hnd E F G.
    - inversion E; subst. split; assumption.
    - destruct (apply_op false d o) as [d1|] eqn:E1; [|discriminate].
      destruct o as [ow pa|ow pa blob hash]; [exfalso; eapply Hnd; left; reflexivity|].
      simpl in E1. destruct blob as [|b0 bl]; [discriminate|]. inversion E1; subst d1.
      destruct (Hw ow pa (b0 :: bl) hash (or_introl eq_refl)) as [X|[W1 W2]]; [discriminate|].
      eapply IH; [| |exact E| |].
      + intros; eapply Hw; right; eauto.
      + intros o p Hin. eapply Hnd. right. exact Hin.
      + intros k v. rewrite get_put. destruct (beq k hash) eqn:Ek; [|apply F].
        apply beq_eq in Ek. subst k. intros X; inversion X; subst. right. left. auto.
      + intros k v Hk. rewrite get_put. destruct (beq k hash) eqn:Ek; [|apply G; exact Hk].
        apply beq_eq in Ek. subst k. f_equal. symmetry. eapply (proj1 (agree0 _ _ Hk)); eauto.
  Qed.

  Lemma sound_write_codes : forall codes d,
    (forall h c, In (h, c) codes -> RC h /\ CD h = Some c) ->
    (forall k v, get k d = Some v -> get k db0 = Some v \/ (RNh k /\ T k = Some v) \/
        (exists h, k = code_key h /\ RC h /\ CD h = Some v)) ->
    (forall k v, get k db0 = Some v -> get k d = Some v) ->
    (forall k v, get k (write_codes d codes) = Some v -> get k db0 = Some v \/ (RNh k /\ T k = Some v) \/
        (exists h, k = code_key h /\ RC h /\ CD h = Some v)) /\
    (forall k v, get k db0 = Some v -> get k (write_codes d codes) = Some v).
  Proof.
    unfold write_codes. induction codes as [|[h c] rest IH]; simpl; intros d Hc F G; [split; assumption|].
    destruct (Hc h c (or_introl eq_refl)) as [C1 C2].
    apply IH.
    - intros; apply Hc; right; assumption.
    - intros k v. rewrite get_put. destruct (beq k (code_key h)) eqn:Ek; [|apply F].
      apply beq_eq in Ek. subst k. intros X; inversion X; subst. right. right. eauto.
    - intros k v Hk. rewrite get_put. destruct (beq k (code_key h)) eqn:Ek; [|apply G; exact Hk].
      apply beq_eq in Ek. subst k. f_equal. symmetry. eapply (proj2 (agree0 _ _ Hk)); eauto.
  Qed.

  Lemma sound_commit s s' : sound s -> commit s = Some s' -> sound s'.
  Proof.
    intros [S0 A B Q C D E F G] Ec. unfold commit in Ec. rewrite S0 in Ec.
    destruct (apply_ops false (sc_db s) (rev (mb_nodes s))) as [d|] eqn:Ea; [|discriminate].
    inversion Ec; subst.
    destruct (sound_apply_ops _ _ _ (fun o p b h Hin => C o p b h (proj2 (in_rev _ _) Hin))
                (fun o p Hin => D o p (proj2 (in_rev _ _) Hin)) Ea F G) as [F1 G1].
    destruct (sound_write_codes (mb_codes s) d
                (fun h c Hin => proj1 (Forall_forall _ _) E (h, c) Hin) F1 G1) as [F2 G2].
    constructor; ssimpl; auto.
    all: try (intros o p b h []); try (intros o p []).
  Qed.

  (* ---- all histories (ops of Trie/SyncProofs.v) ---- *)
  Definition op_wf3 (s : sync) (o : op) : Prop :=
    match o with
    | ODeliverNode p h b => forall r, aget p (nreqs s) = Some r -> h = nr_hash r /\ (H b = h -> T h = Some b)
    | ODeliverCode h b => H b = h -> CD h = Some b
    | _ => True
    end.
  Fixpoint run_wf3 (s : sync) (ops : list op) : Prop :=
    match ops with [] => True | o :: r => op_wf3 s o /\ run_wf3 (step H s o) r end.

  Lemma sound_step s o : op_wf3 s o -> sound s -> sound (step H s o).
  Proof.
    intros W Hs. destruct o as [k|p h b|h b|]; simpl.
    - pose proof (sound_missing s k Hs) as X. destruct (missing s k) as [[s1 ns] cs]. apply X.
    - unfold deliver_node. destruct (beq (H b) h) eqn:E; [|exact Hs]. apply beq_eq in E.
      apply sound_process_node; [|exact Hs]. intros r Hr. destruct (W r Hr) as [-> Ht]. auto.
    - unfold deliver_code. destruct (beq (H b) h) eqn:E; [|exact Hs]. apply beq_eq in E.
      apply sound_process_code; [|exact Hs]. intros c _. apply W. exact E.
    - destruct (commit s) as [s'|] eqn:E; [eapply sound_commit; eauto|exact Hs].
  Qed.

  Lemma sound_run : forall ops s, run_wf3 s ops -> sound s -> sound (run H s ops).
  Proof.
    induction ops as [|o r IH]; intros s W Hs; simpl; [exact Hs|].
    destruct W as [W1 W2]. apply IH; [exact W2|]. apply sound_step; assumption.
  Qed.

  Lemma sound_new_sync :
    sound (unsum (new_sync H false db0 root cb0)).
  Proof.
    unfold new_sync. apply sound_add_sub_trie; [|intros Hne; apply RN_root; exact Hne].
    constructor; ssimpl; auto; try (intros; discriminate); try (intros ? ? []); try (intros ? ? ? ? []).
    all: intros ? [].
  Qed.
End Target.
