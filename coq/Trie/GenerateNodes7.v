(* Trie/GenerateNodes7.v — node sets under a path prefix; classes of a list; the
   trie-node writes of a whole partition against the whole flat state (C11). *)
From Coq Require Import Permutation.
From GV Require Import Lib.Tactics Lib.Bytes Rlp.Codec Trie.Hex Trie.HexProofs Trie.HexInPlace Trie.Node Trie.Ops Trie.Hash Trie.OpsProofs Trie.Canon Trie.Stack Trie.StackProofs Trie.Commit Trie.CommitProofs Trie.CommitTracer Trie.Generate Trie.GenerateProofs Trie.GenerateWalk Trie.GenerateWalk2 Trie.GenerateWalk3 Trie.GenerateKeys Trie.GenerateAssemble2 Trie.GenerateRoot Trie.GenerateNodes Trie.GenerateNodes2 Trie.GenerateNodes3 Trie.GenerateNodes4 Trie.GenerateNodes5 Trie.GenerateNodes6.
Local Open Scope N_scope.

(* a list is the union of its classes *)
Lemma perm_classes {A} (g : A -> N) (ps : list N) : NoDup ps -> forall l, (forall x, In x l -> In (g x) ps) ->
  Permutation l (concat (map (fun p => filter (fun x => N.eqb (g x) p) l) ps)).
Proof.
  intros Hnd. induction l as [|x l IH]; intros Hin.
  - assert (E : forall qs : list N, concat (map (fun p => filter (fun x : A => N.eqb (g x) p) []) qs) = [])
      by (induction qs as [|q qs IHq]; [reflexivity|exact IHq]).
    rewrite E. constructor.
  - specialize (IH (fun y Hy => Hin y (or_intror Hy))).
    assert (Hx : In (g x) ps) by (apply Hin; left; reflexivity).
    assert (G : forall qs, NoDup qs -> In (g x) qs ->
              Permutation (x :: concat (map (fun p => filter (fun y => N.eqb (g y) p) l) qs))
                          (concat (map (fun p => filter (fun y => N.eqb (g y) p) (x :: l)) qs))).
    { induction qs as [|q qs IHq]; intros Hq Hi; [destruct Hi|]. inversion Hq as [|? ? Hnq Hq']; subst. cbn [map concat].
      set (T := map (fun p => filter (fun y => N.eqb (g y) p) (x :: l)) qs). cbn [filter]. subst T.
      destruct (N.eqb_spec (g x) q) as [E|Ne].
      - cbn [app]. apply perm_skip. apply Permutation_app_head.
        assert (Em : map (fun p => filter (fun y => N.eqb (g y) p) (x :: l)) qs = map (fun p => filter (fun y => N.eqb (g y) p) l) qs).
        { apply map_ext_in. intros p Hp. cbn [filter]. destruct (N.eqb_spec (g x) p); [subst; congruence|reflexivity]. }
        rewrite Em. apply Permutation_refl.
      - destruct Hi as [E|Hi]; [congruence|].
        eapply Permutation_trans; [apply Permutation_middle|]. apply Permutation_app_head. apply IHq; assumption. }
    eapply Permutation_trans; [apply perm_skip; exact IH|]. apply G; assumption.
Qed.

Section Nodes7.
  Variable H : list N -> list N.
  Hypothesis H_len : forall x, length (H x) = 32%nat.

  Definition shift (q : list N) (pb : list N * list N) : list N * list N := (q ++ fst pb, snd pb).

  Lemma own_shift q path n : path <> [] -> own H (q ++ path) n = map (shift q) (own H path n).
  Proof.
    intros Hp. unfold own. destruct (node_enc H n) as [e|]; [|reflexivity].
    replace (is_nil (q ++ path)) with false by (destruct q; destruct path; try congruence; reflexivity).
    replace (is_nil path) with false by (destruct path; [congruence|reflexivity]).
    destruct (Nat.ltb (length e) 32 && negb false); reflexivity.
  Qed.

  Lemma nodes_shift q : forall n path, path <> [] -> nodes_of H (q ++ path) n = map (shift q) (nodes_of H path n).
  Proof.
    induction n as [| |k c IH|cs IH|] using node_ind'; intros path Hp; try reflexivity.
    - rewrite !nodes_of_short, map_app, <- own_shift by exact Hp. f_equal.
      rewrite <- app_assoc. apply IH. destruct path; [congruence|discriminate].
    - rewrite !nodes_of_full, map_app, <- own_shift by exact Hp. f_equal.
      assert (G : forall l i, Forall (fun n => forall path, path <> [] -> nodes_of H (q ++ path) n = map (shift q) (nodes_of H path n)) l ->
                go_nodes (nodes_of H) (q ++ path) i l = map (shift q) (go_nodes (nodes_of H) path i l)).
      { induction l as [|c l IHl]; intros i HF; [reflexivity|]. inversion HF as [|? ? Hc HF']; subst.
        rewrite !go_nodes_cons, map_app, IHl by exact HF'. f_equal. rewrite <- app_assoc. apply Hc.
        destruct path; discriminate. }
      apply G, IH.
  Qed.

  (* a hashed subtree root: the node set at [q] is the node set at the empty path, shifted *)
  Lemma nodes_shift_root q n e : can n -> node_enc H n = Some e -> (32 <= length e)%nat ->
    nodes_of H q n = map (shift q) (nodes_of H [] n).
  Proof.
    intros Hc Ee Le.
    assert (Hown : own H q n = map (shift q) (own H [] n)).
    { unfold own. rewrite Ee. replace (Nat.ltb (length e) 32) with false by (symmetry; apply Nat.ltb_ge; exact Le).
      cbn [andb map]. unfold shift. cbn [fst snd]. rewrite app_nil_r. reflexivity. }
    destruct (can_cases _ Hc) as [(k & v & -> & Hk)|[(k & cs & -> & Hk & Kne & Hcf)|(cs & ->)]].
    - rewrite !nodes_of_short, map_app, <- Hown. reflexivity.
    - rewrite !nodes_of_short, map_app, <- Hown. f_equal. cbn [app]. apply (nodes_shift q (NFull cs) k Kne).
    - rewrite !nodes_of_full, map_app, <- Hown. f_equal.
      assert (G : forall l i, go_nodes (nodes_of H) q i l = map (shift q) (go_nodes (nodes_of H) [] i l)).
      { induction l as [|c l IHl]; intros i; [reflexivity|].
        rewrite !go_nodes_cons, map_app, IHl. f_equal. cbn [app]. apply (nodes_shift q c [N.of_nat i]). discriminate. }
      apply G.
  Qed.

  Lemma shift_prefix p em : map (shift [p]) em = prefix_em p em.
  Proof. reflexivity. Qed.
End Nodes7.
