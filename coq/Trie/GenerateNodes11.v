(* Trie/GenerateNodes11.v — C11_gen_nodes_path (write level), end to end. *)
From Coq Require Import Permutation.
From GV Require Import Lib.Tactics Lib.Bytes Rlp.Codec Trie.Hex Trie.HexProofs Trie.Node Trie.Ops Trie.Hash Trie.OpsProofs Trie.Canon Trie.Stack Trie.StackProofs Trie.ProofProofs Trie.Commit Trie.CommitProofs Trie.CommitTracer Trie.Generate Trie.GenerateProofs Trie.GenerateWalk Trie.GenerateWalk2 Trie.GenerateWalk3 Trie.GenerateKeys Trie.GenerateSize Trie.GenerateAssemble Trie.GenerateAssemble2 Trie.GenerateSched Trie.GenerateRoot Trie.GenerateRoot2 Trie.GenerateRoot3 Trie.GenerateFlat Trie.GenerateFlat2 Trie.GenerateDisjoint Trie.GenerateDisjoint2 Trie.GenerateNodes Trie.GenerateNodes2 Trie.GenerateNodes5 Trie.GenerateNodes6 Trie.GenerateNodes7 Trie.GenerateNodes8 Trie.GenerateNodes9 Trie.GenerateNodes10.
Local Open Scope N_scope.

Section Nodes11.
  Variable H : list N -> list N.
  Hypothesis H_len : forall x, length (H x) = 32%nat.

  Lemma wclass_no_del sc p keys ws : Forall (wclass H sc p keys) ws -> ndels ws = [].
  Proof.
    induction 1 as [|w ws Hw _ IH]; [reflexivity|]. destruct w; cbn [ndels flat_map app] in *; try exact IH. destruct Hw.
  Qed.

  Theorem gen_node_writes sc expected db st : wf_db db -> small_state H db ->
    fst (generate H sc expected db) = GOk st ->
    exists pw dw orphan,
      snd (generate H sc expected db) = apply_ws db (pw ++ dw) /\
      ndels pw = [] /\ nws dw = [] /\ (length orphan <= 1)%nat /\
      Permutation (nws pw) (spec_nodes H sc db ++ orphan) /\
      ndels dw = map fst orphan /\
      (sc = PathScheme -> forall x, In x orphan ->
         (exists path, fst x = 65 :: path) /\
         ~ In (fst x) (map fst (nk H sc zero_hash (nodes_of H [] (state_trie H db))))) /\
      (exists rs ws, run_partitions H sc db partitions = GOk rs /\
         assemble_root H sc (map r_root rs) = GOk (expected, ws) /\
         pw ++ dw = concat (map r_ws rs) ++ ws).
  Proof.
    intros Hwf Hsm Hok.
    destruct (assembly_cases H H_len sc expected db st Hwf Hsm Hok) as (rs & ws & ts & Er & Ea & Esnd & HF3 & Lts & Hgood & Hcase).
    destruct (asm_nodes H H_len sc ts _ ws Lts Hgood Hcase) as (orphan & Lo & PA & Dw & Hfresh & pw0 & dw0 & Ews & Dp0 & Nd0).
    pose proof (run_partitions_F2 H sc db partitions rs Er) as HF2.
    exists (concat (map r_ws rs) ++ pw0), dw0, orphan.
    split. { rewrite Esnd, fold_rs, apply_ws_app, Ews, app_assoc. reflexivity. }
    split.
    { rewrite ndels_app, Dp0, app_nil_r, ndels_concat, map_map.
      assert (G : forall l, (forall r, In r l -> exists p, generate_partition H sc p db = GOk r) -> concat (map (fun r => ndels (r_ws r)) l) = []).
      { induction l as [|r l IH]; intros Hl; [reflexivity|]. cbn [map concat].
        destruct (Hl r (or_introl eq_refl)) as [p Ep]. rewrite (wclass_no_del sc p _ _ (partition_class H sc p db r Hwf Ep)).
        apply IH. intros r' Hr'. apply Hl. right. exact Hr'. }
      apply G. intros r Hr. destruct (F2_in_r _ _ _ _ HF2 Hr) as (p & _ & Ep). exists p. exact Ep. }
    split; [exact Nd0|]. split; [exact Lo|]. split.
    - assert (Enw : nws ws = nws pw0) by (rewrite Ews, nws_app, Nd0, app_nil_r; reflexivity).
      rewrite nws_app, <- Enw, nws_concat, map_map.
      pose proof (F3_and_F2 _ _ _ _ _ HF3 HF2) as HF3'.
      pose proof (F3_concat _ (fun r => nws (r_ws r)) (fun p => flat_map (snodes H sc (g_stor db)) (part p db))
                    (fun p t => anode H sc p t) _ _ _ HF3'
                    (fun p r t Hp => partition_nodes H H_len sc p db r t Hwf (proj2 Hp) (proj1 Hp))) as PC.
      cbv beta in PC. rewrite (AN_partitions H sc ts Lts) in PC.
      unfold spec_nodes.
      eapply Permutation_trans; [apply Permutation_app_tail; exact PC|].
      rewrite <- !app_assoc. apply Permutation_app.
      + (* storage tries: the partitions cover all accounts *)
        assert (PP : Permutation (g_accts db) (concat (map (fun p => part p db) partitions))).
        { unfold part, in_part. apply (perm_classes (fun kv : list N * list N => nib0 (fst kv)) partitions NoDup_partitions).
          intros kv Hin. apply in_partitions. apply nib0_lt16.
          pose proof (wf_ka db Hwf) as Hk. unfold wf_accts in Hk. rewrite Forall_forall in Hk. apply (Hk kv Hin). }
        apply Permutation_sym. eapply Permutation_trans; [apply Permutation_flat_map; exact PP|].
        rewrite flat_map_concat, map_map. apply Permutation_refl.
      + exact PA.
    - split; [rewrite Ews, ndels_app, Dp0 in Dw; exact Dw|]. split; [exact Hfresh|].
      exists rs, ws. split; [exact Er|]. split; [exact Ea|]. rewrite Ews, app_assoc. reflexivity.
  Qed.
End Nodes11.
