(* Trie/GenerateNodes.v — the nodes the stack-trie callback receives (C11,
   gen_nodes_path): [nodes_of path n] is the canonical node set of the subtree n
   placed at [path] (every node whose encoding has >= 32 bytes, plus the node at
   the empty path), [rem] the part of it still to be emitted by a builder that
   represents n, [done] the part already emitted (the hashed subtrees).
     hash_rem   : StackTrie.hash emits exactly [rem]
     nodes_split: nodes_of = done + rem (as multisets) *)
From Coq Require Import Permutation.
From GV Require Import Lib.Tactics Lib.Bytes Rlp.Codec Trie.Hex Trie.HexProofs Trie.HexInPlace Trie.Node Trie.Ops Trie.Hash Trie.OpsProofs Trie.Canon Trie.Stack Trie.StackProofs Trie.Commit Trie.Generate Trie.GenerateProofs Trie.GenerateWalk3.
Local Open Scope N_scope.

Section Nodes.
  Variable H : list N -> list N.
  Hypothesis H_len : forall x, length (H x) = 32%nat.

  (* the node itself, if it is stored (not embedded in its parent) *)
  Definition own (path : list N) (n : node) : ems :=
    match node_enc H n with
    | Some e => if Nat.ltb (length e) 32 && negb (is_nil path) then [] else [(path, e)]
    | None => []
    end.

  Definition go_nodes (rec : list N -> node -> ems) (path : list N) : nat -> list node -> ems :=
    fix go (i : nat) (l : list node) : ems :=
      match l with
      | [] => []
      | c :: r => rec (path ++ [N.of_nat i]) c ++ go (S i) r
      end.

  Fixpoint nodes_of (path : list N) (n : node) : ems :=
    match n with
    | NShort k c => nodes_of (path ++ k) c ++ own path n
    | NFull cs =>
        (fix go (i : nat) (l : list node) : ems :=
           match l with
           | [] => []
           | c :: r => nodes_of (path ++ [N.of_nat i]) c ++ go (S i) r
           end) O cs ++ own path n
    | _ => []
    end.

  Lemma nodes_of_full path cs : nodes_of path (NFull cs) = go_nodes nodes_of path O cs ++ own path (NFull cs).
  Proof. reflexivity. Qed.
  Lemma nodes_of_short path k c : nodes_of path (NShort k c) = nodes_of (path ++ k) c ++ own path (NShort k c).
  Proof. reflexivity. Qed.

  (* two lists walked in parallel *)
  Definition go2 (rec : list N -> stnode -> node -> ems) (path : list N) : nat -> list stnode -> list node -> ems :=
    fix go (i : nat) (l : list stnode) (ns : list node) : ems :=
      match l, ns with
      | c :: r, n :: nr => rec (path ++ [N.of_nat i]) c n ++ go (S i) r nr
      | _, _ => []
      end.

  (* still to be emitted *)
  Fixpoint rem (path : list N) (st : stnode) (n : node) : ems :=
    match st, n with
    | StLeaf _ _, _ => own path n
    | StExt k c, NShort _ cn => rem (path ++ k) c cn ++ own path n
    | StBranch scs, NFull cs =>
        (fix go (i : nat) (l : list stnode) (ns : list node) : ems :=
           match l, ns with
           | c :: r, n :: nr => rem (path ++ [N.of_nat i]) c n ++ go (S i) r nr
           | _, _ => []
           end) O scs cs ++ own path n
    | _, _ => []
    end.

  (* already emitted: the subtrees under hashed stack nodes *)
  Fixpoint done (path : list N) (st : stnode) (n : node) : ems :=
    match st, n with
    | StHashed _, _ => nodes_of path n
    | StExt k c, NShort _ cn => done (path ++ k) c cn
    | StBranch scs, NFull cs =>
        (fix go (i : nat) (l : list stnode) (ns : list node) : ems :=
           match l, ns with
           | c :: r, n :: nr => done (path ++ [N.of_nat i]) c n ++ go (S i) r nr
           | _, _ => []
           end) O scs cs
    | _, _ => []
    end.

  Lemma rem_branch path scs cs : rem path (StBranch scs) (NFull cs) = go2 rem path O scs cs ++ own path (NFull cs).
  Proof. reflexivity. Qed.
  Lemma done_branch path scs cs : done path (StBranch scs) (NFull cs) = go2 done path O scs cs.
  Proof. reflexivity. Qed.

  Lemma finish_own path n e em : node_enc H n = Some e ->
    finish_e H path e em = TOk ((if Nat.ltb (length e) 32 && negb (is_nil path) then e else H e), em ++ own path n).
  Proof.
    intros Ee. unfold finish_e, own. rewrite Ee.
    destruct (Nat.ltb (length e) 32 && negb (is_nil path)); [rewrite app_nil_r|]; reflexivity.
  Qed.

  (* StackTrie.hash emits exactly the remaining nodes *)
  Lemma hash_rem : forall st n path v em, R H st n -> st_hash_e H st path = TOk (v, em) -> em = rem path st n.
  Proof.
    induction st as [| |scs IH|k c IH|k v0|hv] using stnode_ind'; intros n path v em HR Eh; apply R_inv in HR; try solve [destruct HR].
    - (* branch *)
      destruct HR as (cs & -> & H1 & H2 & H3 & H4).
      destruct (children_payload H H_len scs cs O ltac:(lia) ltac:(lia) ltac:(rewrite H1; exact H3) H4) as (p & Ep & Sp).
      rewrite st_hash_e_branch in Eh.
      assert (HX : Forall xok scs).
      { rewrite Forall_forall. intros c Hc. destruct (In_nth_error _ _ Hc) as [i Hi].
        destruct (H4 _ _ Hi) as (n & _ & [[-> _]|(_ & _ & HRc)]); [constructor|]. eapply R_xok; eassumption. }
      pose proof (go_e_fst H path scs O HX) as Eg. rewrite Sp in Eg.
      destruct (go_e H path 0 scs) as [[p' em0]|e] eqn:Ego; simpl in Eg; [|discriminate]. inversion Eg; subst p'.
      assert (En : node_enc H (NFull cs) = Some (list_wrap p)).
      { pose proof (Canon.node_enc_full H cs) as En. rewrite Ep in En. exact En. }
      rewrite (finish_own path (NFull cs) _ em0 En) in Eh. inversion Eh; subst. rewrite rem_branch. f_equal.
      (* the children loop *)
      clear - IH H4 Ego H_len.
      assert (G : forall l ns i p em0, Forall (fun st => forall n path v em, R H st n -> st_hash_e H st path = TOk (v, em) -> em = rem path st n) l ->
                (forall j c, nth_error l j = Some c -> exists n, nth_error ns j = Some n /\
                   ((c = StNil /\ n = NEmpty) \/ (c <> StNil /\ inner n /\ R H c n))) ->
                go_e H path i l = TOk (p, em0) -> em0 = go2 rem path i l ns).
      { induction l as [|c l IHl]; intros ns i p1 em1 HF Hch Eg.
        - cbn in Eg. inversion Eg. destruct ns; reflexivity.
        - inversion HF as [|? ? Hc HF']; subst. rewrite go_e_cons in Eg.
          destruct (Hch O c eq_refl) as (n & En & Hcn). destruct ns as [|n0 ns]; [discriminate|]. simpl in En. inversion En; subst n0.
          assert (Hch' : forall j c0, nth_error l j = Some c0 -> exists n1, nth_error ns j = Some n1 /\
                     ((c0 = StNil /\ n1 = NEmpty) \/ (c0 <> StNil /\ inner n1 /\ R H c0 n1)))
            by (intros j c0 Hj; apply (Hch (S j) c0 Hj)).
          cbn [go2]. fold (go2 rem path (S i) l ns).
          destruct Hcn as [[-> ->]|(Hnn & Hin & HRc)].
          + destruct (go_e H path (S i) l) as [[b eb]|e] eqn:E2; [|discriminate]. inversion Eg; subst p1 em1.
            cbn [rem app]. apply (IHl ns (S i) b eb HF' Hch' E2).
          + destruct (st_hash_e H c (path ++ [N.of_nat i])) as [[vc emc]|e] eqn:Ec.
            * destruct (go_e H path (S i) l) as [[b eb]|e] eqn:E2; [|destruct c; discriminate].
              assert (em1 = emc ++ eb) by (destruct c; try congruence; inversion Eg; reflexivity). subst em1.
              rewrite (Hc n _ _ _ HRc Ec), (IHl ns (S i) b eb HF' Hch' E2). reflexivity.
            * destruct c; try congruence; discriminate. }
      apply (G scs cs O p em0 IH H4 Ego).
    - (* extension *)
      destruct HR as (cs & -> & H2 & H4 & H5).
      destruct (hash_R H H_len _ _ H5) as (ec & Eec & Ehc & _).
      cbn [st_hash_e] in Eh.
      pose proof (st_hash_e_fst H c (path ++ k) (R_xok H _ _ H5)) as Ec.
      rewrite nonnil_app in Ec by exact H2.
      rewrite Ehc in Ec. destruct (st_hash_e H c (path ++ k)) as [[vc emc]|e] eqn:Ech; simpl in Ec; [|discriminate]. inversion Ec; subst vc.
      rewrite (in_place_eq k H2) in Eh. destruct (hex_to_compact_total k) as [ck Eck]. rewrite Eck in Eh.
      assert (En : node_enc H (NShort k (NFull cs)) = Some (list_wrap (enc_str ck ++ enc_child_val (ref_of_enc H ec)))).
      { rewrite Canon.node_enc_short, Eck. cbv zeta.
        rewrite (has_term_nib_false _ (nibbles_forallb _ H4)), Eec.
        rewrite (write_ref_child H H_len _ (ref_nonempty H H_len _ _ Eec)). reflexivity. }
      change (if Nat.ltb (length (list_wrap (enc_str ck ++ enc_child_val (ref_of_enc H ec)))) 32 && negb (is_nil path)
              then TOk (list_wrap (enc_str ck ++ enc_child_val (ref_of_enc H ec)), emc)
              else TOk (H (list_wrap (enc_str ck ++ enc_child_val (ref_of_enc H ec))), emc ++ [(path, list_wrap (enc_str ck ++ enc_child_val (ref_of_enc H ec)))]))
        with (finish_e H path (list_wrap (enc_str ck ++ enc_child_val (ref_of_enc H ec))) emc) in Eh.
      rewrite (finish_own path _ _ emc En) in Eh. inversion Eh; subst.
      cbn [rem]. rewrite (IH _ _ _ _ H5 Ech). reflexivity.
    - (* leaf *)
      destruct HR as [-> Hk]. cbn [st_hash_e] in Eh.
      rewrite (in_place_eq (k ++ [16])) in Eh by (destruct k; discriminate).
      destruct (hex_to_compact_total (k ++ [16])) as [ck Eck]. rewrite Eck in Eh.
      assert (En : node_enc H (NShort (k ++ [16]) (NValue v0)) = Some (list_wrap (enc_str ck ++ enc_str v0))).
      { rewrite Canon.node_enc_short, Eck. cbv zeta. rewrite has_term_app_16. reflexivity. }
      cbn [rem]. unfold own. rewrite En.
      destruct (Nat.ltb (length (list_wrap (enc_str ck ++ enc_str v0))) 32 && negb (is_nil path)); inversion Eh; reflexivity.
    - (* hashed *)
      cbn in Eh. inversion Eh; subst. reflexivity.
  Qed.
End Nodes.
