(* Trie/CommitEvents.v — the opTracer events of trie.go's insert/delete are
   consistent with node presence: onInsert only at paths holding no node,
   onDelete only at paths holding one, and afterwards the node paths are exactly
   those of the resulting trie.  Proved on hash-node-free (ground) tries; the
   representation lemmas (CommitSim/CommitSimDel) transfer it to partially loaded
   tries because both runs emit the same opTracer events. *)
From GV Require Import Lib.Tactics Lib.Bytes Rlp.Codec Trie.Hex Trie.Node Trie.Ops Trie.Hash.
From GV Require Import Trie.OpsProofs Trie.Canon Trie.Proof Trie.ProofProofs.
From GV Require Import Trie.Commit Trie.CommitProofs Trie.CommitTracer Trie.X.CommitReads Trie.X.CommitSim Trie.X.CommitSimDel.
Local Open Scope N_scope.

(* ---------------- node positions of a ground trie ---------------- *)
Inductive gpos : list N -> node -> list N -> Prop :=
| gpos_here p G : is_sf G = true -> gpos p G p
| gpos_short p k c q : gpos (p ++ k) c q -> gpos p (NShort k c) q
| gpos_full p cs i c q : nth_error cs i = Some c -> gpos (p ++ [N.of_nat i]) c q -> gpos p (NFull cs) q.

Lemma gpos_ple p G q : gpos p G q -> ple p q.
Proof.
  induction 1 as [|p k c q _ IH|p cs i c q _ _ IH]; [apply ple_refl|eapply ple_app_l; exact IH|eapply ple_app_l; exact IH].
Qed.

Lemma gpos_sf p G q : gpos p G q -> is_sf G = true.
Proof. destruct 1; [assumption|reflexivity|reflexivity]. Qed.

Lemma ple_dec p q : ple p q \/ ~ ple p q.
Proof.
  destruct (is_prefix_of p q) eqn:E.
  - left. unfold is_prefix_of in E. apply andb_true_iff in E. destruct E as [E1 E2].
    apply bytes_eqb_eq in E1. exists (skipn (length p) q). rewrite E1 at 1. symmetry. apply firstn_skipn.
  - right. intro X. rewrite (is_prefix_of_ple p q X) in E. discriminate.
Qed.

(* ---------------- presence under events, in Prop ---------------- *)
Definition pstep (pres : list N -> Prop) (e : tev) : list N -> Prop :=
  fun q => match e with
           | TIns q0 => q = q0 \/ pres q
           | TDel q0 => q <> q0 /\ pres q
           | TRes _ _ => pres q
           end.

Definition pguard (pres : list N -> Prop) (e : tev) : Prop :=
  match e with TIns q0 => ~ pres q0 | TDel q0 => pres q0 | TRes _ _ => True end.

Fixpoint pcons (pres : list N -> Prop) (ev : list tev) : Prop :=
  match ev with
  | [] => True
  | e :: r => pguard pres e /\ pcons (pstep pres e) r
  end.

Fixpoint pafter (pres : list N -> Prop) (ev : list tev) : list N -> Prop :=
  match ev with
  | [] => pres
  | e :: r => pafter (pstep pres e) r
  end.

Definition peq (a b : list N -> Prop) : Prop := forall q, a q <-> b q.

Lemma pstep_ext a b e : peq a b -> peq (pstep a e) (pstep b e).
Proof. intros E q. destruct e; cbn; rewrite (E q); tauto. Qed.

Lemma pcons_ext ev : forall a b, peq a b -> pcons a ev -> pcons b ev.
Proof.
  induction ev as [|e ev IH]; intros a b E; cbn; [auto|].
  intros [G C]. split.
  - destruct e; cbn in *; try rewrite <- (E _); auto.
  - eapply IH; [apply pstep_ext; exact E|exact C].
Qed.

Lemma pafter_ext ev : forall a b, peq a b -> peq (pafter a ev) (pafter b ev).
Proof.
  induction ev as [|e ev IH]; intros a b E; cbn; [exact E|]. apply IH. apply pstep_ext. exact E.
Qed.

Lemma pcons_app a : forall pres b, pcons pres (a ++ b) <-> pcons pres a /\ pcons (pafter pres a) b.
Proof.
  induction a as [|e a IH]; intros pres b; cbn; [tauto|]. rewrite IH. tauto.
Qed.

Lemma pafter_app a : forall pres b, pafter pres (a ++ b) = pafter (pafter pres a) b.
Proof. induction a as [|e a IH]; intros pres b; cbn; [reflexivity|apply IH]. Qed.

(* resolutions do not matter *)
Lemma pcons_nores ev : forall pres, pcons pres (nores ev) <-> pcons pres ev.
Proof.
  induction ev as [|e ev IH]; intro pres; [tauto|].
  destruct e as [q|q|q b]; cbn [nores filter pcons]; fold (nores ev).
  - rewrite IH. tauto.
  - rewrite IH. tauto.
  - rewrite IH. cbn [pguard].
    assert (X : pcons (pstep pres (TRes q b)) ev <-> pcons pres ev)
      by (split; apply pcons_ext; intro x; cbn; tauto).
    tauto.
Qed.

Lemma pafter_nores ev : forall pres, peq (pafter pres (nores ev)) (pafter pres ev).
Proof.
  induction ev as [|e ev IH]; intro pres; [intro q; tauto|].
  destruct e as [q|q|q b]; cbn [nores filter pafter]; fold (nores ev); apply IH.
Qed.

(* all opTracer events of [ev] are at paths extending [p] *)
Definition evs_below (p : list N) (ev : list tev) : Prop :=
  forall q, In (TIns q) ev \/ In (TDel q) ev -> ple p q.

Lemma evs_below_app p a b : evs_below p a -> evs_below p b -> evs_below p (a ++ b).
Proof.
  intros A B q [X|X]; apply in_app_or in X; destruct X as [X|X]; [apply A|apply B|apply A|apply B]; auto.
Qed.
Lemma evs_below_up p r ev : evs_below (p ++ r) ev -> evs_below p ev.
Proof. intros A q X. eapply ple_app_l. apply A. exact X. Qed.
Lemma evs_below_nil p : evs_below p [].
Proof. intros q [[]|[]]. Qed.

(* frame: events below [pc] only need the presence below [pc] *)
Lemma pframe pc ev : forall P C,
  evs_below pc ev -> (forall q, ple pc q -> (P q <-> C q)) -> pcons C ev ->
  pcons P ev /\
  (forall q, ple pc q -> (pafter P ev q <-> pafter C ev q)) /\
  (forall q, ~ ple pc q -> (pafter P ev q <-> P q)).
Proof.
  induction ev as [|e ev IH]; intros P C B E Cc; cbn.
  - split; [exact I|]. split; [exact E|tauto].
  - destruct Cc as [G Cc].
    assert (B' : evs_below pc ev).
    { intros q [X|X]; apply B; [left|right]; right; exact X. }
    assert (E' : forall q, ple pc q -> (pstep P e q <-> pstep C e q)).
    { intros q Q. destruct e; cbn; rewrite (E q Q); tauto. }
    destruct (IH (pstep P e) (pstep C e) B' E' Cc) as (X1 & X2 & X3).
    split; [split; [|exact X1]|split; [exact X2|]].
    + destruct e as [q0|q0|q0 b0]; cbn in *; [rewrite (E q0)|rewrite (E q0)|]; try exact G;
        apply B; [left|right]; left; reflexivity.
    + intros q NQ. rewrite (X3 q NQ). destruct e as [q0|q0|q0 b0]; cbn; [| |tauto].
      * assert (q <> q0) by (intros ->; apply NQ; apply B; left; left; reflexivity). tauto.
      * assert (q <> q0) by (intros ->; apply NQ; apply B; right; left; reflexivity). tauto.
Qed.

Definition econs (p : list N) (G G' : node) (ev : list tev) : Prop :=
  evs_below p ev /\ pcons (gpos p G) ev /\ peq (pafter (gpos p G) ev) (gpos p G').

(* ---------------- positions of composite nodes ---------------- *)
Lemma gpos_empty p q : ~ gpos p NEmpty q.
Proof. intro X. apply gpos_sf in X. discriminate. Qed.
Lemma gpos_value p v q : ~ gpos p (NValue v) q.
Proof. intro X. apply gpos_sf in X. discriminate. Qed.

Lemma gpos_short_iff p k c q : gpos p (NShort k c) q <-> q = p \/ gpos (p ++ k) c q.
Proof.
  split.
  - intro X. inversion X; subst; [left; reflexivity|right; assumption].
  - intros [->|X]; [apply gpos_here; reflexivity|apply gpos_short; exact X].
Qed.

Lemma gpos_full_iff p cs q :
  gpos p (NFull cs) q <-> q = p \/ exists i c, nth_error cs i = Some c /\ gpos (p ++ [N.of_nat i]) c q.
Proof.
  split.
  - intro X. inversion X; subst; [left; reflexivity|right; eauto].
  - intros [->|(i & c & E & X)]; [apply gpos_here; reflexivity|eapply gpos_full; eassumption].
Qed.

Lemma gpos_inil pre rest c q :
  gpos pre (inil rest c) q <-> (rest <> [] /\ q = pre) \/ gpos (pre ++ rest) c q.
Proof.
  unfold inil. destruct rest as [|x r].
  - rewrite app_nil_r. split; [auto|intros [[X _]|X]; [congruence|exact X]].
  - rewrite gpos_short_iff. split; intros [X|X]; auto; [left; split; [discriminate|exact X]|left; tauto].
Qed.

Lemma ple_app_self p k : k <> [] -> ~ ple (p ++ k) p.
Proof. intros K X. apply ple_self_app in X. contradiction. Qed.

Lemma short_frame p k c q : k <> [] -> ple (p ++ k) q -> (gpos p (NShort k c) q <-> gpos (p ++ k) c q).
Proof.
  intros K Q. rewrite gpos_short_iff. split; [intros [->|X]; [exfalso; eapply ple_app_self; eassumption|exact X]|auto].
Qed.

Lemma full_frame p cs i c q : nth_error cs i = Some c -> ple (p ++ [N.of_nat i]) q ->
  (gpos p (NFull cs) q <-> gpos (p ++ [N.of_nat i]) c q).
Proof.
  intros E Q. rewrite gpos_full_iff. split.
  - intros [->|(j & d & Ej & X)]; [exfalso; eapply (ple_app_self p [N.of_nat i]); [discriminate|exact Q]|].
    destruct (Nat.eq_dec j i) as [->|NE]; [congruence|].
    exfalso. eapply (ple_sibling p (N.of_nat j) (N.of_nat i)); [lia|eapply gpos_ple; exact X|exact Q].
  - intro X. right. eauto.
Qed.

(* positions of a full node whose child [i] was replaced *)
Lemma full_set_iff p cs i c1 cs2 q : set_nth i c1 cs = Some cs2 ->
  (gpos p (NFull cs2) q <->
   q = p \/ gpos (p ++ [N.of_nat i]) c1 q \/
   exists j c, j <> i /\ nth_error cs j = Some c /\ gpos (p ++ [N.of_nat j]) c q).
Proof.
  intro SN. destruct (set_nth_spec _ _ _ _ SN) as [L N2]. rewrite gpos_full_iff. split.
  - intros [->|(j & c & E & X)]; [auto|]. rewrite N2 in E. destruct (Nat.eqb j i) eqn:JI.
    + apply Nat.eqb_eq in JI. subst j. inversion E; subst. auto.
    + apply Nat.eqb_neq in JI. right. right. eauto.
  - intros [->|[X|(j & c & NE & E & X)]]; [auto| |].
    + right. exists i, c1. split; [rewrite N2, Nat.eqb_refl; reflexivity|exact X].
    + right. exists j, c. split; [|exact X]. rewrite N2. apply Nat.eqb_neq in NE. rewrite NE. exact E.
Qed.

(* ---------------- composing event specifications ---------------- *)
Lemma econs_refl p G G' : peq (gpos p G) (gpos p G') -> econs p G G' [].
Proof. intro E. split; [apply evs_below_nil|]. split; [exact I|exact E]. Qed.

Lemma econs_trans p G G1 G2 a b : econs p G G1 a -> econs p G1 G2 b -> econs p G G2 (a ++ b).
Proof.
  intros (A1 & A2 & A3) (B1 & B2 & B3). split; [apply evs_below_app; assumption|]. split.
  - apply pcons_app. split; [exact A2|]. eapply pcons_ext; [|exact B2]. intro q. symmetry. apply A3.
  - rewrite pafter_app. intro q. rewrite <- (B3 q). apply pafter_ext. exact A3.
Qed.

Lemma econs_ext p G G' G2 ev : peq (gpos p G') (gpos p G2) -> econs p G G' ev -> econs p G G2 ev.
Proof. intros E (A1 & A2 & A3). split; [exact A1|]. split; [exact A2|]. intro q. rewrite (A3 q). apply E. Qed.

Lemma short_child_econs p k c c1 ev : k <> [] ->
  econs (p ++ k) c c1 ev -> econs p (NShort k c) (NShort k c1) ev.
Proof.
  intros K (A1 & A2 & A3).
  destruct (pframe (p ++ k) ev (gpos p (NShort k c)) (gpos (p ++ k) c) A1) as (X1 & X2 & X3);
    [intros q Q; apply short_frame; assumption|exact A2|].
  split; [eapply evs_below_up; exact A1|]. split; [exact X1|].
  intro q. destruct (ple_dec (p ++ k) q) as [Q|Q].
  - rewrite (X2 q Q), (A3 q). symmetry. apply short_frame; assumption.
  - rewrite (X3 q Q), !gpos_short_iff. split; (intros [X|X]; [left; exact X|exfalso; apply Q; eapply gpos_ple; exact X]).
Qed.

Lemma full_child_econs p cs i c c1 cs2 ev :
  nth_error cs i = Some c -> set_nth i c1 cs = Some cs2 ->
  econs (p ++ [N.of_nat i]) c c1 ev -> econs p (NFull cs) (NFull cs2) ev.
Proof.
  intros E SN (A1 & A2 & A3).
  destruct (pframe (p ++ [N.of_nat i]) ev (gpos p (NFull cs)) (gpos (p ++ [N.of_nat i]) c) A1) as (X1 & X2 & X3);
    [intros q Q; apply full_frame; assumption|exact A2|].
  split; [eapply evs_below_up; exact A1|]. split; [exact X1|].
  assert (E2 : nth_error cs2 i = Some c1).
  { destruct (set_nth_spec _ _ _ _ SN) as [_ N2]. rewrite N2, Nat.eqb_refl. reflexivity. }
  intro q. destruct (ple_dec (p ++ [N.of_nat i]) q) as [Q|Q].
  - rewrite (X2 q Q), (A3 q). symmetry. apply full_frame; assumption.
  - rewrite (X3 q Q), (full_set_iff p cs i c1 cs2 q SN), gpos_full_iff. split.
    + intros [X|(j & d & Ej & X)]; [left; exact X|].
      destruct (Nat.eq_dec j i) as [->|NE].
      * exfalso. apply Q. eapply gpos_ple. exact X.
      * right. right. eauto.
    + intros [X|[X|(j & d & NE & Ej & X)]]; [left; exact X|exfalso; apply Q; eapply gpos_ple; exact X|right; eauto].
Qed.

(* one onInsert at a free path *)
Lemma econs_ins p G G' q0 :
  ple p q0 -> ~ gpos p G q0 -> (forall q, gpos p G' q <-> q = q0 \/ gpos p G q) ->
  econs p G G' [TIns q0].
Proof.
  intros B F E. split; [intros q [[X|[]]|[X|[]]]; inversion X; subst; exact B|].
  split; [split; [exact F|exact I]|]. intro q. cbn. symmetry. apply E.
Qed.

(* one onDelete at an occupied path *)
Lemma econs_del p G G' q0 :
  ple p q0 -> gpos p G q0 -> (forall q, gpos p G' q <-> q <> q0 /\ gpos p G q) ->
  econs p G G' [TDel q0].
Proof.
  intros B F E. split; [intros q [[X|[]]|[X|[]]]; inversion X; subst; exact B|].
  split; [split; [exact F|exact I]|]. intro q. cbn. symmetry. apply E.
Qed.

(* several onInserts at distinct free paths *)
Lemma pcons_inss qs : forall P, NoDup qs -> (forall q, In q qs -> ~ P q) ->
  pcons P (map TIns qs) /\ peq (pafter P (map TIns qs)) (fun q => In q qs \/ P q).
Proof.
  induction qs as [|q0 qs IH]; intros P ND F; cbn.
  - split; [exact I|]. intro q. tauto.
  - inversion ND as [|x l NI ND']; subst.
    destruct (IH (pstep P (TIns q0)) ND') as [X1 X2].
    { intros q Iq [->|X]; [contradiction|]. exact (F q (or_intror Iq) X). }
    split; [split; [apply F; left; reflexivity|exact X1]|].
    intro q. rewrite (X2 q). cbn. split; [intros [X|[X|X]]|intros [[X|X]|X]]; auto.
Qed.

Lemma nth_error_empty17_pos p i c q : nth_error empty17 i = Some c -> ~ gpos p c q.
Proof. intros E X. apply nth_error_empty17 in E. subst. exact (gpos_empty _ _ X). Qed.

(* positions of the branch built by an insert that splits a short node *)
Lemma branch_pos P0 a b c1 c2 cs1 cs2 q : a <> b ->
  set_child empty17 a c1 = Some cs1 -> set_child cs1 b c2 = Some cs2 ->
  (gpos P0 (NFull cs2) q <-> q = P0 \/ gpos (P0 ++ [a]) c1 q \/ gpos (P0 ++ [b]) c2 q).
Proof.
  unfold set_child. intros AB S1 S2.
  rewrite (full_set_iff P0 cs1 (N.to_nat b) c2 cs2 q S2), N2Nat.id.
  destruct (set_nth_spec _ _ _ _ S1) as [_ N1].
  split.
  - intros [X|[X|(j & c & NE & E & X)]]; auto.
    rewrite N1 in E. destruct (Nat.eqb j (N.to_nat a)) eqn:JA.
    + apply Nat.eqb_eq in JA. subst j. inversion E; subst. rewrite N2Nat.id in X. auto.
    + exfalso. eapply nth_error_empty17_pos; eassumption.
  - intros [X|[X|X]]; auto. right. right. exists (N.to_nat a), c1.
    split; [intro Y; apply AB; apply N2Nat.inj; exact Y|]. split; [rewrite N1, Nat.eqb_refl; reflexivity|].
    rewrite N2Nat.id. exact X.
Qed.

Lemma app_neq_self (p : list N) x r : p ++ x :: r <> p.
Proof. intro E. assert (L : length (p ++ x :: r) = length p) by (rewrite E; reflexivity). rewrite app_length in L. cbn in L. lia. Qed.

Lemma app_nonnil_neq (p r : list N) : r <> [] -> p ++ r <> p.
Proof. destruct r as [|x r]; [congruence|intros _; apply app_neq_self]. Qed.
Lemma snoc_nonnil (pp : list N) a : pp ++ [a] <> [].
Proof. destruct pp; discriminate. Qed.

Section GroundEvents.
  Variable R : list N -> list N -> option (node * list N).

  Lemma insert_econs : forall fu G p key v d G' ev,
    insert R fu G p key (NValue v) = TOk (d, G', ev) -> wfpos G key ->
    econs p G G' ev /\ (d = false -> ev = []).
  Proof.
    induction fu as [|fu IH]; intros G p key v d G' ev E Wp; [discriminate|].
    destruct key as [|k0 kr].
    { destruct Wp as [[_ VS]|[Vk _]]; [|inversion Vk].
      destruct VS as [->|[v0 ->]]; cbn in E; inversion E; subst;
        (split; [apply econs_refl; intro q; split; intro X; exfalso;
                 first [eapply gpos_empty; exact X|eapply gpos_value; exact X]|]);
        [discriminate|reflexivity]. }
    destruct Wp as [[X _]|[Vk Wn]]; [discriminate|].
    destruct G as [|v0|nk c|cs|h]; try (inversion Wn; fail).
    - (* nil *)
      cbn in E. inversion E; subst. split; [|discriminate].
      apply econs_ins; [apply ple_refl|apply gpos_empty|].
      intro q. rewrite gpos_short_iff. split; [intros [X|X]; [auto|exfalso; eapply gpos_value; exact X]|].
      intros [X|X]; [auto|exfalso; eapply gpos_empty; exact X].
    - (* short node *)
      set (key := k0 :: kr) in *.
      rewrite (insert_short_unfold R fu nk c p key (NValue v)) in E by discriminate. cbv zeta in E.
      destruct (prefix_len_split key nk) as (pp & a' & b' & Ek & En & Em & Dab).
      destruct (Nat.eqb (prefix_len key nk) (length nk)) eqn:ML.
      + apply Nat.eqb_eq in ML. rewrite Em in ML.
        assert (b' = []).
        { rewrite En, app_length in ML. destruct b'; [reflexivity|cbn in ML; lia]. }
        subst b'. rewrite app_nil_r in En. subst pp.
        rewrite Em, Ek, firstn_app_exact, skipn_app_exact in E.
        rewrite Ek in Vk. destruct (wfn_short_child nk c a' Wn Vk) as (Wc & KN & _).
        destruct (insert R fu c (p ++ nk) a' (NValue v)) as [[[d1 n1] ev1]|er] eqn:IE; [|discriminate].
        destruct (IH _ _ _ _ _ _ _ IE Wc) as [EC ZE].
        destruct d1; inversion E; subst d G' ev.
        * split; [|discriminate]. apply short_child_econs; assumption.
        * rewrite (ZE eq_refl). split; [|reflexivity]. apply econs_refl. intro q. tauto.
      + apply Nat.eqb_neq in ML. rewrite Em in *.
        destruct (nth_error nk (length pp)) as [a|] eqn:NA; [|discriminate].
        destruct (nth_error key (length pp)) as [b|] eqn:NB; [|discriminate].
        rewrite En, nth_error_app_exact in NA. rewrite Ek, nth_error_app_exact in NB.
        destruct b' as [|a0 nkr]; [discriminate|]. destruct a' as [|b0 keyr]; [discriminate|].
        cbn in NA, NB. inversion NA; inversion NB; subst a0 b0. clear NA NB.
        rewrite En, Ek, !firstn_app_succ, !skipn_app_succ, firstn_app_exact in E.
        destruct (insert_nil (p ++ pp ++ [a]) nkr c) as [c1 ev1] eqn:I1.
        destruct (insert_nil (p ++ pp ++ [b]) keyr (NValue v)) as [c2 ev2] eqn:I2.
        pose proof (insert_nil_fst (p ++ pp ++ [a]) nkr c) as F1. rewrite I1 in F1. cbn in F1. subst c1.
        pose proof (insert_nil_snd (p ++ pp ++ [a]) nkr c) as S1. rewrite I1 in S1. cbn in S1. subst ev1.
        pose proof (insert_nil_fst (p ++ pp ++ [b]) keyr (NValue v)) as F2. rewrite I2 in F2. cbn in F2. subst c2.
        pose proof (insert_nil_snd (p ++ pp ++ [b]) keyr (NValue v)) as S2. rewrite I2 in S2. cbn in S2. subst ev2.
        destruct (set_child empty17 a (inil nkr c)) as [cs1|] eqn:SC1; [|discriminate].
        destruct (set_child cs1 b (inil keyr (NValue v))) as [cs2|] eqn:SC2; [|discriminate].
        assert (AB : a <> b) by exact (fun X => Dab (eq_sym X)).
        set (P0 := p ++ pp) in *.
        assert (PA : p ++ pp ++ [a] = P0 ++ [a]) by (unfold P0; rewrite app_assoc; reflexivity).
        assert (PB : p ++ pp ++ [b] = P0 ++ [b]) by (unfold P0; rewrite app_assoc; reflexivity).
        assert (PN : p ++ nk = (P0 ++ [a]) ++ nkr) by (unfold P0; rewrite En, <- !app_assoc; reflexivity).
        rewrite PA, PB in E.
        (* the paths announced by onInsert *)
        set (qs := (match nkr with [] => [] | _ :: _ => [P0 ++ [a]] end) ++
                   (match keyr with [] => [] | _ :: _ => [P0 ++ [b]] end) ++
                   (if Nat.eqb (length pp) 0 then [] else [P0])).
        assert (BR := fun q => branch_pos P0 a b _ _ cs1 cs2 q AB SC1 SC2).
        assert (GOLD : forall q, gpos p (NShort nk c) q <-> q = p \/ gpos ((P0 ++ [a]) ++ nkr) c q)
          by (intro q; rewrite gpos_short_iff, PN; tauto).
        assert (FREEA : ~ gpos p (NShort nk c) (P0 ++ [a]) \/ nkr = []).
        { destruct nkr as [|x r]; [right; reflexivity|left]. rewrite GOLD. intros [X|X].
          - unfold P0 in X. rewrite <- app_assoc in X. eapply (app_nonnil_neq p (pp ++ [a])); [apply snoc_nonnil|exact X].
          - apply gpos_ple in X. apply ple_self_app in X. discriminate. }
        assert (FREEB : ~ gpos p (NShort nk c) (P0 ++ [b])).
        { rewrite GOLD. intros [X|X].
          - unfold P0 in X. rewrite <- app_assoc in X. eapply (app_nonnil_neq p (pp ++ [b])); [apply snoc_nonnil|exact X].
          - apply gpos_ple in X. eapply (ple_sibling P0 a b); [exact AB|eapply ple_app_l; exact X|apply ple_refl]. }
        assert (FREE0 : pp <> [] -> ~ gpos p (NShort nk c) P0).
        { intros PPN. rewrite GOLD. intros [X|X].
          - unfold P0 in X. eapply (app_nonnil_neq p pp); [exact PPN|exact X].
          - apply gpos_ple in X. rewrite <- app_assoc in X. apply ple_self_app in X. discriminate. }
        assert (NEWPOS : forall q,
                  gpos P0 (NFull cs2) q <->
                  q = P0 \/ ((nkr <> [] /\ q = P0 ++ [a]) \/ gpos ((P0 ++ [a]) ++ nkr) c q) \/
                  (keyr <> [] /\ q = P0 ++ [b])).
        { intro q. rewrite BR, !gpos_inil. split.
          - intros [X|[X|[X|X]]]; auto. exfalso. eapply gpos_value. exact X.
          - intros [X|[X|X]]; auto. }
        assert (EVS : exists evx, TOk (true, (if Nat.eqb (length pp) 0 then NFull cs2 else NShort pp (NFull cs2)), evx) =
                                  TOk (d, G', ev) /\ evx = map TIns qs).
        { unfold qs. destruct (Nat.eqb (length pp) 0); eexists; (split; [exact E|]);
            destruct nkr, keyr; reflexivity. }
        destruct EVS as (evx & E' & ->). inversion E'; subst d G' ev. clear E E'.
        split; [|discriminate].
        assert (ND : NoDup qs).
        { unfold qs. destruct nkr as [|x1 r1], keyr as [|x2 r2], (Nat.eqb (length pp) 0) eqn:M0; cbn;
            repeat constructor; cbn; try tauto;
            try (intros [X|[X|[]]]); try (intros [X|[]]);
            try (apply app_inv_head in X; congruence);
            try (symmetry in X; eapply app_neq_self; exact X);
            try (eapply app_neq_self; exact X). }
        assert (FR : forall q, In q qs -> ~ gpos p (NShort nk c) q).
        { unfold qs. intros q Iq. apply in_app_or in Iq. destruct Iq as [Iq|Iq].
          - destruct nkr; [destruct Iq|]. destruct Iq as [<-|[]]. destruct FREEA as [X|X]; [exact X|discriminate].
          - apply in_app_or in Iq. destruct Iq as [Iq|Iq].
            + destruct keyr; [destruct Iq|]. destruct Iq as [<-|[]]. exact FREEB.
            + destruct (Nat.eqb (length pp) 0) eqn:M0; [destruct Iq|]. destruct Iq as [<-|[]].
              apply FREE0. intros ->. discriminate. }
        destruct (pcons_inss qs (gpos p (NShort nk c)) ND FR) as [PC PA'].
        split; [|split; [exact PC|]].
        { intros q [X|X]; apply in_map_iff in X; destruct X as (x & X & Ix); [|discriminate].
          inversion X; subst x. unfold qs in Ix. unfold P0 in Ix.
          apply in_app_or in Ix. destruct Ix as [Ix|Ix].
          - destruct nkr; [destruct Ix|]. destruct Ix as [<-|[]]. rewrite <- app_assoc. apply ple_app.
          - apply in_app_or in Ix. destruct Ix as [Ix|Ix].
            + destruct keyr; [destruct Ix|]. destruct Ix as [<-|[]]. rewrite <- app_assoc. apply ple_app.
            + destruct (Nat.eqb (length pp) 0); [destruct Ix|]. destruct Ix as [<-|[]]. apply ple_app. }
        intro q. rewrite (PA' q), GOLD. unfold qs.
        destruct (Nat.eqb (length pp) 0) eqn:M0.
        * apply Nat.eqb_eq in M0. destruct pp; [|discriminate]. unfold P0 in *. rewrite app_nil_r in *.
          rewrite NEWPOS, !in_app_iff. cbn [In]. destruct nkr, keyr; cbn [In]; split; intro X; tauto || (intuition congruence).
        * rewrite gpos_short_iff. fold P0. rewrite NEWPOS, !in_app_iff. cbn [In].
          destruct nkr, keyr; cbn [In]; split; intro X; tauto || (intuition congruence).
    - (* full node *)
      destruct (wfn_full_child cs k0 kr Wn Vk) as (c & Ec & Wc).
      cbn [insert] in E. unfold child in E. rewrite Ec in E.
      destruct (insert R fu c (p ++ [k0]) kr (NValue v)) as [[[d1 n1] ev1]|er] eqn:IE; [|discriminate].
      destruct (IH _ _ _ _ _ _ _ IE Wc) as [EC ZE].
      destruct d1.
      + unfold set_child in E. destruct (set_nth (N.to_nat k0) n1 cs) as [cs2|] eqn:SN; [|discriminate].
        inversion E; subst d G' ev. split; [|discriminate].
        eapply full_child_econs; [exact Ec|exact SN|]. rewrite N2Nat.id. exact EC.
      + inversion E; subst d G' ev. rewrite (ZE eq_refl). split; [|reflexivity].
        apply econs_refl. intro q. tauto.
  Qed.

  Lemma merge_del_iff p nk ck cv q : nk <> [] -> ck <> [] ->
    (gpos p (NShort (nk ++ ck) cv) q <-> q <> p ++ nk /\ gpos p (NShort nk (NShort ck cv)) q).
  Proof.
    intros NK CK. rewrite !gpos_short_iff, app_assoc. split.
    - intros [->|X].
      + split; [intro Y; symmetry in Y; exact (app_nonnil_neq p nk NK Y)|auto].
      + split; [|auto]. intro Y. subst q. apply gpos_ple in X. apply ple_self_app in X. contradiction.
    - intros [NQ [X|[X|X]]]; [auto|contradiction|auto].
  Qed.

  Lemma single_pos p cs2 pos rem :
    (forall j c, nth_error cs2 j = Some c -> j <> N.to_nat pos -> c = NEmpty) ->
    nth_error cs2 (N.to_nat pos) = Some rem ->
    peq (gpos p (NFull cs2)) (gpos p (NShort [pos] rem)).
  Proof.
    intros OTH Er q. rewrite gpos_full_iff, gpos_short_iff. split.
    - intros [X|(j & c & E & X)]; [auto|right].
      destruct (Nat.eq_dec j (N.to_nat pos)) as [->|NE].
      + rewrite Er in E. inversion E; subst. rewrite N2Nat.id in X. exact X.
      + rewrite (OTH j c E NE) in X. exfalso. eapply gpos_empty. exact X.
    - intros [X|X]; [auto|right]. exists (N.to_nat pos), rem. rewrite N2Nat.id. auto.
  Qed.

  Lemma delete_econs : forall fu G p key d G' ev,
    delete R fu G p key = TOk (d, G', ev) -> wfpos G key -> (length key < fu)%nat ->
    econs p G G' ev /\ (d = false -> ev = []).
  Proof.
    induction fu as [|fu IH]; intros G p key d G' ev E Wp Fu; [discriminate|].
    assert (NOPOS : forall A B, ~ is_sf A = true -> ~ is_sf B = true -> peq (gpos p A) (gpos p B)).
    { intros A B NA NB q. split; intro X; apply gpos_sf in X; contradiction. }
    destruct Wp as [[-> VS]|[Vk Wn]].
    { destruct VS as [->|[v0 ->]]; cbn in E; inversion E; subst;
        (split; [apply econs_refl; apply NOPOS; discriminate|]); [reflexivity|discriminate]. }
    destruct G as [|v0|nk c|cs|h]; try (inversion Wn; fail).
    - cbn in E. inversion E; subst. split; [apply econs_refl; intro q; tauto|reflexivity].
    - (* short node *)
      cbn [delete] in E.
      destruct (prefix_len_split key nk) as (pp & a' & b' & Ek & En & Em & Dab).
      destruct (Nat.ltb (prefix_len key nk) (length nk)) eqn:LT.
      { inversion E; subst d G' ev. split; [apply econs_refl; intro q; tauto|reflexivity]. }
      apply Nat.ltb_ge in LT. rewrite Em in *.
      assert (b' = []).
      { destruct b' as [|x b']; [reflexivity|]. rewrite En, app_length in LT. cbn in LT. lia. }
      subst b'. rewrite app_nil_r in En. subst pp.
      rewrite Ek in Vk. destruct (wfn_short_child nk c a' Wn Vk) as (Wc & KN & _).
      destruct (Nat.eqb (length nk) (length key)) eqn:EQ.
      { (* the leaf goes away *)
        inversion E; subst d G' ev. split; [|discriminate].
        apply Nat.eqb_eq in EQ. rewrite Ek, app_length in EQ.
        assert (a' = []) by (destruct a'; [reflexivity|cbn in EQ; lia]). subst a'.
        apply econs_del; [apply ple_refl|apply gpos_here; reflexivity|].
        intro q. rewrite gpos_short_iff. split; [intro X; exfalso; eapply gpos_empty; exact X|].
        intros [NQ [X|X]]; [contradiction|].
        destruct Wc as [[_ VS]|[Vx _]]; [|inversion Vx].
        exfalso. destruct VS as [->|[v1 ->]]; [eapply gpos_empty|eapply gpos_value]; exact X. }
      apply Nat.eqb_neq in EQ.
      rewrite Ek, firstn_app_exact, skipn_app_exact in E.
      assert (FU : (length a' < fu)%nat).
      { rewrite Ek, app_length in Fu. destruct nk; [congruence|cbn in Fu; lia]. }
      destruct (delete R fu c (p ++ nk) a') as [[[d1 c1] ev1]|er] eqn:DE; [|discriminate].
      destruct (IH _ _ _ _ _ _ DE Wc FU) as [EC ZE].
      destruct (delete_spec R fu c (p ++ nk) a' FU Wc) as (d0 & n0 & ev0 & DE0 & PO).
      rewrite DE in DE0. inversion DE0; subst d0 n0 ev0. destruct PO as (Wc1 & _).
      destruct d1.
      + assert (E1 : econs p (NShort nk c) (NShort nk c1) ev1) by (apply short_child_econs; assumption).
        destruct c1 as [|v1|ck cv|l|h1]; inversion E; subst d G' ev; (split; [|discriminate]); try exact E1.
        assert (CK : ck <> []).
        { destruct Wc1 as [[_ VS]|[_ W1]]; [destruct VS as [X|[v1 X]]; discriminate|eapply wfn_short_key; exact W1]. }
        eapply econs_trans; [exact E1|].
        apply econs_del; [apply ple_app|apply gpos_short; apply gpos_here; reflexivity|].
        intro q. apply merge_del_iff; assumption.
      + inversion E; subst d G' ev. rewrite (ZE eq_refl). split; [apply econs_refl; intro q; tauto|reflexivity].
    - (* full node *)
      destruct key as [|k0 kr]; [inversion Vk|].
      destruct (wfn_full_child cs k0 kr Wn Vk) as (c & Ec & Wc).
      cbn [delete] in E. unfold child in E. rewrite Ec in E.
      assert (FU : (length kr < fu)%nat) by (cbn in Fu; lia).
      destruct (delete R fu c (p ++ [k0]) kr) as [[[d1 c1] ev1]|er] eqn:DE; [|discriminate].
      destruct (IH _ _ _ _ _ _ DE Wc FU) as [EC ZE].
      destruct d1.
      2: { inversion E; subst d G' ev. rewrite (ZE eq_refl). split; [apply econs_refl; intro q; tauto|reflexivity]. }
      unfold set_child in E. destruct (set_nth (N.to_nat k0) c1 cs) as [cs2|] eqn:SN; [|discriminate].
      assert (E1 : econs p (NFull cs) (NFull cs2) ev1).
      { eapply full_child_econs; [exact Ec|exact SN|]. rewrite N2Nat.id. exact EC. }
      destruct (set_nth_spec _ _ _ _ SN) as [L2 N2].
      destruct (negb (is_empty c1)) eqn:NE.
      { inversion E; subst d G' ev. split; [exact E1|discriminate]. }
      apply negb_false_iff in NE. assert (c1 = NEmpty) by (destruct c1; try discriminate; reflexivity). subst c1.
      assert (K2 : nth_error cs2 (N.to_nat k0) = Some NEmpty) by (rewrite N2, Nat.eqb_refl; reflexivity).
      destruct (single_child cs2) as [[pos|]|] eqn:SC;
        try (inversion E; subst d G' ev; split; [exact E1|discriminate]).
      destruct (single_child_pos cs2 pos k0 SC K2) as (rem & Er & RN & PK & OTH).
      rewrite Er in E.
      assert (E2 : econs p (NFull cs) (NShort [pos] rem) ev1).
      { eapply econs_ext; [|exact E1]. apply single_pos; assumption. }
      destruct (negb (pos =? 16)) eqn:P16.
      2: { inversion E; subst d G' ev. split; [exact E2|discriminate]. }
      assert (PKn : N.to_nat pos <> N.to_nat k0) by (intro X; apply PK; apply N2Nat.inj; exact X).
      assert (Er0 : nth_error cs (N.to_nat pos) = Some rem).
      { rewrite N2 in Er. apply Nat.eqb_neq in PKn. rewrite PKn in Er. exact Er. }
      assert (WR : wfn rem).
      { apply negb_true_iff in P16. apply N.eqb_neq in P16.
        assert (N.to_nat pos < length cs)%nat by (apply nth_error_Some; congruence).
        inversion Wn; subst. match goal with X : forall i c, nth_error cs i = Some c -> _ -> wfn c |- _ => apply (X (N.to_nat pos)); [exact Er0|lia] end. }
      destruct rem as [|rv|ck cv|l|hh]; try (inversion WR; fail); try congruence.
      + (* merged with the remaining short node *)
        inversion E; subst d G' ev. split; [|discriminate]. cbn [app].
        eapply econs_trans; [exact E2|].
        apply econs_del; [apply ple_app|apply gpos_short; apply gpos_here; reflexivity|].
        intro q. apply (merge_del_iff p [pos] ck cv q); [discriminate|eapply wfn_short_key; exact WR].
      + inversion E; subst d G' ev. rewrite app_nil_r. split; [exact E2|discriminate].
  Qed.
End GroundEvents.
