(* Trie/SyncLive.v — no deadlock: the dependency counters are not only lower-bounded by
   the number of pending children (slack, Trie/SyncComplete.v) but also upper-bounded,
   every delivered pending request has deps > 0, and parents have shorter paths than
   their children; hence, while something is pending, some request is undelivered.
   Scheme independent (only nodeReqs / codeReqs are involved). *)
From Coq Require Import ZArith Lia.
From GV Require Import Lib.Tactics Lib.Bytes Trie.Node Trie.Hash Storage.KV Storage.KVProofs Trie.Sync Trie.SyncProofs Trie.SyncComplete.
Local Open Scope N_scope.

Definition keys {V} (m : amap V) : list (list N) := map fst m.

Lemma adel_absent {V} k (m : amap V) : aget k m = None -> adel k m = m.
Proof.
  induction m as [|[k0 v] m IH]; [reflexivity|]. cbn [aget]. rewrite adel_cons.
  destruct (beq k k0) eqn:E; [discriminate|]. intros X. rewrite (IH X). reflexivity.
Qed.
Lemma In_keys_adel {V} x k (m : amap V) : In x (keys (adel k m)) -> In x (keys m) /\ x <> k.
Proof.
  unfold keys. intros Hx. apply in_map_iff in Hx. destruct Hx as ([a b] & E & Hin). simpl in E. subst a.
  apply In_adel in Hin. destruct Hin as [Hin Hne]. split; [apply in_map_iff; exists (x, b); auto|exact Hne].
Qed.
Lemma nodup_adel {V} k (m : amap V) : NoDup (keys m) -> NoDup (keys (adel k m)).
Proof.
  unfold keys. induction m as [|[k0 v] m IH]; intros Hn; [constructor|]. rewrite adel_cons.
  inversion Hn; subst. destruct (beq k k0); [apply IH; assumption|].
  simpl. constructor; [|apply IH; assumption].
  intros X. apply (In_keys_adel k0 k m) in X. destruct X as [X _]. contradiction.
Qed.
Lemma nodup_aput {V} k v (m : amap V) : NoDup (keys m) -> NoDup (keys (aput k v m)).
Proof.
  intros Hn. unfold aput, keys. simpl. constructor; [|apply nodup_adel; exact Hn].
  intros X. apply (In_keys_adel k k m) in X. destruct X as [_ X]. contradiction.
Qed.
Lemma aget_notin {V} k (m : amap V) : ~ In k (keys m) -> aget k m = None.
Proof.
  induction m as [|[k0 v] m IH]; intros Hn; [reflexivity|]. cbn [aget].
  destruct (beq k k0) eqn:E; [apply beq_eq in E; subst; exfalso; apply Hn; left; reflexivity|].
  apply IH. intros X. apply Hn. right. exact X.
Qed.

(* exact counting under NoDup keys *)
Lemma cntn_split p k (m : amap nreq) v :
  NoDup (keys m) -> aget k m = Some v ->
  cntn p m = ((if is_par p v then 1 else 0) + cntn p (adel k m))%nat.
Proof.
  induction m as [|[k0 v0] m IH]; intros Hn E; [discriminate|]. cbn [aget] in E. rewrite adel_cons.
  inversion Hn; subst. destruct (beq k k0) eqn:Eb.
  - inversion E; subst. apply beq_eq in Eb. subst k0. rewrite cntn_cons.
    rewrite (adel_absent k m (aget_notin _ _ H1)). reflexivity.
  - rewrite !cntn_cons. rewrite (IH H2 E). lia.
Qed.
Lemma cntn_aput_fresh p k v (m : amap nreq) :
  aget k m = None -> cntn p (aput k v m) = ((if is_par p v then 1 else 0) + cntn p m)%nat.
Proof. intros E. unfold aput. rewrite cntn_cons, (adel_absent k m E). reflexivity. Qed.
Lemma cntn_aput_inplace p k v v' (m : amap nreq) :
  NoDup (keys m) -> aget k m = Some v -> nr_parent v' = nr_parent v -> cntn p (aput k v' m) = cntn p m.
Proof.
  intros Hn E Hp. unfold aput. rewrite cntn_cons, (cntn_split p k m v Hn E). unfold is_par. rewrite Hp. reflexivity.
Qed.
Lemma cntc_split p k (m : amap creq) c :
  NoDup (keys m) -> aget k m = Some c -> cntc p m = (occ p (cr_parents c) + cntc p (adel k m))%nat.
Proof.
  induction m as [|[k0 v0] m IH]; intros Hn E; [discriminate|]. cbn [aget] in E. rewrite adel_cons.
  inversion Hn; subst. destruct (beq k k0) eqn:Eb.
  - inversion E; subst. apply beq_eq in Eb. subst k0. rewrite cntc_cons.
    rewrite (adel_absent k m (aget_notin _ _ H1)). reflexivity.
  - rewrite !cntc_cons. rewrite (IH H2 E). lia.
Qed.
Lemma cntc_aput_fresh p k c (m : amap creq) :
  aget k m = None -> cntc p (aput k c m) = (occ p (cr_parents c) + cntc p m)%nat.
Proof. intros E. unfold aput. rewrite cntc_cons, (adel_absent k m E). reflexivity. Qed.
Lemma cntc_aput_inplace p k c c' (m : amap creq) :
  NoDup (keys m) -> aget k m = Some c -> cntc p (aput k c' m) = (cntc p m + occ p (cr_parents c') - occ p (cr_parents c))%nat.
Proof.
  intros Hn E. unfold aput. rewrite cntc_cons, (cntc_split p k m c Hn E). lia.
Qed.

Record live (e : option (list N)) (f : list N -> nat) (s : sync) : Prop := {
  lv_nn : NoDup (keys (nreqs s));
  lv_nc : NoDup (keys (creqs s));
  lv_ub : forall p r, aget p (nreqs s) = Some r ->
    (nr_deps r <= Z.of_nat (cntn p (nreqs s) + cntc p (creqs s) + f p))%Z;
  lv_len : forall k rc q, In (k, rc) (nreqs s) -> nr_parent rc = Some q -> (length q < length k)%nat;
  lv_pos : forall p r d, Some p <> e -> aget p (nreqs s) = Some r -> nr_data r = Some d -> (0 < nr_deps r)%Z }.

Definition fplus (f : list N -> nat) (p : list N) (n : nat) (q : list N) : nat := (f q + fp p n q)%nat.

Lemma aget_has_key {V} k (m : amap V) v : aget k m = Some v -> In k (keys m).
Proof. intros E. apply aget_In in E. unfold keys. apply in_map_iff. exists (k, v). auto. Qed.

(* in-place update of request k keeping parent and data *)
Lemma live_upd e f f' s k r r' :
  live e f s -> aget k (nreqs s) = Some r ->
  nr_parent r' = nr_parent r -> (Some k <> e -> nr_data r' = nr_data r) ->
  (nr_deps r' <= Z.of_nat (cntn k (nreqs s) + cntc k (creqs s) + f' k))%Z ->
  (forall q, q <> k -> (f q <= f' q)%nat) ->
  (Some k <> e -> forall d, nr_data r = Some d -> (0 < nr_deps r')%Z) ->
  live e f' (set_nreqs s (aput k r' (nreqs s))).
Proof.
  intros [NN NC UB LE PO] Hk Hp Hd Hu Hf Hpos. constructor; ssimpl.
  - apply nodup_aput. exact NN.
  - exact NC.
  - intros p x. rewrite aget_aput. rewrite (cntn_aput_inplace p k r r' (nreqs s) NN Hk Hp).
    destruct (beq p k) eqn:Eq.
    + apply beq_eq in Eq. subst p. intros X; inversion X; subst x. exact Hu.
    + intros X. specialize (UB p x X). assert (p <> k) by (intros ->; rewrite beq_refl in Eq; discriminate).
      specialize (Hf p H). lia.
  - intros k1 rc q Hin Hq. apply In_aput in Hin. destruct Hin as [X|[X _]].
    + inversion X; subst. rewrite Hp in Hq. eapply LE; [apply aget_In; exact Hk|exact Hq].
    + eapply LE; eauto.
  - intros p x d Hne. rewrite aget_aput. destruct (beq p k) eqn:Eq.
    + apply beq_eq in Eq. subst p. intros X D; inversion X; subst x. rewrite (Hd Hne) in D. eapply Hpos; eauto.
    + intros X D. eapply PO; eauto.
Qed.

(* scheduling a fresh request under parent p *)
Lemma live_sched e f s cp r p :
  live e (fplus f p 1) s -> aget cp (nreqs s) = None ->
  nr_data r = None -> nr_deps r = 0%Z -> nr_parent r = Some p -> (length p < length cp)%nat ->
  live e f (schedule_node s cp r).
Proof.
  intros [NN NC UB LE PO] Hf Hd Hz Hp Hl. unfold schedule_node. constructor; ssimpl.
  - apply nodup_aput. exact NN.
  - exact NC.
  - intros q x. rewrite aget_aput, (cntn_aput_fresh q cp r (nreqs s) Hf).
    destruct (beq q cp) eqn:Eq.
    + intros X; inversion X; subst x. rewrite Hz. lia.
    + intros X. specialize (UB q x X). unfold fplus, fp, is_par in *. rewrite Hp. rewrite (beq_sym p q).
      destruct (beq q p); lia.
  - intros k1 rc q Hin Hq. apply In_aput in Hin. destruct Hin as [X|[X _]].
    + inversion X; subst. rewrite Hp in Hq. inversion Hq; subst. exact Hl.
    + eapply LE; eauto.
  - intros q x d Hne. rewrite aget_aput. destruct (beq q cp) eqn:Eq.
    + intros X D; inversion X; subst x. congruence.
    + intros X D. eapply PO; eauto.
Qed.

Lemma live_sched_code e f s h p path :
  live e (fplus f p 1) s -> live e f (schedule_code s h (mkCreq path None [p])).
Proof.
  intros [NN NC UB LE PO]. unfold schedule_code.
  destruct (aget h (creqs s)) as [old|] eqn:Eo; constructor; ssimpl; auto.
  - apply nodup_aput. exact NC.
  - intros q x X. specialize (UB q x X).
    rewrite (cntc_aput_inplace q h old _ (creqs s) NC Eo). cbn [cr_parents]. rewrite occ_app. cbn [occ].
    unfold fplus, fp in UB. rewrite (beq_sym p q). destruct (beq q p); lia.
  - apply nodup_aput. exact NC.
  - intros q x X. specialize (UB q x X).
    rewrite (cntc_aput_fresh q h _ (creqs s) Eo). cbn [cr_parents occ].
    unfold fplus, fp in UB. rewrite (beq_sym p q). destruct (beq q p); lia.
Qed.

Lemma live_weaken e f f' s : live e f s -> (forall q, (f q <= f' q)%nat) -> live e f' s.
Proof.
  intros [NN NC UB LE PO] Hf. constructor; auto. intros p r E. specialize (UB p r E). specialize (Hf p). lia.
Qed.
Lemma live_ext_f e f f' s : live e f s -> (forall q, f q = f' q) -> live e f' s.
Proof. intros L Hf. eapply live_weaken; [exact L|]. intros q. rewrite Hf. lia. Qed.

Lemma live_exempt p f s : live None f s -> live (Some p) f s.
Proof. intros [NN NC UB LE PO]. constructor; auto. intros q r d _. apply PO. discriminate. Qed.
Lemma live_unexempt p f s :
  live (Some p) f s -> (forall r d, aget p (nreqs s) = Some r -> nr_data r = Some d -> (0 < nr_deps r)%Z) ->
  live None f s.
Proof.
  intros [NN NC UB LE PO] Hp. constructor; auto. intros q r d _ E D.
  destruct (list_eq_dec N.eq_dec q p) as [->|Hne]; [eapply Hp; eauto|]. eapply PO; eauto. congruence.
Qed.

(* Sync.commitNodeRequest with its cascade *)
Lemma live_cnr : forall fuel s x f,
  live (Some x) f s -> (forall r, aget x (nreqs s) = Some r -> nr_deps r = 0%Z) ->
  snd (commit_node_request fuel s x) = ROk ->
  live None f (fst (commit_node_request fuel s x)).
Proof.
  induction fuel as [|fu IH]; intros s x f L Hz; [discriminate|]. cbn [commit_node_request].
  destruct (aget x (nreqs s)) as [r|] eqn:Ex; [|discriminate].
  destruct (resolve_path x) as [[owner inner]|]; [|discriminate].
  set (blob := match nr_data r with Some b => b | None => [] end).
  set (s2 := set_fetches _ _).
  pose proof L as [NN NC UB LE PO].
  assert (N2 : nreqs s2 = adel x (nreqs s)) by reflexivity.
  assert (C2 : creqs s2 = creqs s) by reflexivity.
  assert (L2 : live None (fun q => (f q + (if is_par q r then 1 else 0))%nat) s2).
  { constructor; rewrite ?N2, ?C2.
    - apply nodup_adel. exact NN.
    - exact NC.
    - intros q y. rewrite aget_adel. destruct (beq q x) eqn:Eq; [discriminate|]. intros E.
      specialize (UB q y E). rewrite (cntn_split q x (nreqs s) r NN Ex) in UB. lia.
    - intros k rc q Hin Hq. apply In_adel in Hin. destruct Hin as [Hin _]. eapply LE; eauto.
    - intros q y d _. rewrite aget_adel. destruct (beq q x) eqn:Eq; [discriminate|]. intros E D.
      eapply PO; eauto. intros X. inversion X; subst. rewrite beq_refl in Eq. discriminate. }
  destruct (nr_parent r) as [pp|] eqn:Ep.
  - destruct (aget pp (nreqs s2)) as [rp|] eqn:Epp; [|discriminate].
    set (rp' := mkNreq (nr_hash rp) (nr_data rp) (nr_parent rp) (nr_deps rp - 1) (nr_cb rp)).
    set (s3 := set_nreqs s2 (aput pp rp' (nreqs s2))).
    assert (L3 : live (Some pp) f s3).
    { unfold s3. eapply (live_upd (Some pp) _ f s2 pp rp rp'); [apply live_exempt; exact L2|exact Epp|reflexivity|intros _; reflexivity| | |].
      - pose proof (lv_ub _ _ _ L2 pp rp Epp) as U. cbn beta in U. unfold is_par in U. rewrite Ep, beq_refl in U.
        unfold rp'; cbn [nr_deps]. lia.
      - intros q Hq. unfold is_par. rewrite Ep. destruct (beq pp q) eqn:E; [apply beq_eq in E; congruence|lia].
      - intros X. contradiction X. reflexivity. }
    destruct (Z.eqb (nr_deps rp - 1) 0) eqn:Ed.
    + apply Z.eqb_eq in Ed. apply IH; [exact L3|].
      intros y. unfold s3; ssimpl. rewrite aget_aput, beq_refl. intros X; inversion X; subst y. exact Ed.
    + intros _. cbn [fst]. apply (live_unexempt pp); [exact L3|].
      intros y d. unfold s3; ssimpl. rewrite aget_aput, beq_refl. intros X D; inversion X; subst y.
      unfold rp' in *; cbn [nr_deps nr_data] in *.
      pose proof (lv_pos _ _ _ L2 pp rp d ltac:(discriminate) Epp D). apply Z.eqb_neq in Ed. lia.
  - intros _. cbn [fst]. eapply live_ext_f; [exact L2|]. intros q. unfold is_par. rewrite Ep. lia.
Qed.

Lemma live_same e f s s' : nreqs s' = nreqs s -> creqs s' = creqs s -> live e f s -> live e f s'.
Proof. intros E1 E2 [NN NC UB LE PO]. constructor; rewrite ?E1, ?E2; auto. Qed.

Lemma child_list_prefix p n cl : child_list p n = Some cl -> forall cp cn, In (cp, cn) cl -> exists x, cp = p ++ x.
Proof.
  destruct n; simpl; try discriminate; intros X; inversion X; subst; intros cp cn Hin.
  - destruct Hin as [Y|[]]. inversion Y; subst. eauto.
  - destruct (full_children_in _ _ _ _ _ Hin) as (j & -> & _). eauto.
Qed.

Lemma prefix_longer {A} (p x : list A) cp : cp = p ++ x -> cp <> p -> (length p < length cp)%nat.
Proof.
  intros -> Hne. rewrite app_length. destruct x; [rewrite app_nil_r in Hne; contradiction|simpl; lia].
Qed.

Section Live.
  Variable H : list N -> list N.

  Definition pend_p (s : sync) (p : list N) : Prop := aget p (nreqs s) <> None.

  Lemma live_bump p s s2 :
    live (Some p) zero s -> bump_deps s p 1 = Some s2 ->
    live (Some p) (fplus zero p 1) s2 /\ pend_p s2 p /\ (forall q, aget q (nreqs s) = None -> q <> p -> aget q (nreqs s2) = None).
  Proof.
    intros L E. unfold bump_deps in E. destruct (aget p (nreqs s)) as [rp|] eqn:Ep; [|discriminate].
    inversion E; subst s2. clear E. split; [|split].
    - eapply (live_upd (Some p) zero); [exact L|exact Ep|reflexivity|intros X; contradiction X; reflexivity| | |].
      + pose proof (lv_ub _ _ _ L p rp Ep) as U. cbn [nr_deps]. unfold fplus, fp, zero in *. rewrite beq_refl. lia.
      + intros q _. unfold fplus, zero. lia.
      + intros X. contradiction X. reflexivity.
    - unfold pend_p; ssimpl. rewrite aget_aput, beq_refl. discriminate.
    - intros q Eq Hne. ssimpl. rewrite aget_aput. destruct (beq q p) eqn:Eb; [apply beq_eq in Eb; contradiction|exact Eq].
  Qed.

  Lemma live_add_sub_trie p s rt cpath parent cb :
    live (Some p) zero s -> pend_p s p -> (exists x, cpath = p ++ x) -> parent <> zero32 ->
    match add_sub_trie H s rt cpath parent p cb with
    | inl _ => True
    | inr s' => live (Some p) zero s' /\ pend_p s' p
    end.
  Proof.
    intros L Pp (x & Hx) Hpar. unfold add_sub_trie.
    destruct (beq rt (empty_root H)); [auto|].
    destruct (resolve_path cpath) as [[owner inner]|]; [|exact Logic.I].
    destruct (has_node H s owner inner rt) as [ex inc]. destruct ex; [auto|].
    set (s1 := if inc then mb_del_node s owner inner else s).
    assert (N1 : nreqs s1 = nreqs s /\ creqs s1 = creqs s).
    { unfold s1, mb_del_node. destruct inc; [destruct (sc_path s)|]; split; reflexivity. }
    destruct N1 as [N1 C1].
    assert (L1 : live (Some p) zero s1) by (eapply live_same; eauto).
    assert (P1 : pend_p s1 p) by (unfold pend_p; rewrite N1; exact Pp).
    destruct (aget cpath (nreqs s1)) eqn:Ef; [exact Logic.I|].
    assert (Ez : negb (beq parent zero32) = true).
    { destruct (beq parent zero32) eqn:E; [apply beq_eq in E; contradiction|reflexivity]. }
    rewrite Ez. destruct (bump_deps s1 p 1) as [s2|] eqn:Eb; [|exact Logic.I].
    destruct (live_bump p s1 s2 L1 Eb) as (L2 & P2 & Fr).
    assert (Hne : cpath <> p) by (intros ->; apply P1; exact Ef).
    split.
    - eapply live_sched; [exact L2|apply Fr; assumption|reflexivity|reflexivity|reflexivity|].
      eapply prefix_longer; eauto.
    - unfold pend_p, schedule_node; ssimpl. rewrite aget_aput. destruct (beq p cpath); [discriminate|exact P2].
  Qed.

  Lemma live_add_code_entry p s h cpath parent :
    live (Some p) zero s -> pend_p s p -> parent <> zero32 ->
    match add_code_entry H s h cpath parent p with
    | inl _ => True
    | inr s' => live (Some p) zero s' /\ pend_p s' p
    end.
  Proof.
    intros L Pp Hpar. unfold add_code_entry.
    destruct (beq h (empty_code H)); [auto|]. destruct (has h (mb_codes s)); [auto|].
    destruct (has (code_key h) (sc_db s)); [auto|].
    assert (Ez : negb (beq parent zero32) = true).
    { destruct (beq parent zero32) eqn:E; [apply beq_eq in E; contradiction|reflexivity]. }
    rewrite Ez. destruct (bump_deps s p 1) as [s2|] eqn:Eb; [|exact Logic.I].
    destruct (live_bump p s s2 L Eb) as (L2 & P2 & _).
    split; [apply live_sched_code; exact L2|].
    unfold pend_p, schedule_code. destruct (aget h (creqs s2)); exact P2.
  Qed.

  Lemma live_on_account p s cpath leaf hp :
    live (Some p) zero s -> pend_p s p -> (exists x, cpath = p ++ x) -> hp <> zero32 ->
    snd (on_account H s cpath leaf hp p) = ROk ->
    live (Some p) zero (fst (on_account H s cpath leaf hp p)) /\ pend_p (fst (on_account H s cpath leaf hp p)) p.
  Proof.
    intros L Pp Hx Hz. unfold on_account. destruct (dec_account leaf) as [[sroot ch]|]; [|discriminate].
    pose proof (live_add_sub_trie p s sroot cpath hp CbNone L Pp Hx Hz) as A.
    destruct (add_sub_trie H s sroot cpath hp p CbNone) as [s1|s1]; [discriminate|]. destruct A as [L1 P1].
    pose proof (live_add_code_entry p s1 (bytes_to_hash ch) cpath hp L1 P1 Hz) as B.
    destruct (add_code_entry H s1 (bytes_to_hash ch) cpath hp p) as [s2|s2]; [discriminate|]. intros _. exact B.
  Qed.

  Definition kidform (p : list N) (cb : cbkind) (x : list N * nreq) : Prop :=
    exists cp h y, x = (cp, mkNreq h None (Some p) 0 cb) /\ cp = p ++ y.

  Lemma live_children_loop p hp cb : forall cl s acc,
    live (Some p) zero s -> pend_p s p -> (forall cp cn, In (cp, cn) cl -> exists x, cp = p ++ x) ->
    hp <> zero32 -> (forall x, In x acc -> kidform p cb x) ->
    snd (children_loop H s p hp cb cl acc) = ROk ->
    live (Some p) zero (fst (fst (children_loop H s p hp cb cl acc))) /\
    pend_p (fst (fst (children_loop H s p hp cb cl acc))) p /\
    (forall x, In x (snd (fst (children_loop H s p hp cb cl acc))) -> kidform p cb x).
  Proof.
    induction cl as [|[cpath cn] rest IH]; intros s acc L Pp Hpre Hz Hacc; cbn [children_loop]; [auto|].
    assert (Hpre' : forall cp cn0, In (cp, cn0) rest -> exists x, cp = p ++ x) by (intros; eapply Hpre; right; eauto).
    assert (Hhd : exists x, cpath = p ++ x) by (eapply Hpre; left; reflexivity).
    set (cbres := match cb with
                  | CbNone => (s, ROk)
                  | CbAccount => match cn with
                                 | NValue v => if callback_paths_ok cpath then on_account H s cpath v hp p else (s, RPanic)
                                 | _ => (s, ROk)
                                 end
                  end).
    assert (CB : snd cbres = ROk -> live (Some p) zero (fst cbres) /\ pend_p (fst cbres) p).
    { unfold cbres. destruct cb; [auto|]. destruct cn; auto.
      destruct (callback_paths_ok cpath); [|discriminate]. apply live_on_account; auto. }
    destruct cbres as [s1 rc]. cbn [fst snd] in CB.
    destruct rc; try (cbn [snd]; discriminate).
    destruct (CB eq_refl) as [L1 P1].
    destruct cn; try (apply IH; assumption).
    destruct (resolve_path cpath) as [[owner inner]|]; [|cbn [snd]; discriminate].
    destruct (has_node H s1 owner inner h) as [ex inc]. destruct ex; [apply IH; assumption|].
    set (s2 := if inc then mb_del_node s1 owner inner else s1).
    assert (N2 : nreqs s2 = nreqs s1 /\ creqs s2 = creqs s1).
    { unfold s2, mb_del_node. destruct inc; [destruct (sc_path s1)|]; split; reflexivity. }
    destruct N2 as [N2 C2].
    apply IH; auto.
    - eapply live_same; eauto.
    - unfold pend_p. rewrite N2. exact P1.
    - intros x [X|X]; [|apply Hacc; exact X]. destruct Hhd as [y Hy]. exists cpath, h, y. auto.
  Qed.

  Lemma live_schedule_all p cb : forall reqs s s',
    live (Some p) (fplus zero p (length reqs)) s -> pend_p s p ->
    (forall x, In x reqs -> kidform p cb x) ->
    schedule_all s reqs = Some s' ->
    live (Some p) zero s' /\ pend_p s' p.
  Proof.
    induction reqs as [|[cp r] rest IH]; intros s s' L Pp Hk E; cbn [schedule_all] in E.
    - inversion E; subst. split; [|exact Pp]. eapply live_ext_f; [exact L|]. intros q. unfold fplus, fp, zero. destruct (beq q p); reflexivity.
    - destruct (aget cp (nreqs s)) eqn:Ef; [discriminate|].
      destruct (Hk (cp, r) (or_introl eq_refl)) as (cp' & h & y & X & Hy). inversion X; subst cp' r.
      assert (Hne : cp <> p) by (intros ->; apply Pp; exact Ef).
      apply (IH (schedule_node s cp (mkNreq h None (Some p) 0 cb)) s'); auto.
      + eapply live_sched; [|exact Ef|reflexivity|reflexivity|reflexivity|eapply prefix_longer; eauto].
        eapply live_ext_f; [exact L|]. intros q. unfold fplus, fp, zero. simpl. destruct (beq q p); lia.
      + unfold pend_p, schedule_node; ssimpl. rewrite aget_aput. destruct (beq p cp); [discriminate|exact Pp].
      + intros x Hx. apply Hk. right. exact Hx.
  Qed.

  (* the entry of the request p being expanded is kept, its deps only grow *)
  Definition keep (p : list N) (s s' : sync) : Prop :=
    forall r, aget p (nreqs s) = Some r ->
      exists r', aget p (nreqs s') = Some r' /\ (nr_deps r <= nr_deps r')%Z /\ nr_data r' = nr_data r.
  Lemma keep_refl p s : keep p s s.
  Proof. intros r E. exists r. split; [exact E|split; [lia|reflexivity]]. Qed.
  Lemma keep_trans p a b c : keep p a b -> keep p b c -> keep p a c.
  Proof.
    intros K1 K2 r E. destruct (K1 r E) as (r1 & E1 & D1 & X1). destruct (K2 r1 E1) as (r2 & E2 & D2 & X2).
    exists r2. split; [exact E2|split; [lia|congruence]].
  Qed.
  Lemma keep_same p s s' : nreqs s' = nreqs s -> keep p s s'.
  Proof. intros E r Er. exists r. rewrite E. split; [exact Er|split; [lia|reflexivity]]. Qed.
  Lemma keep_bump p s s2 : bump_deps s p 1 = Some s2 -> keep p s s2.
  Proof.
    unfold bump_deps. destruct (aget p (nreqs s)) as [rp|] eqn:Ep; [|discriminate].
    intros X; inversion X; subst. intros r E. rewrite Ep in E. inversion E; subst r.
    eexists. ssimpl. rewrite aget_aput, beq_refl. split; [reflexivity|]. simpl. split; [lia|reflexivity].
  Qed.
  Lemma keep_sched p s cp r : aget cp (nreqs s) = None -> keep p s (schedule_node s cp r).
  Proof.
    intros Hf r0 E. exists r0. unfold schedule_node; ssimpl. rewrite aget_aput.
    destruct (beq p cp) eqn:Eb; [apply beq_eq in Eb; subst; congruence|]. split; [exact E|split; [lia|reflexivity]].
  Qed.
  Lemma keep_sched_code p s h c : keep p s (schedule_code s h c).
  Proof. apply keep_same. unfold schedule_code. destruct (aget h (creqs s)); reflexivity. Qed.
  Lemma keep_mb_del p s o q : keep p s (mb_del_node s o q).
  Proof. apply keep_same. unfold mb_del_node. destruct (sc_path s); reflexivity. Qed.

  Lemma keep_add_sub_trie p s rt cpath parent cb :
    keep p s (match add_sub_trie H s rt cpath parent p cb with inl x => x | inr x => x end).
  Proof.
    unfold add_sub_trie. destruct (beq rt (empty_root H)); [apply keep_refl|].
    destruct (resolve_path cpath) as [[owner inner]|]; [|apply keep_refl].
    destruct (has_node H s owner inner rt) as [ex inc]. destruct ex; [apply keep_refl|].
    set (s1 := if inc then mb_del_node s owner inner else s).
    assert (K1 : keep p s s1) by (unfold s1; destruct inc; [apply keep_mb_del|apply keep_refl]).
    destruct (aget cpath (nreqs s1)) eqn:Ef; [exact K1|].
    destruct (negb (beq parent zero32)).
    - destruct (bump_deps s1 p 1) as [s2|] eqn:Eb; [|exact K1].
      eapply keep_trans; [exact K1|]. eapply keep_trans; [eapply keep_bump; eauto|].
      apply keep_sched. unfold bump_deps in Eb. destruct (aget p (nreqs s1)) eqn:Ep; [|discriminate].
      inversion Eb; subst. ssimpl. rewrite aget_aput. destruct (beq cpath p) eqn:E; [apply beq_eq in E; subst; congruence|exact Ef].
    - eapply keep_trans; [exact K1|apply keep_sched; exact Ef].
  Qed.
  Lemma keep_add_code_entry p s h cpath parent :
    keep p s (match add_code_entry H s h cpath parent p with inl x => x | inr x => x end).
  Proof.
    unfold add_code_entry. destruct (beq h (empty_code H)); [apply keep_refl|].
    destruct (has h (mb_codes s)); [apply keep_refl|]. destruct (has (code_key h) (sc_db s)); [apply keep_refl|].
    destruct (negb (beq parent zero32)).
    - destruct (bump_deps s p 1) as [s2|] eqn:Eb; [|apply keep_refl].
      eapply keep_trans; [eapply keep_bump; eauto|apply keep_sched_code].
    - apply keep_sched_code.
  Qed.
  Lemma keep_on_account p s cpath leaf hp : keep p s (fst (on_account H s cpath leaf hp p)).
  Proof.
    unfold on_account. destruct (dec_account leaf) as [[sroot ch]|]; [|apply keep_refl].
    pose proof (keep_add_sub_trie p s sroot cpath hp CbNone) as K1.
    destruct (add_sub_trie H s sroot cpath hp p CbNone) as [s1|s1]; [exact K1|].
    pose proof (keep_add_code_entry p s1 (bytes_to_hash ch) cpath hp) as K2.
    destruct (add_code_entry H s1 (bytes_to_hash ch) cpath hp p) as [s2|s2]; (eapply keep_trans; eauto).
  Qed.
  Lemma keep_children_loop p hp cb : forall cl s acc,
    keep p s (fst (fst (children_loop H s p hp cb cl acc))).
  Proof.
    induction cl as [|[cpath cn] rest IH]; intros s acc; cbn [children_loop]; [apply keep_refl|].
    set (cbres := match cb with
                  | CbNone => (s, ROk)
                  | CbAccount => match cn with
                                 | NValue v => if callback_paths_ok cpath then on_account H s cpath v hp p else (s, RPanic)
                                 | _ => (s, ROk)
                                 end
                  end).
    assert (K1 : keep p s (fst cbres)).
    { unfold cbres. destruct cb; [apply keep_refl|]. destruct cn; try apply keep_refl.
      destruct (callback_paths_ok cpath); [apply keep_on_account|apply keep_refl]. }
    destruct cbres as [s1 rc]. cbn [fst] in K1.
    destruct rc; try exact K1.
    destruct cn; try (eapply keep_trans; [exact K1|apply IH]).
    destruct (resolve_path cpath) as [[owner inner]|]; [|exact K1].
    destruct (has_node H s1 owner inner h) as [ex inc].
    destruct ex; [eapply keep_trans; [exact K1|apply IH]|].
    eapply keep_trans; [exact K1|]. eapply keep_trans; [|apply IH].
    destruct inc; [apply keep_mb_del|apply keep_refl].
  Qed.
  Lemma keep_schedule_all p : forall reqs s s', schedule_all s reqs = Some s' -> keep p s s'.
  Proof.
    induction reqs as [|[cp r] rest IH]; intros s s' E; cbn [schedule_all] in E; [inversion E; apply keep_refl|].
    destruct (aget cp (nreqs s)) eqn:Ef; [discriminate|].
    eapply keep_trans; [apply keep_sched; exact Ef|apply IH; exact E].
  Qed.
  Lemma dangling_reqs : forall n s owner inner key i,
    nreqs (dangling s owner inner key i n) = nreqs s /\ creqs (dangling s owner inner key i n) = creqs s.
  Proof.
    induction n as [|n IH]; intros s owner inner key i; cbn [dangling]; [split; reflexivity|].
    destruct (IH (if has (node_key owner (inner ++ firstn i key)) (sc_db s) then mb_del_node s owner (inner ++ firstn i key) else s) owner inner key (S i)) as [A B].
    rewrite A, B. destruct (has _ (sc_db s)); [unfold mb_del_node; destruct (sc_path s)|]; split; reflexivity.
  Qed.

  Lemma live_process_node s path data :
    live None zero s ->
    (forall r, aget path (nreqs s) = Some r -> (0 <= nr_deps r)%Z /\ nr_hash r <> zero32) ->
    snd (process_node H s path data) = ROk ->
    live None zero (fst (process_node H s path data)).
  Proof.
    intros L Hr. unfold process_node.
    destruct (aget path (nreqs s)) as [r|] eqn:Er; [|discriminate].
    destruct (nr_data r) eqn:Edata; [discriminate|].
    destruct (decode_node data) as [n|] eqn:Edec; [|discriminate].
    destruct (Hr _ eq_refl) as [Hnn Hz].
    set (r1 := mkNreq (nr_hash r) (Some data) (nr_parent r) (nr_deps r) (nr_cb r)).
    set (s1 := set_nreqs s (aput path r1 (nreqs s))).
    assert (L1 : live (Some path) zero s1).
    { unfold s1. eapply (live_upd (Some path) zero zero); [apply live_exempt; exact L|exact Er|reflexivity| | | |].
      - intros X. contradiction X. reflexivity.
      - exact (lv_ub _ _ _ L path r Er).
      - intros q _. lia.
      - intros X. contradiction X. reflexivity. }
    assert (E1 : aget path (nreqs s1) = Some r1) by (unfold s1; ssimpl; rewrite aget_aput, beq_refl; reflexivity).
    clearbody s1.
    unfold children. destruct (child_list path n) as [cl|] eqn:Ecl; [|discriminate].
    set (s1o := match n with
                | NShort k (NHash _) =>
                    if sc_path s1 then
                      match resolve_path path with
                      | Some (owner, inner) => Some (dangling s1 owner inner (short_key k) 1 (length (short_key k) - 1))
                      | None => None
                      end
                    else Some s1
                | _ => Some s1
                end).
    assert (S1o : match s1o with Some x => nreqs x = nreqs s1 /\ creqs x = creqs s1 | None => True end).
    { unfold s1o. destruct n; try (split; reflexivity). destruct n; try (split; reflexivity).
      destruct (sc_path s1); [|split; reflexivity].
      destruct (resolve_path path) as [[owner inner]|]; [apply dangling_reqs|exact Logic.I]. }
    destruct s1o as [s1'|]; [|discriminate]. destruct S1o as [N1 C1].
    assert (L1' : live (Some path) zero s1') by (eapply live_same; eauto).
    assert (E1' : aget path (nreqs s1') = Some r1) by (rewrite N1; exact E1).
    pose proof (live_children_loop path (nr_hash r) (nr_cb r) cl s1' [] L1'
                  ltac:(unfold pend_p; rewrite E1'; discriminate) (child_list_prefix _ _ _ Ecl) Hz
                  ltac:(intros x []) ) as CL.
    pose proof (keep_children_loop path (nr_hash r) (nr_cb r) cl s1' []) as KP.
    destruct (children_loop H s1' path (nr_hash r) (nr_cb r) cl []) as [[s2 reqs] rc]. cbn [fst snd] in CL, KP.
    destruct rc; try discriminate.
    destruct (CL eq_refl) as (L2 & P2 & K2). clear CL.
    destruct (KP _ E1') as (r2 & E2 & D2 & X2). unfold r1 in D2, X2. cbn [nr_deps nr_data] in D2, X2.
    rewrite E2.
    destruct (Nat.eqb (length reqs) 0 && Z.eqb (nr_deps r2) 0) eqn:Ecase.
    - apply andb_prop in Ecase. destruct Ecase as [_ Ez]. apply Z.eqb_eq in Ez.
      apply live_cnr; [exact L2|]. intros y Ey. rewrite E2 in Ey. inversion Ey; subst. exact Ez.
    - set (r3 := mkNreq (nr_hash r2) (nr_data r2) (nr_parent r2) (nr_deps r2 + Z.of_nat (length reqs)) (nr_cb r2)).
      set (s3 := set_nreqs s2 (aput path r3 (nreqs s2))).
      destruct (schedule_all s3 (rev reqs)) as [s4|] eqn:Esa; [|discriminate].
      intros _. cbn [fst].
      assert (L3 : live (Some path) (fplus zero path (length (rev reqs))) s3).
      { unfold s3. eapply (live_upd (Some path) zero); [exact L2|exact E2|reflexivity|intros _; reflexivity| | |].
        - pose proof (lv_ub _ _ _ L2 path r2 E2) as U. unfold r3; cbn [nr_deps]. rewrite rev_length.
          unfold fplus, fp, zero in *. rewrite beq_refl. lia.
        - intros q _. unfold fplus, zero. lia.
        - intros X. contradiction X. reflexivity. }
      assert (E3 : aget path (nreqs s3) = Some r3) by (unfold s3; ssimpl; rewrite aget_aput, beq_refl; reflexivity).
      destruct (live_schedule_all path (nr_cb r) (rev reqs) s3 s4 L3) as [L4 P4]; auto.
      { unfold pend_p. rewrite E3. discriminate. }
      { intros x Hx. apply K2. apply in_rev. exact Hx. }
      apply (live_unexempt path); [exact L4|].
      intros y d Ey Dy. destruct (keep_schedule_all path _ _ _ Esa _ E3) as (r4 & E4 & D4 & X4).
      rewrite E4 in Ey. inversion Ey; subst y. unfold r3 in D4; cbn [nr_deps] in D4.
      apply andb_false_iff in Ecase. destruct Ecase as [Ec|Ec].
      + apply Nat.eqb_neq in Ec. lia.
      + apply Z.eqb_neq in Ec. lia.
  Qed.

  Lemma live_remove_code s h c data fe f :
    live None f s -> aget h (creqs s) = Some c ->
    live None (fun q => (f q + occ q (cr_parents c))%nat)
         (set_fetches (set_creqs (mb_add_code s h data) (adel h (creqs (mb_add_code s h data)))) fe).
  Proof.
    intros [NN NC UB LE PO] Hc. unfold mb_add_code. constructor; ssimpl; auto.
    - apply nodup_adel. exact NC.
    - intros q y E. specialize (UB q y E). rewrite (cntc_split q h (creqs s) c NC Hc) in UB. lia.
  Qed.

  Lemma live_ccp : forall parents s f,
    live None (fun q => (f q + occ q parents)%nat) s ->
    snd (commit_code_parents s parents) = ROk ->
    live None f (fst (commit_code_parents s parents)).
  Proof.
    induction parents as [|pp rest IH]; intros s f L; cbn [commit_code_parents].
    - intros _. cbn [fst]. eapply live_ext_f; [exact L|]. intros q. simpl. lia.
    - destruct (aget pp (nreqs s)) as [rp|] eqn:Ep; [|discriminate].
      set (rp' := mkNreq (nr_hash rp) (nr_data rp) (nr_parent rp) (nr_deps rp - 1) (nr_cb rp)).
      set (s1 := set_nreqs s (aput pp rp' (nreqs s))).
      assert (L1 : live (Some pp) (fun q => (f q + occ q rest)%nat) s1).
      { unfold s1. eapply (live_upd (Some pp) _ _ s pp rp rp'); [apply live_exempt; exact L|exact Ep|reflexivity|intros _; reflexivity| | |].
        - pose proof (lv_ub _ _ _ L pp rp Ep) as U. cbn beta in U. cbn [occ] in U. rewrite beq_refl in U.
          unfold rp'; cbn [nr_deps]. lia.
        - intros q Hq. cbn [occ]. destruct (beq pp q) eqn:E; [apply beq_eq in E; congruence|lia].
        - intros X. contradiction X. reflexivity. }
      destruct (Z.eqb (nr_deps rp - 1) 0) eqn:Ed.
      + apply Z.eqb_eq in Ed.
        pose proof (live_cnr (cnr_fuel s1) s1 pp _ L1) as Cn.
        destruct (commit_node_request (cnr_fuel s1) s1 pp) as [s2 rc]. cbn [fst snd] in Cn.
        destruct rc; try discriminate. apply IH. apply Cn; [|reflexivity].
        intros y. unfold s1; ssimpl. rewrite aget_aput, beq_refl. intros X; inversion X; subst y. exact Ed.
      + apply IH. apply (live_unexempt pp); [exact L1|].
        intros y d. unfold s1; ssimpl. rewrite aget_aput, beq_refl. intros X D; inversion X; subst y.
        unfold rp' in *; cbn [nr_deps nr_data] in *.
        pose proof (lv_pos _ _ _ L pp rp d ltac:(discriminate) Ep D). apply Z.eqb_neq in Ed. lia.
  Qed.

  Lemma live_process_code s h data :
    live None zero s -> snd (process_code s h data) = ROk -> live None zero (fst (process_code s h data)).
  Proof.
    intros L. unfold process_code.
    destruct (aget h (creqs s)) as [c|] eqn:Ec; [|discriminate].
    destruct (cr_data c); [discriminate|].
    apply live_ccp. eapply live_ext_f; [eapply live_remove_code; eauto|]. intros q. unfold zero. reflexivity.
  Qed.

  (* ---- result classes ---- *)
  Definition hard (rc : rclass) : Prop := rc = ROk \/ rc = RInternal \/ rc = RPanic \/ rc = RCallback.

  Lemma cnr_rc : forall fuel s x, hard (snd (commit_node_request fuel s x)).
  Proof.
    induction fuel as [|fu IH]; intros s x; [right; left; reflexivity|]. cbn [commit_node_request].
    destruct (aget x (nreqs s)) as [r|]; [|right; left; reflexivity].
    destruct (resolve_path x) as [[o i]|]; [|right; right; left; reflexivity].
    destruct (nr_parent r) as [pp|]; [|left; reflexivity].
    match goal with |- context [aget pp ?m] => destruct (aget pp m) as [q|] end; [|right; left; reflexivity].
    destruct (Z.eqb (nr_deps q - 1) 0); [apply IH|left; reflexivity].
  Qed.
  Lemma ccp_rc : forall parents s, hard (snd (commit_code_parents s parents)).
  Proof.
    induction parents as [|pp rest IH]; intros s; cbn [commit_code_parents]; [left; reflexivity|].
    destruct (aget pp (nreqs s)) as [p|]; [|right; left; reflexivity].
    destruct (Z.eqb (nr_deps p - 1) 0); [|apply IH].
    pose proof (cnr_rc (cnr_fuel (set_nreqs s (aput pp (mkNreq (nr_hash p) (nr_data p) (nr_parent p) (nr_deps p - 1) (nr_cb p)) (nreqs s))))
                       (set_nreqs s (aput pp (mkNreq (nr_hash p) (nr_data p) (nr_parent p) (nr_deps p - 1) (nr_cb p)) (nreqs s))) pp) as R.
    destruct (commit_node_request _ _ pp) as [s2 rc]. cbn [snd] in R.
    destruct rc; try exact R; try apply IH; destruct R as [R|[R|[R|R]]]; discriminate R.
  Qed.
  Lemma children_loop_hard : forall cl s p hp cb acc, hard (snd (children_loop H s p hp cb cl acc)).
  Proof.
    induction cl as [|[cpath cn] rest IH]; intros s p hp cb acc; cbn [children_loop]; [left; reflexivity|].
    set (cbres := match cb with
                  | CbNone => (s, ROk)
                  | CbAccount => match cn with
                                 | NValue v => if callback_paths_ok cpath then on_account H s cpath v hp p else (s, RPanic)
                                 | _ => (s, ROk)
                                 end
                  end).
    assert (R : hard (snd cbres)).
    { unfold cbres. destruct cb; [left; reflexivity|]. destruct cn; try (left; reflexivity).
      destruct (callback_paths_ok cpath); [|right; right; left; reflexivity].
      unfold on_account. destruct (dec_account v) as [[sr ch]|]; [|right; right; right; reflexivity].
      destruct (add_sub_trie H s sr cpath hp p CbNone); [right; right; left; reflexivity|].
      destruct (add_code_entry H s0 (bytes_to_hash ch) cpath hp p); [right; right; left; reflexivity|left; reflexivity]. }
    destruct cbres as [s1 rc]. cbn [snd] in R.
    destruct rc; try (cbn [snd]; exact R).
    destruct cn; try apply IH.
    destruct (resolve_path cpath) as [[owner inner]|]; [|right; right; left; reflexivity].
    destruct (has_node H s1 owner inner h) as [ex inc]. destruct ex; apply IH.
  Qed.

  Lemma process_node_soft s path data :
    ~ hard (snd (process_node H s path data)) -> fst (process_node H s path data) = s.
  Proof.
    unfold process_node. destruct (aget path (nreqs s)) as [r|]; [|reflexivity].
    destruct (nr_data r); [reflexivity|]. destruct (decode_node data) as [n|]; [|reflexivity].
    intros Hn. exfalso. apply Hn. clear Hn.
    unfold children. destruct (child_list path n) as [cl|]; [|right; right; left; reflexivity].
    match goal with |- context [match ?o with Some s1 => _ | None => _ end] => destruct o as [s1'|] end;
      [|right; right; left; reflexivity].
    pose proof (children_loop_hard cl s1' path (nr_hash r) (nr_cb r) []) as R.
    destruct (children_loop H s1' path (nr_hash r) (nr_cb r) cl []) as [[s2 reqs] rc]. cbn [snd] in R.
    destruct rc; try exact R; try (destruct R as [R|[R|[R|R]]]; discriminate R).
    destruct (aget path (nreqs s2)) as [r2|]; [|right; left; reflexivity].
    destruct (Nat.eqb (length reqs) 0 && Z.eqb (nr_deps r2) 0); [apply cnr_rc|].
    destruct (schedule_all _ (rev reqs)); [left; reflexivity|right; left; reflexivity].
  Qed.
  Lemma process_code_soft s h data :
    ~ hard (snd (process_code s h data)) -> fst (process_code s h data) = s.
  Proof.
    unfold process_code. destruct (aget h (creqs s)) as [c|]; [|reflexivity].
    destruct (cr_data c); [reflexivity|]. intros Hn. exfalso. apply Hn. apply ccp_rc.
  Qed.
End Live.

(* ---------- all histories; no deadlock ---------- *)
From GV Require Import Trie.SyncInv Trie.SyncCallback Trie.SyncQueue.

Lemma In_aget_nodup {V} k (v : V) m : NoDup (keys m) -> In (k, v) m -> aget k m = Some v.
Proof.
  induction m as [|[k0 v0] m IH]; intros Hn Hin; [destruct Hin|]. inversion Hn; subst. cbn [aget].
  destruct Hin as [X|X].
  - inversion X; subst. rewrite beq_refl. reflexivity.
  - destruct (beq k k0) eqn:E; [|apply IH; assumption].
    apply beq_eq in E. subst k0. exfalso. apply H1. unfold keys. apply in_map_iff. exists (k, v). auto.
Qed.
Lemma cntn_pos_ex p (m : amap nreq) : (0 < cntn p m)%nat -> exists k r, In (k, r) m /\ nr_parent r = Some p.
Proof.
  induction m as [|[k0 v0] m IH]; [unfold cntn; simpl; lia|]. rewrite cntn_cons.
  destruct (is_par p v0) eqn:E.
  - intros _. exists k0, v0. split; [left; reflexivity|]. unfold is_par in E.
    destruct (nr_parent v0) as [q|]; [|discriminate]. apply beq_eq in E. subst. reflexivity.
  - intros Hp. destruct IH as (k & r & A & B); [lia|]. exists k, r. split; [right; exact A|exact B].
Qed.
Lemma max_len_ex {V} (m : amap V) : m <> [] ->
  exists k v, In (k, v) m /\ forall k' v', In (k', v') m -> (length k' <= length k)%nat.
Proof.
  induction m as [|[k0 v0] m IH]; [congruence|]. intros _. destruct m as [|kv m'].
  - exists k0, v0. split; [left; reflexivity|]. intros k' v' [X|[]]. inversion X; subst. lia.
  - destruct IH as (k & v & A & B); [discriminate|].
    destruct (le_lt_dec (length k0) (length k)).
    + exists k, v. split; [right; exact A|]. intros k' v' [X|X]; [inversion X; subst; lia|eapply B; eauto].
    + exists k0, v0. split; [left; reflexivity|]. intros k' v' [X|X]; [inversion X; subst; lia|].
      specialize (B _ _ X). lia.
Qed.

Section NoDeadlock.
  Variable H : list N -> list N.
  Variable T CD : list N -> option (list N).
  Variable root : list N.
  Variable cb0 : cbkind.
  Variable db0 : kv.
  Notation RN := (RN H T root cb0).
  Notation RC := (RC H T root cb0).
  Hypothesis Hkind : forall p h cb p' cb', RN p h cb -> RN p' h cb' -> cb = cb'.
  Hypothesis Hnz : forall p h cb, RN p h cb -> h <> zero32.
  Hypothesis Hlen : forall p h cb, RN p h cb -> length h = 32%nat.
  Hypothesis agree0 : forall k v, get k db0 = Some v ->
    (forall b, RNh H T root cb0 k -> T k = Some b -> v = b) /\
    (forall h c, k = code_key h -> RC h -> CD h = Some c -> v = c).
  Notation InvA := (InvA H T CD root cb0 db0).

  Definition InvL (s : sync) : Prop := InvA s /\ live None zero s.

  (* deliveries: as run_wf4, and a code delivery passing the hash check is processed
     without panic / dangling reference *)
  Definition op_wf5 (s : sync) (o : op) : Prop :=
    op_wf4 H T CD s o /\
    match o with
    | ODeliverCode h b => H b = h -> In (snd (process_code s h b)) [ROk; RNotRequested; RAlreadyProcessed]
    | _ => True
    end.
  Fixpoint run_wf5 (s : sync) (ops : list op) : Prop :=
    match ops with [] => True | o :: r => op_wf5 s o /\ run_wf5 (step H s o) r end.

  Lemma InvL_step s o : op_wf5 s o -> InvL s -> InvL (step H s o).
  Proof.
    intros [W4 W5] [IA L]. split; [apply (InvA_step H T CD root cb0 db0 Hkind Hnz Hlen agree0); assumption|].
    destruct IA as (I & SL & RT & SO).
    destruct o as [k|p h b|h b|]; simpl in *.
    - destruct (missing_go_reqs max_fetches_per_depth (queue s) k 0 s [] []) as [E1 E2].
      unfold missing, missing_b. eapply live_same; eauto.
    - destruct W4 as [W1 W2]. unfold deliver_node. destruct (beq (H b) h) eqn:E; [|exact L].
      apply beq_eq in E. specialize (W2 E).
      destruct (snd (process_node H s p b)) eqn:Ec.
      + apply live_process_node; [exact L| |exact Ec].
        intros r Hr. split.
        * specialize (SL p r Hr). unfold zero in SL. lia.
        * destruct (RT p r Hr) as [R _]. eapply Hnz; eauto.
      + rewrite process_node_soft; [exact L|]. rewrite Ec. intros [X|[X|[X|X]]]; discriminate X.
      + rewrite process_node_soft; [exact L|]. rewrite Ec. intros [X|[X|[X|X]]]; discriminate X.
      + rewrite process_node_soft; [exact L|]. rewrite Ec. intros [X|[X|[X|X]]]; discriminate X.
      + exfalso. simpl in W2. destruct W2 as [X|[X|[X|[X|[]]]]]; discriminate X.
      + exfalso. simpl in W2. destruct W2 as [X|[X|[X|[X|[]]]]]; discriminate X.
      + exfalso. simpl in W2. destruct W2 as [X|[X|[X|[X|[]]]]]; discriminate X.
      + exfalso. simpl in W2. destruct W2 as [X|[X|[X|[X|[]]]]]; discriminate X.
    - unfold deliver_code. destruct (beq (H b) h) eqn:E; [|exact L].
      apply beq_eq in E. specialize (W5 E).
      destruct (snd (process_code s h b)) eqn:Ec.
      + apply live_process_code; assumption.
      + rewrite process_code_soft; [exact L|]. rewrite Ec. intros [X|[X|[X|X]]]; discriminate X.
      + rewrite process_code_soft; [exact L|]. rewrite Ec. intros [X|[X|[X|X]]]; discriminate X.
      + exfalso. simpl in W5. destruct W5 as [X|[X|[X|[]]]]; discriminate X.
      + exfalso. simpl in W5. destruct W5 as [X|[X|[X|[]]]]; discriminate X.
      + exfalso. simpl in W5. destruct W5 as [X|[X|[X|[]]]]; discriminate X.
      + exfalso. simpl in W5. destruct W5 as [X|[X|[X|[]]]]; discriminate X.
      + exfalso. simpl in W5. destruct W5 as [X|[X|[X|[]]]]; discriminate X.
    - destruct (commit s) as [s'|] eqn:E; [|exact L].
      unfold commit in E. destruct (apply_ops _ _ _); [|discriminate]. inversion E; subst.
      eapply live_same; [| |exact L]; reflexivity.
  Qed.

  Lemma InvL_run : forall ops s, run_wf5 s ops -> InvL s -> InvL (run H s ops).
  Proof.
    induction ops as [|o r IH]; intros s W I; simpl; [exact I|].
    destruct W as [W1 W2]. apply IH; [exact W2|]. apply InvL_step; assumption.
  Qed.

  Lemma live_sched_root e f s cp r :
    live e f s -> aget cp (nreqs s) = None -> nr_data r = None -> nr_deps r = 0%Z -> nr_parent r = None ->
    live e f (schedule_node s cp r).
  Proof.
    intros [NN NC UB LE PO] Hf Hd Hz Hp. unfold schedule_node. constructor; ssimpl.
    - apply nodup_aput. exact NN.
    - exact NC.
    - intros q x. rewrite aget_aput, (cntn_aput_fresh q cp r (nreqs s) Hf). unfold is_par. rewrite Hp.
      destruct (beq q cp); [intros X; inversion X; subst x; rewrite Hz; lia|]. intros X. specialize (UB q x X). lia.
    - intros k1 rc q Hin Hq. apply In_aput in Hin. destruct Hin as [X|[X _]]; [inversion X; subst; congruence|eapply LE; eauto].
    - intros q x d Hne. rewrite aget_aput. destruct (beq q cp); [intros X D; inversion X; subst x; congruence|].
      intros X D. eapply PO; eauto.
  Qed.

  Lemma live_new_sync : live None zero (unsum (new_sync H false db0 root cb0)).
  Proof.
    set (e0 := mkSync false db0 [] [] 0 [] [] [] []).
    assert (E0 : live None zero e0).
    { constructor; unfold e0; ssimpl; try constructor; intros; try discriminate. destruct H0. }
    unfold new_sync. fold e0. unfold add_sub_trie. destruct (beq root (empty_root H)); [exact E0|].
    change (resolve_path []) with (Some (zero32, @nil N)). cbv iota beta.
    destruct (has_node H e0 zero32 [] root) as [ex inc]. destruct ex; [exact E0|].
    set (s1 := if inc then mb_del_node e0 zero32 [] else e0).
    assert (N1 : nreqs s1 = [] /\ creqs s1 = []) by (unfold s1; destruct inc; split; reflexivity).
    destruct N1 as [N1 C1].
    assert (L1 : live None zero s1) by (eapply live_same; [| |exact E0]; [rewrite N1|rewrite C1]; reflexivity).
    rewrite N1. cbn [aget]. rewrite beq_refl. cbn [negb unsum].
    apply live_sched_root; auto. rewrite N1. reflexivity.
  Qed.

  (* NO DEADLOCK: while something is pending, some node request is undelivered or some
     code request exists *)
  Theorem no_deadlock s :
    live None zero s -> pending s <> O ->
    (exists p r, aget p (nreqs s) = Some r /\ nr_data r = None) \/ creqs s <> [].
  Proof.
    intros [NN NC UB LE PO] Hp.
    destruct (creqs s) as [|c0 cr] eqn:Ec; [|right; discriminate]. left.
    destruct (find (fun kr => match nr_data (snd kr) with None => true | Some _ => false end) (nreqs s)) as [[k r]|] eqn:Ef.
    - apply find_some in Ef. destruct Ef as [Hin Hd]. simpl in Hd. exists k, r.
      split; [apply In_aget_nodup; assumption|destruct (nr_data r); [discriminate|reflexivity]].
    - exfalso.
      assert (Hne : nreqs s <> []).
      { intros E. unfold pending in Hp. rewrite E, Ec in Hp. apply Hp. reflexivity. }
      destruct (max_len_ex (nreqs s) Hne) as (k & r & Hin & Hmax).
      pose proof (find_none _ _ Ef (k, r) Hin) as Hd. simpl in Hd.
      destruct (nr_data r) as [d|] eqn:Dd; [|discriminate].
      pose proof (In_aget_nodup k r (nreqs s) NN Hin) as Ek.
      pose proof (PO k r d ltac:(discriminate) Ek Dd) as Pos.
      pose proof (UB k r Ek) as U. rewrite ?Ec in U. cbn [cntc] in U. unfold zero in U.
      destruct (cntn_pos_ex k (nreqs s)) as (k' & r' & Hin' & Hp'); [lia|].
      pose proof (LE k' r' k Hin' Hp'). specialize (Hmax _ _ Hin'). lia.
  Qed.

  Definition emb (o : op) : op3 :=
    match o with
    | OMissing k => O3Missing max_fetches_per_depth k
    | ODeliverNode p h b => O3Node p h b
    | ODeliverCode h b => O3Code h b
    | OCommit => O3Commit
    end.
  Lemma run3_emb : forall ops s fl, fst (run3 H (s, fl) (map emb ops)) = run H s ops.
  Proof.
    induction ops as [|o r IH]; intros s fl; [reflexivity|]. simpl.
    destruct o as [k|p h b|h b|]; cbn [emb step3 step].
    - unfold missing. destruct (missing_b max_fetches_per_depth s k) as [[s1 ns] cs]. apply IH.
    - apply IH.
    - apply IH.
    - apply IH.
  Qed.

  (* LIVENESS (no deadlock + nothing lost): after any history from NewSync, as long as
     Pending() > 0 there is an undelivered node request or a code request that is in the
     priority queue or was handed out by a Missing call *)
  Theorem sync_never_stuck ops :
    closedA H T root cb0 db0 ->
    let s0 := unsum (new_sync H false db0 root cb0) in
    run_wf5 s0 ops ->
    let st := run3 H (s0, []) (map emb ops) in
    pending (fst st) <> O ->
    (exists p r, aget p (nreqs (fst st)) = Some r /\ nr_data r = None /\
                 (In (QNode p) (items (queue (fst st))) \/ In (QNode p) (snd st))) \/
    (exists h c, aget h (creqs (fst st)) = Some c /\
                 (In (QCode h) (items (queue (fst st))) \/ In (QCode h) (snd st))).
  Proof.
    intros C0 s0 W st Hp.
    assert (IL : InvL (fst st)).
    { unfold st. rewrite run3_emb. apply InvL_run; [exact W|].
      split; [apply (InvA_new_sync H T CD root cb0 db0 Hkind Hnz Hlen agree0); exact C0|apply live_new_sync]. }
    pose proof (qinv_run3 H (map emb ops) (s0, []) (qinv_new_sync H false db0 root cb0)) as [Q1 Q2].
    fold st in Q1, Q2.
    destruct (no_deadlock (fst st) (proj2 IL) Hp) as [(p & r & E & D)|Hc].
    - left. exists p, r. split; [exact E|split; [exact D|]]. exact (Q1 p r E D).
    - right. destruct (creqs (fst st)) as [|[h c] rest] eqn:Ec; [contradiction Hc; reflexivity|].
      exists h, c. split; [|apply (Q2 h c)]; cbn [aget]; rewrite beq_refl; reflexivity.
  Qed.

  (* deps = number of pending children (node requests whose parent it is + occurrences in
     the parents of code requests), after any history *)
  Theorem deps_exact ops :
    closedA H T root cb0 db0 ->
    let s0 := unsum (new_sync H false db0 root cb0) in
    run_wf5 s0 ops ->
    forall p r, aget p (nreqs (run H s0 ops)) = Some r ->
      nr_deps r = Z.of_nat (cntn p (nreqs (run H s0 ops)) + cntc p (creqs (run H s0 ops))).
  Proof.
    intros C0 s0 W p r E.
    assert (IL : InvL (run H s0 ops)).
    { apply InvL_run; [exact W|].
      split; [apply (InvA_new_sync H T CD root cb0 db0 Hkind Hnz Hlen agree0); exact C0|apply live_new_sync]. }
    destruct IL as [(_ & SL & _) L].
    pose proof (SL p r E) as A. pose proof (lv_ub _ _ _ L p r E) as B. unfold zero in *. lia.
  Qed.
End NoDeadlock.
