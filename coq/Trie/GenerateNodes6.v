(* Trie/GenerateNodes6.v — the trie-node writes of the account loop and of a
   whole partition (C11, gen_nodes_path). *)
From Coq Require Import Permutation.
From GV Require Import Lib.Tactics Lib.Bytes Rlp.Codec Trie.Hex Trie.HexProofs Trie.HexInPlace Trie.Node Trie.Ops Trie.Hash Trie.OpsProofs Trie.Canon Trie.Stack Trie.StackProofs Trie.Commit Trie.CommitProofs Trie.CommitTracer Trie.Generate Trie.GenerateProofs Trie.GenerateWalk Trie.GenerateWalk2 Trie.GenerateWalk3 Trie.GenerateNodes Trie.GenerateNodes2 Trie.GenerateNodes3 Trie.GenerateNodes4 Trie.GenerateNodes5.
Local Open Scope N_scope.

Lemma nws_tail p : forall ss, nws (fst (tail_loop p ss)) = [].
Proof.
  induction ss as [|[k v] ss IH]; [reflexivity|]. cbn [tail_loop].
  destruct (bytes_gtb (firstn 32 k) (range_end p)); [reflexivity|].
  destruct (tail_loop p ss) as [ws n]. cbn [fst] in *. exact IH.
Qed.

Section Nodes6.
  Variable H : list N -> list N.
  Hypothesis H_len : forall x, length (H x) = 32%nat.

  Definition snodes (sc : scheme) (ss : amap (list N)) (kv : list N * list N) : list (list N * list N) :=
    nk H sc (fst kv) (nodes_of H [] (stor_trie ss (fst kv))).

  Lemma stor_trie_gt h h' ss : bytes_cmp h h' = Lt -> stor_trie (filter (sa_gt h) ss) h' = stor_trie ss h'.
  Proof. intros Hlt. unfold stor_trie, byte_slots. rewrite (filter_eq_of_gt h h' ss Hlt). reflexivity. Qed.

  Lemma acct_loop_nodes sc p : forall accs ss pt t r E,
    sorted accs -> wf_accts accs -> ndsa ss -> wf_stor ss ->
    sroot H pt t 63 -> canon t -> emitted_ok H pt t E ->
    acct_loop H sc p accs ss pt = GOk r ->
    exists t' EA, sroot H (p_trie r) t' 63 /\ canon t' /\
      (forall hk, lk t' hk = apply_ops (lk t) (hops (fed H p accs ss)) hk) /\
      emitted_ok H (p_trie r) t' (E ++ EA) /\ p_em r = EA /\
      Permutation (nws (p_ws r)) (flat_map (snodes sc ss) (take_le p accs) ++ nk H sc zero_hash (prefix_em p EA)).
  Proof.
    induction accs as [|[h slim] accs IH]; intros ss pt t r E Hso Hwa Hnd Hws Hr Hc HE El.
    - cbn in El. inversion El; subst. cbn [p_trie p_ws p_em take_le fed map hops apply_ops flat_map].
      exists t, []. rewrite app_nil_r. repeat (split; [auto; try reflexivity|]). constructor.
    - cbn [acct_loop] in El. inversion Hso as [|? ? ? Hab Hso']; subst. inversion Hwa as [|? ? [Hh32 Hhb] Hwa']; subst.
      cbn [fst] in *. cbn [take_le]. destruct (bytes_gtb h (range_end p)) eqn:G.
      + inversion El; subst. rewrite (fed_break H p h slim accs ss G). cbn [p_trie p_ws p_em map hops apply_ops flat_map].
        exists t, []. rewrite app_nil_r. repeat (split; [auto; try reflexivity|]). constructor.
      + destruct (full_account H slim) as [acc|] eqn:Ea; [|discriminate].
        destruct (stor_loop H sc h ss stack_new) as [[[[ss1 sst] ws1] nd]|e] eqn:Es; [|discriminate].
        destruct (st_root_e H sst) as [[computed em]|e] eqn:Er; [|discriminate].
        cbv zeta in El.
        remember (negb (bytes_eqb computed (a_root acc))) as stale eqn:Est.
        remember (if stale then mkAccount (a_nonce acc) (a_bal acc) computed (a_code acc) else acc) as acc' eqn:Eacc'.
        destruct (pst_update_e H p pt h (full_rlp acc')) as [[c|[pt' em']]|e] eqn:Ep; try discriminate.
        destruct (acct_loop H sc p accs ss1 pt') as [r'|e] eqn:El'; [|discriminate].
        inversion El; subst r. clear El. cbn [p_trie p_ws p_stor p_em].
        destruct (stor_loop_spec H H_len sc h ss stack_new NEmpty _ _ _ _ Hnd Hws (sroot_new H 64) (or_introl eq_refl) Es)
          as (R1 & _ & _ & _ & ts & Hrs & Hcs & Ls).
        pose proof (computed_ref H H_len ss h sst ts computed em Hws Hrs Hcs Ls Er) as Hcomp.
        assert (Hleaf : full_rlp acc' = leaf H ss (h, slim)).
        { unfold leaf, corrected. cbn [fst snd]. rewrite Ea, <- Hcomp. subst acc' stale.
          destruct (bytes_eqb computed (a_root acc)) eqn:B; cbn [negb]; [|reflexivity].
          apply bytes_eqb_eq in B. destruct acc; cbn in *; subst; reflexivity. }
        pose proof (account_storage_nodes H H_len sc h ss ss1 sst ws1 nd computed em Hnd Hws Es Er) as PSt.
        unfold pst_update_e in Ep. destruct (full_rlp acc') as [|b v] eqn:Ev; [discriminate|].
        destruct (nibbles_of h) as [|k0 kr] eqn:Enh; [discriminate|].
        destruct (N.eqb k0 p) eqn:Ek; [|discriminate]. apply N.eqb_eq in Ek. subst k0.
        assert (Hsl : slice_lt (snd pt) kr = true).
        { unfold st_update_hex_e in Ep. destruct (slice_lt (snd pt) kr); [reflexivity|discriminate]. }
        assert (Hnk : nibbles kr /\ length kr = 63%nat).
        { pose proof (nibbles_of_nibbles h Hhb) as Hn. pose proof (nibbles_of_length h) as Hl.
          rewrite Enh in Hn, Hl. inversion Hn; subst. split; [assumption|]. cbn [length] in Hl. lia. }
        destruct Hnk as [Hnk Hlk].
        destruct (st_update_hex_done H H_len pt t 63 kr (b :: v) E Hr Hc Hnk Hlk ltac:(lia) Hsl ltac:(discriminate) HE)
          as (s1 & em1 & t1 & E1 & Hr1 & Hc1 & _ & L1 & L2 & HE1).
        rewrite E1 in Ep. inversion Ep; subst s1 em1. clear Ep.
        assert (Hnd1 : ndsa ss1) by (rewrite R1; apply ndsa_filter, Hnd).
        assert (Hws1 : wf_stor ss1) by (rewrite R1; apply wf_stor_filter, Hws).
        destruct (IH ss1 pt' t1 r' (E ++ em') Hso' Hwa' Hnd1 Hws1 Hr1 Hc1 HE1 El') as (t' & EA & Hr' & Hc' & L' & HE' & Eem & PN).
        assert (Hfed : fed H p accs ss1 = fed H p accs ss).
        { unfold fed. apply map_ext_in. intros kv Hkv. f_equal. rewrite R1. apply leaf_gt.
          apply (above_keys_gt h accs Hab). eapply take_le_In; eassumption. }
        assert (Hsn : flat_map (snodes sc ss1) (take_le p accs) = flat_map (snodes sc ss) (take_le p accs)).
        { rewrite !flat_map_concat_map. f_equal. apply map_ext_in. intros kv Hkv. unfold snodes. rewrite R1.
          rewrite stor_trie_gt; [reflexivity|]. apply (above_keys_gt h accs Hab). eapply take_le_In; eassumption. }
        exists t', (em' ++ EA). split; [exact Hr'|]. split; [exact Hc'|]. split.
        { intros hk. rewrite L', Hfed, (fed_cons H p h slim accs ss G), hops_cons. cbn [apply_ops].
          rewrite Enh. cbn [tl]. rewrite <- Hleaf.
          apply apply_ops_ext. intros k'. unfold put.
          destruct (bytes_eqb k' (kr ++ [16])) eqn:B.
          - apply bytes_eqb_eq in B. subst. exact L1.
          - apply L2. intros ->. rewrite bytes_eqb_refl in B. discriminate. }
        split; [rewrite app_assoc; exact HE'|]. split; [rewrite Eem; reflexivity|].
        (* the writes *)
        cbn [flat_map]. rewrite Hsn in PN.
        replace (ws1 ++ node_writes H sc h em ++ (if stale then [WAcct h (slim_rlp H acc')] else []) ++
                 node_writes H sc zero_hash (prefix_em p em') ++ p_ws r')
          with ((ws1 ++ node_writes H sc h em) ++ ((if stale then [WAcct h (slim_rlp H acc')] else []) ++
                 node_writes H sc zero_hash (prefix_em p em')) ++ p_ws r') by (rewrite <- !app_assoc; reflexivity).
        assert (N3 : nws (if stale then [WAcct h (slim_rlp H acc')] else []) = []) by (destruct stale; reflexivity).
        rewrite (nws_app (ws1 ++ node_writes H sc h em)), (nws_app (_ ++ node_writes H sc zero_hash (prefix_em p em'))),
                (nws_app (if stale then _ else _)), N3, nws_nodes. cbn [app].
        assert (Epre : prefix_em p (em' ++ EA) = prefix_em p em' ++ prefix_em p EA) by (unfold prefix_em; apply map_app).
        rewrite Epre, nk_app.
        (* PSt : storage nodes of h;  PN : the rest *)
        eapply Permutation_trans; [apply Permutation_app; [exact PSt|apply Permutation_app_head; exact PN]|].
        unfold snodes at 1. cbn [fst].
        rewrite <- !app_assoc. apply Permutation_app_head.
        rewrite !app_assoc. apply Permutation_app_tail. apply Permutation_app_comm.
  Qed.
End Nodes6.
