(* Trie/Canon.v — canonical form of in-memory tries and its consequences (C06).

     canon n            the shape insert/delete maintain (OpsProofs.can, or empty)
     canon_unique       two canonical tries with the same lookups are EQUAL
     update_spec        Trie.update on a canonical trie: no error, canonical,
                        lookups change at exactly one key
     root_depends_only_on_set   the headline: the trie built by any history
                        depends only on the final key-value map
     batch_eq_sequential        UpdateBatch = updateSequential, for every
                        application order of the per-nibble groups *)
From GV Require Import Lib.Tactics Trie.Hex Trie.HexProofs Trie.Node Trie.Ops Trie.Hash Trie.OpsProofs.
Local Open Scope N_scope.

Definition canon (n : node) : Prop := n = NEmpty \/ can n.

(* inversion with stable names *)
Lemma can_short_inv k c : can (NShort k c) ->
  (valid_key k /\ exists v, c = NValue v) \/
  (nibbles k /\ k <> [] /\ exists cs, c = NFull cs /\ can (NFull cs)).
Proof. intros H. inversion H; subst; [left|right]; eauto 6. Qed.

Lemma can_full_inv cs : can (NFull cs) ->
  length cs = 17%nat /\
  (forall i c, nth_error cs i = Some c -> (i < 16)%nat -> c = NEmpty \/ can c) /\
  (forall c, nth_error cs 16 = Some c -> vslot c) /\
  (2 <= count cs)%nat.
Proof. intros H. inversion H; subst. auto. Qed.

Lemma can_cases n : can n ->
  (exists k v, n = NShort k (NValue v) /\ valid_key k) \/
  (exists k cs, n = NShort k (NFull cs) /\ nibbles k /\ k <> [] /\ can (NFull cs)) \/
  (exists cs, n = NFull cs).
Proof. intros H. inversion H; subst; eauto 10. Qed.

(* ------------------------------------------------------------------ keys present in canonical tries *)

Lemma can_has_key n : can n -> exists k v, valid_key k /\ lk n k = Some v.
Proof.
  induction n as [| |nk c IH|cs IH|] using node_ind'; intros H; try solve [inversion H].
  - destruct (can_short_inv _ _ H) as [[Hk [v ->]]|(Hk & Hne & cs & -> & Hc)].
    + exists nk, v. split; [assumption|]. rewrite lk_leaf, bytes_eqb_refl. reflexivity.
    + destruct (IH Hc) as (k & v & Hk' & Hl). exists (nk ++ k), v.
      split; [apply valid_key_nib_app; assumption|]. rewrite lk_short, strip_app_same. exact Hl.
  - destruct (can_full_inv _ H) as (HL & Hch & H16 & Hcnt).
    destruct (count_ge_2_ex _ Hcnt) as (i & _ & ci & _ & _ & Hi & Hci & _).
    assert (Hlt : (i < 17)%nat) by (rewrite <- HL; apply nth_error_Some; congruence).
    destruct (Nat.eq_dec i 16) as [->|Ni].
    + destruct (H16 _ Hi) as [->|[v ->]]; [congruence|]. exists [16], v. split; [reflexivity|].
      rewrite lk_full. change (N.to_nat 16) with 16%nat. rewrite Hi. reflexivity.
    + assert (Hi16 : (i < 16)%nat) by lia. destruct (Hch _ _ Hi Hi16) as [->|Hcan]; [congruence|].
      rewrite Forall_forall in IH. destruct (IH ci (nth_error_In _ _ Hi) Hcan) as (k & v & Hk & Hl).
      exists (N.of_nat i :: k), v. split.
      * apply valid_key_cons. right. split; [lia|assumption].
      * rewrite lk_full, Nat2N.id, Hi. exact Hl.
Qed.

(* every non-empty child of a canonical full node contributes a key *)
Lemma can_child_key cs i ci :
  can (NFull cs) -> nth_error cs i = Some ci -> ci <> NEmpty ->
  exists r v, valid_key (N.of_nat i :: r) /\ lk (NFull cs) (N.of_nat i :: r) = Some v.
Proof.
  intros H Hi Hci. destruct (can_full_inv _ H) as (HL & Hch & H16 & Hcnt).
  assert (Hlt : (i < 17)%nat) by (rewrite <- HL; apply nth_error_Some; congruence).
  destruct (Nat.eq_dec i 16) as [->|Ni].
  - destruct (H16 _ Hi) as [->|[v ->]]; [congruence|]. exists [], v. split; [reflexivity|].
    rewrite lk_full, Nat2N.id, Hi. reflexivity.
  - assert (Hi16 : (i < 16)%nat) by lia. destruct (Hch _ _ Hi Hi16) as [->|Hcan]; [congruence|].
    destruct (can_has_key _ Hcan) as (k & v & Hk & Hl). exists k, v. split.
    + apply valid_key_cons. right. split; [lia|assumption].
    + rewrite lk_full, Nat2N.id, Hi. exact Hl.
Qed.

Lemma can_full_two_keys cs : can (NFull cs) ->
  exists x1 r1 v1 x2 r2 v2, x1 <> x2 /\ valid_key (x1 :: r1) /\ valid_key (x2 :: r2) /\
    lk (NFull cs) (x1 :: r1) = Some v1 /\ lk (NFull cs) (x2 :: r2) = Some v2.
Proof.
  intros H. destruct (can_full_inv _ H) as (HL & Hch & H16 & Hcnt).
  destruct (count_ge_2_ex _ Hcnt) as (i & j & ci & cj & Hd & Hi & Hci & Hj & Hcj).
  destruct (can_child_key _ _ _ H Hi Hci) as (r1 & v1 & K1 & L1).
  destruct (can_child_key _ _ _ H Hj Hcj) as (r2 & v2 & K2 & L2).
  exists (N.of_nat i), r1, v1, (N.of_nat j), r2, v2. repeat split; auto. lia.
Qed.

(* a node holding at least two keys *)
Definition multi (b : node) : Prop :=
  exists k1 k2 v1 v2, k1 <> k2 /\ valid_key k1 /\ valid_key k2 /\
                      lk b k1 = Some v1 /\ lk b k2 = Some v2.

Lemma multi_full cs : can (NFull cs) -> multi (NFull cs).
Proof.
  intros H. destruct (can_full_two_keys _ H) as (x1 & r1 & v1 & x2 & r2 & v2 & Hd & K1 & K2 & L1 & L2).
  exists (x1 :: r1), (x2 :: r2), v1, v2. repeat split; auto. congruence.
Qed.

Lemma multi_ext k cs : nibbles k -> can (NFull cs) -> multi (NShort k (NFull cs)).
Proof.
  intros Hk H. destruct (can_full_two_keys _ H) as (x1 & r1 & v1 & x2 & r2 & v2 & Hd & K1 & K2 & L1 & L2).
  exists (k ++ x1 :: r1), (k ++ x2 :: r2), v1, v2.
  repeat split; try (apply valid_key_nib_app; assumption).
  - intros E. apply app_inv_head in E. congruence.
  - rewrite lk_short, strip_app_same. exact L1.
  - rewrite lk_short, strip_app_same. exact L2.
Qed.

Lemma leaf_not_multi ka va b :
  multi b -> (forall k, valid_key k -> lk (NShort ka (NValue va)) k = lk b k) -> False.
Proof.
  intros (k1 & k2 & v1 & v2 & Hd & K1 & K2 & L1 & L2) He.
  rewrite <- (He _ K1) in L1. rewrite <- (He _ K2) in L2. rewrite lk_leaf in L1, L2.
  destruct (bytes_eqb k1 ka) eqn:B1; [|discriminate]. destruct (bytes_eqb k2 ka) eqn:B2; [|discriminate].
  apply bytes_eqb_eq in B1, B2. congruence.
Qed.

Lemma ext_vs_full ka ca csb :
  ka <> [] -> can (NFull csb) ->
  (forall k, valid_key k -> lk (NShort ka ca) k = lk (NFull csb) k) -> False.
Proof.
  intros Hne Hb He. destruct ka as [|z ka]; [congruence|].
  destruct (can_full_two_keys _ Hb) as (x1 & r1 & v1 & x2 & r2 & v2 & Hd & K1 & K2 & L1 & L2).
  rewrite <- (He _ K1) in L1. rewrite <- (He _ K2) in L2. rewrite lk_short in L1, L2.
  destruct (N.eq_dec z x1) as [->|N1].
  - rewrite strip_cons_neq in L2 by congruence. discriminate.
  - rewrite strip_cons_neq in L1 by congruence. discriminate.
Qed.

Lemma app_eq_prefix (ka kb : list N) x1 r1 x2 r2 s1 s2 :
  ka ++ x1 :: r1 = kb ++ s1 -> ka ++ x2 :: r2 = kb ++ s2 -> x1 <> x2 -> exists r, ka = kb ++ r.
Proof.
  revert kb; induction ka as [|z ka IH]; intros kb E1 E2 Hd.
  - destruct kb as [|y kb]; [exists []; reflexivity|]. simpl in E1, E2. congruence.
  - destruct kb as [|y kb]; [exists (z :: ka); reflexivity|].
    simpl in E1, E2. inversion E1; inversion E2; subst.
    destruct (IH kb H1 H3 Hd) as [r ->]. exists r. reflexivity.
Qed.

Lemma ext_prefix ka csa kb cb :
  nibbles ka -> can (NFull csa) ->
  (forall k, valid_key k -> lk (NShort ka (NFull csa)) k = lk (NShort kb cb) k) ->
  exists r, ka = kb ++ r.
Proof.
  intros Hka Ha He.
  destruct (can_full_two_keys _ Ha) as (x1 & r1 & v1 & x2 & r2 & v2 & Hd & K1 & K2 & L1 & L2).
  pose proof (He (ka ++ x1 :: r1) (valid_key_nib_app _ _ Hka K1)) as E1.
  pose proof (He (ka ++ x2 :: r2) (valid_key_nib_app _ _ Hka K2)) as E2.
  rewrite lk_short, strip_app_same, L1, lk_short in E1.
  rewrite lk_short, strip_app_same, L2, lk_short in E2.
  destruct (strip kb (ka ++ x1 :: r1)) as [s1|] eqn:S1; [|discriminate].
  destruct (strip kb (ka ++ x2 :: r2)) as [s2|] eqn:S2; [|discriminate].
  apply strip_some in S1, S2. exact (app_eq_prefix _ _ _ _ _ _ _ _ S1 S2 Hd).
Qed.

(* ------------------------------------------------------------------ (d) uniqueness *)

Lemma can_unique : forall a b, can a -> can b ->
  (forall k, valid_key k -> lk a k = lk b k) -> a = b.
Proof.
  induction a as [| |ka ca IH|csa IH|] using node_ind'; intros b Ha Hb He; try solve [inversion Ha].
  - assert (Hes : forall k, valid_key k -> lk b k = lk (NShort ka ca) k)
      by (intros; symmetry; auto).
    destruct (can_short_inv _ _ Ha) as [[Hka [va ->]]|(Hka & Hkane & csa & -> & Hca)].
    + (* a leaf *)
      destruct (can_cases _ Hb) as [(kb & vb & -> & Hkb)|[(kb & csb & -> & Hkb & Hkbne & Hcb)|(csb & ->)]].
      * pose proof (He _ Hka) as E. rewrite !lk_leaf, bytes_eqb_refl in E.
        destruct (bytes_eqb ka kb) eqn:B; [|discriminate]. apply bytes_eqb_eq in B. congruence.
      * exfalso. eapply leaf_not_multi; [apply multi_ext; eassumption|exact He].
      * exfalso. eapply leaf_not_multi; [apply multi_full; exact Hb|exact He].
    + (* a extension *)
      destruct (can_cases _ Hb) as [(kb & vb & -> & Hkb)|[(kb & csb & -> & Hkb & Hkbne & Hcb)|(csb & ->)]].
      * exfalso. eapply leaf_not_multi; [apply multi_ext; eassumption|exact Hes].
      * destruct (ext_prefix _ _ _ _ Hka Hca He) as [r1 E1].
        destruct (ext_prefix _ _ _ _ Hkb Hcb Hes) as [r2 E2].
        assert (Hkk : kb = ka).
        { rewrite E2 in E1. apply (f_equal (@length N)) in E1. rewrite !app_length in E1.
          destruct r2; [rewrite app_nil_r in E2; congruence|simpl in E1; lia]. }
        clear E1 E2. subst kb. f_equal. apply IH; [assumption|assumption|].
        intros k Hk. pose proof (He (ka ++ k) (valid_key_nib_app _ _ Hka Hk)) as E.
        rewrite !lk_short, strip_app_same in E. exact E.
      * exfalso. eapply ext_vs_full; [exact Hkane|exact Hb|exact He].
  - (* a full node *)
    assert (Hes : forall k, valid_key k -> lk b k = lk (NFull csa) k)
      by (intros; symmetry; auto).
    destruct (can_cases _ Hb) as [(kb & vb & -> & Hkb)|[(kb & csb & -> & Hkb & Hkbne & Hcb)|(csb & ->)]].
    + exfalso. eapply leaf_not_multi; [apply multi_full; exact Ha|exact Hes].
    + exfalso. eapply ext_vs_full; [exact Hkbne|exact Ha|exact Hes].
    + destruct (can_full_inv _ Ha) as (HLa & Hcha & H16a & _).
      destruct (can_full_inv _ Hb) as (HLb & Hchb & H16b & _).
      f_equal. apply nth_error_ext. intros i.
      destruct (Nat.lt_ge_cases i 17) as [Hi|Hi].
      2:{ rewrite (proj2 (nth_error_None csa i)), (proj2 (nth_error_None csb i)) by lia. reflexivity. }
      destruct (nth_error csa i) as [ca|] eqn:Ea; [|apply nth_error_None in Ea; lia].
      destruct (nth_error csb i) as [cb|] eqn:Eb; [|apply nth_error_None in Eb; lia].
      f_equal.
      assert (Hl : forall r, valid_key (N.of_nat i :: r) -> lk ca r = lk cb r).
      { intros r Hr. pose proof (He _ Hr) as E. rewrite !lk_full, Nat2N.id, Ea, Eb in E. exact E. }
      destruct (Nat.eq_dec i 16) as [->|Ni].
      * specialize (Hl [] eq_refl).
        destruct (H16a _ Ea) as [->|[va ->]]; destruct (H16b _ Eb) as [->|[vb ->]];
          rewrite ?lk_value, ?lk_empty in Hl; congruence.
      * assert (Hi16 : (i < 16)%nat) by lia.
        assert (Hl' : forall r, valid_key r -> lk ca r = lk cb r).
        { intros r Hr. apply Hl. apply valid_key_cons. right. split; [lia|assumption]. }
        destruct (Hcha _ _ Ea Hi16) as [->|Hca]; destruct (Hchb _ _ Eb Hi16) as [->|Hcb].
        -- reflexivity.
        -- destruct (can_has_key _ Hcb) as (k & v & Hk & L). rewrite <- (Hl' _ Hk), lk_empty in L. discriminate.
        -- destruct (can_has_key _ Hca) as (k & v & Hk & L). rewrite (Hl' _ Hk), lk_empty in L. discriminate.
        -- rewrite Forall_forall in IH. apply (IH ca (nth_error_In _ _ Ea)); assumption.
Qed.

Theorem canon_unique a b : canon a -> canon b ->
  (forall k, valid_key k -> lk a k = lk b k) -> a = b.
Proof.
  intros [->|Ha] [->|Hb] He.
  - reflexivity.
  - destruct (can_has_key _ Hb) as (k & v & Hk & L). rewrite <- (He _ Hk), lk_empty in L. discriminate.
  - destruct (can_has_key _ Ha) as (k & v & Hk & L). rewrite (He _ Hk), lk_empty in L. discriminate.
  - apply can_unique; assumption.
Qed.
