(* Trie/Canon.v — canonical form of in-memory tries and its consequences (C06).

     canon n            the shape insert/delete maintain (OpsProofs.can, or empty)
     canon_unique       two canonical tries with the same lookups are EQUAL
     update_spec        Trie.update on a canonical trie: no error, canonical,
                        lookups change at exactly one key
     root_depends_only_on_set   the headline: the trie built by any history
                        depends only on the final key-value map
     batch_eq_sequential        UpdateBatch = updateSequential, for every
                        application order of the per-nibble groups *)
From GV Require Import Lib.Tactics Rlp.Codec Trie.Hex Trie.HexProofs Trie.Node Trie.Ops Trie.Hash Trie.OpsProofs.
Local Open Scope N_scope.

Definition canon (n : node) : Prop := n = NEmpty \/ can n.

(* inversion with stable names *)
Lemma can_short_inv k c : can (NShort k c) ->
  (valid_key k /\ exists v, c = NValue v) \/
  (nibbles k /\ k <> [] /\ exists cs, c = NFull cs /\ can (NFull cs)).
Proof. intros H. inversion H; subst; [left|right]; eauto 6. Qed.

Lemma can_full_inv cs : can (NFull cs) ->
  length cs = 17%nat /\
  (forall i c, nth_error cs i = Some c -> (i < 16)%nat -> c = NEmpty \/ can c) /\
  (forall c, nth_error cs 16 = Some c -> vslot c) /\
  (2 <= count cs)%nat.
Proof. intros H. inversion H; subst. auto. Qed.

Lemma can_cases n : can n ->
  (exists k v, n = NShort k (NValue v) /\ valid_key k) \/
  (exists k cs, n = NShort k (NFull cs) /\ nibbles k /\ k <> [] /\ can (NFull cs)) \/
  (exists cs, n = NFull cs).
Proof. intros H. inversion H; subst; eauto 10. Qed.

(* ------------------------------------------------------------------ keys present in canonical tries *)

Lemma can_has_key n : can n -> exists k v, valid_key k /\ lk n k = Some v.
Proof.
  induction n as [| |nk c IH|cs IH|] using node_ind'; intros H; try solve [inversion H].
  - destruct (can_short_inv _ _ H) as [[Hk [v ->]]|(Hk & Hne & cs & -> & Hc)].
    + exists nk, v. split; [assumption|]. rewrite lk_leaf, bytes_eqb_refl. reflexivity.
    + destruct (IH Hc) as (k & v & Hk' & Hl). exists (nk ++ k), v.
      split; [apply valid_key_nib_app; assumption|]. rewrite lk_short, strip_app_same. exact Hl.
  - destruct (can_full_inv _ H) as (HL & Hch & H16 & Hcnt).
    destruct (count_ge_2_ex _ Hcnt) as (i & _ & ci & _ & _ & Hi & Hci & _).
    assert (Hlt : (i < 17)%nat) by (rewrite <- HL; apply nth_error_Some; congruence).
    destruct (Nat.eq_dec i 16) as [->|Ni].
    + destruct (H16 _ Hi) as [->|[v ->]]; [congruence|]. exists [16], v. split; [reflexivity|].
      rewrite lk_full. change (N.to_nat 16) with 16%nat. rewrite Hi. reflexivity.
    + assert (Hi16 : (i < 16)%nat) by lia. destruct (Hch _ _ Hi Hi16) as [->|Hcan]; [congruence|].
      rewrite Forall_forall in IH. destruct (IH ci (nth_error_In _ _ Hi) Hcan) as (k & v & Hk & Hl).
      exists (N.of_nat i :: k), v. split.
      * apply valid_key_cons. right. split; [lia|assumption].
      * rewrite lk_full, Nat2N.id, Hi. exact Hl.
Qed.

(* every non-empty child of a canonical full node contributes a key *)
Lemma can_child_key cs i ci :
  can (NFull cs) -> nth_error cs i = Some ci -> ci <> NEmpty ->
  exists r v, valid_key (N.of_nat i :: r) /\ lk (NFull cs) (N.of_nat i :: r) = Some v.
Proof.
  intros H Hi Hci. destruct (can_full_inv _ H) as (HL & Hch & H16 & Hcnt).
  assert (Hlt : (i < 17)%nat) by (rewrite <- HL; apply nth_error_Some; congruence).
  destruct (Nat.eq_dec i 16) as [->|Ni].
  - destruct (H16 _ Hi) as [->|[v ->]]; [congruence|]. exists [], v. split; [reflexivity|].
    rewrite lk_full, Nat2N.id, Hi. reflexivity.
  - assert (Hi16 : (i < 16)%nat) by lia. destruct (Hch _ _ Hi Hi16) as [->|Hcan]; [congruence|].
    destruct (can_has_key _ Hcan) as (k & v & Hk & Hl). exists k, v. split.
    + apply valid_key_cons. right. split; [lia|assumption].
    + rewrite lk_full, Nat2N.id, Hi. exact Hl.
Qed.

Lemma can_full_two_keys cs : can (NFull cs) ->
  exists x1 r1 v1 x2 r2 v2, x1 <> x2 /\ valid_key (x1 :: r1) /\ valid_key (x2 :: r2) /\
    lk (NFull cs) (x1 :: r1) = Some v1 /\ lk (NFull cs) (x2 :: r2) = Some v2.
Proof.
  intros H. destruct (can_full_inv _ H) as (HL & Hch & H16 & Hcnt).
  destruct (count_ge_2_ex _ Hcnt) as (i & j & ci & cj & Hd & Hi & Hci & Hj & Hcj).
  destruct (can_child_key _ _ _ H Hi Hci) as (r1 & v1 & K1 & L1).
  destruct (can_child_key _ _ _ H Hj Hcj) as (r2 & v2 & K2 & L2).
  exists (N.of_nat i), r1, v1, (N.of_nat j), r2, v2. repeat split; auto. lia.
Qed.

(* a node holding at least two keys *)
Definition multi (b : node) : Prop :=
  exists k1 k2 v1 v2, k1 <> k2 /\ valid_key k1 /\ valid_key k2 /\
                      lk b k1 = Some v1 /\ lk b k2 = Some v2.

Lemma multi_full cs : can (NFull cs) -> multi (NFull cs).
Proof.
  intros H. destruct (can_full_two_keys _ H) as (x1 & r1 & v1 & x2 & r2 & v2 & Hd & K1 & K2 & L1 & L2).
  exists (x1 :: r1), (x2 :: r2), v1, v2. repeat split; auto. congruence.
Qed.

Lemma multi_ext k cs : nibbles k -> can (NFull cs) -> multi (NShort k (NFull cs)).
Proof.
  intros Hk H. destruct (can_full_two_keys _ H) as (x1 & r1 & v1 & x2 & r2 & v2 & Hd & K1 & K2 & L1 & L2).
  exists (k ++ x1 :: r1), (k ++ x2 :: r2), v1, v2.
  repeat split; try (apply valid_key_nib_app; assumption).
  - intros E. apply app_inv_head in E. congruence.
  - rewrite lk_short, strip_app_same. exact L1.
  - rewrite lk_short, strip_app_same. exact L2.
Qed.

Lemma leaf_not_multi ka va b :
  multi b -> (forall k, valid_key k -> lk (NShort ka (NValue va)) k = lk b k) -> False.
Proof.
  intros (k1 & k2 & v1 & v2 & Hd & K1 & K2 & L1 & L2) He.
  rewrite <- (He _ K1) in L1. rewrite <- (He _ K2) in L2. rewrite lk_leaf in L1, L2.
  destruct (bytes_eqb k1 ka) eqn:B1; [|discriminate]. destruct (bytes_eqb k2 ka) eqn:B2; [|discriminate].
  apply bytes_eqb_eq in B1, B2. congruence.
Qed.

Lemma ext_vs_full ka ca csb :
  ka <> [] -> can (NFull csb) ->
  (forall k, valid_key k -> lk (NShort ka ca) k = lk (NFull csb) k) -> False.
Proof.
  intros Hne Hb He. destruct ka as [|z ka]; [congruence|].
  destruct (can_full_two_keys _ Hb) as (x1 & r1 & v1 & x2 & r2 & v2 & Hd & K1 & K2 & L1 & L2).
  rewrite <- (He _ K1) in L1. rewrite <- (He _ K2) in L2. rewrite lk_short in L1, L2.
  destruct (N.eq_dec z x1) as [->|N1].
  - rewrite strip_cons_neq in L2 by congruence. discriminate.
  - rewrite strip_cons_neq in L1 by congruence. discriminate.
Qed.

Lemma app_eq_prefix (ka kb : list N) x1 r1 x2 r2 s1 s2 :
  ka ++ x1 :: r1 = kb ++ s1 -> ka ++ x2 :: r2 = kb ++ s2 -> x1 <> x2 -> exists r, ka = kb ++ r.
Proof.
  revert kb; induction ka as [|z ka IH]; intros kb E1 E2 Hd.
  - destruct kb as [|y kb]; [exists []; reflexivity|]. simpl in E1, E2. congruence.
  - destruct kb as [|y kb]; [exists (z :: ka); reflexivity|].
    simpl in E1, E2. inversion E1; inversion E2; subst.
    destruct (IH kb H1 H3 Hd) as [r ->]. exists r. reflexivity.
Qed.

Lemma ext_prefix ka csa kb cb :
  nibbles ka -> can (NFull csa) ->
  (forall k, valid_key k -> lk (NShort ka (NFull csa)) k = lk (NShort kb cb) k) ->
  exists r, ka = kb ++ r.
Proof.
  intros Hka Ha He.
  destruct (can_full_two_keys _ Ha) as (x1 & r1 & v1 & x2 & r2 & v2 & Hd & K1 & K2 & L1 & L2).
  pose proof (He (ka ++ x1 :: r1) (valid_key_nib_app _ _ Hka K1)) as E1.
  pose proof (He (ka ++ x2 :: r2) (valid_key_nib_app _ _ Hka K2)) as E2.
  rewrite lk_short, strip_app_same, L1, lk_short in E1.
  rewrite lk_short, strip_app_same, L2, lk_short in E2.
  destruct (strip kb (ka ++ x1 :: r1)) as [s1|] eqn:S1; [|discriminate].
  destruct (strip kb (ka ++ x2 :: r2)) as [s2|] eqn:S2; [|discriminate].
  apply strip_some in S1, S2. exact (app_eq_prefix _ _ _ _ _ _ _ _ S1 S2 Hd).
Qed.

(* ------------------------------------------------------------------ (d) uniqueness *)

Lemma can_unique : forall a b, can a -> can b ->
  (forall k, valid_key k -> lk a k = lk b k) -> a = b.
Proof.
  induction a as [| |ka ca IH|csa IH|] using node_ind'; intros b Ha Hb He; try solve [inversion Ha].
  - assert (Hes : forall k, valid_key k -> lk b k = lk (NShort ka ca) k)
      by (intros; symmetry; auto).
    destruct (can_short_inv _ _ Ha) as [[Hka [va ->]]|(Hka & Hkane & csa & -> & Hca)].
    + (* a leaf *)
      destruct (can_cases _ Hb) as [(kb & vb & -> & Hkb)|[(kb & csb & -> & Hkb & Hkbne & Hcb)|(csb & ->)]].
      * pose proof (He _ Hka) as E. rewrite !lk_leaf, bytes_eqb_refl in E.
        destruct (bytes_eqb ka kb) eqn:B; [|discriminate]. apply bytes_eqb_eq in B. congruence.
      * exfalso. eapply leaf_not_multi; [apply multi_ext; eassumption|exact He].
      * exfalso. eapply leaf_not_multi; [apply multi_full; exact Hb|exact He].
    + (* a extension *)
      destruct (can_cases _ Hb) as [(kb & vb & -> & Hkb)|[(kb & csb & -> & Hkb & Hkbne & Hcb)|(csb & ->)]].
      * exfalso. eapply leaf_not_multi; [apply multi_ext; eassumption|exact Hes].
      * destruct (ext_prefix _ _ _ _ Hka Hca He) as [r1 E1].
        destruct (ext_prefix _ _ _ _ Hkb Hcb Hes) as [r2 E2].
        assert (Hkk : kb = ka).
        { rewrite E2 in E1. apply (f_equal (@length N)) in E1. rewrite !app_length in E1.
          destruct r2; [rewrite app_nil_r in E2; congruence|simpl in E1; lia]. }
        clear E1 E2. subst kb. f_equal. apply IH; [assumption|assumption|].
        intros k Hk. pose proof (He (ka ++ k) (valid_key_nib_app _ _ Hka Hk)) as E.
        rewrite !lk_short, strip_app_same in E. exact E.
      * exfalso. eapply ext_vs_full; [exact Hkane|exact Hb|exact He].
  - (* a full node *)
    assert (Hes : forall k, valid_key k -> lk b k = lk (NFull csa) k)
      by (intros; symmetry; auto).
    destruct (can_cases _ Hb) as [(kb & vb & -> & Hkb)|[(kb & csb & -> & Hkb & Hkbne & Hcb)|(csb & ->)]].
    + exfalso. eapply leaf_not_multi; [apply multi_full; exact Ha|exact Hes].
    + exfalso. eapply ext_vs_full; [exact Hkbne|exact Ha|exact Hes].
    + destruct (can_full_inv _ Ha) as (HLa & Hcha & H16a & _).
      destruct (can_full_inv _ Hb) as (HLb & Hchb & H16b & _).
      f_equal. apply nth_error_ext. intros i.
      destruct (Nat.lt_ge_cases i 17) as [Hi|Hi].
      2:{ rewrite (proj2 (nth_error_None csa i)), (proj2 (nth_error_None csb i)) by lia. reflexivity. }
      destruct (nth_error csa i) as [ca|] eqn:Ea; [|apply nth_error_None in Ea; lia].
      destruct (nth_error csb i) as [cb|] eqn:Eb; [|apply nth_error_None in Eb; lia].
      f_equal.
      assert (Hl : forall r, valid_key (N.of_nat i :: r) -> lk ca r = lk cb r).
      { intros r Hr. pose proof (He _ Hr) as E. rewrite !lk_full, Nat2N.id, Ea, Eb in E. exact E. }
      destruct (Nat.eq_dec i 16) as [->|Ni].
      * specialize (Hl [] eq_refl).
        destruct (H16a _ Ea) as [->|[va ->]]; destruct (H16b _ Eb) as [->|[vb ->]];
          rewrite ?lk_value, ?lk_empty in Hl; congruence.
      * assert (Hi16 : (i < 16)%nat) by lia.
        assert (Hl' : forall r, valid_key r -> lk ca r = lk cb r).
        { intros r Hr. apply Hl. apply valid_key_cons. right. split; [lia|assumption]. }
        destruct (Hcha _ _ Ea Hi16) as [->|Hca]; destruct (Hchb _ _ Eb Hi16) as [->|Hcb].
        -- reflexivity.
        -- destruct (can_has_key _ Hcb) as (k & v & Hk & L). rewrite <- (Hl' _ Hk), lk_empty in L. discriminate.
        -- destruct (can_has_key _ Hca) as (k & v & Hk & L). rewrite (Hl' _ Hk), lk_empty in L. discriminate.
        -- rewrite Forall_forall in IH. apply (IH ca (nth_error_In _ _ Ea)); assumption.
Qed.

Theorem canon_unique a b : canon a -> canon b ->
  (forall k, valid_key k -> lk a k = lk b k) -> a = b.
Proof.
  intros [->|Ha] [->|Hb] He.
  - reflexivity.
  - destruct (can_has_key _ Hb) as (k & v & Hk & L). rewrite <- (He _ Hk), lk_empty in L. discriminate.
  - destruct (can_has_key _ Ha) as (k & v & Hk & L). rewrite (He _ Hk), lk_empty in L. discriminate.
  - apply can_unique; assumption.
Qed.

(* ------------------------------------------------------------------ histories and their final map *)

Definition bytes_key (k : list N) : Prop := forallb byteb k = true.

(* the value an update leaves under its key: empty value = deletion *)
Definition vopt (v : list N) : option (list N) := match v with [] => None | _ :: _ => Some v end.

Definition put (m : list N -> option (list N)) (k v : list N) : list N -> option (list N) :=
  fun k' => if bytes_eqb k' k then vopt v else m k'.

Fixpoint apply_ops (m : list N -> option (list N)) (ops : list (list N * list N))
  : list N -> option (list N) :=
  match ops with
  | [] => m
  | (k, v) :: r => apply_ops (put m k v) r
  end.

(* the key-value map a history of updates denotes (last write wins) *)
Definition final_map (ops : list (list N * list N)) : list N -> option (list N) :=
  apply_ops (fun _ => None) ops.

Definition hexops (ops : list (list N * list N)) : list (list N * list N) :=
  map (fun kv => (keybytes_to_hex (fst kv), snd kv)) ops.

Definition bytes_ops (ops : list (list N * list N)) : Prop :=
  Forall (fun kv => bytes_key (fst kv)) ops.

Lemma hex_inj k1 k2 : bytes_key k1 -> bytes_key k2 ->
  keybytes_to_hex k1 = keybytes_to_hex k2 -> k1 = k2.
Proof.
  intros H1 H2 E. pose proof (keybytes_hex _ H1) as E1. pose proof (keybytes_hex _ H2) as E2.
  rewrite E in E1. congruence.
Qed.

Lemma hex_eqb k1 k2 : bytes_key k1 -> bytes_key k2 ->
  bytes_eqb (keybytes_to_hex k1) (keybytes_to_hex k2) = bytes_eqb k1 k2.
Proof.
  intros H1 H2. destruct (bytes_eqb k1 k2) eqn:B.
  - apply bytes_eqb_eq in B. subst. apply bytes_eqb_refl.
  - destruct (bytes_eqb (keybytes_to_hex k1) (keybytes_to_hex k2)) eqn:B'; [|reflexivity].
    apply bytes_eqb_eq in B'. apply hex_inj in B'; try assumption. subst.
    rewrite bytes_eqb_refl in B. discriminate.
Qed.

Lemma apply_ops_notin ops : forall m k, ~ In k (map fst ops) -> apply_ops m ops k = m k.
Proof.
  induction ops as [|[k0 v0] ops IH]; intros m k Hn; [reflexivity|]. simpl in *.
  rewrite IH by tauto. unfold put. destruct (bytes_eqb k k0) eqn:B; [|reflexivity].
  apply bytes_eqb_eq in B. subst. tauto.
Qed.

Lemma apply_ops_hex ops : bytes_ops ops -> forall m mh k, bytes_key k ->
  mh (keybytes_to_hex k) = m k ->
  apply_ops mh (hexops ops) (keybytes_to_hex k) = apply_ops m ops k.
Proof.
  induction 1 as [|[k0 v0] ops Hk0 Hops IH]; intros m mh k Hk E; [exact E|]. simpl.
  apply IH; [assumption|]. unfold put. simpl in Hk0. rewrite hex_eqb by assumption. rewrite E. reflexivity.
Qed.

Lemma final_map_hex_eq ops1 ops2 : bytes_ops ops1 -> bytes_ops ops2 ->
  (forall k, final_map ops1 k = final_map ops2 k) ->
  forall hk, apply_ops (fun _ => None) (hexops ops1) hk = apply_ops (fun _ => None) (hexops ops2) hk.
Proof.
  intros B1 B2 He hk.
  destruct (in_dec (list_eq_dec N.eq_dec) hk (map fst (hexops (ops1 ++ ops2)))) as [Hin|Hnin].
  - apply in_map_iff in Hin as ([hk' v] & E & Hin). simpl in E. subst hk'.
    apply in_map_iff in Hin as ([k v'] & E & Hin). simpl in E. inversion E; subst.
    assert (Hk : bytes_key k).
    { assert (Hall : bytes_ops (ops1 ++ ops2)) by (apply Forall_app; auto).
      unfold bytes_ops in Hall. rewrite Forall_forall in Hall. apply (Hall _ Hin). }
    rewrite (apply_ops_hex ops1 B1 (fun _ => None) (fun _ => None) k Hk eq_refl).
    rewrite (apply_ops_hex ops2 B2 (fun _ => None) (fun _ => None) k Hk eq_refl).
    apply He.
  - unfold hexops in Hnin. rewrite map_app, map_app in Hnin. rewrite in_app_iff in Hnin.
    rewrite !apply_ops_notin; [reflexivity| |]; intros Hin; apply Hnin; [right|left]; exact Hin.
Qed.

(* ------------------------------------------------------------------ update and histories on canonical tries *)

Lemma canon_wfn t : canon t -> wfn t.
Proof. intros [->|H]; [constructor|apply can_wfn; exact H]. Qed.

Lemma ops_fuel_ok k : (length k < ops_fuel k)%nat.
Proof. unfold ops_fuel. lia. Qed.

Section Canon.
  Variable resolve : list N -> list N -> option (node * list N).

  (* Trie.update on a canonical trie with a byte key *)
  Lemma update_hex_spec t hk v : canon t -> valid_key hk ->
    exists t' ev,
      (match v with
       | [] => match delete resolve (ops_fuel hk) t [] hk with
               | TOk (_, n, ev) => TOk (n, ev) | TErr e => TErr e end
       | _ :: _ => match insert resolve (ops_fuel hk) t [] hk (NValue v) with
                   | TOk (_, n, ev) => TOk (n, ev) | TErr e => TErr e end
       end) = TOk (t', ev) /\
      canon t' /\ lk t' hk = vopt v /\ (forall k', k' <> hk -> lk t' k' = lk t k').
  Proof.
    intros Hc Hk.
    assert (Hp : wfpos t hk) by (right; split; [assumption|apply canon_wfn; assumption]).
    assert (Hcp : canpos t hk) by (right; split; assumption).
    destruct v as [|b v].
    - destruct (delete_spec resolve _ t [] hk (ops_fuel_ok hk) Hp)
        as (d & t' & ev & E & Q1 & Q2 & Q3 & Q4 & Q5 & Q6 & Q7).
      rewrite E. exists t', ev. split; [reflexivity|]. split; [|split; assumption].
      destruct (Q6 Hcp) as [[-> _]|[_ ?]]; [destruct Hk|assumption].
    - destruct (insert_spec resolve _ t [] hk (b :: v) (ops_fuel_ok hk) Hp)
        as (d & t' & ev & E & P1 & P2 & P3 & P4 & P5 & P6 & P7 & P8).
      rewrite E. exists t', ev. split; [reflexivity|]. split; [|split; assumption].
      destruct (P7 Hcp) as [[-> _]|[_ ?]]; [destruct Hk|assumption].
  Qed.

  Lemma update_spec t k v : canon t -> bytes_key k ->
    exists t' ev, update resolve t k v = TOk (t', ev) /\ canon t' /\
      lk t' (keybytes_to_hex k) = vopt v /\
      (forall hk, hk <> keybytes_to_hex k -> lk t' hk = lk t hk).
  Proof.
    intros Hc Hk. unfold update. cbv zeta.
    destruct (update_hex_spec t (keybytes_to_hex k) v Hc (keybytes_to_hex_valid _ Hk))
      as (t' & ev & E & R).
    exists t', ev. split; [|exact R]. destruct v; exact E.
  Qed.

  Lemma update_seq_spec ops : bytes_ops ops -> forall t m, canon t ->
    (forall hk, lk t hk = m hk) ->
    exists t' ev, update_seq resolve t ops = TOk (t', ev) /\ canon t' /\
      forall hk, lk t' hk = apply_ops m (hexops ops) hk.
  Proof.
    induction 1 as [|[k v] ops Hk Hops IH]; intros t m Hc Hm.
    - exists t, []. split; [reflexivity|]. split; assumption.
    - simpl in Hk. destruct (update_spec t k v Hc Hk) as (t1 & ev1 & E1 & Hc1 & L1 & L2).
      destruct (IH t1 (put m (keybytes_to_hex k) v) Hc1) as (t2 & ev2 & E2 & Hc2 & L3).
      { intros hk. unfold put. destruct (bytes_eqb hk (keybytes_to_hex k)) eqn:B.
        - apply bytes_eqb_eq in B. subst. exact L1.
        - rewrite L2; [apply Hm|]. intros ->. rewrite bytes_eqb_refl in B. discriminate. }
      cbn [update_seq]. rewrite E1, E2. exists t2, (ev1 ++ ev2). split; [reflexivity|].
      split; [assumption|]. exact L3.
  Qed.

  (* (e) the trie built by a history depends only on its final map *)
  Theorem root_depends_only_on_set ops1 ops2 :
    bytes_ops ops1 -> bytes_ops ops2 ->
    (forall k, final_map ops1 k = final_map ops2 k) ->
    exists t ev1 ev2,
      update_seq resolve NEmpty ops1 = TOk (t, ev1) /\
      update_seq resolve NEmpty ops2 = TOk (t, ev2) /\
      canon t /\
      (forall k, bytes_key k -> lk t (keybytes_to_hex k) = final_map ops1 k) /\
      (forall k, bytes_key k -> trie_get resolve t k = TOk (final_map ops1 k, t, false, [])).
  Proof.
    intros B1 B2 He.
    destruct (update_seq_spec ops1 B1 NEmpty (fun _ => None) (or_introl eq_refl) (fun hk => lk_empty hk))
      as (t1 & ev1 & E1 & C1 & L1).
    destruct (update_seq_spec ops2 B2 NEmpty (fun _ => None) (or_introl eq_refl) (fun hk => lk_empty hk))
      as (t2 & ev2 & E2 & C2 & L2).
    assert (t1 = t2).
    { apply canon_unique; [assumption|assumption|]. intros k _. rewrite L1, L2.
      apply final_map_hex_eq; assumption. }
    subst t2. exists t1, ev1, ev2. split; [assumption|]. split; [assumption|]. split; [assumption|].
    assert (HL : forall k, bytes_key k -> lk t1 (keybytes_to_hex k) = final_map ops1 k).
    { intros k Hk. rewrite L1. apply (apply_ops_hex ops1 B1 (fun _ => None) (fun _ => None) k Hk eq_refl). }
    split; [exact HL|]. intros k Hk. unfold trie_get. cbv zeta.
    rewrite get_lk; [rewrite (HL k Hk); reflexivity|apply ops_fuel_ok|].
    right. split; [apply keybytes_to_hex_valid; assumption|apply canon_wfn; assumption].
  Qed.

  (* ... hence so does the root hash, for ANY hash function *)
  Corollary root_hash_depends_only_on_set (H : list N -> list N) ops1 ops2 t1 ev1 t2 ev2 :
    bytes_ops ops1 -> bytes_ops ops2 ->
    (forall k, final_map ops1 k = final_map ops2 k) ->
    update_seq resolve NEmpty ops1 = TOk (t1, ev1) ->
    update_seq resolve NEmpty ops2 = TOk (t2, ev2) ->
    t1 = t2 /\ hash_root H t1 = hash_root H t2.
  Proof.
    intros B1 B2 He E1 E2.
    destruct (root_depends_only_on_set ops1 ops2 B1 B2 He) as (t & e1 & e2 & F1 & F2 & _).
    rewrite F1 in E1. rewrite F2 in E2. inversion E1; inversion E2; subst. split; reflexivity.
  Qed.
End Canon.

(* ------------------------------------------------------------------ (f) UpdateBatch = updateSequential *)

Lemma apply_ops_ext ops : forall m m', (forall k, m k = m' k) ->
  forall k, apply_ops m ops k = apply_ops m' ops k.
Proof.
  induction ops as [|[k0 v0] ops IH]; intros m m' He k; [apply He|]. simpl.
  apply IH. intros k'. unfold put. rewrite He. reflexivity.
Qed.

(* what may sit in slot [pos] of a canonical full node *)
Definition canslot (pos : N) (c : node) : Prop :=
  (pos = 16 /\ vslot c) \/ (pos < 16 /\ (c = NEmpty \/ can c)).

Lemma canslot_canpos pos c kr : canslot pos c -> valid_key (pos :: kr) -> canpos c kr.
Proof.
  intros Hs Hk. apply valid_key_cons in Hk as [[-> ->]|[Hp Hk]].
  - destruct Hs as [[_ ?]|[? _]]; [left; auto|lia].
  - destruct Hs as [[-> _]|[_ ?]]; [lia|right; auto].
Qed.

Lemma canpos_canslot pos c kr : canpos c kr -> valid_key (pos :: kr) -> canslot pos c.
Proof.
  intros Hs Hk. apply valid_key_cons in Hk as [[-> ->]|[Hp Hk]].
  - destruct Hs as [[_ ?]|[[] _]]. left; auto.
  - destruct Hs as [[-> _]|[_ ?]]; [destruct Hk|right; auto].
Qed.

Lemma can_full_slot cs pos c :
  can (NFull cs) -> nth_error cs (N.to_nat pos) = Some c -> pos <= 16 -> canslot pos c.
Proof.
  intros H Hc Hp. destruct (can_full_inv _ H) as (HL & Hch & H16 & _).
  destruct (N.eq_dec pos 16) as [->|Np].
  - left. split; [reflexivity|]. apply H16. exact Hc.
  - right. split; [lia|]. apply (Hch _ _ Hc). lia.
Qed.

Definition tlkeys (G : list (list N * list N)) : list (list N * list N) :=
  map (fun kv => (tl (fst kv), snd kv)) G.

Definition group_ok (pos : N) (G : list (list N * list N)) : Prop :=
  Forall (fun kv => exists kr, fst kv = pos :: kr /\ valid_key (pos :: kr)) G.

Lemma group_by_nibble_ok pos hkvs :
  Forall (fun kv => valid_key (fst kv)) hkvs -> group_ok pos (group_by_nibble pos hkvs).
Proof.
  intros H. unfold group_ok, group_by_nibble. apply Forall_forall. intros [hk v] Hin.
  apply filter_In in Hin as [Hin Hf]. rewrite Forall_forall in H. specialize (H _ Hin). simpl in *.
  destruct hk as [|k0 kr]; [discriminate|]. apply N.eqb_eq in Hf. subst. eauto.
Qed.

(* lookups under nibble x only see the group of x *)
Lemma apply_ops_group x ops : Forall (fun kv => fst kv <> []) ops ->
  forall m m' r, m (x :: r) = m' r ->
  apply_ops m ops (x :: r) = apply_ops m' (tlkeys (group_by_nibble x ops)) r.
Proof.
  induction 1 as [|[k0 v0] ops Hk0 Hops IH]; intros m m' r E; [exact E|].
  simpl in Hk0. destruct k0 as [|y k0]; [congruence|]. simpl.
  destruct (N.eqb_spec y x) as [->|Ny].
  - simpl. apply IH. unfold put. simpl. rewrite N.eqb_refl. simpl. rewrite E. reflexivity.
  - apply IH. unfold put. simpl. destruct (N.eqb_spec x y); [congruence|]. simpl. exact E.
Qed.

Lemma filter_ge_1 {A} (p : A -> bool) l : (1 <= length (filter p l))%nat ->
  exists i a, nth_error l i = Some a /\ p a = true.
Proof.
  induction l as [|x l IH]; simpl; intros H; [lia|]. destruct (p x) eqn:Px.
  - exists O, x. auto.
  - destruct (IH H) as (i & a & ? & ?). exists (S i), a. auto.
Qed.

Lemma filter_ge_2 {A} (p : A -> bool) l : (2 <= length (filter p l))%nat ->
  exists i j a b, i <> j /\ nth_error l i = Some a /\ p a = true /\
                  nth_error l j = Some b /\ p b = true.
Proof.
  induction l as [|x l IH]; simpl; intros H; [lia|]. destruct (p x) eqn:Px.
  - simpl in H. destruct (filter_ge_1 p l ltac:(lia)) as (j & b & Hj & Pb).
    exists O, (S j), x, b. repeat split; auto.
  - destruct (IH H) as (i & j & a & b & Hd & Hi & Pa & Hj & Pb).
    exists (S i), (S j), a, b. repeat split; auto.
Qed.

Lemma combine_idx_nth n : forall s (cs : list node) i a c,
  nth_error (combine (map N.of_nat (seq s n)) cs) i = Some (a, c) ->
  a = N.of_nat (s + i) /\ nth_error cs i = Some c.
Proof.
  induction n as [|n IH]; intros s cs i a c H; simpl in H; [destruct i; discriminate|].
  destruct cs as [|c0 cs]; [destruct i; discriminate|]. destruct i as [|i]; simpl in H.
  - inversion H; subst. split; [f_equal; lia|reflexivity].
  - destruct (IH _ _ _ _ _ H) as [-> ?]. split; [f_equal; lia|assumption].
Qed.

Lemma count_ge_1 cs j cj : nth_error cs j = Some cj -> cj <> NEmpty -> (1 <= count cs)%nat.
Proof.
  revert j; induction cs as [|c cs IH]; intros [|j] H Hne; simpl in H; try discriminate; rewrite count_cons.
  - inversion H; subst. destruct cj; simpl; try lia. congruence.
  - specialize (IH _ H Hne). lia.
Qed.

Lemma count_two cs : forall i j ci cj, i <> j ->
  nth_error cs i = Some ci -> ci <> NEmpty -> nth_error cs j = Some cj -> cj <> NEmpty ->
  (2 <= count cs)%nat.
Proof.
  induction cs as [|c cs IH]; intros i j ci cj Hd Hi Hci Hj Hcj; [destruct i; discriminate|].
  rewrite count_cons. destruct i as [|i], j as [|j]; simpl in Hi, Hj; try congruence.
  - inversion Hi; subst. pose proof (count_ge_1 _ _ _ Hj Hcj). destruct ci; simpl; try lia. congruence.
  - inversion Hj; subst. pose proof (count_ge_1 _ _ _ Hi Hci). destruct cj; simpl; try lia. congruence.
  - assert (i <> j) by congruence. specialize (IH _ _ _ _ H Hi Hci Hj Hcj). lia.
Qed.

Section Batch.
  Variable resolve : list N -> list N -> option (node * list N).

  (* one goroutine: its group applied to its child *)
  Lemma apply_group_spec pos : forall G c, group_ok pos G -> canslot pos c ->
    exists c' ev, apply_group resolve c pos G = TOk (c', ev) /\ canslot pos c' /\
      (forall r, lk c' r = apply_ops (lk c) (tlkeys G) r) /\
      (Forall (fun kv => snd kv <> []) G -> c <> NEmpty -> c' <> NEmpty).
  Proof.
    induction G as [|[hk v] G IH]; intros c HG Hc.
    - exists c, []. simpl. auto.
    - inversion HG as [|? ? (kr & Ehk & Hv) HG']; subst. simpl in Ehk. subst hk.
      pose proof (canslot_canpos _ _ _ Hc Hv) as Hcp. pose proof (canpos_wfpos _ _ Hcp) as Hwp.
      assert (Hfuel : (length kr < ops_fuel (pos :: kr))%nat) by (unfold ops_fuel; simpl; lia).
      cbn [apply_group tl]. destruct v as [|b v].
      + destruct (delete_spec resolve _ c [pos] kr Hfuel Hwp)
          as (d & c1 & ev1 & E & Q1 & Q2 & Q3 & Q4 & Q5 & Q6 & Q7).
        rewrite E. destruct (IH c1 HG' (canpos_canslot _ _ _ (Q6 Hcp) Hv)) as (c2 & ev2 & E2 & S2 & L2 & N2).
        rewrite E2. exists c2, (ev1 ++ ev2). split; [reflexivity|]. split; [assumption|]. split.
        * intros r. rewrite L2. simpl. apply apply_ops_ext. intros r'. unfold put. simpl.
          destruct (bytes_eqb r' kr) eqn:B.
          -- apply bytes_eqb_eq in B. subst. exact Q2.
          -- apply Q3. intros ->. rewrite bytes_eqb_refl in B. discriminate.
        * intros Hnd. inversion Hnd; subst. simpl in *. congruence.
      + destruct (insert_spec resolve _ c [pos] kr (b :: v) Hfuel Hwp)
          as (d & c1 & ev1 & E & P1 & P2 & P3 & P4 & P5 & P6 & P7 & P8).
        rewrite E. destruct (IH c1 HG' (canpos_canslot _ _ _ (P7 Hcp) Hv)) as (c2 & ev2 & E2 & S2 & L2 & N2).
        rewrite E2. exists c2, (ev1 ++ ev2). split; [reflexivity|]. split; [assumption|]. split.
        * intros r. rewrite L2. simpl. apply apply_ops_ext. intros r'. unfold put. simpl.
          destruct (bytes_eqb r' kr) eqn:B.
          -- apply bytes_eqb_eq in B. subst. exact P3.
          -- apply P4. intros ->. rewrite bytes_eqb_refl in B. discriminate.
        * intros Hnd _. inversion Hnd; subst. auto.
  Qed.

  Section Fold.
    Variable cs : list node.
    Variable hkvs : list (list N * list N).
    Hypothesis Hcs : can (NFull cs).
    Hypothesis Hkeys : Forall (fun kv => valid_key (fst kv)) hkvs.

    Definition GP (pos : N) (c c' : node) : Prop :=
      canslot pos c' /\
      (forall r, lk c' r = apply_ops (lk c) (tlkeys (group_by_nibble pos hkvs)) r) /\
      (Forall (fun kv => snd kv <> []) (group_by_nibble pos hkvs) -> c <> NEmpty -> c' <> NEmpty).

    Variable F : tres (node * list tev) -> N -> tres (node * list tev).
    Hypothesis HF : forall cs0 ev0 pos,
      F (TOk (NFull cs0, ev0)) pos =
      match child cs0 pos with
      | None => TErr EPanic
      | Some c =>
          match apply_group resolve c pos (group_by_nibble pos hkvs) with
          | TErr e => TErr e
          | TOk (c', ev) =>
              match set_child cs0 pos c' with
              | Some cs1 => TOk (NFull cs1, ev0 ++ ev)
              | None => TErr EPanic
              end
          end
      end.

    Lemma batch_fold : forall order cs0 ev0,
      NoDup order -> Forall (fun p => p <= 16) order -> length cs0 = 17%nat ->
      (forall pos, In pos order -> nth_error cs0 (N.to_nat pos) = nth_error cs (N.to_nat pos)) ->
      exists cs1 ev1,
        fold_left F order (TOk (NFull cs0, ev0)) = TOk (NFull cs1, ev1) /\
        length cs1 = 17%nat /\
        (forall i, ~ In (N.of_nat i) order -> nth_error cs1 i = nth_error cs0 i) /\
        (forall pos, In pos order -> exists c c',
           nth_error cs (N.to_nat pos) = Some c /\ nth_error cs1 (N.to_nat pos) = Some c' /\ GP pos c c').
    Proof.
      destruct (can_full_inv _ Hcs) as (HLcs & _).
      induction order as [|pos rest IH]; intros cs0 ev0 Hnd Hle HL0 Horig.
      - exists cs0, ev0. simpl. split; [reflexivity|]. split; [assumption|]. split; [auto|]. intros ? [].
      - simpl fold_left. rewrite HF.
        inversion Hnd as [|? ? Hnotin Hnd']; subst. inversion Hle as [|? ? Hp Hle']; subst.
        pose proof (Horig pos (or_introl eq_refl)) as E0.
        destruct (nth_error cs (N.to_nat pos)) as [c|] eqn:Ec; [|apply nth_error_None in Ec; lia].
        unfold child. rewrite E0.
        pose proof (can_full_slot _ _ _ Hcs Ec Hp) as Hslot.
        destruct (apply_group_spec pos _ c (group_by_nibble_ok pos hkvs Hkeys) Hslot)
          as (c' & ev & E & S & L & Nn).
        rewrite E. unfold set_child.
        destruct (set_nth_some (N.to_nat pos) c' cs0) as [cs0' Hs]; [lia|]. rewrite Hs.
        destruct (set_nth_spec _ _ _ _ Hs) as [L0 Hn0].
        destruct (IH cs0' (ev0 ++ ev) Hnd' Hle' ltac:(lia)) as (cs1 & ev1 & EF & L1 & U1 & G1).
        { intros p Hp'. rewrite Hn0. destruct (Nat.eqb_spec (N.to_nat p) (N.to_nat pos)) as [e|].
          - assert (p = pos) by lia. subst. contradiction.
          - apply Horig. right. assumption. }
        exists cs1, ev1. split; [exact EF|]. split; [assumption|]. split.
        + intros i Hni. rewrite U1 by (intros Hin; apply Hni; right; exact Hin). rewrite Hn0.
          destruct (Nat.eqb_spec i (N.to_nat pos)); [|reflexivity].
          subst. exfalso. apply Hni. left. rewrite N2Nat.id. reflexivity.
        + intros p [<-|Hp'].
          * exists c, c'. split; [exact Ec|]. split; [|repeat split; assumption].
            rewrite U1 by (rewrite N2Nat.id; exact Hnotin). rewrite Hn0, Nat.eqb_refl. reflexivity.
          * apply G1. exact Hp'.
    Qed.
  End Fold.

  (* (f) for every application order of the per-nibble groups — any duplicate-free
     list of positions <= 16 containing every populated first nibble — UpdateBatch
     on a canonical trie succeeds and yields exactly the trie updateSequential
     yields (the tracer events may be ordered differently). *)
  Theorem batch_eq_sequential order t kvs :
    canon t -> bytes_ops kvs ->
    NoDup order -> Forall (fun p => p <= 16) order ->
    (forall kv, In kv kvs -> In (hd 0 (keybytes_to_hex (fst kv))) order) ->
    exists t' ev ev',
      update_batch resolve order t kvs = TOk (t', ev) /\
      update_seq resolve t kvs = TOk (t', ev') /\ canon t'.
  Proof.
    intros Hc HB Hnd Hle Hpop.
    destruct (update_seq_spec resolve kvs HB t (lk t) Hc (fun _ => eq_refl))
      as (ts & evs & Es & Cs & Ls).
    unfold update_batch.
    destruct t as [| | |cs|]; try (exists ts, evs, evs; repeat split; assumption).
    destruct (Nat.ltb (length kvs) parallel_update_threshold); [exists ts, evs, evs; repeat split; assumption|].
    fold (hexops kvs).
    match goal with |- context [Nat.ltb ?s 2] => destruct (Nat.ltb s 2) eqn:Hsurv end;
      [exists ts, evs, evs; repeat split; assumption|].
    apply Nat.ltb_ge in Hsurv.
    destruct Hc as [Hc|Hc]; [discriminate|].
    destruct (can_full_inv _ Hc) as (HLcs & Hch & H16 & _).
    assert (Hkeys : Forall (fun kv => valid_key (fst kv)) (hexops kvs)).
    { unfold hexops. apply Forall_map. simpl. unfold bytes_ops in HB.
      eapply Forall_impl; [|exact HB]. intros kv Hk. apply keybytes_to_hex_valid. exact Hk. }
    match goal with |- context [fold_left ?f order _] =>
      destruct (batch_fold cs (hexops kvs) Hc Hkeys f (fun _ _ _ => eq_refl) order cs [] Hnd Hle HLcs
                  (fun _ _ => eq_refl)) as (cs1 & ev1 & EF & L1 & U1 & G1)
    end.
    rewrite EF.
    (* every slot of the result satisfies the group postcondition *)
    assert (Hall : forall i c, nth_error cs i = Some c -> exists c',
              nth_error cs1 i = Some c' /\ GP (hexops kvs) (N.of_nat i) c c').
    { intros i c Hi.
      assert (Hi17 : (i < 17)%nat) by (rewrite <- HLcs; apply nth_error_Some; congruence).
      destruct (in_dec N.eq_dec (N.of_nat i) order) as [Hin|Hnin].
      - destruct (G1 _ Hin) as (c0 & c' & E0 & E1 & HG). rewrite Nat2N.id in E0, E1.
        exists c'. split; [assumption|]. congruence.
      - exists c. split; [rewrite U1 by assumption; exact Hi|].
        assert (Hg : group_by_nibble (N.of_nat i) (hexops kvs) = []).
        { unfold group_by_nibble. destruct (filter _ (hexops kvs)) as [|[hk v] G] eqn:Ef; [reflexivity|].
          exfalso. assert (Hin : In (hk, v) (filter (fun kv => match fst kv with
                                      | k0 :: _ => N.eqb k0 (N.of_nat i) | [] => false end) (hexops kvs)))
            by (rewrite Ef; left; reflexivity).
          apply filter_In in Hin as [Hin Hf]. unfold hexops in Hin. apply in_map_iff in Hin as (kv & E & Hin).
          inversion E; subst. apply Hnin. specialize (Hpop _ Hin). simpl in Hf.
          destruct (keybytes_to_hex (fst kv)); [discriminate|]. apply N.eqb_eq in Hf. subst. exact Hpop. }
        unfold GP. rewrite Hg. split; [apply (can_full_slot cs); [assumption|rewrite Nat2N.id; assumption|lia]|].
        split; [reflexivity|auto]. }
    assert (Hcan1 : can (NFull cs1)).
    { apply can_full; [assumption| | |].
      - intros i c' Hc' Hi16. destruct (nth_error cs i) as [c|] eqn:Ei; [|apply nth_error_None in Ei; lia].
        destruct (Hall _ _ Ei) as (c'' & E1 & [[[? _]|[_ ?]] _]); [lia|congruence].
      - intros c' Hc'. destruct (nth_error cs 16) as [c|] eqn:Ei; [|apply nth_error_None in Ei; lia].
        destruct (Hall _ _ Ei) as (c'' & E1 & [[[_ ?]|[? _]] _]); [congruence|simpl in *; lia].
      - destruct (filter_ge_2 _ _ Hsurv) as (i & j & [ai ci] & [aj cj] & Hd & Hi & Pi & Hj & Pj).
        apply combine_idx_nth in Hi as [-> Hi]. apply combine_idx_nth in Hj as [-> Hj]. simpl in *.
        apply andb_true_iff in Pi as [Pi1 Pi2]. apply andb_true_iff in Pj as [Pj1 Pj2].
        assert (Hnodel : forall i0, negb (existsb (fun kv => match fst kv, snd kv with
                            | k0 :: _, [] => N.eqb k0 (N.of_nat i0) | _, _ => false end) (hexops kvs)) = true ->
                  Forall (fun kv => snd kv <> []) (group_by_nibble (N.of_nat i0) (hexops kvs))).
        { intros i0 Hne. apply negb_true_iff in Hne. apply Forall_forall. intros [hk v] Hin Hv.
          unfold group_by_nibble in Hin. apply filter_In in Hin as [Hin Hf]. simpl in *. subst v.
          assert (Hex : existsb (fun kv => match fst kv, snd kv with
                            | k0 :: _, [] => N.eqb k0 (N.of_nat i0) | _, _ => false end) (hexops kvs) = true).
          { apply existsb_exists. exists (hk, []). split; [assumption|]. simpl. destruct hk; [discriminate|exact Hf]. }
          congruence. }
        destruct (Hall _ _ Hi) as (ci' & Ei' & _ & _ & Ni). destruct (Hall _ _ Hj) as (cj' & Ej' & _ & _ & Nj).
        apply (count_two cs1 i j ci' cj' Hd Ei'); [|exact Ej'|].
        + apply Ni; [apply Hnodel; exact Pi2|]. destruct ci; simpl in Pi1; congruence.
        + apply Nj; [apply Hnodel; exact Pj2|]. destruct cj; simpl in Pj1; congruence. }
    assert (NFull cs1 = ts).
    { apply canon_unique; [right; assumption|assumption|]. intros hk Hk. rewrite Ls.
      destruct hk as [|x r]; [destruct Hk|].
      pose proof (valid_key_hd_le _ _ Hk) as Hx.
      destruct (nth_error cs (N.to_nat x)) as [c|] eqn:Ec; [|apply nth_error_None in Ec; lia].
      destruct (Hall _ _ Ec) as (c' & E1 & _ & Hlk & _). rewrite N2Nat.id in Hlk.
      rewrite lk_full, E1, Hlk. symmetry. apply apply_ops_group.
      - eapply Forall_impl; [|exact Hkeys]. intros kv Hv. apply valid_key_nonempty. exact Hv.
      - rewrite lk_full, Ec. reflexivity. }
    subst ts. exists (NFull cs1), ev1, evs. auto.
  Qed.
End Batch.

(* ------------------------------------------------------------------ histories mixing single updates and batches *)

Inductive hop : Type :=
| HUpd (k v : list N)                                        (* Trie.Update / Delete *)
| HBatch (order : list N) (kvs : list (list N * list N)).    (* Trie.UpdateBatch, groups applied in [order] *)

Definition order_ok (order : list N) (kvs : list (list N * list N)) : Prop :=
  NoDup order /\ Forall (fun p => p <= 16) order /\
  (forall kv, In kv kvs -> In (hd 0 (keybytes_to_hex (fst kv))) order).

Definition hop_ok (h : hop) : Prop :=
  match h with
  | HUpd k _ => bytes_key k
  | HBatch order kvs => bytes_ops kvs /\ order_ok order kvs
  end.

Definition hop_kvs (h : hop) : list (list N * list N) :=
  match h with HUpd k v => [(k, v)] | HBatch _ kvs => kvs end.

Section Hist.
  Variable resolve : list N -> list N -> option (node * list N).

  Fixpoint run_hist (t : node) (hs : list hop) : tres node :=
    match hs with
    | [] => TOk t
    | HUpd k v :: r =>
        match update resolve t k v with TOk (t', _) => run_hist t' r | TErr e => TErr e end
    | HBatch order kvs :: r =>
        match update_batch resolve order t kvs with TOk (t', _) => run_hist t' r | TErr e => TErr e end
    end.

  Lemma update_seq_app_ok a : forall t t1 e1 b t2 e2,
    update_seq resolve t a = TOk (t1, e1) -> update_seq resolve t1 b = TOk (t2, e2) ->
    update_seq resolve t (a ++ b) = TOk (t2, e1 ++ e2).
  Proof.
    induction a as [|[k v] a IH]; intros t t1 e1 b t2 e2 Ea Eb.
    - simpl in Ea. inversion Ea; subst. exact Eb.
    - simpl in Ea. simpl. destruct (update resolve t k v) as [[t0 e0]|]; [|discriminate].
      destruct (update_seq resolve t0 a) as [[t1' e1']|] eqn:E; [|discriminate]. inversion Ea; subst.
      rewrite (IH _ _ _ _ _ _ E Eb). rewrite app_assoc. reflexivity.
  Qed.

  Lemma hist_bytes_ops hs : Forall hop_ok hs -> bytes_ops (flat_map hop_kvs hs).
  Proof.
    induction 1 as [|h hs Hh Hhs IH]; [constructor|]. simpl. apply Forall_app. split; [|exact IH].
    destruct h; simpl in *; [repeat constructor; assumption|tauto].
  Qed.

  (* any history of updates and batches (each batch under any admissible
     application order) produces the trie the flattened sequential history does *)
  Theorem history_eq_sequential hs : Forall hop_ok hs -> forall t, canon t ->
    exists t' ev, run_hist t hs = TOk t' /\
      update_seq resolve t (flat_map hop_kvs hs) = TOk (t', ev) /\ canon t'.
  Proof.
    induction 1 as [|h hs Hh Hhs IH]; intros t Hc.
    - exists t, []. simpl. auto.
    - destruct h as [k v|order kvs]; simpl in Hh.
      + destruct (update_spec resolve t k v Hc Hh) as (t1 & ev1 & E1 & C1 & _).
        destruct (IH t1 C1) as (t2 & ev2 & R2 & S2 & C2).
        exists t2, (ev1 ++ ev2). cbn [run_hist flat_map hop_kvs app update_seq]. rewrite E1, S2. auto.
      + destruct Hh as (HB & Hnd & Hle & Hpop).
        destruct (batch_eq_sequential resolve order t kvs Hc HB Hnd Hle Hpop) as (t1 & ev & ev' & EB & ES & C1).
        destruct (IH t1 C1) as (t2 & ev2 & R2 & S2 & C2).
        exists t2, (ev' ++ ev2). cbn [run_hist flat_map hop_kvs]. rewrite EB.
        split; [exact R2|]. split; [|exact C2]. eapply update_seq_app_ok; eassumption.
  Qed.

  (* HEADLINE with batches: the trie (hence its root hash, every Get) after any
     two histories with the same final key-value map is the same *)
  Theorem history_depends_only_on_set hs1 hs2 :
    Forall hop_ok hs1 -> Forall hop_ok hs2 ->
    (forall k, final_map (flat_map hop_kvs hs1) k = final_map (flat_map hop_kvs hs2) k) ->
    exists t, run_hist NEmpty hs1 = TOk t /\ run_hist NEmpty hs2 = TOk t /\ canon t /\
      (forall k, bytes_key k ->
         trie_get resolve t k = TOk (final_map (flat_map hop_kvs hs1) k, t, false, [])).
  Proof.
    intros H1 H2 He.
    destruct (history_eq_sequential hs1 H1 NEmpty (or_introl eq_refl)) as (t1 & e1 & R1 & S1 & _).
    destruct (history_eq_sequential hs2 H2 NEmpty (or_introl eq_refl)) as (t2 & e2 & R2 & S2 & _).
    destruct (root_depends_only_on_set resolve _ _ (hist_bytes_ops _ H1) (hist_bytes_ops _ H2) He)
      as (t & f1 & f2 & F1 & F2 & C & _ & G).
    rewrite F1 in S1. rewrite F2 in S2. inversion S1; inversion S2; subst.
    exists t2. auto.
  Qed.

  (* ---------------------------------------------------------------- statements at wfn level, for Properties/C06.v *)

  Theorem get_total fuel n path key :
    (length key < fuel)%nat -> wfn n -> valid_key key ->
    get resolve fuel n path key = TOk (lk n key, n, false, []).
  Proof. intros Hf Hw Hk. apply get_lk; [assumption|right; auto]. Qed.

  Theorem insert_total fuel n prefix key v :
    (length key < fuel)%nat -> wfn n -> valid_key key ->
    exists d n' ev,
      insert resolve fuel n prefix key (NValue v) = TOk (d, n', ev) /\
      wfn n' /\ lk n' key = Some v /\ (forall k', k' <> key -> lk n' k' = lk n k') /\
      (d = false <-> lk n key = Some v) /\ (d = false -> n' = n) /\
      (canon n -> can n').
  Proof.
    intros Hf Hw Hk.
    destruct (insert_spec resolve fuel n prefix key v Hf (or_intror (conj Hk Hw)))
      as (d & n' & ev & E & P1 & P2 & P3 & P4 & P5 & P6 & P7 & _).
    exists d, n', ev. split; [exact E|].
    split; [destruct P1 as [[-> _]|[_ ?]]; [destruct Hk|assumption]|].
    repeat (split; [assumption|]). intros Hc.
    destruct (P7 (or_intror (conj Hk Hc))) as [[-> _]|[_ [?|?]]]; [destruct Hk|congruence|assumption].
  Qed.

  Theorem delete_total fuel n prefix key :
    (length key < fuel)%nat -> wfn n -> valid_key key ->
    exists d n' ev,
      delete resolve fuel n prefix key = TOk (d, n', ev) /\
      wfn n' /\ lk n' key = None /\ (forall k', k' <> key -> lk n' k' = lk n k') /\
      (d = false <-> lk n key = None) /\ (d = false -> n' = n) /\
      (canon n -> canon n').
  Proof.
    intros Hf Hw Hk.
    destruct (delete_spec resolve fuel n prefix key Hf (or_intror (conj Hk Hw)))
      as (d & n' & ev & E & Q1 & Q2 & Q3 & Q4 & Q5 & Q6 & _).
    exists d, n', ev. split; [exact E|].
    split; [destruct Q1 as [[-> _]|[_ ?]]; [destruct Hk|assumption]|].
    repeat (split; [assumption|]). intros Hc.
    destruct (Q6 (or_intror (conj Hk Hc))) as [[-> _]|[_ ?]]; [destruct Hk|assumption].
  Qed.
End Hist.

(* in-memory tries: no hash node anywhere, every full node has 17 children *)
Inductive mem : node -> Prop :=
| mem_empty : mem NEmpty
| mem_value v : mem (NValue v)
| mem_short k c : mem c -> mem (NShort k c)
| mem_full cs : length cs = 17%nat -> (forall i c, nth_error cs i = Some c -> mem c) -> mem (NFull cs).

Lemma wfn_mem n : wfn n -> mem n.
Proof.
  induction n as [| |k c IH|cs IH|] using node_ind'; intros H; inversion H; subst; try constructor; auto.
  - constructor.
  - intros i c Hc. rewrite Forall_forall in IH. specialize (IH c (nth_error_In _ _ Hc)).
    destruct (Nat.lt_ge_cases i 16) as [Hi|Hi]; [eauto|].
    assert (i = 16%nat).
    { assert ((i < length cs)%nat) by (apply nth_error_Some; congruence). lia. }
    subst. destruct (H3 _ Hc) as [->|[v ->]]; constructor.
Qed.

(* ------------------------------------------------------------------ the root hash of a canonical trie is defined *)

Lemma valid_key_snoc k : valid_key k -> exists p, k = p ++ [16].
Proof.
  induction k as [|x k IH]; intros Hk; [destruct Hk|].
  apply valid_key_cons in Hk as [[-> ->]|[_ Hk]]; [exists []; reflexivity|].
  destruct (IH Hk) as [p ->]. exists (x :: p). reflexivity.
Qed.

Lemma nibbles_forallb k : nibbles k -> forallb nibbleb k = true.
Proof.
  intros Hn. apply forallb_forall. intros x Hx. unfold nibbles in Hn. rewrite Forall_forall in Hn.
  specialize (Hn x Hx). unfold nibbleb. lia.
Qed.

Section HashTotal.
  Variable H : list N -> list N.

  (* the loop of encodeFullNode, named *)
  Fixpoint enc_go (i : nat) (l : list node) : option (list N) :=
    match l with
    | [] => Some []
    | c :: r =>
        let e :=
          match c with
          | NEmpty => Some [128]
          | _ =>
              if Nat.eqb i 16 then
                match c with
                | NValue [] => Some [128]
                | NValue v => Some (enc_str v)
                | _ => None
                end
              else
                match c with
                | NHash [] => Some [128]
                | NHash h => Some (write_ref h)
                | NShort _ _ | NFull _ =>
                    match node_enc H c with
                    | Some e => Some (write_ref (ref_of_enc H e))
                    | None => None
                    end
                | _ => None
                end
          end in
        match e, enc_go (S i) r with
        | Some a, Some b => Some (a ++ b)
        | _, _ => None
        end
    end.

  Lemma node_enc_full cs :
    node_enc H (NFull cs) =
    match enc_go 0 cs with Some payload => Some (list_wrap payload) | None => None end.
  Proof. reflexivity. Qed.

  Lemma node_enc_short k c :
    node_enc H (NShort k c) =
    match hex_to_compact k with
    | None => None
    | Some ck =>
        let body :=
          if has_term k then match c with NValue v => Some (enc_str v) | _ => None end
          else match c with
               | NHash h => Some (write_ref h)
               | NShort _ _ | NFull _ =>
                   match node_enc H c with
                   | Some e => Some (write_ref (ref_of_enc H e))
                   | None => None
                   end
               | _ => None
               end in
        match body with Some b => Some (list_wrap (enc_str ck ++ b)) | None => None end
    end.
  Proof. reflexivity. Qed.

  Lemma enc_go_total : forall l i,
    (forall j c, nth_error l j = Some c ->
       (i + j <= 16)%nat /\
       ((i + j < 16)%nat -> c = NEmpty \/ (can c /\ exists e, node_enc H c = Some e)) /\
       ((i + j = 16)%nat -> vslot c)) ->
    exists p, enc_go i l = Some p.
  Proof.
    induction l as [|c r IH]; intros i Hs; [exists []; reflexivity|].
    destruct (IH (S i)) as [pr Er].
    { intros j c0 Hj. specialize (Hs (S j) c0 Hj). rewrite Nat.add_succ_r in Hs. exact Hs. }
    destruct (Hs O c eq_refl) as (Hle & Hlt & Heq). rewrite Nat.add_0_r in *.
    cbn [enc_go]. rewrite Er.
    destruct (Nat.eqb_spec i 16) as [->|Ni].
    - destruct (Heq eq_refl) as [->|[v ->]]; [eexists; reflexivity|]. destruct v; eexists; reflexivity.
    - destruct (Hlt ltac:(lia)) as [->|[Hc [e Ee]]]; [eexists; reflexivity|].
      inversion Hc; subst; rewrite Ee; eexists; reflexivity.
  Qed.

  Lemma node_enc_total n : can n -> exists e, node_enc H n = Some e.
  Proof.
    induction n as [| |k c IH|cs IH|] using node_ind'; intros Hc; try solve [inversion Hc].
    - rewrite node_enc_short. destruct (hex_to_compact_total k) as [ck ->]. cbv zeta.
      destruct (can_short_inv _ _ Hc) as [[Hk [v ->]]|(Hk & Hne & cs & -> & Hcf)].
      + destruct (valid_key_snoc _ Hk) as [p ->]. rewrite has_term_app_16. eexists; reflexivity.
      + rewrite (has_term_nib_false _ (nibbles_forallb _ Hk)). destruct (IH Hcf) as [e ->].
        eexists; reflexivity.
    - rewrite node_enc_full. destruct (can_full_inv _ Hc) as (HL & Hch & H16 & _).
      destruct (enc_go_total cs O) as [p ->]; [|eexists; reflexivity].
      intros j c Hj. simpl.
      assert (Hj17 : (j < 17)%nat) by (rewrite <- HL; apply nth_error_Some; congruence).
      split; [lia|]. split.
      + intros Hj16. destruct (Hch _ _ Hj Hj16) as [->|Hcc]; [left; reflexivity|right].
        split; [assumption|]. rewrite Forall_forall in IH. apply (IH c (nth_error_In _ _ Hj) Hcc).
      + intros ->. apply H16. exact Hj.
  Qed.

  (* Trie.Hash never panics on a canonical trie *)
  Theorem hash_root_total t : canon t -> exists h, hash_root H t = Some h.
  Proof.
    intros [->|Hc]; [eexists; reflexivity|].
    destruct (node_enc_total _ Hc) as [e Ee].
    unfold hash_root, node_ref. inversion Hc; subst; rewrite Ee; eexists; reflexivity.
  Qed.
End HashTotal.

(* the root hashes after two histories with the same final map exist and agree,
   for any hash function *)
Theorem history_root_hash resolve (H : list N -> list N) hs1 hs2 :
  Forall hop_ok hs1 -> Forall hop_ok hs2 ->
  (forall k, final_map (flat_map hop_kvs hs1) k = final_map (flat_map hop_kvs hs2) k) ->
  exists t1 t2 h, run_hist resolve NEmpty hs1 = TOk t1 /\ run_hist resolve NEmpty hs2 = TOk t2 /\
    hash_root H t1 = Some h /\ hash_root H t2 = Some h.
Proof.
  intros H1 H2 He.
  destruct (history_depends_only_on_set resolve hs1 hs2 H1 H2 He) as (t & R1 & R2 & C & _).
  destruct (hash_root_total H t C) as [h Eh]. exists t, t, h. auto.
Qed.

Lemma canon_wfn_mem t : canon t -> wfn t /\ mem t.
Proof. intros H. split; [exact (canon_wfn t H)|exact (wfn_mem t (canon_wfn t H))]. Qed.
