(* Trie/RangeProofs.v — lemmas about Trie/Range.v (C09):
     check_run_spec                 the batch checks = strictly increasing + no deletions (keys of one length)
     collapse_inj / hash_root_inj   Merkle injectivity: under collision freedom the root hash determines a
                                    well-formed trie (from C08's decode_enc)
     range_noproof_exact            the no-proof branch accepts exactly the whole trie content
     pv, ptp_spec, has_right_spec   the partial tree proofToPath builds is a "partial view" of the true trie
                                    (hash placeholders for hashed subtries); proofToPath / hasRightElement
                                    on a database that answers genuine hashes with genuine encodings
     range_empty_* / range_single_* the zero- and one-element branches, sound and complete
     unset_spec, unset_internal_spec  what unset / unsetInternal remove (unset_removes_interior) and keep
     unset_sim, unset_internal_sim, insert_sim(_conv), enc_pv
                                    the partial tree simulates the full trie (unless a hash node is hit) and
                                    hashes like it
     unset_pwf, insert_szi, reinsert_full   the full trie stays well formed
     range_sound_general(_keyed)    the two-edge branch: accepted => the run is the content of [first,last]
     unset_progress, unset_internal_progress, general_total   no panic value on genuine nodes
     range_complete_honest_partial  honest responses get as far as the root comparison
     noproof_empty_key_panics, prefix_key_unset_panics, prefix_key_omission_accepted   witnesses outside the guard
   The hash function is a Section variable with named hypotheses. *)
From GV Require Import Lib.Tactics Lib.Bytes Trie.Hex Trie.HexProofs Trie.Node Trie.Ops Trie.Hash Trie.OpsProofs Trie.Canon.
From GV Require Import Trie.Stack Trie.StackProofs Trie.Proof Trie.ProofProofs Trie.Range.
Local Open Scope N_scope.

(* ------------------------------------------------------------------ byte order, nibble order *)

Lemma slice_lt_irrefl a : slice_lt a a = false.
Proof. induction a as [|x a IH]; [reflexivity|]. simpl. rewrite N.ltb_irrefl, N.eqb_refl. exact IH. Qed.

Lemma slice_lt_nibbles a : forall b, forallb byteb a = true -> forallb byteb b = true ->
  length a = length b -> slice_lt a b = true -> slice_lt (nibbles_of a) (nibbles_of b) = true.
Proof.
  induction a as [|x a IH]; intros [|y b] Ha Hb Hl Hlt; try discriminate.
  simpl in Ha, Hb. apply andb_true_iff in Ha. apply andb_true_iff in Hb.
  destruct Ha as [Hx Ha]. destruct Hb as [Hy Hb]. unfold byteb in Hx, Hy.
  simpl in Hlt. cbn [nibbles_of slice_lt].
  destruct (x <? y) eqn:L.
  - destruct (x / 16 <? y / 16) eqn:L1; [reflexivity|].
    destruct (x / 16 =? y / 16) eqn:E1; [|lia].
    destruct (x mod 16 <? y mod 16) eqn:L2; [reflexivity|]. lia.
  - destruct (x =? y) eqn:E; [|discriminate]. apply N.eqb_eq in E. subst y.
    rewrite !N.ltb_irrefl, !N.eqb_refl. apply IH; auto.
Qed.

Lemma is_prefix_same_len p l : length p = length l -> is_prefix_of p l = true -> p = l.
Proof.
  intros Hl Hp. unfold is_prefix_of in Hp. apply andb_true_iff in Hp. destruct Hp as [Hp _].
  rewrite Hl, firstn_all in Hp. apply bytes_eqb_eq. exact Hp.
Qed.

(* ------------------------------------------------------------------ the checks on the batch *)

Fixpoint sorted_from (prev : list N) (keys : list (list N)) : Prop :=
  match keys with
  | [] => True
  | k :: r => slice_lt prev k = true /\ sorted_from k r
  end.
(* strictly increasing in bytes.Compare order *)
Definition sorted (keys : list (list N)) : Prop :=
  match keys with [] => True | k :: r => sorted_from k r end.

Lemma check_run_spec Lb keys : forall values,
  Forall (fun k => length k = Lb) keys -> length keys = length values ->
  (check_run keys values = None <-> sorted keys /\ Forall (fun v => v <> []) values).
Proof.
  induction keys as [|k kr IH]; intros values HL Hlen.
  - destruct values; [|discriminate]. simpl. split; auto.
  - destruct values as [|v vr]; [discriminate|]. simpl in Hlen.
    inversion HL as [|? ? Hk HL']; subst.
    cbn [check_run]. destruct kr as [|k' kr'].
    + destruct vr; [|discriminate]. destruct v; simpl.
      * split; [discriminate|]. intros [_ F]. inversion F; congruence.
      * split; auto. intros _. split; [exact I|]. constructor; [discriminate|constructor].
    + inversion HL' as [|? ? Hk' _]; subst.
      specialize (IH vr HL' ltac:(lia)).
      destruct (slice_lt k k') eqn:Lt; cbn [negb].
      * destruct (is_prefix_of k k') eqn:Pf.
        { apply is_prefix_same_len in Pf; [|congruence]. subst k'. rewrite slice_lt_irrefl in Lt. discriminate. }
        destruct v as [|b v].
        { split; [discriminate|]. intros [_ F]. inversion F; congruence. }
        rewrite IH. simpl. split.
        -- intros [Sd F]. split; [split; [exact Lt|exact Sd]|]. constructor; [discriminate|exact F].
        -- intros [[_ Sd] F]. inversion F; subst. split; assumption.
      * split; [discriminate|]. intros [[C _] _]. simpl in C. congruence.
Qed.

(* ------------------------------------------------------------------ canonical + good contents = pwf *)

(* every stored value is non-empty and small, every stored key small *)
Definition content_ok (n : node) : Prop :=
  forall k v, lk n k = Some v -> val_ok v /\ small k.

Lemma small_app_r (a b : list N) : small (a ++ b) -> small b.
Proof. unfold small, lenN. rewrite app_length. lia. Qed.
Lemma small_app_l (a b : list N) : small (a ++ b) -> small a.
Proof. unfold small, lenN. rewrite app_length. lia. Qed.

Lemma can_pwf n : can n -> content_ok n -> pwf n.
Proof.
  induction n as [| |k c IH|cs IH|] using node_ind'; intros Hc Hok; inversion Hc; subst.
  - (* leaf *)
    destruct (Hok k v) as [Hv Hk]; [rewrite lk_leaf, bytes_eqb_refl; reflexivity|].
    apply pwf_leaf; assumption.
  - (* extension *)
    assert (Hok' : content_ok (NFull cs)).
    { intros r v L. destruct (Hok (k ++ r) v) as [Hv Hs].
      - rewrite lk_short, strip_app_same. exact L.
      - split; [exact Hv|eapply small_app_r; exact Hs]. }
    apply pwf_ext; auto.
    destruct (can_has_key _ H3) as (r & v & _ & L).
    destruct (Hok (k ++ r) v) as [_ Hs]; [rewrite lk_short, strip_app_same; exact L|].
    eapply small_app_l; exact Hs.
  - (* branch *)
    apply pwf_full; [assumption| |].
    + intros i c Hi Hlt. destruct (H1 i c Hi Hlt) as [->|Hcc]; [left; reflexivity|right].
      rewrite Forall_forall in IH. apply (IH c (nth_error_In _ _ Hi) Hcc).
      intros r v L. destruct (Hok (N.of_nat i :: r) v) as [Hv Hs].
      * rewrite lk_full, Nat2N.id, Hi. exact L.
      * split; [exact Hv|]. apply (small_app_r [N.of_nat i]). exact Hs.
    + intros c Hi. destruct (H2 c Hi) as [->|[v ->]]; [left; reflexivity|right].
      exists v. split; [reflexivity|].
      destruct (Hok [16] v) as [Hv _]; [|exact Hv].
      rewrite lk_full. change (N.to_nat 16) with 16%nat. rewrite Hi. reflexivity.
Qed.

(* ------------------------------------------------------------------ Merkle injectivity *)

Section Inj.
  Variable H : list N -> list N.
  Hypothesis H_len : forall x, length (H x) = 32%nat.
  Variable NS : list N -> Prop.
  Hypothesis H_inj : H_inj_on H NS.

  Lemma cref_pwf c e : pwf c -> node_enc H c = Some e ->
    cref H c (collapse H c) = if Nat.ltb (length e) 32 then collapse H c else NHash (H e).
  Proof.
    intros Hw Ee. destruct (pwf_shape c Hw) as [(k & c' & ->)|(cs & ->)]; unfold cref; rewrite Ee; reflexivity.
  Qed.

  Definition inner_shape (n : node) : Prop :=
    match n with NShort _ _ | NFull _ => True | _ => False end.

  Lemma collapse_shape c : pwf c -> inner_shape (collapse H c).
  Proof. intros Hw. destruct (pwf_shape c Hw) as [(k & c' & ->)|(cs & ->)]; exact I. Qed.

  (* what a slot may hold *)
  Definition slotok (c : node) : Prop := c = NEmpty \/ (exists v, c = NValue v) \/ pwf c.

  Definition inj_at (c : node) : Prop :=
    forall b, pwf b -> (forall e, genuine H b e -> NS e) -> collapse H c = collapse H b -> c = b.

  Lemma cref_slot_inj c c' :
    slotok c -> slotok c' -> (pwf c -> inj_at c) ->
    (forall e, genuine H c e -> NS e) -> (forall e, genuine H c' e -> NS e) ->
    cref H c (collapse H c) = cref H c' (collapse H c') -> c = c'.
  Proof.
    intros Sc Sc' IH Nc Nc' E.
    assert (Hp : forall x, pwf x -> exists e, node_enc H x = Some e /\
              cref H x (collapse H x) = (if Nat.ltb (length e) 32 then collapse H x else NHash (H e)) /\
              inner_shape (collapse H x)).
    { intros x Hx. destruct (pwf_enc_total H H_len x Hx) as [e Ee]. exists e.
      split; [exact Ee|]. split; [apply cref_pwf; assumption|apply collapse_shape; assumption]. }
    destruct Sc as [->|[[v ->]|Hc]]; destruct Sc' as [->|[[v' ->]|Hc']]; cbn [cref] in E; try congruence.
    - destruct (Hp _ Hc') as (e & _ & R & S). rewrite R in E.
      destruct (Nat.ltb (length e) 32); [rewrite <- E in S; destruct S|discriminate].
    - destruct (Hp _ Hc') as (e & _ & R & S). rewrite R in E.
      destruct (Nat.ltb (length e) 32); [rewrite <- E in S; destruct S|discriminate].
    - destruct (Hp _ Hc) as (e & _ & R & S). rewrite R in E.
      destruct (Nat.ltb (length e) 32); [rewrite E in S; destruct S|discriminate].
    - destruct (Hp _ Hc) as (e & _ & R & S). rewrite R in E.
      destruct (Nat.ltb (length e) 32); [rewrite E in S; destruct S|discriminate].
    - destruct (Hp _ Hc) as (e & Ee & R & S). destruct (Hp _ Hc') as (e' & Ee' & R' & S').
      rewrite R, R' in E.
      destruct (Nat.ltb (length e) 32); destruct (Nat.ltb (length e') 32).
      + apply (IH Hc c' Hc' Nc' E).
      + rewrite E in S. destruct S.
      + rewrite <- E in S'. destruct S'.
      + inversion E as [E1].
        assert (e = e').
        { apply H_inj; [apply Nc; apply genuine_self; exact Ee|apply Nc'; apply genuine_self; exact Ee'|exact E1]. }
        subst e'. apply (IH Hc c' Hc' Nc').
        pose proof (decode_enc H H_len c e Hc Ee) as D1.
        pose proof (decode_enc H H_len c' e Hc' Ee') as D2.
        rewrite D1 in D2. inversion D2. reflexivity.
  Qed.

  Lemma collapse_inj a : pwf a -> (forall e, genuine H a e -> NS e) -> inj_at a.
  Proof.
    induction a as [| |k c IH|cs IH|] using node_ind'; intros Ha Na b Hb Nb E; try solve [inversion Ha].
    - (* short *)
      destruct (pwf_shape b Hb) as [(k' & c' & ->)|(cs' & ->)]; [|discriminate].
      cbn [collapse] in E. inversion E as [[Ek Ec]]. subst k'. f_equal.
      apply cref_slot_inj; try assumption.
      + inversion Ha; subst; [right; left; eauto|right; right; assumption].
      + inversion Hb; subst; [right; left; eauto|right; right; assumption].
      + intros Hc. apply IH; [exact Hc|]. intros e Ge. apply Na. apply genuine_short. exact Ge.
      + intros e Ge. apply Na. apply genuine_short. exact Ge.
      + intros e Ge. apply Nb. apply genuine_short. exact Ge.
    - (* branch *)
      destruct (pwf_shape b Hb) as [(k' & c' & ->)|(cs' & ->)]; [discriminate|].
      cbn [collapse] in E. inversion E as [Em]. f_equal.
      inversion Ha as [| |? La Ca Va]; subst. inversion Hb as [| |? Lb Cb Vb]; subst.
      apply nth_error_ext. intros i.
      assert (Ei : nth_error (map (fun c => cref H c (collapse H c)) cs) i =
                   nth_error (map (fun c => cref H c (collapse H c)) cs') i) by (rewrite Em; reflexivity).
      rewrite !nth_error_map in Ei.
      destruct (nth_error cs i) as [c|] eqn:Ci; destruct (nth_error cs' i) as [c'|] eqn:Ci'; try discriminate; [|reflexivity].
      cbn [option_map] in Ei. inversion Ei as [Ec]. f_equal.
      assert (Hi : (i < 17)%nat) by (rewrite <- La; apply nth_error_Some; congruence).
      assert (Sc : slotok c).
      { destruct (Nat.eq_dec i 16) as [->|Hne].
        - destruct (Va c Ci) as [->|(v & -> & _)]; [left; reflexivity|right; left; eauto].
        - destruct (Ca i c Ci ltac:(lia)) as [->|Hc]; [left; reflexivity|right; right; assumption]. }
      assert (Sc' : slotok c').
      { destruct (Nat.eq_dec i 16) as [->|Hne].
        - destruct (Vb c' Ci') as [->|(v & -> & _)]; [left; reflexivity|right; left; eauto].
        - destruct (Cb i c' Ci' ltac:(lia)) as [->|Hc]; [left; reflexivity|right; right; assumption]. }
      apply cref_slot_inj; try assumption.
      + intros Hc. rewrite Forall_forall in IH. apply (IH c (nth_error_In _ _ Ci) Hc).
        intros e Ge. apply Na. eapply genuine_full; eassumption.
      + intros e Ge. apply Na. eapply genuine_full; eassumption.
      + intros e Ge. apply Nb. eapply genuine_full; eassumption.
  Qed.

  (* the root hash determines the trie *)
  Theorem hash_root_inj a b r :
    (a = NEmpty \/ pwf a) -> (b = NEmpty \/ pwf b) -> NS empty_root_preimage ->
    (forall e, genuine H a e -> NS e) -> (forall e, genuine H b e -> NS e) ->
    hash_root H a = Some r -> hash_root H b = Some r -> a = b.
  Proof.
    intros Ha Hb N0 Na Nb Ra Rb.
    assert (Hne : forall x e, pwf x -> node_enc H x = Some e -> e <> empty_root_preimage).
    { intros x e Hx Ee Eq. subst e. pose proof (decode_enc H H_len x _ Hx Ee) as D.
      vm_compute in D. discriminate. }
    destruct Ha as [->|Ha]; destruct Hb as [->|Hb].
    - reflexivity.
    - destruct (pwf_enc_total H H_len b Hb) as [e Ee].
      rewrite (pwf_hash_root H b e Hb Ee) in Rb. simpl in Ra. rewrite <- Rb in Ra. inversion Ra as [E].
      apply H_inj in E; [|exact N0|apply Nb; apply genuine_self; exact Ee].
      exfalso. apply (Hne b e Hb Ee). congruence.
    - destruct (pwf_enc_total H H_len a Ha) as [e Ee].
      rewrite (pwf_hash_root H a e Ha Ee) in Ra. simpl in Rb. rewrite <- Ra in Rb. inversion Rb as [E].
      apply H_inj in E; [|exact N0|apply Na; apply genuine_self; exact Ee].
      exfalso. apply (Hne a e Ha Ee). congruence.
    - destruct (pwf_enc_total H H_len a Ha) as [ea Ea]. destruct (pwf_enc_total H H_len b Hb) as [eb Eb].
      rewrite (pwf_hash_root H a ea Ha Ea) in Ra. rewrite (pwf_hash_root H b eb Hb Eb) in Rb.
      rewrite <- Rb in Ra. inversion Ra as [E].
      apply H_inj in E; [|apply Na; apply genuine_self; exact Ea|apply Nb; apply genuine_self; exact Eb].
      subst eb. apply (collapse_inj a Ha Na b Hb Nb).
      pose proof (decode_enc H H_len a ea Ha Ea) as D1. pose proof (decode_enc H H_len b ea Hb Eb) as D2.
      rewrite D1 in D2. inversion D2. reflexivity.
  Qed.
End Inj.

(* ------------------------------------------------------------------ the no-proof branch *)

Lemma combine_fst {A B} (l : list A) : forall (l' : list B), length l = length l' -> map fst (combine l l') = l.
Proof. induction l as [|x l IH]; intros [|y l'] E; try discriminate; [reflexivity|]. simpl. f_equal. apply IH. simpl in E. lia. Qed.
Lemma combine_snd {A B} (l : list A) : forall (l' : list B), length l = length l' -> map snd (combine l l') = l'.
Proof. induction l as [|x l IH]; intros [|y l'] E; try discriminate; [reflexivity|]. simpl. f_equal. apply IH. simpl in E. lia. Qed.

Lemma asc_of_sorted Lb keys : forall values prev,
  length keys = length values -> (0 < Lb)%nat ->
  length prev = Lb -> forallb byteb prev = true ->
  Forall (fun k => length k = Lb /\ forallb byteb k = true) keys ->
  sorted_from prev keys -> asc (nibbles_of prev) (combine keys values).
Proof.
  induction keys as [|k kr IH]; intros [|v vr] prev E HL Hp Hb HF Hs; try discriminate; [exact I|].
  inversion HF as [|? ? [Hk Hkb] HF']; subst. destruct Hs as [Hlt Hs]. simpl. split.
  - apply slice_lt_nibbles; auto.
  - apply IH; auto.
Qed.

Lemma asc_nil_of_sorted Lb keys values :
  length keys = length values -> (0 < Lb)%nat ->
  Forall (fun k => length k = Lb /\ forallb byteb k = true) keys ->
  sorted keys -> asc [] (combine keys values).
Proof.
  intros E HL HF Hs. destruct keys as [|k kr]; [exact I|]. destruct values as [|v vr]; [discriminate|].
  inversion HF as [|? ? [Hk Hkb] HF']; subst. simpl. split.
  - destruct k as [|b k]; [simpl in HL; lia|reflexivity].
  - eapply asc_of_sorted; eauto.
Qed.

Lemma apply_ops_some ops : forall m k v, apply_ops m ops k = Some v ->
  m k = Some v \/ (In (k, v) ops /\ v <> []).
Proof.
  induction ops as [|[k0 v0] ops IH]; intros m k v E; [left; exact E|].
  simpl in E. destruct (IH _ _ _ E) as [P|[P Q]].
  - unfold put in P. destruct (bytes_eqb k k0) eqn:B; [|left; exact P].
    apply bytes_eqb_eq in B. subst k0. right. destruct v0; [discriminate|]. simpl in P. inversion P; subst.
    split; [left; reflexivity|discriminate].
  - right. split; [right; exact P|exact Q].
Qed.

Section NoProof.
  Variable H : list N -> list N.
  Hypothesis H_len : forall x, length (H x) = 32%nat.
  Variable NS : list N -> Prop.
  Hypothesis H_inj : H_inj_on H NS.

  Lemma stack_feed_of_st_feed : forall kvs s s',
    st_feed H s kvs = Some s' -> Forall (fun kv => fst kv <> []) kvs ->
    stack_feed H s (map fst kvs) (map snd kvs) = TOk s'.
  Proof.
    induction kvs as [|[k v] kvs IH]; intros s s' E HF; [simpl in E; inversion E; reflexivity|].
    inversion HF as [|? ? Hk HF']; subst. simpl in Hk. cbn [st_feed] in E. cbn [map fst snd stack_feed].
    destruct k as [|b k]; [congruence|].
    destruct (st_update H s (b :: k) v) as [[c|s1]|e]; try discriminate.
    apply IH; assumption.
  Qed.

  (* the run (keys, values) as the map it denotes, on hex keys *)
  Definition run_map (keys values : list (list N)) : list N -> option (list N) :=
    apply_ops (fun _ => None) (hexops (combine keys values)).

  Lemma never_more_noproof r first keys values :
    verify_range_proof H r first keys values None <> Rok true.
  Proof.
    unfold verify_range_proof. destruct (negb _); [discriminate|]. destruct (check_run _ _); [discriminate|].
    destruct (stack_feed _ _ _ _); [|discriminate]. destruct (st_root _ _); [|discriminate].
    destruct (bytes_eqb _ _); discriminate.
  Qed.

  (* what both directions share: the stack trie accepts the run and its root is the
     root of the canonical trie [t'] holding exactly the run *)
  Lemma noproof_core keys values Lb :
    length keys = length values -> (0 < Lb)%nat -> N.of_nat Lb < 2 ^ 30 ->
    Forall (fun k => length k = Lb /\ forallb byteb k = true) keys ->
    Forall small values -> sorted keys -> Forall (fun v => v <> []) values ->
    exists s t' ev h,
      stack_feed H stack_new keys values = TOk s /\ st_root H s = TOk h /\
      update_seq no_resolve NEmpty (combine keys values) = TOk (t', ev) /\
      hash_root H t' = Some h /\ canon t' /\ (t' = NEmpty \/ pwf t') /\
      forall hk, lk t' hk = run_map keys values hk.
  Proof.
    intros E HL HLs HF HV Hs Hne.
    set (kvs := combine keys values).
    assert (Hfst : map fst kvs = keys) by (apply combine_fst; exact E).
    assert (Hsnd : map snd kvs = values) by (apply combine_snd; exact E).
    assert (HB : bytes_ops kvs).
    { unfold bytes_ops. apply Forall_forall. intros [k v] Hin. simpl.
      assert (In k keys) by (rewrite <- Hfst; apply (in_map fst _ _ Hin)).
      rewrite Forall_forall in HF. destruct (HF k ltac:(assumption)) as [_ Hb]. exact Hb. }
    assert (HF2 : Forall (fun kv => snd kv <> [] /\ length (fst kv) = Lb) kvs).
    { apply Forall_forall. intros [k v] Hin. simpl.
      assert (In k keys) by (rewrite <- Hfst; apply (in_map fst _ _ Hin)).
      assert (In v values) by (rewrite <- Hsnd; apply (in_map snd _ _ Hin)).
      rewrite Forall_forall in HF, Hne. split; [apply Hne; assumption|apply HF; assumption]. }
    assert (Hasc : asc [] kvs) by (eapply asc_nil_of_sorted; eauto).
    destruct (stack_trie_root H H_len no_resolve kvs Lb HB HF2 Hasc) as (s & t' & ev & h & F1 & F2 & F3 & F4).
    destruct (update_seq_spec no_resolve kvs HB NEmpty (fun _ => None) (or_introl eq_refl) (fun hk => lk_empty hk))
      as (t2 & ev2 & G1 & G2 & G3).
    rewrite F2 in G1. inversion G1; subst t2 ev2.
    exists s, t', ev, h. split.
    { rewrite <- Hfst at 1. rewrite <- Hsnd. apply stack_feed_of_st_feed; [exact F1|].
      apply Forall_forall. intros [k v] Hin. simpl. rewrite Forall_forall in HF2.
      destruct (HF2 _ Hin) as [_ Hk]. simpl in Hk. intros ->. simpl in Hk. lia. }
    split; [exact F3|]. split; [exact F2|]. split; [exact F4|]. split; [exact G2|]. split; [|exact G3].
    destruct G2 as [->|Hcan]; [left; reflexivity|right]. apply can_pwf; [exact Hcan|].
    intros hk v L. rewrite G3 in L. apply apply_ops_some in L. destruct L as [L|[Hin Hv]]; [discriminate|].
    unfold hexops in Hin. apply in_map_iff in Hin. destruct Hin as ([k v0] & Eq & Hin). simpl in Eq. inversion Eq; subst hk v0.
    assert (Hk : In k keys) by (rewrite <- Hfst; apply (in_map fst _ _ Hin)).
    assert (Hvv : In v values) by (rewrite <- Hsnd; apply (in_map snd _ _ Hin)).
    rewrite Forall_forall in HF, HV. split; [split; [exact Hv|apply HV; exact Hvv]|].
    destruct (HF k Hk) as [Hlen _]. unfold small, lenN, keybytes_to_hex.
    rewrite app_length, nibbles_of_length, Hlen. simpl. lia.
  Qed.

  (* range_noproof_exact: without edge proofs the verifier accepts exactly the runs that
     are the WHOLE content of the trie (and never reports more entries) *)
  Theorem range_noproof_exact t r first keys values Lb :
    canon t -> content_ok t -> hash_root H t = Some r ->
    (0 < Lb)%nat -> N.of_nat Lb < 2 ^ 30 ->
    Forall (fun k => length k = Lb /\ forallb byteb k = true) keys -> Forall small values ->
    NS empty_root_preimage -> (forall e, genuine H t e -> NS e) ->
    (forall t' ev, update_seq no_resolve NEmpty (combine keys values) = TOk (t', ev) ->
                   forall e, genuine H t' e -> NS e) ->
    (verify_range_proof H r first keys values None = Rok false <->
     length keys = length values /\ sorted keys /\ Forall (fun v => v <> []) values /\
     forall hk, lk t hk = run_map keys values hk).
  Proof.
    intros Hc Hok Hr HL HLs HF HV N0 Nt Nt'.
    assert (HFl : Forall (fun k => length k = Lb) keys) by (eapply Forall_impl; [|exact HF]; intros k [? _]; assumption).
    assert (Hpt : t = NEmpty \/ pwf t) by (destruct Hc as [->|Hcan]; [left; reflexivity|right; apply can_pwf; assumption]).
    split.
    - intros A. unfold verify_range_proof in A.
      destruct (Nat.eqb (length keys) (length values)) eqn:E; [|discriminate]. apply Nat.eqb_eq in E. cbn [negb] in A.
      destruct (check_run keys values) eqn:C; [discriminate|].
      apply (check_run_spec Lb keys values HFl E) in C. destruct C as [Hs Hne].
      destruct (noproof_core keys values Lb E HL HLs HF HV Hs Hne) as (s & t' & ev & h & F1 & F2 & F3 & F4 & F5 & F6 & F7).
      rewrite F1, F2 in A. destruct (bytes_eqb h r) eqn:B; [|discriminate]. apply bytes_eqb_eq in B. subst h.
      assert (t' = t).
      { apply (hash_root_inj H H_len NS H_inj t' t r); auto. intros e Ge. eapply Nt'; eauto. }
      subst t'. repeat split; auto.
    - intros (E & Hs & Hne & Hl).
      destruct (noproof_core keys values Lb E HL HLs HF HV Hs Hne) as (s & t' & ev & h & F1 & F2 & F3 & F4 & F5 & F6 & F7).
      assert (t' = t).
      { apply canon_unique; [exact F5|exact Hc|]. intros k _. rewrite F7, Hl. reflexivity. }
      subst t'. rewrite Hr in F4. inversion F4; subst h.
      unfold verify_range_proof. rewrite E, Nat.eqb_refl. cbn [negb].
      destruct (check_run keys values) eqn:C.
      + exfalso. assert (check_run keys values = None) by (apply (check_run_spec Lb keys values HFl E); auto). congruence.
      + rewrite F1, F2, bytes_eqb_refl. reflexivity.
  Qed.
End NoProof.

(* ------------------------------------------------------------------ witnesses outside the guard
   "non-empty keys of one fixed length" (all three reproduced on the real code) *)

(* F1: an empty key in the no-proof branch: StackTrie.Update -> writeHexKey panics *)
Lemma noproof_empty_key_panics H r first :
  verify_range_proof H r first [[]] [[1]] None = Rerr RPanic.
Proof. reflexivity. Qed.

Definition run_trie (ops : list (list N * list N)) : node :=
  match update_seq no_resolve NEmpty ops with TOk (t, _) => t | TErr _ => NEmpty end.
Definition proof_nodes (t : node) (k : list N) : pdb :=
  match prove toy_hash no_resolve t k with TOk db => db | TErr _ => [] end.
Definition honest_proof (t : node) (first last : list N) : pdb := proof_nodes t first ++ proof_nodes t last.
Definition toy_root (t : node) : list N := match hash_root toy_hash t with Some r => r | None => [] end.

(* F2: the trie {01, 0102, 02}: 01 is a proper prefix of 0102 *)
Definition w2_ops : list (list N * list N) := [([1], [170]); ([1; 2], [187]); ([2], [204])].
Definition w2_t : node := Eval vm_compute in run_trie w2_ops.
(* F3: the trie {11, 1110, 111000, 20} *)
Definition w3_ops : list (list N * list N) := [([17], [170]); ([17; 16], [187]); ([17; 16; 0], [204]); ([32], [221])].
Definition w3_t : node := Eval vm_compute in run_trie w3_ops.

Lemma prefix_key_unset_panics :
  (exists ev, update_seq no_resolve NEmpty w2_ops = TOk (w2_t, ev)) /\
  verify_range_proof toy_hash (toy_root w2_t) [1] [[1]; [2]] [[170]; [204]]
    (Some (honest_proof w2_t [1] [2])) = Rerr RPanic.
Proof. split; [eexists|]; vm_compute; reflexivity. Qed.

Lemma prefix_key_omission_accepted :
  (exists ev, update_seq no_resolve NEmpty w3_ops = TOk (w3_t, ev)) /\
  lk w3_t (keybytes_to_hex [17; 16]) = Some [187] /\
  slice_lt [17; 15; 255] [17; 16] = true /\ slice_lt [17; 16] [17; 16; 0] = true /\
  verify_range_proof toy_hash (toy_root w3_t) [17; 15; 255] [[17; 16; 0]] [[204]]
    (Some (honest_proof w3_t [17; 15; 255] [17; 16; 0])) = Rok true.
Proof.
  split; [eexists; vm_compute; reflexivity|]. split; [vm_compute; reflexivity|].
  split; [reflexivity|]. split; [reflexivity|]. vm_compute. reflexivity.
Qed.

(* ------------------------------------------------------------------ a concrete non-trivial instance *)

Definition ex9_ops : list (list N * list N) :=
  [([1], repeat 7 33); ([16], [5; 6]); ([17], repeat 9 40); ([18], [1]); ([240], [2; 3])].
Definition ex9_t : node := Eval vm_compute in run_trie ex9_ops.

Definition rr_eqb (a b : rr bool) : bool :=
  match a, b with
  | Rok x, Rok y => Bool.eqb x y
  | Rerr RRoot, Rerr RRoot | Rerr RMore, Rerr RMore | Rerr RMissing, Rerr RMissing => true
  | _, _ => false
  end.

(* a toy hash that separates different inputs well enough for the examples: the bytes read
   as the coefficients of a polynomial evaluated at 257 modulo 2^255 - 19, 32 bytes big endian
   (Proof.toy_hash is a prefix and collides on encodings sharing their first 32 bytes) *)
Fixpoint to_bytes (n : nat) (v : N) : list N :=
  match n with
  | O => []
  | S n' => to_bytes n' (v / 256) ++ [v mod 256]
  end.
Lemma to_bytes_length n : forall v, length (to_bytes n v) = n.
Proof. induction n as [|n IH]; intros v; [reflexivity|]. simpl. rewrite app_length, IH. simpl. lia. Qed.
Definition poly_mod : N := 2 ^ 255 - 19.
Definition poly_hash (x : list N) : list N :=
  to_bytes 32 (fold_left (fun a b => (a * 257 + b + 1) mod poly_mod) x (N.of_nat (length x))).
Lemma poly_hash_len x : length (poly_hash x) = 32%nat.
Proof. apply to_bytes_length. Qed.

Definition pproof_nodes (t : node) (k : list N) : pdb :=
  match prove poly_hash no_resolve t k with TOk db => db | TErr _ => [] end.
Definition phonest (t : node) (first last : list N) : pdb := pproof_nodes t first ++ pproof_nodes t last.
Definition poly_root (t : node) : list N := match hash_root poly_hash t with Some r => r | None => [] end.

(* whole trie without proof; an honest run 10..11 from the absent start key 02 (more);
   the same run with 11 dropped (rejected); the honest tail 12..f0 (no more); an honest
   empty run after the last key; an empty run claimed before the last key (rejected);
   a single-element run *)
Definition ex9_checkp : bool :=
  let r := poly_root ex9_t in
  let v k := match lk ex9_t (keybytes_to_hex [k]) with Some v => v | None => [] end in
  rr_eqb (verify_range_proof poly_hash r [] [[1]; [16]; [17]; [18]; [240]] [v 1; v 16; v 17; v 18; v 240] None) (Rok false) &&
  rr_eqb (verify_range_proof poly_hash r [] [[1]; [16]; [17]; [240]] [v 1; v 16; v 17; v 240] None) (Rerr RRoot) &&
  rr_eqb (verify_range_proof poly_hash r [2] [[16]; [17]] [v 16; v 17] (Some (phonest ex9_t [2] [17]))) (Rok true) &&
  rr_eqb (verify_range_proof poly_hash r [2] [[16]] [v 16] (Some (phonest ex9_t [2] [17]))) (Rok true) &&
  rr_eqb (verify_range_proof poly_hash r [2] [[17]] [v 17] (Some (phonest ex9_t [2] [17]))) (Rerr RRoot) &&
  rr_eqb (verify_range_proof poly_hash r [1] [[1]; [17]] [v 1; v 17] (Some (phonest ex9_t [1] [17]))) (Rerr RRoot) &&
  rr_eqb (verify_range_proof poly_hash r [18] [[18]; [240]] [v 18; v 240] (Some (phonest ex9_t [18] [240]))) (Rok false) &&
  rr_eqb (verify_range_proof poly_hash r [241] [] [] (Some (pproof_nodes ex9_t [241]))) (Rok false) &&
  rr_eqb (verify_range_proof poly_hash r [200] [] [] (Some (pproof_nodes ex9_t [200]))) (Rerr RMore) &&
  rr_eqb (verify_range_proof poly_hash r [17] [[17]] [v 17] (Some (pproof_nodes ex9_t [17]))) (Rok true) &&
  pwfb ex9_t && inj_onb poly_hash ([128] :: encs_of poly_hash ex9_t).

Lemma ex9_checkp_ok : ex9_checkp = true.
Proof. vm_compute. reflexivity. Qed.

(* ------------------------------------------------------------------ partial views and proofToPath *)

Section Paths.
  Variable H : list N -> list N.
  Hypothesis H_len : forall x, length (H x) = 32%nat.
  Variable db : pdb.
  (* the database answers the hash of an encoding in [P] only with that encoding *)
  Variable P : list N -> Prop.
  Hypothesis faithful : forall e b, P e -> db_get db (H e) = Some b -> b = e.

  (* [pv p t]: [p] is the true (sub)trie [t] with some hashed subtries left as
     hash references — the shape of the tree proofToPath builds *)
  Inductive pv : node -> node -> Prop :=
  | pv_empty : pv NEmpty NEmpty
  | pv_value v : pv (NValue v) (NValue v)
  | pv_hash t e : pwf t -> node_enc H t = Some e -> (32 <= length e)%nat -> pv (NHash (H e)) t
  | pv_short k c c' : pv c c' -> pv (NShort k c) (NShort k c')
  | pv_full cs cs' : length cs = length cs' ->
      (forall i c c', nth_error cs i = Some c -> nth_error cs' i = Some c' -> pv c c') ->
      pv (NFull cs) (NFull cs').

  Lemma pv_cref c : slotok c -> (pwf c -> pv (collapse H c) c) -> pv (cref H c (collapse H c)) c.
  Proof.
    intros [->|[[v ->]|Hc]] IH; cbn [cref]; [constructor|constructor|].
    destruct (pwf_enc_total H H_len c Hc) as [e Ee]. rewrite (cref_pwf H c e Hc Ee).
    destruct (Nat.ltb (length e) 32) eqn:L; [apply IH; exact Hc|].
    apply pv_hash; auto. apply Nat.ltb_ge in L. exact L.
  Qed.

  Lemma pwf_full_slot cs i c : pwf (NFull cs) -> nth_error cs i = Some c -> slotok c.
  Proof.
    intros Hw Hi. inversion Hw as [| |? L C V]; subst.
    assert (i < 17)%nat by (rewrite <- L; apply nth_error_Some; congruence).
    destruct (Nat.eq_dec i 16) as [->|Hne].
    - destruct (V c Hi) as [->|(v & -> & _)]; [left; reflexivity|right; left; eauto].
    - destruct (C i c Hi ltac:(lia)) as [->|Hc]; [left; reflexivity|right; right; assumption].
  Qed.

  Lemma pv_collapse t : pwf t -> pv (collapse H t) t.
  Proof.
    induction t as [| |k c IH|cs IH|] using node_ind'; intros Hw; try solve [inversion Hw].
    - cbn [collapse]. apply pv_short. apply pv_cref; [|exact IH].
      inversion Hw; subst; [right; left; eauto|right; right; assumption].
    - cbn [collapse]. apply pv_full; [apply map_length|].
      intros i c1 c' E1 E'. rewrite nth_error_map, E' in E1. cbn [option_map] in E1. inversion E1; subst c1.
      apply pv_cref; [eapply pwf_full_slot; eassumption|].
      rewrite Forall_forall in IH. apply IH. eapply nth_error_In; exact E'.
  Qed.

  Lemma resolve_pv h t : pv (NHash h) t -> (forall e, genuine H t e -> P e) ->
    (resolve_node db h = Rerr RMissing /\ exists e, node_enc H t = Some e /\ (32 <= length e)%nat /\ db_get db (H e) = None) \/
    resolve_node db h = Rok (collapse H t).
  Proof.
    intros Hp HP. inversion Hp as [| |t0 e Hw Ee Le| |]; subst. unfold resolve_node.
    destruct (db_get db (H e)) as [b|] eqn:G.
    - right. assert (b = e) by (apply faithful; [apply HP; apply genuine_self; exact Ee|exact G]). subst b.
      rewrite (decode_enc H H_len t e Hw Ee). reflexivity.
    - left. split; [reflexivity|]. exists e. auto.
  Qed.

  (* the path of [key] in [n] runs through resolved nodes only, until it ends *)
  Fixpoint res_along (n : node) (key : list N) {struct n} : Prop :=
    match n with
    | NHash _ => False
    | NShort nk c => if is_prefix_of nk key then res_along c (skipn (length nk) key) else True
    | NFull cs =>
        match key with
        | [] => True
        | k0 :: kr =>
            (fix go (l : list node) (i : nat) {struct l} : Prop :=
               match l with
               | [] => True
               | c :: l' => match i with O => res_along c kr | S i' => go l' i' end
               end) cs (N.to_nat k0)
        end
    | _ => True
    end.

  Lemma res_along_full cs k0 kr :
    res_along (NFull cs) (k0 :: kr) =
    match nth_error cs (N.to_nat k0) with Some c => res_along c kr | None => True end.
  Proof.
    cbn [res_along]. generalize (N.to_nat k0). induction cs as [|c cs IH]; intros [|i]; simpl; auto.
  Qed.

  (* the part of proofToPath's loop body after get *)
  Definition ptp_step (f : nat) (allow : bool) (parent : node) (key keyrest : list N) (cld : node)
    : rr (node * option (list N)) :=
    match cld with
    | NEmpty => if allow then Rok (parent, None) else Rerr RNotContained
    | NShort _ _ | NFull _ =>
        match ptp f db allow cld keyrest with
        | Rerr e => Rerr e
        | Rok (c', v) =>
            match ptp_link parent key c' with
            | Some p' => Rok (p', v)
            | None => Rerr RPanic
            end
        end
    | NHash h =>
        match resolve_node db h with
        | Rerr e => Rerr e
        | Rok c =>
            match ptp_link parent key c with
            | None => Rerr RPanic
            | Some _ =>
                match ptp f db allow c keyrest with
                | Rerr e => Rerr e
                | Rok (c', v) =>
                    match ptp_link parent key c' with
                    | Some p' => Rok (p', v)
                    | None => Rerr RPanic
                    end
                end
            end
        end
    | NValue v =>
        match ptp_link parent key cld with
        | None => Rerr RPanic
        | Some p' => match v with [] => Rerr RPanic | _ :: _ => Rok (p', Some v) end
        end
    end.

  Lemma ptp_S f allow parent key :
    ptp (S f) db allow parent key =
    match ptp_get parent key with
    | None => Rerr RPanic
    | Some (keyrest, cld) => ptp_step f allow parent key keyrest cld
    end.
  Proof. reflexivity. Qed.

  Definition ptp_post (allow : bool) (t : node) (key : list N) (r : rr (node * option (list N))) : Prop :=
    match r with
    | Rok (p', v) => pv p' t /\ inner_shape p' /\ v = lk t key /\ res_along p' key /\ (allow = false -> v <> None)
    | Rerr e => (e = RMissing /\ missing_on H db t key) \/ (e = RNotContained /\ allow = false /\ lk t key = None)
    end.

  Definition ptp_ok (f : nat) : Prop :=
    forall p t key allow, pv p t -> pwf t -> inner_shape p -> valid_key key -> (length key < f)%nat ->
      (forall e, genuine H t e -> P e) -> ptp_post allow t key (ptp f db allow p key).

  (* one child slot [c'] of [t], reached with [keyrest] still to go *)
  Lemma ptp_step_spec f allow parent t key keyrest cld c' :
    ptp_ok f ->
    pv parent t -> inner_shape parent -> pv cld c' ->
    (cld = NEmpty -> res_along parent key) ->
    (forall c2, pv c2 c' -> (c2 = cld \/ inner_shape c2) -> exists p', ptp_link parent key c2 = Some p' /\ pv p' t /\ inner_shape p' /\
        (res_along c2 keyrest -> res_along p' key)) ->
    lk t key = lk c' keyrest ->
    (missing_on H db c' keyrest -> missing_on H db t key) ->
    (c' = NEmpty \/ (exists v, c' = NValue v /\ keyrest = [] /\ val_ok v) \/
     (pwf c' /\ valid_key keyrest /\ (length keyrest < f)%nat)) ->
    (forall e, genuine H c' e -> P e) ->
    ptp_post allow t key (ptp_step f allow parent key keyrest cld).
  Proof.
    intros IH Hpar Hin Hpv Hres Hlink Hlk Hmiss Hslot HP.
    assert (Hrec : forall c, pv c c' -> inner_shape c -> pwf c' -> valid_key keyrest -> (length keyrest < f)%nat ->
              ptp_post allow t key
                (match ptp f db allow c keyrest with
                 | Rerr e => Rerr e
                 | Rok (c2, v) => match ptp_link parent key c2 with Some p' => Rok (p', v) | None => Rerr RPanic end
                 end)).
    { intros c Hc Hic Hw Hk Hf. pose proof (IH c c' keyrest allow Hc Hw Hic Hk Hf HP) as Q.
      destruct (ptp f db allow c keyrest) as [[c2 v]|e]; cbn [ptp_post] in Q |- *.
      - destruct Q as (Q1 & Q2 & Q3 & Q4 & Q5).
        destruct (Hlink c2 Q1 (or_intror Q2)) as (p' & -> & L1 & L2 & L3). cbn [ptp_post].
        split; [exact L1|]. split; [exact L2|]. split; [congruence|]. split; [auto|exact Q5].
      - destruct Q as [[-> M]|(-> & A & L)]; [left; auto|right]. split; [reflexivity|]. split; [exact A|congruence]. }
    destruct Hslot as [->|[(v & -> & -> & Hv)|(Hw & Hk & Hf)]].
    - (* nil *)
      inversion Hpv as [| |t0 e0 Hw0| |]; subst; [|inversion Hw0]. cbn [ptp_step]. rewrite lk_empty in Hlk. destruct allow; cbn [ptp_post].
      + split; [exact Hpar|]. split; [exact Hin|]. split; [congruence|]. split; [auto|discriminate].
      + right. auto.
    - (* the value *)
      inversion Hpv as [| |t0 e0 Hw0| |]; subst; [|inversion Hw0]. cbn [ptp_step].
      destruct (Hlink (NValue v) (pv_value v) (or_introl eq_refl)) as (p' & -> & L1 & L2 & L3).
      destruct Hv as [Hne _]. destruct v as [|b v]; [congruence|]. cbn [ptp_post].
      split; [exact L1|]. split; [exact L2|]. rewrite lk_value in Hlk. split; [congruence|].
      split; [apply L3; exact I|]. intros _. discriminate.
    - (* a node *)
      destruct (pwf_shape c' Hw) as [(k & x & ->)|(cs & ->)].
      + inversion Hpv as [| |t0 e Hw0 Ee Le|k0 c0 x0 Hc0|]; subst.
        * (* hashed *)
          cbn [ptp_step].
          destruct (resolve_pv _ _ Hpv HP) as [[-> (e' & Ee' & Le' & G)] | ->].
          { cbn [ptp_post]. left. split; [reflexivity|]. apply Hmiss.
            exists (NShort k x), e'. split; [apply path_nodes_head; [exact Hw|destruct keyrest; [destruct Hk|discriminate]]|auto]. }
          destruct (Hlink _ (pv_collapse _ Hw) (or_intror (collapse_shape H _ Hw))) as (p0 & -> & _).
          apply Hrec; auto. apply pv_collapse; exact Hw. apply (collapse_shape H _ Hw).
        * cbn [ptp_step]. apply (Hrec (NShort k c0)); auto. exact I.
      + inversion Hpv as [| |t0 e Hw0 Ee Le| |cs0 cs1 Hl Hcs]; subst.
        * cbn [ptp_step].
          destruct (resolve_pv _ _ Hpv HP) as [[-> (e' & Ee' & Le' & G)] | ->].
          { cbn [ptp_post]. left. split; [reflexivity|]. apply Hmiss.
            exists (NFull cs), e'. split; [apply path_nodes_head; [exact Hw|destruct keyrest; [destruct Hk|discriminate]]|auto]. }
          destruct (Hlink _ (pv_collapse _ Hw) (or_intror (collapse_shape H _ Hw))) as (p0 & -> & _).
          apply Hrec; auto. apply pv_collapse; exact Hw. apply (collapse_shape H _ Hw).
        * cbn [ptp_step]. apply (Hrec (NFull cs0)); auto. exact I.
  Qed.

  Lemma ptp_spec : forall f, ptp_ok f.
  Proof.
    induction f as [|f IH]; intros p t key allow Hpv Hw Hin Hk Hf HP; [lia|].
    rewrite ptp_S. destruct p as [| |k p|cs|]; try destruct Hin.
    - (* short node *)
      inversion Hpv as [| | |k0 c0 c' Hc|]; subst.
      cbn [ptp_get]. pose proof (is_prefix_strip k key) as Sp. destruct (strip k key) as [r|] eqn:E.
      + destruct Sp as [S1 S2]. rewrite S1, S2. cbn [negb].
        assert (Hkey : key = k ++ r) by (apply strip_some; exact E).
        apply ptp_step_spec with (c' := c'); auto.
        * exact I.
        * intros ->. cbn [res_along]. rewrite S1. exact I.
        * intros c2 Hc2 _. exists (NShort k c2). split; [reflexivity|]. split; [apply pv_short; exact Hc2|].
          split; [exact I|]. intros R. cbn [res_along]. rewrite S1, S2. exact R.
        * rewrite lk_short, E. reflexivity.
        * apply missing_short; [exact E|]. intros ->. destruct Hk.
        * subst key. inversion Hw as [? v Vk Sk Hv|? ? Nk Ne Sk Hc'|]; subst.
          -- right; left. exists v. split; [reflexivity|]. split; [|exact Hv].
             eapply valid_key_prefix_end; eassumption.
          -- right; right. split; [exact Hc'|].
             assert (r <> []).
             { intros ->. rewrite app_nil_r in Hk. eapply valid_key_not_nibbles; eassumption. }
             destruct (valid_key_app_inv _ _ Hk ltac:(assumption)) as [_ Vr]. split; [exact Vr|].
             rewrite app_length in Hf. destruct k; [congruence|]. simpl in Hf. lia.
        * intros e Ge. apply HP. apply genuine_short. exact Ge.
      + rewrite Sp. cbn [negb ptp_step].
        assert (L : lk (NShort k c') key = None) by (rewrite lk_short, E; reflexivity).
        destruct allow; cbn [ptp_post].
        * split; [exact Hpv|]. split; [exact I|]. split; [congruence|]. split; [|discriminate].
          cbn [res_along]. rewrite Sp. exact I.
        * right. auto.
    - (* full node *)
      inversion Hpv as [| | | |cs0 cs' Hl Hcs]; subst.
      destruct key as [|k0 kr]; [destruct Hk|].
      assert (L17 : length cs' = 17%nat) by (inversion Hw; assumption).
      pose proof (valid_key_hd_le _ _ Hk) as Hk0.
      assert (Hi : (N.to_nat k0 < 17)%nat) by lia.
      destruct (nth_error cs (N.to_nat k0)) as [c|] eqn:Ec; [|apply nth_error_None in Ec; lia].
      destruct (nth_error cs' (N.to_nat k0)) as [c'|] eqn:Ec'; [|apply nth_error_None in Ec'; lia].
      cbn [ptp_get]. unfold child. rewrite Ec.
      apply ptp_step_spec with (c' := c'); auto.
      + exact I.
      + eapply Hcs; eassumption.
      + intros ->. rewrite res_along_full, Ec. exact I.
      + intros c2 Hc2 _. cbn [ptp_link]. unfold set_child.
        destruct (set_nth_some (N.to_nat k0) c2 cs ltac:(lia)) as [cs2 E2]. rewrite E2.
        destruct (set_nth_spec _ _ _ _ E2) as [L2 N2].
        exists (NFull cs2). split; [reflexivity|]. split.
        { apply pv_full; [lia|]. intros i x x' Ex Ex'. rewrite N2 in Ex.
          destruct (Nat.eqb i (N.to_nat k0)) eqn:B.
          - apply Nat.eqb_eq in B. subst i. inversion Ex; subst x. rewrite Ec' in Ex'. inversion Ex'; subst x'. exact Hc2.
          - eapply Hcs; eassumption. }
        split; [exact I|]. intros R. rewrite res_along_full, N2, Nat.eqb_refl. exact R.
      + rewrite lk_full, Ec'. reflexivity.
      + apply missing_full. exact Ec'.
      + apply valid_key_cons in Hk. inversion Hw as [| |? _ C V]; subst.
        destruct Hk as [[-> ->]|[Hlt Vr]].
        * change (N.to_nat 16) with 16%nat in Ec'. destruct (V c' Ec') as [->|(v & -> & Hv)]; [left; reflexivity|].
          right; left. exists v. auto.
        * destruct (C _ c' Ec' ltac:(lia)) as [->|Hc']; [left; reflexivity|]. right; right.
          split; [exact Hc'|]. split; [exact Vr|]. simpl in Hf. lia.
      + intros e Ge. apply HP. eapply genuine_full; eassumption.
  Qed.
End Paths.

(* ------------------------------------------------------------------ hasRightElement *)

Lemma slice_lt_nil_r a : slice_lt a [] = false.
Proof. destruct a; reflexivity. Qed.

Lemma slice_lt_mismatch nk : forall key r, strip nk key = None -> (length nk <= length key)%nat ->
  slice_lt key (nk ++ r) = slice_lt key nk.
Proof.
  induction nk as [|x nk IH]; intros key r Hs Hl; [discriminate|].
  destruct key as [|y key]; [simpl in Hl; lia|]. simpl in Hs. cbn [app slice_lt].
  destruct (N.eqb_spec x y) as [->|Ne].
  - rewrite N.ltb_irrefl, N.eqb_refl. apply IH; [exact Hs|simpl in Hl; lia].
  - destruct (y <? x); [reflexivity|]. destruct (N.eqb_spec y x); [congruence|reflexivity].
Qed.

Lemma slice_lt_total a : forall b, a <> b -> slice_lt a b = false -> slice_lt b a = true.
Proof.
  induction a as [|x a IH]; intros [|y b] Hne Hlt; try reflexivity; try congruence; try discriminate.
  simpl in Hlt |- *. destruct (x <? y) eqn:L1; [discriminate|].
  destruct (N.eqb_spec x y) as [->|Ne].
  - rewrite N.ltb_irrefl, N.eqb_refl. apply IH; [congruence|exact Hlt].
  - assert (y <? x = true) by lia. rewrite H. reflexivity.
Qed.

Lemma any_from_spec cs : forall i lo hi,
  any_from i lo hi cs = true <->
  exists j c, nth_error cs j = Some c /\ (lo <= i + j < hi)%nat /\ c <> NEmpty.
Proof.
  induction cs as [|c cs IH]; intros i lo hi.
  - simpl. split; [discriminate|]. intros (j & x & E & _). destruct j; discriminate.
  - cbn [any_from]. rewrite orb_true_iff, IH. split.
    + intros [A|(j & x & E & R & Ne)].
      * exists 0%nat, c. apply andb_true_iff in A. destruct A as [A1 A2]. apply andb_true_iff in A1.
        split; [reflexivity|]. split; [lia|]. intros ->. discriminate.
      * exists (S j), x. split; [exact E|]. split; [lia|exact Ne].
    + intros (j & x & E & R & Ne). destruct j as [|j].
      * left. simpl in E. inversion E; subst x. destruct c; try congruence;
          (apply andb_true_iff; split; [apply andb_true_iff; split; [apply Nat.leb_le|apply Nat.ltb_lt]; lia|reflexivity]).
      * right. exists j, x. split; [exact E|]. split; [lia|exact Ne].
Qed.

Definition slotcan (t : node) : Prop := t = NEmpty \/ (exists v, t = NValue v) \/ can t.
(* every key stored under [t] has length L *)
Definition ulen (t : node) (L : nat) : Prop := forall k v, lk t k = Some v -> length k = L.
(* an entry strictly to the right of [key] (hex keys, bytes.Compare order) *)
Definition has_gt (t : node) (key : list N) : Prop := exists k v, lk t k = Some v /\ slice_lt key k = true.

Section HasRight.
  Variable H : list N -> list N.
  Hypothesis H_len : forall x, length (H x) = 32%nat.

  Lemma pv_empty_r p : pv H p NEmpty -> p = NEmpty.
  Proof. intros Hp. inversion Hp as [| |t e Hw| |]; subst; [reflexivity|inversion Hw]. Qed.
  Lemma pv_value_r p v : pv H p (NValue v) -> p = NValue v.
  Proof. intros Hp. inversion Hp as [| |t e Hw| |]; subst; [reflexivity|inversion Hw]. Qed.

  Lemma has_right_full cs k0 kr :
    has_right (NFull cs) (k0 :: kr) =
    if any_from 0 (N.to_nat k0 + 1) 16 cs then TOk true
    else match nth_error cs (N.to_nat k0) with Some c => has_right c kr | None => TErr EPanic end.
  Proof.
    cbn [has_right]. destruct (any_from 0 (N.to_nat k0 + 1) 16 cs); [reflexivity|].
    generalize (N.to_nat k0). induction cs as [|c cs IH]; intros [|i]; simpl; auto.
  Qed.

  Lemma has_right_spec t : forall p key,
    slotcan t -> pv H p t -> (res_along p key \/ exists b0, has_right p key = TOk b0) -> ulen t (length key) ->
    (key = [] \/ valid_key key) ->
    exists b, has_right p key = TOk b /\ (b = true <-> has_gt t key).
  Proof.
    induction t as [|v|nk c' IH|cs' IH|h] using node_ind'; intros p key Hs Hp Hr Hu Hk.
    - apply pv_empty_r in Hp. subst p. exists false. split; [reflexivity|]. split; [discriminate|].
      intros (k & v & L & _). rewrite lk_empty in L. discriminate.
    - apply pv_value_r in Hp. subst p. exists false. split; [reflexivity|]. split; [discriminate|].
      intros (k & v0 & L & Lt). rewrite lk_value in L. destruct k; [|discriminate].
      rewrite slice_lt_nil_r in Lt. discriminate.
    - (* short *)
      destruct Hs as [?|[[? ?]|Hcan]]; try discriminate.
      inversion Hp as [| |t0 e Hw Ee Le|k0 c0 x Hc|]; subst; [destruct Hr as [[]|[? Hx]]; discriminate|].
      destruct (can_has_key _ Hcan) as (kx & vx & _ & Lx).
      assert (Hkeys : forall k v, lk (NShort nk c') k = Some v -> exists r, k = nk ++ r /\ lk c' r = Some v).
      { intros k v L. rewrite lk_short in L. destruct (strip nk k) as [r|] eqn:E; [|discriminate].
        apply strip_some in E. eauto. }
      cbn [has_right res_along] in *. pose proof (is_prefix_strip nk key) as Sp.
      destruct (strip nk key) as [rest|] eqn:E.
      + destruct Sp as [S1 S2]. rewrite S1 in *. rewrite S2 in *. cbn [negb] in Hr |- *.
        apply strip_some in E. subst key.
        assert (Hs' : slotcan c').
        { destruct (can_short_inv _ _ Hcan) as [[_ [v ->]]|(_ & _ & cs & -> & Hc')]; [right; left; eauto|right; right; exact Hc']. }
        assert (Hu' : ulen c' (length rest)).
        { intros r v L. specialize (Hu (nk ++ r) v). rewrite lk_short, strip_app_same in Hu.
          specialize (Hu L). rewrite !app_length in Hu. lia. }
        assert (Hk' : rest = [] \/ valid_key rest).
        { destruct rest as [|a rest]; [left; reflexivity|right]. destruct Hk as [Hk|Hk]; [destruct nk; discriminate|].
          destruct (can_short_inv _ _ Hcan) as [[Vk _]|(Nk & _)].
          - apply (valid_key_prefix_end _ _ Vk) in Hk. discriminate.
          - apply (valid_key_app_inv _ _ Hk). discriminate. }
        destruct (IH c0 rest Hs' Hc Hr Hu' Hk') as (b & Eb & Hb). exists b. split; [exact Eb|].
        rewrite Hb. split.
        * intros (r & v & L & Lt). exists (nk ++ r), v. rewrite lk_short, strip_app_same, slice_lt_app. auto.
        * intros (k & v & L & Lt). destruct (Hkeys _ _ L) as (r & -> & L'). rewrite slice_lt_app in Lt. exists r, v. auto.
      + rewrite Sp. cbn [negb]. exists (slice_lt key nk). split; [reflexivity|].
        assert (Hlen : (length nk <= length key)%nat).
        { destruct (Hkeys _ _ Lx) as (r & -> & _). rewrite <- (Hu _ _ Lx), app_length. lia. }
        split.
        * intros Lt. destruct (Hkeys _ _ Lx) as (r & -> & _). exists (nk ++ r), vx. split; [exact Lx|].
          rewrite slice_lt_mismatch; assumption.
        * intros (k & v & L & Lt). destruct (Hkeys _ _ L) as (r & -> & _).
          rewrite slice_lt_mismatch in Lt; assumption.
    - (* branch *)
      destruct Hs as [?|[[? ?]|Hcan]]; try discriminate.
      inversion Hp as [| |t0 e Hw Ee Le| |cs0 cs1 Hl Hcs]; subst; [destruct Hr as [[]|[? Hx]]; discriminate|].
      destruct (can_full_inv _ Hcan) as (L17 & Hch & Hv16 & _).
      destruct (can_has_key _ Hcan) as (kx & vx & Vkx & Lx).
      destruct key as [|k0 kr].
      { specialize (Hu _ _ Lx). destruct kx; [destruct Vkx|discriminate]. }
      destruct Hk as [?|Hk]; [discriminate|].
      pose proof (valid_key_hd_le _ _ Hk) as Hk0.
      rewrite has_right_full. rewrite res_along_full, has_right_full in Hr.
      destruct (any_from 0 (N.to_nat k0 + 1) 16 cs0) eqn:A.
      + exists true. split; [reflexivity|]. split; [|reflexivity]. intros _.
        apply any_from_spec in A. destruct A as (j & c & Ej & Rj & Nej).
        destruct (nth_error cs' j) as [cj|] eqn:Ej'.
        2: { apply nth_error_None in Ej'. assert (j < length cs0)%nat by (apply nth_error_Some; congruence). lia. }
        pose proof (Hcs _ _ _ Ej Ej') as Hpj.
        destruct (Hch j cj Ej' ltac:(lia)) as [->|Hcj]; [apply pv_empty_r in Hpj; congruence|].
        destruct (can_has_key _ Hcj) as (r & v & _ & Lr).
        exists (N.of_nat j :: r), v. split; [rewrite lk_full, Nat2N.id, Ej'; exact Lr|].
        cbn [slice_lt]. assert (k0 <? N.of_nat j = true) by lia. rewrite H0. reflexivity.
      + assert (Hi : (N.to_nat k0 < 17)%nat) by lia.
        destruct (nth_error cs0 (N.to_nat k0)) as [c|] eqn:Ec; [|apply nth_error_None in Ec; lia].
        destruct (nth_error cs' (N.to_nat k0)) as [c'|] eqn:Ec'; [|apply nth_error_None in Ec'; lia].
        apply valid_key_cons in Hk.
        assert (Hs' : slotcan c').
        { destruct Hk as [[-> ->]|[Hlt _]].
          - change (N.to_nat 16) with 16%nat in Ec'. destruct (Hv16 _ Ec') as [->|[v ->]]; [left; reflexivity|right; left; eauto].
          - destruct (Hch _ _ Ec' ltac:(lia)) as [->|Hc']; [left; reflexivity|right; right; exact Hc']. }
        assert (Hu' : ulen c' (length kr)).
        { intros r v L. specialize (Hu (k0 :: r) v). rewrite lk_full, Ec' in Hu. specialize (Hu L). simpl in Hu. lia. }
        assert (Hk' : kr = [] \/ valid_key kr) by (destruct Hk as [[_ ->]|[_ Vr]]; auto).
        rewrite Forall_forall in IH.
        destruct (IH c' (nth_error_In _ _ Ec') c kr Hs' (Hcs _ _ _ Ec Ec') Hr Hu' Hk') as (b & Eb & Hb).
        exists b. split; [exact Eb|]. rewrite Hb. split.
        * intros (r & v & L & Lt). exists (k0 :: r), v. rewrite lk_full, Ec'. split; [exact L|].
          cbn [slice_lt]. rewrite N.ltb_irrefl, N.eqb_refl. exact Lt.
        * intros (k & v & L & Lt). destruct k as [|j r]; [rewrite lk_full_nil in L; discriminate|].
          rewrite lk_full in L. destruct (nth_error cs' (N.to_nat j)) as [cj|] eqn:Ej'; [|discriminate].
          cbn [slice_lt] in Lt. destruct (k0 <? j) eqn:Lj.
          -- exfalso. assert (Hj17 : (N.to_nat j < 17)%nat) by (rewrite <- L17; apply nth_error_Some; congruence).
             destruct (Nat.eq_dec (N.to_nat j) 16) as [E16|Ne16].
             ++ rewrite E16 in Ej'. destruct (Hv16 _ Ej') as [->|[v0 ->]]; [rewrite lk_empty in L; discriminate|].
                rewrite lk_value in L. destruct r; [|discriminate].
                assert (Hl1 : length [j] = length (k0 :: kr)).
                { apply (Hu [j] v). rewrite lk_full, E16, Ej', lk_value. exact L. }
                destruct kr; [|discriminate]. destruct Hk as [[-> _]|[_ []]]. lia.
             ++ destruct (nth_error cs0 (N.to_nat j)) as [pj|] eqn:Ej; [|apply nth_error_None in Ej; lia].
                assert (any_from 0 (N.to_nat k0 + 1) 16 cs0 = true); [|congruence].
                apply any_from_spec. exists (N.to_nat j), pj. split; [exact Ej|]. split; [lia|].
                intros ->. pose proof (Hcs _ _ _ Ej Ej') as Hpj. inversion Hpj; subst. rewrite lk_empty in L. discriminate.
          -- destruct (N.eqb_spec k0 j) as [<-|]; [|discriminate]. rewrite Ec' in Ej'. inversion Ej'; subst cj.
             exists r, v. auto.
    - destruct Hs as [?|[[? ?]|Hcan]]; try discriminate. inversion Hcan.
  Qed.
End HasRight.

(* ------------------------------------------------------------------ byte keys of one length *)

Lemma slice_lt_hex a : forall b, forallb byteb a = true -> forallb byteb b = true -> length a = length b ->
  slice_lt (keybytes_to_hex a) (keybytes_to_hex b) = slice_lt a b.
Proof.
  unfold keybytes_to_hex.
  induction a as [|x a IH]; intros [|y b] Ha Hb Hl; try discriminate; [reflexivity|].
  simpl in Ha, Hb. apply andb_true_iff in Ha. apply andb_true_iff in Hb.
  destruct Ha as [Hx Ha]. destruct Hb as [Hy Hb]. unfold byteb in Hx, Hy.
  cbn [nibbles_of app slice_lt]. rewrite (IH b Ha Hb ltac:(simpl in Hl; lia)).
  destruct (x <? y) eqn:L.
  - destruct (x / 16 <? y / 16) eqn:L1; [reflexivity|].
    destruct (x / 16 =? y / 16) eqn:E1; [|lia].
    destruct (x mod 16 <? y mod 16) eqn:L2; [reflexivity|]. lia.
  - destruct (x =? y) eqn:E.
    + apply N.eqb_eq in E. subst y. rewrite !N.ltb_irrefl, !N.eqb_refl. reflexivity.
    + destruct (x / 16 <? y / 16) eqn:L1; [lia|].
      destruct (x / 16 =? y / 16) eqn:E1; [|reflexivity].
      destruct (x mod 16 <? y mod 16) eqn:L2; [lia|].
      destruct (x mod 16 =? y mod 16) eqn:E2; [lia|reflexivity].
Qed.

(* every key stored in [t] is the hex form of a byte key of length Lb *)
Definition keys_fixed (t : node) (Lb : nat) : Prop :=
  forall hk v, lk t hk = Some v ->
    exists k, hk = keybytes_to_hex k /\ length k = Lb /\ forallb byteb k = true.

Lemma hex_length k : length (keybytes_to_hex k) = (2 * length k + 1)%nat.
Proof. unfold keybytes_to_hex. rewrite app_length, nibbles_of_length. simpl. lia. Qed.

Lemma keys_fixed_ulen t Lb : keys_fixed t Lb -> ulen t (2 * Lb + 1).
Proof. intros Hf k v L. destruct (Hf k v L) as (b & -> & Hl & _). rewrite hex_length, Hl. reflexivity. Qed.

(* ------------------------------------------------------------------ the empty-run and single-element branches *)

Lemma ptp_fuel_ok k (db : pdb) : (length k < ptp_fuel k db)%nat.
Proof. unfold ptp_fuel. nia. Qed.

Section Edge.
  Variable H : list N -> list N.
  Hypothesis H_len : forall x, length (H x) = 32%nat.
  Variable db : pdb.
  Variable P : list N -> Prop.
  Hypothesis faithful : forall e b, P e -> db_get db (H e) = Some b -> b = e.

  Variable t : node.
  Variable r : list N.
  Hypothesis Hcan : can t.
  Hypothesis Hok : content_ok t.
  Hypothesis Hroot : hash_root H t = Some r.
  Hypothesis HP : forall e, genuine H t e -> P e.

  (* proofToPath from the root hash *)
  Lemma ptp_root key allow : forallb byteb key = true ->
    (db_get db r = None /\ proof_to_path db r None key allow = Rerr RMissing) \/
    (db_get db r <> None /\
     ptp_post H db allow t (keybytes_to_hex key) (proof_to_path db r None key allow)).
  Proof.
    intros Hb. pose proof (can_pwf t Hcan Hok) as Hw.
    destruct (pwf_enc_total H H_len t Hw) as [e Ee].
    rewrite (pwf_hash_root H t e Hw Ee) in Hroot. inversion Hroot; subst r.
    unfold proof_to_path, resolve_node.
    destruct (db_get db (H e)) as [b|] eqn:G; [right|left; auto].
    split; [discriminate|].
    assert (b = e) by (apply faithful; [apply HP; apply genuine_self; exact Ee|exact G]). subst b.
    rewrite (decode_enc H H_len t e Hw Ee). cbv zeta.
    apply (ptp_spec H H_len db P faithful); auto.
    - apply pv_collapse; assumption.
    - apply collapse_shape; assumption.
    - apply keybytes_to_hex_valid; exact Hb.
    - apply ptp_fuel_ok.
  Qed.

  (* no entry of the trie at or after hex key [hk] *)
  Definition none_from (hk : list N) : Prop := forall k v, lk t k = Some v -> slice_lt k hk = true.

  Lemma none_from_iff hk : none_from hk <-> lk t hk = None /\ ~ has_gt t hk.
  Proof.
    split.
    - intros Hn. split.
      + destruct (lk t hk) as [v|] eqn:L; [|reflexivity]. specialize (Hn _ _ L). rewrite slice_lt_irrefl in Hn. discriminate.
      + intros (k & v & L & Lt). specialize (Hn _ _ L).
        destruct (list_eq_dec N.eq_dec k hk) as [->|Ne]; [rewrite slice_lt_irrefl in Lt; discriminate|].
        (* asymmetry *)
        assert (A : forall a b, slice_lt a b = true -> slice_lt b a = false).
        { induction a as [|x a IHa]; intros [|y b] E; try discriminate; [reflexivity|]. simpl in E |- *.
          destruct (x <? y) eqn:L1.
          - assert (y <? x = false) by lia. rewrite H0. destruct (N.eqb_spec y x); [lia|reflexivity].
          - destruct (N.eqb_spec x y) as [->|]; [|discriminate]. rewrite N.ltb_irrefl, N.eqb_refl. apply IHa. exact E. }
        rewrite (A _ _ Hn) in Lt. discriminate.
    - intros [Hl Hg] k v L.
      destruct (slice_lt k hk) eqn:Lt; [reflexivity|]. exfalso.
      destruct (list_eq_dec N.eq_dec k hk) as [->|Ne]; [congruence|].
      apply Hg. exists k, v. split; [exact L|]. apply slice_lt_total; [congruence|exact Lt].
  Qed.

  Section WithKey.
    Variable first : list N.
    Hypothesis Hfirst : forallb byteb first = true.
    Hypothesis Hulen : ulen t (length (keybytes_to_hex first)).
    Let hk := keybytes_to_hex first.

    (* the zero-element branch *)
    Theorem range_empty_sound b :
      verify_range_proof H r first [] [] (Some db) = Rok b -> b = false /\ none_from hk.
    Proof.
      unfold verify_range_proof. cbn [length Nat.eqb negb check_run].
      destruct (ptp_root first true Hfirst) as [[_ ->]|[_ Q]]; [discriminate|].
      destruct (proof_to_path db r None first true) as [[root val]|e]; [|discriminate].
      cbn [ptp_post] in Q. destruct Q as (Q1 & Q2 & Q3 & Q4 & _).
      destruct val as [v|]; [discriminate|].
      destruct (has_right_spec H H_len t root hk (or_intror (or_intror Hcan)) Q1 (or_introl Q4) Hulen
                  (or_intror (keybytes_to_hex_valid _ Hfirst))) as (b0 & Eb & Hb).
      fold hk. rewrite Eb. destruct b0; [discriminate|]. intros E. inversion E; subst b.
      split; [reflexivity|]. apply none_from_iff. split; [symmetry; exact Q3|].
      intros G. apply Hb in G. discriminate.
    Qed.

    Theorem range_empty_complete :
      none_from hk -> db_get db r <> None -> ~ missing_on H db t hk ->
      verify_range_proof H r first [] [] (Some db) = Rok false.
    Proof.
      intros Hn Hr Hm. apply none_from_iff in Hn. destruct Hn as [Hl Hg].
      unfold verify_range_proof. cbn [length Nat.eqb negb check_run].
      destruct (ptp_root first true Hfirst) as [[G _]|[_ Q]]; [congruence|].
      destruct (proof_to_path db r None first true) as [[root val]|e]; cbn [ptp_post] in Q.
      - destruct Q as (Q1 & Q2 & Q3 & Q4 & _). fold hk in Q3. rewrite Hl in Q3. subst val.
        destruct (has_right_spec H H_len t root hk (or_intror (or_intror Hcan)) Q1 (or_introl Q4) Hulen
                    (or_intror (keybytes_to_hex_valid _ Hfirst))) as (b0 & Eb & Hb).
        fold hk. rewrite Eb. destruct b0; [|reflexivity]. exfalso. apply Hg. apply Hb. reflexivity.
      - exfalso. destruct Q as [[_ M]|(_ & A & _)]; [exact (Hm M)|discriminate].
    Qed.

    (* the one-element branch (first == last key) *)
    Theorem range_single_sound v b :
      verify_range_proof H r first [first] [v] (Some db) = Rok b ->
      lk t hk = Some v /\ (b = true <-> has_gt t hk).
    Proof.
      unfold verify_range_proof. cbn [length Nat.eqb negb check_run].
      destruct v as [|v0 v]; [discriminate|].
      rewrite slice_lt_irrefl. cbn [last_opt]. rewrite bytes_eqb_refl. cbn [andb negb].
      destruct (ptp_root first false Hfirst) as [[_ ->]|[_ Q]]; [discriminate|].
      destruct (proof_to_path db r None first false) as [[root val]|e]; [|discriminate].
      cbn [ptp_post] in Q. destruct Q as (Q1 & Q2 & Q3 & Q4 & Q5).
      destruct val as [w|]; [|exfalso; apply Q5; reflexivity].
      destruct (bytes_eqb w (v0 :: v)) eqn:B; [|discriminate]. apply bytes_eqb_eq in B. subst w. cbn [negb].
      destruct (has_right_spec H H_len t root hk (or_intror (or_intror Hcan)) Q1 (or_introl Q4) Hulen
                  (or_intror (keybytes_to_hex_valid _ Hfirst))) as (b0 & Eb & Hb).
      fold hk. rewrite Eb. cbn [of_tres]. intros E. inversion E; subst b0.
      split; [symmetry; exact Q3|exact Hb].
    Qed.

    Theorem range_single_complete v :
      lk t hk = Some v -> db_get db r <> None -> ~ missing_on H db t hk ->
      exists b, verify_range_proof H r first [first] [v] (Some db) = Rok b /\ (b = true <-> has_gt t hk).
    Proof.
      intros Hl Hr Hm.
      assert (Hv : v <> []) by (destruct (Hok _ _ Hl) as [[Hne _] _]; exact Hne).
      unfold verify_range_proof. cbn [length Nat.eqb negb check_run].
      destruct v as [|v0 v]; [congruence|].
      rewrite slice_lt_irrefl. cbn [last_opt]. rewrite bytes_eqb_refl. cbn [andb negb].
      destruct (ptp_root first false Hfirst) as [[G _]|[_ Q]]; [congruence|].
      destruct (proof_to_path db r None first false) as [[root val]|e]; cbn [ptp_post] in Q.
      - destruct Q as (Q1 & Q2 & Q3 & Q4 & Q5). fold hk in Q3. rewrite Hl in Q3. subst val.
        rewrite bytes_eqb_refl. cbn [negb].
        destruct (has_right_spec H H_len t root hk (or_intror (or_intror Hcan)) Q1 (or_introl Q4) Hulen
                    (or_intror (keybytes_to_hex_valid _ Hfirst))) as (b0 & Eb & Hb).
        fold hk. rewrite Eb. exists b0. split; [reflexivity|exact Hb].
      - exfalso. destruct Q as [[_ M]|(_ & _ & L)]; [exact (Hm M)|]. fold hk in L. congruence.
    Qed.
  End WithKey.
End Edge.

(* ------------------------------------------------------------------ unset / unsetInternal remove the interior *)

Lemma slice_lt_asym a : forall b, slice_lt a b = true -> slice_lt b a = false.
Proof.
  induction a as [|x a IHa]; intros [|y b] E; try discriminate; [reflexivity|]. simpl in E |- *.
  destruct (x <? y) eqn:L1.
  - assert (y <? x = false) by lia. rewrite H. destruct (N.eqb_spec y x); [lia|reflexivity].
  - destruct (N.eqb_spec x y) as [->|]; [|discriminate]. rewrite N.ltb_irrefl, N.eqb_refl. apply IHa. exact E.
Qed.

Lemma slice_lt_cons x a y b :
  slice_lt (x :: a) (y :: b) = true <-> x < y \/ (x = y /\ slice_lt a b = true).
Proof.
  simpl. destruct (x <? y) eqn:L; [split; [left; lia|reflexivity]|].
  destruct (N.eqb_spec x y) as [->|Ne].
  - split; [intros E; right; auto|intros [?|[_ E]]; [lia|exact E]].
  - split; [discriminate|intros [?|[? _]]; [lia|congruence]].
Qed.

Lemma bcmp_eq a b : bcmp a b = Eq -> a = b.
Proof.
  unfold bcmp. destruct (slice_lt a b) eqn:L1; [discriminate|]. destruct (slice_lt b a) eqn:L2; [discriminate|].
  intros _. destruct (list_eq_dec N.eq_dec a b) as [E|Ne]; [exact E|].
  rewrite (slice_lt_total a b Ne L1) in L2. discriminate.
Qed.
Lemma bcmp_lt a b : bcmp a b = Lt -> slice_lt a b = true.
Proof. unfold bcmp. destruct (slice_lt a b); [reflexivity|]. destruct (slice_lt b a); discriminate. Qed.
Lemma bcmp_gt a b : bcmp a b = Gt -> slice_lt b a = true.
Proof. unfold bcmp. destruct (slice_lt a b); [discriminate|]. destruct (slice_lt b a); [reflexivity|discriminate]. Qed.

Lemma clear_from_nth cs : forall i lo hi j,
  nth_error (clear_from i lo hi cs) j =
  match nth_error cs j with
  | Some c => Some (if Nat.leb lo (i + j) && Nat.ltb (i + j) hi then NEmpty else c)
  | None => None
  end.
Proof.
  induction cs as [|c cs IH]; intros i lo hi [|j]; simpl; try reflexivity.
  - rewrite Nat.add_0_r. reflexivity.
  - rewrite IH. replace (S i + j)%nat with (i + S j)%nat by lia. reflexivity.
Qed.

Lemma clear_range_nth cs lo hi j :
  nth_error (clear_range lo hi cs) j =
  match nth_error cs j with
  | Some c => Some (if Nat.leb lo j && Nat.ltb j hi then NEmpty else c)
  | None => None
  end.
Proof. unfold clear_range. rewrite clear_from_nth. reflexivity. Qed.

Lemma clear_range_length cs lo hi : length (clear_range lo hi cs) = length cs.
Proof. unfold clear_range. generalize 0%nat. induction cs as [|c cs IH]; intros i; simpl; [reflexivity|]. rewrite IH. reflexivity. Qed.

(* the node an action leaves in the slot *)
Definition act_node (a : uact) : node := match a with UKeep n => n | URemove => NEmpty end.

Lemma apply_act_nth cs i a cs' : apply_act cs i a = Some cs' ->
  length cs' = length cs /\
  forall j, nth_error cs' j = if Nat.eqb j (N.to_nat i) then Some (act_node a) else nth_error cs j.
Proof.
  unfold apply_act, set_child. intros E. destruct (set_nth_spec _ _ _ _ E) as [L Hn].
  split; [exact L|]. intros j. rewrite Hn. destruct a; reflexivity.
Qed.

Lemma unset_full cs k0 kr rl :
  unset (NFull cs) (k0 :: kr) rl =
  let cs1 := if rl then clear_range 0 (N.to_nat k0) cs else clear_range (N.to_nat k0 + 1) 16 cs in
  match nth_error cs (N.to_nat k0) with
  | None => TErr EPanic
  | Some c =>
      match unset c kr rl with
      | TErr e => TErr e
      | TOk a => match apply_act cs1 k0 a with Some cs2 => TOk (UKeep (NFull cs2)) | None => TErr EPanic end
      end
  end.
Proof.
  cbn [unset]. cbv zeta.
  assert (E : (fix go (l : list node) (i : nat) {struct l} : option (tres uact) :=
                 match l with
                 | [] => None
                 | c :: l' => match i with O => Some (unset c kr rl) | S i' => go l' i' end
                 end) cs (N.to_nat k0) =
              match nth_error cs (N.to_nat k0) with Some c => Some (unset c kr rl) | None => None end).
  { generalize (N.to_nat k0). induction cs as [|c cs IH]; intros [|i]; simpl; auto. }
  rewrite E. destruct (nth_error cs (N.to_nat k0)); [|reflexivity]. destruct (unset n kr rl); reflexivity.
Qed.

(* which keys one unset pass removes / keeps, relative to the edge key *)
Definition gone (rl : bool) (key k : list N) : Prop :=
  k = key \/ (if rl then slice_lt k key = true else slice_lt key k = true).
Definition stays (rl : bool) (key k : list N) : Prop :=
  if rl then slice_lt key k = true else slice_lt k key = true.

Lemma unset_spec s : forall key rl a,
  slotok s -> ulen s (length key) -> (key = [] \/ valid_key key) ->
  unset s key rl = TOk a ->
  (forall k, gone rl key k -> lk (act_node a) k = None) /\
  (forall k, stays rl key k -> lk (act_node a) k = lk s k).
Proof.
  induction s as [|v|ck cv IH|cs IH|h] using node_ind'; intros key rl a Hs Hu Hk E.
  - inversion E; subst. simpl. split; intros; apply lk_empty || reflexivity.
  - discriminate.
  - (* short *)
    destruct Hs as [?|[[? ?]|Hw]]; try discriminate.
    cbn [unset] in E. pose proof (is_prefix_strip ck key) as Sp.
    destruct (strip ck key) as [rest|] eqn:Es.
    + destruct Sp as [S1 S2]. rewrite S1, S2 in E. cbn [negb] in E. apply strip_some in Es. subst key.
      assert (Hu' : ulen cv (length rest)).
      { intros r v L. specialize (Hu (ck ++ r) v). rewrite lk_short, strip_app_same in Hu.
        specialize (Hu L). rewrite !app_length in Hu. lia. }
      assert (Hlk : forall x k, lk (NShort ck x) k = match strip ck k with Some r => lk x r | None => None end)
        by (intros; apply lk_short).
      inversion Hw as [? v Vk Sk Hv|? ? Nk Ne Sk Hc|]; subst.
      * (* leaf *)
        inversion E; subst a. cbn [act_node]. split; [intros; apply lk_empty|].
        intros k St. rewrite lk_empty, lk_leaf. destruct (bytes_eqb k ck) eqn:B; [|reflexivity].
        apply bytes_eqb_eq in B. subst k. exfalso.
        assert (rest = []).
        { specialize (Hu ck v). rewrite lk_leaf, bytes_eqb_refl in Hu. specialize (Hu eq_refl).
          rewrite app_length in Hu. destruct rest; [reflexivity|simpl in Hu; lia]. }
        subst rest. rewrite app_nil_r in St. unfold stays in St. destruct rl; rewrite slice_lt_irrefl in St; discriminate.
      * (* extension *)
        assert (Hk' : rest = [] \/ valid_key rest).
        { destruct rest as [|x rest]; [left; reflexivity|right]. destruct Hk as [Hk|Hk]; [destruct ck; discriminate|].
          apply (valid_key_app_inv _ _ Hk). discriminate. }
        destruct cv as [| |ck2 cv2|cs2|]; try solve [inversion Hc].
        -- destruct (unset (NShort ck2 cv2) rest rl) as [[cv'|]|e] eqn:Eu; try discriminate.
           inversion E; subst a. cbn [act_node].
           destruct (IH rest rl _ (or_intror (or_intror Hc)) Hu' Hk' Eu) as [G St]. cbn [act_node] in G, St.
           split; intros k Hg; rewrite !Hlk; destruct (strip ck k) as [r|] eqn:Er; try reflexivity.
           ++ apply strip_some in Er. subst k. apply G. unfold gone in *.
              destruct Hg as [Hg|Hg]; [left; apply app_inv_head in Hg; exact Hg|right].
              destruct rl; rewrite slice_lt_app in Hg; exact Hg.
           ++ apply strip_some in Er. subst k. apply St. unfold stays in *. destruct rl; rewrite slice_lt_app in Hg; exact Hg.
        -- destruct (unset (NFull cs2) rest rl) as [[cv'|]|e] eqn:Eu; try discriminate.
           inversion E; subst a. cbn [act_node].
           destruct (IH rest rl _ (or_intror (or_intror Hc)) Hu' Hk' Eu) as [G St]. cbn [act_node] in G, St.
           split; intros k Hg; rewrite !Hlk; destruct (strip ck k) as [r|] eqn:Er; try reflexivity.
           ++ apply strip_some in Er. subst k. apply G. unfold gone in *.
              destruct Hg as [Hg|Hg]; [left; apply app_inv_head in Hg; exact Hg|right].
              destruct rl; rewrite slice_lt_app in Hg; exact Hg.
           ++ apply strip_some in Er. subst k. apply St. unfold stays in *. destruct rl; rewrite slice_lt_app in Hg; exact Hg.
    + (* the path leaves the trie at this short node *)
      rewrite Sp in E. cbn [negb] in E.
      assert (Hmis : forall k v, lk (NShort ck cv) k = Some v ->
                k <> key /\ slice_lt key k = slice_lt key ck /\ (slice_lt k key = true <-> slice_lt key ck = false)).
      { intros k v L. pose proof (Hu _ _ L) as Hl. rewrite lk_short in L.
        destruct (strip ck k) as [r|] eqn:Er; [|discriminate]. apply strip_some in Er. subst k.
        assert (Hne : ck ++ r <> key) by (intros <-; rewrite strip_app_same in Es; discriminate).
        assert (Hm : slice_lt key (ck ++ r) = slice_lt key ck).
        { apply slice_lt_mismatch; [exact Es|]. rewrite <- Hl, app_length. lia. }
        split; [exact Hne|]. split; [exact Hm|]. rewrite <- Hm. split.
        - intros Lt. apply slice_lt_asym. exact Lt.
        - intros Lt. apply slice_lt_total; [congruence|exact Lt]. }
      assert (Hcase : forall (b : bool) (a0 : uact),
                a0 = (if b then URemove else UKeep (NShort ck cv)) ->
                (b = true -> forall k, stays rl key k -> lk (NShort ck cv) k = None) ->
                (b = false -> forall k, gone rl key k -> lk (NShort ck cv) k = None) ->
                (forall k, gone rl key k -> lk (act_node a0) k = None) /\
                (forall k, stays rl key k -> lk (act_node a0) k = lk (NShort ck cv) k)).
      { intros b a0 -> H1 H2. destruct b; cbn [act_node].
        - split; [intros; apply lk_empty|]. intros k St. rewrite lk_empty. symmetry. apply H1; auto.
        - split; [apply H2; reflexivity|reflexivity]. }
      destruct rl.
      * apply (Hcase (slice_lt ck key)); [inversion E; reflexivity| |].
        -- intros B k St. unfold stays in St. destruct (lk (NShort ck cv) k) as [v|] eqn:L; [|reflexivity].
           destruct (Hmis _ _ L) as (_ & M & _). rewrite M in St. rewrite (slice_lt_asym _ _ St) in B. discriminate.
        -- intros B k [->|Hg]; destruct (lk (NShort ck cv) _) as [v|] eqn:L; try reflexivity.
           ++ destruct (Hmis _ _ L) as (Ne & _). congruence.
           ++ destruct (Hmis _ _ L) as (Ne & M & M2). apply M2 in Hg.
              assert (ck <> key) by (intros ->; rewrite strip_self in Es; discriminate).
              rewrite (slice_lt_total key ck ltac:(congruence) Hg) in B. discriminate.
      * apply (Hcase (slice_lt key ck)); [inversion E; reflexivity| |].
        -- intros B k St. unfold stays in St. destruct (lk (NShort ck cv) k) as [v|] eqn:L; [|reflexivity].
           destruct (Hmis _ _ L) as (_ & _ & M2). apply M2 in St. congruence.
        -- intros B k [->|Hg]; destruct (lk (NShort ck cv) _) as [v|] eqn:L; try reflexivity.
           ++ destruct (Hmis _ _ L) as (Ne & _). congruence.
           ++ destruct (Hmis _ _ L) as (_ & M & _). congruence.
  - (* branch *)
    destruct Hs as [?|[[? ?]|Hw]]; try discriminate.
    destruct key as [|k0 kr]; [discriminate|]. destruct Hk as [?|Hk]; [discriminate|].
    rewrite unset_full in E. cbv zeta in E.
    destruct (nth_error cs (N.to_nat k0)) as [c|] eqn:Ec; [|discriminate].
    destruct (unset c kr rl) as [a0|e] eqn:Eu; [|discriminate].
    set (cs1 := if rl then clear_range 0 (N.to_nat k0) cs else clear_range (N.to_nat k0 + 1) 16 cs) in E.
    destruct (apply_act cs1 k0 a0) as [cs2|] eqn:Ea; [|discriminate]. inversion E; subst a. cbn [act_node].
    destruct (apply_act_nth _ _ _ _ Ea) as [L2 N2].
    assert (N1 : forall j, nth_error cs1 j = match nth_error cs j with
              | Some x => Some (if (if rl then Nat.ltb j (N.to_nat k0) else Nat.ltb (N.to_nat k0) j && Nat.ltb j 16) then NEmpty else x)
              | None => None end).
    { intros j. unfold cs1. destruct rl; rewrite clear_range_nth; destruct (nth_error cs j); try reflexivity.
      replace (Nat.leb (N.to_nat k0 + 1) j) with (Nat.ltb (N.to_nat k0) j); [reflexivity|].
      destruct (Nat.ltb_spec (N.to_nat k0) j); symmetry; [apply Nat.leb_le|apply Nat.leb_gt]; lia. }
    apply valid_key_cons in Hk.
    assert (Hs' : slotok c) by (eapply pwf_full_slot; eassumption).
    assert (Hu' : ulen c (length kr)).
    { intros r v L. specialize (Hu (k0 :: r) v). rewrite lk_full, Ec in Hu. specialize (Hu L). simpl in Hu. lia. }
    assert (Hk' : kr = [] \/ valid_key kr) by (destruct Hk as [[_ ->]|[_ Vr]]; auto).
    rewrite Forall_forall in IH.
    destruct (IH c (nth_error_In _ _ Ec) kr rl a0 Hs' Hu' Hk' Eu) as [G St].
    inversion Hw as [| |? L17 Cc V16]; subst.
    assert (Hslot16 : forall r v x, nth_error cs 16 = Some x -> lk x r = Some v -> r = [] /\ kr = []).
    { intros r v x Ex L. destruct (V16 x Ex) as [->|(v0 & -> & _)]; [rewrite lk_empty in L; discriminate|].
      rewrite lk_value in L. destruct r; [|discriminate]. split; [reflexivity|].
      specialize (Hu [16] v0). rewrite lk_full in Hu. change (N.to_nat 16) with 16%nat in Hu. rewrite Ex, lk_value in Hu.
      specialize (Hu eq_refl). simpl in Hu. destruct kr; [reflexivity|discriminate]. }
    split.
    + intros k Hg. destruct k as [|j r]; [apply lk_full_nil|]. rewrite lk_full, N2.
      destruct (Nat.eqb (N.to_nat j) (N.to_nat k0)) eqn:B.
      * apply Nat.eqb_eq in B. assert (j = k0) by lia. subst j. apply G. unfold gone in *.
        destruct Hg as [Hg|Hg]; [left; congruence|right].
        destruct rl; apply slice_lt_cons in Hg; destruct Hg as [?|[_ Hg]]; try lia; exact Hg.
      * apply Nat.eqb_neq in B. rewrite N1. destruct (nth_error cs (N.to_nat j)) as [x|] eqn:Ex; [|reflexivity].
        unfold gone in Hg. destruct Hg as [Hg|Hg]; [congruence|].
        destruct rl; apply slice_lt_cons in Hg; destruct Hg as [Hg|[? _]]; try (subst; congruence).
        -- replace (Nat.ltb (N.to_nat j) (N.to_nat k0)) with true by (symmetry; apply Nat.ltb_lt; lia). apply lk_empty.
        -- destruct (Nat.ltb_spec (N.to_nat j) 16).
           ++ replace (Nat.ltb (N.to_nat k0) (N.to_nat j)) with true by (symmetry; apply Nat.ltb_lt; lia). apply lk_empty.
           ++ replace (Nat.ltb (N.to_nat k0) (N.to_nat j) && false) with false by (rewrite andb_false_r; reflexivity).
              assert (N.to_nat j < 17)%nat by (rewrite <- L17; apply nth_error_Some; congruence).
              assert (E16 : N.to_nat j = 16%nat) by lia. rewrite E16 in Ex.
              destruct (lk x r) as [v|] eqn:L; [|reflexivity]. exfalso.
              destruct (Hslot16 _ _ _ Ex L) as [_ ->]. destruct Hk as [[-> _]|[_ []]]. lia.
    + intros k Hst. destruct k as [|j r]; [rewrite !lk_full_nil; reflexivity|]. rewrite !lk_full, N2.
      destruct (Nat.eqb (N.to_nat j) (N.to_nat k0)) eqn:B.
      * apply Nat.eqb_eq in B. assert (j = k0) by lia. subst j. rewrite Ec. apply St. unfold stays in *.
        destruct rl; apply slice_lt_cons in Hst; destruct Hst as [?|[_ Hst]]; try lia; exact Hst.
      * apply Nat.eqb_neq in B. rewrite N1. destruct (nth_error cs (N.to_nat j)) as [x|] eqn:Ex; [|reflexivity].
        unfold stays in Hst.
        destruct rl; apply slice_lt_cons in Hst; destruct Hst as [Hst|[? _]]; try (subst; congruence).
        -- replace (Nat.ltb (N.to_nat j) (N.to_nat k0)) with false by (symmetry; apply Nat.ltb_ge; lia). reflexivity.
        -- replace (Nat.ltb (N.to_nat k0) (N.to_nat j)) with false by (symmetry; apply Nat.ltb_ge; lia). reflexivity.
  - discriminate.
Qed.

Lemma unset_internal_full cs l0 lr r0 rr0 :
  unset_internal (NFull cs) (l0 :: lr) (r0 :: rr0) =
  match child cs l0, child cs r0 with
  | Some ln, Some rn =>
      match (if is_empty ln || is_empty rn then Some true else iface_neq l0 r0 ln rn) with
      | None => Rerr RPanic
      | Some true => ui_fork cs l0 lr r0 rr0
      | Some false =>
          match nth_error cs (N.to_nat l0) with
          | None => Rerr RPanic
          | Some c =>
              match unset_internal c lr rr0 with
              | Rerr e => Rerr e
              | Rok a => match apply_act cs l0 a with Some cs' => Rok (UKeep (NFull cs')) | None => Rerr RPanic end
              end
          end
      end
  | _, _ => Rerr RPanic
  end.
Proof.
  cbn [unset_internal]. cbv zeta.
  assert (E : (fix go (l : list node) (i : nat) {struct l} : option (rr uact) :=
                 match l with
                 | [] => None
                 | c :: l' => match i with O => Some (unset_internal c lr rr0) | S i' => go l' i' end
                 end) cs (N.to_nat l0) =
              match nth_error cs (N.to_nat l0) with Some c => Some (unset_internal c lr rr0) | None => None end).
  { generalize (N.to_nat l0). induction cs as [|c cs IH]; intros [|i]; simpl; auto. }
  rewrite E. destruct (child cs l0); [|reflexivity]. destruct (child cs r0); [|reflexivity].
  destruct (if is_empty n || is_empty n0 then Some true else iface_neq l0 r0 n n0) as [[|]|]; try reflexivity.
  destruct (nth_error cs (N.to_nat l0)); [|reflexivity]. destruct (unset_internal n1 lr rr0); reflexivity.
Qed.

Lemma firstn_eq_split (p l : list N) : firstn (length p) l = p -> l = p ++ skipn (length p) l.
Proof. intros E. rewrite <- E at 1. symmetry. apply firstn_skipn. Qed.

(* the keys of the closed interval [left, right] *)
Definition between (left right k : list N) : Prop :=
  (k = left \/ slice_lt left k = true) /\ (k = right \/ slice_lt k right = true).

(* unset_removes_interior: after unsetInternal no key of [left, right] is reachable *)
Lemma unset_internal_spec s : forall left right a,
  slotok s -> ulen s (length left) -> length left = length right ->
  valid_key left -> valid_key right -> slice_lt left right = true ->
  unset_internal s left right = Rok a ->
  forall k, between left right k -> lk (act_node a) k = None.
Proof.
  induction s as [|v|rk rv IH|cs IH|h] using node_ind'; intros left right a Hs Hu Hlen Vl Vr Hlt E; try discriminate.
  - (* short *)
    destruct Hs as [?|[[? ?]|Hw]]; try discriminate.
    assert (Hlk : forall x k, lk (NShort rk x) k = match strip rk k with Some r => lk x r | None => None end)
      by (intros; apply lk_short).
    (* what the two edge passes need *)
    assert (Hedge : forall key rest rl a0 rv',
              key = left \/ key = right ->
              key = rk ++ rest -> unset rv rest rl = TOk a0 -> a0 = UKeep rv' ->
              (forall k', gone rl rest k' -> lk rv' k' = None)).
    { intros key rest rl a0 rv' Hkey Esp Eu -> k' Hg.
      assert (Vk : valid_key key) by (destruct Hkey; subst key; assumption).
      assert (Lk : length key = length left) by (destruct Hkey; subst key; [reflexivity|symmetry; exact Hlen]).
      inversion Hw as [? v Vk0 Sk Hv|? ? Nk Ne Sk Hc|]; subst rk rv.
      - discriminate.
      - assert (Hrest : rest <> []).
        { intros Er. rewrite Er, app_nil_r in Esp. rewrite Esp in Vk. exact (valid_key_not_nibbles _ Vk Nk). }
        rewrite Esp in Vk. destruct (valid_key_app_inv _ _ Vk Hrest) as [_ Vrest].
        destruct (unset_spec c rest rl (UKeep rv') (or_intror (or_intror Hc))) as [G _]; auto.
        intros r v L. specialize (Hu (k ++ r) v). rewrite lk_short, strip_app_same in Hu. specialize (Hu L).
        rewrite <- Lk, Esp, !app_length in Hu. lia. }
    cbn [unset_internal] in E. cbv zeta in E.
    destruct (bcmp (firstn (length rk) left) rk) eqn:Fl; destruct (bcmp (firstn (length rk) right) rk) eqn:Fr;
      try discriminate.
    + (* both edges go through *)
      apply bcmp_eq in Fl. apply bcmp_eq in Fr.
      inversion Hw as [? v Vk0 Sk Hv|? ? Nk Ne Sk Hc|]; subst; [cbn in E; discriminate|].
      pose proof (firstn_eq_split _ _ Fl) as El. pose proof (firstn_eq_split _ _ Fr) as Er.
      remember (skipn (length rk) left) as l' eqn:Dl in *. remember (skipn (length rk) right) as r' eqn:Dr in *.
      destruct (unset_internal rv l' r') as [[rv'|]|e] eqn:Eu; try discriminate. inversion E; subst a. cbn [act_node].
      intros k [B1 B2]. rewrite Hlk. destruct (strip rk k) as [k'|] eqn:Ek; [|reflexivity].
      apply strip_some in Ek. subst k.
      assert (Nl : l' <> []).
      { intros En. rewrite En, app_nil_r in El. rewrite El in Vl. exact (valid_key_not_nibbles _ Vl Nk). }
      assert (Nr : r' <> []).
      { intros En. rewrite En, app_nil_r in Er. rewrite Er in Vr. exact (valid_key_not_nibbles _ Vr Nk). }
      rewrite El in Vl, B1, Hlt, Hlen, Hu. rewrite Er in Vr, B2, Hlt, Hlen.
      destruct (valid_key_app_inv _ _ Vl Nl) as [_ Vl']. destruct (valid_key_app_inv _ _ Vr Nr) as [_ Vr'].
      rewrite slice_lt_app in Hlt. rewrite !app_length in Hlen.
      apply (IH l' r' (UKeep rv') (or_intror (or_intror Hc))); auto.
      * intros r v L. specialize (Hu (rk ++ r) v). rewrite lk_short, strip_app_same in Hu. specialize (Hu L).
        rewrite !app_length in Hu. lia.
      * lia.
      * split.
        -- destruct B1 as [B1|B1]; [left; apply app_inv_head in B1; exact B1|right; rewrite slice_lt_app in B1; exact B1].
        -- destruct B2 as [B2|B2]; [left; apply app_inv_head in B2; exact B2|right; rewrite slice_lt_app in B2; exact B2].
    + (* Eq, Lt *)
      apply bcmp_eq in Fl. pose proof (firstn_eq_split _ _ Fl) as El.
      intros k [B1 _]. destruct rv as [|v|k2 c2|cs2|h2]; try (inversion E; subst a; apply lk_empty).
      all: match type of E with context [unset ?x ?y false] => destruct (unset x y false) as [[rv'|]|e] eqn:Eu end; try discriminate.
      all: inversion E; subst a; cbn [act_node]; rewrite Hlk; destruct (strip rk k) as [k'|] eqn:Ek; [|reflexivity].
      all: apply strip_some in Ek; subst k; apply (Hedge left _ false _ rv' (or_introl eq_refl) El Eu eq_refl).
      all: unfold gone; rewrite El in B1; destruct B1 as [B1|B1]; [left; apply app_inv_head in B1; exact B1|right; rewrite slice_lt_app in B1; exact B1].
    + (* Eq, Gt *)
      apply bcmp_eq in Fl. pose proof (firstn_eq_split _ _ Fl) as El.
      intros k [B1 _]. destruct rv as [|v|k2 c2|cs2|h2]; try (inversion E; subst a; apply lk_empty).
      all: match type of E with context [unset ?x ?y false] => destruct (unset x y false) as [[rv'|]|e] eqn:Eu end; try discriminate.
      all: inversion E; subst a; cbn [act_node]; rewrite Hlk; destruct (strip rk k) as [k'|] eqn:Ek; [|reflexivity].
      all: apply strip_some in Ek; subst k; apply (Hedge left _ false _ rv' (or_introl eq_refl) El Eu eq_refl).
      all: unfold gone; rewrite El in B1; destruct B1 as [B1|B1]; [left; apply app_inv_head in B1; exact B1|right; rewrite slice_lt_app in B1; exact B1].
    + (* Lt, Eq *)
      apply bcmp_eq in Fr. pose proof (firstn_eq_split _ _ Fr) as Er.
      intros k [_ B2]. destruct rv as [|v|k2 c2|cs2|h2]; try (inversion E; subst a; apply lk_empty).
      all: match type of E with context [unset ?x ?y true] => destruct (unset x y true) as [[rv'|]|e] eqn:Eu end; try discriminate.
      all: inversion E; subst a; cbn [act_node]; rewrite Hlk; destruct (strip rk k) as [k'|] eqn:Ek; [|reflexivity].
      all: apply strip_some in Ek; subst k; apply (Hedge right _ true _ rv' (or_intror eq_refl) Er Eu eq_refl).
      all: unfold gone; rewrite Er in B2; destruct B2 as [B2|B2]; [left; apply app_inv_head in B2; exact B2|right; rewrite slice_lt_app in B2; exact B2].
    + (* Lt, Gt *) inversion E; subst a. intros; apply lk_empty.
    + (* Gt, Eq *)
      apply bcmp_eq in Fr. pose proof (firstn_eq_split _ _ Fr) as Er.
      intros k [_ B2]. destruct rv as [|v|k2 c2|cs2|h2]; try (inversion E; subst a; apply lk_empty).
      all: match type of E with context [unset ?x ?y true] => destruct (unset x y true) as [[rv'|]|e] eqn:Eu end; try discriminate.
      all: inversion E; subst a; cbn [act_node]; rewrite Hlk; destruct (strip rk k) as [k'|] eqn:Ek; [|reflexivity].
      all: apply strip_some in Ek; subst k; apply (Hedge right _ true _ rv' (or_intror eq_refl) Er Eu eq_refl).
      all: unfold gone; rewrite Er in B2; destruct B2 as [B2|B2]; [left; apply app_inv_head in B2; exact B2|right; rewrite slice_lt_app in B2; exact B2].
    + (* Gt, Lt *) inversion E; subst a. intros; apply lk_empty.
  - (* branch *)
    destruct Hs as [?|[[? ?]|Hw]]; try discriminate.
    destruct left as [|l0 lr]; [destruct Vl|]. destruct right as [|r0 rr0]; [destruct Vr|].
    rewrite unset_internal_full in E. unfold child in E.
    destruct (nth_error cs (N.to_nat l0)) as [ln|] eqn:Eln; [|discriminate].
    destruct (nth_error cs (N.to_nat r0)) as [rn|] eqn:Ern; [|discriminate].
    inversion Hw as [| |? L17 Cc V16]; subst.
    apply slice_lt_cons in Hlt.
    assert (Hul : forall j c, nth_error cs (N.to_nat j) = Some c -> ulen c (length lr)).
    { intros j c Ec r v L. specialize (Hu (j :: r) v). rewrite lk_full, Ec in Hu. specialize (Hu L). simpl in Hu. lia. }
    assert (Hkl : lr = [] \/ valid_key lr) by (apply valid_key_cons in Vl; destruct Vl as [[_ ->]|[_ ?]]; auto).
    assert (Hkr : rr0 = [] \/ valid_key rr0) by (apply valid_key_cons in Vr; destruct Vr as [[_ ->]|[_ ?]]; auto).
    assert (Hrange : forall j r, between (l0 :: lr) (r0 :: rr0) (j :: r) -> l0 <= j <= r0).
    { intros j r [B1 B2]. split.
      - destruct B1 as [B1|B1]; [inversion B1; lia|]. apply slice_lt_cons in B1. lia.
      - destruct B2 as [B2|B2]; [inversion B2; lia|]. apply slice_lt_cons in B2. lia. }
    destruct (if is_empty ln || is_empty rn then Some true else iface_neq l0 r0 ln rn) as [[|]|] eqn:Fk; [| |discriminate].
    + (* the fork point *)
      unfold ui_fork in E. cbv zeta in E. unfold child in E.
      set (cs1 := clear_range (N.to_nat l0 + 1) (N.to_nat r0) cs) in E.
      assert (N1 : forall j, nth_error cs1 j = match nth_error cs j with
                | Some x => Some (if Nat.ltb (N.to_nat l0) j && Nat.ltb j (N.to_nat r0) then NEmpty else x)
                | None => None end).
      { intros j. unfold cs1. rewrite clear_range_nth. destruct (nth_error cs j); [|reflexivity].
        replace (Nat.leb (N.to_nat l0 + 1) j) with (Nat.ltb (N.to_nat l0) j); [reflexivity|].
        destruct (Nat.ltb_spec (N.to_nat l0) j); symmetry; [apply Nat.leb_le|apply Nat.leb_gt]; lia. }
      rewrite N1, Eln in E. rewrite Nat.ltb_irrefl in E. cbn [andb] in E.
      destruct (unset ln lr false) as [a1|e] eqn:E1; [|discriminate].
      destruct (apply_act cs1 l0 a1) as [cs2|] eqn:A1; [|discriminate].
      destruct (apply_act_nth _ _ _ _ A1) as [_ N2].
      destruct (nth_error cs2 (N.to_nat r0)) as [c2|] eqn:Ec2; [|discriminate].
      destruct (unset c2 rr0 true) as [a2|e] eqn:E2; [|discriminate].
      destruct (apply_act cs2 r0 a2) as [cs3|] eqn:A2; [|discriminate].
      destruct (apply_act_nth _ _ _ _ A2) as [_ N3].
      inversion E; subst a. cbn [act_node].
      destruct (unset_spec ln lr false a1 (pwf_full_slot _ _ _ Hw Eln) (Hul _ _ Eln) Hkl E1) as [G1 _].
      intros k Hb. destruct k as [|j r]; [apply lk_full_nil|]. pose proof (Hrange _ _ Hb) as Hj. destruct Hb as [B1 B2].
      rewrite lk_full, N3.
      destruct (N.eq_dec l0 r0) as [<-|Hne].
      * (* both edges point to the same (necessarily nil) slot *)
        rewrite Ern in Eln. inversion Eln; subst rn.
        assert (ln = NEmpty).
        { destruct ln; try reflexivity; cbn in Fk; rewrite ?N.eqb_refl in Fk; discriminate. }
        subst ln. inversion E1; subst a1. rewrite N2, Nat.eqb_refl in Ec2. inversion Ec2; subst c2.
        inversion E2; subst a2. assert (j = l0) by lia. subst j. rewrite Nat.eqb_refl. apply lk_empty.
      * assert (Hlt0 : l0 < r0) by lia.
        destruct (Nat.eqb (N.to_nat j) (N.to_nat r0)) eqn:Br.
        -- apply Nat.eqb_eq in Br. assert (j = r0) by lia. subst j.
           rewrite N2 in Ec2. replace (Nat.eqb (N.to_nat r0) (N.to_nat l0)) with false in Ec2 by (symmetry; apply Nat.eqb_neq; lia).
           rewrite N1, Ern in Ec2. rewrite Nat.ltb_irrefl, andb_false_r in Ec2. inversion Ec2; subst c2.
           destruct (unset_spec rn rr0 true a2 (pwf_full_slot _ _ _ Hw Ern)) as [G2 _]; auto.
           { intros r' v L. specialize (Hu (r0 :: r') v). rewrite lk_full, Ern in Hu. specialize (Hu L).
             simpl in Hu, Hlen. lia. }
           apply G2. unfold gone. destruct B2 as [B2|B2]; [left; congruence|right].
           apply slice_lt_cons in B2. destruct B2 as [?|[_ B2]]; [lia|exact B2].
        -- apply Nat.eqb_neq in Br. rewrite N2.
           destruct (Nat.eqb (N.to_nat j) (N.to_nat l0)) eqn:Bl.
           ++ apply Nat.eqb_eq in Bl. assert (j = l0) by lia. subst j. apply G1. unfold gone.
              destruct B1 as [B1|B1]; [left; congruence|right].
              apply slice_lt_cons in B1. destruct B1 as [?|[_ B1]]; [lia|exact B1].
           ++ apply Nat.eqb_neq in Bl. rewrite N1. destruct (nth_error cs (N.to_nat j)); [|reflexivity].
              replace (Nat.ltb (N.to_nat l0) (N.to_nat j) && Nat.ltb (N.to_nat j) (N.to_nat r0)) with true.
              ** apply lk_empty.
              ** symmetry. apply andb_true_iff. split; apply Nat.ltb_lt; lia.
    + (* both edges continue into the same child *)
      assert (l0 = r0).
      { destruct (is_empty ln || is_empty rn); [discriminate|].
        destruct ln, rn; cbn in Fk; try discriminate; inversion Fk as [Fe]; apply negb_false_iff in Fe; apply N.eqb_eq; exact Fe. }
      subst r0. rewrite Ern in Eln. inversion Eln; subst rn.
      destruct (unset_internal ln lr rr0) as [a0|e] eqn:Eu; [|discriminate].
      destruct (apply_act cs l0 a0) as [cs'|] eqn:Aa; [|discriminate]. inversion E; subst a. cbn [act_node].
      destruct (apply_act_nth _ _ _ _ Aa) as [_ Nn].
      intros k Hb. destruct k as [|j r]; [apply lk_full_nil|]. pose proof (Hrange _ _ Hb) as Hj.
      assert (j = l0) by lia. subst j. rewrite lk_full, Nn, Nat.eqb_refl.
      destruct Hlt as [?|[_ Hlt]]; [lia|]. simpl in Hlen.
      assert (Hne : ln <> NEmpty /\ (forall v, ln <> NValue v)).
      { destruct ln; cbn in Fk; try discriminate; split; intros; discriminate. }
      assert (Vl' : valid_key lr).
      { destruct Hkl as [->|?]; [|assumption]. destruct rr0; [|discriminate]. discriminate. }
      assert (Vr' : valid_key rr0).
      { destruct Hkr as [->|?]; [|assumption]. destruct lr; [destruct Vl'|discriminate]. }
      rewrite Forall_forall in IH.
      apply (IH ln (nth_error_In _ _ Ern) lr rr0 a0 (pwf_full_slot _ _ _ Hw Ern) (Hul _ _ Ern)); auto.
      destruct Hb as [B1 B2]. split.
      * destruct B1 as [B1|B1]; [left; congruence|right]. apply slice_lt_cons in B1. destruct B1 as [?|[_ B1]]; [lia|exact B1].
      * destruct B2 as [B2|B2]; [left; congruence|right]. apply slice_lt_cons in B2. destruct B2 as [?|[_ B2]]; [lia|exact B2].
Qed.

(* ------------------------------------------------------------------ the partial tree simulates the full trie *)

Section Sim.
  Variable H : list N -> list N.
  Hypothesis H_len : forall x, length (H x) = 32%nat.

  Notation pv := (pv H).

  Definition pvs (cs cs' : list node) : Prop :=
    length cs = length cs' /\
    forall i c c', nth_error cs i = Some c -> nth_error cs' i = Some c' -> pv c c'.

  Lemma pvs_nth cs cs' i c : pvs cs cs' -> nth_error cs i = Some c ->
    exists c', nth_error cs' i = Some c' /\ pv c c'.
  Proof.
    intros [L Hn] Ec. destruct (nth_error cs' i) as [c'|] eqn:Ec'.
    - exists c'. split; [reflexivity|]. eapply Hn; eassumption.
    - apply nth_error_None in Ec'. assert (i < length cs)%nat by (apply nth_error_Some; congruence). lia.
  Qed.

  Lemma pvs_clear lo hi cs cs' : pvs cs cs' -> pvs (clear_range lo hi cs) (clear_range lo hi cs').
  Proof.
    intros [L Hn]. split; [rewrite !clear_range_length; exact L|].
    intros i c c' Ec Ec'. rewrite clear_range_nth in Ec, Ec'.
    destruct (nth_error cs i) as [x|] eqn:Ex; [|discriminate]. destruct (nth_error cs' i) as [x'|] eqn:Ex'; [|discriminate].
    inversion Ec; inversion Ec'; subst. destruct (Nat.leb lo i && Nat.ltb i hi); [constructor|]. eapply Hn; eassumption.
  Qed.

  Definition pvact (a a' : uact) : Prop :=
    match a, a' with
    | UKeep p, UKeep s => pv p s
    | URemove, URemove => True
    | _, _ => False
    end.

  Lemma pvact_node a a' : pvact a a' -> pv (act_node a) (act_node a').
  Proof. destruct a as [p|], a' as [s|]; simpl; intros Ha; [exact Ha|destruct Ha|destruct Ha|constructor]. Qed.

  Lemma pvs_set cs cs' i x x' cs2 : pvs cs cs' -> pv x x' -> set_child cs i x = Some cs2 ->
    exists cs2', set_child cs' i x' = Some cs2' /\ pvs cs2 cs2'.
  Proof.
    intros [L Hn] Hx E. unfold set_child in *. destruct (set_nth_spec _ _ _ _ E) as [L2 N2].
    pose proof (set_nth_lt _ _ _ _ E) as Hi.
    destruct (set_nth_some (N.to_nat i) x' cs' ltac:(lia)) as [cs2' E'].
    destruct (set_nth_spec _ _ _ _ E') as [L2' N2'].
    exists cs2'. split; [exact E'|]. split; [lia|].
    intros j c c' Ec Ec'. rewrite N2 in Ec. rewrite N2' in Ec'.
    destruct (Nat.eqb j (N.to_nat i)); [inversion Ec; inversion Ec'; subst; exact Hx|eapply Hn; eassumption].
  Qed.

  Lemma pvs_apply cs cs' i a a' cs2 : pvs cs cs' -> pvact a a' -> apply_act cs i a = Some cs2 ->
    exists cs2', apply_act cs' i a' = Some cs2' /\ pvs cs2 cs2'.
  Proof.
    intros Hp Ha E. unfold apply_act in *.
    eapply (pvs_set cs cs' i (act_node a) (act_node a')); [exact Hp|apply pvact_node; exact Ha|].
    destruct a; exact E.
  Qed.

  Lemma apply_act_node cs i a : apply_act cs i a = set_child cs i (act_node a).
  Proof. destruct a; reflexivity. Qed.

  Lemma pv_full_inv cs s : pv (NFull cs) s -> exists cs', s = NFull cs' /\ pvs cs cs'.
  Proof. intros Hp. inversion Hp; subst. eexists. split; [reflexivity|]. split; assumption. Qed.
  Lemma pv_short_inv k c s : pv (NShort k c) s -> exists c', s = NShort k c' /\ pv c c'.
  Proof. intros Hp. inversion Hp; subst. eauto. Qed.
  Lemma pv_empty_inv s : pv NEmpty s -> s = NEmpty.
  Proof. intros Hp. inversion Hp; reflexivity. Qed.
  Lemma pv_value_inv v s : pv (NValue v) s -> s = NValue v.
  Proof. intros Hp. inversion Hp; reflexivity. Qed.
  Lemma pv_hash_inner h s : pv (NHash h) s -> inner_shape s.
  Proof. intros Hp. inversion Hp; subst. destruct (pwf_shape s H1) as [(k & c & ->)|(cs & ->)]; exact I. Qed.

  Lemma unset_sim p : forall s key rl a, pv p s -> unset p key rl = TOk a ->
    exists a', unset s key rl = TOk a' /\ pvact a a'.
  Proof.
    induction p as [|v|ck cv IH|cs IH|h] using node_ind'; intros s key rl a Hp E; try discriminate.
    - apply pv_empty_inv in Hp. subst s. inversion E; subst. exists (UKeep NEmpty). split; [reflexivity|constructor].
    - destruct (pv_short_inv _ _ _ Hp) as (cv' & -> & Hc). cbn [unset] in E |- *.
      destruct (negb (is_prefix_of ck key)).
      + destruct rl.
        * destruct (slice_lt ck key); inversion E; subst; eexists; (split; [reflexivity|]); simpl; auto.
        * destruct (slice_lt key ck); inversion E; subst; eexists; (split; [reflexivity|]); simpl; auto.
      + destruct cv as [|v|k2 c2|cs2|h2].
        * apply pv_empty_inv in Hc. subst cv'. cbn in E. inversion E; subst. eexists. split; [reflexivity|]. simpl. constructor. constructor.
        * apply pv_value_inv in Hc. subst cv'. inversion E; subst. exists URemove. split; [reflexivity|exact I].
        * destruct (pv_short_inv _ _ _ Hc) as (c2' & -> & Hc2).
          destruct (unset (NShort k2 c2) (skipn (length ck) key) rl) as [[x|]|e] eqn:Eu; try discriminate.
          destruct (IH _ _ _ _ Hc Eu) as (a' & Ea' & Ha'). rewrite Ea'. destruct a' as [x'|]; [|destruct Ha'].
          inversion E; subst. eexists. split; [reflexivity|]. simpl. constructor. exact Ha'.
        * destruct (pv_full_inv _ _ Hc) as (cs2' & -> & Hcs2).
          destruct (unset (NFull cs2) (skipn (length ck) key) rl) as [[x|]|e] eqn:Eu; try discriminate.
          destruct (IH _ _ _ _ Hc Eu) as (a' & Ea' & Ha'). rewrite Ea'. destruct a' as [x'|]; [|destruct Ha'].
          inversion E; subst. eexists. split; [reflexivity|]. simpl. constructor. exact Ha'.
        * cbn in E. discriminate.
    - destruct (pv_full_inv _ _ Hp) as (cs' & -> & Hcs). destruct key as [|k0 kr]; [discriminate|].
      rewrite unset_full in E |- *. cbv zeta in E |- *.
      destruct (nth_error cs (N.to_nat k0)) as [c|] eqn:Ec; [|discriminate].
      destruct (pvs_nth _ _ _ _ Hcs Ec) as (c' & Ec' & Hc). rewrite Ec'.
      destruct (unset c kr rl) as [a0|e] eqn:Eu; [|discriminate].
      rewrite Forall_forall in IH. destruct (IH c (nth_error_In _ _ Ec) _ _ _ _ Hc Eu) as (a0' & Ea0' & Ha0). rewrite Ea0'.
      destruct (apply_act _ k0 a0) as [cs2|] eqn:Ea; [|discriminate]. inversion E; subst a.
      assert (Hcl : pvs (if rl then clear_range 0 (N.to_nat k0) cs else clear_range (N.to_nat k0 + 1) 16 cs)
                        (if rl then clear_range 0 (N.to_nat k0) cs' else clear_range (N.to_nat k0 + 1) 16 cs'))
        by (destruct rl; apply pvs_clear; exact Hcs).
      destruct (pvs_apply _ _ _ _ _ _ Hcl Ha0 Ea) as (cs2' & -> & Hcs2).
      eexists. split; [reflexivity|]. simpl. destruct Hcs2. constructor; assumption.
  Qed.

  Lemma iface_neq_sim l0 r0 ln rn ln' rn' b :
    pv ln ln' -> pv rn rn' -> is_empty ln || is_empty rn = false ->
    (l0 = r0 -> ln = rn) ->
    iface_neq l0 r0 ln rn = Some b -> iface_neq l0 r0 ln' rn' = Some b.
  Proof.
    intros Hl Hr He Hsame E.
    destruct ln as [|vl|kl cl|csl|hl]; destruct rn as [|vr|kr cr|csr|hr]; cbn in He; try discriminate;
      cbn in E; try discriminate.
    all: first [apply pv_value_inv in Hl; subst ln'
               |destruct (pv_short_inv _ _ _ Hl) as (? & ? & _); subst ln'
               |destruct (pv_full_inv _ _ Hl) as (? & ? & _); subst ln'
               |apply pv_hash_inner in Hl; destruct ln'; try destruct Hl].
    all: first [apply pv_value_inv in Hr; subst rn'
               |destruct (pv_short_inv _ _ _ Hr) as (? & ? & _); subst rn'
               |destruct (pv_full_inv _ _ Hr) as (? & ? & _); subst rn'
               |apply pv_hash_inner in Hr; destruct rn'; try destruct Hr].
    all: cbn; try exact E.
    all: inversion E; subst b; destruct (N.eqb_spec l0 r0) as [Heq|]; [specialize (Hsame Heq); discriminate|reflexivity].
  Qed.

  Lemma unset_internal_sim p : forall s left right a, pv p s -> unset_internal p left right = Rok a ->
    exists a', unset_internal s left right = Rok a' /\ pvact a a'.
  Proof.
    induction p as [|v|rk rv IH|cs IH|h] using node_ind'; intros s left right a Hp E; try discriminate.
    - destruct (pv_short_inv _ _ _ Hp) as (rv' & -> & Hc). cbn [unset_internal] in E |- *. cbv zeta in E |- *.
      assert (Hedge : forall key rl,
                match rv with
                | NValue _ => Rok URemove
                | _ => match unset rv key rl with
                       | TErr e => Rerr (of_terr e)
                       | TOk (UKeep x) => Rok (UKeep (NShort rk x))
                       | TOk URemove => Rerr RPanic
                       end
                end = Rok a ->
                exists a', match rv' with
                | NValue _ => Rok URemove
                | _ => match unset rv' key rl with
                       | TErr e => Rerr (of_terr e)
                       | TOk (UKeep x) => Rok (UKeep (NShort rk x))
                       | TOk URemove => Rerr RPanic
                       end
                end = Rok a' /\ pvact a a').
      { intros key rl E0.
        assert (Hgen : forall (Hnv : forall v, rv <> NValue v),
                  match unset rv key rl with
                  | TErr e => Rerr (of_terr e)
                  | TOk (UKeep x) => Rok (UKeep (NShort rk x))
                  | TOk URemove => Rerr RPanic
                  end = Rok a ->
                  exists a', match unset rv' key rl with
                  | TErr e => Rerr (of_terr e)
                  | TOk (UKeep x) => Rok (UKeep (NShort rk x))
                  | TOk URemove => Rerr RPanic
                  end = Rok a' /\ pvact a a').
        { intros _ E1. destruct (unset rv key rl) as [[x|]|e] eqn:Eu; try discriminate.
          destruct (unset_sim _ _ _ _ _ Hc Eu) as (a' & -> & Ha'). destruct a' as [x'|]; [|destruct Ha'].
          inversion E1; subst. eexists. split; [reflexivity|]. simpl. constructor. exact Ha'. }
        destruct rv as [|v|k2 c2|cs2|h2].
        - apply pv_empty_inv in Hc. subst rv'. apply Hgen; [discriminate|exact E0].
        - apply pv_value_inv in Hc. subst rv'. inversion E0; subst. exists URemove. split; [reflexivity|exact I].
        - destruct (pv_short_inv _ _ _ Hc) as (? & -> & _). apply Hgen; [discriminate|exact E0].
        - destruct (pv_full_inv _ _ Hc) as (? & -> & _). apply Hgen; [discriminate|exact E0].
        - cbn in E0. discriminate. }
      destruct (bcmp (firstn (length rk) left) rk); destruct (bcmp (firstn (length rk) right) rk); try discriminate;
        try (apply Hedge; exact E); try (inversion E; subst; exists URemove; split; [reflexivity|exact I]).
      destruct (unset_internal rv _ _) as [[x|]|e] eqn:Eu; try discriminate.
      destruct (IH _ _ _ _ Hc Eu) as (a' & -> & Ha'). destruct a' as [x'|]; [|destruct Ha'].
      inversion E; subst. eexists. split; [reflexivity|]. simpl. constructor. exact Ha'.
    - destruct (pv_full_inv _ _ Hp) as (cs' & -> & Hcs).
      destruct left as [|l0 lr]; [discriminate|]. destruct right as [|r0 rr0]; [discriminate|].
      rewrite unset_internal_full in E |- *. unfold child in *.
      destruct (nth_error cs (N.to_nat l0)) as [ln|] eqn:Eln; [|discriminate].
      destruct (nth_error cs (N.to_nat r0)) as [rn|] eqn:Ern; [|discriminate].
      destruct (pvs_nth _ _ _ _ Hcs Eln) as (ln' & Eln' & Hln). destruct (pvs_nth _ _ _ _ Hcs Ern) as (rn' & Ern' & Hrn).
      rewrite Eln', Ern'.
      assert (Hemp : forall x x', pv x x' -> is_empty x' = is_empty x).
      { intros x x' Hx. destruct x; try reflexivity.
        - apply pv_empty_inv in Hx. subst. reflexivity.
        - apply pv_value_inv in Hx. subst. reflexivity.
        - destruct (pv_short_inv _ _ _ Hx) as (? & -> & _). reflexivity.
        - destruct (pv_full_inv _ _ Hx) as (? & -> & _). reflexivity.
        - pose proof (pv_hash_inner _ _ Hx). destruct x'; try destruct H0; reflexivity. }
      rewrite (Hemp _ _ Hln), (Hemp _ _ Hrn).
      assert (Hfork : forall fk, (if is_empty ln || is_empty rn then Some true else iface_neq l0 r0 ln rn) = Some fk ->
                (if is_empty ln || is_empty rn then Some true else iface_neq l0 r0 ln' rn') = Some fk).
      { intros fk Ef. destruct (is_empty ln || is_empty rn) eqn:Ee; [exact Ef|].
        eapply iface_neq_sim; eauto. intros ->. congruence. }
      destruct (if is_empty ln || is_empty rn then Some true else iface_neq l0 r0 ln rn) as [[|]|] eqn:Fk; [| |discriminate];
        rewrite (Hfork _ eq_refl).
      + (* fork *)
        unfold ui_fork in E |- *. cbv zeta in E |- *. unfold child in *.
        pose proof (pvs_clear (N.to_nat l0 + 1) (N.to_nat r0) _ _ Hcs) as Hcs1.
        destruct (nth_error (clear_range _ _ cs) (N.to_nat l0)) as [c1|] eqn:Ec1; [|discriminate].
        destruct (pvs_nth _ _ _ _ Hcs1 Ec1) as (c1' & -> & Hc1).
        destruct (unset c1 lr false) as [a1|e] eqn:E1; [|discriminate].
        destruct (unset_sim _ _ _ _ _ Hc1 E1) as (a1' & -> & Ha1).
        destruct (apply_act _ l0 a1) as [cs2|] eqn:A1; [|discriminate].
        destruct (pvs_apply _ _ _ _ _ _ Hcs1 Ha1 A1) as (cs2' & -> & Hcs2).
        destruct (nth_error cs2 (N.to_nat r0)) as [c2|] eqn:Ec2; [|discriminate].
        destruct (pvs_nth _ _ _ _ Hcs2 Ec2) as (c2' & -> & Hc2).
        destruct (unset c2 rr0 true) as [a2|e] eqn:E2; [|discriminate].
        destruct (unset_sim _ _ _ _ _ Hc2 E2) as (a2' & -> & Ha2).
        destruct (apply_act cs2 r0 a2) as [cs3|] eqn:A2; [|discriminate].
        destruct (pvs_apply _ _ _ _ _ _ Hcs2 Ha2 A2) as (cs3' & -> & Hcs3).
        inversion E; subst. eexists. split; [reflexivity|]. simpl. destruct Hcs3. constructor; assumption.
      + (* descend *)
        destruct (unset_internal ln lr rr0) as [a0|e] eqn:Eu; [|discriminate].
        rewrite Forall_forall in IH. destruct (IH ln (nth_error_In _ _ Eln) _ _ _ _ Hln Eu) as (a0' & -> & Ha0).
        destruct (apply_act cs l0 a0) as [cs2|] eqn:A; [|discriminate].
        destruct (pvs_apply _ _ _ _ _ _ Hcs Ha0 A) as (cs2' & -> & Hcs2).
        inversion E; subst. eexists. split; [reflexivity|]. simpl. destruct Hcs2. constructor; assumption.
  Qed.
End Sim.

Section SimInsert.
  Variable H : list N -> list N.
  Hypothesis H_len : forall x, length (H x) = 32%nat.
  Notation pv := (pv H).

  Lemma pv_inil k c c' : pv c c' -> pv (inil k c) (inil k c').
  Proof. intros Hc. unfold inil. destruct k; [exact Hc|constructor; exact Hc]. Qed.

  Lemma pvs_empty17 : pvs H empty17 empty17.
  Proof.
    split; [reflexivity|]. intros i c c' E E'. apply nth_error_empty17 in E. apply nth_error_empty17 in E'.
    subst. constructor.
  Qed.

  Lemma insert_full_unfold' f cs prefix k0 kr value :
    insert no_resolve (S f) (NFull cs) prefix (k0 :: kr) value =
    match child cs k0 with
    | None => TErr EPanic
    | Some c =>
        match insert no_resolve f c (prefix ++ [k0]) kr value with
        | TOk (true, nn, ev) =>
            match set_child cs k0 nn with
            | Some cs' => TOk (true, NFull cs', ev)
            | None => TErr EPanic
            end
        | TOk (false, _, ev) => TOk (false, NFull cs, ev)
        | TErr e => TErr e
        end
    end.
  Proof. reflexivity. Qed.

  (* insertion into the partial tree = insertion into the full trie, unless a hash node is hit *)
  Lemma insert_sim : forall fuel p s prefix key v d p' ev,
    pv p s -> insert no_resolve fuel p prefix key (NValue v) = TOk (d, p', ev) ->
    exists s' ev', insert no_resolve fuel s prefix key (NValue v) = TOk (d, s', ev') /\ pv p' s'.
  Proof.
    induction fuel as [|f IH]; intros p s prefix key v d p' ev Hp E; [discriminate|].
    destruct key as [|k0 kr].
    - (* the value slot *)
      destruct p as [|v0|k c|cs|h].
      + apply pv_empty_inv in Hp. subst s. cbn in E |- *. inversion E; subst. eexists _, _. split; [reflexivity|constructor].
      + apply pv_value_inv in Hp. subst s. cbn in E |- *. inversion E; subst. eexists _, _. split; [reflexivity|constructor].
      + destruct (pv_short_inv _ _ _ _ Hp) as (c' & -> & _). cbn in E |- *. inversion E; subst. eexists _, _. split; [reflexivity|constructor].
      + destruct (pv_full_inv _ _ _ Hp) as (cs' & -> & _). cbn in E |- *. inversion E; subst. eexists _, _. split; [reflexivity|constructor].
      + pose proof (pv_hash_inner _ _ _ Hp) as Hi. cbn in E. inversion E; subst.
        destruct s; try destruct Hi; cbn; eexists _, _; (split; [reflexivity|constructor]).
    - destruct p as [|v0|nk nv|cs|h].
      + apply pv_empty_inv in Hp. subst s. cbn in E |- *. inversion E; subst. eexists _, _. split; [reflexivity|].
        constructor. constructor.
      + discriminate.
      + (* short *)
        destruct (pv_short_inv _ _ _ _ Hp) as (nv' & -> & Hc).
        rewrite insert_short_unfold in E |- * by discriminate. cbv zeta in E |- *.
        destruct (Nat.eqb (prefix_len (k0 :: kr) nk) (length nk)).
        * destruct (insert no_resolve f nv _ _ _) as [[[d0 nn] ev0]|e] eqn:Ei; [|discriminate].
          destruct (IH _ _ _ _ _ _ _ _ Hc Ei) as (nn' & ev0' & -> & Hnn).
          destruct d0; inversion E; subst; eexists _, _; (split; [reflexivity|]); constructor; assumption.
        * destruct (nth_error nk _) as [a|]; [|discriminate]. destruct (nth_error (k0 :: kr) _) as [b|]; [|discriminate].
          rewrite (surjective_pairing (insert_nil _ (skipn _ nk) nv)) in E.
          rewrite (surjective_pairing (insert_nil _ (skipn _ nk) nv')).
          rewrite (surjective_pairing (insert_nil _ (skipn _ (k0 :: kr)) (NValue v))) in E |- *.
          rewrite !insert_nil_fst in E |- *.
          destruct (set_child empty17 a (inil _ nv)) as [cs1|] eqn:S1; [|discriminate].
          destruct (pvs_set H _ _ _ _ _ _ pvs_empty17 (pv_inil (skipn (prefix_len (k0 :: kr) nk + 1) nk) _ _ Hc) S1) as (cs1' & -> & Hcs1).
          destruct (set_child cs1 b _) as [cs2|] eqn:S2; [|discriminate].
          destruct (pvs_set H _ _ _ _ _ _ Hcs1 (pv_inil (skipn (prefix_len (k0 :: kr) nk + 1) (k0 :: kr)) _ _ (pv_value H v)) S2) as (cs2' & S2' & Hcs2).
          rewrite S2'.
          destruct (Nat.eqb (prefix_len (k0 :: kr) nk) 0); inversion E; subst; eexists _, _; (split; [reflexivity|]);
            destruct Hcs2; repeat constructor; assumption.
      + (* full *)
        destruct (pv_full_inv _ _ _ Hp) as (cs' & -> & Hcs).
        rewrite insert_full_unfold' in E |- *. unfold child in *.
        destruct (nth_error cs (N.to_nat k0)) as [c|] eqn:Ec; [|discriminate].
        destruct (pvs_nth H _ _ _ _ Hcs Ec) as (c' & -> & Hc).
        destruct (insert no_resolve f c _ _ _) as [[[d0 nn] ev0]|e] eqn:Ei; [|discriminate].
        destruct (IH _ _ _ _ _ _ _ _ Hc Ei) as (nn' & ev0' & -> & Hnn).
        destruct d0.
        * destruct (set_child cs k0 nn) as [cs2|] eqn:S1; [|discriminate].
          destruct (pvs_set H _ _ _ _ _ _ Hcs Hnn S1) as (cs2' & -> & Hcs2).
          inversion E; subst. eexists _, _. split; [reflexivity|]. destruct Hcs2. constructor; assumption.
        * inversion E; subst. eexists _, _. split; [reflexivity|]. destruct Hcs. constructor; assumption.
      + cbn in E. discriminate.
  Qed.
End SimInsert.

Section EncPv.
  Variable H : list N -> list N.
  Hypothesis H_len : forall x, length (H x) = 32%nat.
  Notation pv := (pv H).

  (* one child slot: its contribution to the parent's encoding *)
  Definition slot_at (i : nat) (c : node) : option (list N) :=
    match c with
    | NEmpty => Some [128]
    | _ =>
        if Nat.eqb i 16 then
          match c with
          | NValue [] => Some [128]
          | NValue v => Some (Rlp.Codec.enc_str v)
          | _ => None
          end
        else
          match c with
          | NHash [] => Some [128]
          | NHash h => Some (write_ref h)
          | NShort _ _ | NFull _ =>
              match node_enc H c with
              | Some e => Some (write_ref (ref_of_enc H e))
              | None => None
              end
          | _ => None
          end
    end.

  Lemma enc_go_cons i c r :
    enc_go H i (c :: r) = match slot_at i c, enc_go H (S i) r with Some a, Some b => Some (a ++ b) | _, _ => None end.
  Proof. reflexivity. Qed.

  Lemma slot_at_pv i c c' : pv c c' -> (inner_shape c -> node_enc H c = node_enc H c') ->
    slot_at i c = slot_at i c'.
  Proof.
    intros Hp IH. destruct c as [|v|k x|cs|h].
    - apply pv_empty_inv in Hp. subst. reflexivity.
    - apply pv_value_inv in Hp. subst. reflexivity.
    - destruct (pv_short_inv _ _ _ _ Hp) as (x' & -> & _). unfold slot_at. rewrite (IH I). reflexivity.
    - destruct (pv_full_inv _ _ _ Hp) as (cs' & -> & _). unfold slot_at. rewrite (IH I). reflexivity.
    - inversion Hp as [| |t e Hw Ee Le| |]; subst. unfold slot_at.
      assert (Hne : H e <> []) by (intros E0; pose proof (H_len e) as L; rewrite E0 in L; discriminate).
      destruct (Nat.eqb i 16).
      + destruct (H e); [congruence|]. destruct (pwf_shape c' Hw) as [(k & x & ->)|(cs & ->)]; reflexivity.
      + assert (R : ref_of_enc H e = H e).
        { unfold ref_of_enc. replace (Nat.ltb (length e) 32) with false; [reflexivity|]. symmetry. apply Nat.ltb_ge. exact Le. }
        destruct (H e) eqn:He; [congruence|].
        destruct (pwf_shape c' Hw) as [(k & x & ->)|(cs & ->)]; rewrite Ee, R; reflexivity.
  Qed.

  Lemma enc_go_pv l : forall l' i, pvs H l l' ->
    (forall c c', In c l -> pv c c' -> inner_shape c -> node_enc H c = node_enc H c') ->
    enc_go H i l = enc_go H i l'.
  Proof.
    induction l as [|c l IH]; intros [|c' l'] i [L Hn] Hin; try discriminate; [reflexivity|].
    rewrite !enc_go_cons.
    assert (Hc : pv c c') by (apply (Hn 0%nat); reflexivity).
    rewrite (slot_at_pv i c c' Hc); [|intros Hi; apply Hin; [left; reflexivity|exact Hc|exact Hi]].
    rewrite (IH l' (S i)); [reflexivity| |].
    - split; [simpl in L; lia|]. intros j x x' Ex Ex'. apply (Hn (S j)); assumption.
    - intros x x' Hx. apply Hin. right. exact Hx.
  Qed.

  (* a hash reference stands for exactly what the subtrie would contribute *)
  Lemma enc_pv p : forall s, pv p s -> inner_shape p -> node_enc H p = node_enc H s.
  Proof.
    induction p as [|v|k c IH|cs IH|h] using node_ind'; intros s Hp Hi; try destruct Hi.
    - destruct (pv_short_inv _ _ _ _ Hp) as (c' & -> & Hc). cbn [node_enc].
      destruct (hex_to_compact k) as [ck|]; [|reflexivity].
      assert (B : (if has_term k then match c with NValue v => Some (Rlp.Codec.enc_str v) | _ => None end
                   else match c with
                        | NHash h => Some (write_ref h)
                        | NShort _ _ | NFull _ => match node_enc H c with Some e => Some (write_ref (ref_of_enc H e)) | None => None end
                        | _ => None end) =
                  (if has_term k then match c' with NValue v => Some (Rlp.Codec.enc_str v) | _ => None end
                   else match c' with
                        | NHash h => Some (write_ref h)
                        | NShort _ _ | NFull _ => match node_enc H c' with Some e => Some (write_ref (ref_of_enc H e)) | None => None end
                        | _ => None end)).
      { destruct c as [|v|k2 x|cs2|h2].
        - apply pv_empty_inv in Hc. subst. reflexivity.
        - apply pv_value_inv in Hc. subst. reflexivity.
        - destruct (pv_short_inv _ _ _ _ Hc) as (x' & -> & _). rewrite (IH _ Hc I). reflexivity.
        - destruct (pv_full_inv _ _ _ Hc) as (cs' & -> & _). rewrite (IH _ Hc I). reflexivity.
        - inversion Hc as [| |t e Hw Ee Le| |]; subst.
          assert (R : ref_of_enc H e = H e).
          { unfold ref_of_enc. replace (Nat.ltb (length e) 32) with false; [reflexivity|]. symmetry. apply Nat.ltb_ge. exact Le. }
          destruct (has_term k); destruct (pwf_shape c' Hw) as [(k3 & x & ->)|(cs3 & ->)]; try reflexivity; rewrite Ee, R; reflexivity. }
      rewrite B. reflexivity.
    - destruct (pv_full_inv _ _ _ Hp) as (cs' & -> & Hcs).
      rewrite !node_enc_full. rewrite (enc_go_pv cs cs' 0 Hcs); [reflexivity|].
      intros c c' Hin Hc Hic. rewrite Forall_forall in IH. apply (IH c Hin c' Hc Hic).
  Qed.

  Lemma hash_root_pv p s : pv p s -> (p = NEmpty \/ inner_shape p) -> hash_root H p = hash_root H s.
  Proof.
    intros Hp [->|Hi].
    - apply pv_empty_inv in Hp. subst. reflexivity.
    - pose proof (enc_pv p s Hp Hi) as E. destruct p; try destruct Hi.
      + destruct (pv_short_inv _ _ _ _ Hp) as (c' & -> & _). unfold hash_root, node_ref. rewrite E. reflexivity.
      + destruct (pv_full_inv _ _ _ Hp) as (cs' & -> & _). unfold hash_root, node_ref. rewrite E. reflexivity.
  Qed.
End EncPv.

(* ------------------------------------------------------------------ the full trie stays well formed *)

Fixpoint szi (n : node) : Prop :=
  match n with
  | NEmpty => True
  | NValue v => val_ok v
  | NShort k c => small k /\ c <> NEmpty /\ szi c
  | NFull cs => (fix go (l : list node) : Prop := match l with [] => True | c :: r => szi c /\ go r end) cs
  | NHash _ => False
  end.

Lemma szi_full cs : szi (NFull cs) <-> (forall i c, nth_error cs i = Some c -> szi c).
Proof.
  cbn [szi]. induction cs as [|x cs IH].
  - split; [intros _ [|i] c E; discriminate|auto].
  - rewrite IH. split.
    + intros [Hx Hr] [|i] c E; [inversion E; subst; exact Hx|apply (Hr i); exact E].
    + intros Hn. split; [apply (Hn 0%nat); reflexivity|intros i c E; apply (Hn (S i)); exact E].
Qed.

Lemma pwf_wfn n : pwf n -> wfn n.
Proof.
  induction n as [|v|k c IH|cs IH|h] using node_ind'; intros Hw;
    inversion Hw as [? ? Vk Sk Hv|? ? Nk Ne Sk Hc|? L17 C V]; subst.
  - apply wfn_leaf. assumption.
  - apply wfn_ext; auto.
  - apply wfn_full; [assumption| |].
    + intros i c Hi Hlt. destruct (C i c Hi Hlt) as [->|Hc]; [constructor|].
      rewrite Forall_forall in IH. apply IH; [eapply nth_error_In; exact Hi|exact Hc].
    + intros c Hi. destruct (V c Hi) as [->|(v & -> & _)]; [apply vslot_empty|apply vslot_value].
Qed.

Lemma pwf_szi n : pwf n -> szi n.
Proof.
  induction n as [|v|k c IH|cs IH|h] using node_ind'; intros Hw;
    inversion Hw as [? ? Vk Sk Hv|? ? Nk Ne Sk Hc|? L17 C V]; subst.
  - cbn. split; [assumption|]. split; [discriminate|assumption].
  - cbn [szi]. split; [assumption|]. split; [|apply IH; assumption].
    intros ->. inversion Hc.
  - apply szi_full. intros i c Hi.
    assert (i < 17)%nat by (rewrite <- L17; apply nth_error_Some; congruence).
    destruct (Nat.eq_dec i 16) as [->|Hne].
    + destruct (V c Hi) as [->|(v & -> & Hv)]; [exact I|exact Hv].
    + destruct (C i c Hi ltac:(lia)) as [->|Hc]; [exact I|].
      rewrite Forall_forall in IH. apply IH; [eapply nth_error_In; exact Hi|exact Hc].
Qed.

Lemma wfn_szi_pwf n : wfn n -> szi n -> n = NEmpty \/ pwf n.
Proof.
  induction n as [|v|k c IH|cs IH|h] using node_ind'; intros Hw Hz;
    inversion Hw as [|? ? Vk|? ? Nk Ne Hc|? L17 C V]; subst.
  - left; reflexivity.
  - right. cbn in Hz. destruct Hz as (Hs & _ & Hv). apply pwf_leaf; assumption.
  - right. cbn [szi] in Hz. destruct Hz as (Hs & Hne & Hzc). destruct (IH Hc Hzc) as [->|Hp]; [congruence|].
    apply pwf_ext; assumption.
  - right. rewrite szi_full in Hz. apply pwf_full; [assumption| |].
    + intros i c Hi Hlt. rewrite Forall_forall in IH.
      apply (IH c (nth_error_In _ _ Hi) (C i c Hi Hlt) (Hz i c Hi)).
    + intros c Hi. destruct (V c Hi) as [->|[v ->]]; [left; reflexivity|right].
      exists v. split; [reflexivity|]. apply (Hz 16%nat _ Hi).
Qed.

Lemma pwf_full_update cs cs2 : pwf (NFull cs) -> length cs2 = length cs ->
  (forall j x, nth_error cs2 j = Some x -> x = NEmpty \/ nth_error cs j = Some x \/ ((j < 16)%nat /\ pwf x)) ->
  pwf (NFull cs2).
Proof.
  intros Hw L Hn. inversion Hw as [| |? L17 C V]; subst. apply pwf_full; [lia| |].
  - intros i c Hi Hlt. destruct (Hn i c Hi) as [->|[E|[_ Hp]]]; [left; reflexivity| |right; exact Hp].
    apply (C i c E Hlt).
  - intros c Hi. destruct (Hn 16%nat c Hi) as [->|[E|[Hlt _]]]; [left; reflexivity| |lia]. apply (V c E).
Qed.

Lemma unset_pwf s : forall key rl a, pwf s -> unset s key rl = TOk a ->
  a = URemove \/ exists s', a = UKeep s' /\ pwf s'.
Proof.
  induction s as [|v|ck cv IH|cs IH|h] using node_ind'; intros key rl a Hw E; try solve [inversion Hw].
  - cbn [unset] in E. destruct (negb (is_prefix_of ck key)).
    + destruct rl; [destruct (slice_lt ck key)|destruct (slice_lt key ck)]; inversion E; subst; auto; right; eauto.
    + inversion Hw as [? v Vk Sk Hv|? ? Nk Ne Sk Hc|]; subst; [inversion E; auto|].
      destruct (pwf_shape cv Hc) as [(k2 & c2 & ->)|(cs2 & ->)].
      * destruct (unset (NShort k2 c2) _ rl) as [[x|]|e] eqn:Eu; try discriminate.
        destruct (IH _ _ _ Hc Eu) as [?|(s' & Es & Hs')]; [discriminate|]. inversion Es; subst s'.
        inversion E; subst. right. eexists. split; [reflexivity|]. apply pwf_ext; assumption.
      * destruct (unset (NFull cs2) _ rl) as [[x|]|e] eqn:Eu; try discriminate.
        destruct (IH _ _ _ Hc Eu) as [?|(s' & Es & Hs')]; [discriminate|]. inversion Es; subst s'.
        inversion E; subst. right. eexists. split; [reflexivity|]. apply pwf_ext; assumption.
  - destruct key as [|k0 kr]; [discriminate|]. rewrite unset_full in E. cbv zeta in E.
    destruct (nth_error cs (N.to_nat k0)) as [c|] eqn:Ec; [|discriminate].
    destruct (unset c kr rl) as [a0|e] eqn:Eu; [|discriminate].
    destruct (apply_act _ k0 a0) as [cs2|] eqn:Ea; [|discriminate]. inversion E; subst a.
    destruct (apply_act_nth _ _ _ _ Ea) as [L2 N2].
    right. eexists. split; [reflexivity|]. apply (pwf_full_update cs); [exact Hw| |].
    + rewrite L2. destruct rl; apply clear_range_length.
    + intros j x Ex. rewrite N2 in Ex. destruct (Nat.eqb j (N.to_nat k0)) eqn:B.
      * apply Nat.eqb_eq in B. subst j. inversion Ex; subst x.
        destruct (pwf_full_slot cs _ c Hw Ec) as [->|[[v ->]|Hc]].
        -- inversion Eu; subst. left; reflexivity.
        -- discriminate.
        -- rewrite Forall_forall in IH. destruct (IH c (nth_error_In _ _ Ec) _ _ _ Hc Eu) as [->|(s' & -> & Hs')]; [left; reflexivity|].
           simpl. inversion Hw as [| |? L17 C V]; subst.
           destruct (Nat.eq_dec (N.to_nat k0) 16) as [E16|Hne].
           ++ rewrite E16 in Ec. destruct (V c Ec) as [->|(v & -> & _)]; inversion Hc.
           ++ right; right. split; [|exact Hs'].
              assert (N.to_nat k0 < 17)%nat by (rewrite <- L17; apply nth_error_Some; congruence). lia.
      * destruct rl; rewrite clear_range_nth in Ex; destruct (nth_error cs j) as [y|] eqn:Ey; try discriminate;
          inversion Ex; subst x; match goal with |- context [if ?b then _ else _] => destruct b end; auto.
Qed.

Lemma unset_internal_pwf s : forall left right a, pwf s -> unset_internal s left right = Rok a ->
  a = URemove \/ exists s', a = UKeep s' /\ pwf s'.
Proof.
  induction s as [|v|rk rv IH|cs IH|h] using node_ind'; intros left right a Hw E; try solve [inversion Hw].
  - cbn [unset_internal] in E. cbv zeta in E.
    assert (Hedge : forall key rl,
              match rv with
              | NValue _ => Rok URemove
              | _ => match unset rv key rl with
                     | TErr e => Rerr (of_terr e)
                     | TOk (UKeep x) => Rok (UKeep (NShort rk x))
                     | TOk URemove => Rerr RPanic
                     end
              end = Rok a -> a = URemove \/ exists s', a = UKeep s' /\ pwf s').
    { intros key rl E0. inversion Hw as [? v Vk Sk Hv|? ? Nk Ne Sk Hc|]; subst; [inversion E0; auto|].
      destruct (pwf_shape rv Hc) as [(k2 & c2 & ->)|(cs2 & ->)].
      - destruct (unset (NShort k2 c2) key rl) as [[x|]|e] eqn:Eu; try discriminate.
        destruct (unset_pwf _ _ _ _ Hc Eu) as [?|(s' & Es & Hs')]; [discriminate|]. inversion Es; subst s'.
        inversion E0; subst. right. eexists. split; [reflexivity|]. apply pwf_ext; assumption.
      - destruct (unset (NFull cs2) key rl) as [[x|]|e] eqn:Eu; try discriminate.
        destruct (unset_pwf _ _ _ _ Hc Eu) as [?|(s' & Es & Hs')]; [discriminate|]. inversion Es; subst s'.
        inversion E0; subst. right. eexists. split; [reflexivity|]. apply pwf_ext; assumption. }
    destruct (bcmp (firstn (length rk) left) rk); destruct (bcmp (firstn (length rk) right) rk); try discriminate;
      try (eapply Hedge; exact E); try (inversion E; subst; left; reflexivity).
    destruct (unset_internal rv _ _) as [[x|]|e] eqn:Eu; try discriminate.
    inversion Hw as [? v Vk Sk Hv|? ? Nk Ne Sk Hc|]; subst; [cbn in Eu; discriminate|].
    destruct (IH _ _ _ Hc Eu) as [?|(s' & Es & Hs')]; [discriminate|]. inversion Es; subst s'.
    inversion E; subst. right. eexists. split; [reflexivity|]. apply pwf_ext; assumption.
  - destruct left as [|l0 lr]; [discriminate|]. destruct right as [|r0 rr0]; [discriminate|].
    rewrite unset_internal_full in E. unfold child in E.
    destruct (nth_error cs (N.to_nat l0)) as [ln|] eqn:Eln; [|discriminate].
    destruct (nth_error cs (N.to_nat r0)) as [rn|] eqn:Ern; [|discriminate].
    assert (Hslot : forall j c key rl a0, nth_error cs j = Some c -> unset c key rl = TOk a0 ->
              act_node a0 = NEmpty \/ nth_error cs j = Some (act_node a0) \/ ((j < 16)%nat /\ pwf (act_node a0))).
    { intros j c key rl a0 Ec Eu. destruct (pwf_full_slot cs _ c Hw Ec) as [->|[[v ->]|Hc]].
      - inversion Eu; subst. left; reflexivity.
      - discriminate.
      - destruct (unset_pwf _ _ _ _ Hc Eu) as [->|(s' & -> & Hs')]; [left; reflexivity|]. simpl.
        inversion Hw as [| |? L17 C V]; subst.
        destruct (Nat.eq_dec j 16) as [E16|Hne].
        + rewrite E16 in Ec. destruct (V c Ec) as [->|(v & -> & _)]; inversion Hc.
        + right; right. split; [|exact Hs'].
          assert (j < 17)%nat by (rewrite <- L17; apply nth_error_Some; congruence). lia. }
    destruct (if is_empty ln || is_empty rn then Some true else iface_neq l0 r0 ln rn) as [[|]|] eqn:Fk; [| |discriminate].
    + unfold ui_fork in E. cbv zeta in E. unfold child in E.
      destruct (nth_error (clear_range _ _ cs) (N.to_nat l0)) as [c1|] eqn:Ec1; [|discriminate].
      destruct (unset c1 lr false) as [a1|e] eqn:E1; [|discriminate].
      destruct (apply_act _ l0 a1) as [cs2|] eqn:A1; [|discriminate].
      destruct (apply_act_nth _ _ _ _ A1) as [L2 N2].
      destruct (nth_error cs2 (N.to_nat r0)) as [c2|] eqn:Ec2; [|discriminate].
      destruct (unset c2 rr0 true) as [a2|e] eqn:E2; [|discriminate].
      destruct (apply_act cs2 r0 a2) as [cs3|] eqn:A2; [|discriminate].
      destruct (apply_act_nth _ _ _ _ A2) as [L3 N3].
      inversion E; subst a. right. eexists. split; [reflexivity|].
      (* cs2 is a legitimate update of cs, cs3 of cs2 *)
      assert (Hcs1 : forall j x, nth_error (clear_range (N.to_nat l0 + 1) (N.to_nat r0) cs) j = Some x ->
                x = NEmpty \/ nth_error cs j = Some x).
      { intros j x Ex. rewrite clear_range_nth in Ex. destruct (nth_error cs j) as [y|]; [|discriminate].
        inversion Ex. destruct (_ && _); auto. }
      assert (P2 : pwf (NFull cs2)).
      { apply (pwf_full_update cs); [exact Hw|rewrite L2; apply clear_range_length|].
        intros j x Ex. rewrite N2 in Ex. destruct (Nat.eqb j (N.to_nat l0)) eqn:B.
        - apply Nat.eqb_eq in B. subst j. inversion Ex; subst x.
          destruct (Hcs1 _ _ Ec1) as [->|Ec1'].
          + inversion E1; subst. left; reflexivity.
          + apply (Hslot _ _ _ _ _ Ec1' E1).
        - destruct (Hcs1 _ _ Ex); auto. }
      apply (pwf_full_update cs2); [exact P2|exact L3|].
      intros j x Ex. rewrite N3 in Ex. destruct (Nat.eqb j (N.to_nat r0)) eqn:B; [|auto].
      apply Nat.eqb_eq in B. subst j. inversion Ex; subst x.
      destruct (pwf_full_slot cs2 _ c2 P2 Ec2) as [->|[[v ->]|Hc]].
      * inversion E2; subst. left; reflexivity.
      * discriminate.
      * destruct (unset_pwf _ _ _ _ Hc E2) as [->|(s' & -> & Hs')]; [left; reflexivity|]. simpl.
        inversion P2 as [| |? L17 C V]; subst.
        destruct (Nat.eq_dec (N.to_nat r0) 16) as [E16|Hne].
        -- rewrite E16 in Ec2. destruct (V c2 Ec2) as [->|(v & -> & _)]; inversion Hc.
        -- right; right. split; [|exact Hs'].
           assert (N.to_nat r0 < 17)%nat by (rewrite <- L17; apply nth_error_Some; congruence). lia.
    + destruct (unset_internal ln lr rr0) as [a0|e] eqn:Eu; [|discriminate].
      destruct (apply_act cs l0 a0) as [cs2|] eqn:A; [|discriminate].
      destruct (apply_act_nth _ _ _ _ A) as [L2 N2].
      inversion E; subst a. right. eexists. split; [reflexivity|].
      apply (pwf_full_update cs); [exact Hw|exact L2|].
      intros j x Ex. rewrite N2 in Ex. destruct (Nat.eqb j (N.to_nat l0)) eqn:B; [|auto].
      apply Nat.eqb_eq in B. subst j. inversion Ex; subst x.
      destruct (pwf_full_slot cs _ ln Hw Eln) as [->|[[v ->]|Hc]]; try discriminate.
      rewrite Forall_forall in IH. destruct (IH ln (nth_error_In _ _ Eln) _ _ _ Hc Eu) as [->|(s' & -> & Hs')]; [left; reflexivity|].
      simpl. inversion Hw as [| |? L17 C V]; subst.
      destruct (Nat.eq_dec (N.to_nat l0) 16) as [E16|Hne].
      * rewrite E16 in Eln. destruct (V ln Eln) as [->|(v & -> & _)]; inversion Hc.
      * right; right. split; [|exact Hs'].
        assert (N.to_nat l0 < 17)%nat by (rewrite <- L17; apply nth_error_Some; congruence). lia.
Qed.

Lemma small_firstn n (l : list N) : small l -> small (firstn n l).
Proof.
  unfold small, lenN. intros Hs. assert (length (firstn n l) <= length l)%nat by (rewrite firstn_length; apply Nat.le_min_r).
  remember (2 ^ 32) as B. lia.
Qed.
Lemma small_skipn n (l : list N) : small l -> small (skipn n l).
Proof.
  unfold small, lenN. intros Hs. assert (length (skipn n l) <= length l)%nat by (rewrite skipn_length; lia).
  remember (2 ^ 32) as B. lia.
Qed.

Lemma szi_inil k c : small k -> c <> NEmpty -> szi c -> szi (inil k c) /\ inil k c <> NEmpty.
Proof. intros Hk Hne Hc. unfold inil. destruct k; [auto|]. split; [cbn [szi]; auto|discriminate]. Qed.

Lemma szi_set cs i x cs2 : szi (NFull cs) -> szi x -> set_child cs i x = Some cs2 -> szi (NFull cs2).
Proof.
  rewrite !szi_full. intros Hcs Hx E. unfold set_child in E. destruct (set_nth_spec _ _ _ _ E) as [_ N2].
  intros j c Ej. rewrite N2 in Ej. destruct (Nat.eqb j (N.to_nat i)); [inversion Ej; subst; exact Hx|eapply Hcs; exact Ej].
Qed.

Lemma szi_empty17 : szi (NFull empty17).
Proof. apply szi_full. intros i c E. apply nth_error_empty17 in E. subst. exact I. Qed.

Lemma insert_szi : forall fuel n prefix key v d n' ev,
  szi n -> val_ok v -> small key ->
  insert no_resolve fuel n prefix key (NValue v) = TOk (d, n', ev) -> szi n' /\ n' <> NEmpty.
Proof.
  induction fuel as [|f IH]; intros n prefix key v d n' ev Hz Hv Hk E; [discriminate|].
  destruct key as [|k0 kr].
  - destruct n; cbn in E; inversion E; subst; (split; [exact Hv|discriminate]).
  - destruct n as [|v0|nk nv|cs|h].
    + cbn in E. inversion E; subst. split; [cbn [szi]; split; [exact Hk|split; [discriminate|exact Hv]]|discriminate].
    + discriminate.
    + cbn [szi] in Hz. destruct Hz as (Hnk & Hne & Hnv).
      rewrite insert_short_unfold in E by discriminate. cbv zeta in E.
      destruct (Nat.eqb (prefix_len (k0 :: kr) nk) (length nk)).
      * destruct (insert no_resolve f nv _ _ _) as [[[d0 nn] ev0]|e] eqn:Ei; [|discriminate].
        destruct (IH _ _ _ _ _ _ _ Hnv Hv (small_skipn _ _ Hk) Ei) as [Hnn Hnn'].
        destruct d0; inversion E; subst; (split; [cbn [szi]; auto|discriminate]).
      * destruct (nth_error nk _) as [a|]; [|discriminate]. destruct (nth_error (k0 :: kr) _) as [b|]; [|discriminate].
        rewrite (surjective_pairing (insert_nil _ (skipn _ nk) nv)) in E.
        rewrite (surjective_pairing (insert_nil _ (skipn _ (k0 :: kr)) (NValue v))) in E.
        rewrite !insert_nil_fst in E.
        destruct (set_child empty17 a _) as [cs1|] eqn:S1; [|discriminate].
        destruct (set_child cs1 b _) as [cs2|] eqn:S2; [|discriminate].
        destruct (szi_inil (skipn (prefix_len (k0 :: kr) nk + 1) nk) nv (small_skipn _ _ Hnk) Hne Hnv) as [Z1 _].
        destruct (szi_inil (skipn (prefix_len (k0 :: kr) nk + 1) (k0 :: kr)) (NValue v) (small_skipn _ _ Hk)
                    ltac:(discriminate) Hv) as [Z2 _].
        pose proof (szi_set _ _ _ _ szi_empty17 Z1 S1) as Zc1.
        pose proof (szi_set _ _ _ _ Zc1 Z2 S2) as Zc2.
        destruct (Nat.eqb (prefix_len (k0 :: kr) nk) 0); inversion E; subst; (split; [|discriminate]); [exact Zc2|].
        cbn [szi]. split; [apply small_firstn; exact Hk|]. split; [discriminate|exact Zc2].
    + rewrite insert_full_unfold' in E. unfold child in E.
      destruct (nth_error cs (N.to_nat k0)) as [c|] eqn:Ec; [|discriminate].
      destruct (insert no_resolve f c _ _ _) as [[[d0 nn] ev0]|e] eqn:Ei; [|discriminate].
      assert (Hc : szi c) by (rewrite szi_full in Hz; eapply Hz; exact Ec).
      assert (Hkr : small kr) by (apply (small_app_r [k0]); exact Hk).
      destruct (IH _ _ _ _ _ _ _ Hc Hv Hkr Ei) as [Hnn _].
      destruct d0.
      * destruct (set_child cs k0 nn) as [cs2|] eqn:S1; [|discriminate]. inversion E; subst.
        split; [eapply szi_set; eassumption|discriminate].
      * inversion E; subst. split; [exact Hz|discriminate].
    + cbn in E. discriminate.
Qed.

Lemma apply_ops_at ops : forall m m' k, m k = m' k -> apply_ops m ops k = apply_ops m' ops k.
Proof.
  induction ops as [|[k0 v0] ops IH]; intros m m' k E; [exact E|]. simpl. apply IH.
  unfold put. destruct (bytes_eqb k k0); [reflexivity|exact E].
Qed.

(* re-insertion of the run into a well-formed full trie *)
Lemma reinsert_full keys : forall values s s3,
  (s = NEmpty \/ pwf s) ->
  Forall (fun k => forallb byteb k = true /\ small (keybytes_to_hex k)) keys ->
  Forall val_ok values ->
  reinsert s keys values = Rok s3 ->
  (s3 = NEmpty \/ pwf s3) /\
  forall hk, lk s3 hk = apply_ops (lk s) (hexops (combine keys values)) hk.
Proof.
  induction keys as [|k kr IH]; intros values s s3 Hs HK HV E.
  - inversion E; subst. split; [exact Hs|reflexivity].
  - destruct values as [|v vr]; [discriminate|]. cbn [reinsert] in E.
    inversion HK as [|? ? [Hb Hsm] HK']; subst. inversion HV as [|? ? Hv HV']; subst.
    unfold update in E. cbv zeta in E. destruct v as [|b0 v]; [destruct Hv; congruence|].
    set (hk0 := keybytes_to_hex k) in *.
    assert (Vk : valid_key hk0) by (apply keybytes_to_hex_valid; exact Hb).
    assert (Hwf : wfpos s hk0).
    { right. split; [exact Vk|]. destruct Hs as [->|Hp]; [constructor|apply pwf_wfn; exact Hp]. }
    destruct (insert_spec no_resolve _ s [] hk0 (b0 :: v) (ops_fuel_ok hk0) Hwf)
      as (d & s1 & ev & Ei & P1 & P2 & P3 & P4 & _).
    rewrite Ei in E.
    assert (Hz : szi s) by (destruct Hs as [->|Hp]; [exact I|apply pwf_szi; exact Hp]).
    destruct (insert_szi _ _ _ _ _ _ _ _ Hz Hv Hsm Ei) as [Hz1 _].
    assert (Hs1 : s1 = NEmpty \/ pwf s1).
    { apply wfn_szi_pwf; [|exact Hz1]. destruct P1 as [[-> _]|[_ Hw1]]; [destruct Vk|exact Hw1]. }
    destruct (IH vr s1 s3 Hs1 HK' HV' E) as [R1 R2]. split; [exact R1|].
    intros hk. rewrite R2. cbn [combine hexops map fst snd apply_ops]. fold (hexops (combine kr vr)). fold hk0.
    apply apply_ops_at. unfold put. destruct (bytes_eqb hk hk0) eqn:B.
    + apply bytes_eqb_eq in B. subst hk. exact P3.
    + apply P4. intros ->. rewrite bytes_eqb_refl in B. discriminate.
Qed.

Section SimReinsert.
  Variable H : list N -> list N.
  Lemma reinsert_sim keys : forall values p s p3,
    pv H p s -> Forall (fun v => v <> []) values ->
    reinsert p keys values = Rok p3 ->
    exists s3, reinsert s keys values = Rok s3 /\ pv H p3 s3.
  Proof.
    induction keys as [|k kr IH]; intros values p s p3 Hp HV E.
    - inversion E; subst. exists s. split; [reflexivity|exact Hp].
    - destruct values as [|v vr]; [discriminate|]. cbn [reinsert] in E |- *.
      inversion HV as [|? ? Hv HV']; subst. unfold update in E |- *. cbv zeta in E |- *.
      destruct v as [|b0 v]; [congruence|].
      destruct (insert no_resolve _ p [] _ _) as [[[d p1] ev]|e] eqn:Ei; [|discriminate].
      destruct (insert_sim H _ _ _ _ _ _ _ _ _ Hp Ei) as (s1 & ev' & -> & Hp1).
      apply (IH vr p1 s1 p3 Hp1 HV' E).
  Qed.
End SimReinsert.

(* ------------------------------------------------------------------ the two-edge branch: soundness *)

Lemma last_opt_in {A} (l : list A) x : last_opt l = Some x -> In x l.
Proof.
  induction l as [|a l IH]; [discriminate|]. destruct l as [|b l]; simpl.
  - intros E. inversion E. left; reflexivity.
  - intros E. right. apply IH. exact E.
Qed.

Section General.
  Variable H : list N -> list N.
  Hypothesis H_len : forall x, length (H x) = 32%nat.
  Variable db : pdb.
  Variable P : list N -> Prop.
  Hypothesis faithful : forall e b, P e -> db_get db (H e) = Some b -> b = e.
  Variable NS : list N -> Prop.
  Hypothesis H_inj : H_inj_on H NS.

  Variable t : node.
  Variable r : list N.
  Hypothesis Hcan : can t.
  Hypothesis Hok : content_ok t.
  Hypothesis Hroot : hash_root H t = Some r.
  Hypothesis HP : forall e, genuine H t e -> P e.

  Lemma hash_root_pv' p s : pv H p s -> (s = NEmpty \/ pwf s) -> hash_root H p = hash_root H s.
  Proof.
    intros Hp Hs. destruct p as [|v|k c|cs|h].
    - apply (hash_root_pv H H_len); auto.
    - apply pv_value_inv in Hp. subst s. destruct Hs as [?|Hw]; [discriminate|inversion Hw].
    - apply (hash_root_pv H H_len); [exact Hp|right; exact I].
    - apply (hash_root_pv H H_len); [exact Hp|right; exact I].
    - inversion Hp as [| |t0 e Hw Ee Le| |]; subst. rewrite (pwf_hash_root H s e Hw Ee). reflexivity.
  Qed.

  (* range_sound_general: whatever proof nodes the (collision-free, hash-keyed) database
     holds, if the two-edge branch accepts then the run is exactly the content of the trie
     on the closed interval [firstKey, lastKey] *)
  Theorem range_sound_general first last keys values Lb b :
    keys_fixed t Lb -> (0 < Lb)%nat -> N.of_nat Lb < 2 ^ 30 ->
    length first = Lb -> forallb byteb first = true ->
    Forall (fun k => length k = Lb /\ forallb byteb k = true) keys -> Forall small values ->
    last_opt keys = Some last ->
    ((2 <= length keys)%nat \/ last <> first) ->
    NS empty_root_preimage -> (forall e, genuine H t e -> NS e) ->
    (forall a s3, unset_internal t (keybytes_to_hex first) (keybytes_to_hex last) = Rok a ->
                  reinsert (act_node a) keys values = Rok s3 -> forall e, genuine H s3 e -> NS e) ->
    verify_range_proof H r first keys values (Some db) = Rok b ->
    (forall hk, between (keybytes_to_hex first) (keybytes_to_hex last) hk -> lk t hk = run_map keys values hk) /\
    (b = true <-> has_gt t (keybytes_to_hex last)).
  Proof.
    intros Hfix HL0 HLs Hlf Hbf HK HV Hlast Hgen N0 Nt Ns3 A.
    pose proof (can_pwf t Hcan Hok) as Hw.
    assert (HKl : Forall (fun k => length k = Lb) keys) by (eapply Forall_impl; [|exact HK]; intros k [? _]; assumption).
    assert (Hlin : In last keys) by (apply last_opt_in; exact Hlast).
    assert (Hll : length last = Lb /\ forallb byteb last = true) by (rewrite Forall_forall in HK; apply HK; exact Hlin).
    destruct Hll as [Hll Hbl].
    unfold verify_range_proof in A.
    destruct (Nat.eqb (length keys) (length values)) eqn:El; [|discriminate]. apply Nat.eqb_eq in El. cbn [negb] in A.
    destruct (check_run keys values) eqn:C; [discriminate|].
    apply (check_run_spec Lb keys values HKl El) in C. destruct C as [Hsorted Hne].
    destruct keys as [|k0 kr]; [discriminate|]. destruct values as [|v0 vr]; [discriminate|].
    destruct (slice_lt k0 first); [discriminate|]. rewrite Hlast in A.
    assert (Hbr : Nat.eqb (length (k0 :: kr)) 1 && bytes_eqb first last = false).
    { destruct Hgen as [Hg|Hg].
      - replace (Nat.eqb (length (k0 :: kr)) 1) with false; [reflexivity|]. symmetry. apply Nat.eqb_neq. lia.
      - replace (bytes_eqb first last) with false; [apply andb_false_r|]. symmetry.
        destruct (bytes_eqb first last) eqn:B; [|reflexivity]. apply bytes_eqb_eq in B. congruence. }
    rewrite Hbr in A.
    destruct (slice_lt first last) eqn:Hlt; [|discriminate]. cbn [negb] in A.
    destruct (Nat.eqb (length first) (length last)); [|discriminate]. cbn [negb] in A.
    (* the first edge *)
    destruct (ptp_root H H_len db P faithful t r Hcan Hok Hroot HP first true Hbf) as [[_ E1]|[_ Q1]];
      [rewrite E1 in A; discriminate|].
    destruct (proof_to_path db r None first true) as [[root1 val1]|e1]; [|discriminate].
    cbn [ptp_post] in Q1. destruct Q1 as (Pv1 & In1 & _).
    (* the second edge, merged into the same tree *)
    unfold proof_to_path in A at 1. cbv zeta in A.
    pose proof (ptp_spec H H_len db P faithful _ root1 t (keybytes_to_hex last) true Pv1 Hw In1
                  (keybytes_to_hex_valid _ Hbl) (ptp_fuel_ok _ db) HP) as Q2.
    destruct (ptp (ptp_fuel (keybytes_to_hex last) db) db true root1 (keybytes_to_hex last)) as [[root2 val2]|e2]; [|discriminate].
    cbn [ptp_post] in Q2. destruct Q2 as (Pv2 & In2 & _).
    (* unsetInternal *)
    destruct (unset_internal root2 (keybytes_to_hex first) (keybytes_to_hex last)) as [act|e3] eqn:E3; [|discriminate].
    destruct (unset_internal_sim H _ _ _ _ _ Pv2 E3) as (act' & E3' & Hact).
    pose proof (pvact_node H _ _ Hact) as Pv3.
    change (match act with URemove => NEmpty | UKeep r0 => r0 end) with (act_node act) in A.
    (* re-insertion *)
    destruct (reinsert (act_node act) (k0 :: kr) (v0 :: vr)) as [root3|e4] eqn:E4; [|discriminate].
    destruct (reinsert_sim H _ _ _ _ _ Pv3 Hne E4) as (s3 & E4' & Pv4).
    assert (Hs1 : act_node act' = NEmpty \/ pwf (act_node act')).
    { destruct (unset_internal_pwf _ _ _ _ Hw E3') as [->|(s' & -> & Hs')]; [left; reflexivity|right; exact Hs']. }
    assert (HKs : Forall (fun k => forallb byteb k = true /\ small (keybytes_to_hex k)) (k0 :: kr)).
    { eapply Forall_impl; [|exact HK]. intros k [Hk1 Hk2]. split; [exact Hk2|].
      unfold small, lenN. rewrite hex_length, Hk1. lia. }
    assert (HVs : Forall val_ok (v0 :: vr)).
    { rewrite Forall_forall in HV, Hne |- *. intros v Hv. split; [apply Hne; exact Hv|apply HV; exact Hv]. }
    destruct (reinsert_full _ _ _ _ Hs1 HKs HVs E4') as [Hs3 Hlk3].
    (* the root hash pins the rebuilt trie to the true one *)
    destruct (hash_root H root3) as [have|] eqn:E5; [|discriminate].
    destruct (bytes_eqb have r) eqn:B; [|discriminate]. apply bytes_eqb_eq in B. subst have.
    rewrite (hash_root_pv' _ _ Pv4 Hs3) in E5.
    assert (s3 = t).
    { apply (hash_root_inj H H_len NS H_inj s3 t r); auto. eapply Ns3; eassumption. }
    subst s3. split.
    - intros hk Hbet. rewrite Hlk3. unfold run_map. apply apply_ops_at.
      apply (unset_internal_spec t (keybytes_to_hex first) (keybytes_to_hex last) act'); auto.
      + right; right; exact Hw.
      + rewrite hex_length, Hlf. apply keys_fixed_ulen. exact Hfix.
      + rewrite !hex_length. lia.
      + apply keybytes_to_hex_valid; exact Hbf.
      + apply keybytes_to_hex_valid; exact Hbl.
      + rewrite slice_lt_hex; auto. lia.
    - destruct (has_right root3 (keybytes_to_hex last)) as [b0|e5] eqn:E6; [|discriminate].
      cbn [of_tres] in A. inversion A; subst b0.
      destruct (has_right_spec H H_len t root3 (keybytes_to_hex last) (or_intror (or_intror Hcan)) Pv4
                  (or_intror (ex_intro _ b E6))) as (b1 & Eb & Hb).
      + rewrite hex_length, Hll. apply keys_fixed_ulen. exact Hfix.
      + right. apply keybytes_to_hex_valid; exact Hbl.
      + rewrite E6 in Eb. inversion Eb; subst b1. exact Hb.
  Qed.
End General.

(* ------------------------------------------------------------------ the statements as used by Properties/C09.v *)

Theorem range_empty_sound_complete (H : list N -> list N) (H_len : forall x, length (H x) = 32%nat)
  (db : pdb) (P : list N -> Prop) (faithful : forall e b, P e -> db_get db (H e) = Some b -> b = e)
  t r first :
  can t -> content_ok t -> hash_root H t = Some r -> (forall e, genuine H t e -> P e) ->
  forallb byteb first = true -> ulen t (length (keybytes_to_hex first)) ->
  (forall b, verify_range_proof H r first [] [] (Some db) = Rok b ->
             b = false /\ none_from t (keybytes_to_hex first)) /\
  (none_from t (keybytes_to_hex first) -> db_get db r <> None ->
   ~ missing_on H db t (keybytes_to_hex first) ->
   verify_range_proof H r first [] [] (Some db) = Rok false).
Proof.
  intros Hc Hok Hr HP Hb Hu. split.
  - intros b. eapply range_empty_sound; eassumption.
  - eapply range_empty_complete; eassumption.
Qed.

Theorem range_single_sound_complete (H : list N -> list N) (H_len : forall x, length (H x) = 32%nat)
  (db : pdb) (P : list N -> Prop) (faithful : forall e b, P e -> db_get db (H e) = Some b -> b = e)
  t r first v :
  can t -> content_ok t -> hash_root H t = Some r -> (forall e, genuine H t e -> P e) ->
  forallb byteb first = true -> ulen t (length (keybytes_to_hex first)) ->
  (forall b, verify_range_proof H r first [first] [v] (Some db) = Rok b ->
             lk t (keybytes_to_hex first) = Some v /\ (b = true <-> has_gt t (keybytes_to_hex first))) /\
  (lk t (keybytes_to_hex first) = Some v -> db_get db r <> None ->
   ~ missing_on H db t (keybytes_to_hex first) ->
   exists b, verify_range_proof H r first [first] [v] (Some db) = Rok b /\
             (b = true <-> has_gt t (keybytes_to_hex first))).
Proof.
  intros Hc Hok Hr HP Hb Hu. split.
  - intros b. eapply range_single_sound; eassumption.
  - eapply range_single_complete; eassumption.
Qed.

(* the two-edge branch over ANY hash-keyed proof database whose blobs lie in the
   collision-free set NS (genuine nodes with omissions, nodes of other tries, garbage) *)
Theorem range_sound_general_keyed (H : list N -> list N) (H_len : forall x, length (H x) = 32%nat)
  (NS : list N -> Prop) (H_inj : H_inj_on H NS) db t r first last keys values Lb b :
  db_keyed H db -> db_in NS db ->
  can t -> content_ok t -> hash_root H t = Some r ->
  keys_fixed t Lb -> (0 < Lb)%nat -> N.of_nat Lb < 2 ^ 30 ->
  length first = Lb -> forallb byteb first = true ->
  Forall (fun k => length k = Lb /\ forallb byteb k = true) keys -> Forall small values ->
  last_opt keys = Some last ->
  ((2 <= length keys)%nat \/ last <> first) ->
  NS empty_root_preimage -> (forall e, genuine H t e -> NS e) ->
  (forall a s3, unset_internal t (keybytes_to_hex first) (keybytes_to_hex last) = Rok a ->
                reinsert (act_node a) keys values = Rok s3 -> forall e, genuine H s3 e -> NS e) ->
  verify_range_proof H r first keys values (Some db) = Rok b ->
  (forall hk, between (keybytes_to_hex first) (keybytes_to_hex last) hk -> lk t hk = run_map keys values hk) /\
  (b = true <-> has_gt t (keybytes_to_hex last)).
Proof.
  intros K I Hc Hok Hr Hfix HL0 HLs Hlf Hbf HK HV Hlast Hgen N0 Nt Ns3 A.
  eapply (range_sound_general H H_len db NS (keyed_faithful H NS H_inj db K I) NS H_inj t r Hc Hok Hr Nt);
    eassumption.
Qed.

(* ------------------------------------------------------------------ no panic value: the three special branches *)

(* never a panic, never the model's fuel *)
Definition no_panic (x : rr bool) : Prop := x <> Rerr RPanic /\ x <> Rerr RFuel.

Lemma check_run_no_panic keys : forall values, length keys = length values ->
  check_run keys values <> Some RPanic /\ check_run keys values <> Some RFuel.
Proof.
  induction keys as [|k kr IH]; intros [|v vr] E; try discriminate; [split; discriminate|].
  cbn [check_run]. destruct kr as [|k' kr'].
  - destruct v; [split; discriminate|]. destruct vr; [|discriminate]. split; discriminate.
  - destruct (negb (slice_lt k k')); [split; discriminate|]. destruct (is_prefix_of k k'); [split; discriminate|].
    destruct v; [split; discriminate|]. apply IH. simpl in E |- *. lia.
Qed.

Lemma noproof_total (H : list N -> list N) (H_len : forall x, length (H x) = 32%nat) r first keys values Lb :
  (0 < Lb)%nat -> N.of_nat Lb < 2 ^ 30 ->
  Forall (fun k => length k = Lb /\ forallb byteb k = true) keys -> Forall small values ->
  no_panic (verify_range_proof H r first keys values None).
Proof.
  intros HL HLs HF HV.
  assert (HFl : Forall (fun k => length k = Lb) keys) by (eapply Forall_impl; [|exact HF]; intros k [? _]; assumption).
  unfold verify_range_proof. destruct (Nat.eqb (length keys) (length values)) eqn:E; cbn [negb]; [|split; discriminate].
  apply Nat.eqb_eq in E. destruct (check_run keys values) as [e|] eqn:C.
  - destruct (check_run_no_panic keys values E) as [C1 C2]. rewrite C in C1, C2. split; congruence.
  - apply (check_run_spec Lb keys values HFl E) in C. destruct C as [Hs Hne].
    destruct (noproof_core H H_len keys values Lb E HL HLs HF HV Hs Hne) as (s & t' & ev & h & F1 & F2 & _).
    rewrite F1, F2. destruct (bytes_eqb h r); split; discriminate.
Qed.

Section EdgeTotal.
  Variable H : list N -> list N.
  Hypothesis H_len : forall x, length (H x) = 32%nat.
  Variable db : pdb.
  Variable P : list N -> Prop.
  Hypothesis faithful : forall e b, P e -> db_get db (H e) = Some b -> b = e.
  Variable t : node.
  Variable r : list N.
  Hypothesis Hcan : can t.
  Hypothesis Hok : content_ok t.
  Hypothesis Hroot : hash_root H t = Some r.
  Hypothesis HP : forall e, genuine H t e -> P e.
  Variable first : list N.
  Hypothesis Hfirst : forallb byteb first = true.
  Hypothesis Hulen : ulen t (length (keybytes_to_hex first)).

  Lemma empty_total : no_panic (verify_range_proof H r first [] [] (Some db)).
  Proof.
    unfold verify_range_proof. cbn [length Nat.eqb negb check_run].
    destruct (ptp_root H H_len db P faithful t r Hcan Hok Hroot HP first true Hfirst) as [[_ ->]|[_ Q]]; [split; discriminate|].
    destruct (proof_to_path db r None first true) as [[root val]|e]; cbn [ptp_post] in Q.
    - destruct Q as (Q1 & Q2 & Q3 & Q4 & _). destruct val; [split; discriminate|].
      destruct (has_right_spec H H_len t root _ (or_intror (or_intror Hcan)) Q1 (or_introl Q4) Hulen
                  (or_intror (keybytes_to_hex_valid _ Hfirst))) as (b0 & -> & _).
      destruct b0; split; discriminate.
    - destruct Q as [[-> _]|(_ & A & _)]; [split; discriminate|discriminate].
  Qed.

  Lemma single_total v : no_panic (verify_range_proof H r first [first] [v] (Some db)).
  Proof.
    unfold verify_range_proof. cbn [length Nat.eqb negb check_run].
    destruct v as [|v0 v]; [split; discriminate|].
    rewrite slice_lt_irrefl. cbn [last_opt]. rewrite bytes_eqb_refl. cbn [andb negb].
    destruct (ptp_root H H_len db P faithful t r Hcan Hok Hroot HP first false Hfirst) as [[_ ->]|[_ Q]]; [split; discriminate|].
    destruct (proof_to_path db r None first false) as [[root val]|e]; cbn [ptp_post] in Q.
    - destruct Q as (Q1 & Q2 & Q3 & Q4 & Q5).
      destruct (negb (bytes_eqb _ _)); [split; discriminate|].
      destruct (has_right_spec H H_len t root _ (or_intror (or_intror Hcan)) Q1 (or_introl Q4) Hulen
                  (or_intror (keybytes_to_hex_valid _ Hfirst))) as (b0 & -> & _).
      split; discriminate.
    - destruct Q as [[-> _]|(-> & _)]; split; discriminate.
  Qed.
End EdgeTotal.

(* ------------------------------------------------------------------ the two-edge branch never panics on genuine nodes *)

Lemma can_full_not_len1 cs : can (NFull cs) -> ulen (NFull cs) 1 -> False.
Proof.
  intros Hc Hu. destruct (can_full_two_keys _ Hc) as (x1 & r1 & v1 & x2 & r2 & v2 & Hd & K1 & K2 & L1 & L2).
  pose proof (Hu _ _ L1) as E1. pose proof (Hu _ _ L2) as E2.
  destruct r1; [|discriminate]. destruct r2; [|discriminate]. simpl in K1, K2. congruence.
Qed.

(* proofToPath only resolves more: paths resolved before stay resolved *)
Lemma ptp_res_mono db allow : forall f p key p' v,
  ptp f db allow p key = Rok (p', v) -> forall k2, res_along p k2 -> res_along p' k2.
Proof.
  induction f as [|f IH]; intros p key p' v E k2 R; [discriminate|].
  cbn [ptp] in E. destruct p as [|v0|nk nv|cs|h]; cbn [ptp_get] in E.
  - destruct allow; inversion E; subst; exact R.
  - cbn [ptp_link] in E. discriminate.
  - destruct (negb (is_prefix_of nk key)).
    + destruct allow; inversion E; subst; exact R.
    + assert (Hlift : forall c2, (forall r2, res_along nv r2 -> res_along c2 r2) -> res_along (NShort nk c2) k2).
      { intros c2 Hc2. cbn [res_along] in R |- *. destruct (is_prefix_of nk k2); [apply Hc2; exact R|exact I]. }
      destruct nv as [|w|k3 c3|cs3|h3]; cbn [ptp_link] in E.
      * destruct allow; inversion E; subst; exact R.
      * destruct w; inversion E; subst; exact R.
      * destruct (ptp f db allow (NShort k3 c3) _) as [[c2 v2]|e] eqn:Er; [|discriminate]. inversion E; subst.
        apply Hlift. intros r2. eapply IH; exact Er.
      * destruct (ptp f db allow (NFull cs3) _) as [[c2 v2]|e] eqn:Er; [|discriminate]. inversion E; subst.
        apply Hlift. intros r2. eapply IH; exact Er.
      * destruct (resolve_node db h3) as [c|e]; [|discriminate].
        destruct (ptp f db allow c _) as [[c2 v2]|e] eqn:Er; [|discriminate]. inversion E; subst.
        apply Hlift. intros r2 []. 
  - destruct key as [|k0 kr]; [discriminate|]. unfold child in E.
    destruct (nth_error cs (N.to_nat k0)) as [c|] eqn:Ec; [|discriminate].
    assert (Hlift : forall c2 cs2, (forall r2, res_along c r2 -> res_along c2 r2) ->
              set_child cs k0 c2 = Some cs2 -> res_along (NFull cs2) k2).
    { intros c2 cs2 Hc2 Es. unfold set_child in Es. destruct (set_nth_spec _ _ _ _ Es) as [_ N2].
      destruct k2 as [|j r2]; [exact I|]. rewrite res_along_full in R |- *. rewrite N2.
      destruct (Nat.eqb (N.to_nat j) (N.to_nat k0)) eqn:B; [|exact R].
      apply Nat.eqb_eq in B. rewrite B, Ec in R. apply Hc2. exact R. }
    destruct c as [|w|k3 c3|cs3|h3]; cbn [ptp_link] in E.
    + destruct allow; inversion E; subst; exact R.
    + destruct (set_child cs k0 (NValue w)) as [cs2|] eqn:Es; [|discriminate].
      destruct w; inversion E; subst. eapply Hlift; [|exact Es]. auto.
    + destruct (ptp f db allow (NShort k3 c3) _) as [[c2 v2]|e] eqn:Er; [|discriminate].
      destruct (set_child cs k0 c2) as [cs2|] eqn:Es; [|discriminate]. inversion E; subst.
      eapply Hlift; [|exact Es]. intros r2. eapply IH; exact Er.
    + destruct (ptp f db allow (NFull cs3) _) as [[c2 v2]|e] eqn:Er; [|discriminate].
      destruct (set_child cs k0 c2) as [cs2|] eqn:Es; [|discriminate]. inversion E; subst.
      eapply Hlift; [|exact Es]. intros r2. eapply IH; exact Er.
    + destruct (resolve_node db h3) as [c|e]; [|discriminate].
      destruct (set_child cs k0 c) as [cs1|]; [|discriminate].
      destruct (ptp f db allow c _) as [[c2 v2]|e] eqn:Er; [|discriminate].
      destruct (set_child cs k0 c2) as [cs2|] eqn:Es; [|discriminate]. inversion E; subst.
      eapply Hlift; [|exact Es]. intros r2 [].
  - destruct (resolve_node db h) as [c|e]; [|discriminate]. cbn [ptp_link] in E. discriminate.
Qed.

Section Progress.
  Variable H : list N -> list N.
  Hypothesis H_len : forall x, length (H x) = 32%nat.
  Notation pv := (pv H).

  Definition is_full (n : node) : Prop := match n with NFull _ => True | _ => False end.

  (* unset on the resolved path of a canonical trie with keys of one length never panics;
     a branch is never removed *)
  Lemma unset_progress t : forall p key rl,
    (t = NEmpty \/ can t) -> pv p t -> res_along p key -> ulen t (length key) ->
    (key = [] \/ valid_key key) ->
    exists a, unset p key rl = TOk a /\ (is_full p -> exists x, a = UKeep x).
  Proof.
    induction t as [|v|nk c' IH|cs' IH|h] using node_ind'; intros p key rl Ht Hp Hr Hu Hk.
    - apply pv_empty_r in Hp. subst p. eexists. split; [reflexivity|intros []].
    - destruct Ht as [?|Hc]; [discriminate|inversion Hc].
    - destruct Ht as [?|Hcan]; [discriminate|].
      inversion Hp as [| |t0 e Hw Ee Le|k0 c0 x Hc|]; subst; [destruct Hr|].
      cbn [unset res_along] in *. pose proof (is_prefix_strip nk key) as Sp.
      destruct (strip nk key) as [rest|] eqn:E.
      + destruct Sp as [S1 S2]. rewrite S1 in *. rewrite S2 in *. cbn [negb]. apply strip_some in E. subst key.
        destruct (can_short_inv _ _ Hcan) as [[Vk [v ->]]|(Nk & Nne & cs & -> & Hc')].
        * apply pv_value_r in Hc. subst c0. eexists. split; [reflexivity|intros []].
        * assert (Hu' : ulen (NFull cs) (length rest)).
          { intros r0 v L. specialize (Hu (nk ++ r0) v). rewrite lk_short, strip_app_same in Hu.
            specialize (Hu L). rewrite !app_length in Hu. lia. }
          assert (Hk' : rest = [] \/ valid_key rest).
          { destruct rest as [|a rest]; [left; reflexivity|right]. destruct Hk as [Hk|Hk]; [destruct nk; discriminate|].
            apply (valid_key_app_inv _ _ Hk). discriminate. }
          inversion Hc as [| |t0 e Hw Ee Le| |cs0 cs1 Hl Hcs]; subst; [destruct Hr|].
          destruct (IH (NFull cs0) rest rl (or_intror Hc') Hc Hr Hu' Hk') as (a & Ea & Hfull).
          destruct (Hfull I) as (x & ->). rewrite Ea. eexists. split; [reflexivity|intros []].
      + rewrite Sp. cbn [negb]. destruct rl; [destruct (slice_lt nk key)|destruct (slice_lt key nk)];
          eexists; (split; [reflexivity|intros []]).
    - destruct Ht as [?|Hcan]; [discriminate|].
      inversion Hp as [| |t0 e Hw Ee Le| |cs0 cs1 Hl Hcs]; subst; [destruct Hr|].
      destruct (can_full_inv _ Hcan) as (L17 & Hch & Hv16 & _).
      destruct key as [|k0 kr].
      { exfalso. destruct (can_has_key _ Hcan) as (kx & vx & Vkx & Lx). specialize (Hu _ _ Lx). destruct kx; [destruct Vkx|discriminate]. }
      destruct Hk as [?|Hk]; [discriminate|]. apply valid_key_cons in Hk.
      assert (Hk0 : k0 < 16 /\ valid_key kr).
      { destruct Hk as [[-> ->]|Hk]; [|exact Hk]. exfalso. apply (can_full_not_len1 _ Hcan Hu). }
      destruct Hk0 as [Hk0 Vkr].
      rewrite unset_full. cbv zeta. rewrite res_along_full in Hr.
      destruct (nth_error cs0 (N.to_nat k0)) as [c|] eqn:Ec; [|apply nth_error_None in Ec; lia].
      destruct (nth_error cs' (N.to_nat k0)) as [c'|] eqn:Ec'; [|apply nth_error_None in Ec'; lia].
      assert (Hu' : ulen c' (length kr)).
      { intros r0 v L. specialize (Hu (k0 :: r0) v). rewrite lk_full, Ec' in Hu. specialize (Hu L). simpl in Hu. lia. }
      rewrite Forall_forall in IH.
      destruct (IH c' (nth_error_In _ _ Ec') c kr rl (Hch _ _ Ec' ltac:(lia)) (Hcs _ _ _ Ec Ec') Hr Hu' (or_intror Vkr))
        as (a & -> & _).
      match goal with |- context [apply_act ?l k0 a] => destruct (apply_act l k0 a) as [cs2|] eqn:Ea end.
      + eexists. split; [reflexivity|]. intros _. eauto.
      + exfalso. rewrite apply_act_node in Ea. unfold set_child in Ea.
        match type of Ea with set_nth _ _ ?l = None => destruct (set_nth_some (N.to_nat k0) (act_node a) l) as [? E2] end;
          [destruct rl; rewrite clear_range_length; lia|congruence].
    - destruct Ht as [?|Hc]; [discriminate|inversion Hc].
  Qed.
End Progress.

Lemma apply_act_some cs i a : (N.to_nat i < length cs)%nat -> exists cs2, apply_act cs i a = Some cs2.
Proof. intros Hi. rewrite apply_act_node. unfold set_child. apply set_nth_some. exact Hi. Qed.

Section Progress2.
  Variable H : list N -> list N.
  Hypothesis H_len : forall x, length (H x) = 32%nat.
  Notation pv := (pv H).

  (* the shape of a resolved slot of a canonical trie below slot 16 *)
  Lemma pv_slot_shape p c' : pv p c' -> (c' = NEmpty \/ can c') ->
    p = NEmpty \/ inner_shape p \/ exists h, p = NHash h.
  Proof.
    intros Hp [->|Hc].
    - apply pv_empty_r in Hp. left; exact Hp.
    - inversion Hp; subst; try solve [inversion Hc]; [right; right; eauto|right; left; exact I|right; left; exact I].
  Qed.

  Lemma unset_internal_progress t : forall p left right,
    can t -> pv p t -> res_along p left -> res_along p right ->
    ulen t (length left) -> length left = length right ->
    valid_key left -> valid_key right -> slice_lt left right = true ->
    (exists a, unset_internal p left right = Rok a /\ (is_full p -> exists x, a = UKeep x)) \/
    unset_internal p left right = Rerr REmptyRange.
  Proof.
    induction t as [|v|rk c' IH|cs' IH|h] using node_ind'; intros p left right Hcan Hp Rl Rr Hu Hlen Vl Vr Hlt;
      try solve [inversion Hcan].
    - (* short *)
      inversion Hp as [| |t0 e Hw Ee Le|k0 c0 x Hc|]; subst; [destruct Rl|].
      cbn [unset_internal]. cbv zeta.
      assert (Hpre : forall key, bcmp (firstn (length rk) key) rk = Eq ->
                key = rk ++ skipn (length rk) key /\ is_prefix_of rk key = true).
      { intros key Hb. apply bcmp_eq in Hb. pose proof (firstn_eq_split _ _ Hb) as Es. split; [exact Es|].
        pose proof (is_prefix_strip rk key) as Sp. rewrite Es, strip_app_same in Sp. destruct Sp as [Sp _]. rewrite <- Es in Sp. exact Sp. }
      assert (Hedge : forall key rl, (key = left \/ key = right) -> bcmp (firstn (length rk) key) rk = Eq ->
                exists a, match c0 with
                | NValue _ => Rok URemove
                | _ => match unset c0 (skipn (length rk) key) rl with
                       | TErr e => Rerr (of_terr e)
                       | TOk (UKeep x) => Rok (UKeep (NShort rk x))
                       | TOk URemove => Rerr RPanic
                       end
                end = Rok a).
      { intros key rl Hkey Hb. destruct (Hpre key Hb) as [Es Hpf].
        assert (Vk : valid_key key) by (destruct Hkey; subst key; assumption).
        assert (Rk : res_along (NShort rk c0) key) by (destruct Hkey; subst key; assumption).
        assert (Lk : length key = length left) by (destruct Hkey; subst key; [reflexivity|symmetry; exact Hlen]).
        cbn [res_along] in Rk. rewrite Hpf in Rk.
        destruct (can_short_inv _ _ Hcan) as [[Vrk [v ->]]|(Nk & Nne & cs & -> & Hc')].
        - apply pv_value_r in Hc. subst c0. eauto.
        - inversion Hc as [| |t0 e Hw Ee Le| |cs0 cs1 Hl Hcs]; subst; [destruct Rk|].
          set (rest := skipn (length rk) key) in *.
          assert (Hrest : rest <> []).
          { intros Er. rewrite Er, app_nil_r in Es. rewrite Es in Vk. exact (valid_key_not_nibbles _ Vk Nk). }
          assert (Vrest : valid_key rest) by (rewrite Es in Vk; apply (valid_key_app_inv _ _ Vk Hrest)).
          destruct (unset_progress H H_len (NFull cs) (NFull cs0) rest rl (or_intror Hc') Hc Rk) as (a & Ea & Hf).
          + intros r0 v L. specialize (Hu (rk ++ r0) v). rewrite lk_short, strip_app_same in Hu. specialize (Hu L).
            rewrite <- Lk, Es, !app_length in Hu. lia.
          + right; exact Vrest.
          + destruct (Hf I) as (x & ->). rewrite Ea. eauto. }
      destruct (bcmp (firstn (length rk) left) rk) eqn:Fl; destruct (bcmp (firstn (length rk) right) rk) eqn:Fr;
        try (right; reflexivity);
        try (left; eexists; split; [reflexivity|intros []]);
        try (left; destruct (Hedge left false (or_introl eq_refl) Fl) as (a & ->); eexists; split; [reflexivity|intros []]);
        try (left; destruct (Hedge right true (or_intror eq_refl) Fr) as (a & ->); eexists; split; [reflexivity|intros []]).
      (* both edges run through the node *)
      destruct (Hpre left Fl) as [El Pl]. destruct (Hpre right Fr) as [Er Pr].
      cbn [res_along] in Rl, Rr. rewrite Pl in Rl. rewrite Pr in Rr.
      destruct (can_short_inv _ _ Hcan) as [[Vrk [v ->]]|(Nk & Nne & cs & -> & Hc')].
      + exfalso. rewrite El in Vl. rewrite Er in Vr.
        pose proof (valid_key_prefix_end _ _ Vrk Vl) as E1. pose proof (valid_key_prefix_end _ _ Vrk Vr) as E2.
        rewrite E1, app_nil_r in El. rewrite E2, app_nil_r in Er. rewrite El, Er, slice_lt_irrefl in Hlt. discriminate.
      + inversion Hc as [| |t0 e Hw Ee Le| |cs0 cs1 Hl Hcs]; subst; [destruct Rl|].
        remember (skipn (length rk) left) as l' eqn:Dl in *. remember (skipn (length rk) right) as r' eqn:Dr in *.
        assert (Nl : l' <> []).
        { intros En. rewrite En, app_nil_r in El. rewrite El in Vl. exact (valid_key_not_nibbles _ Vl Nk). }
        assert (Nr : r' <> []).
        { intros En. rewrite En, app_nil_r in Er. rewrite Er in Vr. exact (valid_key_not_nibbles _ Vr Nk). }
        rewrite El in Vl, Hlt, Hlen, Hu. rewrite Er in Vr, Hlt, Hlen.
        destruct (valid_key_app_inv _ _ Vl Nl) as [_ Vl']. destruct (valid_key_app_inv _ _ Vr Nr) as [_ Vr'].
        rewrite slice_lt_app in Hlt. rewrite !app_length in Hlen.
        destruct (IH (NFull cs0) l' r' Hc' Hc Rl Rr) as [(a & Ea & Hf)|Ee]; auto.
        * intros r0 v L. specialize (Hu (rk ++ r0) v). rewrite lk_short, strip_app_same in Hu. specialize (Hu L).
          rewrite !app_length in Hu. lia.
        * lia.
        * destruct (Hf I) as (x & ->). left. rewrite Ea. eexists. split; [reflexivity|intros []].
        * right. rewrite Ee. reflexivity.
    - (* branch *)
      inversion Hp as [| |t0 e Hw Ee Le| |cs0 cs1 Hl Hcs]; subst; [destruct Rl|].
      destruct (can_full_inv _ Hcan) as (L17 & Hch & Hv16 & _).
      destruct left as [|l0 lr]; [destruct Vl|]. destruct right as [|r0 rr0]; [destruct Vr|].
      apply valid_key_cons in Vl. apply valid_key_cons in Vr.
      assert (Hl0 : l0 < 16 /\ valid_key lr).
      { destruct Vl as [[-> ->]|Vl]; [|exact Vl]. exfalso. apply (can_full_not_len1 _ Hcan Hu). }
      assert (Hr0 : r0 < 16 /\ valid_key rr0).
      { destruct Vr as [[-> ->]|Vr]; [|exact Vr]. exfalso. simpl in Hlen. destruct lr; [|discriminate].
        apply (can_full_not_len1 _ Hcan Hu). }
      destruct Hl0 as [Hl0 Vlr]. destruct Hr0 as [Hr0 Vrr].
      rewrite unset_internal_full. unfold child. rewrite res_along_full in Rl, Rr.
      destruct (nth_error cs0 (N.to_nat l0)) as [ln|] eqn:Eln; [|apply nth_error_None in Eln; lia].
      destruct (nth_error cs0 (N.to_nat r0)) as [rn|] eqn:Ern; [|apply nth_error_None in Ern; lia].
      destruct (nth_error cs' (N.to_nat l0)) as [ln'|] eqn:Eln'; [|apply nth_error_None in Eln'; lia].
      destruct (nth_error cs' (N.to_nat r0)) as [rn'|] eqn:Ern'; [|apply nth_error_None in Ern'; lia].
      pose proof (Hcs _ _ _ Eln Eln') as Pl. pose proof (Hcs _ _ _ Ern Ern') as Pr.
      pose proof (Hch _ _ Eln' ltac:(lia)) as Cl. pose proof (Hch _ _ Ern' ltac:(lia)) as Cr.
      assert (Hul : ulen ln' (length lr)).
      { intros r1 v L. specialize (Hu (l0 :: r1) v). rewrite lk_full, Eln' in Hu. specialize (Hu L). simpl in Hu. lia. }
      assert (Hur : ulen rn' (length rr0)).
      { intros r1 v L. specialize (Hu (r0 :: r1) v). rewrite lk_full, Ern' in Hu. specialize (Hu L). simpl in Hu, Hlen. lia. }
      assert (Sl : ln = NEmpty \/ inner_shape ln).
      { destruct (pv_slot_shape _ _ Pl Cl) as [?|[?|[h ->]]]; auto; try contradiction. }
      assert (Sr : rn = NEmpty \/ inner_shape rn).
      { destruct (pv_slot_shape _ _ Pr Cr) as [?|[?|[h ->]]]; auto; try contradiction. }
      apply slice_lt_cons in Hlt.
      assert (Hfk : exists fk, (if is_empty ln || is_empty rn then Some true else iface_neq l0 r0 ln rn) = Some fk /\
                      (fk = false -> l0 = r0 /\ inner_shape ln) /\
                      (fk = true -> l0 = r0 -> ln = NEmpty)).
      { destruct Sl as [->|Il]; [exists true; cbn; split; [reflexivity|split; [discriminate|auto]]|].
        destruct Sr as [->|Ir].
        - exists true. destruct ln; try destruct Il; cbn; (split; [reflexivity|split; [discriminate|]]);
            intros _ E0; subst r0; rewrite Eln in Ern; discriminate.
        - exists (negb (N.eqb l0 r0)).
          split; [destruct ln; try destruct Il; destruct rn; try destruct Ir; reflexivity|].
          split.
          + intros E0. apply negb_false_iff in E0. apply N.eqb_eq in E0. auto.
          + intros E0 E1. subst r0. rewrite N.eqb_refl in E0. discriminate. }
      destruct Hfk as (fk & -> & Hf0 & Hf1). destruct fk.
      + (* fork *)
        left. unfold ui_fork. cbv zeta. unfold child.
        assert (N1 : forall j, nth_error (clear_range (N.to_nat l0 + 1) (N.to_nat r0) cs0) j = match nth_error cs0 j with
                  | Some x => Some (if Nat.ltb (N.to_nat l0) j && Nat.ltb j (N.to_nat r0) then NEmpty else x)
                  | None => None end).
        { intros j. rewrite clear_range_nth. destruct (nth_error cs0 j); [|reflexivity].
          replace (Nat.leb (N.to_nat l0 + 1) j) with (Nat.ltb (N.to_nat l0) j); [reflexivity|].
          destruct (Nat.ltb_spec (N.to_nat l0) j); symmetry; [apply Nat.leb_le|apply Nat.leb_gt]; lia. }
        rewrite N1, Eln, Nat.ltb_irrefl. cbn [andb].
        destruct (N.eq_dec l0 r0) as [E0|Hne].
        * (* both edges point to the same nil slot *)
          subst r0. pose proof (Hf1 eq_refl eq_refl) as En. subst ln. cbn [unset].
          destruct (apply_act_some (clear_range (N.to_nat l0 + 1) (N.to_nat l0) cs0) l0 (UKeep NEmpty)) as [cs2 A1];
            [rewrite clear_range_length; lia|]. rewrite A1.
          destruct (apply_act_nth _ _ _ _ A1) as [L2 N2]. rewrite clear_range_length in L2.
          rewrite N2, Nat.eqb_refl. cbn [act_node unset].
          destruct (apply_act_some cs2 l0 (UKeep NEmpty)) as [cs3 A2]; [lia|]. rewrite A2.
          eexists. split; [reflexivity|]. intros _. eauto.
        * destruct (unset_progress H H_len ln' ln lr false Cl Pl Rl Hul (or_intror Vlr)) as (a1 & -> & _).
          destruct (apply_act_some (clear_range (N.to_nat l0 + 1) (N.to_nat r0) cs0) l0 a1) as [cs2 A1];
            [rewrite clear_range_length; lia|]. rewrite A1.
          destruct (apply_act_nth _ _ _ _ A1) as [L2 N2]. rewrite clear_range_length in L2.
          rewrite N2. replace (Nat.eqb (N.to_nat r0) (N.to_nat l0)) with false by (symmetry; apply Nat.eqb_neq; lia).
          rewrite N1, Ern. rewrite Nat.ltb_irrefl, andb_false_r.
          destruct (unset_progress H H_len rn' rn rr0 true Cr Pr Rr Hur (or_intror Vrr)) as (a2 & -> & _).
          destruct (apply_act_some cs2 r0 a2) as [cs3 A2]; [lia|]. rewrite A2.
          eexists. split; [reflexivity|]. intros _. eauto.
      + (* descend *)
        destruct (Hf0 eq_refl) as [<- Il]. rewrite Ern in Eln. inversion Eln; subst rn.
        rewrite Ern' in Eln'. inversion Eln'; subst rn'.
        destruct Cl as [->|Ccl]; [apply pv_empty_r in Pl; subst ln; destruct Il|].
        destruct Hlt as [?|[_ Hlt]]; [lia|]. simpl in Hlen.
        rewrite Forall_forall in IH.
        destruct (IH ln' (nth_error_In _ _ Ern') ln lr rr0 Ccl Pl Rl Rr Hul ltac:(lia) Vlr Vrr Hlt) as [(a & -> & _) | ->].
        * left. destruct (apply_act_some cs0 l0 a) as [cs2 ->]; [lia|]. eexists. split; [reflexivity|]. intros _. eauto.
        * right. reflexivity.
  Qed.
End Progress2.

Section Conv.
  Variable H : list N -> list N.
  Hypothesis H_len : forall x, length (H x) = 32%nat.
  Notation pv := (pv H).

  (* the converse simulation: where the full trie accepts an insertion, the partial tree
     does the same or stops at a hash node (MissingNodeError) *)
  Lemma insert_sim_conv : forall fuel p s prefix key v d s' ev',
    pv p s -> insert no_resolve fuel s prefix key (NValue v) = TOk (d, s', ev') ->
    (exists p' ev, insert no_resolve fuel p prefix key (NValue v) = TOk (d, p', ev) /\ pv p' s') \/
    insert no_resolve fuel p prefix key (NValue v) = TErr EMissing.
  Proof.
    induction fuel as [|f IH]; intros p s prefix key v d s' ev' Hp E; [discriminate|].
    destruct key as [|k0 kr].
    - left. destruct p as [|v0|k c|cs|h].
      + apply pv_empty_inv in Hp. subst s. cbn in E |- *. inversion E; subst. eexists _, _. split; [reflexivity|constructor].
      + apply pv_value_inv in Hp. subst s. cbn in E |- *. inversion E; subst. eexists _, _. split; [reflexivity|constructor].
      + destruct (pv_short_inv _ _ _ _ Hp) as (c' & -> & _). cbn in E |- *. inversion E; subst. eexists _, _. split; [reflexivity|constructor].
      + destruct (pv_full_inv _ _ _ Hp) as (cs' & -> & _). cbn in E |- *. inversion E; subst. eexists _, _. split; [reflexivity|constructor].
      + pose proof (pv_hash_inner _ _ _ Hp) as Hi. destruct s; try destruct Hi; cbn in E |- *; inversion E; subst;
          eexists _, _; (split; [reflexivity|constructor]).
    - destruct p as [|v0|nk nv|cs|h].
      + left. apply pv_empty_inv in Hp. subst s. cbn in E |- *. inversion E; subst. eexists _, _. split; [reflexivity|].
        constructor. constructor.
      + apply pv_value_inv in Hp. subst s. discriminate.
      + destruct (pv_short_inv _ _ _ _ Hp) as (nv' & -> & Hc).
        rewrite insert_short_unfold in E |- * by discriminate. cbv zeta in E |- *.
        destruct (Nat.eqb (prefix_len (k0 :: kr) nk) (length nk)).
        * destruct (insert no_resolve f nv' _ _ _) as [[[d0 nn'] ev0']|e] eqn:Ei; [|discriminate].
          destruct (IH _ _ _ _ _ _ _ _ Hc Ei) as [(nn & ev0 & -> & Hnn)| ->]; [left|right; reflexivity].
          destruct d0; inversion E; subst; eexists _, _; (split; [reflexivity|]); constructor; assumption.
        * left. destruct (nth_error nk _) as [a|]; [|discriminate]. destruct (nth_error (k0 :: kr) _) as [b|]; [|discriminate].
          rewrite (surjective_pairing (insert_nil _ (skipn _ nk) nv')) in E.
          rewrite (surjective_pairing (insert_nil _ (skipn _ nk) nv)).
          rewrite (surjective_pairing (insert_nil _ (skipn _ (k0 :: kr)) (NValue v))) in E |- *.
          rewrite !insert_nil_fst in E |- *.
          destruct (set_child empty17 a (inil _ nv')) as [cs1'|] eqn:S1'; [|discriminate].
          destruct (set_child cs1' b _) as [cs2'|] eqn:S2'; [|discriminate].
          pose proof (set_nth_lt _ _ _ _ S1') as La. pose proof (set_nth_lt _ _ _ _ S2') as Lb.
          destruct (set_nth_some (N.to_nat a) (inil (skipn (prefix_len (k0 :: kr) nk + 1) nk) nv) empty17 La) as [cs1 S1].
          unfold set_child. rewrite S1.
          destruct (pvs_set H _ _ _ _ _ _ (pvs_empty17 H) (pv_inil H (skipn (prefix_len (k0 :: kr) nk + 1) nk) _ _ Hc) S1) as (cs1x & S1x & Hcs1).
          unfold set_child in S1', S1x. rewrite S1' in S1x. inversion S1x; subst cs1x.
          destruct Hcs1 as [Lc1 _].
          destruct (set_nth_some (N.to_nat b) (inil (skipn (prefix_len (k0 :: kr) nk + 1) (k0 :: kr)) (NValue v)) cs1 ltac:(lia)) as [cs2 S2].
          rewrite S2.
          assert (Hcs1' : pvs H cs1 cs1').
          { destruct (pvs_set H _ _ _ _ _ _ (pvs_empty17 H) (pv_inil H (skipn (prefix_len (k0 :: kr) nk + 1) nk) _ _ Hc) S1) as (x & Sx & Hx).
            unfold set_child in Sx. rewrite S1' in Sx. inversion Sx; subst x. exact Hx. }
          destruct (pvs_set H _ _ _ _ _ _ Hcs1' (pv_inil H (skipn (prefix_len (k0 :: kr) nk + 1) (k0 :: kr)) _ _ (pv_value H v)) S2) as (x & Sx & Hcs2).
          unfold set_child in Sx, S2'. rewrite S2' in Sx. inversion Sx; subst x.
          destruct (Nat.eqb (prefix_len (k0 :: kr) nk) 0); inversion E; subst; eexists _, _; (split; [reflexivity|]);
            destruct Hcs2; repeat constructor; assumption.
      + destruct (pv_full_inv _ _ _ Hp) as (cs' & -> & Hcs).
        rewrite insert_full_unfold' in E |- *. unfold child in *.
        destruct (nth_error cs' (N.to_nat k0)) as [c'|] eqn:Ec'; [|discriminate].
        destruct Hcs as [Lcs Hn].
        destruct (nth_error cs (N.to_nat k0)) as [c|] eqn:Ec.
        2: { apply nth_error_None in Ec. assert (N.to_nat k0 < length cs')%nat by (apply nth_error_Some; congruence). lia. }
        destruct (insert no_resolve f c' _ _ _) as [[[d0 nn'] ev0']|e] eqn:Ei; [|discriminate].
        destruct (IH _ _ _ _ _ _ _ _ (Hn _ _ _ Ec Ec') Ei) as [(nn & ev0 & -> & Hnn)| ->]; [left|right; reflexivity].
        destruct d0.
        * destruct (set_child cs' k0 nn') as [cs2'|] eqn:S1'; [|discriminate].
          pose proof (set_nth_lt _ _ _ _ S1') as La.
          destruct (set_nth_some (N.to_nat k0) nn cs ltac:(lia)) as [cs2 S1]. unfold set_child. rewrite S1.
          destruct (pvs_set H cs cs' k0 nn nn' cs2 (conj Lcs Hn) Hnn S1) as (x & Sx & Hcs2).
          rewrite S1' in Sx. inversion Sx; subst x.
          inversion E; subst. eexists _, _. split; [reflexivity|]. destruct Hcs2. constructor; assumption.
        * inversion E; subst. eexists _, _. split; [reflexivity|]. constructor; assumption.
      + right. reflexivity.
  Qed.

  Lemma reinsert_sim_conv keys : forall values p s s3,
    pv p s -> Forall (fun v => v <> []) values ->
    reinsert s keys values = Rok s3 ->
    (exists p3, reinsert p keys values = Rok p3 /\ pv p3 s3) \/ reinsert p keys values = Rerr RMissingNode.
  Proof.
    induction keys as [|k kr IH]; intros values p s s3 Hp HV E.
    - inversion E; subst. left. exists p. split; [reflexivity|exact Hp].
    - destruct values as [|v vr]; [discriminate|]. cbn [reinsert] in E |- *.
      inversion HV as [|? ? Hv HV']; subst. unfold update in E |- *. cbv zeta in E |- *.
      destruct v as [|b0 v]; [congruence|].
      destruct (insert no_resolve _ s [] _ _) as [[[d s1] ev']|e] eqn:Ei; [|discriminate].
      destruct (insert_sim_conv _ _ _ _ _ _ _ _ _ Hp Ei) as [(p1 & ev & -> & Hp1)| ->]; [|right; reflexivity].
      apply (IH vr p1 s1 s3 Hp1 HV' E).
  Qed.
End Conv.

Lemma is_prefix_refl k : is_prefix_of k k = true.
Proof. pose proof (is_prefix_strip k k) as Sp. rewrite strip_self in Sp. destruct Sp as [Sp _]. exact Sp. Qed.

Lemma prefix_len_full (a b : list N) : prefix_len a b = length b -> is_prefix_of b a = true /\ a = b ++ skipn (length b) a.
Proof.
  revert a. induction b as [|y b IH]; intros a E.
  - split; [reflexivity|]. reflexivity.
  - destruct a as [|x a]; [discriminate|]. simpl in E. destruct (N.eqb_spec x y) as [->|]; [|discriminate].
    destruct (IH a ltac:(lia)) as [P1 P2]. split.
    + pose proof (is_prefix_strip (y :: b) (y :: a)) as Sp. simpl strip in Sp. rewrite N.eqb_refl in Sp.
      pose proof (is_prefix_strip b a) as Sp'. destruct (strip b a); [destruct Sp as [Sp _]; exact Sp|congruence].
    + simpl. f_equal. exact P2.
Qed.

(* after a successful insertion the path of the inserted key is resolved; an insertion that
   reports "not dirty" returns its input *)
Lemma insert_res : forall fuel p prefix key v d p' ev,
  insert no_resolve fuel p prefix key (NValue v) = TOk (d, p', ev) ->
  res_along p' key /\ (d = false -> p' = p).
Proof.
  induction fuel as [|f IH]; intros p prefix key v d p' ev E; [discriminate|].
  destruct key as [|k0 kr].
  - destruct p; cbn in E; inversion E; subst; (split; [exact I|]); try discriminate.
    intros Hd. apply negb_false_iff in Hd. apply bytes_eqb_eq in Hd. congruence.
  - destruct p as [|v0|nk nv|cs|h].
    + cbn in E. inversion E; subst. split; [|discriminate]. cbn [res_along]. rewrite is_prefix_refl. exact I.
    + discriminate.
    + rewrite insert_short_unfold in E by discriminate. cbv zeta in E.
      destruct (Nat.eqb (prefix_len (k0 :: kr) nk) (length nk)) eqn:Em.
      * apply Nat.eqb_eq in Em. destruct (prefix_len_full _ _ Em) as [Pf _]. rewrite Em in E.
        destruct (insert no_resolve f nv _ _ _) as [[[d0 nn] ev0]|e] eqn:Ei; [|discriminate].
        destruct (IH _ _ _ _ _ _ _ Ei) as [R Hd0].
        destruct d0; inversion E; subst.
        -- split; [|discriminate]. cbn [res_along]. rewrite Pf. exact R.
        -- split; [|reflexivity]. cbn [res_along]. rewrite Pf. rewrite <- (Hd0 eq_refl). exact R.
      * destruct (nth_error nk _) as [a|] eqn:Ea; [|discriminate]. destruct (nth_error (k0 :: kr) _) as [b|] eqn:Eb; [|discriminate].
        rewrite (surjective_pairing (insert_nil _ (skipn _ nk) nv)) in E.
        rewrite (surjective_pairing (insert_nil _ (skipn _ (k0 :: kr)) (NValue v))) in E.
        rewrite !insert_nil_fst in E.
        destruct (set_child empty17 a _) as [cs1|] eqn:S1; [|discriminate].
        destruct (set_child cs1 b _) as [cs2|] eqn:S2; [|discriminate].
        unfold set_child in S2. destruct (set_nth_spec _ _ _ _ S2) as [_ N2].
        set (m := prefix_len (k0 :: kr) nk) in *.
        assert (Hsplit : k0 :: kr = firstn m (k0 :: kr) ++ b :: skipn (m + 1) (k0 :: kr)).
        { rewrite <- (firstn_skipn m (k0 :: kr)) at 1. f_equal.
          assert (Hs : skipn m (k0 :: kr) = b :: skipn (m + 1) (k0 :: kr)).
          { clear - Eb. revert Eb. generalize (k0 :: kr). induction m as [|m IHm]; intros l Eb; destruct l; try discriminate.
            - simpl in Eb. inversion Eb. reflexivity.
            - simpl. apply IHm. exact Eb. }
          exact Hs. }
        assert (Rb : res_along (NFull cs2) (b :: skipn (m + 1) (k0 :: kr))).
        { rewrite res_along_full, N2, Nat.eqb_refl. unfold inil. destruct (skipn (m + 1) (k0 :: kr)) eqn:Es; [exact I|].
          cbn [res_along]. rewrite is_prefix_refl. exact I. }
        assert (Es : strip (firstn m (k0 :: kr)) (k0 :: kr) = Some (b :: skipn (m + 1) (k0 :: kr)))
          by (apply strip_some; exact Hsplit).
        pose proof (is_prefix_strip (firstn m (k0 :: kr)) (k0 :: kr)) as Sp. rewrite Es in Sp. destruct Sp as [Sp1 Sp2].
        destruct (Nat.eqb m 0) eqn:Em0; inversion E; subst p' d; (split; [|discriminate]).
        -- apply Nat.eqb_eq in Em0. rewrite Em0 in Sp2, Rb. simpl in Sp2, Rb. rewrite Sp2. exact Rb.
        -- cbn [res_along]. rewrite Sp1, Sp2. exact Rb.
    + rewrite insert_full_unfold' in E. unfold child in E.
      destruct (nth_error cs (N.to_nat k0)) as [c|] eqn:Ec; [|discriminate].
      destruct (insert no_resolve f c _ _ _) as [[[d0 nn] ev0]|e] eqn:Ei; [|discriminate].
      destruct (IH _ _ _ _ _ _ _ Ei) as [R Hd0].
      destruct d0.
      * destruct (set_child cs k0 nn) as [cs2|] eqn:S1; [|discriminate]. inversion E; subst. split; [|discriminate].
        unfold set_child in S1. destruct (set_nth_spec _ _ _ _ S1) as [_ N2].
        rewrite res_along_full, N2, Nat.eqb_refl. exact R.
      * inversion E; subst. split; [|reflexivity]. rewrite res_along_full, Ec. rewrite <- (Hd0 eq_refl). exact R.
    + cbn in E. discriminate.
Qed.

Lemma reinsert_res keys : forall values p p3 last,
  Forall (fun v => v <> []) values ->
  reinsert p keys values = Rok p3 -> last_opt keys = Some last -> res_along p3 (keybytes_to_hex last).
Proof.
  induction keys as [|k kr IH]; intros values p p3 last HV E Hl; [discriminate|].
  destruct values as [|v vr]; [discriminate|]. cbn [reinsert] in E.
  inversion HV as [|? ? Hv HV']; subst. unfold update in E. cbv zeta in E. destruct v as [|b0 v]; [congruence|].
  destruct (insert no_resolve _ p [] _ _) as [[[d p1] ev]|e] eqn:Ei; [|discriminate].
  destruct kr as [|k2 kr'].
  - simpl in Hl. inversion Hl; subst last. destruct vr; cbn [reinsert] in E; inversion E; subst.
    all: apply (insert_res _ _ _ _ _ _ _ _ Ei).
  - apply (IH vr p1 p3 last HV' E). exact Hl.
Qed.

(* hasRightElement on a resolved path of a well-formed tree never panics *)
Lemma has_right_total H s : forall p key,
  pv H p s ->
  (s = NEmpty \/ (exists v, s = NValue v) \/ (pwf s /\ valid_key key)) ->
  res_along p key -> exists b, has_right p key = TOk b.
Proof.
  induction s as [|v|nk c' IH|cs' IH|h] using node_ind'; intros p key Hp Hs Hr.
  - apply pv_empty_r in Hp. subst. eexists; reflexivity.
  - apply pv_value_r in Hp. subst. eexists; reflexivity.
  - destruct Hs as [?|[[? ?]|[Hw Vk]]]; try discriminate.
    inversion Hp as [| |t0 e Hw0 Ee Le|k0 c0 x Hc|]; subst; [destruct Hr|].
    cbn [has_right res_along] in *. pose proof (is_prefix_strip nk key) as Sp.
    destruct (strip nk key) as [rest|] eqn:E.
    + destruct Sp as [S1 S2]. rewrite S1 in *. rewrite S2 in *. cbn [negb]. apply strip_some in E. subst key.
      apply (IH c0 rest Hc); [|exact Hr].
      inversion Hw as [? v Vk0 Sk Hv|? ? Nk Ne Sk Hc'|]; subst; [right; left; eauto|right; right].
      split; [exact Hc'|]. apply (valid_key_app_inv _ _ Vk). intros ->. rewrite app_nil_r in Vk.
      exact (valid_key_not_nibbles _ Vk Nk).
    + rewrite Sp. cbn [negb]. eexists; reflexivity.
  - destruct Hs as [?|[[? ?]|[Hw Vk]]]; try discriminate.
    inversion Hp as [| |t0 e Hw0 Ee Le| |cs0 cs1 Hl Hcs]; subst; [destruct Hr|].
    destruct key as [|k0 kr]; [destruct Vk|]. rewrite has_right_full. rewrite res_along_full in Hr.
    destruct (any_from 0 (N.to_nat k0 + 1) 16 cs0); [eexists; reflexivity|].
    inversion Hw as [| |? L17 C V]; subst. pose proof (valid_key_hd_le _ _ Vk) as Hk0.
    destruct (nth_error cs0 (N.to_nat k0)) as [c|] eqn:Ec; [|apply nth_error_None in Ec; lia].
    destruct (nth_error cs' (N.to_nat k0)) as [c'|] eqn:Ec'; [|apply nth_error_None in Ec'; lia].
    rewrite Forall_forall in IH. apply (IH c' (nth_error_In _ _ Ec') c kr (Hcs _ _ _ Ec Ec')); [|exact Hr].
    apply valid_key_cons in Vk. destruct Vk as [[-> ->]|[Hlt Vr]].
    + change (N.to_nat 16) with 16%nat in Ec'. destruct (V c' Ec') as [->|(v & -> & _)]; [left; reflexivity|right; left; eauto].
    + destruct (C _ c' Ec' ltac:(lia)) as [->|Hc']; [left; reflexivity|right; right; auto].
  - destruct Hs as [?|[[? ?]|[Hw _]]]; try discriminate. inversion Hw.
Qed.

Lemma reinsert_full_ex keys : forall values s,
  (s = NEmpty \/ pwf s) -> length keys = length values ->
  Forall (fun k => forallb byteb k = true /\ small (keybytes_to_hex k)) keys ->
  Forall val_ok values ->
  exists s3, reinsert s keys values = Rok s3 /\ (s3 = NEmpty \/ pwf s3).
Proof.
  induction keys as [|k kr IH]; intros values s Hs El HK HV.
  - exists s. split; [reflexivity|exact Hs].
  - destruct values as [|v vr]; [discriminate|]. cbn [reinsert].
    inversion HK as [|? ? [Hb Hsm] HK']; subst. inversion HV as [|? ? Hv HV']; subst.
    unfold update. cbv zeta. destruct v as [|b0 v]; [destruct Hv; congruence|].
    set (hk0 := keybytes_to_hex k) in *.
    assert (Vk : valid_key hk0) by (apply keybytes_to_hex_valid; exact Hb).
    assert (Hwf : wfpos s hk0).
    { right. split; [exact Vk|]. destruct Hs as [->|Hp]; [constructor|apply pwf_wfn; exact Hp]. }
    destruct (insert_spec no_resolve _ s [] hk0 (b0 :: v) (ops_fuel_ok hk0) Hwf)
      as (d & s1 & ev & Ei & P1 & _).
    rewrite Ei.
    assert (Hz : szi s) by (destruct Hs as [->|Hp]; [exact I|apply pwf_szi; exact Hp]).
    destruct (insert_szi _ _ _ _ _ _ _ _ Hz Hv Hsm Ei) as [Hz1 _].
    assert (Hs1 : s1 = NEmpty \/ pwf s1).
    { apply wfn_szi_pwf; [|exact Hz1]. destruct P1 as [[-> _]|[_ Hw1]]; [destruct Vk|exact Hw1]. }
    apply (IH vr s1 Hs1); auto.
Qed.

Lemma last_opt_some {A} (l : list A) : l <> [] -> exists x, last_opt l = Some x.
Proof.
  induction l as [|a l IH]; [congruence|]. intros _. destruct l as [|b l]; [eexists; reflexivity|].
  destruct (IH ltac:(discriminate)) as [x Ex]. exists x. exact Ex.
Qed.

Section GeneralTotal.
  Variable H : list N -> list N.
  Hypothesis H_len : forall x, length (H x) = 32%nat.
  Variable db : pdb.
  Variable P : list N -> Prop.
  Hypothesis faithful : forall e b, P e -> db_get db (H e) = Some b -> b = e.
  Variable t : node.
  Variable r : list N.
  Hypothesis Hcan : can t.
  Hypothesis Hok : content_ok t.
  Hypothesis Hroot : hash_root H t = Some r.
  Hypothesis HP : forall e, genuine H t e -> P e.

  (* range_total, two-edge branch: with genuine proof nodes, non-empty keys of one length
     (trie, run and start key) no input makes VerifyRangeProof panic: not the "invalid node"
     / "it shouldn't happen" panics of unsetInternal / unset, not a type assertion, not the
     hasher, not hasRightElement *)
  Theorem general_total first keys values Lb :
    keys_fixed t Lb -> (0 < Lb)%nat -> N.of_nat Lb < 2 ^ 30 ->
    length first = Lb -> forallb byteb first = true ->
    Forall (fun k => length k = Lb /\ forallb byteb k = true) keys -> Forall small values ->
    no_panic (verify_range_proof H r first keys values (Some db)).
  Proof.
    intros Hfix HL0 HLs Hlf Hbf HK HV.
    pose proof (can_pwf t Hcan Hok) as Hw.
    assert (HKl : Forall (fun k => length k = Lb) keys) by (eapply Forall_impl; [|exact HK]; intros k [? _]; assumption).
    assert (Hul : forall k, length k = Lb -> ulen t (length (keybytes_to_hex k))).
    { intros k Hk. rewrite hex_length, Hk. apply keys_fixed_ulen. exact Hfix. }
    unfold verify_range_proof.
    destruct (Nat.eqb (length keys) (length values)) eqn:El; cbn [negb]; [|split; discriminate].
    apply Nat.eqb_eq in El. destruct (check_run keys values) as [e|] eqn:C.
    { destruct (check_run_no_panic keys values El) as [C1 C2]. rewrite C in C1, C2. split; congruence. }
    apply (check_run_spec Lb keys values HKl El) in C. destruct C as [Hsorted Hne].
    destruct keys as [|k0 kr].
    { destruct values; [|discriminate]. apply (empty_total H H_len db P faithful t r Hcan Hok Hroot HP first Hbf (Hul _ Hlf)). }
    destruct values as [|v0 vr]; [discriminate|].
    destruct (slice_lt k0 first); [split; discriminate|].
    destruct (last_opt_some (k0 :: kr) ltac:(discriminate)) as [last Hlast]. rewrite Hlast.
    assert (Hlin : In last (k0 :: kr)) by (apply last_opt_in; exact Hlast).
    assert (Hll : length last = Lb /\ forallb byteb last = true) by (rewrite Forall_forall in HK; apply HK; exact Hlin).
    destruct Hll as [Hll Hbl].
    destruct (Nat.eqb (length (k0 :: kr)) 1 && bytes_eqb first last) eqn:Hbr.
    { (* the single-element branch *)
      apply andb_true_iff in Hbr. destruct Hbr as [B1 B2]. apply bytes_eqb_eq in B2. subst last.
      destruct kr; [|discriminate]. simpl in Hlast. inversion Hlast; subst k0. destruct vr; [|discriminate].
      pose proof (single_total H H_len db P faithful t r Hcan Hok Hroot HP first Hbf (Hul _ Hlf) v0) as T.
      unfold verify_range_proof in T. cbn [length Nat.eqb negb check_run] in T.
      destruct v0 as [|b0 v0]; [inversion Hne; congruence|].
      rewrite slice_lt_irrefl in T. cbn [last_opt] in T. rewrite bytes_eqb_refl in T. cbn [andb negb] in T.
      rewrite ?bytes_eqb_refl. cbn [andb negb]. exact T. }
    destruct (slice_lt first last) eqn:Hlt; cbn [negb]; [|split; discriminate].
    destruct (Nat.eqb (length first) (length last)); cbn [negb]; [|split; discriminate].
    (* the first edge *)
    destruct (ptp_root H H_len db P faithful t r Hcan Hok Hroot HP first true Hbf) as [[_ E1]|[_ Q1]];
      [rewrite E1; split; discriminate|].
    destruct (proof_to_path db r None first true) as [[root1 val1]|e1]; cbn [ptp_post] in Q1.
    2: { destruct Q1 as [[-> _]|(_ & A & _)]; [split; discriminate|discriminate]. }
    destruct Q1 as (Pv1 & In1 & _ & Rs1 & _).
    unfold proof_to_path at 1. cbv zeta.
    pose proof (ptp_spec H H_len db P faithful _ root1 t (keybytes_to_hex last) true Pv1 Hw In1
                  (keybytes_to_hex_valid _ Hbl) (ptp_fuel_ok _ db) HP) as Q2.
    destruct (ptp (ptp_fuel (keybytes_to_hex last) db) db true root1 (keybytes_to_hex last)) as [[root2 val2]|e2] eqn:E2;
      cbn [ptp_post] in Q2.
    2: { destruct Q2 as [[-> _]|(_ & A & _)]; [split; discriminate|discriminate]. }
    destruct Q2 as (Pv2 & In2 & _ & Rs2 & _).
    pose proof (ptp_res_mono _ _ _ _ _ _ _ E2 _ Rs1) as Rs1'.
    (* unsetInternal *)
    destruct (unset_internal_progress H H_len t root2 (keybytes_to_hex first) (keybytes_to_hex last) Hcan Pv2 Rs1' Rs2)
      as [(act & E3 & _)|E3]; try rewrite E3; try (split; discriminate).
    { rewrite hex_length, Hlf. apply keys_fixed_ulen. exact Hfix. }
    { rewrite !hex_length. lia. }
    { apply keybytes_to_hex_valid; exact Hbf. }
    { apply keybytes_to_hex_valid; exact Hbl. }
    { rewrite slice_lt_hex; auto. lia. }
    destruct (unset_internal_sim H _ _ _ _ _ Pv2 E3) as (act' & E3' & Hact).
    pose proof (pvact_node H _ _ Hact) as Pv3.
    change (match act with URemove => NEmpty | UKeep r0 => r0 end) with (act_node act).
    assert (Hs1 : act_node act' = NEmpty \/ pwf (act_node act')).
    { destruct (unset_internal_pwf _ _ _ _ Hw E3') as [->|(s' & -> & Hs')]; [left; reflexivity|right; exact Hs']. }
    assert (HKs : Forall (fun k => forallb byteb k = true /\ small (keybytes_to_hex k)) (k0 :: kr)).
    { eapply Forall_impl; [|exact HK]. intros k [Hk1 Hk2]. split; [exact Hk2|].
      unfold small, lenN. rewrite hex_length, Hk1. lia. }
    assert (HVs : Forall val_ok (v0 :: vr)).
    { rewrite Forall_forall in HV, Hne |- *. intros v Hv. split; [apply Hne; exact Hv|apply HV; exact Hv]. }
    (* re-insertion: accepted by the full trie, hence accepted or MissingNodeError here *)
    destruct (reinsert_full_ex (k0 :: kr) (v0 :: vr) _ Hs1 El HKs HVs) as (s3 & E4' & Hs3).
    destruct (reinsert_sim_conv H H_len (k0 :: kr) (v0 :: vr) _ _ _ Pv3 Hne E4') as [(root3 & E4 & Pv4)|E4]; rewrite E4; [|split; discriminate].
    (* the hasher *)
    rewrite (hash_root_pv' H H_len _ _ Pv4 Hs3).
    assert (Hh : exists h, hash_root H s3 = Some h).
    { destruct Hs3 as [->|Hw3]; [eexists; reflexivity|].
      destruct (pwf_enc_total H H_len s3 Hw3) as [e Ee]. rewrite (pwf_hash_root H s3 e Hw3 Ee). eauto. }
    destruct Hh as [h ->]. destruct (negb (bytes_eqb h r)); [split; discriminate|].
    (* hasRightElement on the freshly inserted last key *)
    pose proof (reinsert_res _ _ _ _ _ Hne E4 Hlast) as Rs3.
    destruct (has_right_total H s3 root3 (keybytes_to_hex last) Pv4) as [b Eb]; [|exact Rs3|rewrite Eb; split; discriminate].
    destruct Hs3 as [->|Hw3]; [left; reflexivity|right; right]. split; [exact Hw3|apply keybytes_to_hex_valid; exact Hbl].
  Qed.
End GeneralTotal.

(* ------------------------------------------------------------------ towards completeness of the two-edge branch *)

Section NoEmptyRange.
  Variable H : list N -> list N.
  Notation pv := (pv H).

  Lemma of_terr_not_empty e : of_terr e <> REmptyRange.
  Proof. destruct e; discriminate. Qed.

  (* "empty range" is never reported when the right edge key is a key of the trie *)
  Lemma no_empty_range t : forall p left right v,
    pv p t -> lk t right = Some v -> unset_internal p left right <> Rerr REmptyRange.
  Proof.
    induction t as [|w|rk c' IH|cs' IH|h] using node_ind'; intros p left right v Hp L E.
    - rewrite lk_empty in L. discriminate.
    - inversion Hp as [| |t0 e Hw| |]; subst; [|inversion Hw]. discriminate.
    - inversion Hp as [| |t0 e Hw Ee Le|k0 c0 x Hc|]; subst; [discriminate|].
      rewrite lk_short in L. destruct (strip rk right) as [r'|] eqn:Es; [|discriminate].
      apply strip_some in Es. cbn [unset_internal] in E. cbv zeta in E.
      assert (Fr : bcmp (firstn (length rk) right) rk = Eq).
      { rewrite Es, firstn_app_exact. unfold bcmp. rewrite slice_lt_irrefl. reflexivity. }
      rewrite Fr in E.
      assert (Hedge : forall key rl,
                match c0 with
                | NValue _ => Rok URemove
                | _ => match unset c0 key rl with
                       | TErr e => Rerr (of_terr e)
                       | TOk (UKeep x) => Rok (UKeep (NShort rk x))
                       | TOk URemove => Rerr RPanic
                       end
                end <> Rerr REmptyRange).
      { intros key rl. destruct c0; try discriminate;
          destruct (unset _ key rl) as [[x|]|e]; try discriminate; intros E0; inversion E0 as [E1]; exact (of_terr_not_empty _ E1). }
      destruct (bcmp (firstn (length rk) left) rk); try (exact (Hedge _ _ E)).
      destruct (unset_internal c0 _ _) as [[x|]|e] eqn:Eu; try discriminate.
      inversion E; subst e. rewrite Es, skipn_app_exact in Eu. exact (IH _ _ _ _ Hc L Eu).
    - inversion Hp as [| |t0 e Hw Ee Le| |cs0 cs1 Hl Hcs]; subst; [discriminate|].
      destruct left as [|l0 lr]; [discriminate|]. destruct right as [|r0 rr0]; [discriminate|].
      rewrite unset_internal_full in E. unfold child in E.
      destruct (nth_error cs0 (N.to_nat l0)) as [ln|] eqn:Eln; [|discriminate].
      destruct (nth_error cs0 (N.to_nat r0)) as [rn|] eqn:Ern; [|discriminate].
      rewrite lk_full in L. destruct (nth_error cs' (N.to_nat r0)) as [rn'|] eqn:Ern'; [|discriminate].
      destruct (if is_empty ln || is_empty rn then Some true else iface_neq l0 r0 ln rn) as [[|]|] eqn:Fk; [| |discriminate].
      + unfold ui_fork in E. cbv zeta in E.
        destruct (child _ l0); [|discriminate]. destruct (unset _ lr false) as [a1|e1]; [|inversion E as [E1]; exact (of_terr_not_empty _ E1)].
        destruct (apply_act _ l0 a1); [|discriminate]. destruct (child _ r0); [|discriminate].
        destruct (unset _ rr0 true) as [a2|e2]; [|inversion E as [E1]; exact (of_terr_not_empty _ E1)].
        destruct (apply_act _ r0 a2); discriminate.
      + assert (l0 = r0).
        { destruct (is_empty ln || is_empty rn); [discriminate|].
          destruct ln, rn; cbn in Fk; try discriminate; inversion Fk as [Fe]; apply negb_false_iff in Fe; apply N.eqb_eq; exact Fe. }
        subst r0. rewrite Ern in Eln. inversion Eln; subst rn.
        destruct (unset_internal ln lr rr0) as [a0|e0] eqn:Eu.
        * destruct (apply_act cs0 l0 a0); discriminate.
        * inversion E; subst e0. rewrite Forall_forall in IH.
          exact (IH rn' (nth_error_In _ _ Ern') _ _ _ _ (Hcs _ _ _ Ern Ern') L Eu).
    - inversion Hp as [| |t0 e Hw| |]; subst. inversion Hw.
  Qed.
End NoEmptyRange.

(* acceptance, a root mismatch, or a MissingNodeError during re-insertion *)
Definition honest_outcome (x : rr bool) : Prop :=
  (exists b, x = Rok b) \/ x = Rerr RRoot \/ x = Rerr RMissingNode.

Section HonestPartial.
  Variable H : list N -> list N.
  Hypothesis H_len : forall x, length (H x) = 32%nat.
  Variable db : pdb.
  Variable P : list N -> Prop.
  Hypothesis faithful : forall e b, P e -> db_get db (H e) = Some b -> b = e.
  Variable t : node.
  Variable r : list N.
  Hypothesis Hcan : can t.
  Hypothesis Hok : content_ok t.
  Hypothesis Hroot : hash_root H t = Some r.
  Hypothesis HP : forall e, genuine H t e -> P e.

  (* range_complete_honest, the part that is proved: a well-formed response whose last key is
     a key of the trie and whose two edge paths are present in the database passes the batch
     checks, both proofToPath calls and unsetInternal; it can only end in acceptance, in a
     MissingNodeError during re-insertion or in a root mismatch.  (For the genuinely honest
     response - the run IS the content of [firstKey, lastKey] - the last two cannot happen
     either: NOT PROVED, see Properties/C09.v.) *)
  Theorem range_complete_honest_partial first last keys values Lb :
    keys_fixed t Lb -> (0 < Lb)%nat -> N.of_nat Lb < 2 ^ 30 ->
    length first = Lb -> forallb byteb first = true ->
    Forall (fun k => length k = Lb /\ forallb byteb k = true) keys -> Forall small values ->
    length keys = length values -> sorted keys -> Forall (fun v => v <> []) values ->
    last_opt keys = Some last ->
    (forall k0, hd_error keys = Some k0 -> slice_lt k0 first = false) ->
    slice_lt first last = true ->
    (exists v, lk t (keybytes_to_hex last) = Some v) ->
    db_get db r <> None ->
    ~ missing_on H db t (keybytes_to_hex first) -> ~ missing_on H db t (keybytes_to_hex last) ->
    honest_outcome (verify_range_proof H r first keys values (Some db)).
  Proof.
    intros Hfix HL0 HLs Hlf Hbf HK HV El Hsorted Hne Hlast Hfirst Hlt [vl Lvl] Hr Hm1 Hm2.
    assert (O1 : forall b, honest_outcome (Rok b)) by (intros b; left; eauto).
    assert (O2 : honest_outcome (Rerr RRoot)) by (right; left; reflexivity).
    assert (O3 : honest_outcome (Rerr RMissingNode)) by (right; right; reflexivity).
    pose proof (can_pwf t Hcan Hok) as Hw.
    assert (HKl : Forall (fun k => length k = Lb) keys) by (eapply Forall_impl; [|exact HK]; intros k [? _]; assumption).
    assert (Hlin : In last keys) by (apply last_opt_in; exact Hlast).
    assert (Hll : length last = Lb /\ forallb byteb last = true) by (rewrite Forall_forall in HK; apply HK; exact Hlin).
    destruct Hll as [Hll Hbl].
    unfold verify_range_proof. rewrite El, Nat.eqb_refl. cbn [negb].
    assert (C : check_run keys values = None) by (apply (check_run_spec Lb keys values HKl El); auto).
    rewrite C. destruct keys as [|k0 kr]; [discriminate|]. destruct values as [|v0 vr]; [discriminate|].
    rewrite (Hfirst k0 eq_refl), Hlast.
    assert (Hbr : bytes_eqb first last = false).
    { destruct (bytes_eqb first last) eqn:B; [|reflexivity]. apply bytes_eqb_eq in B. subst last.
      rewrite slice_lt_irrefl in Hlt. discriminate. }
    rewrite Hbr, andb_false_r, Hlt. cbn [negb]. rewrite Hlf, Hll, Nat.eqb_refl. cbn [negb].
    destruct (ptp_root H H_len db P faithful t r Hcan Hok Hroot HP first true Hbf) as [[G _]|[_ Q1]]; [congruence|].
    destruct (proof_to_path db r None first true) as [[root1 val1]|e1]; cbn [ptp_post] in Q1.
    2: { exfalso. destruct Q1 as [[_ M]|(_ & A & _)]; [exact (Hm1 M)|discriminate]. }
    destruct Q1 as (Pv1 & In1 & _ & Rs1 & _).
    unfold proof_to_path at 1. cbv zeta.
    pose proof (ptp_spec H H_len db P faithful _ root1 t (keybytes_to_hex last) true Pv1 Hw In1
                  (keybytes_to_hex_valid _ Hbl) (ptp_fuel_ok _ db) HP) as Q2.
    destruct (ptp (ptp_fuel (keybytes_to_hex last) db) db true root1 (keybytes_to_hex last)) as [[root2 val2]|e2] eqn:E2;
      cbn [ptp_post] in Q2.
    2: { exfalso. destruct Q2 as [[_ M]|(_ & A & _)]; [exact (Hm2 M)|discriminate]. }
    destruct Q2 as (Pv2 & In2 & _ & Rs2 & _).
    pose proof (ptp_res_mono _ _ _ _ _ _ _ E2 _ Rs1) as Rs1'.
    destruct (unset_internal_progress H H_len t root2 (keybytes_to_hex first) (keybytes_to_hex last) Hcan Pv2 Rs1' Rs2)
      as [(act & E3 & _)|E3].
    { rewrite hex_length, Hlf. apply keys_fixed_ulen. exact Hfix. }
    { rewrite !hex_length. lia. }
    { apply keybytes_to_hex_valid; exact Hbf. }
    { apply keybytes_to_hex_valid; exact Hbl. }
    { rewrite slice_lt_hex; auto. lia. }
    2: { exfalso. exact (no_empty_range H t _ _ _ _ Pv2 Lvl E3). }
    rewrite E3.
    destruct (unset_internal_sim H _ _ _ _ _ Pv2 E3) as (act' & E3' & Hact).
    pose proof (pvact_node H _ _ Hact) as Pv3.
    change (match act with URemove => NEmpty | UKeep r0 => r0 end) with (act_node act).
    assert (Hs1 : act_node act' = NEmpty \/ pwf (act_node act')).
    { destruct (unset_internal_pwf _ _ _ _ Hw E3') as [->|(s' & -> & Hs')]; [left; reflexivity|right; exact Hs']. }
    assert (HKs : Forall (fun k => forallb byteb k = true /\ small (keybytes_to_hex k)) (k0 :: kr)).
    { eapply Forall_impl; [|exact HK]. intros k [Hk1 Hk2]. split; [exact Hk2|].
      unfold small, lenN. rewrite hex_length, Hk1. lia. }
    assert (HVs : Forall val_ok (v0 :: vr)).
    { rewrite Forall_forall in HV, Hne |- *. intros v Hv. split; [apply Hne; exact Hv|apply HV; exact Hv]. }
    destruct (reinsert_full_ex (k0 :: kr) (v0 :: vr) _ Hs1 El HKs HVs) as (s3 & E4' & Hs3).
    destruct (reinsert_sim_conv H H_len (k0 :: kr) (v0 :: vr) _ _ _ Pv3 Hne E4') as [(root3 & E4 & Pv4)|E4]; rewrite E4;
      [|exact O3].
    rewrite (hash_root_pv' H H_len _ _ Pv4 Hs3).
    assert (Hh : exists h, hash_root H s3 = Some h).
    { destruct Hs3 as [->|Hw3]; [eexists; reflexivity|].
      destruct (pwf_enc_total H H_len s3 Hw3) as [e Ee]. rewrite (pwf_hash_root H s3 e Hw3 Ee). eauto. }
    destruct Hh as [h ->]. destruct (negb (bytes_eqb h r)); [exact O2|].
    pose proof (reinsert_res _ _ _ _ _ Hne E4 Hlast) as Rs3.
    destruct (has_right_total H s3 root3 (keybytes_to_hex last) Pv4) as [b Eb]; [|exact Rs3|rewrite Eb; apply O1].
    destruct Hs3 as [->|Hw3]; [left; reflexivity|right; right]. split; [exact Hw3|apply keybytes_to_hex_valid; exact Hbl].
  Qed.
End HonestPartial.
