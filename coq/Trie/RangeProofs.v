(* Trie/RangeProofs.v — lemmas about Trie/Range.v (C09):
     collapse_inj / hash_root_inj   Merkle injectivity: under collision freedom the root
                                    hash determines a well-formed trie
     range_noproof_exact            the no-proof branch accepts exactly the whole trie content
     (further parts below)
   The hash function is a Section variable with named hypotheses. *)
From GV Require Import Lib.Tactics Lib.Bytes Trie.Hex Trie.HexProofs Trie.Node Trie.Ops Trie.Hash Trie.OpsProofs Trie.Canon.
From GV Require Import Trie.Stack Trie.StackProofs Trie.Proof Trie.ProofProofs Trie.Range.
Local Open Scope N_scope.

(* ------------------------------------------------------------------ byte order, nibble order *)

Lemma slice_lt_irrefl a : slice_lt a a = false.
Proof. induction a as [|x a IH]; [reflexivity|]. simpl. rewrite N.ltb_irrefl, N.eqb_refl. exact IH. Qed.

Lemma slice_lt_nibbles a : forall b, forallb byteb a = true -> forallb byteb b = true ->
  length a = length b -> slice_lt a b = true -> slice_lt (nibbles_of a) (nibbles_of b) = true.
Proof.
  induction a as [|x a IH]; intros [|y b] Ha Hb Hl Hlt; try discriminate.
  simpl in Ha, Hb. apply andb_true_iff in Ha. apply andb_true_iff in Hb.
  destruct Ha as [Hx Ha]. destruct Hb as [Hy Hb]. unfold byteb in Hx, Hy.
  simpl in Hlt. cbn [nibbles_of slice_lt].
  destruct (x <? y) eqn:L.
  - destruct (x / 16 <? y / 16) eqn:L1; [reflexivity|].
    destruct (x / 16 =? y / 16) eqn:E1; [|lia].
    destruct (x mod 16 <? y mod 16) eqn:L2; [reflexivity|]. lia.
  - destruct (x =? y) eqn:E; [|discriminate]. apply N.eqb_eq in E. subst y.
    rewrite !N.ltb_irrefl, !N.eqb_refl. apply IH; auto.
Qed.

Lemma is_prefix_same_len p l : length p = length l -> is_prefix_of p l = true -> p = l.
Proof.
  intros Hl Hp. unfold is_prefix_of in Hp. apply andb_true_iff in Hp. destruct Hp as [Hp _].
  rewrite Hl, firstn_all in Hp. apply bytes_eqb_eq. exact Hp.
Qed.

(* ------------------------------------------------------------------ the checks on the batch *)

Fixpoint sorted_from (prev : list N) (keys : list (list N)) : Prop :=
  match keys with
  | [] => True
  | k :: r => slice_lt prev k = true /\ sorted_from k r
  end.
(* strictly increasing in bytes.Compare order *)
Definition sorted (keys : list (list N)) : Prop :=
  match keys with [] => True | k :: r => sorted_from k r end.

Lemma check_run_spec Lb keys : forall values,
  Forall (fun k => length k = Lb) keys -> length keys = length values ->
  (check_run keys values = None <-> sorted keys /\ Forall (fun v => v <> []) values).
Proof.
  induction keys as [|k kr IH]; intros values HL Hlen.
  - destruct values; [|discriminate]. simpl. split; auto.
  - destruct values as [|v vr]; [discriminate|]. simpl in Hlen.
    inversion HL as [|? ? Hk HL']; subst.
    cbn [check_run]. destruct kr as [|k' kr'].
    + destruct vr; [|discriminate]. destruct v; simpl.
      * split; [discriminate|]. intros [_ F]. inversion F; congruence.
      * split; auto. intros _. split; [exact I|]. constructor; [discriminate|constructor].
    + inversion HL' as [|? ? Hk' _]; subst.
      specialize (IH vr HL' ltac:(lia)).
      destruct (slice_lt k k') eqn:Lt; cbn [negb].
      * destruct (is_prefix_of k k') eqn:Pf.
        { apply is_prefix_same_len in Pf; [|congruence]. subst k'. rewrite slice_lt_irrefl in Lt. discriminate. }
        destruct v as [|b v].
        { split; [discriminate|]. intros [_ F]. inversion F; congruence. }
        rewrite IH. simpl. split.
        -- intros [Sd F]. split; [split; [exact Lt|exact Sd]|]. constructor; [discriminate|exact F].
        -- intros [[_ Sd] F]. inversion F; subst. split; assumption.
      * split; [discriminate|]. intros [[C _] _]. simpl in C. congruence.
Qed.

(* ------------------------------------------------------------------ canonical + good contents = pwf *)

(* every stored value is non-empty and small, every stored key small *)
Definition content_ok (n : node) : Prop :=
  forall k v, lk n k = Some v -> val_ok v /\ small k.

Lemma small_app_r (a b : list N) : small (a ++ b) -> small b.
Proof. unfold small, lenN. rewrite app_length. lia. Qed.
Lemma small_app_l (a b : list N) : small (a ++ b) -> small a.
Proof. unfold small, lenN. rewrite app_length. lia. Qed.

Lemma can_pwf n : can n -> content_ok n -> pwf n.
Proof.
  induction n as [| |k c IH|cs IH|] using node_ind'; intros Hc Hok; inversion Hc; subst.
  - (* leaf *)
    destruct (Hok k v) as [Hv Hk]; [rewrite lk_leaf, bytes_eqb_refl; reflexivity|].
    apply pwf_leaf; assumption.
  - (* extension *)
    assert (Hok' : content_ok (NFull cs)).
    { intros r v L. destruct (Hok (k ++ r) v) as [Hv Hs].
      - rewrite lk_short, strip_app_same. exact L.
      - split; [exact Hv|eapply small_app_r; exact Hs]. }
    apply pwf_ext; auto.
    destruct (can_has_key _ H3) as (r & v & _ & L).
    destruct (Hok (k ++ r) v) as [_ Hs]; [rewrite lk_short, strip_app_same; exact L|].
    eapply small_app_l; exact Hs.
  - (* branch *)
    apply pwf_full; [assumption| |].
    + intros i c Hi Hlt. destruct (H1 i c Hi Hlt) as [->|Hcc]; [left; reflexivity|right].
      rewrite Forall_forall in IH. apply (IH c (nth_error_In _ _ Hi) Hcc).
      intros r v L. destruct (Hok (N.of_nat i :: r) v) as [Hv Hs].
      * rewrite lk_full, Nat2N.id, Hi. exact L.
      * split; [exact Hv|]. apply (small_app_r [N.of_nat i]). exact Hs.
    + intros c Hi. destruct (H2 c Hi) as [->|[v ->]]; [left; reflexivity|right].
      exists v. split; [reflexivity|].
      destruct (Hok [16] v) as [Hv _]; [|exact Hv].
      rewrite lk_full. change (N.to_nat 16) with 16%nat. rewrite Hi. reflexivity.
Qed.

(* ------------------------------------------------------------------ Merkle injectivity *)

Section Inj.
  Variable H : list N -> list N.
  Hypothesis H_len : forall x, length (H x) = 32%nat.
  Variable NS : list N -> Prop.
  Hypothesis H_inj : H_inj_on H NS.

  Lemma cref_pwf c e : pwf c -> node_enc H c = Some e ->
    cref H c (collapse H c) = if Nat.ltb (length e) 32 then collapse H c else NHash (H e).
  Proof.
    intros Hw Ee. destruct (pwf_shape c Hw) as [(k & c' & ->)|(cs & ->)]; unfold cref; rewrite Ee; reflexivity.
  Qed.

  Definition inner_shape (n : node) : Prop :=
    match n with NShort _ _ | NFull _ => True | _ => False end.

  Lemma collapse_shape c : pwf c -> inner_shape (collapse H c).
  Proof. intros Hw. destruct (pwf_shape c Hw) as [(k & c' & ->)|(cs & ->)]; exact I. Qed.

  (* what a slot may hold *)
  Definition slotok (c : node) : Prop := c = NEmpty \/ (exists v, c = NValue v) \/ pwf c.

  Definition inj_at (c : node) : Prop :=
    forall b, pwf b -> (forall e, genuine H b e -> NS e) -> collapse H c = collapse H b -> c = b.

  Lemma cref_slot_inj c c' :
    slotok c -> slotok c' -> (pwf c -> inj_at c) ->
    (forall e, genuine H c e -> NS e) -> (forall e, genuine H c' e -> NS e) ->
    cref H c (collapse H c) = cref H c' (collapse H c') -> c = c'.
  Proof.
    intros Sc Sc' IH Nc Nc' E.
    assert (Hp : forall x, pwf x -> exists e, node_enc H x = Some e /\
              cref H x (collapse H x) = (if Nat.ltb (length e) 32 then collapse H x else NHash (H e)) /\
              inner_shape (collapse H x)).
    { intros x Hx. destruct (pwf_enc_total H H_len x Hx) as [e Ee]. exists e.
      split; [exact Ee|]. split; [apply cref_pwf; assumption|apply collapse_shape; assumption]. }
    destruct Sc as [->|[[v ->]|Hc]]; destruct Sc' as [->|[[v' ->]|Hc']]; cbn [cref] in E; try congruence.
    - destruct (Hp _ Hc') as (e & _ & R & S). rewrite R in E.
      destruct (Nat.ltb (length e) 32); [rewrite <- E in S; destruct S|discriminate].
    - destruct (Hp _ Hc') as (e & _ & R & S). rewrite R in E.
      destruct (Nat.ltb (length e) 32); [rewrite <- E in S; destruct S|discriminate].
    - destruct (Hp _ Hc) as (e & _ & R & S). rewrite R in E.
      destruct (Nat.ltb (length e) 32); [rewrite E in S; destruct S|discriminate].
    - destruct (Hp _ Hc) as (e & _ & R & S). rewrite R in E.
      destruct (Nat.ltb (length e) 32); [rewrite E in S; destruct S|discriminate].
    - destruct (Hp _ Hc) as (e & Ee & R & S). destruct (Hp _ Hc') as (e' & Ee' & R' & S').
      rewrite R, R' in E.
      destruct (Nat.ltb (length e) 32); destruct (Nat.ltb (length e') 32).
      + apply (IH Hc c' Hc' Nc' E).
      + rewrite E in S. destruct S.
      + rewrite <- E in S'. destruct S'.
      + inversion E as [E1].
        assert (e = e').
        { apply H_inj; [apply Nc; apply genuine_self; exact Ee|apply Nc'; apply genuine_self; exact Ee'|exact E1]. }
        subst e'. apply (IH Hc c' Hc' Nc').
        pose proof (decode_enc H H_len c e Hc Ee) as D1.
        pose proof (decode_enc H H_len c' e Hc' Ee') as D2.
        rewrite D1 in D2. inversion D2. reflexivity.
  Qed.

  Lemma collapse_inj a : pwf a -> (forall e, genuine H a e -> NS e) -> inj_at a.
  Proof.
    induction a as [| |k c IH|cs IH|] using node_ind'; intros Ha Na b Hb Nb E; try solve [inversion Ha].
    - (* short *)
      destruct (pwf_shape b Hb) as [(k' & c' & ->)|(cs' & ->)]; [|discriminate].
      cbn [collapse] in E. inversion E as [[Ek Ec]]. subst k'. f_equal.
      apply cref_slot_inj; try assumption.
      + inversion Ha; subst; [right; left; eauto|right; right; assumption].
      + inversion Hb; subst; [right; left; eauto|right; right; assumption].
      + intros Hc. apply IH; [exact Hc|]. intros e Ge. apply Na. apply genuine_short. exact Ge.
      + intros e Ge. apply Na. apply genuine_short. exact Ge.
      + intros e Ge. apply Nb. apply genuine_short. exact Ge.
    - (* branch *)
      destruct (pwf_shape b Hb) as [(k' & c' & ->)|(cs' & ->)]; [discriminate|].
      cbn [collapse] in E. inversion E as [Em]. f_equal.
      inversion Ha as [| |? La Ca Va]; subst. inversion Hb as [| |? Lb Cb Vb]; subst.
      apply nth_error_ext. intros i.
      assert (Ei : nth_error (map (fun c => cref H c (collapse H c)) cs) i =
                   nth_error (map (fun c => cref H c (collapse H c)) cs') i) by (rewrite Em; reflexivity).
      rewrite !nth_error_map in Ei.
      destruct (nth_error cs i) as [c|] eqn:Ci; destruct (nth_error cs' i) as [c'|] eqn:Ci'; try discriminate; [|reflexivity].
      cbn [option_map] in Ei. inversion Ei as [Ec]. f_equal.
      assert (Hi : (i < 17)%nat) by (rewrite <- La; apply nth_error_Some; congruence).
      assert (Sc : slotok c).
      { destruct (Nat.eq_dec i 16) as [->|Hne].
        - destruct (Va c Ci) as [->|(v & -> & _)]; [left; reflexivity|right; left; eauto].
        - destruct (Ca i c Ci ltac:(lia)) as [->|Hc]; [left; reflexivity|right; right; assumption]. }
      assert (Sc' : slotok c').
      { destruct (Nat.eq_dec i 16) as [->|Hne].
        - destruct (Vb c' Ci') as [->|(v & -> & _)]; [left; reflexivity|right; left; eauto].
        - destruct (Cb i c' Ci' ltac:(lia)) as [->|Hc]; [left; reflexivity|right; right; assumption]. }
      apply cref_slot_inj; try assumption.
      + intros Hc. rewrite Forall_forall in IH. apply (IH c (nth_error_In _ _ Ci) Hc).
        intros e Ge. apply Na. eapply genuine_full; eassumption.
      + intros e Ge. apply Na. eapply genuine_full; eassumption.
      + intros e Ge. apply Nb. eapply genuine_full; eassumption.
  Qed.

  (* the root hash determines the trie *)
  Theorem hash_root_inj a b r :
    (a = NEmpty \/ pwf a) -> (b = NEmpty \/ pwf b) -> NS empty_root_preimage ->
    (forall e, genuine H a e -> NS e) -> (forall e, genuine H b e -> NS e) ->
    hash_root H a = Some r -> hash_root H b = Some r -> a = b.
  Proof.
    intros Ha Hb N0 Na Nb Ra Rb.
    assert (Hne : forall x e, pwf x -> node_enc H x = Some e -> e <> empty_root_preimage).
    { intros x e Hx Ee Eq. subst e. pose proof (decode_enc H H_len x _ Hx Ee) as D.
      vm_compute in D. discriminate. }
    destruct Ha as [->|Ha]; destruct Hb as [->|Hb].
    - reflexivity.
    - destruct (pwf_enc_total H H_len b Hb) as [e Ee].
      rewrite (pwf_hash_root H b e Hb Ee) in Rb. simpl in Ra. rewrite <- Rb in Ra. inversion Ra as [E].
      apply H_inj in E; [|exact N0|apply Nb; apply genuine_self; exact Ee].
      exfalso. apply (Hne b e Hb Ee). congruence.
    - destruct (pwf_enc_total H H_len a Ha) as [e Ee].
      rewrite (pwf_hash_root H a e Ha Ee) in Ra. simpl in Rb. rewrite <- Ra in Rb. inversion Rb as [E].
      apply H_inj in E; [|exact N0|apply Na; apply genuine_self; exact Ee].
      exfalso. apply (Hne a e Ha Ee). congruence.
    - destruct (pwf_enc_total H H_len a Ha) as [ea Ea]. destruct (pwf_enc_total H H_len b Hb) as [eb Eb].
      rewrite (pwf_hash_root H a ea Ha Ea) in Ra. rewrite (pwf_hash_root H b eb Hb Eb) in Rb.
      rewrite <- Rb in Ra. inversion Ra as [E].
      apply H_inj in E; [|apply Na; apply genuine_self; exact Ea|apply Nb; apply genuine_self; exact Eb].
      subst eb. apply (collapse_inj a Ha Na b Hb Nb).
      pose proof (decode_enc H H_len a ea Ha Ea) as D1. pose proof (decode_enc H H_len b ea Hb Eb) as D2.
      rewrite D1 in D2. inversion D2. reflexivity.
  Qed.
End Inj.

(* ------------------------------------------------------------------ the no-proof branch *)

Lemma combine_fst {A B} (l : list A) : forall (l' : list B), length l = length l' -> map fst (combine l l') = l.
Proof. induction l as [|x l IH]; intros [|y l'] E; try discriminate; [reflexivity|]. simpl. f_equal. apply IH. simpl in E. lia. Qed.
Lemma combine_snd {A B} (l : list A) : forall (l' : list B), length l = length l' -> map snd (combine l l') = l'.
Proof. induction l as [|x l IH]; intros [|y l'] E; try discriminate; [reflexivity|]. simpl. f_equal. apply IH. simpl in E. lia. Qed.

Lemma asc_of_sorted Lb keys : forall values prev,
  length keys = length values -> (0 < Lb)%nat ->
  length prev = Lb -> forallb byteb prev = true ->
  Forall (fun k => length k = Lb /\ forallb byteb k = true) keys ->
  sorted_from prev keys -> asc (nibbles_of prev) (combine keys values).
Proof.
  induction keys as [|k kr IH]; intros [|v vr] prev E HL Hp Hb HF Hs; try discriminate; [exact I|].
  inversion HF as [|? ? [Hk Hkb] HF']; subst. destruct Hs as [Hlt Hs]. simpl. split.
  - apply slice_lt_nibbles; auto.
  - apply IH; auto.
Qed.

Lemma asc_nil_of_sorted Lb keys values :
  length keys = length values -> (0 < Lb)%nat ->
  Forall (fun k => length k = Lb /\ forallb byteb k = true) keys ->
  sorted keys -> asc [] (combine keys values).
Proof.
  intros E HL HF Hs. destruct keys as [|k kr]; [exact I|]. destruct values as [|v vr]; [discriminate|].
  inversion HF as [|? ? [Hk Hkb] HF']; subst. simpl. split.
  - destruct k as [|b k]; [simpl in HL; lia|reflexivity].
  - eapply asc_of_sorted; eauto.
Qed.

Lemma apply_ops_some ops : forall m k v, apply_ops m ops k = Some v ->
  m k = Some v \/ (In (k, v) ops /\ v <> []).
Proof.
  induction ops as [|[k0 v0] ops IH]; intros m k v E; [left; exact E|].
  simpl in E. destruct (IH _ _ _ E) as [P|[P Q]].
  - unfold put in P. destruct (bytes_eqb k k0) eqn:B; [|left; exact P].
    apply bytes_eqb_eq in B. subst k0. right. destruct v0; [discriminate|]. simpl in P. inversion P; subst.
    split; [left; reflexivity|discriminate].
  - right. split; [right; exact P|exact Q].
Qed.

Section NoProof.
  Variable H : list N -> list N.
  Hypothesis H_len : forall x, length (H x) = 32%nat.
  Variable NS : list N -> Prop.
  Hypothesis H_inj : H_inj_on H NS.

  Lemma stack_feed_of_st_feed : forall kvs s s',
    st_feed H s kvs = Some s' -> Forall (fun kv => fst kv <> []) kvs ->
    stack_feed H s (map fst kvs) (map snd kvs) = TOk s'.
  Proof.
    induction kvs as [|[k v] kvs IH]; intros s s' E HF; [simpl in E; inversion E; reflexivity|].
    inversion HF as [|? ? Hk HF']; subst. simpl in Hk. cbn [st_feed] in E. cbn [map fst snd stack_feed].
    destruct k as [|b k]; [congruence|].
    destruct (st_update H s (b :: k) v) as [[c|s1]|e]; try discriminate.
    apply IH; assumption.
  Qed.

  (* the run (keys, values) as the map it denotes, on hex keys *)
  Definition run_map (keys values : list (list N)) : list N -> option (list N) :=
    apply_ops (fun _ => None) (hexops (combine keys values)).

  Lemma never_more_noproof r first keys values :
    verify_range_proof H r first keys values None <> Rok true.
  Proof.
    unfold verify_range_proof. destruct (negb _); [discriminate|]. destruct (check_run _ _); [discriminate|].
    destruct (stack_feed _ _ _ _); [|discriminate]. destruct (st_root _ _); [|discriminate].
    destruct (bytes_eqb _ _); discriminate.
  Qed.

  (* what both directions share: the stack trie accepts the run and its root is the
     root of the canonical trie [t'] holding exactly the run *)
  Lemma noproof_core keys values Lb :
    length keys = length values -> (0 < Lb)%nat -> N.of_nat Lb < 2 ^ 30 ->
    Forall (fun k => length k = Lb /\ forallb byteb k = true) keys ->
    Forall small values -> sorted keys -> Forall (fun v => v <> []) values ->
    exists s t' ev h,
      stack_feed H stack_new keys values = TOk s /\ st_root H s = TOk h /\
      update_seq no_resolve NEmpty (combine keys values) = TOk (t', ev) /\
      hash_root H t' = Some h /\ canon t' /\ (t' = NEmpty \/ pwf t') /\
      forall hk, lk t' hk = run_map keys values hk.
  Proof.
    intros E HL HLs HF HV Hs Hne.
    set (kvs := combine keys values).
    assert (Hfst : map fst kvs = keys) by (apply combine_fst; exact E).
    assert (Hsnd : map snd kvs = values) by (apply combine_snd; exact E).
    assert (HB : bytes_ops kvs).
    { unfold bytes_ops. apply Forall_forall. intros [k v] Hin. simpl.
      assert (In k keys) by (rewrite <- Hfst; apply (in_map fst _ _ Hin)).
      rewrite Forall_forall in HF. destruct (HF k ltac:(assumption)) as [_ Hb]. exact Hb. }
    assert (HF2 : Forall (fun kv => snd kv <> [] /\ length (fst kv) = Lb) kvs).
    { apply Forall_forall. intros [k v] Hin. simpl.
      assert (In k keys) by (rewrite <- Hfst; apply (in_map fst _ _ Hin)).
      assert (In v values) by (rewrite <- Hsnd; apply (in_map snd _ _ Hin)).
      rewrite Forall_forall in HF, Hne. split; [apply Hne; assumption|apply HF; assumption]. }
    assert (Hasc : asc [] kvs) by (eapply asc_nil_of_sorted; eauto).
    destruct (stack_trie_root H H_len no_resolve kvs Lb HB HF2 Hasc) as (s & t' & ev & h & F1 & F2 & F3 & F4).
    destruct (update_seq_spec no_resolve kvs HB NEmpty (fun _ => None) (or_introl eq_refl) (fun hk => lk_empty hk))
      as (t2 & ev2 & G1 & G2 & G3).
    rewrite F2 in G1. inversion G1; subst t2 ev2.
    exists s, t', ev, h. split.
    { rewrite <- Hfst at 1. rewrite <- Hsnd. apply stack_feed_of_st_feed; [exact F1|].
      apply Forall_forall. intros [k v] Hin. simpl. rewrite Forall_forall in HF2.
      destruct (HF2 _ Hin) as [_ Hk]. simpl in Hk. intros ->. simpl in Hk. lia. }
    split; [exact F3|]. split; [exact F2|]. split; [exact F4|]. split; [exact G2|]. split; [|exact G3].
    destruct G2 as [->|Hcan]; [left; reflexivity|right]. apply can_pwf; [exact Hcan|].
    intros hk v L. rewrite G3 in L. apply apply_ops_some in L. destruct L as [L|[Hin Hv]]; [discriminate|].
    unfold hexops in Hin. apply in_map_iff in Hin. destruct Hin as ([k v0] & Eq & Hin). simpl in Eq. inversion Eq; subst hk v0.
    assert (Hk : In k keys) by (rewrite <- Hfst; apply (in_map fst _ _ Hin)).
    assert (Hvv : In v values) by (rewrite <- Hsnd; apply (in_map snd _ _ Hin)).
    rewrite Forall_forall in HF, HV. split; [split; [exact Hv|apply HV; exact Hvv]|].
    destruct (HF k Hk) as [Hlen _]. unfold small, lenN, keybytes_to_hex.
    rewrite app_length, nibbles_of_length, Hlen. simpl. lia.
  Qed.

  (* range_noproof_exact: without edge proofs the verifier accepts exactly the runs that
     are the WHOLE content of the trie (and never reports more entries) *)
  Theorem range_noproof_exact t r first keys values Lb :
    canon t -> content_ok t -> hash_root H t = Some r ->
    (0 < Lb)%nat -> N.of_nat Lb < 2 ^ 30 ->
    Forall (fun k => length k = Lb /\ forallb byteb k = true) keys -> Forall small values ->
    NS empty_root_preimage -> (forall e, genuine H t e -> NS e) ->
    (forall t' ev, update_seq no_resolve NEmpty (combine keys values) = TOk (t', ev) ->
                   forall e, genuine H t' e -> NS e) ->
    (verify_range_proof H r first keys values None = Rok false <->
     length keys = length values /\ sorted keys /\ Forall (fun v => v <> []) values /\
     forall hk, lk t hk = run_map keys values hk).
  Proof.
    intros Hc Hok Hr HL HLs HF HV N0 Nt Nt'.
    assert (HFl : Forall (fun k => length k = Lb) keys) by (eapply Forall_impl; [|exact HF]; intros k [? _]; assumption).
    assert (Hpt : t = NEmpty \/ pwf t) by (destruct Hc as [->|Hcan]; [left; reflexivity|right; apply can_pwf; assumption]).
    split.
    - intros A. unfold verify_range_proof in A.
      destruct (Nat.eqb (length keys) (length values)) eqn:E; [|discriminate]. apply Nat.eqb_eq in E. cbn [negb] in A.
      destruct (check_run keys values) eqn:C; [discriminate|].
      apply (check_run_spec Lb keys values HFl E) in C. destruct C as [Hs Hne].
      destruct (noproof_core keys values Lb E HL HLs HF HV Hs Hne) as (s & t' & ev & h & F1 & F2 & F3 & F4 & F5 & F6 & F7).
      rewrite F1, F2 in A. destruct (bytes_eqb h r) eqn:B; [|discriminate]. apply bytes_eqb_eq in B. subst h.
      assert (t' = t).
      { apply (hash_root_inj H H_len NS H_inj t' t r); auto. intros e Ge. eapply Nt'; eauto. }
      subst t'. repeat split; auto.
    - intros (E & Hs & Hne & Hl).
      destruct (noproof_core keys values Lb E HL HLs HF HV Hs Hne) as (s & t' & ev & h & F1 & F2 & F3 & F4 & F5 & F6 & F7).
      assert (t' = t).
      { apply canon_unique; [exact F5|exact Hc|]. intros k _. rewrite F7, Hl. reflexivity. }
      subst t'. rewrite Hr in F4. inversion F4; subst h.
      unfold verify_range_proof. rewrite E, Nat.eqb_refl. cbn [negb].
      destruct (check_run keys values) eqn:C.
      + exfalso. assert (check_run keys values = None) by (apply (check_run_spec Lb keys values HFl E); auto). congruence.
      + rewrite F1, F2, bytes_eqb_refl. reflexivity.
  Qed.
End NoProof.

(* ------------------------------------------------------------------ witnesses outside the guard
   "non-empty keys of one fixed length" (all three reproduced on the real code) *)

(* F1: an empty key in the no-proof branch: StackTrie.Update -> writeHexKey panics *)
Lemma noproof_empty_key_panics H r first :
  verify_range_proof H r first [[]] [[1]] None = Rerr RPanic.
Proof. reflexivity. Qed.

Definition run_trie (ops : list (list N * list N)) : node :=
  match update_seq no_resolve NEmpty ops with TOk (t, _) => t | TErr _ => NEmpty end.
Definition proof_nodes (t : node) (k : list N) : pdb :=
  match prove toy_hash no_resolve t k with TOk db => db | TErr _ => [] end.
Definition honest_proof (t : node) (first last : list N) : pdb := proof_nodes t first ++ proof_nodes t last.
Definition toy_root (t : node) : list N := match hash_root toy_hash t with Some r => r | None => [] end.

(* F2: the trie {01, 0102, 02}: 01 is a proper prefix of 0102 *)
Definition w2_ops : list (list N * list N) := [([1], [170]); ([1; 2], [187]); ([2], [204])].
Definition w2_t : node := Eval vm_compute in run_trie w2_ops.
(* F3: the trie {11, 1110, 111000, 20} *)
Definition w3_ops : list (list N * list N) := [([17], [170]); ([17; 16], [187]); ([17; 16; 0], [204]); ([32], [221])].
Definition w3_t : node := Eval vm_compute in run_trie w3_ops.

Lemma prefix_key_unset_panics :
  (exists ev, update_seq no_resolve NEmpty w2_ops = TOk (w2_t, ev)) /\
  verify_range_proof toy_hash (toy_root w2_t) [1] [[1]; [2]] [[170]; [204]]
    (Some (honest_proof w2_t [1] [2])) = Rerr RPanic.
Proof. split; [eexists|]; vm_compute; reflexivity. Qed.

Lemma prefix_key_omission_accepted :
  (exists ev, update_seq no_resolve NEmpty w3_ops = TOk (w3_t, ev)) /\
  lk w3_t (keybytes_to_hex [17; 16]) = Some [187] /\
  slice_lt [17; 15; 255] [17; 16] = true /\ slice_lt [17; 16] [17; 16; 0] = true /\
  verify_range_proof toy_hash (toy_root w3_t) [17; 15; 255] [[17; 16; 0]] [[204]]
    (Some (honest_proof w3_t [17; 15; 255] [17; 16; 0])) = Rok true.
Proof.
  split; [eexists; vm_compute; reflexivity|]. split; [vm_compute; reflexivity|].
  split; [reflexivity|]. split; [reflexivity|]. vm_compute. reflexivity.
Qed.

(* ------------------------------------------------------------------ a concrete non-trivial instance *)

Definition ex9_ops : list (list N * list N) :=
  [([1], repeat 7 33); ([16], [5; 6]); ([17], repeat 9 40); ([18], [1]); ([240], [2; 3])].
Definition ex9_t : node := Eval vm_compute in run_trie ex9_ops.

Definition rr_eqb (a b : rr bool) : bool :=
  match a, b with
  | Rok x, Rok y => Bool.eqb x y
  | Rerr RRoot, Rerr RRoot | Rerr RMore, Rerr RMore | Rerr RMissing, Rerr RMissing => true
  | _, _ => false
  end.

(* a toy hash that separates different inputs well enough for the examples: the bytes read
   as the coefficients of a polynomial evaluated at 257 modulo 2^255 - 19, 32 bytes big endian
   (Proof.toy_hash is a prefix and collides on encodings sharing their first 32 bytes) *)
Fixpoint to_bytes (n : nat) (v : N) : list N :=
  match n with
  | O => []
  | S n' => to_bytes n' (v / 256) ++ [v mod 256]
  end.
Lemma to_bytes_length n : forall v, length (to_bytes n v) = n.
Proof. induction n as [|n IH]; intros v; [reflexivity|]. simpl. rewrite app_length, IH. simpl. lia. Qed.
Definition poly_mod : N := 2 ^ 255 - 19.
Definition poly_hash (x : list N) : list N :=
  to_bytes 32 (fold_left (fun a b => (a * 257 + b + 1) mod poly_mod) x (N.of_nat (length x))).
Lemma poly_hash_len x : length (poly_hash x) = 32%nat.
Proof. apply to_bytes_length. Qed.

Definition pproof_nodes (t : node) (k : list N) : pdb :=
  match prove poly_hash no_resolve t k with TOk db => db | TErr _ => [] end.
Definition phonest (t : node) (first last : list N) : pdb := pproof_nodes t first ++ pproof_nodes t last.
Definition poly_root (t : node) : list N := match hash_root poly_hash t with Some r => r | None => [] end.

(* whole trie without proof; an honest run 10..11 from the absent start key 02 (more);
   the same run with 11 dropped (rejected); the honest tail 12..f0 (no more); an honest
   empty run after the last key; an empty run claimed before the last key (rejected);
   a single-element run *)
Definition ex9_checkp : bool :=
  let r := poly_root ex9_t in
  let v k := match lk ex9_t (keybytes_to_hex [k]) with Some v => v | None => [] end in
  rr_eqb (verify_range_proof poly_hash r [] [[1]; [16]; [17]; [18]; [240]] [v 1; v 16; v 17; v 18; v 240] None) (Rok false) &&
  rr_eqb (verify_range_proof poly_hash r [] [[1]; [16]; [17]; [240]] [v 1; v 16; v 17; v 240] None) (Rerr RRoot) &&
  rr_eqb (verify_range_proof poly_hash r [2] [[16]; [17]] [v 16; v 17] (Some (phonest ex9_t [2] [17]))) (Rok true) &&
  rr_eqb (verify_range_proof poly_hash r [2] [[16]] [v 16] (Some (phonest ex9_t [2] [17]))) (Rok true) &&
  rr_eqb (verify_range_proof poly_hash r [2] [[17]] [v 17] (Some (phonest ex9_t [2] [17]))) (Rerr RRoot) &&
  rr_eqb (verify_range_proof poly_hash r [1] [[1]; [17]] [v 1; v 17] (Some (phonest ex9_t [1] [17]))) (Rerr RRoot) &&
  rr_eqb (verify_range_proof poly_hash r [18] [[18]; [240]] [v 18; v 240] (Some (phonest ex9_t [18] [240]))) (Rok false) &&
  rr_eqb (verify_range_proof poly_hash r [241] [] [] (Some (pproof_nodes ex9_t [241]))) (Rok false) &&
  rr_eqb (verify_range_proof poly_hash r [200] [] [] (Some (pproof_nodes ex9_t [200]))) (Rerr RMore) &&
  rr_eqb (verify_range_proof poly_hash r [17] [[17]] [v 17] (Some (pproof_nodes ex9_t [17]))) (Rok true) &&
  pwfb ex9_t && inj_onb poly_hash ([128] :: encs_of poly_hash ex9_t).

Lemma ex9_checkp_ok : ex9_checkp = true.
Proof. vm_compute. reflexivity. Qed.
