(* Trie/RangeProofs.v — lemmas about Trie/Range.v (C09):
     collapse_inj / hash_root_inj   Merkle injectivity: under collision freedom the root
                                    hash determines a well-formed trie
     range_noproof_exact            the no-proof branch accepts exactly the whole trie content
     (further parts below)
   The hash function is a Section variable with named hypotheses. *)
From GV Require Import Lib.Tactics Lib.Bytes Trie.Hex Trie.HexProofs Trie.Node Trie.Ops Trie.Hash Trie.OpsProofs Trie.Canon.
From GV Require Import Trie.Stack Trie.StackProofs Trie.Proof Trie.ProofProofs Trie.Range.
Local Open Scope N_scope.

(* ------------------------------------------------------------------ byte order, nibble order *)

Lemma slice_lt_irrefl a : slice_lt a a = false.
Proof. induction a as [|x a IH]; [reflexivity|]. simpl. rewrite N.ltb_irrefl, N.eqb_refl. exact IH. Qed.

Lemma slice_lt_nibbles a : forall b, forallb byteb a = true -> forallb byteb b = true ->
  length a = length b -> slice_lt a b = true -> slice_lt (nibbles_of a) (nibbles_of b) = true.
Proof.
  induction a as [|x a IH]; intros [|y b] Ha Hb Hl Hlt; try discriminate.
  simpl in Ha, Hb. apply andb_true_iff in Ha. apply andb_true_iff in Hb.
  destruct Ha as [Hx Ha]. destruct Hb as [Hy Hb]. unfold byteb in Hx, Hy.
  simpl in Hlt. cbn [nibbles_of slice_lt].
  destruct (x <? y) eqn:L.
  - destruct (x / 16 <? y / 16) eqn:L1; [reflexivity|].
    destruct (x / 16 =? y / 16) eqn:E1; [|lia].
    destruct (x mod 16 <? y mod 16) eqn:L2; [reflexivity|]. lia.
  - destruct (x =? y) eqn:E; [|discriminate]. apply N.eqb_eq in E. subst y.
    rewrite !N.ltb_irrefl, !N.eqb_refl. apply IH; auto.
Qed.

Lemma is_prefix_same_len p l : length p = length l -> is_prefix_of p l = true -> p = l.
Proof.
  intros Hl Hp. unfold is_prefix_of in Hp. apply andb_true_iff in Hp. destruct Hp as [Hp _].
  rewrite Hl, firstn_all in Hp. apply bytes_eqb_eq. exact Hp.
Qed.

(* ------------------------------------------------------------------ the checks on the batch *)

Fixpoint sorted_from (prev : list N) (keys : list (list N)) : Prop :=
  match keys with
  | [] => True
  | k :: r => slice_lt prev k = true /\ sorted_from k r
  end.
(* strictly increasing in bytes.Compare order *)
Definition sorted (keys : list (list N)) : Prop :=
  match keys with [] => True | k :: r => sorted_from k r end.

Lemma check_run_spec Lb keys : forall values,
  Forall (fun k => length k = Lb) keys -> length keys = length values ->
  (check_run keys values = None <-> sorted keys /\ Forall (fun v => v <> []) values).
Proof.
  induction keys as [|k kr IH]; intros values HL Hlen.
  - destruct values; [|discriminate]. simpl. split; auto.
  - destruct values as [|v vr]; [discriminate|]. simpl in Hlen.
    inversion HL as [|? ? Hk HL']; subst.
    cbn [check_run]. destruct kr as [|k' kr'].
    + destruct vr; [|discriminate]. destruct v; simpl.
      * split; [discriminate|]. intros [_ F]. inversion F; congruence.
      * split; auto. intros _. split; [exact I|]. constructor; [discriminate|constructor].
    + inversion HL' as [|? ? Hk' _]; subst.
      specialize (IH vr HL' ltac:(lia)).
      destruct (slice_lt k k') eqn:Lt; cbn [negb].
      * destruct (is_prefix_of k k') eqn:Pf.
        { apply is_prefix_same_len in Pf; [|congruence]. subst k'. rewrite slice_lt_irrefl in Lt. discriminate. }
        destruct v as [|b v].
        { split; [discriminate|]. intros [_ F]. inversion F; congruence. }
        rewrite IH. simpl. split.
        -- intros [Sd F]. split; [split; [exact Lt|exact Sd]|]. constructor; [discriminate|exact F].
        -- intros [[_ Sd] F]. inversion F; subst. split; assumption.
      * split; [discriminate|]. intros [[C _] _]. simpl in C. congruence.
Qed.

(* ------------------------------------------------------------------ canonical + good contents = pwf *)

(* every stored value is non-empty and small, every stored key small *)
Definition content_ok (n : node) : Prop :=
  forall k v, lk n k = Some v -> val_ok v /\ small k.

Lemma small_app_r (a b : list N) : small (a ++ b) -> small b.
Proof. unfold small, lenN. rewrite app_length. lia. Qed.
Lemma small_app_l (a b : list N) : small (a ++ b) -> small a.
Proof. unfold small, lenN. rewrite app_length. lia. Qed.

Lemma can_pwf n : can n -> content_ok n -> pwf n.
Proof.
  induction n as [| |k c IH|cs IH|] using node_ind'; intros Hc Hok; inversion Hc; subst.
  - (* leaf *)
    destruct (Hok k v) as [Hv Hk]; [rewrite lk_leaf, bytes_eqb_refl; reflexivity|].
    apply pwf_leaf; assumption.
  - (* extension *)
    assert (Hok' : content_ok (NFull cs)).
    { intros r v L. destruct (Hok (k ++ r) v) as [Hv Hs].
      - rewrite lk_short, strip_app_same. exact L.
      - split; [exact Hv|eapply small_app_r; exact Hs]. }
    apply pwf_ext; auto.
    destruct (can_has_key _ H3) as (r & v & _ & L).
    destruct (Hok (k ++ r) v) as [_ Hs]; [rewrite lk_short, strip_app_same; exact L|].
    eapply small_app_l; exact Hs.
  - (* branch *)
    apply pwf_full; [assumption| |].
    + intros i c Hi Hlt. destruct (H1 i c Hi Hlt) as [->|Hcc]; [left; reflexivity|right].
      rewrite Forall_forall in IH. apply (IH c (nth_error_In _ _ Hi) Hcc).
      intros r v L. destruct (Hok (N.of_nat i :: r) v) as [Hv Hs].
      * rewrite lk_full, Nat2N.id, Hi. exact L.
      * split; [exact Hv|]. apply (small_app_r [N.of_nat i]). exact Hs.
    + intros c Hi. destruct (H2 c Hi) as [->|[v ->]]; [left; reflexivity|right].
      exists v. split; [reflexivity|].
      destruct (Hok [16] v) as [Hv _]; [|exact Hv].
      rewrite lk_full. change (N.to_nat 16) with 16%nat. rewrite Hi. reflexivity.
Qed.

(* ------------------------------------------------------------------ Merkle injectivity *)

Section Inj.
  Variable H : list N -> list N.
  Hypothesis H_len : forall x, length (H x) = 32%nat.
  Variable NS : list N -> Prop.
  Hypothesis H_inj : H_inj_on H NS.

  Lemma cref_pwf c e : pwf c -> node_enc H c = Some e ->
    cref H c (collapse H c) = if Nat.ltb (length e) 32 then collapse H c else NHash (H e).
  Proof.
    intros Hw Ee. destruct (pwf_shape c Hw) as [(k & c' & ->)|(cs & ->)]; unfold cref; rewrite Ee; reflexivity.
  Qed.

  Definition inner_shape (n : node) : Prop :=
    match n with NShort _ _ | NFull _ => True | _ => False end.

  Lemma collapse_shape c : pwf c -> inner_shape (collapse H c).
  Proof. intros Hw. destruct (pwf_shape c Hw) as [(k & c' & ->)|(cs & ->)]; exact I. Qed.

  (* what a slot may hold *)
  Definition slotok (c : node) : Prop := c = NEmpty \/ (exists v, c = NValue v) \/ pwf c.

  Definition inj_at (c : node) : Prop :=
    forall b, pwf b -> (forall e, genuine H b e -> NS e) -> collapse H c = collapse H b -> c = b.

  Lemma cref_slot_inj c c' :
    slotok c -> slotok c' -> (pwf c -> inj_at c) ->
    (forall e, genuine H c e -> NS e) -> (forall e, genuine H c' e -> NS e) ->
    cref H c (collapse H c) = cref H c' (collapse H c') -> c = c'.
  Proof.
    intros Sc Sc' IH Nc Nc' E.
    assert (Hp : forall x, pwf x -> exists e, node_enc H x = Some e /\
              cref H x (collapse H x) = (if Nat.ltb (length e) 32 then collapse H x else NHash (H e)) /\
              inner_shape (collapse H x)).
    { intros x Hx. destruct (pwf_enc_total H H_len x Hx) as [e Ee]. exists e.
      split; [exact Ee|]. split; [apply cref_pwf; assumption|apply collapse_shape; assumption]. }
    destruct Sc as [->|[[v ->]|Hc]]; destruct Sc' as [->|[[v' ->]|Hc']]; cbn [cref] in E; try congruence.
    - destruct (Hp _ Hc') as (e & _ & R & S). rewrite R in E.
      destruct (Nat.ltb (length e) 32); [rewrite <- E in S; destruct S|discriminate].
    - destruct (Hp _ Hc') as (e & _ & R & S). rewrite R in E.
      destruct (Nat.ltb (length e) 32); [rewrite <- E in S; destruct S|discriminate].
    - destruct (Hp _ Hc) as (e & _ & R & S). rewrite R in E.
      destruct (Nat.ltb (length e) 32); [rewrite E in S; destruct S|discriminate].
    - destruct (Hp _ Hc) as (e & _ & R & S). rewrite R in E.
      destruct (Nat.ltb (length e) 32); [rewrite E in S; destruct S|discriminate].
    - destruct (Hp _ Hc) as (e & Ee & R & S). destruct (Hp _ Hc') as (e' & Ee' & R' & S').
      rewrite R, R' in E.
      destruct (Nat.ltb (length e) 32); destruct (Nat.ltb (length e') 32).
      + apply (IH Hc c' Hc' Nc' E).
      + rewrite E in S. destruct S.
      + rewrite <- E in S'. destruct S'.
      + inversion E as [E1].
        assert (e = e').
        { apply H_inj; [apply Nc; apply genuine_self; exact Ee|apply Nc'; apply genuine_self; exact Ee'|exact E1]. }
        subst e'. apply (IH Hc c' Hc' Nc').
        pose proof (decode_enc H H_len c e Hc Ee) as D1.
        pose proof (decode_enc H H_len c' e Hc' Ee') as D2.
        rewrite D1 in D2. inversion D2. reflexivity.
  Qed.

  Lemma collapse_inj a : pwf a -> (forall e, genuine H a e -> NS e) -> inj_at a.
  Proof.
    induction a as [| |k c IH|cs IH|] using node_ind'; intros Ha Na b Hb Nb E; try solve [inversion Ha].
    - (* short *)
      destruct (pwf_shape b Hb) as [(k' & c' & ->)|(cs' & ->)]; [|discriminate].
      cbn [collapse] in E. inversion E as [[Ek Ec]]. subst k'. f_equal.
      apply cref_slot_inj; try assumption.
      + inversion Ha; subst; [right; left; eauto|right; right; assumption].
      + inversion Hb; subst; [right; left; eauto|right; right; assumption].
      + intros Hc. apply IH; [exact Hc|]. intros e Ge. apply Na. apply genuine_short. exact Ge.
      + intros e Ge. apply Na. apply genuine_short. exact Ge.
      + intros e Ge. apply Nb. apply genuine_short. exact Ge.
    - (* branch *)
      destruct (pwf_shape b Hb) as [(k' & c' & ->)|(cs' & ->)]; [discriminate|].
      cbn [collapse] in E. inversion E as [Em]. f_equal.
      inversion Ha as [| |? La Ca Va]; subst. inversion Hb as [| |? Lb Cb Vb]; subst.
      apply nth_error_ext. intros i.
      assert (Ei : nth_error (map (fun c => cref H c (collapse H c)) cs) i =
                   nth_error (map (fun c => cref H c (collapse H c)) cs') i) by (rewrite Em; reflexivity).
      rewrite !nth_error_map in Ei.
      destruct (nth_error cs i) as [c|] eqn:Ci; destruct (nth_error cs' i) as [c'|] eqn:Ci'; try discriminate; [|reflexivity].
      cbn [option_map] in Ei. inversion Ei as [Ec]. f_equal.
      assert (Hi : (i < 17)%nat) by (rewrite <- La; apply nth_error_Some; congruence).
      assert (Sc : slotok c).
      { destruct (Nat.eq_dec i 16) as [->|Hne].
        - destruct (Va c Ci) as [->|(v & -> & _)]; [left; reflexivity|right; left; eauto].
        - destruct (Ca i c Ci ltac:(lia)) as [->|Hc]; [left; reflexivity|right; right; assumption]. }
      assert (Sc' : slotok c').
      { destruct (Nat.eq_dec i 16) as [->|Hne].
        - destruct (Vb c' Ci') as [->|(v & -> & _)]; [left; reflexivity|right; left; eauto].
        - destruct (Cb i c' Ci' ltac:(lia)) as [->|Hc]; [left; reflexivity|right; right; assumption]. }
      apply cref_slot_inj; try assumption.
      + intros Hc. rewrite Forall_forall in IH. apply (IH c (nth_error_In _ _ Ci) Hc).
        intros e Ge. apply Na. eapply genuine_full; eassumption.
      + intros e Ge. apply Na. eapply genuine_full; eassumption.
      + intros e Ge. apply Nb. eapply genuine_full; eassumption.
  Qed.

  (* the root hash determines the trie *)
  Theorem hash_root_inj a b r :
    (a = NEmpty \/ pwf a) -> (b = NEmpty \/ pwf b) -> NS empty_root_preimage ->
    (forall e, genuine H a e -> NS e) -> (forall e, genuine H b e -> NS e) ->
    hash_root H a = Some r -> hash_root H b = Some r -> a = b.
  Proof.
    intros Ha Hb N0 Na Nb Ra Rb.
    assert (Hne : forall x e, pwf x -> node_enc H x = Some e -> e <> empty_root_preimage).
    { intros x e Hx Ee Eq. subst e. pose proof (decode_enc H H_len x _ Hx Ee) as D.
      vm_compute in D. discriminate. }
    destruct Ha as [->|Ha]; destruct Hb as [->|Hb].
    - reflexivity.
    - destruct (pwf_enc_total H H_len b Hb) as [e Ee].
      rewrite (pwf_hash_root H b e Hb Ee) in Rb. simpl in Ra. rewrite <- Rb in Ra. inversion Ra as [E].
      apply H_inj in E; [|exact N0|apply Nb; apply genuine_self; exact Ee].
      exfalso. apply (Hne b e Hb Ee). congruence.
    - destruct (pwf_enc_total H H_len a Ha) as [e Ee].
      rewrite (pwf_hash_root H a e Ha Ee) in Ra. simpl in Rb. rewrite <- Ra in Rb. inversion Rb as [E].
      apply H_inj in E; [|exact N0|apply Na; apply genuine_self; exact Ee].
      exfalso. apply (Hne a e Ha Ee). congruence.
    - destruct (pwf_enc_total H H_len a Ha) as [ea Ea]. destruct (pwf_enc_total H H_len b Hb) as [eb Eb].
      rewrite (pwf_hash_root H a ea Ha Ea) in Ra. rewrite (pwf_hash_root H b eb Hb Eb) in Rb.
      rewrite <- Rb in Ra. inversion Ra as [E].
      apply H_inj in E; [|apply Na; apply genuine_self; exact Ea|apply Nb; apply genuine_self; exact Eb].
      subst eb. apply (collapse_inj a Ha Na b Hb Nb).
      pose proof (decode_enc H H_len a ea Ha Ea) as D1. pose proof (decode_enc H H_len b ea Hb Eb) as D2.
      rewrite D1 in D2. inversion D2. reflexivity.
  Qed.
End Inj.

(* ------------------------------------------------------------------ the no-proof branch *)

Lemma combine_fst {A B} (l : list A) : forall (l' : list B), length l = length l' -> map fst (combine l l') = l.
Proof. induction l as [|x l IH]; intros [|y l'] E; try discriminate; [reflexivity|]. simpl. f_equal. apply IH. simpl in E. lia. Qed.
Lemma combine_snd {A B} (l : list A) : forall (l' : list B), length l = length l' -> map snd (combine l l') = l'.
Proof. induction l as [|x l IH]; intros [|y l'] E; try discriminate; [reflexivity|]. simpl. f_equal. apply IH. simpl in E. lia. Qed.

Lemma asc_of_sorted Lb keys : forall values prev,
  length keys = length values -> (0 < Lb)%nat ->
  length prev = Lb -> forallb byteb prev = true ->
  Forall (fun k => length k = Lb /\ forallb byteb k = true) keys ->
  sorted_from prev keys -> asc (nibbles_of prev) (combine keys values).
Proof.
  induction keys as [|k kr IH]; intros [|v vr] prev E HL Hp Hb HF Hs; try discriminate; [exact I|].
  inversion HF as [|? ? [Hk Hkb] HF']; subst. destruct Hs as [Hlt Hs]. simpl. split.
  - apply slice_lt_nibbles; auto.
  - apply IH; auto.
Qed.

Lemma asc_nil_of_sorted Lb keys values :
  length keys = length values -> (0 < Lb)%nat ->
  Forall (fun k => length k = Lb /\ forallb byteb k = true) keys ->
  sorted keys -> asc [] (combine keys values).
Proof.
  intros E HL HF Hs. destruct keys as [|k kr]; [exact I|]. destruct values as [|v vr]; [discriminate|].
  inversion HF as [|? ? [Hk Hkb] HF']; subst. simpl. split.
  - destruct k as [|b k]; [simpl in HL; lia|reflexivity].
  - eapply asc_of_sorted; eauto.
Qed.

Lemma apply_ops_some ops : forall m k v, apply_ops m ops k = Some v ->
  m k = Some v \/ (In (k, v) ops /\ v <> []).
Proof.
  induction ops as [|[k0 v0] ops IH]; intros m k v E; [left; exact E|].
  simpl in E. destruct (IH _ _ _ E) as [P|[P Q]].
  - unfold put in P. destruct (bytes_eqb k k0) eqn:B; [|left; exact P].
    apply bytes_eqb_eq in B. subst k0. right. destruct v0; [discriminate|]. simpl in P. inversion P; subst.
    split; [left; reflexivity|discriminate].
  - right. split; [right; exact P|exact Q].
Qed.

Section NoProof.
  Variable H : list N -> list N.
  Hypothesis H_len : forall x, length (H x) = 32%nat.
  Variable NS : list N -> Prop.
  Hypothesis H_inj : H_inj_on H NS.

  Lemma stack_feed_of_st_feed : forall kvs s s',
    st_feed H s kvs = Some s' -> Forall (fun kv => fst kv <> []) kvs ->
    stack_feed H s (map fst kvs) (map snd kvs) = TOk s'.
  Proof.
    induction kvs as [|[k v] kvs IH]; intros s s' E HF; [simpl in E; inversion E; reflexivity|].
    inversion HF as [|? ? Hk HF']; subst. simpl in Hk. cbn [st_feed] in E. cbn [map fst snd stack_feed].
    destruct k as [|b k]; [congruence|].
    destruct (st_update H s (b :: k) v) as [[c|s1]|e]; try discriminate.
    apply IH; assumption.
  Qed.

  (* the run (keys, values) as the map it denotes, on hex keys *)
  Definition run_map (keys values : list (list N)) : list N -> option (list N) :=
    apply_ops (fun _ => None) (hexops (combine keys values)).

  Lemma never_more_noproof r first keys values :
    verify_range_proof H r first keys values None <> Rok true.
  Proof.
    unfold verify_range_proof. destruct (negb _); [discriminate|]. destruct (check_run _ _); [discriminate|].
    destruct (stack_feed _ _ _ _); [|discriminate]. destruct (st_root _ _); [|discriminate].
    destruct (bytes_eqb _ _); discriminate.
  Qed.

  (* what both directions share: the stack trie accepts the run and its root is the
     root of the canonical trie [t'] holding exactly the run *)
  Lemma noproof_core keys values Lb :
    length keys = length values -> (0 < Lb)%nat -> N.of_nat Lb < 2 ^ 30 ->
    Forall (fun k => length k = Lb /\ forallb byteb k = true) keys ->
    Forall small values -> sorted keys -> Forall (fun v => v <> []) values ->
    exists s t' ev h,
      stack_feed H stack_new keys values = TOk s /\ st_root H s = TOk h /\
      update_seq no_resolve NEmpty (combine keys values) = TOk (t', ev) /\
      hash_root H t' = Some h /\ canon t' /\ (t' = NEmpty \/ pwf t') /\
      forall hk, lk t' hk = run_map keys values hk.
  Proof.
    intros E HL HLs HF HV Hs Hne.
    set (kvs := combine keys values).
    assert (Hfst : map fst kvs = keys) by (apply combine_fst; exact E).
    assert (Hsnd : map snd kvs = values) by (apply combine_snd; exact E).
    assert (HB : bytes_ops kvs).
    { unfold bytes_ops. apply Forall_forall. intros [k v] Hin. simpl.
      assert (In k keys) by (rewrite <- Hfst; apply (in_map fst _ _ Hin)).
      rewrite Forall_forall in HF. destruct (HF k ltac:(assumption)) as [_ Hb]. exact Hb. }
    assert (HF2 : Forall (fun kv => snd kv <> [] /\ length (fst kv) = Lb) kvs).
    { apply Forall_forall. intros [k v] Hin. simpl.
      assert (In k keys) by (rewrite <- Hfst; apply (in_map fst _ _ Hin)).
      assert (In v values) by (rewrite <- Hsnd; apply (in_map snd _ _ Hin)).
      rewrite Forall_forall in HF, Hne. split; [apply Hne; assumption|apply HF; assumption]. }
    assert (Hasc : asc [] kvs) by (eapply asc_nil_of_sorted; eauto).
    destruct (stack_trie_root H H_len no_resolve kvs Lb HB HF2 Hasc) as (s & t' & ev & h & F1 & F2 & F3 & F4).
    destruct (update_seq_spec no_resolve kvs HB NEmpty (fun _ => None) (or_introl eq_refl) (fun hk => lk_empty hk))
      as (t2 & ev2 & G1 & G2 & G3).
    rewrite F2 in G1. inversion G1; subst t2 ev2.
    exists s, t', ev, h. split.
    { rewrite <- Hfst at 1. rewrite <- Hsnd. apply stack_feed_of_st_feed; [exact F1|].
      apply Forall_forall. intros [k v] Hin. simpl. rewrite Forall_forall in HF2.
      destruct (HF2 _ Hin) as [_ Hk]. simpl in Hk. intros ->. simpl in Hk. lia. }
    split; [exact F3|]. split; [exact F2|]. split; [exact F4|]. split; [exact G2|]. split; [|exact G3].
    destruct G2 as [->|Hcan]; [left; reflexivity|right]. apply can_pwf; [exact Hcan|].
    intros hk v L. rewrite G3 in L. apply apply_ops_some in L. destruct L as [L|[Hin Hv]]; [discriminate|].
    unfold hexops in Hin. apply in_map_iff in Hin. destruct Hin as ([k v0] & Eq & Hin). simpl in Eq. inversion Eq; subst hk v0.
    assert (Hk : In k keys) by (rewrite <- Hfst; apply (in_map fst _ _ Hin)).
    assert (Hvv : In v values) by (rewrite <- Hsnd; apply (in_map snd _ _ Hin)).
    rewrite Forall_forall in HF, HV. split; [split; [exact Hv|apply HV; exact Hvv]|].
    destruct (HF k Hk) as [Hlen _]. unfold small, lenN, keybytes_to_hex.
    rewrite app_length, nibbles_of_length, Hlen. simpl. lia.
  Qed.

  (* range_noproof_exact: without edge proofs the verifier accepts exactly the runs that
     are the WHOLE content of the trie (and never reports more entries) *)
  Theorem range_noproof_exact t r first keys values Lb :
    canon t -> content_ok t -> hash_root H t = Some r ->
    (0 < Lb)%nat -> N.of_nat Lb < 2 ^ 30 ->
    Forall (fun k => length k = Lb /\ forallb byteb k = true) keys -> Forall small values ->
    NS empty_root_preimage -> (forall e, genuine H t e -> NS e) ->
    (forall t' ev, update_seq no_resolve NEmpty (combine keys values) = TOk (t', ev) ->
                   forall e, genuine H t' e -> NS e) ->
    (verify_range_proof H r first keys values None = Rok false <->
     length keys = length values /\ sorted keys /\ Forall (fun v => v <> []) values /\
     forall hk, lk t hk = run_map keys values hk).
  Proof.
    intros Hc Hok Hr HL HLs HF HV N0 Nt Nt'.
    assert (HFl : Forall (fun k => length k = Lb) keys) by (eapply Forall_impl; [|exact HF]; intros k [? _]; assumption).
    assert (Hpt : t = NEmpty \/ pwf t) by (destruct Hc as [->|Hcan]; [left; reflexivity|right; apply can_pwf; assumption]).
    split.
    - intros A. unfold verify_range_proof in A.
      destruct (Nat.eqb (length keys) (length values)) eqn:E; [|discriminate]. apply Nat.eqb_eq in E. cbn [negb] in A.
      destruct (check_run keys values) eqn:C; [discriminate|].
      apply (check_run_spec Lb keys values HFl E) in C. destruct C as [Hs Hne].
      destruct (noproof_core keys values Lb E HL HLs HF HV Hs Hne) as (s & t' & ev & h & F1 & F2 & F3 & F4 & F5 & F6 & F7).
      rewrite F1, F2 in A. destruct (bytes_eqb h r) eqn:B; [|discriminate]. apply bytes_eqb_eq in B. subst h.
      assert (t' = t).
      { apply (hash_root_inj H H_len NS H_inj t' t r); auto. intros e Ge. eapply Nt'; eauto. }
      subst t'. repeat split; auto.
    - intros (E & Hs & Hne & Hl).
      destruct (noproof_core keys values Lb E HL HLs HF HV Hs Hne) as (s & t' & ev & h & F1 & F2 & F3 & F4 & F5 & F6 & F7).
      assert (t' = t).
      { apply canon_unique; [exact F5|exact Hc|]. intros k _. rewrite F7, Hl. reflexivity. }
      subst t'. rewrite Hr in F4. inversion F4; subst h.
      unfold verify_range_proof. rewrite E, Nat.eqb_refl. cbn [negb].
      destruct (check_run keys values) eqn:C.
      + exfalso. assert (check_run keys values = None) by (apply (check_run_spec Lb keys values HFl E); auto). congruence.
      + rewrite F1, F2, bytes_eqb_refl. reflexivity.
  Qed.
End NoProof.

(* ------------------------------------------------------------------ witnesses outside the guard
   "non-empty keys of one fixed length" (all three reproduced on the real code) *)

(* F1: an empty key in the no-proof branch: StackTrie.Update -> writeHexKey panics *)
Lemma noproof_empty_key_panics H r first :
  verify_range_proof H r first [[]] [[1]] None = Rerr RPanic.
Proof. reflexivity. Qed.

Definition run_trie (ops : list (list N * list N)) : node :=
  match update_seq no_resolve NEmpty ops with TOk (t, _) => t | TErr _ => NEmpty end.
Definition proof_nodes (t : node) (k : list N) : pdb :=
  match prove toy_hash no_resolve t k with TOk db => db | TErr _ => [] end.
Definition honest_proof (t : node) (first last : list N) : pdb := proof_nodes t first ++ proof_nodes t last.
Definition toy_root (t : node) : list N := match hash_root toy_hash t with Some r => r | None => [] end.

(* F2: the trie {01, 0102, 02}: 01 is a proper prefix of 0102 *)
Definition w2_ops : list (list N * list N) := [([1], [170]); ([1; 2], [187]); ([2], [204])].
Definition w2_t : node := Eval vm_compute in run_trie w2_ops.
(* F3: the trie {11, 1110, 111000, 20} *)
Definition w3_ops : list (list N * list N) := [([17], [170]); ([17; 16], [187]); ([17; 16; 0], [204]); ([32], [221])].
Definition w3_t : node := Eval vm_compute in run_trie w3_ops.

Lemma prefix_key_unset_panics :
  (exists ev, update_seq no_resolve NEmpty w2_ops = TOk (w2_t, ev)) /\
  verify_range_proof toy_hash (toy_root w2_t) [1] [[1]; [2]] [[170]; [204]]
    (Some (honest_proof w2_t [1] [2])) = Rerr RPanic.
Proof. split; [eexists|]; vm_compute; reflexivity. Qed.

Lemma prefix_key_omission_accepted :
  (exists ev, update_seq no_resolve NEmpty w3_ops = TOk (w3_t, ev)) /\
  lk w3_t (keybytes_to_hex [17; 16]) = Some [187] /\
  slice_lt [17; 15; 255] [17; 16] = true /\ slice_lt [17; 16] [17; 16; 0] = true /\
  verify_range_proof toy_hash (toy_root w3_t) [17; 15; 255] [[17; 16; 0]] [[204]]
    (Some (honest_proof w3_t [17; 15; 255] [17; 16; 0])) = Rok true.
Proof.
  split; [eexists; vm_compute; reflexivity|]. split; [vm_compute; reflexivity|].
  split; [reflexivity|]. split; [reflexivity|]. vm_compute. reflexivity.
Qed.

(* ------------------------------------------------------------------ a concrete non-trivial instance *)

Definition ex9_ops : list (list N * list N) :=
  [([1], repeat 7 33); ([16], [5; 6]); ([17], repeat 9 40); ([18], [1]); ([240], [2; 3])].
Definition ex9_t : node := Eval vm_compute in run_trie ex9_ops.

Definition rr_eqb (a b : rr bool) : bool :=
  match a, b with
  | Rok x, Rok y => Bool.eqb x y
  | Rerr RRoot, Rerr RRoot | Rerr RMore, Rerr RMore | Rerr RMissing, Rerr RMissing => true
  | _, _ => false
  end.

(* a toy hash that separates different inputs well enough for the examples: the bytes read
   as the coefficients of a polynomial evaluated at 257 modulo 2^255 - 19, 32 bytes big endian
   (Proof.toy_hash is a prefix and collides on encodings sharing their first 32 bytes) *)
Fixpoint to_bytes (n : nat) (v : N) : list N :=
  match n with
  | O => []
  | S n' => to_bytes n' (v / 256) ++ [v mod 256]
  end.
Lemma to_bytes_length n : forall v, length (to_bytes n v) = n.
Proof. induction n as [|n IH]; intros v; [reflexivity|]. simpl. rewrite app_length, IH. simpl. lia. Qed.
Definition poly_mod : N := 2 ^ 255 - 19.
Definition poly_hash (x : list N) : list N :=
  to_bytes 32 (fold_left (fun a b => (a * 257 + b + 1) mod poly_mod) x (N.of_nat (length x))).
Lemma poly_hash_len x : length (poly_hash x) = 32%nat.
Proof. apply to_bytes_length. Qed.

Definition pproof_nodes (t : node) (k : list N) : pdb :=
  match prove poly_hash no_resolve t k with TOk db => db | TErr _ => [] end.
Definition phonest (t : node) (first last : list N) : pdb := pproof_nodes t first ++ pproof_nodes t last.
Definition poly_root (t : node) : list N := match hash_root poly_hash t with Some r => r | None => [] end.

(* whole trie without proof; an honest run 10..11 from the absent start key 02 (more);
   the same run with 11 dropped (rejected); the honest tail 12..f0 (no more); an honest
   empty run after the last key; an empty run claimed before the last key (rejected);
   a single-element run *)
Definition ex9_checkp : bool :=
  let r := poly_root ex9_t in
  let v k := match lk ex9_t (keybytes_to_hex [k]) with Some v => v | None => [] end in
  rr_eqb (verify_range_proof poly_hash r [] [[1]; [16]; [17]; [18]; [240]] [v 1; v 16; v 17; v 18; v 240] None) (Rok false) &&
  rr_eqb (verify_range_proof poly_hash r [] [[1]; [16]; [17]; [240]] [v 1; v 16; v 17; v 240] None) (Rerr RRoot) &&
  rr_eqb (verify_range_proof poly_hash r [2] [[16]; [17]] [v 16; v 17] (Some (phonest ex9_t [2] [17]))) (Rok true) &&
  rr_eqb (verify_range_proof poly_hash r [2] [[16]] [v 16] (Some (phonest ex9_t [2] [17]))) (Rok true) &&
  rr_eqb (verify_range_proof poly_hash r [2] [[17]] [v 17] (Some (phonest ex9_t [2] [17]))) (Rerr RRoot) &&
  rr_eqb (verify_range_proof poly_hash r [1] [[1]; [17]] [v 1; v 17] (Some (phonest ex9_t [1] [17]))) (Rerr RRoot) &&
  rr_eqb (verify_range_proof poly_hash r [18] [[18]; [240]] [v 18; v 240] (Some (phonest ex9_t [18] [240]))) (Rok false) &&
  rr_eqb (verify_range_proof poly_hash r [241] [] [] (Some (pproof_nodes ex9_t [241]))) (Rok false) &&
  rr_eqb (verify_range_proof poly_hash r [200] [] [] (Some (pproof_nodes ex9_t [200]))) (Rerr RMore) &&
  rr_eqb (verify_range_proof poly_hash r [17] [[17]] [v 17] (Some (pproof_nodes ex9_t [17]))) (Rok true) &&
  pwfb ex9_t && inj_onb poly_hash ([128] :: encs_of poly_hash ex9_t).

Lemma ex9_checkp_ok : ex9_checkp = true.
Proof. vm_compute. reflexivity. Qed.

(* ------------------------------------------------------------------ partial views and proofToPath *)

Section Paths.
  Variable H : list N -> list N.
  Hypothesis H_len : forall x, length (H x) = 32%nat.
  Variable db : pdb.
  (* the database answers the hash of an encoding in [P] only with that encoding *)
  Variable P : list N -> Prop.
  Hypothesis faithful : forall e b, P e -> db_get db (H e) = Some b -> b = e.

  (* [pv p t]: [p] is the true (sub)trie [t] with some hashed subtries left as
     hash references — the shape of the tree proofToPath builds *)
  Inductive pv : node -> node -> Prop :=
  | pv_empty : pv NEmpty NEmpty
  | pv_value v : pv (NValue v) (NValue v)
  | pv_hash t e : pwf t -> node_enc H t = Some e -> (32 <= length e)%nat -> pv (NHash (H e)) t
  | pv_short k c c' : pv c c' -> pv (NShort k c) (NShort k c')
  | pv_full cs cs' : length cs = length cs' ->
      (forall i c c', nth_error cs i = Some c -> nth_error cs' i = Some c' -> pv c c') ->
      pv (NFull cs) (NFull cs').

  Lemma pv_cref c : slotok c -> (pwf c -> pv (collapse H c) c) -> pv (cref H c (collapse H c)) c.
  Proof.
    intros [->|[[v ->]|Hc]] IH; cbn [cref]; [constructor|constructor|].
    destruct (pwf_enc_total H H_len c Hc) as [e Ee]. rewrite (cref_pwf H c e Hc Ee).
    destruct (Nat.ltb (length e) 32) eqn:L; [apply IH; exact Hc|].
    apply pv_hash; auto. apply Nat.ltb_ge in L. exact L.
  Qed.

  Lemma pwf_full_slot cs i c : pwf (NFull cs) -> nth_error cs i = Some c -> slotok c.
  Proof.
    intros Hw Hi. inversion Hw as [| |? L C V]; subst.
    assert (i < 17)%nat by (rewrite <- L; apply nth_error_Some; congruence).
    destruct (Nat.eq_dec i 16) as [->|Hne].
    - destruct (V c Hi) as [->|(v & -> & _)]; [left; reflexivity|right; left; eauto].
    - destruct (C i c Hi ltac:(lia)) as [->|Hc]; [left; reflexivity|right; right; assumption].
  Qed.

  Lemma pv_collapse t : pwf t -> pv (collapse H t) t.
  Proof.
    induction t as [| |k c IH|cs IH|] using node_ind'; intros Hw; try solve [inversion Hw].
    - cbn [collapse]. apply pv_short. apply pv_cref; [|exact IH].
      inversion Hw; subst; [right; left; eauto|right; right; assumption].
    - cbn [collapse]. apply pv_full; [apply map_length|].
      intros i c1 c' E1 E'. rewrite nth_error_map, E' in E1. cbn [option_map] in E1. inversion E1; subst c1.
      apply pv_cref; [eapply pwf_full_slot; eassumption|].
      rewrite Forall_forall in IH. apply IH. eapply nth_error_In; exact E'.
  Qed.

  Lemma resolve_pv h t : pv (NHash h) t -> (forall e, genuine H t e -> P e) ->
    (resolve_node db h = Rerr RMissing /\ exists e, node_enc H t = Some e /\ (32 <= length e)%nat /\ db_get db (H e) = None) \/
    resolve_node db h = Rok (collapse H t).
  Proof.
    intros Hp HP. inversion Hp as [| |t0 e Hw Ee Le| |]; subst. unfold resolve_node.
    destruct (db_get db (H e)) as [b|] eqn:G.
    - right. assert (b = e) by (apply faithful; [apply HP; apply genuine_self; exact Ee|exact G]). subst b.
      rewrite (decode_enc H H_len t e Hw Ee). reflexivity.
    - left. split; [reflexivity|]. exists e. auto.
  Qed.

  (* the path of [key] in [n] runs through resolved nodes only, until it ends *)
  Fixpoint res_along (n : node) (key : list N) {struct n} : Prop :=
    match n with
    | NHash _ => False
    | NShort nk c => if is_prefix_of nk key then res_along c (skipn (length nk) key) else True
    | NFull cs =>
        match key with
        | [] => True
        | k0 :: kr =>
            (fix go (l : list node) (i : nat) {struct l} : Prop :=
               match l with
               | [] => True
               | c :: l' => match i with O => res_along c kr | S i' => go l' i' end
               end) cs (N.to_nat k0)
        end
    | _ => True
    end.

  Lemma res_along_full cs k0 kr :
    res_along (NFull cs) (k0 :: kr) =
    match nth_error cs (N.to_nat k0) with Some c => res_along c kr | None => True end.
  Proof.
    cbn [res_along]. generalize (N.to_nat k0). induction cs as [|c cs IH]; intros [|i]; simpl; auto.
  Qed.

  (* the part of proofToPath's loop body after get *)
  Definition ptp_step (f : nat) (allow : bool) (parent : node) (key keyrest : list N) (cld : node)
    : rr (node * option (list N)) :=
    match cld with
    | NEmpty => if allow then Rok (parent, None) else Rerr RNotContained
    | NShort _ _ | NFull _ =>
        match ptp f db allow cld keyrest with
        | Rerr e => Rerr e
        | Rok (c', v) =>
            match ptp_link parent key c' with
            | Some p' => Rok (p', v)
            | None => Rerr RPanic
            end
        end
    | NHash h =>
        match resolve_node db h with
        | Rerr e => Rerr e
        | Rok c =>
            match ptp_link parent key c with
            | None => Rerr RPanic
            | Some _ =>
                match ptp f db allow c keyrest with
                | Rerr e => Rerr e
                | Rok (c', v) =>
                    match ptp_link parent key c' with
                    | Some p' => Rok (p', v)
                    | None => Rerr RPanic
                    end
                end
            end
        end
    | NValue v =>
        match ptp_link parent key cld with
        | None => Rerr RPanic
        | Some p' => match v with [] => Rerr RPanic | _ :: _ => Rok (p', Some v) end
        end
    end.

  Lemma ptp_S f allow parent key :
    ptp (S f) db allow parent key =
    match ptp_get parent key with
    | None => Rerr RPanic
    | Some (keyrest, cld) => ptp_step f allow parent key keyrest cld
    end.
  Proof. reflexivity. Qed.

  Definition ptp_post (allow : bool) (t : node) (key : list N) (r : rr (node * option (list N))) : Prop :=
    match r with
    | Rok (p', v) => pv p' t /\ inner_shape p' /\ v = lk t key /\ res_along p' key /\ (allow = false -> v <> None)
    | Rerr e => (e = RMissing /\ missing_on H db t key) \/ (e = RNotContained /\ allow = false /\ lk t key = None)
    end.

  Definition ptp_ok (f : nat) : Prop :=
    forall p t key allow, pv p t -> pwf t -> inner_shape p -> valid_key key -> (length key < f)%nat ->
      (forall e, genuine H t e -> P e) -> ptp_post allow t key (ptp f db allow p key).

  (* one child slot [c'] of [t], reached with [keyrest] still to go *)
  Lemma ptp_step_spec f allow parent t key keyrest cld c' :
    ptp_ok f ->
    pv parent t -> inner_shape parent -> pv cld c' ->
    (cld = NEmpty -> res_along parent key) ->
    (forall c2, pv c2 c' -> (c2 = cld \/ inner_shape c2) -> exists p', ptp_link parent key c2 = Some p' /\ pv p' t /\ inner_shape p' /\
        (res_along c2 keyrest -> res_along p' key)) ->
    lk t key = lk c' keyrest ->
    (missing_on H db c' keyrest -> missing_on H db t key) ->
    (c' = NEmpty \/ (exists v, c' = NValue v /\ keyrest = [] /\ val_ok v) \/
     (pwf c' /\ valid_key keyrest /\ (length keyrest < f)%nat)) ->
    (forall e, genuine H c' e -> P e) ->
    ptp_post allow t key (ptp_step f allow parent key keyrest cld).
  Proof.
    intros IH Hpar Hin Hpv Hres Hlink Hlk Hmiss Hslot HP.
    assert (Hrec : forall c, pv c c' -> inner_shape c -> pwf c' -> valid_key keyrest -> (length keyrest < f)%nat ->
              ptp_post allow t key
                (match ptp f db allow c keyrest with
                 | Rerr e => Rerr e
                 | Rok (c2, v) => match ptp_link parent key c2 with Some p' => Rok (p', v) | None => Rerr RPanic end
                 end)).
    { intros c Hc Hic Hw Hk Hf. pose proof (IH c c' keyrest allow Hc Hw Hic Hk Hf HP) as Q.
      destruct (ptp f db allow c keyrest) as [[c2 v]|e]; cbn [ptp_post] in Q |- *.
      - destruct Q as (Q1 & Q2 & Q3 & Q4 & Q5).
        destruct (Hlink c2 Q1 (or_intror Q2)) as (p' & -> & L1 & L2 & L3). cbn [ptp_post].
        split; [exact L1|]. split; [exact L2|]. split; [congruence|]. split; [auto|exact Q5].
      - destruct Q as [[-> M]|(-> & A & L)]; [left; auto|right]. split; [reflexivity|]. split; [exact A|congruence]. }
    destruct Hslot as [->|[(v & -> & -> & Hv)|(Hw & Hk & Hf)]].
    - (* nil *)
      inversion Hpv as [| |t0 e0 Hw0| |]; subst; [|inversion Hw0]. cbn [ptp_step]. rewrite lk_empty in Hlk. destruct allow; cbn [ptp_post].
      + split; [exact Hpar|]. split; [exact Hin|]. split; [congruence|]. split; [auto|discriminate].
      + right. auto.
    - (* the value *)
      inversion Hpv as [| |t0 e0 Hw0| |]; subst; [|inversion Hw0]. cbn [ptp_step].
      destruct (Hlink (NValue v) (pv_value v) (or_introl eq_refl)) as (p' & -> & L1 & L2 & L3).
      destruct Hv as [Hne _]. destruct v as [|b v]; [congruence|]. cbn [ptp_post].
      split; [exact L1|]. split; [exact L2|]. rewrite lk_value in Hlk. split; [congruence|].
      split; [apply L3; exact I|]. intros _. discriminate.
    - (* a node *)
      destruct (pwf_shape c' Hw) as [(k & x & ->)|(cs & ->)].
      + inversion Hpv as [| |t0 e Hw0 Ee Le|k0 c0 x0 Hc0|]; subst.
        * (* hashed *)
          cbn [ptp_step].
          destruct (resolve_pv _ _ Hpv HP) as [[-> (e' & Ee' & Le' & G)] | ->].
          { cbn [ptp_post]. left. split; [reflexivity|]. apply Hmiss.
            exists (NShort k x), e'. split; [apply path_nodes_head; [exact Hw|destruct keyrest; [destruct Hk|discriminate]]|auto]. }
          destruct (Hlink _ (pv_collapse _ Hw) (or_intror (collapse_shape H _ Hw))) as (p0 & -> & _).
          apply Hrec; auto. apply pv_collapse; exact Hw. apply (collapse_shape H _ Hw).
        * cbn [ptp_step]. apply (Hrec (NShort k c0)); auto. exact I.
      + inversion Hpv as [| |t0 e Hw0 Ee Le| |cs0 cs1 Hl Hcs]; subst.
        * cbn [ptp_step].
          destruct (resolve_pv _ _ Hpv HP) as [[-> (e' & Ee' & Le' & G)] | ->].
          { cbn [ptp_post]. left. split; [reflexivity|]. apply Hmiss.
            exists (NFull cs), e'. split; [apply path_nodes_head; [exact Hw|destruct keyrest; [destruct Hk|discriminate]]|auto]. }
          destruct (Hlink _ (pv_collapse _ Hw) (or_intror (collapse_shape H _ Hw))) as (p0 & -> & _).
          apply Hrec; auto. apply pv_collapse; exact Hw. apply (collapse_shape H _ Hw).
        * cbn [ptp_step]. apply (Hrec (NFull cs0)); auto. exact I.
  Qed.

  Lemma ptp_spec : forall f, ptp_ok f.
  Proof.
    induction f as [|f IH]; intros p t key allow Hpv Hw Hin Hk Hf HP; [lia|].
    rewrite ptp_S. destruct p as [| |k p|cs|]; try destruct Hin.
    - (* short node *)
      inversion Hpv as [| | |k0 c0 c' Hc|]; subst.
      cbn [ptp_get]. pose proof (is_prefix_strip k key) as Sp. destruct (strip k key) as [r|] eqn:E.
      + destruct Sp as [S1 S2]. rewrite S1, S2. cbn [negb].
        assert (Hkey : key = k ++ r) by (apply strip_some; exact E).
        apply ptp_step_spec with (c' := c'); auto.
        * exact I.
        * intros ->. cbn [res_along]. rewrite S1. exact I.
        * intros c2 Hc2 _. exists (NShort k c2). split; [reflexivity|]. split; [apply pv_short; exact Hc2|].
          split; [exact I|]. intros R. cbn [res_along]. rewrite S1, S2. exact R.
        * rewrite lk_short, E. reflexivity.
        * apply missing_short; [exact E|]. intros ->. destruct Hk.
        * subst key. inversion Hw as [? v Vk Sk Hv|? ? Nk Ne Sk Hc'|]; subst.
          -- right; left. exists v. split; [reflexivity|]. split; [|exact Hv].
             eapply valid_key_prefix_end; eassumption.
          -- right; right. split; [exact Hc'|].
             assert (r <> []).
             { intros ->. rewrite app_nil_r in Hk. eapply valid_key_not_nibbles; eassumption. }
             destruct (valid_key_app_inv _ _ Hk ltac:(assumption)) as [_ Vr]. split; [exact Vr|].
             rewrite app_length in Hf. destruct k; [congruence|]. simpl in Hf. lia.
        * intros e Ge. apply HP. apply genuine_short. exact Ge.
      + rewrite Sp. cbn [negb ptp_step].
        assert (L : lk (NShort k c') key = None) by (rewrite lk_short, E; reflexivity).
        destruct allow; cbn [ptp_post].
        * split; [exact Hpv|]. split; [exact I|]. split; [congruence|]. split; [|discriminate].
          cbn [res_along]. rewrite Sp. exact I.
        * right. auto.
    - (* full node *)
      inversion Hpv as [| | | |cs0 cs' Hl Hcs]; subst.
      destruct key as [|k0 kr]; [destruct Hk|].
      assert (L17 : length cs' = 17%nat) by (inversion Hw; assumption).
      pose proof (valid_key_hd_le _ _ Hk) as Hk0.
      assert (Hi : (N.to_nat k0 < 17)%nat) by lia.
      destruct (nth_error cs (N.to_nat k0)) as [c|] eqn:Ec; [|apply nth_error_None in Ec; lia].
      destruct (nth_error cs' (N.to_nat k0)) as [c'|] eqn:Ec'; [|apply nth_error_None in Ec'; lia].
      cbn [ptp_get]. unfold child. rewrite Ec.
      apply ptp_step_spec with (c' := c'); auto.
      + exact I.
      + eapply Hcs; eassumption.
      + intros ->. rewrite res_along_full, Ec. exact I.
      + intros c2 Hc2 _. cbn [ptp_link]. unfold set_child.
        destruct (set_nth_some (N.to_nat k0) c2 cs ltac:(lia)) as [cs2 E2]. rewrite E2.
        destruct (set_nth_spec _ _ _ _ E2) as [L2 N2].
        exists (NFull cs2). split; [reflexivity|]. split.
        { apply pv_full; [lia|]. intros i x x' Ex Ex'. rewrite N2 in Ex.
          destruct (Nat.eqb i (N.to_nat k0)) eqn:B.
          - apply Nat.eqb_eq in B. subst i. inversion Ex; subst x. rewrite Ec' in Ex'. inversion Ex'; subst x'. exact Hc2.
          - eapply Hcs; eassumption. }
        split; [exact I|]. intros R. rewrite res_along_full, N2, Nat.eqb_refl. exact R.
      + rewrite lk_full, Ec'. reflexivity.
      + apply missing_full. exact Ec'.
      + apply valid_key_cons in Hk. inversion Hw as [| |? _ C V]; subst.
        destruct Hk as [[-> ->]|[Hlt Vr]].
        * change (N.to_nat 16) with 16%nat in Ec'. destruct (V c' Ec') as [->|(v & -> & Hv)]; [left; reflexivity|].
          right; left. exists v. auto.
        * destruct (C _ c' Ec' ltac:(lia)) as [->|Hc']; [left; reflexivity|]. right; right.
          split; [exact Hc'|]. split; [exact Vr|]. simpl in Hf. lia.
      + intros e Ge. apply HP. eapply genuine_full; eassumption.
  Qed.
End Paths.

(* ------------------------------------------------------------------ hasRightElement *)

Lemma slice_lt_nil_r a : slice_lt a [] = false.
Proof. destruct a; reflexivity. Qed.

Lemma slice_lt_mismatch nk : forall key r, strip nk key = None -> (length nk <= length key)%nat ->
  slice_lt key (nk ++ r) = slice_lt key nk.
Proof.
  induction nk as [|x nk IH]; intros key r Hs Hl; [discriminate|].
  destruct key as [|y key]; [simpl in Hl; lia|]. simpl in Hs. cbn [app slice_lt].
  destruct (N.eqb_spec x y) as [->|Ne].
  - rewrite N.ltb_irrefl, N.eqb_refl. apply IH; [exact Hs|simpl in Hl; lia].
  - destruct (y <? x); [reflexivity|]. destruct (N.eqb_spec y x); [congruence|reflexivity].
Qed.

Lemma slice_lt_total a : forall b, a <> b -> slice_lt a b = false -> slice_lt b a = true.
Proof.
  induction a as [|x a IH]; intros [|y b] Hne Hlt; try reflexivity; try congruence; try discriminate.
  simpl in Hlt |- *. destruct (x <? y) eqn:L1; [discriminate|].
  destruct (N.eqb_spec x y) as [->|Ne].
  - rewrite N.ltb_irrefl, N.eqb_refl. apply IH; [congruence|exact Hlt].
  - assert (y <? x = true) by lia. rewrite H. reflexivity.
Qed.

Lemma any_from_spec cs : forall i lo hi,
  any_from i lo hi cs = true <->
  exists j c, nth_error cs j = Some c /\ (lo <= i + j < hi)%nat /\ c <> NEmpty.
Proof.
  induction cs as [|c cs IH]; intros i lo hi.
  - simpl. split; [discriminate|]. intros (j & x & E & _). destruct j; discriminate.
  - cbn [any_from]. rewrite orb_true_iff, IH. split.
    + intros [A|(j & x & E & R & Ne)].
      * exists 0%nat, c. apply andb_true_iff in A. destruct A as [A1 A2]. apply andb_true_iff in A1.
        split; [reflexivity|]. split; [lia|]. intros ->. discriminate.
      * exists (S j), x. split; [exact E|]. split; [lia|exact Ne].
    + intros (j & x & E & R & Ne). destruct j as [|j].
      * left. simpl in E. inversion E; subst x. destruct c; try congruence;
          (apply andb_true_iff; split; [apply andb_true_iff; split; [apply Nat.leb_le|apply Nat.ltb_lt]; lia|reflexivity]).
      * right. exists j, x. split; [exact E|]. split; [lia|exact Ne].
Qed.

Definition slotcan (t : node) : Prop := t = NEmpty \/ (exists v, t = NValue v) \/ can t.
(* every key stored under [t] has length L *)
Definition ulen (t : node) (L : nat) : Prop := forall k v, lk t k = Some v -> length k = L.
(* an entry strictly to the right of [key] (hex keys, bytes.Compare order) *)
Definition has_gt (t : node) (key : list N) : Prop := exists k v, lk t k = Some v /\ slice_lt key k = true.

Section HasRight.
  Variable H : list N -> list N.
  Hypothesis H_len : forall x, length (H x) = 32%nat.

  Lemma pv_empty_r p : pv H p NEmpty -> p = NEmpty.
  Proof. intros Hp. inversion Hp as [| |t e Hw| |]; subst; [reflexivity|inversion Hw]. Qed.
  Lemma pv_value_r p v : pv H p (NValue v) -> p = NValue v.
  Proof. intros Hp. inversion Hp as [| |t e Hw| |]; subst; [reflexivity|inversion Hw]. Qed.

  Lemma has_right_full cs k0 kr :
    has_right (NFull cs) (k0 :: kr) =
    if any_from 0 (N.to_nat k0 + 1) 16 cs then TOk true
    else match nth_error cs (N.to_nat k0) with Some c => has_right c kr | None => TErr EPanic end.
  Proof.
    cbn [has_right]. destruct (any_from 0 (N.to_nat k0 + 1) 16 cs); [reflexivity|].
    generalize (N.to_nat k0). induction cs as [|c cs IH]; intros [|i]; simpl; auto.
  Qed.

  Lemma has_right_spec t : forall p key,
    slotcan t -> pv H p t -> res_along p key -> ulen t (length key) ->
    (key = [] \/ valid_key key) ->
    exists b, has_right p key = TOk b /\ (b = true <-> has_gt t key).
  Proof.
    induction t as [|v|nk c' IH|cs' IH|h] using node_ind'; intros p key Hs Hp Hr Hu Hk.
    - apply pv_empty_r in Hp. subst p. exists false. split; [reflexivity|]. split; [discriminate|].
      intros (k & v & L & _). rewrite lk_empty in L. discriminate.
    - apply pv_value_r in Hp. subst p. exists false. split; [reflexivity|]. split; [discriminate|].
      intros (k & v0 & L & Lt). rewrite lk_value in L. destruct k; [|discriminate].
      rewrite slice_lt_nil_r in Lt. discriminate.
    - (* short *)
      destruct Hs as [?|[[? ?]|Hcan]]; try discriminate.
      inversion Hp as [| |t0 e Hw Ee Le|k0 c0 x Hc|]; subst; [destruct Hr|].
      destruct (can_has_key _ Hcan) as (kx & vx & _ & Lx).
      assert (Hkeys : forall k v, lk (NShort nk c') k = Some v -> exists r, k = nk ++ r /\ lk c' r = Some v).
      { intros k v L. rewrite lk_short in L. destruct (strip nk k) as [r|] eqn:E; [|discriminate].
        apply strip_some in E. eauto. }
      cbn [has_right res_along] in *. pose proof (is_prefix_strip nk key) as Sp.
      destruct (strip nk key) as [rest|] eqn:E.
      + destruct Sp as [S1 S2]. rewrite S1 in *. rewrite S2 in *. cbn [negb].
        apply strip_some in E. subst key.
        assert (Hs' : slotcan c').
        { destruct (can_short_inv _ _ Hcan) as [[_ [v ->]]|(_ & _ & cs & -> & Hc')]; [right; left; eauto|right; right; exact Hc']. }
        assert (Hu' : ulen c' (length rest)).
        { intros r v L. specialize (Hu (nk ++ r) v). rewrite lk_short, strip_app_same in Hu.
          specialize (Hu L). rewrite !app_length in Hu. lia. }
        assert (Hk' : rest = [] \/ valid_key rest).
        { destruct rest as [|a rest]; [left; reflexivity|right]. destruct Hk as [Hk|Hk]; [destruct nk; discriminate|].
          destruct (can_short_inv _ _ Hcan) as [[Vk _]|(Nk & _)].
          - apply (valid_key_prefix_end _ _ Vk) in Hk. discriminate.
          - apply (valid_key_app_inv _ _ Hk). discriminate. }
        destruct (IH c0 rest Hs' Hc Hr Hu' Hk') as (b & Eb & Hb). exists b. split; [exact Eb|].
        rewrite Hb. split.
        * intros (r & v & L & Lt). exists (nk ++ r), v. rewrite lk_short, strip_app_same, slice_lt_app. auto.
        * intros (k & v & L & Lt). destruct (Hkeys _ _ L) as (r & -> & L'). rewrite slice_lt_app in Lt. exists r, v. auto.
      + rewrite Sp. cbn [negb]. exists (slice_lt key nk). split; [reflexivity|].
        assert (Hlen : (length nk <= length key)%nat).
        { destruct (Hkeys _ _ Lx) as (r & -> & _). rewrite <- (Hu _ _ Lx), app_length. lia. }
        split.
        * intros Lt. destruct (Hkeys _ _ Lx) as (r & -> & _). exists (nk ++ r), vx. split; [exact Lx|].
          rewrite slice_lt_mismatch; assumption.
        * intros (k & v & L & Lt). destruct (Hkeys _ _ L) as (r & -> & _).
          rewrite slice_lt_mismatch in Lt; assumption.
    - (* branch *)
      destruct Hs as [?|[[? ?]|Hcan]]; try discriminate.
      inversion Hp as [| |t0 e Hw Ee Le| |cs0 cs1 Hl Hcs]; subst; [destruct Hr|].
      destruct (can_full_inv _ Hcan) as (L17 & Hch & Hv16 & _).
      destruct (can_has_key _ Hcan) as (kx & vx & Vkx & Lx).
      destruct key as [|k0 kr].
      { specialize (Hu _ _ Lx). destruct kx; [destruct Vkx|discriminate]. }
      destruct Hk as [?|Hk]; [discriminate|].
      pose proof (valid_key_hd_le _ _ Hk) as Hk0.
      rewrite has_right_full. rewrite res_along_full in Hr.
      destruct (any_from 0 (N.to_nat k0 + 1) 16 cs0) eqn:A.
      + exists true. split; [reflexivity|]. split; [|reflexivity]. intros _.
        apply any_from_spec in A. destruct A as (j & c & Ej & Rj & Nej).
        destruct (nth_error cs' j) as [cj|] eqn:Ej'.
        2: { apply nth_error_None in Ej'. assert (j < length cs0)%nat by (apply nth_error_Some; congruence). lia. }
        pose proof (Hcs _ _ _ Ej Ej') as Hpj.
        destruct (Hch j cj Ej' ltac:(lia)) as [->|Hcj]; [apply pv_empty_r in Hpj; congruence|].
        destruct (can_has_key _ Hcj) as (r & v & _ & Lr).
        exists (N.of_nat j :: r), v. split; [rewrite lk_full, Nat2N.id, Ej'; exact Lr|].
        cbn [slice_lt]. assert (k0 <? N.of_nat j = true) by lia. rewrite H0. reflexivity.
      + assert (Hi : (N.to_nat k0 < 17)%nat) by lia.
        destruct (nth_error cs0 (N.to_nat k0)) as [c|] eqn:Ec; [|apply nth_error_None in Ec; lia].
        destruct (nth_error cs' (N.to_nat k0)) as [c'|] eqn:Ec'; [|apply nth_error_None in Ec'; lia].
        apply valid_key_cons in Hk.
        assert (Hs' : slotcan c').
        { destruct Hk as [[-> ->]|[Hlt _]].
          - change (N.to_nat 16) with 16%nat in Ec'. destruct (Hv16 _ Ec') as [->|[v ->]]; [left; reflexivity|right; left; eauto].
          - destruct (Hch _ _ Ec' ltac:(lia)) as [->|Hc']; [left; reflexivity|right; right; exact Hc']. }
        assert (Hu' : ulen c' (length kr)).
        { intros r v L. specialize (Hu (k0 :: r) v). rewrite lk_full, Ec' in Hu. specialize (Hu L). simpl in Hu. lia. }
        assert (Hk' : kr = [] \/ valid_key kr) by (destruct Hk as [[_ ->]|[_ Vr]]; auto).
        rewrite Forall_forall in IH.
        destruct (IH c' (nth_error_In _ _ Ec') c kr Hs' (Hcs _ _ _ Ec Ec') Hr Hu' Hk') as (b & Eb & Hb).
        exists b. split; [exact Eb|]. rewrite Hb. split.
        * intros (r & v & L & Lt). exists (k0 :: r), v. rewrite lk_full, Ec'. split; [exact L|].
          cbn [slice_lt]. rewrite N.ltb_irrefl, N.eqb_refl. exact Lt.
        * intros (k & v & L & Lt). destruct k as [|j r]; [rewrite lk_full_nil in L; discriminate|].
          rewrite lk_full in L. destruct (nth_error cs' (N.to_nat j)) as [cj|] eqn:Ej'; [|discriminate].
          cbn [slice_lt] in Lt. destruct (k0 <? j) eqn:Lj.
          -- exfalso. assert (Hj17 : (N.to_nat j < 17)%nat) by (rewrite <- L17; apply nth_error_Some; congruence).
             destruct (Nat.eq_dec (N.to_nat j) 16) as [E16|Ne16].
             ++ rewrite E16 in Ej'. destruct (Hv16 _ Ej') as [->|[v0 ->]]; [rewrite lk_empty in L; discriminate|].
                rewrite lk_value in L. destruct r; [|discriminate].
                assert (Hl1 : length [j] = length (k0 :: kr)).
                { apply (Hu [j] v). rewrite lk_full, E16, Ej', lk_value. exact L. }
                destruct kr; [|discriminate]. destruct Hk as [[-> _]|[_ []]]. lia.
             ++ destruct (nth_error cs0 (N.to_nat j)) as [pj|] eqn:Ej; [|apply nth_error_None in Ej; lia].
                assert (any_from 0 (N.to_nat k0 + 1) 16 cs0 = true); [|congruence].
                apply any_from_spec. exists (N.to_nat j), pj. split; [exact Ej|]. split; [lia|].
                intros ->. pose proof (Hcs _ _ _ Ej Ej') as Hpj. inversion Hpj; subst. rewrite lk_empty in L. discriminate.
          -- destruct (N.eqb_spec k0 j) as [<-|]; [|discriminate]. rewrite Ec' in Ej'. inversion Ej'; subst cj.
             exists r, v. auto.
    - destruct Hs as [?|[[? ?]|Hcan]]; try discriminate. inversion Hcan.
  Qed.
End HasRight.

(* ------------------------------------------------------------------ byte keys of one length *)

Lemma slice_lt_hex a : forall b, forallb byteb a = true -> forallb byteb b = true -> length a = length b ->
  slice_lt (keybytes_to_hex a) (keybytes_to_hex b) = slice_lt a b.
Proof.
  unfold keybytes_to_hex.
  induction a as [|x a IH]; intros [|y b] Ha Hb Hl; try discriminate; [reflexivity|].
  simpl in Ha, Hb. apply andb_true_iff in Ha. apply andb_true_iff in Hb.
  destruct Ha as [Hx Ha]. destruct Hb as [Hy Hb]. unfold byteb in Hx, Hy.
  cbn [nibbles_of app slice_lt]. rewrite (IH b Ha Hb ltac:(simpl in Hl; lia)).
  destruct (x <? y) eqn:L.
  - destruct (x / 16 <? y / 16) eqn:L1; [reflexivity|].
    destruct (x / 16 =? y / 16) eqn:E1; [|lia].
    destruct (x mod 16 <? y mod 16) eqn:L2; [reflexivity|]. lia.
  - destruct (x =? y) eqn:E.
    + apply N.eqb_eq in E. subst y. rewrite !N.ltb_irrefl, !N.eqb_refl. reflexivity.
    + destruct (x / 16 <? y / 16) eqn:L1; [lia|].
      destruct (x / 16 =? y / 16) eqn:E1; [|reflexivity].
      destruct (x mod 16 <? y mod 16) eqn:L2; [lia|].
      destruct (x mod 16 =? y mod 16) eqn:E2; [lia|reflexivity].
Qed.

(* every key stored in [t] is the hex form of a byte key of length Lb *)
Definition keys_fixed (t : node) (Lb : nat) : Prop :=
  forall hk v, lk t hk = Some v ->
    exists k, hk = keybytes_to_hex k /\ length k = Lb /\ forallb byteb k = true.

Lemma hex_length k : length (keybytes_to_hex k) = (2 * length k + 1)%nat.
Proof. unfold keybytes_to_hex. rewrite app_length, nibbles_of_length. simpl. lia. Qed.

Lemma keys_fixed_ulen t Lb : keys_fixed t Lb -> ulen t (2 * Lb + 1).
Proof. intros Hf k v L. destruct (Hf k v L) as (b & -> & Hl & _). rewrite hex_length, Hl. reflexivity. Qed.

(* ------------------------------------------------------------------ the empty-run and single-element branches *)

Lemma ptp_fuel_ok k (db : pdb) : (length k < ptp_fuel k db)%nat.
Proof. unfold ptp_fuel. nia. Qed.

Section Edge.
  Variable H : list N -> list N.
  Hypothesis H_len : forall x, length (H x) = 32%nat.
  Variable db : pdb.
  Variable P : list N -> Prop.
  Hypothesis faithful : forall e b, P e -> db_get db (H e) = Some b -> b = e.

  Variable t : node.
  Variable r : list N.
  Hypothesis Hcan : can t.
  Hypothesis Hok : content_ok t.
  Hypothesis Hroot : hash_root H t = Some r.
  Hypothesis HP : forall e, genuine H t e -> P e.

  (* proofToPath from the root hash *)
  Lemma ptp_root key allow : forallb byteb key = true ->
    (db_get db r = None /\ proof_to_path db r None key allow = Rerr RMissing) \/
    (db_get db r <> None /\
     ptp_post H db allow t (keybytes_to_hex key) (proof_to_path db r None key allow)).
  Proof.
    intros Hb. pose proof (can_pwf t Hcan Hok) as Hw.
    destruct (pwf_enc_total H H_len t Hw) as [e Ee].
    rewrite (pwf_hash_root H t e Hw Ee) in Hroot. inversion Hroot; subst r.
    unfold proof_to_path, resolve_node.
    destruct (db_get db (H e)) as [b|] eqn:G; [right|left; auto].
    split; [discriminate|].
    assert (b = e) by (apply faithful; [apply HP; apply genuine_self; exact Ee|exact G]). subst b.
    rewrite (decode_enc H H_len t e Hw Ee). cbv zeta.
    apply (ptp_spec H H_len db P faithful); auto.
    - apply pv_collapse; assumption.
    - apply collapse_shape; assumption.
    - apply keybytes_to_hex_valid; exact Hb.
    - apply ptp_fuel_ok.
  Qed.

  (* no entry of the trie at or after hex key [hk] *)
  Definition none_from (hk : list N) : Prop := forall k v, lk t k = Some v -> slice_lt k hk = true.

  Lemma none_from_iff hk : none_from hk <-> lk t hk = None /\ ~ has_gt t hk.
  Proof.
    split.
    - intros Hn. split.
      + destruct (lk t hk) as [v|] eqn:L; [|reflexivity]. specialize (Hn _ _ L). rewrite slice_lt_irrefl in Hn. discriminate.
      + intros (k & v & L & Lt). specialize (Hn _ _ L).
        destruct (list_eq_dec N.eq_dec k hk) as [->|Ne]; [rewrite slice_lt_irrefl in Lt; discriminate|].
        (* asymmetry *)
        assert (A : forall a b, slice_lt a b = true -> slice_lt b a = false).
        { induction a as [|x a IHa]; intros [|y b] E; try discriminate; [reflexivity|]. simpl in E |- *.
          destruct (x <? y) eqn:L1.
          - assert (y <? x = false) by lia. rewrite H0. destruct (N.eqb_spec y x); [lia|reflexivity].
          - destruct (N.eqb_spec x y) as [->|]; [|discriminate]. rewrite N.ltb_irrefl, N.eqb_refl. apply IHa. exact E. }
        rewrite (A _ _ Hn) in Lt. discriminate.
    - intros [Hl Hg] k v L.
      destruct (slice_lt k hk) eqn:Lt; [reflexivity|]. exfalso.
      destruct (list_eq_dec N.eq_dec k hk) as [->|Ne]; [congruence|].
      apply Hg. exists k, v. split; [exact L|]. apply slice_lt_total; [congruence|exact Lt].
  Qed.

  Section WithKey.
    Variable first : list N.
    Hypothesis Hfirst : forallb byteb first = true.
    Hypothesis Hulen : ulen t (length (keybytes_to_hex first)).
    Let hk := keybytes_to_hex first.

    (* the zero-element branch *)
    Theorem range_empty_sound b :
      verify_range_proof H r first [] [] (Some db) = Rok b -> b = false /\ none_from hk.
    Proof.
      unfold verify_range_proof. cbn [length Nat.eqb negb check_run].
      destruct (ptp_root first true Hfirst) as [[_ ->]|[_ Q]]; [discriminate|].
      destruct (proof_to_path db r None first true) as [[root val]|e]; [|discriminate].
      cbn [ptp_post] in Q. destruct Q as (Q1 & Q2 & Q3 & Q4 & _).
      destruct val as [v|]; [discriminate|].
      destruct (has_right_spec H H_len t root hk (or_intror (or_intror Hcan)) Q1 Q4 Hulen
                  (or_intror (keybytes_to_hex_valid _ Hfirst))) as (b0 & Eb & Hb).
      fold hk. rewrite Eb. destruct b0; [discriminate|]. intros E. inversion E; subst b.
      split; [reflexivity|]. apply none_from_iff. split; [symmetry; exact Q3|].
      intros G. apply Hb in G. discriminate.
    Qed.

    Theorem range_empty_complete :
      none_from hk -> db_get db r <> None -> ~ missing_on H db t hk ->
      verify_range_proof H r first [] [] (Some db) = Rok false.
    Proof.
      intros Hn Hr Hm. apply none_from_iff in Hn. destruct Hn as [Hl Hg].
      unfold verify_range_proof. cbn [length Nat.eqb negb check_run].
      destruct (ptp_root first true Hfirst) as [[G _]|[_ Q]]; [congruence|].
      destruct (proof_to_path db r None first true) as [[root val]|e]; cbn [ptp_post] in Q.
      - destruct Q as (Q1 & Q2 & Q3 & Q4 & _). fold hk in Q3. rewrite Hl in Q3. subst val.
        destruct (has_right_spec H H_len t root hk (or_intror (or_intror Hcan)) Q1 Q4 Hulen
                    (or_intror (keybytes_to_hex_valid _ Hfirst))) as (b0 & Eb & Hb).
        fold hk. rewrite Eb. destruct b0; [|reflexivity]. exfalso. apply Hg. apply Hb. reflexivity.
      - exfalso. destruct Q as [[_ M]|(_ & A & _)]; [exact (Hm M)|discriminate].
    Qed.

    (* the one-element branch (first == last key) *)
    Theorem range_single_sound v b :
      verify_range_proof H r first [first] [v] (Some db) = Rok b ->
      lk t hk = Some v /\ (b = true <-> has_gt t hk).
    Proof.
      unfold verify_range_proof. cbn [length Nat.eqb negb check_run].
      destruct v as [|v0 v]; [discriminate|].
      rewrite slice_lt_irrefl. cbn [last_opt]. rewrite bytes_eqb_refl. cbn [andb negb].
      destruct (ptp_root first false Hfirst) as [[_ ->]|[_ Q]]; [discriminate|].
      destruct (proof_to_path db r None first false) as [[root val]|e]; [|discriminate].
      cbn [ptp_post] in Q. destruct Q as (Q1 & Q2 & Q3 & Q4 & Q5).
      destruct val as [w|]; [|exfalso; apply Q5; reflexivity].
      destruct (bytes_eqb w (v0 :: v)) eqn:B; [|discriminate]. apply bytes_eqb_eq in B. subst w. cbn [negb].
      destruct (has_right_spec H H_len t root hk (or_intror (or_intror Hcan)) Q1 Q4 Hulen
                  (or_intror (keybytes_to_hex_valid _ Hfirst))) as (b0 & Eb & Hb).
      fold hk. rewrite Eb. cbn [of_tres]. intros E. inversion E; subst b0.
      split; [symmetry; exact Q3|exact Hb].
    Qed.

    Theorem range_single_complete v :
      lk t hk = Some v -> db_get db r <> None -> ~ missing_on H db t hk ->
      exists b, verify_range_proof H r first [first] [v] (Some db) = Rok b /\ (b = true <-> has_gt t hk).
    Proof.
      intros Hl Hr Hm.
      assert (Hv : v <> []) by (destruct (Hok _ _ Hl) as [[Hne _] _]; exact Hne).
      unfold verify_range_proof. cbn [length Nat.eqb negb check_run].
      destruct v as [|v0 v]; [congruence|].
      rewrite slice_lt_irrefl. cbn [last_opt]. rewrite bytes_eqb_refl. cbn [andb negb].
      destruct (ptp_root first false Hfirst) as [[G _]|[_ Q]]; [congruence|].
      destruct (proof_to_path db r None first false) as [[root val]|e]; cbn [ptp_post] in Q.
      - destruct Q as (Q1 & Q2 & Q3 & Q4 & Q5). fold hk in Q3. rewrite Hl in Q3. subst val.
        rewrite bytes_eqb_refl. cbn [negb].
        destruct (has_right_spec H H_len t root hk (or_intror (or_intror Hcan)) Q1 Q4 Hulen
                    (or_intror (keybytes_to_hex_valid _ Hfirst))) as (b0 & Eb & Hb).
        fold hk. rewrite Eb. exists b0. split; [reflexivity|exact Hb].
      - exfalso. destruct Q as [[_ M]|(_ & _ & L)]; [exact (Hm M)|]. fold hk in L. congruence.
    Qed.
  End WithKey.
End Edge.

(* ------------------------------------------------------------------ unset / unsetInternal remove the interior *)

Lemma slice_lt_asym a : forall b, slice_lt a b = true -> slice_lt b a = false.
Proof.
  induction a as [|x a IHa]; intros [|y b] E; try discriminate; [reflexivity|]. simpl in E |- *.
  destruct (x <? y) eqn:L1.
  - assert (y <? x = false) by lia. rewrite H. destruct (N.eqb_spec y x); [lia|reflexivity].
  - destruct (N.eqb_spec x y) as [->|]; [|discriminate]. rewrite N.ltb_irrefl, N.eqb_refl. apply IHa. exact E.
Qed.

Lemma slice_lt_cons x a y b :
  slice_lt (x :: a) (y :: b) = true <-> x < y \/ (x = y /\ slice_lt a b = true).
Proof.
  simpl. destruct (x <? y) eqn:L; [split; [left; lia|reflexivity]|].
  destruct (N.eqb_spec x y) as [->|Ne].
  - split; [intros E; right; auto|intros [?|[_ E]]; [lia|exact E]].
  - split; [discriminate|intros [?|[? _]]; [lia|congruence]].
Qed.

Lemma bcmp_eq a b : bcmp a b = Eq -> a = b.
Proof.
  unfold bcmp. destruct (slice_lt a b) eqn:L1; [discriminate|]. destruct (slice_lt b a) eqn:L2; [discriminate|].
  intros _. destruct (list_eq_dec N.eq_dec a b) as [E|Ne]; [exact E|].
  rewrite (slice_lt_total a b Ne L1) in L2. discriminate.
Qed.
Lemma bcmp_lt a b : bcmp a b = Lt -> slice_lt a b = true.
Proof. unfold bcmp. destruct (slice_lt a b); [reflexivity|]. destruct (slice_lt b a); discriminate. Qed.
Lemma bcmp_gt a b : bcmp a b = Gt -> slice_lt b a = true.
Proof. unfold bcmp. destruct (slice_lt a b); [discriminate|]. destruct (slice_lt b a); [reflexivity|discriminate]. Qed.

Lemma clear_from_nth cs : forall i lo hi j,
  nth_error (clear_from i lo hi cs) j =
  match nth_error cs j with
  | Some c => Some (if Nat.leb lo (i + j) && Nat.ltb (i + j) hi then NEmpty else c)
  | None => None
  end.
Proof.
  induction cs as [|c cs IH]; intros i lo hi [|j]; simpl; try reflexivity.
  - rewrite Nat.add_0_r. reflexivity.
  - rewrite IH. replace (S i + j)%nat with (i + S j)%nat by lia. reflexivity.
Qed.

Lemma clear_range_nth cs lo hi j :
  nth_error (clear_range lo hi cs) j =
  match nth_error cs j with
  | Some c => Some (if Nat.leb lo j && Nat.ltb j hi then NEmpty else c)
  | None => None
  end.
Proof. unfold clear_range. rewrite clear_from_nth. reflexivity. Qed.

Lemma clear_range_length cs lo hi : length (clear_range lo hi cs) = length cs.
Proof. unfold clear_range. generalize 0%nat. induction cs as [|c cs IH]; intros i; simpl; [reflexivity|]. rewrite IH. reflexivity. Qed.

(* the node an action leaves in the slot *)
Definition act_node (a : uact) : node := match a with UKeep n => n | URemove => NEmpty end.

Lemma apply_act_nth cs i a cs' : apply_act cs i a = Some cs' ->
  length cs' = length cs /\
  forall j, nth_error cs' j = if Nat.eqb j (N.to_nat i) then Some (act_node a) else nth_error cs j.
Proof.
  unfold apply_act, set_child. intros E. destruct (set_nth_spec _ _ _ _ E) as [L Hn].
  split; [exact L|]. intros j. rewrite Hn. destruct a; reflexivity.
Qed.

Lemma unset_full cs k0 kr rl :
  unset (NFull cs) (k0 :: kr) rl =
  let cs1 := if rl then clear_range 0 (N.to_nat k0) cs else clear_range (N.to_nat k0 + 1) 16 cs in
  match nth_error cs (N.to_nat k0) with
  | None => TErr EPanic
  | Some c =>
      match unset c kr rl with
      | TErr e => TErr e
      | TOk a => match apply_act cs1 k0 a with Some cs2 => TOk (UKeep (NFull cs2)) | None => TErr EPanic end
      end
  end.
Proof.
  cbn [unset]. cbv zeta.
  assert (E : (fix go (l : list node) (i : nat) {struct l} : option (tres uact) :=
                 match l with
                 | [] => None
                 | c :: l' => match i with O => Some (unset c kr rl) | S i' => go l' i' end
                 end) cs (N.to_nat k0) =
              match nth_error cs (N.to_nat k0) with Some c => Some (unset c kr rl) | None => None end).
  { generalize (N.to_nat k0). induction cs as [|c cs IH]; intros [|i]; simpl; auto. }
  rewrite E. destruct (nth_error cs (N.to_nat k0)); [|reflexivity]. destruct (unset n kr rl); reflexivity.
Qed.

(* which keys one unset pass removes / keeps, relative to the edge key *)
Definition gone (rl : bool) (key k : list N) : Prop :=
  k = key \/ (if rl then slice_lt k key = true else slice_lt key k = true).
Definition stays (rl : bool) (key k : list N) : Prop :=
  if rl then slice_lt key k = true else slice_lt k key = true.

Lemma unset_spec s : forall key rl a,
  slotok s -> ulen s (length key) -> (key = [] \/ valid_key key) ->
  unset s key rl = TOk a ->
  (forall k, gone rl key k -> lk (act_node a) k = None) /\
  (forall k, stays rl key k -> lk (act_node a) k = lk s k).
Proof.
  induction s as [|v|ck cv IH|cs IH|h] using node_ind'; intros key rl a Hs Hu Hk E.
  - inversion E; subst. simpl. split; intros; apply lk_empty || reflexivity.
  - discriminate.
  - (* short *)
    destruct Hs as [?|[[? ?]|Hw]]; try discriminate.
    cbn [unset] in E. pose proof (is_prefix_strip ck key) as Sp.
    destruct (strip ck key) as [rest|] eqn:Es.
    + destruct Sp as [S1 S2]. rewrite S1, S2 in E. cbn [negb] in E. apply strip_some in Es. subst key.
      assert (Hu' : ulen cv (length rest)).
      { intros r v L. specialize (Hu (ck ++ r) v). rewrite lk_short, strip_app_same in Hu.
        specialize (Hu L). rewrite !app_length in Hu. lia. }
      assert (Hlk : forall x k, lk (NShort ck x) k = match strip ck k with Some r => lk x r | None => None end)
        by (intros; apply lk_short).
      inversion Hw as [? v Vk Sk Hv|? ? Nk Ne Sk Hc|]; subst.
      * (* leaf *)
        inversion E; subst a. cbn [act_node]. split; [intros; apply lk_empty|].
        intros k St. rewrite lk_empty, lk_leaf. destruct (bytes_eqb k ck) eqn:B; [|reflexivity].
        apply bytes_eqb_eq in B. subst k. exfalso.
        assert (rest = []).
        { specialize (Hu ck v). rewrite lk_leaf, bytes_eqb_refl in Hu. specialize (Hu eq_refl).
          rewrite app_length in Hu. destruct rest; [reflexivity|simpl in Hu; lia]. }
        subst rest. rewrite app_nil_r in St. unfold stays in St. destruct rl; rewrite slice_lt_irrefl in St; discriminate.
      * (* extension *)
        assert (Hk' : rest = [] \/ valid_key rest).
        { destruct rest as [|x rest]; [left; reflexivity|right]. destruct Hk as [Hk|Hk]; [destruct ck; discriminate|].
          apply (valid_key_app_inv _ _ Hk). discriminate. }
        destruct cv as [| |ck2 cv2|cs2|]; try solve [inversion Hc].
        -- destruct (unset (NShort ck2 cv2) rest rl) as [[cv'|]|e] eqn:Eu; try discriminate.
           inversion E; subst a. cbn [act_node].
           destruct (IH rest rl _ (or_intror (or_intror Hc)) Hu' Hk' Eu) as [G St]. cbn [act_node] in G, St.
           split; intros k Hg; rewrite !Hlk; destruct (strip ck k) as [r|] eqn:Er; try reflexivity.
           ++ apply strip_some in Er. subst k. apply G. unfold gone in *.
              destruct Hg as [Hg|Hg]; [left; apply app_inv_head in Hg; exact Hg|right].
              destruct rl; rewrite slice_lt_app in Hg; exact Hg.
           ++ apply strip_some in Er. subst k. apply St. unfold stays in *. destruct rl; rewrite slice_lt_app in Hg; exact Hg.
        -- destruct (unset (NFull cs2) rest rl) as [[cv'|]|e] eqn:Eu; try discriminate.
           inversion E; subst a. cbn [act_node].
           destruct (IH rest rl _ (or_intror (or_intror Hc)) Hu' Hk' Eu) as [G St]. cbn [act_node] in G, St.
           split; intros k Hg; rewrite !Hlk; destruct (strip ck k) as [r|] eqn:Er; try reflexivity.
           ++ apply strip_some in Er. subst k. apply G. unfold gone in *.
              destruct Hg as [Hg|Hg]; [left; apply app_inv_head in Hg; exact Hg|right].
              destruct rl; rewrite slice_lt_app in Hg; exact Hg.
           ++ apply strip_some in Er. subst k. apply St. unfold stays in *. destruct rl; rewrite slice_lt_app in Hg; exact Hg.
    + (* the path leaves the trie at this short node *)
      rewrite Sp in E. cbn [negb] in E.
      assert (Hmis : forall k v, lk (NShort ck cv) k = Some v ->
                k <> key /\ slice_lt key k = slice_lt key ck /\ (slice_lt k key = true <-> slice_lt key ck = false)).
      { intros k v L. pose proof (Hu _ _ L) as Hl. rewrite lk_short in L.
        destruct (strip ck k) as [r|] eqn:Er; [|discriminate]. apply strip_some in Er. subst k.
        assert (Hne : ck ++ r <> key) by (intros <-; rewrite strip_app_same in Es; discriminate).
        assert (Hm : slice_lt key (ck ++ r) = slice_lt key ck).
        { apply slice_lt_mismatch; [exact Es|]. rewrite <- Hl, app_length. lia. }
        split; [exact Hne|]. split; [exact Hm|]. rewrite <- Hm. split.
        - intros Lt. apply slice_lt_asym. exact Lt.
        - intros Lt. apply slice_lt_total; [congruence|exact Lt]. }
      assert (Hcase : forall (b : bool) (a0 : uact),
                a0 = (if b then URemove else UKeep (NShort ck cv)) ->
                (b = true -> forall k, stays rl key k -> lk (NShort ck cv) k = None) ->
                (b = false -> forall k, gone rl key k -> lk (NShort ck cv) k = None) ->
                (forall k, gone rl key k -> lk (act_node a0) k = None) /\
                (forall k, stays rl key k -> lk (act_node a0) k = lk (NShort ck cv) k)).
      { intros b a0 -> H1 H2. destruct b; cbn [act_node].
        - split; [intros; apply lk_empty|]. intros k St. rewrite lk_empty. symmetry. apply H1; auto.
        - split; [apply H2; reflexivity|reflexivity]. }
      destruct rl.
      * apply (Hcase (slice_lt ck key)); [inversion E; reflexivity| |].
        -- intros B k St. unfold stays in St. destruct (lk (NShort ck cv) k) as [v|] eqn:L; [|reflexivity].
           destruct (Hmis _ _ L) as (_ & M & _). rewrite M in St. rewrite (slice_lt_asym _ _ St) in B. discriminate.
        -- intros B k [->|Hg]; destruct (lk (NShort ck cv) _) as [v|] eqn:L; try reflexivity.
           ++ destruct (Hmis _ _ L) as (Ne & _). congruence.
           ++ destruct (Hmis _ _ L) as (Ne & M & M2). apply M2 in Hg.
              assert (ck <> key) by (intros ->; rewrite strip_self in Es; discriminate).
              rewrite (slice_lt_total key ck ltac:(congruence) Hg) in B. discriminate.
      * apply (Hcase (slice_lt key ck)); [inversion E; reflexivity| |].
        -- intros B k St. unfold stays in St. destruct (lk (NShort ck cv) k) as [v|] eqn:L; [|reflexivity].
           destruct (Hmis _ _ L) as (_ & _ & M2). apply M2 in St. congruence.
        -- intros B k [->|Hg]; destruct (lk (NShort ck cv) _) as [v|] eqn:L; try reflexivity.
           ++ destruct (Hmis _ _ L) as (Ne & _). congruence.
           ++ destruct (Hmis _ _ L) as (_ & M & _). congruence.
  - (* branch *)
    destruct Hs as [?|[[? ?]|Hw]]; try discriminate.
    destruct key as [|k0 kr]; [discriminate|]. destruct Hk as [?|Hk]; [discriminate|].
    rewrite unset_full in E. cbv zeta in E.
    destruct (nth_error cs (N.to_nat k0)) as [c|] eqn:Ec; [|discriminate].
    destruct (unset c kr rl) as [a0|e] eqn:Eu; [|discriminate].
    set (cs1 := if rl then clear_range 0 (N.to_nat k0) cs else clear_range (N.to_nat k0 + 1) 16 cs) in E.
    destruct (apply_act cs1 k0 a0) as [cs2|] eqn:Ea; [|discriminate]. inversion E; subst a. cbn [act_node].
    destruct (apply_act_nth _ _ _ _ Ea) as [L2 N2].
    assert (N1 : forall j, nth_error cs1 j = match nth_error cs j with
              | Some x => Some (if (if rl then Nat.ltb j (N.to_nat k0) else Nat.ltb (N.to_nat k0) j && Nat.ltb j 16) then NEmpty else x)
              | None => None end).
    { intros j. unfold cs1. destruct rl; rewrite clear_range_nth; destruct (nth_error cs j); try reflexivity.
      replace (Nat.leb (N.to_nat k0 + 1) j) with (Nat.ltb (N.to_nat k0) j); [reflexivity|].
      destruct (Nat.ltb_spec (N.to_nat k0) j); symmetry; [apply Nat.leb_le|apply Nat.leb_gt]; lia. }
    apply valid_key_cons in Hk.
    assert (Hs' : slotok c) by (eapply pwf_full_slot; eassumption).
    assert (Hu' : ulen c (length kr)).
    { intros r v L. specialize (Hu (k0 :: r) v). rewrite lk_full, Ec in Hu. specialize (Hu L). simpl in Hu. lia. }
    assert (Hk' : kr = [] \/ valid_key kr) by (destruct Hk as [[_ ->]|[_ Vr]]; auto).
    rewrite Forall_forall in IH.
    destruct (IH c (nth_error_In _ _ Ec) kr rl a0 Hs' Hu' Hk' Eu) as [G St].
    inversion Hw as [| |? L17 Cc V16]; subst.
    assert (Hslot16 : forall r v x, nth_error cs 16 = Some x -> lk x r = Some v -> r = [] /\ kr = []).
    { intros r v x Ex L. destruct (V16 x Ex) as [->|(v0 & -> & _)]; [rewrite lk_empty in L; discriminate|].
      rewrite lk_value in L. destruct r; [|discriminate]. split; [reflexivity|].
      specialize (Hu [16] v0). rewrite lk_full in Hu. change (N.to_nat 16) with 16%nat in Hu. rewrite Ex, lk_value in Hu.
      specialize (Hu eq_refl). simpl in Hu. destruct kr; [reflexivity|discriminate]. }
    split.
    + intros k Hg. destruct k as [|j r]; [apply lk_full_nil|]. rewrite lk_full, N2.
      destruct (Nat.eqb (N.to_nat j) (N.to_nat k0)) eqn:B.
      * apply Nat.eqb_eq in B. assert (j = k0) by lia. subst j. apply G. unfold gone in *.
        destruct Hg as [Hg|Hg]; [left; congruence|right].
        destruct rl; apply slice_lt_cons in Hg; destruct Hg as [?|[_ Hg]]; try lia; exact Hg.
      * apply Nat.eqb_neq in B. rewrite N1. destruct (nth_error cs (N.to_nat j)) as [x|] eqn:Ex; [|reflexivity].
        unfold gone in Hg. destruct Hg as [Hg|Hg]; [congruence|].
        destruct rl; apply slice_lt_cons in Hg; destruct Hg as [Hg|[? _]]; try (subst; congruence).
        -- replace (Nat.ltb (N.to_nat j) (N.to_nat k0)) with true by (symmetry; apply Nat.ltb_lt; lia). apply lk_empty.
        -- destruct (Nat.ltb_spec (N.to_nat j) 16).
           ++ replace (Nat.ltb (N.to_nat k0) (N.to_nat j)) with true by (symmetry; apply Nat.ltb_lt; lia). apply lk_empty.
           ++ replace (Nat.ltb (N.to_nat k0) (N.to_nat j) && false) with false by (rewrite andb_false_r; reflexivity).
              assert (N.to_nat j < 17)%nat by (rewrite <- L17; apply nth_error_Some; congruence).
              assert (E16 : N.to_nat j = 16%nat) by lia. rewrite E16 in Ex.
              destruct (lk x r) as [v|] eqn:L; [|reflexivity]. exfalso.
              destruct (Hslot16 _ _ _ Ex L) as [_ ->]. destruct Hk as [[-> _]|[_ []]]. lia.
    + intros k Hst. destruct k as [|j r]; [rewrite !lk_full_nil; reflexivity|]. rewrite !lk_full, N2.
      destruct (Nat.eqb (N.to_nat j) (N.to_nat k0)) eqn:B.
      * apply Nat.eqb_eq in B. assert (j = k0) by lia. subst j. rewrite Ec. apply St. unfold stays in *.
        destruct rl; apply slice_lt_cons in Hst; destruct Hst as [?|[_ Hst]]; try lia; exact Hst.
      * apply Nat.eqb_neq in B. rewrite N1. destruct (nth_error cs (N.to_nat j)) as [x|] eqn:Ex; [|reflexivity].
        unfold stays in Hst.
        destruct rl; apply slice_lt_cons in Hst; destruct Hst as [Hst|[? _]]; try (subst; congruence).
        -- replace (Nat.ltb (N.to_nat j) (N.to_nat k0)) with false by (symmetry; apply Nat.ltb_ge; lia). reflexivity.
        -- replace (Nat.ltb (N.to_nat k0) (N.to_nat j)) with false by (symmetry; apply Nat.ltb_ge; lia). reflexivity.
  - discriminate.
Qed.

Lemma unset_internal_full cs l0 lr r0 rr0 :
  unset_internal (NFull cs) (l0 :: lr) (r0 :: rr0) =
  match child cs l0, child cs r0 with
  | Some ln, Some rn =>
      match (if is_empty ln || is_empty rn then Some true else iface_neq l0 r0 ln rn) with
      | None => Rerr RPanic
      | Some true => ui_fork cs l0 lr r0 rr0
      | Some false =>
          match nth_error cs (N.to_nat l0) with
          | None => Rerr RPanic
          | Some c =>
              match unset_internal c lr rr0 with
              | Rerr e => Rerr e
              | Rok a => match apply_act cs l0 a with Some cs' => Rok (UKeep (NFull cs')) | None => Rerr RPanic end
              end
          end
      end
  | _, _ => Rerr RPanic
  end.
Proof.
  cbn [unset_internal]. cbv zeta.
  assert (E : (fix go (l : list node) (i : nat) {struct l} : option (rr uact) :=
                 match l with
                 | [] => None
                 | c :: l' => match i with O => Some (unset_internal c lr rr0) | S i' => go l' i' end
                 end) cs (N.to_nat l0) =
              match nth_error cs (N.to_nat l0) with Some c => Some (unset_internal c lr rr0) | None => None end).
  { generalize (N.to_nat l0). induction cs as [|c cs IH]; intros [|i]; simpl; auto. }
  rewrite E. destruct (child cs l0); [|reflexivity]. destruct (child cs r0); [|reflexivity].
  destruct (if is_empty n || is_empty n0 then Some true else iface_neq l0 r0 n n0) as [[|]|]; try reflexivity.
  destruct (nth_error cs (N.to_nat l0)); [|reflexivity]. destruct (unset_internal n1 lr rr0); reflexivity.
Qed.

Lemma firstn_eq_split (p l : list N) : firstn (length p) l = p -> l = p ++ skipn (length p) l.
Proof. intros E. rewrite <- E at 1. symmetry. apply firstn_skipn. Qed.

(* the keys of the closed interval [left, right] *)
Definition between (left right k : list N) : Prop :=
  (k = left \/ slice_lt left k = true) /\ (k = right \/ slice_lt k right = true).

(* unset_removes_interior: after unsetInternal no key of [left, right] is reachable *)
Lemma unset_internal_spec s : forall left right a,
  slotok s -> ulen s (length left) -> length left = length right ->
  valid_key left -> valid_key right -> slice_lt left right = true ->
  unset_internal s left right = Rok a ->
  forall k, between left right k -> lk (act_node a) k = None.
Proof.
  induction s as [|v|rk rv IH|cs IH|h] using node_ind'; intros left right a Hs Hu Hlen Vl Vr Hlt E; try discriminate.
  - (* short *)
    destruct Hs as [?|[[? ?]|Hw]]; try discriminate.
    assert (Hlk : forall x k, lk (NShort rk x) k = match strip rk k with Some r => lk x r | None => None end)
      by (intros; apply lk_short).
    (* what the two edge passes need *)
    assert (Hedge : forall key rest rl a0 rv',
              key = left \/ key = right ->
              key = rk ++ rest -> unset rv rest rl = TOk a0 -> a0 = UKeep rv' ->
              (forall k', gone rl rest k' -> lk rv' k' = None)).
    { intros key rest rl a0 rv' Hkey Esp Eu -> k' Hg.
      assert (Vk : valid_key key) by (destruct Hkey; subst key; assumption).
      assert (Lk : length key = length left) by (destruct Hkey; subst key; [reflexivity|symmetry; exact Hlen]).
      inversion Hw as [? v Vk0 Sk Hv|? ? Nk Ne Sk Hc|]; subst rk rv.
      - discriminate.
      - assert (Hrest : rest <> []).
        { intros Er. rewrite Er, app_nil_r in Esp. rewrite Esp in Vk. eapply valid_key_not_nibbles; eassumption. }
        rewrite Esp in Vk. destruct (valid_key_app_inv _ _ Vk Hrest) as [_ Vrest].
        destruct (unset_spec c rest rl (UKeep rv') (or_intror (or_intror Hc))) as [G _]; auto.
        intros r v L. specialize (Hu (k ++ r) v). rewrite lk_short, strip_app_same in Hu. specialize (Hu L).
        rewrite <- Lk, Esp, !app_length in Hu. lia. }
    cbn [unset_internal] in E. cbv zeta in E.
    destruct (bcmp (firstn (length rk) left) rk) eqn:Fl; destruct (bcmp (firstn (length rk) right) rk) eqn:Fr;
      try discriminate.
    + (* both edges go through *)
      apply bcmp_eq in Fl. apply bcmp_eq in Fr.
      pose proof (firstn_eq_split _ _ Fl) as El. pose proof (firstn_eq_split _ _ Fr) as Er.
      remember (skipn (length rk) left) as l' eqn:Dl in *. remember (skipn (length rk) right) as r' eqn:Dr in *.
      destruct (unset_internal rv l' r') as [[rv'|]|e] eqn:Eu; try discriminate. inversion E; subst a. cbn [act_node].
      intros k [B1 B2]. rewrite Hlk. destruct (strip rk k) as [k'|] eqn:Ek; [|reflexivity].
      apply strip_some in Ek. subst k.
      inversion Hw as [? v Vk0 Sk Hv|? ? Nk Ne Sk Hc|]; subst; [discriminate|].
      assert (Nl : l' <> []).
      { intros En. rewrite En, app_nil_r in El. rewrite El in Vl. eapply valid_key_not_nibbles; eassumption. }
      assert (Nr : r' <> []).
      { intros En. rewrite En, app_nil_r in Er. rewrite Er in Vr. eapply valid_key_not_nibbles; eassumption. }
      rewrite El in Vl, B1, Hlt, Hlen, Hu. rewrite Er in Vr, B2, Hlt, Hlen.
      destruct (valid_key_app_inv _ _ Vl Nl) as [_ Vl']. destruct (valid_key_app_inv _ _ Vr Nr) as [_ Vr'].
      rewrite slice_lt_app in Hlt. rewrite !app_length in Hlen.
      apply (IH l' r' (UKeep rv') (or_intror (or_intror Hc))); auto.
      * intros r v L. specialize (Hu (rk ++ r) v). rewrite lk_short, strip_app_same in Hu. specialize (Hu L).
        rewrite !app_length in Hu. lia.
      * lia.
      * split.
        -- destruct B1 as [B1|B1]; [left; apply app_inv_head in B1; exact B1|right; rewrite slice_lt_app in B1; exact B1].
        -- destruct B2 as [B2|B2]; [left; apply app_inv_head in B2; exact B2|right; rewrite slice_lt_app in B2; exact B2].
    + (* Eq, Lt *)
      apply bcmp_eq in Fl. pose proof (firstn_eq_split _ _ Fl) as El.
      intros k [B1 _]. destruct rv as [|v|k2 c2|cs2|h2]; try (inversion E; subst a; apply lk_empty).
      all: match type of E with context [unset ?x ?y false] => destruct (unset x y false) as [[rv'|]|e] eqn:Eu end; try discriminate.
      all: inversion E; subst a; cbn [act_node]; rewrite Hlk; destruct (strip rk k) as [k'|] eqn:Ek; [|reflexivity].
      all: apply strip_some in Ek; subst k; apply (Hedge left _ false _ rv' (or_introl eq_refl) El Eu eq_refl).
      all: unfold gone; rewrite El in B1; destruct B1 as [B1|B1]; [left; apply app_inv_head in B1; exact B1|right; rewrite slice_lt_app in B1; exact B1].
    + (* Eq, Gt *)
      apply bcmp_eq in Fl. pose proof (firstn_eq_split _ _ Fl) as El.
      intros k [B1 _]. destruct rv as [|v|k2 c2|cs2|h2]; try (inversion E; subst a; apply lk_empty).
      all: match type of E with context [unset ?x ?y false] => destruct (unset x y false) as [[rv'|]|e] eqn:Eu end; try discriminate.
      all: inversion E; subst a; cbn [act_node]; rewrite Hlk; destruct (strip rk k) as [k'|] eqn:Ek; [|reflexivity].
      all: apply strip_some in Ek; subst k; apply (Hedge left _ false _ rv' (or_introl eq_refl) El Eu eq_refl).
      all: unfold gone; rewrite El in B1; destruct B1 as [B1|B1]; [left; apply app_inv_head in B1; exact B1|right; rewrite slice_lt_app in B1; exact B1].
    + (* Lt, Eq *)
      apply bcmp_eq in Fr. pose proof (firstn_eq_split _ _ Fr) as Er.
      intros k [_ B2]. destruct rv as [|v|k2 c2|cs2|h2]; try (inversion E; subst a; apply lk_empty).
      all: match type of E with context [unset ?x ?y true] => destruct (unset x y true) as [[rv'|]|e] eqn:Eu end; try discriminate.
      all: inversion E; subst a; cbn [act_node]; rewrite Hlk; destruct (strip rk k) as [k'|] eqn:Ek; [|reflexivity].
      all: apply strip_some in Ek; subst k; apply (Hedge right _ true _ rv' (or_intror eq_refl) Er Eu eq_refl).
      all: unfold gone; rewrite Er in B2; destruct B2 as [B2|B2]; [left; apply app_inv_head in B2; exact B2|right; rewrite slice_lt_app in B2; exact B2].
    + (* Lt, Gt *) inversion E; subst a. intros; apply lk_empty.
    + (* Gt, Eq *)
      apply bcmp_eq in Fr. pose proof (firstn_eq_split _ _ Fr) as Er.
      intros k [_ B2]. destruct rv as [|v|k2 c2|cs2|h2]; try (inversion E; subst a; apply lk_empty).
      all: match type of E with context [unset ?x ?y true] => destruct (unset x y true) as [[rv'|]|e] eqn:Eu end; try discriminate.
      all: inversion E; subst a; cbn [act_node]; rewrite Hlk; destruct (strip rk k) as [k'|] eqn:Ek; [|reflexivity].
      all: apply strip_some in Ek; subst k; apply (Hedge right _ true _ rv' (or_intror eq_refl) Er Eu eq_refl).
      all: unfold gone; rewrite Er in B2; destruct B2 as [B2|B2]; [left; apply app_inv_head in B2; exact B2|right; rewrite slice_lt_app in B2; exact B2].
    + (* Gt, Lt *) inversion E; subst a. intros; apply lk_empty.
  - (* branch *)
    destruct Hs as [?|[[? ?]|Hw]]; try discriminate.
    destruct left as [|l0 lr]; [destruct Vl|]. destruct right as [|r0 rr0]; [destruct Vr|].
    rewrite unset_internal_full in E. unfold child in E.
    destruct (nth_error cs (N.to_nat l0)) as [ln|] eqn:Eln; [|discriminate].
    destruct (nth_error cs (N.to_nat r0)) as [rn|] eqn:Ern; [|discriminate].
    inversion Hw as [| |? L17 Cc V16]; subst.
    apply slice_lt_cons in Hlt.
    assert (Hul : forall j c, nth_error cs (N.to_nat j) = Some c -> ulen c (length lr)).
    { intros j c Ec r v L. specialize (Hu (j :: r) v). rewrite lk_full, Ec in Hu. specialize (Hu L). simpl in Hu. lia. }
    assert (Hkl : lr = [] \/ valid_key lr) by (apply valid_key_cons in Vl; destruct Vl as [[_ ->]|[_ ?]]; auto).
    assert (Hkr : rr0 = [] \/ valid_key rr0) by (apply valid_key_cons in Vr; destruct Vr as [[_ ->]|[_ ?]]; auto).
    assert (Hrange : forall j r, between (l0 :: lr) (r0 :: rr0) (j :: r) -> l0 <= j <= r0).
    { intros j r [B1 B2]. split.
      - destruct B1 as [B1|B1]; [inversion B1; lia|]. apply slice_lt_cons in B1. lia.
      - destruct B2 as [B2|B2]; [inversion B2; lia|]. apply slice_lt_cons in B2. lia. }
    destruct (if is_empty ln || is_empty rn then Some true else iface_neq l0 r0 ln rn) as [[|]|] eqn:Fk; [| |discriminate].
    + (* the fork point *)
      unfold ui_fork in E. cbv zeta in E. unfold child in E.
      set (cs1 := clear_range (N.to_nat l0 + 1) (N.to_nat r0) cs) in E.
      assert (N1 : forall j, nth_error cs1 j = match nth_error cs j with
                | Some x => Some (if Nat.ltb (N.to_nat l0) j && Nat.ltb j (N.to_nat r0) then NEmpty else x)
                | None => None end).
      { intros j. unfold cs1. rewrite clear_range_nth. destruct (nth_error cs j); [|reflexivity].
        replace (Nat.leb (N.to_nat l0 + 1) j) with (Nat.ltb (N.to_nat l0) j); [reflexivity|].
        destruct (Nat.ltb_spec (N.to_nat l0) j); symmetry; [apply Nat.leb_le|apply Nat.leb_gt]; lia. }
      rewrite N1, Eln in E. rewrite Nat.ltb_irrefl in E. cbn [andb] in E.
      destruct (unset ln lr false) as [a1|e] eqn:E1; [|discriminate].
      destruct (apply_act cs1 l0 a1) as [cs2|] eqn:A1; [|discriminate].
      destruct (apply_act_nth _ _ _ _ A1) as [_ N2].
      destruct (nth_error cs2 (N.to_nat r0)) as [c2|] eqn:Ec2; [|discriminate].
      destruct (unset c2 rr0 true) as [a2|e] eqn:E2; [|discriminate].
      destruct (apply_act cs2 r0 a2) as [cs3|] eqn:A2; [|discriminate].
      destruct (apply_act_nth _ _ _ _ A2) as [_ N3].
      inversion E; subst a. cbn [act_node].
      destruct (unset_spec ln lr false a1 (pwf_full_slot _ _ _ Hw Eln) (Hul _ _ Eln) Hkl E1) as [G1 _].
      intros k Hb. destruct k as [|j r]; [apply lk_full_nil|]. pose proof (Hrange _ _ Hb) as Hj. destruct Hb as [B1 B2].
      rewrite lk_full, N3.
      destruct (N.eq_dec l0 r0) as [<-|Hne].
      * (* both edges point to the same (necessarily nil) slot *)
        rewrite Ern in Eln. inversion Eln; subst rn.
        assert (ln = NEmpty).
        { destruct ln; try reflexivity; cbn in Fk; rewrite ?N.eqb_refl in Fk; discriminate. }
        subst ln. inversion E1; subst a1. rewrite N2, Nat.eqb_refl in Ec2. inversion Ec2; subst c2.
        inversion E2; subst a2. assert (j = l0) by lia. subst j. rewrite Nat.eqb_refl. apply lk_empty.
      * assert (Hlt0 : l0 < r0) by lia.
        destruct (Nat.eqb (N.to_nat j) (N.to_nat r0)) eqn:Br.
        -- apply Nat.eqb_eq in Br. assert (j = r0) by lia. subst j.
           rewrite N2 in Ec2. replace (Nat.eqb (N.to_nat r0) (N.to_nat l0)) with false in Ec2 by (symmetry; apply Nat.eqb_neq; lia).
           rewrite N1, Ern in Ec2. rewrite Nat.ltb_irrefl, andb_false_r in Ec2. inversion Ec2; subst c2.
           rewrite <- Hlen in *. 
           destruct (unset_spec rn rr0 true a2 (pwf_full_slot _ _ _ Hw Ern)) as [G2 _]; auto.
           { intros r' v L. specialize (Hu (r0 :: r') v). rewrite lk_full, Ern in Hu. specialize (Hu L).
             simpl in Hu, Hlen. lia. }
           apply G2. unfold gone. destruct B2 as [B2|B2]; [left; congruence|right].
           apply slice_lt_cons in B2. destruct B2 as [?|[_ B2]]; [lia|exact B2].
        -- apply Nat.eqb_neq in Br. rewrite N2.
           destruct (Nat.eqb (N.to_nat j) (N.to_nat l0)) eqn:Bl.
           ++ apply Nat.eqb_eq in Bl. assert (j = l0) by lia. subst j. apply G1. unfold gone.
              destruct B1 as [B1|B1]; [left; congruence|right].
              apply slice_lt_cons in B1. destruct B1 as [?|[_ B1]]; [lia|exact B1].
           ++ apply Nat.eqb_neq in Bl. rewrite N1. destruct (nth_error cs (N.to_nat j)); [|reflexivity].
              replace (Nat.ltb (N.to_nat l0) (N.to_nat j) && Nat.ltb (N.to_nat j) (N.to_nat r0)) with true.
              ** apply lk_empty.
              ** symmetry. apply andb_true_iff. split; apply Nat.ltb_lt; lia.
    + (* both edges continue into the same child *)
      assert (l0 = r0).
      { destruct (is_empty ln || is_empty rn); [discriminate|].
        destruct ln, rn; cbn in Fk; try discriminate; inversion Fk as [Fe]; apply negb_false_iff in Fe; apply N.eqb_eq; exact Fe. }
      subst r0. rewrite Ern in Eln. inversion Eln; subst rn.
      destruct (unset_internal ln lr rr0) as [a0|e] eqn:Eu; [|discriminate].
      destruct (apply_act cs l0 a0) as [cs'|] eqn:Aa; [|discriminate]. inversion E; subst a. cbn [act_node].
      destruct (apply_act_nth _ _ _ _ Aa) as [_ Nn].
      intros k Hb. destruct k as [|j r]; [apply lk_full_nil|]. pose proof (Hrange _ _ Hb) as Hj.
      assert (j = l0) by lia. subst j. rewrite lk_full, Nn, Nat.eqb_refl.
      destruct Hlt as [?|[_ Hlt]]; [lia|]. simpl in Hlen.
      assert (Hne : ln <> NEmpty /\ (forall v, ln <> NValue v)).
      { destruct ln; cbn in Fk; try discriminate; split; intros; discriminate. }
      assert (Vl' : valid_key lr).
      { destruct Hkl as [->|?]; [|assumption]. destruct rr0; [|discriminate]. discriminate. }
      assert (Vr' : valid_key rr0).
      { destruct Hkr as [->|?]; [|assumption]. destruct lr; [destruct Vl'|discriminate]. }
      rewrite Forall_forall in IH.
      apply (IH ln (nth_error_In _ _ Ern) lr rr0 a0 (pwf_full_slot _ _ _ Hw Ern) (Hul _ _ Ern)); auto.
      destruct Hb as [B1 B2]. split.
      * destruct B1 as [B1|B1]; [left; congruence|right]. apply slice_lt_cons in B1. destruct B1 as [?|[_ B1]]; [lia|exact B1].
      * destruct B2 as [B2|B2]; [left; congruence|right]. apply slice_lt_cons in B2. destruct B2 as [?|[_ B2]]; [lia|exact B2].
Qed.
