(* Trie/GenerateFlat2.v — C11_gen_flat on the whole database (see Trie/GenerateFlat.v). *)
From GV Require Import Lib.Tactics Lib.Bytes Rlp.Codec Trie.Hex Trie.HexProofs Trie.Node Trie.Ops Trie.Hash Trie.OpsProofs Trie.Canon Trie.Stack Trie.StackProofs Trie.Commit Trie.CommitProofs Trie.CommitTracer Trie.Generate Trie.GenerateProofs Trie.GenerateWalk Trie.GenerateWalk2 Trie.GenerateWalk3 Trie.GenerateKeys Trie.GenerateSched Trie.GenerateRoot Trie.GenerateRoot2 Trie.GenerateFlat.
Local Open Scope N_scope.

(* ---------------------------------------------------------------- sorted association lists are determined by their lookups *)

Lemma sorted_ext {A} : forall (a b : amap A), sorted a -> sorted b ->
  (forall h, am_get h a = am_get h b) -> a = b.
Proof.
  induction a as [|[k v] a IH]; intros b Ha Hb He.
  - destruct b as [|[k' v'] b]; [reflexivity|]. specialize (He k'). cbn in He. rewrite beqb_refl in He. discriminate.
  - destruct b as [|[k' v'] b]; [specialize (He k); cbn in He; rewrite beqb_refl in He; discriminate|].
    inversion Ha as [|? ? ? Aa Sa]; subst. inversion Hb as [|? ? ? Ab Sb]; subst.
    assert (Ek : k = k').
    { destruct (bytes_cmp k k') eqn:C.
      - apply bcmp_eq in C. exact C.
      - pose proof (He k) as E. cbn in E. rewrite beqb_refl in E.
        rewrite beqb_neq in E by (intros ->; rewrite bcmp_refl in C; discriminate).
        rewrite (above_get k b) in E; [discriminate|]. eapply above_weaken; eassumption.
      - apply bcmp_gt_lt in C. pose proof (He k') as E. cbn in E. rewrite beqb_refl in E.
        rewrite beqb_neq in E by (intros ->; rewrite bcmp_refl in C; discriminate).
        rewrite (above_get k' a) in E; [discriminate|]. eapply above_weaken; eassumption. }
    subst k'. pose proof (He k) as E. cbn in E. rewrite beqb_refl in E. inversion E; subst v'.
    f_equal. apply IH; [exact Sa|exact Sb|]. intros h. specialize (He h). cbn in He.
    destruct (bytes_eqb h k) eqn:B; [|exact He]. apply beqb_eq in B. subst h.
    rewrite (above_get k a Aa), (above_get k b Ab). reflexivity.
Qed.

Lemma above_map_keys {A B} (f : list N * A -> list N * B) k (m : amap A) :
  (forall kv, fst (f kv) = fst kv) -> above k m -> above k (map f m).
Proof. intros Hf. unfold above. rewrite !Forall_forall. intros Ha x Hx. apply in_map_iff in Hx as (y & <- & Hy). rewrite Hf. apply Ha, Hy. Qed.

Lemma sorted_map_keys {A B} (f : list N * A -> list N * B) (m : amap A) :
  (forall kv, fst (f kv) = fst kv) -> sorted m -> sorted (map f m).
Proof.
  intros Hf. induction 1 as [|k v m Ab _ IH]; [constructor|]. cbn [map].
  destruct (f (k, v)) as [k' v'] eqn:E. assert (k' = k) by (pose proof (Hf (k, v)) as Hk; rewrite E in Hk; exact Hk). subst k'.
  constructor; [apply above_map_keys; assumption|exact IH].
Qed.

Lemma am_get_map_keys {A B} (f : list N * A -> list N * B) h : (forall kv, fst (f kv) = fst kv) ->
  forall m, am_get h (map f m) = match am_get h m with Some v => Some (snd (f (h, v))) | None => None end.
Proof.
  intros Hf. induction m as [|[k v] m IH]; [reflexivity|]. cbn [map]. destruct (f (k, v)) as [k' v'] eqn:E.
  assert (k' = k) by (pose proof (Hf (k, v)) as Hk; rewrite E in Hk; exact Hk). subst k'. cbn [am_get].
  destruct (bytes_eqb h k) eqn:Bq; [|exact IH]. apply beqb_eq in Bq. subst h. rewrite E. reflexivity.
Qed.

Lemma sorted_get_In {A} (m : amap A) h v : sorted m -> In (h, v) m -> am_get h m = Some v.
Proof.
  induction 1 as [|k v0 m Ab _ IH]; [intros []|]. intros [E|Hin]; cbn [am_get].
  - inversion E; subst. rewrite beqb_refl. reflexivity.
  - rewrite beqb_neq; [apply IH, Hin|]. intros ->.
    unfold above in Ab. rewrite Forall_forall in Ab. specialize (Ab _ Hin). cbn in Ab. rewrite bcmp_refl in Ab. discriminate.
Qed.

Lemma am_del_filter {A} k (m : amap A) : am_del k m = filter (fun kv => negb (bytes_eqb k (fst kv))) m.
Proof. induction m as [|[k' v'] m IH]; [reflexivity|]. cbn [am_del filter fst]. destruct (bytes_eqb k k'); cbn [negb]; rewrite IH; reflexivity. Qed.

Lemma fold_del_filter {A} D : forall (m : amap A),
  fold_left (fun m k => am_del k m) D m = filter (fun kv => negb (existsb (fun k => bytes_eqb k (fst kv)) D)) m.
Proof.
  induction D as [|k D IH]; intros m; cbn [fold_left existsb].
  - symmetry. induction m as [|x m IHm]; [reflexivity|]. cbn. f_equal. exact IHm.
  - rewrite IH, am_del_filter. induction m as [|x m IHm]; [reflexivity|]. cbn [filter].
    destruct (bytes_eqb k (fst x)); cbn [negb orb filter]; [exact IHm|].
    destruct (existsb (fun k0 => bytes_eqb k0 (fst x)) D); cbn [negb]; rewrite IHm; reflexivity.
Qed.

Lemma fold_put_get {A} (W : list (list N * A)) : forall m h,
  am_get h (fold_left (fun m hv => am_put (fst hv) (snd hv) m) W m) =
  match am_get h (rev W) with Some v => Some v | None => am_get h m end.
Proof.
  induction W as [|x W IH] using rev_ind; intros m h; [reflexivity|].
  rewrite fold_left_app, rev_app_distr. cbn [fold_left rev app am_get]. rewrite am_get_put.
  destruct x as [k v]. cbn [fst snd]. destruct (bytes_eqb h k); [reflexivity|]. apply IH.
Qed.

Lemma fold_put_sorted {A} (W : list (list N * A)) : forall m, sorted m ->
  sorted (fold_left (fun m hv => am_put (fst hv) (snd hv) m) W m).
Proof. induction W as [|x W IH]; intros m Hs; [exact Hs|]. cbn [fold_left]. apply IH, sorted_put, Hs. Qed.

Lemma F2_in_r {A B} (P : A -> B -> Prop) la lb b : Forall2 P la lb -> In b lb -> exists a, In a la /\ P a b.
Proof. induction 1 as [|a0 b0 la lb Hp _ IH]; [intros []|]. intros [<-|Hin]; [exists a0; simpl; auto|]. destruct (IH Hin) as (a & ? & ?). exists a. simpl; auto. Qed.
Lemma F2_in_l {A B} (P : A -> B -> Prop) la lb a : Forall2 P la lb -> In a la -> exists b, In b lb /\ P a b.
Proof. induction 1 as [|a0 b0 la lb Hp _ IH]; [intros []|]. intros [<-|Hin]; [exists b0; simpl; auto|]. destruct (IH Hin) as (b & ? & ?). exists b. simpl; auto. Qed.

Section Flat2.
  Variable H : list N -> list N.
  Hypothesis H_len : forall x, length (H x) = 32%nat.

  Lemma stor_apply ws : forall db, g_stor (apply_ws db ws) = fold_left (fun m k => am_del k m) (dels ws) (g_stor db).
  Proof. induction ws as [|w ws IH]; intros db; [reflexivity|]. cbn [apply_ws fold_left]. fold (apply_ws (apply_w db w) ws). rewrite IH. destruct w; reflexivity. Qed.

  Lemma accts_apply ws : forall db, g_accts (apply_ws db ws) =
    fold_left (fun m hv => am_put (fst hv) (snd hv) m) (acws ws) (g_accts db).
  Proof. induction ws as [|w ws IH]; intros db; [reflexivity|]. cbn [apply_ws fold_left]. fold (apply_ws (apply_w db w) ws). rewrite IH. destruct w; reflexivity. Qed.

  Lemma fold_rs rs : forall db, fold_left (fun d r => apply_ws d (r_ws r)) rs db = apply_ws db (concat (map r_ws rs)).
  Proof. induction rs as [|r rs IH]; intros db; [reflexivity|]. cbn [fold_left map concat]. rewrite IH, apply_ws_app. reflexivity. Qed.

  Lemma assemble_flat sc blobs got ws : assemble_root H sc blobs = GOk (got, ws) -> dels ws = [] /\ acws ws = [].
  Proof.
    unfold assemble_root. intros E.
    destruct (length (filter (fun b : option (list N) => match b with Some _ => true | None => false end) blobs)) as [|[|n]].
    - inversion E; subst. auto.
    - destruct (fold_left _ _ None) as [[i blob]|]; [|discriminate].
      destruct (mount_partition_root H blob (N.of_nat i)) as [[[rh rb] orphan]|]; [|discriminate].
      inversion E; subst. destruct orphan; auto.
    - inversion E; subst. auto.
  Qed.

  Lemma dels_concat l : dels (concat l) = concat (map dels l).
  Proof. induction l as [|x l IH]; [reflexivity|]. cbn [concat map]. rewrite dels_app, IH. reflexivity. Qed.
  Lemma acws_concat l : acws (concat l) = concat (map acws l).
  Proof. induction l as [|x l IH]; [reflexivity|]. cbn [concat map]. rewrite acws_app, IH. reflexivity. Qed.

  (* the corrected flat state *)
  Definition fix_entry (stor : amap (list N)) (kv : list N * list N) : list N * list N :=
    (fst kv, match rewrites H stor kv with (_, v) :: _ => v | [] => snd kv end).
  Definition correct_accts (db : gdb) : amap (list N) := map (fix_entry (g_stor db)) (g_accts db).
  Definition correct_stor (db : gdb) : amap (list N) :=
    filter (fun kv => am_has (sa kv) (g_accts db)) (g_stor db).

  Lemma in_partitions q : q < 16 -> In q partitions.
  Proof.
    intros Hq. assert (Hn : nth_error partitions (N.to_nat q) = Some (N.of_nat (N.to_nat q))).
    { assert (Hq' : (N.to_nat q < 16)%nat) by lia. revert Hq'. generalize (N.to_nat q). intros n Hn.
      do 16 (destruct n as [|n]; [reflexivity|]). lia. }
    rewrite N2Nat.id in Hn. eapply nth_error_In; eassumption.
  Qed.

  Lemma rewrites_shape stor kv x : In x (rewrites H stor kv) -> rewrites H stor kv = [x] /\ fst x = fst kv.
  Proof.
    unfold rewrites. destruct (full_account H (snd kv)); [|intros []].
    destruct (bytes_eqb _ _); [intros []|]. intros [<-|[]]. auto.
  Qed.

  Theorem gen_flat sc expected db st : wf_db db ->
    fst (generate H sc expected db) = GOk st ->
    g_accts (snd (generate H sc expected db)) = correct_accts db /\
    g_stor (snd (generate H sc expected db)) = correct_stor db.
  Proof.
    intros Hwf Hok. destruct (gen_ok_root H sc expected db st Hok) as (rs & ws & Er & Ea & ->).
    pose proof (run_partitions_F2 H sc db partitions rs Er) as HF2.
    destruct (assemble_flat _ _ _ _ Ea) as [Dw Aw].
    rewrite fold_rs, apply_ws_app.
    pose proof Hwf as [Hsa Hss Hka Hks].
    split.
    - (* accounts *)
      rewrite accts_apply. set (W := acws (concat (map r_ws rs) ++ ws)).
      assert (HW : forall h v, In (h, v) W <-> exists kv, In kv (g_accts db) /\ In (h, v) (rewrites H (g_stor db) kv)).
      { intros h v. unfold W. rewrite acws_app, Aw, app_nil_r, acws_concat, map_map, in_concat. split.
        - intros (l & Hl & Hin). apply in_map_iff in Hl as (r & <- & Hr).
          destruct (F2_in_r _ _ _ _ HF2 Hr) as (p & _ & Ep).
          destruct (partition_flat H H_len sc p db r Hwf Ep) as [_ [Ew _]]. rewrite Ew in Hin.
          apply in_flat_map in Hin as (kv & Hkv & Hin). exists kv. split; [|exact Hin].
          apply (part_key p db kv Hwf Hkv).
        - intros (kv & Hkv & Hin).
          pose proof Hka as Hka'. unfold wf_accts in Hka'. rewrite Forall_forall in Hka'.
          pose proof (nib0_lt16 _ (Hka' kv Hkv)) as Hq.
          destruct (F2_in_l _ _ _ _ HF2 (in_partitions _ Hq)) as (r & Hr & Ep).
          destruct (partition_flat H H_len sc _ db r Hwf Ep) as [_ [Ew _]].
          exists (acws (r_ws r)). split; [apply in_map_iff; exists r; auto|]. rewrite Ew.
          apply in_flat_map. exists kv. split; [|exact Hin]. unfold part. apply filter_In. split; [exact Hkv|].
          unfold in_part. apply N.eqb_refl. }
      apply sorted_ext.
      + apply fold_put_sorted. exact Hsa.
      + unfold correct_accts. apply sorted_map_keys; [intros kv; reflexivity|exact Hsa].
      + intros h. rewrite fold_put_get. unfold correct_accts.
        rewrite (am_get_map_keys (fix_entry (g_stor db)) h (fun kv => eq_refl)).
        destruct (am_get h (rev W)) as [v|] eqn:Eg.
        * apply am_get_in, in_rev in Eg. apply HW in Eg as (kv & Hkv & Hin).
          destruct (rewrites_shape _ _ _ Hin) as [Esh Ek]. cbn [fst] in Ek. destruct kv as [k slim]. cbn [fst] in Ek. subst k.
          rewrite (sorted_get_In _ _ _ Hsa Hkv). unfold fix_entry. cbn [snd fst]. rewrite Esh. reflexivity.
        * destruct (am_get h (g_accts db)) as [slim|] eqn:Eh; [|reflexivity].
          unfold fix_entry. cbn [fst snd].
          destruct (rewrites H (g_stor db) (h, slim)) as [|[k v] l] eqn:Erw; [reflexivity|].
          exfalso. destruct (rewrites_shape (g_stor db) (h, slim) (k, v)) as [_ Ek]; [rewrite Erw; left; reflexivity|].
          cbn [fst] in Ek. subst k.
          assert (Hin : In (h, v) W) by (apply HW; exists (h, slim); split; [apply am_get_in; exact Eh|rewrite Erw; left; reflexivity]).
          apply in_rev in Hin. destruct (am_in_get _ _ _ Hin) as [v' Ev']. congruence.
    - (* storage *)
      rewrite stor_apply, fold_del_filter. unfold correct_stor. apply filter_ext_in. intros [k v] Hin. cbn [fst].
      set (D := dels (concat (map r_ws rs) ++ ws)).
      pose proof Hks as Hks'. unfold wf_stor in Hks'. rewrite Forall_forall in Hks'. destruct (Hks' (k, v) Hin) as [L64 Hb]. cbn [fst] in *.
      pose proof (key32_sa k L64 Hb) as Hk32.
      assert (HD : In k D <-> ~ In (firstn 32 k) (map fst (g_accts db))).
      { unfold D. rewrite dels_app, Dw, app_nil_r, dels_concat, map_map, in_concat. split.
        - intros (l & Hl & Hk). apply in_map_iff in Hl as (r & <- & Hr).
          destruct (F2_in_r _ _ _ _ HF2 Hr) as (p & _ & Ep).
          destruct (partition_flat H H_len sc p db r Hwf Ep) as [Hd _]. apply (Hd k v Hin) in Hk. tauto.
        - intros Hni. pose proof (nib0_lt16 _ Hk32) as Hq.
          destruct (F2_in_l _ _ _ _ HF2 (in_partitions _ Hq)) as (r & Hr & Ep).
          destruct (partition_flat H H_len sc _ db r Hwf Ep) as [Hd _].
          exists (dels (r_ws r)). split; [apply in_map_iff; exists r; auto|]. apply (Hd k v Hin). auto. }
      unfold sa. cbn [fst].
      destruct (am_has (firstn 32 k) (g_accts db)) eqn:Eh.
      + apply am_has_true in Eh as [slim Es]. apply am_get_in in Es.
        apply negb_true_iff. destruct (existsb (fun k0 => bytes_eqb k0 k) D) eqn:Ex; [|reflexivity]. exfalso.
        apply existsb_exists in Ex as (k0 & Hk0 & Bk). apply beqb_eq in Bk. subst k0.
        apply HD in Hk0. apply Hk0. apply in_map_iff. exists (firstn 32 k, slim). auto.
      + apply negb_false_iff. apply existsb_exists. exists k. split; [|apply beqb_refl]. apply HD.
        intros Hk. apply in_map_iff in Hk as ([k' slim] & Ek & Hkv). cbn [fst] in Ek. subst k'.
        destruct (am_in_get _ _ _ Hkv) as [v' Ev'].
        assert (am_has (firstn 32 k) (g_accts db) = true) by (apply am_has_true; eauto). congruence.
  Qed.
End Flat2.
