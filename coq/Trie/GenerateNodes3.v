(* Trie/GenerateNodes3.v — one insert of the stack trie, with the callback: the
   nodes it emits are exactly the nodes of the subtrees it hashes, i.e. the
   "already emitted" set grows by exactly the emission (C11, gen_nodes_path). *)
From Coq Require Import Permutation.
From GV Require Import Lib.Tactics Lib.Bytes Rlp.Codec Trie.Hex Trie.HexProofs Trie.HexInPlace Trie.Node Trie.Ops Trie.Hash Trie.OpsProofs Trie.Canon Trie.Stack Trie.StackProofs Trie.Commit Trie.Generate Trie.GenerateProofs Trie.GenerateWalk3 Trie.GenerateNodes Trie.GenerateNodes2.
Local Open Scope N_scope.

Section Nodes3.
  Variable H : list N -> list N.
  Hypothesis H_len : forall x, length (H x) = 32%nat.
  Variable resolve : list N -> list N -> option (node * list N).

  Lemma children_xok scs cs : children_rel H scs cs -> Forall xok scs.
  Proof.
    intros Hrel. rewrite Forall_forall. intros c Hc. destruct (In_nth_error _ _ Hc) as [i Hi].
    destruct (Hrel _ _ Hi) as (n & _ & [[-> _]|(_ & _ & HRc)]); [constructor|]. eapply R_xok; eassumption.
  Qed.

  (* hashing a stack node in place: the emission is what remained of its subtree *)
  Lemma hashed_done c n path c' em : R H c n -> hashed_e H c path = TOk (c', em) ->
    Permutation (done H path c' n) (done H path c n ++ em).
  Proof.
    intros HR Eh. unfold hashed_e in Eh. destruct (st_hash_e H c path) as [[v emc]|e] eqn:E; [|discriminate].
    inversion Eh; subst. rewrite (hash_rem H H_len c n path v em HR E). cbn [done]. apply nodes_split; assumption.
  Qed.

  (* insert, branch case: hashing the nearest elder sibling *)
  Lemma hash_prev_done cs path : forall i scs scs1 em1, children_rel H scs cs ->
    hash_prev_e H i scs path = TOk (scs1, em1) ->
    Permutation (go2 (done H) path O scs1 cs) (go2 (done H) path O scs cs ++ em1).
  Proof.
    induction i as [|j IH]; intros scs scs1 em1 Hrel Eh; cbn [hash_prev_e] in Eh.
    - inversion Eh; subst. rewrite app_nil_r. apply Permutation_refl.
    - destruct (nth_error scs j) as [c|] eqn:Ec; [|discriminate].
      destruct (Hrel _ _ Ec) as (n & En & Hcn).
      assert (Hgen : c <> StNil ->
                match hashed_e H c (path ++ [N.of_nat j]) with
                | TErr e => TErr e
                | TOk (c', em) => match set_nth j c' scs with Some cs' => TOk (cs', em) | None => TErr EPanic end
                end = TOk (scs1, em1) ->
                Permutation (go2 (done H) path O scs1 cs) (go2 (done H) path O scs cs ++ em1)).
      { intros Hnn Hx. destruct Hcn as [[-> _]|(_ & Hin & HR)]; [congruence|].
        destruct (hashed_e H c (path ++ [N.of_nat j])) as [[c' em]|e] eqn:Ehc; [|discriminate].
        destruct (set_nth j c' scs) as [scs'|] eqn:Es; [|discriminate]. inversion Hx; subst scs' em.
        apply (go2_set H H_len (done H) path j O scs cs c' n scs1 cs c n em1 Es (set_nth_same _ _ _ En) Ec En).
        cbn [Nat.add]. apply hashed_done; assumption. }
      destruct c; try (apply Hgen; [discriminate|exact Eh]).
      + apply (IH _ _ _ Hrel Eh).
      + inversion Eh; subst. rewrite app_nil_r. apply Permutation_refl.
  Qed.

  (* splitting a short stack node (extension or leaf) into a two-child branch: the
     old part [xst] is hashed at [path ++ p ++ [a]], the new leaf goes to slot b *)
  Lemma split_done path p a b xst xn c1 em key2 v p' cs1 cs2 :
    a <> b -> R H xst xn -> hashed_e H xst (path ++ p ++ [a]) = TOk (c1, em) ->
    branch2 a c1 b (StLeaf key2 v) = TOk p' ->
    set_child empty17 a xn = Some cs1 -> set_child cs1 b (NShort (key2 ++ [16]) (NValue v)) = Some cs2 ->
    Permutation (done H (path ++ p) p' (NFull cs2)) (done H (path ++ p ++ [a]) xst xn ++ em).
  Proof.
    intros Hab HRx Eh Eb2 T1 T2. unfold branch2 in Eb2.
    destruct (set_nth (N.to_nat a) c1 st_empty16) as [s1|] eqn:S1; [|discriminate].
    destruct (set_nth (N.to_nat b) (StLeaf key2 v) s1) as [s2|] eqn:S2; [|discriminate]. inversion Eb2; subst p'.
    rewrite done_branch. unfold set_child in T1, T2.
    eapply Permutation_trans; [apply (branch2_done H H_len (path ++ p) a c1 xn b (StLeaf key2 v) _ s1 s2 cs1 cs2 Hab S1 S2 T1 T2)|].
    cbn [done]. rewrite app_nil_r, <- app_assoc. apply hashed_done; assumption.
  Qed.

  Lemma insert_done : forall fuel st key v path st' em n,
    R H st n -> nibbles key -> st_insert_e H fuel st key v path = TOk (st', em) ->
    forall f' pre n' ev, (length key + 1 < f')%nat ->
      insert resolve f' n pre (key ++ [16]) (NValue v) = TOk (true, n', ev) ->
      Permutation (done H path st' n') (done H path st n ++ em).
  Proof.
    induction fuel as [|f IH]; intros st key v path st' em n HR Hk Hi f' pre n' ev Hf Hin; [discriminate|].
    destruct f' as [|f'']; [lia|].
    destruct st as [| |scs|k c|k v0|hv]; pose proof HR as HR0; apply R_inv in HR; try solve [destruct HR]; cbn [st_insert_e] in Hi.
    - (* branch *)
      destruct HR as (cs & -> & Ls & Lc & H16 & Hrel).
      destruct key as [|k0 kr]; [discriminate|].
      destruct (hash_prev_e H (N.to_nat k0) scs path) as [[scs1 em1]|] eqn:Ehp; [|discriminate].
      pose proof (hash_prev_done cs path _ _ _ _ Hrel Ehp) as PA.
      pose proof (hash_prev_e_fst H (N.to_nat k0) scs path (children_xok _ _ Hrel)) as Efst.
      rewrite Ehp in Efst. simpl in Efst. symmetry in Efst.
      destruct (hash_prev_R H H_len cs _ _ _ Efst Hrel) as [Hrel1 Ls1].
      destruct (nth_error scs1 (N.to_nat k0)) as [c|] eqn:Ec; [|discriminate].
      assert (Hk0 : (N.to_nat k0 < 16)%nat) by (rewrite <- Ls, <- Ls1; apply nth_error_Some; congruence).
      destruct (Hrel1 _ _ Ec) as (nc & Enc & Hcn).
      simpl app in Hin. rewrite insert_full_unfold in Hin. unfold child in Hin. rewrite Enc in Hin.
      assert (Hfin : forall c' nc' evc scs2 X,
                set_nth (N.to_nat k0) c' scs1 = Some scs2 ->
                insert resolve f'' nc (pre ++ [k0]) (kr ++ [16]) (NValue v) = TOk (true, nc', evc) ->
                Permutation (done H (path ++ [k0]) c' nc') (done H (path ++ [k0]) c nc ++ X) ->
                Permutation (done H path (StBranch scs2) n') ((done H path (StBranch scs) (NFull cs) ++ em1) ++ X)).
      { intros c' nc' evc scs2 X Hs Einc HP. rewrite Einc in Hin. unfold set_child in Hin.
        destruct (set_nth (N.to_nat k0) nc' cs) as [cs'|] eqn:Hs'; [|discriminate]. inversion Hin; subst n'.
        rewrite !done_branch.
        eapply Permutation_trans; [|apply Permutation_app_tail; exact PA].
        apply (go2_set H H_len (done H) path (N.to_nat k0) O scs1 cs c' nc' scs2 cs' c nc X Hs Hs' Ec Enc).
        cbn [Nat.add]. rewrite N2Nat.id. exact HP. }
      match goal with |- ?G =>
        assert (Hgen : c <> StNil ->
                match st_insert_e H f c kr v (path ++ [k0]) with
                | TErr e => TErr e
                | TOk (c', em2) => match set_nth (N.to_nat k0) c' scs1 with
                                   | Some cs2 => TOk (StBranch cs2, em1 ++ em2) | None => TErr EPanic end
                end = TOk (st', em) -> G)
      end.
      { intros Hnn Hx. destruct Hcn as [[-> _]|(_ & Hinn & HRc)]; [congruence|].
        destruct (st_insert_e H f c kr v (path ++ [k0])) as [[c' em2]|] eqn:Eins; [|discriminate].
        destruct (set_nth (N.to_nat k0) c' scs1) as [scs2|] eqn:Es; [|discriminate]. inversion Hx; subst st' em.
        destruct (insert resolve f'' nc (pre ++ [k0]) (kr ++ [16]) (NValue v)) as [[[dd nn] evc]|] eqn:Einc; [|discriminate].
        destruct dd; [|discriminate].
        rewrite app_assoc. apply (Hfin c' nn evc scs2 em2 Es eq_refl).
        apply (IH _ _ _ _ _ _ _ HRc (nibbles_tl _ _ Hk) Eins f'' (pre ++ [k0]) nn evc); [simpl in Hf; lia|exact Einc]. }
      destruct c; try (apply Hgen; [discriminate|exact Hi]).
      (* nil child: a new leaf *)
      destruct (set_nth (N.to_nat k0) (StLeaf kr v) scs1) as [scs2|] eqn:Es; [|discriminate].
      inversion Hi; subst st' em. destruct Hcn as [[_ ->]|(Hnn & _)]; [|congruence].
      destruct f'' as [|f3]; [simpl in Hf; lia|].
      rewrite <- (app_nil_r (done H path (StBranch scs) (NFull cs) ++ em1)).
      apply (Hfin (StLeaf kr v) (NShort (kr ++ [16]) (NValue v)) [TIns (pre ++ [k0])] scs2 [] Es).
      + apply insert_empty_snoc.
      + cbn [done app]. apply Permutation_refl.
    - (* extension *)
      destruct HR as (cs & -> & Hkne & Hkn & HRc).
      destruct (get_diff_index k key) as [d|] eqn:Ed; [|discriminate].
      destruct (gdi_spec _ _ _ Ed) as (p & k1 & key1 & -> & -> & -> & Hm).
      destruct (Nat.eqb_spec (length p) (length (p ++ k1))) as [El|Nl].
      + (* the whole extension key matches: descend *)
        assert (k1 = []) by (rewrite app_length in El; destruct k1; [reflexivity|simpl in El; lia]). subst k1.
        rewrite app_nil_r in *. rewrite skipn_app_exact, firstn_app_exact in Hi.
        destruct (st_insert_e H f c key1 v (path ++ p)) as [[c' em']|] eqn:Eins; [|discriminate]. inversion Hi; subst st' em'.
        rewrite <- app_assoc in Hin.
        rewrite insert_short_unfold in Hin by (destruct p; [congruence|discriminate]). cbv zeta in Hin.
        rewrite prefix_len_app_full, Nat.eqb_refl, firstn_app_exact, skipn_app_exact in Hin.
        destruct (insert resolve f'' (NFull cs) (pre ++ p) (key1 ++ [16]) (NValue v)) as [[[dd nn] evc]|] eqn:Einc; [|discriminate].
        destruct dd; [|discriminate]. inversion Hin; subst n'. cbn [done].
        apply (IH _ _ _ _ _ _ _ HRc (nibbles_app_r _ _ Hk) Eins f'' (pre ++ p) nn evc); [|exact Einc].
        rewrite app_length in Hf. destruct p; [congruence|simpl in Hf; lia].
      + (* split the extension *)
        destruct k1 as [|a k2]; [rewrite app_nil_r in Nl; congruence|].
        destruct key1 as [|b key2]; [destruct Hm|].
        rewrite !nth_error_app_exact in Hi. simpl hd_error in Hi. cbv iota in Hi.
        rewrite ?skipn_app_succ, ?firstn_app_succ, ?firstn_app_exact in Hi.
        assert (Hk2 : nibbles k2) by (apply nibbles_app_r in Hkn; exact (nibbles_tl _ _ Hkn)).
        assert (Hkey2 : nibbles key2) by (apply nibbles_app_r in Hk; exact (nibbles_tl _ _ Hk)).
        (* the hashed old part *)
        assert (Hx : exists xst, R H xst (inil k2 (NFull cs)) /\
                   done H (path ++ p ++ [a]) xst (inil k2 (NFull cs)) = done H path (StExt (p ++ a :: k2) c) (NShort (p ++ a :: k2) (NFull cs)) /\
                   match hashed_e H xst (path ++ p ++ [a]) with
                   | TErr e => TErr e
                   | TOk (n'0, em0) =>
                       match branch2 a n'0 b (StLeaf key2 v) with
                       | TErr e => TErr e
                       | TOk p0 => if Nat.eqb (length p) 0 then TOk (p0, em0) else TOk (StExt p p0, em0)
                       end
                   end = TOk (st', em)).
        { destruct k2 as [|x k2].
          - exists c. split; [exact HRc|]. split; [cbn [done inil]; rewrite <- ?app_assoc; reflexivity|].
            match type of Hi with context [if ?bb then _ else _] =>
              replace bb with false in Hi by (symmetry; apply Nat.ltb_ge; rewrite ?app_length; simpl; lia) end.
            rewrite <- ?app_assoc in Hi. exact Hi.
          - exists (StExt (x :: k2) c). split; [apply R_ext; [discriminate|exact Hk2|exact HRc]|].
            split; [cbn [done inil]; rewrite <- ?app_assoc; reflexivity|].
            match type of Hi with context [if ?bb then _ else _] =>
              replace bb with true in Hi by (symmetry; apply Nat.ltb_lt; rewrite ?app_length; simpl; lia) end.
            rewrite <- ?app_assoc in Hi. exact Hi. }
        destruct Hx as (xst & HRx & Edone & Hi2). clear Hi.
        destruct (hashed_e H xst (path ++ p ++ [a])) as [[c1 em0]|] eqn:Ehx; [|discriminate].
        destruct (branch2 a c1 b (StLeaf key2 v)) as [p'|] eqn:Eb2; [|discriminate].
        assert (Hgood1 : good H c1 (inil k2 (NFull cs))).
        { pose proof (hashed_e_fst H xst (path ++ p ++ [a]) (R_xok H _ _ HRx) ltac:(destruct path; destruct p; discriminate)) as Ef.
          rewrite Ehx in Ef. simpl in Ef. symmetry in Ef.
          apply (hashed_R H H_len xst _ _ HRx); [destruct k2; exact I|exact Ef]. }
        destruct (branch2_R H a c1 (inil k2 (NFull cs)) b (StLeaf key2 v) (NShort (key2 ++ [16]) (NValue v)) p'
                    Hm Eb2 Hgood1) as (cs1 & cs2 & S1 & S2 & HRp & Hup).
        { split; [discriminate|]. split; [exact I|]. apply R_leaf. exact Hkey2. }
        destruct (insert_split H H_len resolve f'' p a k2 (NFull cs) b key2 pre v cs1 cs2 ltac:(congruence) S1 S2) as [ev0 Ein].
        rewrite <- app_assoc in Hin. simpl app in Hin. rewrite Ein in Hin. inversion Hin; subst n'.
        pose proof (split_done path p a b xst _ c1 em0 key2 v p' cs1 cs2 Hm HRx Ehx Eb2 S1 S2) as PS.
        rewrite Edone in PS.
        destruct p as [|p0 p]; simpl Nat.eqb in Hi2; cbv iota in Hi2; inversion Hi2; subst st' em; simpl wrap.
        * rewrite app_nil_r in PS. exact PS.
        * cbn [done]. exact PS.
    - (* leaf *)
      destruct HR as [-> Hkn].
      destruct (get_diff_index k key) as [d|] eqn:Ed; [|discriminate].
      destruct (gdi_spec _ _ _ Ed) as (p & k1 & key1 & -> & -> & -> & Hm).
      destruct (Nat.leb_spec (length (p ++ k1)) (length p)) as [Hle|Hlt]; [discriminate|].
      destruct k1 as [|a k2]; [rewrite app_nil_r in Hlt; lia|].
      destruct key1 as [|b key2]; [destruct Hm|].
      rewrite !nth_error_app_exact in Hi. simpl hd_error in Hi. cbv iota in Hi.
      rewrite ?skipn_app_succ, ?firstn_app_succ, ?firstn_app_exact in Hi.
      assert (Hk2 : nibbles k2) by (apply nibbles_app_r in Hkn; exact (nibbles_tl _ _ Hkn)).
      assert (Hkey2 : nibbles key2) by (apply nibbles_app_r in Hk; exact (nibbles_tl _ _ Hk)).
      rewrite <- ?app_assoc in Hi.
      destruct (hashed_e H (StLeaf k2 v0) (path ++ p ++ [a])) as [[c1 em0]|] eqn:Ehx; [|discriminate].
      destruct (branch2 a c1 b (StLeaf key2 v)) as [p'|] eqn:Eb2; [|discriminate].
      pose proof (R_leaf H k2 v0 Hk2) as HRx.
      assert (Hgood1 : good H c1 (NShort (k2 ++ [16]) (NValue v0))).
      { pose proof (hashed_e_fst H (StLeaf k2 v0) (path ++ p ++ [a]) (xok_leaf _ _) ltac:(destruct path; destruct p; discriminate)) as Ef.
        rewrite Ehx in Ef. simpl in Ef. symmetry in Ef. apply (hashed_R H H_len _ _ _ HRx I Ef). }
      destruct (branch2_R H a c1 (inil (k2 ++ [16]) (NValue v0)) b (StLeaf key2 v)
                  (NShort (key2 ++ [16]) (NValue v)) p' Hm Eb2) as (cs1 & cs2 & S1 & S2 & HRp & Hup).
      { replace (inil (k2 ++ [16]) (NValue v0)) with (NShort (k2 ++ [16]) (NValue v0)) by (destruct k2; reflexivity).
        exact Hgood1. }
      { split; [discriminate|]. split; [exact I|]. apply R_leaf. exact Hkey2. }
      destruct (insert_split H H_len resolve f'' p a (k2 ++ [16]) (NValue v0) b key2 pre v cs1 cs2 ltac:(congruence) S1 S2) as [ev0 Ein].
      rewrite <- !app_assoc in Hin. simpl app in Hin. rewrite Ein in Hin. inversion Hin; subst n'.
      replace (inil (k2 ++ [16]) (NValue v0)) with (NShort (k2 ++ [16]) (NValue v0)) in S1 by (destruct k2; reflexivity).
      pose proof (split_done path p a b _ _ c1 em0 key2 v p' cs1 cs2 Hm HRx Ehx Eb2 S1 S2) as PS.
      cbn [done app] in PS |- *.
      destruct p as [|p0 p]; simpl Nat.eqb in Hi; cbv iota in Hi; inversion Hi; subst st' em; simpl wrap.
      * rewrite app_nil_r in PS. exact PS.
      * cbn [done]. exact PS.
    - (* hashed: the Go code panics *)
      discriminate.
  Qed.
End Nodes3.
