(* Trie/Stack.v — executable model of /repo/trie/stacktrie.go: the streaming
   ordered builder (StackTrie.Update / update / insert / hash / Hash).

   * An stNode is a value here; the Go code mutates nodes in place and recycles
     them through pools (not modelled).  [StNil] is a nil child pointer,
     [StEmpty] a node of type emptyNode (the fresh root).
   * Keys inside the stack trie are hex nibbles WITHOUT terminator
     (writeHexKey), so a key set containing a proper prefix of another key makes
     the Go code panic ("Trying to insert into existing key" / index out of
     range): [EPanic].
   * hash(st, path): only [len(path) > 0] matters (a root is never embedded);
     every hash call made from insert has a non-empty path.  The onTrieNode
     callback is not modelled.
   * The hash function is the Section variable [H].

   Names other families rely on (keep stable):
     stnode st_hash st_insert st_update st_root stack_run *)
From GV Require Import Lib.Bytes Rlp.Codec Trie.Hex Trie.Node Trie.Hash.
Local Open Scope N_scope.

Inductive stnode : Type :=
| StNil                                  (* nil pointer in children *)
| StEmpty                                (* typ == emptyNode *)
| StBranch (cs : list stnode)            (* branchNode, 16 children *)
| StExt (k : list N) (c : stnode)        (* extNode, children[0] = c *)
| StLeaf (k : list N) (v : list N)       (* leafNode *)
| StHashed (v : list N).                 (* hashedNode: 32-byte hash or embedded (< 32 byte) encoding *)

Definition st_empty16 : list stnode := repeat StNil 16.

(* bytes.Compare(a, b) < 0 on nibble/byte slices *)
Fixpoint slice_lt (a b : list N) : bool :=
  match a, b with
  | [], _ :: _ => true
  | x :: a', y :: b' => if N.ltb x y then true else if N.eqb x y then slice_lt a' b' else false
  | _, [] => false
  end.

(* stNode.getDiffIndex: None = key[idx] index out of range (panic) *)
Fixpoint get_diff_index (nk key : list N) : option nat :=
  match nk, key with
  | [], _ => Some O
  | _ :: _, [] => None
  | x :: nk', y :: key' =>
      if N.eqb x y then match get_diff_index nk' key' with Some i => Some (S i) | None => None end
      else Some O
  end.

Section Stack.
  Variable H : list N -> list N.

  (* how fullnodeEncoder / extNodeEncoder write a child's val *)
  Definition enc_child_val (c : list N) : list N :=
    match c with
    | [] => [128]
    | _ => if Nat.leb 32 (length c) then enc_str c else c
    end.

  (* StackTrie.hash: the val the node holds once it is a hashedNode *)
  Fixpoint st_hash (st : stnode) (nonroot : bool) : tres (list N) :=
    let finish (blob : list N) : tres (list N) :=
      if Nat.ltb (length blob) 32 && nonroot then TOk blob else TOk (H blob) in
    match st with
    | StHashed v => TOk v
    | StEmpty => TOk (H [128])                          (* types.EmptyRootHash *)
    | StBranch cs =>
        let fix go (l : list stnode) : tres (list N) :=
          match l with
          | [] => TOk [128]                               (* nodes.Children[16] is empty *)
          | c :: r =>
              let e := match c with
                       | StNil => TOk [128]
                       | _ => match st_hash c true with
                              | TOk v => TOk (enc_child_val v)
                              | TErr e => TErr e
                              end
                       end in
              match e, go r with
              | TOk a, TOk b => TOk (a ++ b)
              | TErr e, _ => TErr e
              | _, TErr e => TErr e
              end
          end in
        match go cs with
        | TOk payload => finish (list_wrap payload)
        | TErr e => TErr e
        end
    | StExt k c =>
        match st_hash c true with
        | TErr e => TErr e
        | TOk v =>
            match hex_to_compact_in_place k with
            | None => TErr EPanic
            | Some ck => finish (list_wrap (enc_str ck ++ enc_child_val v))
            end
        end
    | StLeaf k v =>
        match hex_to_compact_in_place (k ++ [16]) with
        | None => TErr EPanic
        | Some ck => finish (list_wrap (enc_str ck ++ enc_str v))
        end
    | StNil => TErr EPanic                               (* nil pointer dereference *)
    end.

  (* t.hash(n, path) performed in place during insert (path non-empty) *)
  Definition hashed (st : stnode) : tres stnode :=
    match st_hash st true with TOk v => TOk (StHashed v) | TErr e => TErr e end.

  (* insert, branch case: for i := idx-1; i >= 0; i-- { first non-nil child: hash it unless hashed; break } *)
  Fixpoint hash_prev (i : nat) (cs : list stnode) : tres (list stnode) :=
    match i with
    | O => TOk cs
    | S j =>
        match nth_error cs j with
        | None => TErr EPanic
        | Some StNil => hash_prev j cs
        | Some (StHashed _) => TOk cs
        | Some c =>
            match hashed c with
            | TErr e => TErr e
            | TOk c' => match set_nth j c' cs with Some cs' => TOk cs' | None => TErr EPanic end
            end
        end
    end.

  (* a fresh branch with the two children set (the second assignment wins if
     the indices coincide, as in Go) *)
  Definition branch2 (i1 : N) (c1 : stnode) (i2 : N) (c2 : stnode) : tres stnode :=
    match set_nth (N.to_nat i1) c1 st_empty16 with
    | None => TErr EPanic
    | Some cs1 =>
        match set_nth (N.to_nat i2) c2 cs1 with
        | None => TErr EPanic
        | Some cs2 => TOk (StBranch cs2)
        end
    end.

  (* StackTrie.insert(st, key, value, path) *)
  Fixpoint st_insert (fuel : nat) (st : stnode) (key value : list N) : tres stnode :=
    match fuel with
    | O => TErr EFuel
    | S f =>
        match st with
        | StBranch cs =>
            match key with
            | [] => TErr EPanic
            | k0 :: kr =>
                match hash_prev (N.to_nat k0) cs with
                | TErr e => TErr e
                | TOk cs1 =>
                    match nth_error cs1 (N.to_nat k0) with
                    | None => TErr EPanic
                    | Some StNil =>
                        match set_nth (N.to_nat k0) (StLeaf kr value) cs1 with
                        | Some cs2 => TOk (StBranch cs2)
                        | None => TErr EPanic
                        end
                    | Some c =>
                        match st_insert f c kr value with
                        | TErr e => TErr e
                        | TOk c' =>
                            match set_nth (N.to_nat k0) c' cs1 with
                            | Some cs2 => TOk (StBranch cs2)
                            | None => TErr EPanic
                            end
                        end
                    end
                end
            end
        | StExt k c =>
            match get_diff_index k key with
            | None => TErr EPanic
            | Some d =>
                if Nat.eqb d (length k) then
                  match st_insert f c (skipn d key) value with
                  | TOk c' => TOk (StExt k c')
                  | TErr e => TErr e
                  end
                else
                  let n := if Nat.ltb d (length k - 1)
                           then hashed (StExt (skipn (d + 1) k) c)
                           else hashed c in
                  match n, nth_error k d, nth_error key d with
                  | TErr e, _, _ => TErr e
                  | TOk n', Some origIdx, Some newIdx =>
                      match branch2 origIdx n' newIdx (StLeaf (skipn (d + 1) key) value) with
                      | TErr e => TErr e
                      | TOk p => if Nat.eqb d 0 then TOk p else TOk (StExt (firstn d k) p)
                      end
                  | _, _, _ => TErr EPanic
                  end
            end
        | StLeaf k v =>
            match get_diff_index k key with
            | None => TErr EPanic
            | Some d =>
                if Nat.leb (length k) d then TErr EPanic      (* "Trying to insert into existing key" *)
                else
                  match nth_error k d, nth_error key d with
                  | Some origIdx, Some newIdx =>
                      match hashed (StLeaf (skipn (d + 1) k) v) with
                      | TErr e => TErr e
                      | TOk n' =>
                          match branch2 origIdx n' newIdx (StLeaf (skipn (d + 1) key) value) with
                          | TErr e => TErr e
                          | TOk p => if Nat.eqb d 0 then TOk p else TOk (StExt (firstn d k) p)
                          end
                      end
                  | _, _ => TErr EPanic
                  end
            end
        | StEmpty => TOk (StLeaf key value)
        | StHashed _ => TErr EPanic                       (* "trying to insert into hash" *)
        | StNil => TErr EPanic
        end
    end.

  (* the StackTrie: root and the last inserted hex key (nil = []) *)
  Definition stack : Type := (stnode * list N)%type.
  Definition stack_new : stack := (StEmpty, []).

  (* StackTrie.Update: inl = returned error class (1 = empty value, 2 =
     non-ascending key order), inr = new state; TErr = panic *)
  Definition st_update (s : stack) (key value : list N) : tres (N + stack) :=
    match value with
    | [] => TOk (inl 1)
    | _ =>
        match key with
        | [] => TErr EPanic               (* writeHexKey: dst[2*len(key)-1], index out of range [-1] *)
        | _ =>
        let k := nibbles_of key in                          (* writeHexKey *)
        if negb (slice_lt (snd s) k) then TOk (inl 2)
        else
          match st_insert (S (length k)) (fst s) k value with
          | TErr e => TErr e
          | TOk r => TOk (inr (r, k))
          end
        end
    end.

  (* StackTrie.Hash *)
  Definition st_root (s : stack) : tres (list N) := st_hash (fst s) false.
End Stack.
