(* Light/SymbolicWorld.v — a concrete world satisfying every hypothesis of
   [world_ok] (Light/CommitteeProofs.v): the hypotheses of the C53 theorems are
   jointly satisfiable, and are met by a world in which updates are accepted.

   Hash = free terms (Light/Symbolic.v); committee number p is the genuine committee
   of period p; the canonical chain has one header per period, [canon p], whose state
   holds CR p / CR (p+1) at the Electra sync-committee indices 86 / 87; the signature
   check is the ideal one (accepts exactly what the genuine committee signed). *)
From GV Require Import Lib.Tactics Light.Merkle Light.Committee Light.CommitteeProofs Light.Symbolic.
Local Open Scope N_scope.

Definition t_dom : sh := At 7.
Definition t_cfg : config sh := mkConfig sh 342 false 0 [(0, t_dom)].

Definition t_branch : list sh := [At 1; At 2; At 3; At 4; At 5].
(* root of the tree holding CR p at index 86 and CR (p+1) at 87 *)
Definition t_state (p : N) : sh :=
  Nd (Nd (At 4) (Nd (Nd (At 2) (Nd (At 1) (Nd (CR p) (CR (p + 1))))) (At 3))) (At 5).
Definition canon (p : N) : header sh :=
  mkHeader sh (p * 8192 + 5) 0 (At 0) (t_state p) (At 0).
Definition t_hh := header_hash sh Nd sh_zero sh_lit64.
Definition t_sroot (p : N) : sh := Nd (t_hh (canon p)) t_dom.

Definition t_bound : N := 2 ^ 40.
Definition t_canonical (h : header sh) : Prop := exists p, p < t_bound /\ h = canon p.
Definition t_honest (p : N) (sr : sh) : Prop := p < t_bound /\ sr = t_sroot p.
Definition t_sig_verify (c : N) (sr : sh) (_ : list N) (_ : unit) : bool :=
  (c <? t_bound) && sh_eqb sr (t_sroot c).
Definition t_trusted (x : sh) : bool := sh_eqb x (t_hh (canon 3)).

Lemma bytes_eqb_spec : forall a b, bytes_eqb a b = true <-> a = b.
Proof.
  induction a as [|x a IH]; intros [|y b]; cbn; split; try congruence; try discriminate.
  - intros H. apply andb_prop in H. destruct H as [H1 H2]. apply N.eqb_eq in H1.
    apply IH in H2. congruence.
  - intros [= -> ->]. rewrite N.eqb_refl. cbn. apply IH. reflexivity.
Qed.

Lemma sh_eqb_spec : forall a b, sh_eqb a b = true <-> a = b.
Proof.
  induction a as [n|x|c|l IHl r IHr]; intros [m|y|d|l' r']; cbn; split;
    try congruence; try discriminate.
  - intros H. apply N.eqb_eq in H. congruence.
  - intros [= ->]. apply N.eqb_refl.
  - intros H. apply bytes_eqb_spec in H. congruence.
  - intros [= ->]. apply bytes_eqb_spec. reflexivity.
  - intros H. apply N.eqb_eq in H. congruence.
  - intros [= ->]. apply N.eqb_refl.
  - intros H. apply andb_prop in H. destruct H as [H1 H2].
    apply IHl in H1. apply IHr in H2. congruence.
  - intros [= -> ->]. apply andb_true_intro. split; [apply IHl|apply IHr]; reflexivity.
Qed.

Lemma le_bytes_inj : forall k a b,
  a < 256 ^ N.of_nat k -> b < 256 ^ N.of_nat k -> le_bytes k a = le_bytes k b -> a = b.
Proof.
  induction k as [|k IH]; intros a b Ha Hb.
  - cbn in Ha, Hb. intros _. lia.
  - cbn [le_bytes]. intros [= Hm Hd].
    rewrite Nat2N.inj_succ, N.pow_succ_r' in Ha, Hb.
    assert (a / 256 = b / 256).
    { apply IH; auto; apply N.div_lt_upper_bound; lia. }
    rewrite (N.div_mod' a 256), (N.div_mod' b 256). congruence.
Qed.

Lemma sh_lit64_inj a b : a < 2 ^ 64 -> b < 2 ^ 64 -> sh_lit64 a = sh_lit64 b -> a = b.
Proof.
  intros Ha Hb. unfold sh_lit64. intros H.
  apply (f_equal (fun t => match t with Lit x => x | _ => [] end)) in H. cbv beta iota in H.
  apply app_inv_tail in H.
  apply (le_bytes_inj 8); auto.
Qed.

Lemma per_canon p : sync_period (h_slot sh (canon p)) = p.
Proof. unfold sync_period, sync_period_length, canon. cbn [h_slot]. lia. Qed.

Lemma t_signing_root p : signing_root sh Nd sh_zero sh_lit64 t_cfg (canon p) = Some (t_sroot p).
Proof.
  unfold signing_root, fork_domain, t_cfg. cbn [c_forks rev app find fst snd].
  assert (0 <=? epoch_of (h_slot sh (canon p)) = true) as -> by lia. reflexivity.
Qed.

Lemma all_true (l : list (sh * sh)) : all_in_play sh (fun _ _ => True) l.
Proof. unfold all_in_play. induction l; constructor; auto. Qed.

Lemma sh_eqb_refl a : sh_eqb a a = true.
Proof. apply sh_eqb_spec. reflexivity. Qed.

Lemma t_state_proof p :
  verify_proof sh sh_eqb Nd (t_state p) 86 (CR (p + 1) :: t_branch) (CR p) = MOk.
Proof.
  unfold verify_proof.
  assert (E : walk sh Nd 86 (CR (p + 1) :: t_branch) (CR p) = Some (1, t_state p)) by reflexivity.
  rewrite E. rewrite sh_eqb_refl. reflexivity.
Qed.

(* nothing can be proved at the pre-Electra indices 54 / 55 of these states *)
Lemma t_no_old p idx br x :
  idx = 54 \/ idx = 55 -> verify_proof sh sh_eqb Nd (t_state p) idx br x <> MOk.
Proof.
  intros Hi H. unfold verify_proof in H.
  destruct (walk sh Nd idx br x) as [[j r]|] eqn:Ew; [|discriminate].
  destruct (j =? 1) eqn:Ej; cbn [negb] in H; [|discriminate].
  destruct (sh_eqb r (t_state p)) eqn:Er; cbn [negb] in H; [|discriminate].
  apply sh_eqb_spec in Er. apply N.eqb_eq in Ej. subst j r.
  destruct Hi as [-> | ->];
    destruct br as [|s1 [|s2 [|s3 [|s4 [|s5 [|s6 t]]]]]]; cbn in Ew; try discriminate;
    injection Ew; intros; discriminate.
Qed.

Theorem toy_world_ok :
  world_ok sh sh_eqb Nd sh_zero sh_lit64 N CR unit t_sig_verify
           (fun _ _ => True) t_cfg t_trusted (fun p => p) t_canonical (fun _ => false) t_honest.
Proof.
  constructor.
  - apply sh_eqb_spec.
  - intros a b c d _ _ [= -> ->]. auto.
  - apply sh_lit64_inj.
  - intros p c [= ->]. reflexivity.
  - intros p sr signers sg H _. unfold t_sig_verify in H. apply andb_prop in H.
    destruct H as [H1 H2]. apply sh_eqb_spec in H2. split; [lia|exact H2].
  - intros p sr [Hp ->]. exists (canon p). split; [exists p; auto|apply t_signing_root].
  - intros h (p & Hp & ->). unfold hdr_in_play. cbn [h_slot h_proposer canon].
    unfold t_bound in Hp. repeat split; try lia. apply all_true.
  - intros h (p & Hp & ->). exists t_branch. unfold per. rewrite per_canon.
    split; [apply t_state_proof|apply all_true].
  - intros h br x c (p & Hp & ->) [H|H]; exfalso; cbn [negb idx_sync idx_next h_state canon] in H;
      revert H; apply t_no_old; auto.
  - intros x H. unfold t_trusted in H. apply sh_eqb_spec in H. subst x.
    exists (canon 3). split; [exists 3; split; [unfold t_bound; lia|reflexivity]|reflexivity].
Qed.

(* a concrete history in this world: the trusted bootstrap at period 3, the genuine
   updates of periods 3 and 4 (512 signers), and a forged update for period 5 *)
Definition t_signers : list N := repeat 255 64.
Definition t_boot : bootstrap sh N := mkBootstrap sh N false (canon 3) (CR 3) 3 (CR 4 :: t_branch).
Definition t_update (p : N) : update sh unit :=
  mkUpdate sh unit false (mkSigned sh unit (canon p) t_signers tt (p * 8192 + 6))
           (CR (p + 1)) (CR p :: t_branch) None [].
Definition t_forged : update sh unit :=
  let h := mkHeader sh (5 * 8192 + 5) 0 (At 0)
             (Nd (Nd (At 4) (Nd (Nd (At 2) (Nd (At 1) (Nd (CR 5) (CR 99)))) (At 3))) (At 5)) (At 0) in
  mkUpdate sh unit false (mkSigned sh unit h t_signers tt (5 * 8192 + 6))
           (CR 99) (CR 5 :: t_branch) None [].
Definition t_history : list (delivery sh N unit) :=
  [ DBoot sh N unit t_boot; DUpd sh N unit 0%Z (t_update 3) (Some 4);
    DUpd sh N unit 0%Z (t_update 4) (Some 5); DUpd sh N unit 0%Z t_forged (Some 99) ].
Definition t_final : chain sh N unit :=
  run_deliveries sh sh_eqb Nd sh_zero sh_lit64 N CR unit t_sig_verify t_cfg t_trusted
                 (chain_empty sh N unit) t_history.
