(* Light/Merkle.v — model of /repo/beacon/merkle/merkle.go VerifyProof.
   The hash (SHA-256 of two 32-byte values) is the Section variable [H2];
   [hash_eqb] is Go's [==] on [32]byte arrays.  No proofs in this file. *)
From GV Require Import Lib.Tactics.
Local Open Scope N_scope.

Section Merkle.
Variable hash : Type.
Variable hash_eqb : hash -> hash -> bool.
Variable H2 : hash -> hash -> hash.

(* the three errors of VerifyProof, in source order *)
Inductive merkle_res := MOk | MExtra | MMissing | MMismatch.

(* merkle.go VerifyProof l.46-59: the loop over [branch].  [None] = the early
   return "branch has extra items" (index became 0 after a shift).
   index is a uint64; [>>= 1] cannot wrap. *)
Fixpoint walk (index : N) (branch : list hash) (value : hash) : option (N * hash) :=
  match branch with
  | [] => Some (index, value)
  | sibling :: rest =>
      let value' := if N.even index then H2 value sibling else H2 sibling value in
      let index' := N.div2 index in
      if index' =? 0 then None else walk index' rest value'
  end.

(* merkle.go VerifyProof l.44-67 *)
Definition verify_proof (root : hash) (index : N) (branch : list hash) (value : hash) : merkle_res :=
  match walk index branch value with
  | None => MExtra
  | Some (i, v) =>
      if negb (i =? 1) then MMissing
      else if negb (hash_eqb v root) then MMismatch
      else MOk
  end.

(* The pairs fed to the hash by the loop (used only to state on which pairs
   collision-freedom is needed; not part of the executable path). *)
Fixpoint walk_pairs (index : N) (branch : list hash) (value : hash) : list (hash * hash) :=
  match branch with
  | [] => []
  | sibling :: rest =>
      let pr := if N.even index then (value, sibling) else (sibling, value) in
      pr :: walk_pairs (N.div2 index) rest (H2 (fst pr) (snd pr))
  end.

End Merkle.
