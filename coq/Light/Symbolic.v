(* Light/Symbolic.v — the symbolic instance of the cryptographic Section variables
   of Light/Committee.v used by the correspondence runner (Run/C53.v) and by the
   concrete world of Light/SymbolicWorld.v: hash values are terms, H2 is the free
   constructor [Nd].  Definitions only. *)
From GV Require Import Lib.Tactics.
Local Open Scope N_scope.

Inductive sh : Type :=
| At (n : N)              (* opaque 32-byte value number n *)
| Lit (b : list N)        (* literal bytes *)
| CR (c : N)              (* root of (dummy) committee number c *)
| Nd (l r : sh).          (* SHA-256 (l || r) *)

Fixpoint bytes_eqb (a b : list N) : bool :=
  match a, b with
  | [], [] => true
  | x :: a', y :: b' => (x =? y) && bytes_eqb a' b'
  | _, _ => false
  end.

Fixpoint sh_eqb (a b : sh) : bool :=
  match a, b with
  | At n, At m => n =? m
  | Lit x, Lit y => bytes_eqb x y
  | CR c, CR d => c =? d
  | Nd l r, Nd l' r' => sh_eqb l l' && sh_eqb r r'
  | _, _ => false
  end.

(* 32-byte value whose first 8 bytes are n little-endian (n < 2^64) *)
Fixpoint le_bytes (k : nat) (n : N) : list N :=
  match k with O => [] | S k' => (n mod 256) :: le_bytes k' (n / 256) end.
Definition sh_lit64 (n : N) : sh := Lit (le_bytes 8 n ++ repeat 0 24).
Definition sh_zero : sh := Lit (repeat 0 32).

Inductive ssig : Type :=
| SigBy (c : N) (root : sh) (bits : list N)
| SigJunk (n : N).

Definition ssig_verify (c : N) (root : sh) (signers : list N) (sg : ssig) : bool :=
  match sg with
  | SigBy c' root' bits => (c =? c') && sh_eqb root' root && bytes_eqb bits signers
  | SigJunk _ => false
  end.

