(* Light/CommitteeProofs.v — proofs about Light/Merkle.v and Light/Committee.v.

   The cryptographic and world assumptions are the fields of [world_ok] below:
   collision-freedom of H2 on the pairs "in play", injectivity of the 8-byte
   literal embedding, of the committee root at the genuine committees,
   unforgeability of the aggregate signature, honesty of the genuine committees
   (they only sign canonical headers), the layout of canonical beacon states, and
   the trusted checkpoint being canonical. *)
From GV Require Import Lib.Tactics Light.Merkle Light.Committee.
Local Open Scope N_scope.

Section Proofs.
Variable hash : Type.
Variable hash_eqb : hash -> hash -> bool.
Variable H2 : hash -> hash -> hash.
Variable zero : hash.
Variable lit64 : N -> hash.
Variable committee : Type.
Variable croot : committee -> hash.
Variable sigT : Type.
Variable sig_verify : committee -> hash -> list N -> sigT -> bool.

Notation walk := (walk hash H2).
Notation walk_pairs := (walk_pairs hash H2).
Notation verify_proof := (verify_proof hash hash_eqb H2).
Notation header := (header hash).
Notation header_hash := (header_hash hash H2 zero lit64).
Notation header_pairs := (header_pairs hash H2 zero lit64).
Notation signed_header := (signed_header hash sigT).
Notation update := (update hash sigT).
Notation bootstrap := (bootstrap hash committee).
Notation chain := (chain hash committee sigT).
Notation config := (config hash).
Notation signing_root := (signing_root hash H2 zero lit64).
Notation get_committee_root := (get_committee_root hash zero committee sigT).
Notation rollback := (rollback hash committee sigT).
Notation rollback_step := (rollback_step hash committee sigT).
Notation reset := (reset hash committee sigT).
Notation add_fixed_root := (add_fixed_root hash hash_eqb zero committee sigT).
Notation fill_step := (fill_step hash zero committee sigT).
Notation delete_fixed_from := (delete_fixed_from hash committee sigT).
Notation add_committee := (add_committee hash hash_eqb zero committee croot sigT).
Notation validate_update := (validate_update hash hash_eqb H2 zero lit64 sigT).
Notation validate_bootstrap := (validate_bootstrap hash hash_eqb H2 committee croot).
Notation checkpoint_init := (checkpoint_init hash hash_eqb H2 zero committee croot sigT).
Notation verify_signed_header := (verify_signed_header hash H2 zero lit64 committee sigT sig_verify).
Notation insert_update := (insert_update hash hash_eqb H2 zero lit64 committee croot sigT sig_verify).
Notation deliver_update := (deliver_update hash hash_eqb H2 zero lit64 committee croot sigT sig_verify).
Notation deliver_bootstrap := (deliver_bootstrap hash hash_eqb H2 zero lit64 committee croot sigT).
Notation head_validate := (head_validate hash H2 zero lit64 committee sigT sig_verify).
Notation delivery := (delivery hash committee sigT).
Notation deliver := (deliver hash hash_eqb H2 zero lit64 committee croot sigT sig_verify).
Notation run_deliveries := (run_deliveries hash hash_eqb H2 zero lit64 committee croot sigT sig_verify).
Notation chain_empty := (chain_empty hash committee sigT).
Notation score_of := (score_of hash sigT).
Notation min_score := (min_score hash).
Notation header_age := (header_age hash).

(* ------------------------------------------------------------------ world *)
Variable InPlay : hash -> hash -> Prop.    (* pairs on which SHA-256 is assumed collision-free *)
Variable cfg : config.
Variable trusted : hash -> bool.           (* the checkpoint hashes the user trusts *)
Variable gen : N -> committee.             (* the genuine sync committee of each period *)
Variable canonical : header -> Prop.       (* headers of the canonical beacon chain *)
Variable hv : header -> bool.              (* state layout (fork) of a canonical header *)
Variable honest_signed : N -> hash -> Prop.
  (* signing roots signed by honest members of the genuine committee of a period *)

Definition all_in_play (l : list (hash * hash)) : Prop :=
  Forall (fun p => InPlay (fst p) (snd p)) l.

Definition eff_threshold : N := N.min (c_threshold _ cfg) supermajority.

Definition hdr_in_play (h : header) : Prop :=
  h_slot _ h < 2 ^ 64 /\ h_proposer _ h < 2 ^ 64 /\ all_in_play (header_pairs h) /\
  (forall d, fork_domain hash (c_forks _ cfg) (epoch_of (h_slot _ h)) = Some d ->
             InPlay (header_hash h) d).

Definition per (h : header) : N := sync_period (h_slot _ h).

Record world_ok : Prop := {
  w_eqb : forall a b, hash_eqb a b = true <-> a = b;
  w_H2_inj_on : forall a b c d, InPlay a b -> InPlay c d -> H2 a b = H2 c d -> a = c /\ b = d;
  w_lit64_inj : forall a b, a < 2 ^ 64 -> b < 2 ^ 64 -> lit64 a = lit64 b -> a = b;
  w_croot_inj : forall p c, croot c = croot (gen p) -> c = gen p;
  (* an aggregate that verifies for the genuine committee with at least the effective
     threshold of participants contains an honest member's signature *)
  w_sig_unforgeable : forall p sr signers sg,
    sig_verify (gen p) sr signers sg = true -> eff_threshold <= signer_count signers ->
    honest_signed p sr;
  (* honest members only sign (the signing root of) canonical headers *)
  w_honest_canonical : forall p sr, honest_signed p sr ->
    exists h, canonical h /\ signing_root cfg h = Some sr;
  w_canonical_in_play : forall h, canonical h -> hdr_in_play h;
  (* the state of a canonical header of period P holds the committees of P and P+1
     at the sync-committee indices of its fork *)
  w_canonical_state : forall h, canonical h -> exists br,
    verify_proof (h_state _ h) (idx_sync (hv h)) (croot (gen (per h + 1)) :: br)
                 (croot (gen (per h))) = MOk /\
    all_in_play (walk_pairs (idx_sync (hv h)) (croot (gen (per h + 1)) :: br) (croot (gen (per h))));
  (* the Version of an update/bootstrap is not authenticated: what can be proved at the
     OTHER fork's indices of a canonical state is never the root of a committee *)
  w_no_version_confusion : forall h br x c, canonical h ->
    (verify_proof (h_state _ h) (idx_sync (negb (hv h))) br x = MOk \/
     verify_proof (h_state _ h) (idx_next (negb (hv h))) br x = MOk) -> croot c <> x;
  w_trusted_canonical : forall x, trusted x = true -> exists h, canonical h /\ header_hash h = x }.

(* deliveries: the pairs hashed while checking them are in play *)
Definition upd_in_play (u : update) : Prop :=
  hdr_in_play (sh_header _ _ (u_att _ _ u)) /\
  all_in_play (walk_pairs (idx_next (u_old _ _ u)) (u_next_branch _ _ u) (u_next_root _ _ u)).
Definition boot_in_play (b : bootstrap) : Prop :=
  hdr_in_play (b_header _ _ b) /\
  all_in_play (walk_pairs (idx_sync (b_old _ _ b)) (b_branch _ _ b) (b_croot _ _ b)).
Definition delivery_in_play (d : delivery) : Prop :=
  match d with
  | DBoot _ _ _ b => boot_in_play b
  | DUpd _ _ _ _ u _ => upd_in_play u
  end.

(* ------------------------------------------------------------------ stores (no world needed) *)

Lemma st_get_add {T} (s s' : store T) p v q x :
  st_add s p v = Some s' -> st_get s' q = Some x -> (q = p /\ x = v) \/ st_get s q = Some x.
Proof.
  unfold st_add, st_get. destruct (r_can_expand (st_rng s) p) eqn:Hc; cbn [negb]; [|discriminate].
  intros [= <-]. cbn [st_rng st_map].
  destruct (q =? p) eqn:Hqp.
  - apply N.eqb_eq in Hqp. subst q.
    destruct (r_contains (r_expand (st_rng s) p) p); [|discriminate]. intros [= <-]. now left.
  - destruct (r_contains (r_expand (st_rng s) p) q) eqn:Hn; [|discriminate].
    intros Hx. right.
    assert (Hin : r_contains (st_rng s) q = true).
    { revert Hn Hc. unfold r_contains, r_expand, r_can_expand, r_is_empty.
      destruct (st_rng s) as [a b]. cbn [r_start r_end].
      destruct (b =? a) eqn:E1; cbn [r_start r_end orb].
      - intros. lia.
      - destruct (a =? p + 1) eqn:E2; destruct (b =? p) eqn:E3; cbn [r_start r_end]; intros; lia. }
    now rewrite Hin.
Qed.

Lemma st_get_add_same {T} (s s' : store T) p v :
  st_add s p v = Some s' -> st_get s' p = Some v.
Proof.
  unfold st_add, st_get. destruct (r_can_expand (st_rng s) p) eqn:Hc; cbn [negb]; [|discriminate].
  intros [= <-]. cbn [st_rng st_map]. rewrite N.eqb_refl.
  assert (H : r_contains (r_expand (st_rng s) p) p = true).
  { revert Hc. unfold r_contains, r_expand, r_can_expand, r_is_empty.
    destruct (st_rng s) as [a b]. cbn [r_start r_end].
    destruct (b =? a) eqn:E1; cbn [r_start r_end orb].
    - intros. lia.
    - destruct (a =? p + 1) eqn:E2; destruct (b =? p) eqn:E3; cbn [r_start r_end]; intros; lia. }
  now rewrite H.
Qed.

Lemma st_get_delete {T} (s : store T) f q x :
  st_get (st_delete_from s f) q = Some x -> st_get s q = Some x.
Proof.
  unfold st_delete_from, st_get, r_split.
  destruct (st_rng s) as [a b]. cbn [r_start r_end].
  destruct (f <=? a) eqn:E1; [|destruct (b <=? f) eqn:E2]; cbn [st_rng st_map];
    unfold r_contains, r_empty; cbn [r_start r_end].
  - destruct ((0 <=? q) && (q <? 0)) eqn:E; [lia|discriminate].
  - destruct ((a <=? q) && (q <? b)) eqn:E; [|discriminate].
    destruct ((0 <=? q) && (q <? 0)) eqn:E'; [lia|auto].
  - destruct ((a <=? q) && (q <? f)) eqn:E; [|discriminate].
    destruct ((f <=? q) && (q <? b)) eqn:E'; [discriminate|].
    intros Hx. assert ((a <=? q) && (q <? b) = true) as -> by lia. exact Hx.
Qed.

(* pointwise inclusion of chains *)
Definition sub_chain (s' s : chain) : Prop :=
  (forall q x, st_get (fixed _ _ _ s') q = Some x -> st_get (fixed _ _ _ s) q = Some x) /\
  (forall q x, st_get (comms _ _ _ s') q = Some x -> st_get (comms _ _ _ s) q = Some x) /\
  (forall q x, st_get (upds _ _ _ s') q = Some x -> st_get (upds _ _ _ s) q = Some x).

Lemma sub_chain_refl s : sub_chain s s.
Proof. repeat split; auto. Qed.

Lemma sub_chain_trans a b c : sub_chain a b -> sub_chain b c -> sub_chain a c.
Proof. intros (A1 & A2 & A3) (B1 & B2 & B3). repeat split; auto. Qed.

Lemma rollback_step_sub ms : sub_chain (snd (rollback_step ms)) (snd ms).
Proof.
  unfold Committee.rollback_step. cbn [snd fixed comms upds]. repeat split; intros q x.
  - apply st_get_delete.
  - apply st_get_delete.
  - destruct (0 <? fst ms - 1); [apply st_get_delete|auto].
Qed.

Lemma rollback_sub s p : sub_chain (rollback s p) s.
Proof.
  unfold Committee.rollback.
  set (m0 := N.max _ _).
  assert (H : sub_chain (snd (N.iter (m0 - p) rollback_step (m0, s))) s).
  { apply N.iter_invariant with (Inv := fun ms => sub_chain (snd ms) s).
    - intros ms Hms. eapply sub_chain_trans; [apply rollback_step_sub|exact Hms].
    - apply sub_chain_refl. }
  exact H.
Qed.

Lemma reset_sub s : sub_chain (reset s) s.
Proof. apply rollback_sub. Qed.

Lemma delete_fixed_from_sub s p : sub_chain (delete_fixed_from s p) s.
Proof.
  unfold Committee.delete_fixed_from.
  destruct (r_end (st_rng (fixed _ _ _ s)) <=? p); [apply sub_chain_refl|].
  destruct (r_is_empty (st_rng (upds _ _ _ s)) || (p <=? r_start (st_rng (upds _ _ _ s)))).
  - repeat split; cbn [fixed comms upds]; intros q x; apply st_get_delete.
  - repeat split; cbn [fixed comms upds]; intros q x; auto; apply st_get_delete.
Qed.

(* ------------------------------------------------------------------ with the world *)
Hypothesis W : world_ok.

Lemma eqb_false a b : hash_eqb a b = false -> a <> b.
Proof. intros H E. apply (w_eqb W) in E. congruence. Qed.

Lemma eqb_true a b : hash_eqb a b = true -> a = b.
Proof. apply (w_eqb W). Qed.

(* ---- Merkle ---- *)
Lemma walk_index_le : forall br i v j r,
  walk i br v = Some (j, r) -> j <= i /\ (br <> [] -> j < i).
Proof.
  induction br as [|s t IH]; intros i v j r; cbn [Merkle.walk].
  - intros [= <- <-]. split; [lia|congruence].
  - destruct (N.div2 i =? 0) eqn:E; [discriminate|].
    intros Hw. apply IH in Hw. destruct Hw as [Hle _].
    assert (N.div2 i < i).
    { rewrite N.div2_div. apply N.eqb_neq in E. rewrite N.div2_div in E.
      apply N.div_lt; lia. }
    split; [lia|intros _; lia].
Qed.

Lemma walk_inj : forall br1 br2 i v1 v2 j r,
  all_in_play (walk_pairs i br1 v1) -> all_in_play (walk_pairs i br2 v2) ->
  walk i br1 v1 = Some (j, r) -> walk i br2 v2 = Some (j, r) ->
  v1 = v2 /\ br1 = br2.
Proof.
  induction br1 as [|s1 t1 IH]; intros [|s2 t2] i v1 v2 j r P1 P2 W1 W2.
  - cbn in W1, W2. split; congruence.
  - cbn [Merkle.walk] in W1. injection W1 as <- <-.
    apply walk_index_le in W2. destruct W2 as [_ W2]. specialize (W2 ltac:(discriminate)). lia.
  - cbn [Merkle.walk] in W2. injection W2 as <- <-.
    apply walk_index_le in W1. destruct W1 as [_ W1]. specialize (W1 ltac:(discriminate)). lia.
  - cbn [Merkle.walk Merkle.walk_pairs] in *.
    destruct (N.div2 i =? 0); [discriminate|].
    inversion P1 as [|? ? Q1 P1']; subst. inversion P2 as [|? ? Q2 P2']; subst.
    destruct (N.even i); cbn [fst snd] in *.
    + destruct (IH _ _ _ _ _ _ P1' P2' W1 W2) as [E ->].
      apply (w_H2_inj_on W) in E; auto. destruct E as [-> ->]. auto.
    + destruct (IH _ _ _ _ _ _ P1' P2' W1 W2) as [E ->].
      apply (w_H2_inj_on W) in E; auto. destruct E as [-> ->]. auto.
Qed.

Lemma verify_proof_ok root i br v :
  verify_proof root i br v = MOk -> walk i br v = Some (1, root).
Proof.
  unfold Merkle.verify_proof. destruct (walk i br v) as [[j r]|]; [|discriminate].
  destruct (j =? 1) eqn:E; cbn [negb]; [|discriminate].
  destruct (hash_eqb r root) eqn:E2; cbn [negb]; [|discriminate].
  intros _. apply N.eqb_eq in E. apply eqb_true in E2. congruence.
Qed.

Lemma verify_proof_inj root i br1 br2 v1 v2 :
  verify_proof root i br1 v1 = MOk -> verify_proof root i br2 v2 = MOk ->
  all_in_play (walk_pairs i br1 v1) -> all_in_play (walk_pairs i br2 v2) ->
  v1 = v2 /\ br1 = br2.
Proof.
  intros H1 H2' P1 P2. apply verify_proof_ok in H1, H2'. eapply walk_inj; eauto.
Qed.

(* the sibling of the current-committee leaf is the next-committee leaf *)
Lemma sibling_next root old n c br :
  verify_proof root (idx_sync old) (n :: br) c = MOk ->
  verify_proof root (idx_next old) (c :: br) n = MOk /\
  walk_pairs (idx_next old) (c :: br) n = walk_pairs (idx_sync old) (n :: br) c.
Proof.
  destruct old; unfold Merkle.verify_proof; cbn; auto.
Qed.

(* ---- headers ---- *)
Ltac inv_forall :=
  repeat match goal with
  | H : all_in_play (_ :: _) |- _ => inversion H; clear H; subst
  | H : Forall _ (_ :: _) |- _ => inversion H; clear H; subst
  end.

Lemma header_hash_inj h1 h2 :
  hdr_in_play h1 -> hdr_in_play h2 -> header_hash h1 = header_hash h2 -> h1 = h2.
Proof.
  intros (S1 & P1 & A1 & _) (S2 & P2 & A2 & _).
  destruct h1 as [s1 p1 pa1 st1 b1], h2 as [s2 p2 pa2 st2 b2].
  unfold Committee.header_hash, Committee.header_pairs in *. cbn [h_slot h_proposer h_parent h_state h_body] in *.
  inv_forall. cbn [fst snd] in *. intros E.
  apply (w_H2_inj_on W) in E; auto. destruct E as [E1 E2].
  apply (w_H2_inj_on W) in E1; auto. destruct E1 as [E11 E12].
  apply (w_H2_inj_on W) in E2; auto. destruct E2 as [E21 _].
  apply (w_H2_inj_on W) in E11; auto. destruct E11 as [Ea Eb].
  apply (w_H2_inj_on W) in E12; auto. destruct E12 as [-> ->].
  apply (w_H2_inj_on W) in E21; auto. destruct E21 as [-> _].
  apply (w_lit64_inj W) in Ea; auto. apply (w_lit64_inj W) in Eb; auto. subst. reflexivity.
Qed.

(* a header whose signing root verifies under the genuine committee with enough
   participants is a canonical header *)
Lemma signed_canonical p h sr signers sg :
  hdr_in_play h -> signing_root cfg h = Some sr ->
  sig_verify (gen p) sr signers sg = true -> eff_threshold <= signer_count signers ->
  canonical h /\ honest_signed p sr.
Proof.
  intros Hh Hsr Hv Hc.
  pose proof (w_sig_unforgeable W _ _ _ _ Hv Hc) as Hs.
  split; [|exact Hs].
  destruct (w_honest_canonical W _ _ Hs) as (h' & Hcan & Hsr').
  pose proof (w_canonical_in_play W _ Hcan) as Hh'.
  unfold Committee.signing_root in Hsr, Hsr'.
  destruct (fork_domain hash (c_forks _ cfg) (epoch_of (h_slot _ h))) as [d|] eqn:Ed; [|discriminate].
  destruct (fork_domain hash (c_forks _ cfg) (epoch_of (h_slot _ h'))) as [d'|] eqn:Ed'; [|discriminate].
  injection Hsr as <-. injection Hsr' as E.
  destruct Hh as (? & ? & ? & Hd). destruct Hh' as (? & ? & ? & Hd').
  apply (w_H2_inj_on W) in E; auto. destruct E as [E _].
  assert (h' = h) as <-; [|exact Hcan].
  apply header_hash_inj; repeat split; auto.
Qed.

(* ---- genuine roots ---- *)
Definition okroot (p : N) (r : hash) : Prop := forall c, croot c = r -> c = gen p.

Lemma okroot_gen p : okroot p (croot (gen p)).
Proof. intros c. apply (w_croot_inj W). Qed.

(* whatever a valid next-sync-committee proof in a canonical state proves is (at most)
   the root of the genuine next committee *)
Lemma canonical_next_ok h old br x :
  canonical h -> verify_proof (h_state _ h) (idx_next old) br x = MOk ->
  all_in_play (walk_pairs (idx_next old) br x) -> okroot (per h + 1) x.
Proof.
  intros Hcan Hv Hp.
  destruct (Bool.bool_dec old (hv h)) as [->|Hne].
  - destruct (w_canonical_state W _ Hcan) as (br0 & Hg & Hgp).
    apply sibling_next in Hg. destruct Hg as [Hg Hpairs]. rewrite <- Hpairs in Hgp.
    destruct (verify_proof_inj _ _ _ _ _ _ Hv Hg Hp Hgp) as [-> _]. apply okroot_gen.
  - assert (old = negb (hv h)) as -> by (revert Hne; destruct old, (hv h); cbn; congruence).
    intros c Hc. exfalso. eapply (w_no_version_confusion W); eauto.
Qed.

Lemma canonical_sync_ok h old br x :
  canonical h -> verify_proof (h_state _ h) (idx_sync old) br x = MOk ->
  all_in_play (walk_pairs (idx_sync old) br x) ->
  okroot (per h) x /\ (forall n t, br = n :: t -> okroot (per h + 1) n).
Proof.
  intros Hcan Hv Hp.
  destruct (Bool.bool_dec old (hv h)) as [->|Hne].
  - destruct (w_canonical_state W _ Hcan) as (br0 & Hg & Hgp).
    destruct (verify_proof_inj _ _ _ _ _ _ Hv Hg Hp Hgp) as [-> ->].
    split; [apply okroot_gen|]. intros n t [= <- <-]. apply okroot_gen.
  - assert (old = negb (hv h)) as -> by (revert Hne; destruct old, (hv h); cbn; congruence).
    assert (F : forall c, croot c <> x) by (intros c; eapply (w_no_version_confusion W); eauto).
    split.
    + intros c Hc. exfalso. eapply F; eauto.
    + (* the sibling is proved at the next index of the same (wrong) version *)
      intros n t ->. intros c Hc. exfalso.
      assert (Hn : verify_proof (h_state _ h) (idx_next (negb (hv h))) (x :: t) n = MOk)
        by (apply sibling_next; exact Hv).
      eapply (w_no_version_confusion W); eauto.
Qed.

(* ------------------------------------------------------------------ the invariant *)
Definition Inv (s : chain) : Prop :=
  (forall p r, st_get (fixed _ _ _ s) p = Some r -> r = zero \/ okroot p r) /\
  (forall p c, st_get (comms _ _ _ s) p = Some c -> c = gen p) /\
  (forall p u, st_get (upds _ _ _ s) p = Some u -> okroot (p + 1) (u_next_root _ _ u)).

Lemma Inv_empty : Inv chain_empty.
Proof.
  repeat split; intros p x; unfold Committee.chain_empty, st_get, st_empty; cbn;
    unfold r_contains; cbn; destruct ((0 <=? p) && (p <? 0)) eqn:E; try lia; discriminate.
Qed.

Lemma Inv_sub s s' : sub_chain s' s -> Inv s -> Inv s'.
Proof.
  intros (S1 & S2 & S3) (I1 & I2 & I3). repeat split; intros; eauto.
Qed.

Lemma gcr_ok s p : Inv s -> get_committee_root s p = zero \/ okroot p (get_committee_root s p).
Proof.
  intros (I1 & _ & I3). unfold Committee.get_committee_root.
  destruct (st_get (fixed _ _ _ s) p) as [r|] eqn:E; [eauto|].
  destruct (p =? 0) eqn:E0; [auto|].
  destruct (st_get (upds _ _ _ s) (p - 1)) as [u|] eqn:Eu; [|auto].
  right. apply I3 in Eu. replace (p - 1 + 1) with p in Eu by lia. exact Eu.
Qed.

Lemma Inv_add_fixed s p r f :
  Inv s -> (r = zero \/ okroot p r) -> st_add (fixed _ _ _ s) p r = Some f ->
  Inv (mkChain _ _ _ f (comms _ _ _ s) (upds _ _ _ s)).
Proof.
  intros (I1 & I2 & I3) Hr Ha. repeat split; cbn [fixed comms upds]; auto.
  intros q x Hq. destruct (st_get_add _ _ _ _ _ _ Ha Hq) as [[-> ->]|Hold]; eauto.
Qed.

Lemma add_committee_inv s p c : Inv s -> Inv (fst (add_committee s p c)).
Proof.
  intros HI. unfold Committee.add_committee.
  destruct (r_can_expand _ p); cbn [negb]; [|exact HI].
  destruct (hash_eqb (get_committee_root s p) zero) eqn:Ez; [exact HI|].
  destruct (hash_eqb (get_committee_root s p) (croot c)) eqn:Ec; cbn [negb]; [|exact HI].
  destruct (r_contains _ p); cbn [negb]; [exact HI|].
  destruct (st_add (comms _ _ _ s) p c) as [cs|] eqn:Ea; [|exact HI].
  cbn [fst]. apply eqb_false in Ez. apply eqb_true in Ec.
  destruct (gcr_ok s p HI) as [Hz|Hok]; [contradiction|].
  destruct HI as (I1 & I2 & I3). repeat split; cbn [fixed comms upds]; auto.
  intros q x Hq. destruct (st_get_add _ _ _ _ _ _ Ea Hq) as [[-> ->]|Hold]; eauto.
Qed.

Lemma fill_step_inv acc : Inv (fst (snd acc)) -> Inv (fst (snd (fill_step acc))).
Proof.
  destruct acc as [p [s ok]]. cbn [fst snd]. intros HI. unfold Committee.fill_step.
  destruct ok; cbn [negb fst snd]; [|exact HI].
  destruct (st_add (fixed _ _ _ s) p (get_committee_root s p)) as [f|] eqn:Ea; cbn [fst snd]; [|exact HI].
  eapply Inv_add_fixed; [exact HI | apply gcr_ok; exact HI | exact Ea].
Qed.

Lemma add_fixed_root_inv s p r :
  Inv s -> (r = zero \/ okroot p r) -> Inv (fst (add_fixed_root s p r)).
Proof.
  intros HI Hr. unfold Committee.add_fixed_root.
  destruct (hash_eqb r zero); [exact HI|].
  set (pre := if negb (r_can_expand _ p) then _ else _).
  assert (Hpre : match pre with Some (s1, _) => Inv s1 | None => True end).
  { subst pre. destruct (r_can_expand _ p); cbn [negb]; [exact HI|].
    destruct (hash_eqb r (get_committee_root s p)); cbn [negb]; [|exact I].
    set (it := N.iter _ _ _).
    assert (Hx : Inv (fst (snd it))).
    { subst it. apply N.iter_invariant with (Inv := fun acc => Inv (fst (snd acc))).
      - intros acc. apply fill_step_inv.
      - exact HI. }
    destruct (snd it) as [s1 b]. exact Hx. }
  clearbody pre. destruct pre as [[s1 [|]]|]; cbn [fst]; [| exact Hpre | exact HI].
  match goal with |- context [if ?c then rollback s1 p else s1] =>
    set (s2 := if c then rollback s1 p else s1) end.
  assert (H2i : Inv s2).
  { subst s2. match goal with |- Inv (if ?c then _ else _) => destruct c end; [|exact Hpre].
    eapply Inv_sub; [apply rollback_sub|exact Hpre]. }
  destruct (st_add (fixed _ _ _ s2) p r) as [f|] eqn:Ea; cbn [fst]; [|exact H2i].
  eapply Inv_add_fixed; eauto.
Qed.

Lemma reset_inv s : Inv s -> Inv (reset s).
Proof. apply Inv_sub, reset_sub. Qed.

Lemma merkle_code_ok base r : base <> 0 -> merkle_code base r = E_ok -> r = MOk.
Proof. unfold merkle_code, E_ok. destruct r; auto; lia. Qed.

Lemma checkpoint_init_inv s b :
  Inv s -> trusted (header_hash (b_header _ _ b)) = true -> boot_in_play b ->
  Inv (fst (checkpoint_init s b)).
Proof.
  intros HI Ht [Hh Hp]. unfold Committee.checkpoint_init.
  destruct (validate_bootstrap b =? E_ok) eqn:Ev; cbn [negb]; [|exact HI].
  apply N.eqb_eq in Ev. unfold Committee.validate_bootstrap in Ev.
  destruct (hash_eqb (b_croot _ _ b) (croot (b_committee _ _ b))) eqn:Ecr; cbn [negb] in Ev;
    [|unfold E_boot_root, E_ok in Ev; lia].
  apply merkle_code_ok in Ev; [|unfold E_boot_proof; lia].
  destruct (w_trusted_canonical W _ Ht) as (h & Hcan & Hhh).
  assert (h = b_header _ _ b) as ->.
  { apply header_hash_inj; auto. apply (w_canonical_in_play W); exact Hcan. }
  destruct (canonical_sync_ok _ _ _ _ Hcan Ev Hp) as [Hroot Hnext].
  fold (per (b_header _ _ b)).
  set (P := per (b_header _ _ b)) in *.
  pose proof (Inv_sub _ _ (delete_fixed_from_sub s (P + 2)) HI) as H0.
  set (s0 := delete_fixed_from s (P + 2)) in *.
  pose proof (add_fixed_root_inv s0 P (b_croot _ _ b) H0 (or_intror Hroot)) as H1.
  destruct (add_fixed_root s0 P (b_croot _ _ b)) as [s1 e1]. cbn [fst] in H1.
  set (r1 := if negb (e1 =? E_ok) then _ else _).
  assert (Hr1 : Inv (fst r1)).
  { subst r1. destruct (e1 =? E_ok); cbn [negb fst]; [exact H1|].
    apply add_fixed_root_inv; [apply reset_inv; exact H1|right; exact Hroot]. }
  destruct r1 as [s2 e1']. cbn [fst] in Hr1.
  destruct (e1' =? E_ok); cbn [negb fst]; [|apply reset_inv; exact Hr1].
  destruct (b_branch _ _ b) as [|next rest] eqn:Eb; [exact Hr1|].
  pose proof (add_fixed_root_inv s2 (P + 1) next Hr1 (or_intror (Hnext _ _ eq_refl))) as H3.
  destruct (add_fixed_root s2 (P + 1) next) as [s3 e2]. cbn [fst] in H3.
  destruct (e2 =? E_ok); cbn [negb fst]; [|apply reset_inv; exact H3].
  pose proof (add_committee_inv s3 P (b_committee _ _ b) H3) as H4.
  destruct (add_committee s3 P (b_committee _ _ b)) as [s4 e3]. cbn [fst] in H4.
  destruct (e3 =? E_ok); cbn [negb fst]; [exact H4|apply reset_inv; exact H4].
Qed.

(* ---- scores ---- *)
Lemma score_ok (u : update) :
  better_than (min_score cfg) (score_of u) = false ->
  eff_threshold <= signer_count (sh_signers _ _ (u_att _ _ u)).
Proof.
  unfold better_than, Committee.min_score, sc_finalized, Committee.score_of, eff_threshold.
  cbn [sc_fin sc_count andb].
  destruct (match u_fin _ _ u with Some _ => true | None => false end); cbn [andb].
  - destruct (supermajority <=? _) eqn:E; cbn [Bool.eqb negb]; intros; lia.
  - cbn [Bool.eqb negb]. intros; lia.
Qed.

(* ---- verified updates ---- *)
(* the outcome of verify_signed_header, characterised *)
Lemma verify_signed_header_true now s sh :
  verify_signed_header cfg now s sh = (true, false) ->
  exists c sr,
    st_get (comms _ _ _ s) (sync_period (sh_sigslot _ _ sh)) = Some c /\
    signing_root cfg (sh_header _ _ sh) = Some sr /\
    sig_verify c sr (sh_signers _ _ sh) (sh_sig _ _ sh) = true /\
    (c_enforce _ cfg && (header_age cfg now (h_slot _ (sh_header _ _ sh)) <? 0)%Z = false).
Proof.
  unfold Committee.verify_signed_header.
  destruct (c_enforce _ cfg && _) eqn:Et; [discriminate|].
  destruct (st_get _ _) as [c|]; [|discriminate].
  destruct (signing_root cfg _) as [sr|]; [|discriminate].
  intros [= Hv]. eauto 8.
Qed.

Lemma validate_update_ok (u : update) :
  validate_update u = E_ok ->
  sync_period (sh_sigslot _ _ (u_att _ _ u)) = per (sh_header _ _ (u_att _ _ u)) /\
  verify_proof (h_state _ (sh_header _ _ (u_att _ _ u))) (idx_next (u_old _ _ u))
               (u_next_branch _ _ u) (u_next_root _ _ u) = MOk.
Proof.
  unfold Committee.validate_update.
  destruct (sync_period (sh_sigslot _ _ (u_att _ _ u)) =? _) eqn:E1; cbn [negb];
    [|unfold E_val_sigperiod, E_ok; lia].
  set (fin := match u_fin _ _ u with Some _ => _ | None => _ end).
  destruct (fin =? E_ok) eqn:E2; cbn [negb].
  - intros H. apply merkle_code_ok in H; [|unfold E_val_nextproof; lia].
    apply N.eqb_eq in E1. auto.
  - intros H. apply N.eqb_neq in E2. contradiction.
Qed.

Lemma insert_update_cases now s u next :
  let r := insert_update cfg now s u next in
  fst r = s \/
  (better_than (min_score cfg) (score_of u) = false /\
   verify_signed_header cfg now s (u_att _ _ u) = (true, false)).
Proof.
  cbn zeta. unfold Committee.insert_update.
  destruct (_ || _); [left; reflexivity|].
  destruct (better_than (min_score cfg) (score_of u)) eqn:Eb; [left; reflexivity|].
  match goal with |- context [if ?c then (s, _) else _] => destruct c end; [left; reflexivity|].
  match goal with |- context [if ?c then (s, _) else _] => destruct c end; [left; reflexivity|].
  destruct (verify_signed_header cfg now s (u_att _ _ u)) as [[|] [|]] eqn:Ev;
    try (left; reflexivity).
  right. auto.
Qed.

Lemma insert_update_inv now s u next :
  Inv s -> validate_update u = E_ok -> upd_in_play u ->
  Inv (fst (insert_update cfg now s u next)) /\
  (fst (insert_update cfg now s u next) = s \/ canonical (sh_header _ _ (u_att _ _ u))).
Proof.
  intros HI Hval [Hh Hp].
  destruct (insert_update_cases now s u next) as [Hs|[Hscore Hv]].
  { rewrite Hs. auto. }
  apply validate_update_ok in Hval. destruct Hval as [Hper Hproof].
  apply verify_signed_header_true in Hv. destruct Hv as (c & sr & Hc & Hsr & Hsig & _).
  pose proof HI as (I1 & I2 & I3).
  apply I2 in Hc. subst c.
  destruct (signed_canonical _ _ _ _ _ Hh Hsr Hsig (score_ok _ Hscore)) as [Hcan _].
  pose proof (canonical_next_ok _ _ _ _ Hcan Hproof Hp) as Hok.
  split; [|right; exact Hcan].
  unfold per in *. set (period := sync_period (h_slot _ (sh_header _ _ (u_att _ _ u)))) in *.
  unfold Committee.insert_update. fold period.
  destruct (_ || _); [exact HI|].
  destruct (better_than (min_score cfg) (score_of u)); [exact HI|].
  match goal with |- context [if ?c then (s, _) else _] => destruct c end; [exact HI|].
  match goal with |- context [if ?c then (s, _) else _] => destruct c end; [exact HI|].
  destruct (verify_signed_header cfg now s (u_att _ _ u)) as [[|] [|]]; try exact HI.
  set (reorg := negb _ && negb _).
  set (add_c := negb _ || reorg).
  set (chk := if add_c then _ else E_ok).
  destruct (chk =? E_ok) eqn:Echk; cbn [negb]; [|exact HI].
  set (s1 := if reorg then rollback s (period + 1) else s).
  assert (H1 : Inv s1).
  { subst s1. destruct reorg; [|exact HI]. eapply Inv_sub; [apply rollback_sub|exact HI]. }
  match goal with |- context [match ?r with Some _ => _ | None => (s1, E_other) end] =>
    set (r2 := r) end.
  assert (Hr2 : match r2 with
                | Some cs => forall q x, st_get cs q = Some x -> x = gen q
                | None => True end).
  { subst r2. destruct add_c.
    - destruct next as [nc|]; [|exact I].
      destruct (st_add (comms _ _ _ s1) (period + 1) nc) as [cs|] eqn:Ea; [|exact I].
      intros q x Hq.
      destruct (st_get_add _ _ _ _ _ _ Ea Hq) as [[-> ->]|Hold].
      + subst chk. cbn in Echk.
        destruct (hash_eqb (croot nc) (u_next_root _ _ u)) eqn:Er; cbn [negb] in Echk;
          [|unfold E_wrong_root, E_ok in Echk; apply N.eqb_eq in Echk; lia].
        apply eqb_true in Er. apply Hok. exact Er.
      + destruct H1 as (_ & J2 & _). eauto.
    - destruct H1 as (_ & J2 & _). exact J2. }
  destruct r2 as [cs|]; cbn [fst]; [|exact H1].
  destruct H1 as (J1 & J2 & J3).
  destruct (st_add (upds _ _ _ s1) period u) as [us|] eqn:Eu; cbn [fst].
  - repeat split; cbn [fixed comms upds]; auto.
    intros q x Hq. destruct (st_get_add _ _ _ _ _ _ Eu Hq) as [[-> ->]|Hold]; eauto.
  - repeat split; cbn [fixed comms upds]; auto.
Qed.

(* ------------------------------------------------------------------ histories *)
Lemma deliver_inv s d :
  Inv s -> delivery_in_play d -> Inv (fst (deliver cfg trusted s d)).
Proof.
  intros HI Hd. destruct d as [b|now u next]; cbn [Committee.deliver].
  - unfold Committee.deliver_bootstrap.
    destruct (trusted (header_hash (b_header _ _ b))) eqn:Et; cbn [negb fst]; [|exact HI].
    apply checkpoint_init_inv; auto.
  - unfold Committee.deliver_update.
    destruct (validate_update u =? E_ok) eqn:Ev; cbn [negb fst]; [|exact HI].
    apply N.eqb_eq in Ev. apply insert_update_inv; auto.
Qed.

Lemma run_inv : forall ds s,
  Inv s -> Forall delivery_in_play ds -> Inv (run_deliveries cfg trusted s ds).
Proof.
  induction ds as [|d ds IH]; intros s HI Hd; cbn; [exact HI|].
  inversion Hd; subst. apply IH; auto. apply deliver_inv; auto.
Qed.

(* THE property: after any sequence of deliveries from the empty chain, every stored
   committee is the genuine one; so is every root the chain relies on *)
Theorem chain_only_genuine ds p c :
  Forall delivery_in_play ds ->
  st_get (comms _ _ _ (run_deliveries cfg trusted chain_empty ds)) p = Some c -> c = gen p.
Proof.
  intros Hd. pose proof (run_inv ds _ Inv_empty Hd) as (_ & I2 & _). apply I2.
Qed.

Theorem chain_roots_genuine ds p :
  Forall delivery_in_play ds ->
  let s := run_deliveries cfg trusted chain_empty ds in
  (forall r, st_get (fixed _ _ _ s) p = Some r -> r = zero \/ okroot p r) /\
  (forall u, st_get (upds _ _ _ s) p = Some u -> okroot (p + 1) (u_next_root _ _ u)).
Proof.
  intros Hd. pose proof (run_inv ds _ Inv_empty Hd) as (I1 & _ & I3). split; eauto.
Qed.

(* a delivered update whose attested header is not canonical never changes the chain *)
Theorem forged_header_rejected ds now u next :
  Forall delivery_in_play ds -> upd_in_play u ->
  ~ canonical (sh_header _ _ (u_att _ _ u)) ->
  let s := run_deliveries cfg trusted chain_empty ds in
  fst (deliver_update cfg now s u next) = s.
Proof.
  intros Hd Hu Hn s. pose proof (run_inv ds _ Inv_empty Hd) as HI. fold s in HI.
  unfold Committee.deliver_update.
  destruct (validate_update u =? E_ok) eqn:Ev; cbn [negb fst]; [|reflexivity].
  apply N.eqb_eq in Ev.
  destruct (insert_update_inv now s u next HI Ev Hu) as [_ [H|H]]; [exact H|contradiction].
Qed.

(* ---- rejection per forgery class: syntactic, for every state ---- *)
Definition rejected (s : chain) (r : chain * N) : Prop := fst r = s /\ snd r <> E_ok.

Theorem forged_wrong_branch cfg' now s u next :
  verify_proof (h_state _ (sh_header _ _ (u_att _ _ u))) (idx_next (u_old _ _ u))
               (u_next_branch _ _ u) (u_next_root _ _ u) <> MOk ->
  rejected s (deliver_update cfg' now s u next).
Proof.
  intros Hb. unfold rejected, Committee.deliver_update.
  destruct (validate_update u =? E_ok) eqn:Ev; cbn [negb fst snd].
  - apply N.eqb_eq in Ev. apply validate_update_ok in Ev. destruct Ev. contradiction.
  - apply N.eqb_neq in Ev. auto.
Qed.

Theorem forged_wrong_sig_period cfg' now s u next :
  sync_period (sh_sigslot _ _ (u_att _ _ u)) <> sync_period (h_slot _ (sh_header _ _ (u_att _ _ u))) ->
  rejected s (deliver_update cfg' now s u next).
Proof.
  intros Hb. unfold rejected, Committee.deliver_update.
  destruct (validate_update u =? E_ok) eqn:Ev; cbn [negb fst snd].
  - apply N.eqb_eq in Ev. apply validate_update_ok in Ev. destruct Ev. contradiction.
  - apply N.eqb_neq in Ev. auto.
Qed.

Theorem forged_too_few_signers cfg' now s u next :
  let n := signer_count (sh_signers _ _ (u_att _ _ u)) in
  n < c_threshold _ cfg' -> (u_fin _ _ u = None \/ n < supermajority) ->
  rejected s (deliver_update cfg' now s u next).
Proof.
  intros n Hn Hf. unfold rejected, Committee.deliver_update.
  destruct (validate_update u =? E_ok) eqn:Ev; cbn [negb fst snd];
    [|apply N.eqb_neq in Ev; auto].
  unfold Committee.insert_update.
  destruct (_ || _); [cbn; unfold E_invalid_period, E_ok; split; [auto|lia]|].
  assert (Hb : better_than (min_score cfg') (score_of u) = true).
  { unfold better_than, Committee.min_score, sc_finalized, Committee.score_of.
    cbn [sc_fin sc_count andb]. fold n.
    destruct Hf as [->|Hf].
    - cbn [andb Bool.eqb negb]. lia.
    - assert (supermajority <=? n = false) as -> by lia.
      rewrite Bool.andb_false_r. cbn [Bool.eqb negb]. lia. }
  rewrite Hb. cbn. unfold E_invalid_update, E_ok. split; [auto|lia].
Qed.

Theorem forged_out_of_order cfg' now s u next :
  let period := sync_period (h_slot _ (sh_header _ _ (u_att _ _ u))) in
  r_can_expand (st_rng (upds _ _ _ s)) period = false \/
  r_contains (st_rng (comms _ _ _ s)) period = false ->
  rejected s (deliver_update cfg' now s u next).
Proof.
  intros period Hp. unfold rejected, Committee.deliver_update.
  destruct (validate_update u =? E_ok) eqn:Ev; cbn [negb fst snd];
    [|apply N.eqb_neq in Ev; auto].
  unfold Committee.insert_update. fold period.
  assert (negb (r_can_expand (st_rng (upds _ _ _ s)) period) ||
          negb (r_contains (st_rng (comms _ _ _ s)) period) = true) as ->
    by (destruct Hp as [-> | ->]; cbn; auto using Bool.orb_true_r).
  cbn. unfold E_invalid_period, E_ok. split; [auto|lia].
Qed.

Theorem forged_bad_signature cfg' now s u next c sr :
  let sh := u_att _ _ u in
  st_get (comms _ _ _ s) (sync_period (sh_sigslot _ _ sh)) = Some c ->
  Committee.signing_root hash H2 zero lit64 cfg' (sh_header _ _ sh) = Some sr ->
  sig_verify c sr (sh_signers _ _ sh) (sh_sig _ _ sh) = false ->
  fst (deliver_update cfg' now s u next) = s.
Proof.
  intros sh Hc Hsr Hv. unfold Committee.deliver_update.
  destruct (validate_update u =? E_ok); cbn [negb fst]; [|reflexivity].
  unfold Committee.insert_update.
  destruct (_ || _); [reflexivity|].
  destruct (better_than _ _); [reflexivity|].
  match goal with |- context [if ?c then (s, _) else _] => destruct c end; [reflexivity|].
  match goal with |- context [if ?c then (s, _) else _] => destruct c end; [reflexivity|].
  unfold Committee.verify_signed_header. fold sh.
  destruct (c_enforce _ cfg' && _); [reflexivity|].
  rewrite Hc, Hsr, Hv. reflexivity.
Qed.

(* ---- signed heads ---- *)
Theorem header_accepted_iff ds now old_slot old_count (sh : signed_header) :
  Forall delivery_in_play ds ->
  let s := run_deliveries cfg trusted chain_empty ds in
  let p := sync_period (sh_sigslot _ _ sh) in
  let n := signer_count (sh_signers _ _ sh) in
  let slot := h_slot _ (sh_header _ _ sh) in
  head_validate cfg now s old_slot old_count sh = 0 <->
  ( c_threshold _ cfg <= n /\
    (old_slot < slot \/ (slot = old_slot /\ old_count < n)) /\
    (c_enforce _ cfg = false \/ (0 <= header_age cfg now slot)%Z) /\
    st_get (comms _ _ _ s) p <> None /\
    exists sr, signing_root cfg (sh_header _ _ sh) = Some sr /\
               sig_verify (gen p) sr (sh_signers _ _ sh) (sh_sig _ _ sh) = true ).
Proof.
  intros Hd s p n slot. pose proof (run_inv ds _ Inv_empty Hd) as (_ & I2 & _). fold s in I2.
  unfold Committee.head_validate, Committee.verify_signed_header. fold n slot p.
  destruct (n <? c_threshold _ cfg) eqn:E1; [split; [discriminate|intros (? & _); lia]|].
  destruct ((slot <? old_slot) || ((slot =? old_slot) && (n <=? old_count))) eqn:E2;
    [split; [discriminate|intros (_ & ? & _); lia]|].
  destruct (c_enforce _ cfg && (header_age cfg now slot <? 0)%Z) eqn:E3.
  { split; [discriminate|]. intros (_ & _ & [H|H] & _).
    - rewrite H in E3. discriminate.
    - apply andb_prop in E3. lia. }
  destruct (st_get (comms _ _ _ s) p) as [c|] eqn:Ec;
    [|split; [discriminate|intros (_ & _ & _ & ? & _); congruence]].
  apply I2 in Ec. subst c.
  destruct (signing_root cfg (sh_header _ _ sh)) as [sr|] eqn:Esr.
  - destruct (sig_verify (gen p) sr (sh_signers _ _ sh) (sh_sig _ _ sh)) eqn:Ev.
    + split; [intros _|reflexivity].
      repeat split; try lia; try congruence.
      * destruct (c_enforce _ cfg); [right|left; reflexivity]. cbn in E3. lia.
      * eauto.
    + split; [discriminate|]. intros (_ & _ & _ & _ & sr' & [= <-] & Hv). congruence.
  - split; [discriminate|]. intros (_ & _ & _ & _ & sr' & ? & _). congruence.
Qed.

(* an accepted head is a canonical header, signed by at least the threshold of the
   genuine committee of the period of its signature slot *)
Theorem header_accepted_genuine ds now old_slot old_count (sh : signed_header) :
  Forall delivery_in_play ds -> hdr_in_play (sh_header _ _ sh) ->
  let s := run_deliveries cfg trusted chain_empty ds in
  head_validate cfg now s old_slot old_count sh = 0 ->
  canonical (sh_header _ _ sh) /\
  c_threshold _ cfg <= signer_count (sh_signers _ _ sh) /\
  exists sr, signing_root cfg (sh_header _ _ sh) = Some sr /\
             honest_signed (sync_period (sh_sigslot _ _ sh)) sr.
Proof.
  intros Hd Hh s Hacc. apply header_accepted_iff in Hacc; [|exact Hd].
  destruct Hacc as (Hn & _ & _ & _ & sr & Hsr & Hv).
  assert (He : eff_threshold <= signer_count (sh_signers _ _ sh)) by (unfold eff_threshold; lia).
  destruct (signed_canonical _ _ _ _ _ Hh Hsr Hv He) as [Hcan Hs].
  split; [exact Hcan|]. split; [exact Hn|]. eauto.
Qed.

(* ---- scores and replacement ---- *)
(* an update that is not better than the stored one changes nothing *)
Theorem worse_update_ignored cfg' now s u next ou :
  let period := sync_period (h_slot _ (sh_header _ _ (u_att _ _ u))) in
  st_get (upds _ _ _ s) period = Some ou ->
  better_than (score_of u) (score_of ou) = false ->
  fst (deliver_update cfg' now s u next) = s.
Proof.
  intros period Ho Hb. unfold Committee.deliver_update.
  destruct (validate_update u =? E_ok); cbn [negb fst]; [|reflexivity].
  unfold Committee.insert_update. fold period.
  destruct (_ || _); [reflexivity|].
  destruct (better_than _ (score_of u)); [reflexivity|].
  rewrite Ho, Hb. reflexivity.
Qed.

(* a better update for a period whose next committee is already known (and agrees)
   replaces the stored update and leaves every committee and fixed root as it was *)
Theorem better_update_replaces cfg' now s u next ou s' e :
  let period := sync_period (h_slot _ (sh_header _ _ (u_att _ _ u))) in
  st_get (upds _ _ _ s) period = Some ou ->
  r_contains (st_rng (comms _ _ _ s)) (period + 1) = true ->
  get_committee_root s (period + 1) = u_next_root _ _ u ->
  deliver_update cfg' now s u next = (s', e) -> s' <> s ->
  e = E_ok /\ better_than (score_of u) (score_of ou) = true /\
  fixed _ _ _ s' = fixed _ _ _ s /\ comms _ _ _ s' = comms _ _ _ s /\
  st_get (upds _ _ _ s') period = Some u.
Proof.
  intros period Ho Hc Hr. unfold Committee.deliver_update.
  destruct (validate_update u =? E_ok); cbn [negb]; [|intros [= <- <-]; congruence].
  unfold Committee.insert_update. fold period.
  destruct (_ || _); [intros [= <- <-]; congruence|].
  destruct (better_than _ (score_of u)); [intros [= <- <-]; congruence|].
  rewrite Ho, Hr.
  assert (Hre : negb (hash_eqb (u_next_root _ _ u) zero) &&
                negb (hash_eqb (u_next_root _ _ u) (u_next_root _ _ u)) = false).
  { assert (hash_eqb (u_next_root _ _ u) (u_next_root _ _ u) = true) as ->
      by (apply (w_eqb W); reflexivity).
    apply Bool.andb_false_r. }
  rewrite Hre.
  destruct (better_than (score_of u) (score_of ou)) eqn:Hb; cbn [negb];
    [|intros [= <- <-]; congruence].
  rewrite Bool.andb_false_r.
  destruct (verify_signed_header cfg' now s (u_att _ _ u)) as [[|] [|]];
    try (intros [= <- <-]; congruence).
  rewrite Hc. cbn [negb orb]. cbn [N.eqb E_ok negb].
  destruct (st_add (upds _ _ _ s) period u) as [us|] eqn:Ea.
  - intros [= <- <-] _. cbn [fixed comms upds]. repeat split; auto.
    eapply st_get_add_same; eauto.
  - intros [= <- <-] Hne. exfalso. apply Hne. destruct s; reflexivity.
Qed.

End Proofs.
