(* Light/Committee.v — executable model of the beacon light client committee
   chain: /repo/beacon/light/committee_chain.go, canonical.go, range.go,
   /repo/beacon/types/light_sync.go (LightClientUpdate.Validate / Score,
   UpdateScore.BetterThan, BootstrapData.Validate), types/header.go (Header.Hash,
   SyncPeriod, Epoch), params/config.go (Forks.domain / SigningRoot) and the
   signed-head acceptance of light/head_tracker.go (HeadTracker.validate).

   Cryptography is abstract (Section variables): [H2] = SHA-256 of two 32-byte
   values, [lit64 n] = the 32-byte value holding n little-endian, [croot] =
   SerializedSyncCommittee.Root, [sig_verify] = committeeSigVerifier.verifySignature
   on the deserialized committee.  No proofs in this file.

   Not modelled: the key-value database and write batches (the in-memory period
   ranges and caches are the state; every read in the Go code is guarded by the
   in-memory range), the LRU [committeeCache] of deserialized committees (assumed
   coherent; deserialization assumed to succeed), [changeCounter], locking. *)
From GV Require Import Lib.Tactics Light.Merkle.
Local Open Scope N_scope.

Section Chain.
Variable hash : Type.
Variable hash_eqb : hash -> hash -> bool.     (* Go == on common.Hash *)
Variable H2 : hash -> hash -> hash.
Variable zero : hash.                          (* common.Hash{} / merkle.Value{} *)
Variable lit64 : N -> hash.
Variable committee : Type.                     (* *types.SerializedSyncCommittee *)
Variable croot : committee -> hash.
Variable sigT : Type.                          (* [96]byte aggregate signature *)
Variable sig_verify : committee -> hash -> list N -> sigT -> bool.

Notation verify_proof := (verify_proof hash hash_eqb H2).

(* ---- params/params.go ---- *)
Definition sync_period_length : N := 8192.
Definition epoch_length : N := 32.
Definition supermajority : N := 342.            (* (512*2+2)/3 *)
(* StateIndex*(forkName): [old] = forkName in {"bellatrix","capella","deneb"} *)
Definition idx_final (old : bool) : N := if old then 105 else 169.
Definition idx_sync (old : bool) : N := if old then 54 else 86.
Definition idx_next (old : bool) : N := if old then 55 else 87.

(* ---- types/header.go ---- *)
Record header := mkHeader {
  h_slot : N; h_proposer : N; h_parent : hash; h_state : hash; h_body : hash }.

(* Header.Hash: values[8..15] = slot, proposer, parent, state, body, 0, 0, 0;
   values[i] = H(values[2i], values[2i+1]) for i = 7..1 *)
Definition header_hash (h : header) : hash :=
  H2 (H2 (H2 (lit64 (h_slot h)) (lit64 (h_proposer h))) (H2 (h_parent h) (h_state h)))
     (H2 (H2 (h_body h) zero) (H2 zero zero)).
Definition header_pairs (h : header) : list (hash * hash) :=
  [ (lit64 (h_slot h), lit64 (h_proposer h)); (h_parent h, h_state h);
    (h_body h, zero); (zero, zero);
    (H2 (lit64 (h_slot h)) (lit64 (h_proposer h)), H2 (h_parent h) (h_state h));
    (H2 (h_body h) zero, H2 zero zero);
    (H2 (H2 (lit64 (h_slot h)) (lit64 (h_proposer h))) (H2 (h_parent h) (h_state h)),
     H2 (H2 (h_body h) zero) (H2 zero zero)) ].

Definition sync_period (slot : N) : N := slot / sync_period_length.
Definition epoch_of (slot : N) : N := slot / epoch_length.

(* SyncAggregate / SignedHeader *)
Record signed_header := mkSigned {
  sh_header : header; sh_signers : list N (* 64 bytes *); sh_sig : sigT; sh_sigslot : N }.

(* bits.OnesCount8 summed over the bitmask *)
Definition popcount8 (b : N) : N :=
  fold_left (fun acc i => if N.testbit b i then acc + 1 else acc) [0;1;2;3;4;5;6;7] 0.
Definition signer_count (signers : list N) : N :=
  fold_left (fun acc b => acc + popcount8 b) signers 0.

(* ---- types/light_sync.go ---- *)
Record update := mkUpdate {
  u_old : bool;                      (* Version selects the state indices *)
  u_att : signed_header;
  u_next_root : hash;
  u_next_branch : list hash;
  u_fin : option header;
  u_fin_branch : list hash }.

Record bootstrap := mkBootstrap {
  b_old : bool; b_header : header; b_croot : hash; b_committee : committee;
  b_branch : list hash }.

Record score := mkScore { sc_count : N; sc_sub : N; sc_fin : bool }.
(* LightClientUpdate.Score *)
Definition score_of (u : update) : score :=
  mkScore (signer_count (sh_signers (u_att u)))
          (N.land (h_slot (sh_header (u_att u))) 8191)
          (match u_fin u with Some _ => true | None => false end).
(* UpdateScore.finalized / BetterThan *)
Definition sc_finalized (s : score) : bool := sc_fin s && (supermajority <=? sc_count s).
Definition better_than (u w : score) : bool :=
  if negb (Bool.eqb (sc_finalized u) (sc_finalized w)) then sc_finalized u
  else sc_count w <? sc_count u.

(* error classes exchanged with the harness *)
Definition E_ok : N := 0.
Definition E_need_committee : N := 1.
Definition E_invalid_update : N := 2.
Definition E_invalid_period : N := 3.
Definition E_wrong_root : N := 4.
Definition E_cannot_reorg : N := 5.
Definition E_other : N := 6.           (* missing committee / store expansion refused *)
Definition E_val_sigperiod : N := 10.  (* Validate: signature slot in another period *)
Definition E_val_finperiod : N := 11.
Definition E_val_finproof : N := 12.   (* +0 extra, +1 missing, +2 mismatch *)
Definition E_val_nextproof : N := 15.
Definition E_boot_root : N := 20.      (* BootstrapData.Validate "wrong committee root" *)
Definition E_boot_proof : N := 21.
Definition E_boot_untrusted : N := 24. (* light/api GetCheckpointData: header hash is not the checkpoint *)
Definition E_boot_panic : N := 25.     (* CommitteeBranch[0] on an empty branch *)

Definition merkle_code (base : N) (r : merkle_res) : N :=
  match r with MOk => E_ok | MExtra => base | MMissing => base + 1 | MMismatch => base + 2 end.

(* LightClientUpdate.Validate *)
Definition validate_update (u : update) : N :=
  let hdr := sh_header (u_att u) in
  let period := sync_period (h_slot hdr) in
  if negb (sync_period (sh_sigslot (u_att u)) =? period) then E_val_sigperiod else
  let fin :=
    match u_fin u with
    | Some fh =>
        if negb (sync_period (h_slot fh) =? period) then E_val_finperiod
        else merkle_code E_val_finproof
               (verify_proof (h_state hdr) (idx_final (u_old u)) (u_fin_branch u) (header_hash fh))
    | None => E_ok
    end in
  if negb (fin =? E_ok) then fin else
  merkle_code E_val_nextproof
    (verify_proof (h_state hdr) (idx_next (u_old u)) (u_next_branch u) (u_next_root u)).

(* BootstrapData.Validate *)
Definition validate_bootstrap (b : bootstrap) : N :=
  if negb (hash_eqb (b_croot b) (croot (b_committee b))) then E_boot_root else
  merkle_code E_boot_proof
    (verify_proof (h_state (b_header b)) (idx_sync (b_old b)) (b_branch b) (b_croot b)).

(* ---- light/range.go ---- *)
Record range := mkRange { r_start : N; r_end : N }.
Definition r_empty : range := mkRange 0 0.
Definition r_is_empty (a : range) : bool := r_end a =? r_start a.
Definition r_contains (a : range) (p : N) : bool := (r_start a <=? p) && (p <? r_end a).
Definition r_can_expand (a : range) (p : N) : bool :=
  r_is_empty a || ((r_start a <=? p + 1) && (p <=? r_end a)).
Definition r_expand (a : range) (p : N) : range :=
  if r_is_empty a then mkRange p (p + 1) else
  mkRange (if r_start a =? p + 1 then r_start a - 1 else r_start a)
          (if r_end a =? p then r_end a + 1 else r_end a).
(* split: (kept, deleted) *)
Definition r_split (a : range) (from : N) : range * range :=
  if from <=? r_start a then (r_empty, a)
  else if r_end a <=? from then (a, r_empty)
  else (mkRange (r_start a) from, mkRange from (r_end a)).

(* ---- light/canonical.go ---- *)
Record store (T : Type) := mkStore { st_rng : range; st_map : N -> option T }.
Arguments mkStore {T}. Arguments st_rng {T}. Arguments st_map {T}.
Definition st_empty {T} : store T := mkStore r_empty (fun _ => None).
(* canonicalStore.get: guarded by periods.contains *)
Definition st_get {T} (s : store T) (p : N) : option T :=
  if r_contains (st_rng s) p then st_map s p else None.
(* canonicalStore.add: None = "period expansion is not allowed" *)
Definition st_add {T} (s : store T) (p : N) (v : T) : option (store T) :=
  if negb (r_can_expand (st_rng s) p) then None else
  Some (mkStore (r_expand (st_rng s) p) (fun q => if q =? p then Some v else st_map s q)).
(* canonicalStore.deleteFrom *)
Definition st_delete_from {T} (s : store T) (from : N) : store T :=
  let '(keep, del) := r_split (st_rng s) from in
  mkStore keep (fun q => if r_contains del q then None else st_map s q).

(* ---- light/committee_chain.go ---- *)
Record chain := mkChain {
  fixed : store hash; comms : store committee; upds : store update }.
Definition chain_empty : chain := mkChain st_empty st_empty st_empty.

Record config := mkConfig {
  c_threshold : N;               (* signerThreshold, < 2^32 *)
  c_enforce : bool;              (* enforceTime *)
  c_genesis : N;                 (* config.GenesisTime *)
  c_forks : list (N * hash) }.   (* (Epoch, domain), in config order *)

(* newCommitteeChain: minimumUpdateScore *)
Definition min_score (cfg : config) : score := mkScore (c_threshold cfg) (sync_period_length / 16) false.

(* getCommitteeRoot *)
Definition get_committee_root (s : chain) (p : N) : hash :=
  match st_get (fixed s) p with
  | Some r => r
  | None =>
      if p =? 0 then zero else
      match st_get (upds s) (p - 1) with
      | Some u => u_next_root u
      | None => zero
      end
  end.

(* rollback: the loop [for max > period { max--; ... }] as N.iter over (max - period) *)
Definition rollback_step (ms : N * chain) : N * chain :=
  let m := fst ms - 1 in
  let s := snd ms in
  (m, mkChain (st_delete_from (fixed s) m) (st_delete_from (comms s) m)
              (if 0 <? m then st_delete_from (upds s) (m - 1) else upds s)).
Definition rollback (s : chain) (period : N) : chain :=
  let max0 := N.max (N.max (r_end (st_rng (upds s)) + 1) (r_end (st_rng (comms s))))
                    (r_end (st_rng (fixed s))) in
  snd (N.iter (max0 - period) rollback_step (max0, s)).
(* Reset / resetLocked *)
Definition reset (s : chain) : chain := rollback s 0.

(* addFixedCommitteeRoot; result (state, error class) *)
Definition fill_step (acc : N * (chain * bool)) : N * (chain * bool) :=
  let '(p, (s, ok)) := acc in
  if negb ok then acc else
  match st_add (fixed s) p (get_committee_root s p) with
  | Some f => (p + 1, (mkChain f (comms s) (upds s), true))
  | None => (p, (s, false))
  end.
Definition add_fixed_root (s : chain) (period : N) (root : hash) : chain * N :=
  if hash_eqb root zero then (s, E_wrong_root) else
  let old_root := get_committee_root s period in
  let pre : option (chain * bool) :=
    if negb (r_can_expand (st_rng (fixed s)) period) then
      if negb (hash_eqb root old_root) then None
      else let e := r_end (st_rng (fixed s)) in
           Some (snd (N.iter (period - e) fill_step (e, (s, true))))
    else Some (s, true) in
  match pre with
  | None => (s, E_invalid_period)
  | Some (s1, false) => (s1, E_other)
  | Some (s1, true) =>
      let s2 := if negb (hash_eqb old_root zero) && negb (hash_eqb old_root root)
                then rollback s1 period else s1 in
      match st_add (fixed s2) period root with
      | Some f => (mkChain f (comms s2) (upds s2), E_ok)
      | None => (s2, E_other)
      end
  end.

(* deleteFixedCommitteeRootsFrom *)
Definition delete_fixed_from (s : chain) (period : N) : chain :=
  if r_end (st_rng (fixed s)) <=? period then s else
  let f := st_delete_from (fixed s) period in
  if r_is_empty (st_rng (upds s)) || (period <=? r_start (st_rng (upds s))) then
    mkChain f (st_delete_from (comms s) period) (st_delete_from (upds s) period)
  else
    let from0 := r_end (st_rng (upds s)) + 1 in
    let from := if from0 <? period then period else from0 in
    mkChain f (st_delete_from (comms s) from) (upds s).

(* addCommittee *)
Definition add_committee (s : chain) (period : N) (c : committee) : chain * N :=
  if negb (r_can_expand (st_rng (comms s)) period) then (s, E_invalid_period) else
  let root := get_committee_root s period in
  if hash_eqb root zero then (s, E_invalid_period) else
  if negb (hash_eqb root (croot c)) then (s, E_wrong_root) else
  if negb (r_contains (st_rng (comms s)) period) then
    match st_add (comms s) period c with
    | Some cs => (mkChain (fixed s) cs (upds s), E_ok)
    | None => (s, E_other)
    end
  else (s, E_ok).

(* CheckpointInit (bootstrap.Validate is its first step) *)
Definition checkpoint_init (s : chain) (b : bootstrap) : chain * N :=
  let v := validate_bootstrap b in
  if negb (v =? E_ok) then (s, v) else
  let period := sync_period (h_slot (b_header b)) in
  let s := delete_fixed_from s (period + 2) in
  let '(s, e1) := add_fixed_root s period (b_croot b) in
  let r1 : chain * N :=
    if negb (e1 =? E_ok) then add_fixed_root (reset s) period (b_croot b) else (s, E_ok) in
  let '(s, e1') := r1 in
  if negb (e1' =? E_ok) then (reset s, e1') else
  match b_branch b with
  | [] => (s, E_boot_panic)
  | next :: _ =>
      let '(s, e2) := add_fixed_root s (period + 1) next in
      if negb (e2 =? E_ok) then (reset s, e2) else
      let '(s, e3) := add_committee s period (b_committee b) in
      if negb (e3 =? E_ok) then (reset s, e3) else (s, E_ok)
  end.

(* Forks.domain / SigningRoot *)
Definition fork_domain (forks : list (N * hash)) (epoch : N) : option hash :=
  match find (fun f => fst f <=? epoch) (rev forks) with
  | Some f => Some (snd f)
  | None => None
  end.
Definition signing_root (cfg : config) (h : header) : option hash :=
  match fork_domain (c_forks cfg) (epoch_of (h_slot h)) with
  | Some d => Some (H2 (header_hash h) d)
  | None => None
  end.

(* verifySignedHeader l.497-503: the age of the header, int64/uint64 wrap-around explicit *)
Definition two63 : Z := 9223372036854775808%Z.
Definition two64 : Z := 18446744073709551616%Z.
Definition s64 (z : Z) : Z := ((z + two63) mod two64 - two63)%Z.
Definition header_age (cfg : config) (now : Z) (slot : N) : Z :=
  let g := Z.of_N (c_genesis cfg) in
  let lim := (((((now + two63) mod two64) / 1000000000 - g) mod two64) / 12)%Z in
  if (Z.of_N slot <? lim)%Z
  then s64 (now - s64 (1000000000 * s64 ((g + Z.of_N slot * 12) mod two64)))
  else (- two63)%Z.

(* verifySignedHeader: (ok, error?) *)
Definition verify_signed_header (cfg : config) (now : Z) (s : chain) (sh : signed_header)
  : bool * bool :=
  let age := header_age cfg now (h_slot (sh_header sh)) in
  if c_enforce cfg && (age <? 0)%Z then (false, false) else
  match st_get (comms s) (sync_period (sh_sigslot sh)) with
  | None => (false, true)            (* "missing serialized sync committee" *)
  | Some c =>
      match signing_root cfg (sh_header sh) with
      | Some sr => (sig_verify c sr (sh_signers sh) (sh_sig sh), false)
      | None => (false, false)
      end
  end.

(* InsertUpdate *)
Definition insert_update (cfg : config) (now : Z) (s : chain) (u : update)
  (next : option committee) : chain * N :=
  let period := sync_period (h_slot (sh_header (u_att u))) in
  if negb (r_can_expand (st_rng (upds s)) period) || negb (r_contains (st_rng (comms s)) period)
  then (s, E_invalid_period) else
  if better_than (min_score cfg) (score_of u) then (s, E_invalid_update) else
  let old_root := get_committee_root s (period + 1) in
  let reorg := negb (hash_eqb old_root zero) && negb (hash_eqb old_root (u_next_root u)) in
  let not_better :=
    match st_get (upds s) period with
    | Some ou => negb (better_than (score_of u) (score_of ou))
    | None => false
    end in
  if not_better then (s, if reorg then E_cannot_reorg else E_ok) else
  if r_contains (st_rng (fixed s)) (period + 1) && reorg then (s, E_cannot_reorg) else
  match verify_signed_header cfg now s (u_att u) with
  | (_, true) => (s, E_other)
  | (false, false) => (s, E_invalid_update)
  | (true, false) =>
      let add_c := negb (r_contains (st_rng (comms s)) (period + 1)) || reorg in
      let chk : N :=
        if add_c then
          match next with
          | None => E_need_committee
          | Some nc => if negb (hash_eqb (croot nc) (u_next_root u)) then E_wrong_root else E_ok
          end
        else E_ok in
      if negb (chk =? E_ok) then (s, chk) else
      let s1 := if reorg then rollback s (period + 1) else s in
      let r2 : option (store committee) :=
        if add_c then
          match next with
          | Some nc => st_add (comms s1) (period + 1) nc
          | None => None
          end
        else Some (comms s1) in
      match r2 with
      | None => (s1, E_other)
      | Some cs =>
          match st_add (upds s1) period u with
          | Some us => (mkChain (fixed s1) cs us, E_ok)
          | None => (mkChain (fixed s1) cs (upds s1), E_other)
          end
      end
  end.

(* ---- delivery compositions, as the callers do ---- *)

(* light/api GetBestUpdatesAndCommittees (Validate) then sync.processResponse (InsertUpdate) *)
Definition deliver_update (cfg : config) (now : Z) (s : chain) (u : update)
  (next : option committee) : chain * N :=
  let v := validate_update u in
  if negb (v =? E_ok) then (s, v) else insert_update cfg now s u next.

(* light/api GetCheckpointData (header.Hash() == checkpointHash, Validate) then CheckpointInit *)
Definition deliver_bootstrap (trusted : hash -> bool) (s : chain) (b : bootstrap) : chain * N :=
  if negb (trusted (header_hash (b_header b))) then (s, E_boot_untrusted) else
  checkpoint_init s b.

(* head_tracker.go HeadTracker.validate(head, oldHead): 0 = replace, 1 = low signer
   count, 2 = not newer/better than the old head (false, nil), 3 = error from the
   committee chain, 4 = invalid header signature *)
Definition head_validate (cfg : config) (now : Z) (s : chain) (old_slot old_count : N)
  (sh : signed_header) : N :=
  let cnt := signer_count (sh_signers sh) in
  if cnt <? c_threshold cfg then 1 else
  let slot := h_slot (sh_header sh) in
  if (slot <? old_slot) || ((slot =? old_slot) && (cnt <=? old_count)) then 2 else
  match verify_signed_header cfg now s sh with
  | (_, true) => 3
  | (false, false) => 4
  | (true, false) => 0
  end.

(* ---- histories: any sequence of deliveries (genuine or forged alike) ---- *)
Inductive delivery :=
| DBoot (b : bootstrap)
| DUpd (now : Z) (u : update) (next : option committee).

Definition deliver (cfg : config) (trusted : hash -> bool) (s : chain) (d : delivery) : chain * N :=
  match d with
  | DBoot b => deliver_bootstrap trusted s b
  | DUpd now u next => deliver_update cfg now s u next
  end.

Definition run_deliveries (cfg : config) (trusted : hash -> bool) (s : chain) (ds : list delivery) : chain :=
  fold_left (fun s d => fst (deliver cfg trusted s d)) ds s.

End Chain.

Arguments mkStore {T}. Arguments st_rng {T}. Arguments st_map {T}.
