(* Lib/Bytes.v — bytes as [N] (< 256), byte strings as [list N], big-endian
   integers.  Definitions only (executable, part of every Run closure); the
   lemmas (round trips, bounds, canonical-form uniqueness) are in
   Lib/BytesProofs.v.

   Names other families rely on (keep stable):
     byteb bytesb lenN be_decode be_bytes take_drop *)
From Coq Require Export List NArith Bool.
Export ListNotations.
Local Open Scope N_scope.

Definition byteb (x : N) : bool := x <? 256.
Definition bytesb (l : list N) : bool := forallb byteb l.

(* length of a byte string as a number (Go: uint64(len(b)); the guard
   "lengths < 2^64" is stated where it matters, never built in here) *)
Definition lenN {A} (l : list A) : N := N.of_nat (length l).

(* big-endian value of a byte string (most significant byte first); total:
   the empty string is 0, leading zeros are allowed HERE and rejected by the
   decoders that must reject them *)
Definition be_decode (l : list N) : N :=
  fold_left (fun acc b => acc * 256 + b) l 0.

(* minimal big-endian byte string of n: no leading zero byte, [] for 0
   (Go: putint / big.Int.Bytes / AppendUint64's switch).  Fuel = bit size of n,
   always sufficient (BytesProofs.be_bytes_decode). *)
Fixpoint be_aux (fuel : nat) (n : N) (acc : list N) : list N :=
  match fuel with
  | O => acc
  | S f => if n =? 0 then acc else be_aux f (n / 256) (n mod 256 :: acc)
  end.
Definition be_bytes (n : N) : list N := be_aux (N.to_nat (N.size n)) n [].

(* b[:n], b[n:] when n <= len(b); None when the slice expression would panic /
   the read would come up short *)
Definition take_drop {A} (n : N) (l : list A) : option (list A * list A) :=
  if n <=? lenN l then Some (firstn (N.to_nat n) l, skipn (N.to_nat n) l) else None.

(* canonical integer byte string: no leading zero byte *)
Definition no_lead0 (l : list N) : bool :=
  match l with [] => true | h :: _ => negb (h =? 0) end.
