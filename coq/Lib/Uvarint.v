(* Lib/Uvarint.v — LEB128 unsigned varints as in Go's encoding/binary
   (AppendUvarint / Uvarint).  Definitions only; lemmas in Lib/UvarintProofs.v.
   Bytes are N (< 256). *)
From Coq Require Import List NArith Bool Arith.
Import ListNotations.
Local Open Scope N_scope.

(* binary.AppendUvarint(nil, x) for x : uint64:
     for x >= 0x80 { buf = append(buf, byte(x)|0x80); x >>= 7 }; append(buf, byte(x))
   byte(x)|0x80 = x mod 128 + 128.  A uint64 needs at most 9 continuation
   bytes, after which x < 2: fuel 9 is exact for every x < 2^64 (the Go
   argument type); the Go loop has no failure case. *)
Fixpoint put_uvarint_fuel (fuel : nat) (x : N) : list N :=
  match fuel with
  | O => [x]
  | S f => if x <? 128 then [x] else (x mod 128 + 128) :: put_uvarint_fuel f (x / 128)
  end.

Definition put_uvarint (x : N) : list N := put_uvarint_fuel 9 x.

(* Result of binary.Uvarint(buf) = (value, n):
     UvOk x n   : n > 0 bytes read, value x
     UvShort    : (0, 0)   buffer too small
     UvOver k   : (0, -k)  overflow detected at byte k-1 *)
Inductive uvres : Type :=
| UvOk (x : N) (n : nat)
| UvShort
| UvOver (k : nat).

Definition two64 : N := 18446744073709551616.
(* v mod 2^64, without running a division when there is nothing to reduce
   (wrap64_mod: wrap64 v = v mod two64 for every v) *)
Definition wrap64 (v : N) : N := if v <? two64 then v else v mod two64.

(* binary.Uvarint:
     var x uint64; var s uint
     for i, b := range buf {
       if i == MaxVarintLen64 { return 0, -(i + 1) }
       if b < 0x80 {
         if i == MaxVarintLen64-1 && b > 1 { return 0, -(i + 1) }
         return x | uint64(b)<<s, i + 1 }
       x |= uint64(b&0x7f) << s
       s += 7 }
     return 0, 0
   uint64 shifts wrap: written with wrap64 (= mod 2^64). *)
Fixpoint uvarint_go (buf : list N) (i : nat) (x : N) (s : N) : uvres :=
  match buf with
  | [] => UvShort
  | b :: r =>
      if Nat.eqb i 10 then UvOver (S i)
      else if b <? 128 then
        if Nat.eqb i 9 && (1 <? b) then UvOver (S i)
        else UvOk (N.lor x (wrap64 (N.shiftl b s))) (S i)
      else uvarint_go r (S i) (N.lor x (wrap64 (N.shiftl (N.land b 127) s))) (s + 7)
  end.

Definition uvarint (buf : list N) : uvres := uvarint_go buf 0 0 0.
