(* Lib/Tactics.v — shared proof infrastructure: lia set-up, finite sweeps lifted
   to quantified statements, pair induction. *)
From Coq Require Export List NArith ZArith Arith Bool Lia.
From Coq Require Export ZifyBool ZifyNat ZifyN.
Export ListNotations.
Ltac Zify.zify_post_hook ::= Z.div_mod_to_equations.

(* induction on lists two elements at a time *)
Lemma pair_list_ind {A} (P : list A -> Prop) :
  P [] -> (forall a, P [a]) -> (forall a b l, P l -> P (a :: b :: l)) ->
  forall l, P l.
Proof.
  intros H0 H1 H2 l.
  assert (H : P l /\ forall a, P (a :: l)).
  { induction l as [|x l [IH1 IH2]]; split; auto. }
  exact (proj1 H).
Qed.

(* finite sweep over N below a bound, lifted to a quantified statement *)
Definition N_below (n : nat) : list N := map N.of_nat (seq 0 n).

Lemma N_below_In (n : nat) (a : N) : (a < N.of_nat n)%N -> In a (N_below n).
Proof.
  intros H. unfold N_below. apply in_map_iff. exists (N.to_nat a). split.
  - apply N2Nat.id.
  - apply in_seq. lia.
Qed.

Lemma sweep1 (n : nat) (P : N -> bool) :
  forallb P (N_below n) = true -> forall a, (a < N.of_nat n)%N -> P a = true.
Proof.
  intros H a Ha. rewrite forallb_forall in H. apply H. apply N_below_In. exact Ha.
Qed.

Lemma sweep2 (n m : nat) (P : N -> N -> bool) :
  forallb (fun a => forallb (P a) (N_below m)) (N_below n) = true ->
  forall a b, (a < N.of_nat n)%N -> (b < N.of_nat m)%N -> P a b = true.
Proof.
  intros H a b Ha Hb. rewrite forallb_forall in H.
  specialize (H a (N_below_In _ _ Ha)). rewrite forallb_forall in H.
  apply H. apply N_below_In. exact Hb.
Qed.
