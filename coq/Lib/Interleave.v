(* Lib/Interleave.v — concurrency as interleavings (DESIGN.md section 4).

   A history is a list of (thread, atomic step).  A model gives an executable,
   scheduler-independent  step : S -> T * L -> option S  ([None] = this atomic
   step is not enabled in this state); the traces of the model are ALL
   histories accepted by [run], i.e. every interleaving of enabled atomic steps.
   Theorems about "all schedules" are theorems about all such lists, proved
   with the invariant / stability principles below. *)
From Coq Require Import List.
Import ListNotations.

Section Interleave.
  Context {T L S : Type}.
  Variable step : S -> T * L -> option S.

  Definition history := list (T * L).

  Fixpoint run (s : S) (h : history) : option S :=
    match h with
    | [] => Some s
    | e :: h' => match step s e with
                 | Some s' => run s' h'
                 | None => None
                 end
    end.

  Definition reachable (s0 s : S) : Prop := exists h, run s0 h = Some s.

  Lemma run_nil s : run s [] = Some s.
  Proof. reflexivity. Qed.

  Lemma run_cons s e h s' :
    run s (e :: h) = Some s' <-> exists s1, step s e = Some s1 /\ run s1 h = Some s'.
  Proof.
    simpl. destruct (step s e) as [s1|].
    - split; [intros H; exists s1; auto | intros [s2 [E H]]; inversion E; subst; auto].
    - split; [discriminate | intros [s2 [E _]]; discriminate].
  Qed.

  Lemma run_app s h1 h2 s' :
    run s (h1 ++ h2) = Some s' <-> exists s1, run s h1 = Some s1 /\ run s1 h2 = Some s'.
  Proof.
    revert s. induction h1 as [|e h1 IH]; intros s; simpl.
    - split; [intros H; exists s; auto | intros [s1 [E H]]; inversion E; subst; auto].
    - destruct (step s e) as [s1|].
      + apply IH.
      + split; [discriminate | intros [s2 [E _]]; discriminate].
  Qed.

  Lemma run_snoc s h e s' :
    run s (h ++ [e]) = Some s' <-> exists s1, run s h = Some s1 /\ step s1 e = Some s'.
  Proof.
    rewrite run_app. split; intros [s1 [H1 H2]]; exists s1; split; auto.
    - simpl in H2. destruct (step s1 e); congruence.
    - simpl. rewrite H2. reflexivity.
  Qed.

  Lemma reachable_refl s : reachable s s.
  Proof. exists []. reflexivity. Qed.

  Lemma reachable_step s0 s e s' : reachable s0 s -> step s e = Some s' -> reachable s0 s'.
  Proof. intros [h H] E. exists (h ++ [e]). apply run_snoc. eauto. Qed.

  Lemma reachable_run s0 s h s' : reachable s0 s -> run s h = Some s' -> reachable s0 s'.
  Proof. intros [h0 H] E. exists (h0 ++ h). apply run_app. eauto. Qed.

  (* invariant principle: a step-inductive predicate holds along every interleaving *)
  Lemma run_invariant (I : S -> Prop) :
    (forall s e s', I s -> step s e = Some s' -> I s') ->
    forall h s s', I s -> run s h = Some s' -> I s'.
  Proof.
    intros Hstep h. induction h as [|e h IH]; intros s s' Hs Hr; simpl in Hr.
    - inversion Hr; subst; auto.
    - destruct (step s e) as [s1|] eqn:E; [|discriminate].
      apply (IH s1); [eapply Hstep; eauto | exact Hr].
  Qed.

  Lemma reachable_invariant (I : S -> Prop) s0 :
    I s0 -> (forall s e s', I s -> step s e = Some s' -> I s') ->
    forall s, reachable s0 s -> I s.
  Proof. intros H0 Hstep s [h Hr]. eapply run_invariant; eauto. Qed.

  (* stability principle: a reflexive-transitive relation established by every
     step from an invariant state holds between the ends of every interleaving *)
  Lemma run_stable (I : S -> Prop) (R : S -> S -> Prop) :
    (forall s, R s s) -> (forall a b c, R a b -> R b c -> R a c) ->
    (forall s e s', I s -> step s e = Some s' -> I s') ->
    (forall s e s', I s -> step s e = Some s' -> R s s') ->
    forall h s s', I s -> run s h = Some s' -> R s s'.
  Proof.
    intros Hrefl Htrans HI HR h. induction h as [|e h IH]; intros s s' Hs Hr; simpl in Hr.
    - inversion Hr; subst; auto.
    - destruct (step s e) as [s1|] eqn:E; [|discriminate].
      apply (Htrans s s1 s'); [eapply HR; eauto | apply (IH s1); [eapply HI; eauto | exact Hr]].
  Qed.

  (* guarded version: a state predicate Q that every step labelled within P keeps
     (from invariant states) holds at the end of a history whose labels are all in P *)
  Lemma run_preserved (I Q : S -> Prop) (P : T * L -> Prop) :
    (forall s e s', I s -> step s e = Some s' -> I s') ->
    (forall s e s', I s -> Q s -> P e -> step s e = Some s' -> Q s') ->
    forall h s s', I s -> Q s -> (forall e, In e h -> P e) -> run s h = Some s' -> Q s'.
  Proof.
    intros HI HQ h. induction h as [|e h IH]; intros s s' Hs Hq HP Hr; simpl in Hr.
    - inversion Hr; subst; auto.
    - destruct (step s e) as [s1|] eqn:E; [|discriminate].
      apply (IH s1); [eapply HI; eauto | eapply (HQ s e); eauto; apply HP; left; auto
                 | intros e' He'; apply HP; right; auto | exact Hr].
  Qed.

  (* projection of a history on one thread *)
  Variable teqb : T -> T -> bool.
  Definition proj (t : T) (h : history) : list L :=
    map snd (filter (fun e => teqb (fst e) t) h).

  Lemma proj_app t h1 h2 : proj t (h1 ++ h2) = proj t h1 ++ proj t h2.
  Proof. unfold proj. rewrite filter_app, map_app. reflexivity. Qed.
End Interleave.
