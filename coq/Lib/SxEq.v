(* Lib/SxEq.v — boolean equality on the exchange value, used only by the
   extraction cross-check of bin/check: a sample of cases is evaluated by
   [vm_compute] inside coqc and compared (with [sx_eqb]) against what the
   extracted OCaml runner printed for the same cases. *)
From GV Require Import Lib.Sx.

Fixpoint bytes_eqb (a b : list N) : bool :=
  match a, b with
  | [], [] => true
  | x :: a', y :: b' => N.eqb x y && bytes_eqb a' b'
  | _, _ => false
  end.

Fixpoint sx_eqb (a b : sx) : bool :=
  match a, b with
  | SI x, SI y => Z.eqb x y
  | SB x, SB y => bytes_eqb x y
  | SL x, SL y =>
      (fix go (l1 l2 : list sx) : bool :=
         match l1, l2 with
         | [], [] => true
         | u :: l1', v :: l2' => sx_eqb u v && go l1' l2'
         | _, _ => false
         end) x y
  | _, _ => false
  end.
