(* Lib/BytesProofs.v — lemmas about Lib/Bytes.v: big-endian round trips,
   bounds, canonical (no leading zero) representation is unique. *)
From GV Require Import Lib.Tactics Lib.Bytes.
Local Open Scope N_scope.

Lemma lenN_app {A} (a b : list A) : lenN (a ++ b) = lenN a + lenN b.
Proof. unfold lenN. rewrite app_length. lia. Qed.

Lemma lenN_cons {A} (x : A) (l : list A) : lenN (x :: l) = 1 + lenN l.
Proof. unfold lenN. cbn [length]. lia. Qed.

Lemma lenN_nil {A} : lenN (@nil A) = 0.
Proof. reflexivity. Qed.

Lemma lenN_0 {A} (l : list A) : lenN l = 0 -> l = [].
Proof. destruct l; [reflexivity|]. unfold lenN; cbn [length]; lia. Qed.

Lemma bytesb_app a b : bytesb (a ++ b) = bytesb a && bytesb b.
Proof. apply forallb_app. Qed.

(* ---- take_drop ---- *)

Lemma take_drop_app {A} (a b : list A) : take_drop (lenN a) (a ++ b) = Some (a, b).
Proof.
  unfold take_drop. rewrite lenN_app.
  destruct (N.leb_spec (lenN a) (lenN a + lenN b)); [|lia].
  unfold lenN. rewrite Nat2N.id, firstn_app, skipn_app, Nat.sub_diag, firstn_all, skipn_all.
  cbn. now rewrite app_nil_r.
Qed.

Lemma take_drop_some {A} n (l a b : list A) :
  take_drop n l = Some (a, b) -> l = a ++ b /\ lenN a = n.
Proof.
  unfold take_drop. destruct (N.leb_spec n (lenN l)) as [H|H]; [|discriminate].
  intros E. inversion E; subst. split.
  - symmetry. apply firstn_skipn.
  - unfold lenN in *. rewrite firstn_length. lia.
Qed.

Lemma take_drop_none {A} n (l : list A) : take_drop n l = None -> lenN l < n.
Proof.
  unfold take_drop. destruct (N.leb_spec n (lenN l)); [discriminate|auto].
Qed.

Lemma firstn_lenN_app {A} (a b : list A) : firstn (N.to_nat (lenN a)) (a ++ b) = a.
Proof.
  unfold lenN. rewrite Nat2N.id, firstn_app, Nat.sub_diag, firstn_all. cbn. apply app_nil_r.
Qed.

Lemma skipn_lenN_app {A} (a b : list A) : skipn (N.to_nat (lenN a)) (a ++ b) = b.
Proof.
  unfold lenN. rewrite Nat2N.id, skipn_app, Nat.sub_diag, skipn_all. reflexivity.
Qed.

(* ---- be_decode ---- *)

Lemma be_fold_acc l : forall acc,
  fold_left (fun a b => a * 256 + b) l acc = acc * 256 ^ lenN l + be_decode l.
Proof.
  unfold be_decode. induction l as [|x l IH]; intros acc; cbn [fold_left].
  - rewrite lenN_nil. cbn. lia.
  - rewrite IH, (IH (0 * 256 + x)), lenN_cons, N.pow_add_r. lia.
Qed.

Lemma be_decode_nil : be_decode [] = 0.
Proof. reflexivity. Qed.

Lemma be_decode_cons x l : be_decode (x :: l) = x * 256 ^ lenN l + be_decode l.
Proof. unfold be_decode at 1. cbn [fold_left]. rewrite be_fold_acc. lia. Qed.

Lemma be_decode_snoc l b : be_decode (l ++ [b]) = be_decode l * 256 + b.
Proof. unfold be_decode. rewrite fold_left_app. reflexivity. Qed.

Lemma be_decode_single x : be_decode [x] = x.
Proof. reflexivity. Qed.

Lemma be_decode_bound l : bytesb l = true -> be_decode l < 256 ^ lenN l.
Proof.
  induction l as [|x l IH]; intros H.
  - cbn. lia.
  - cbn [bytesb forallb] in H. apply andb_true_iff in H as [Hx Hl].
    unfold byteb in Hx. specialize (IH Hl).
    rewrite be_decode_cons, lenN_cons, N.pow_add_r. change (256 ^ 1) with 256. nia.
Qed.

Lemma be_decode_pos x l : x <> 0 -> 256 ^ lenN l <= be_decode (x :: l).
Proof. intros H. rewrite be_decode_cons. nia. Qed.

(* ---- be_bytes ---- *)

Lemma be_aux_acc f : forall n acc, be_aux f n acc = be_aux f n [] ++ acc.
Proof.
  induction f as [|f IH]; intros n acc; cbn [be_aux]; [reflexivity|].
  destruct (n =? 0); [reflexivity|].
  rewrite IH, (IH _ [n mod 256]), <- app_assoc. reflexivity.
Qed.

Lemma be_aux_fuel f : forall g n acc,
  n < 2 ^ N.of_nat f -> (f <= g)%nat -> be_aux f n acc = be_aux g n acc.
Proof.
  induction f as [|f IH]; intros g n acc Hn Hg.
  - cbn in Hn. assert (n = 0) by lia. subst. destruct g; reflexivity.
  - destruct g as [|g]; [lia|]. cbn [be_aux]. destruct (n =? 0); [reflexivity|].
    apply IH; [|lia].
    rewrite Nat2N.inj_succ, N.pow_succ_r' in Hn.
    assert (0 < 2 ^ N.of_nat f) by (apply N.neq_0_lt_0, N.pow_nonzero; lia). lia.
Qed.

Lemma size_fuel n : n < 2 ^ N.of_nat (N.to_nat (N.size n)).
Proof. rewrite N2Nat.id. apply N.size_gt. Qed.

Lemma be_bytes_0 : be_bytes 0 = [].
Proof. reflexivity. Qed.

Lemma be_bytes_step n : n <> 0 -> be_bytes n = be_bytes (n / 256) ++ [n mod 256].
Proof.
  intros Hn. unfold be_bytes.
  destruct (N.to_nat (N.size n)) as [|f] eqn:E.
  - pose proof (size_fuel n) as H. rewrite E in H. cbn in H. lia.
  - cbn [be_aux]. destruct (N.eqb_spec n 0); [contradiction|].
    rewrite be_aux_acc. f_equal.
    pose proof (size_fuel n) as H. rewrite E in H.
    rewrite Nat2N.inj_succ, N.pow_succ_r' in H.
    assert (Hp : 0 < 2 ^ N.of_nat f) by (apply N.neq_0_lt_0, N.pow_nonzero; lia).
    assert (Hq : n / 256 < 2 ^ N.of_nat f) by lia.
    pose proof (size_fuel (n / 256)) as H2.
    destruct (Nat.le_ge_cases f (N.to_nat (N.size (n / 256)))).
    + apply be_aux_fuel; assumption.
    + symmetry. apply be_aux_fuel; assumption.
Qed.

(* strong induction on N along n -> n / 256 *)
Lemma div256_ind (P : N -> Prop) :
  P 0 -> (forall n, n <> 0 -> P (n / 256) -> P n) -> forall n, P n.
Proof.
  intros H0 HS n. induction n as [n IH] using (well_founded_induction N.lt_wf_0).
  destruct (N.eq_dec n 0) as [->|Hn]; [exact H0|].
  apply HS; [exact Hn|]. apply IH. lia.
Qed.

Lemma be_bytes_decode n : be_decode (be_bytes n) = n.
Proof.
  induction n as [|n Hn IH] using div256_ind; [reflexivity|].
  rewrite (be_bytes_step n Hn), be_decode_snoc, IH. lia.
Qed.

Lemma be_bytes_bytes n : bytesb (be_bytes n) = true.
Proof.
  induction n as [|n Hn IH] using div256_ind; [reflexivity|].
  rewrite (be_bytes_step n Hn), bytesb_app, IH. cbn. unfold byteb.
  rewrite andb_true_r. apply N.ltb_lt. lia.
Qed.

(* no leading zero; empty exactly for 0 *)
Lemma be_bytes_hd n :
  match be_bytes n with [] => n = 0 | h :: _ => h <> 0 /\ n <> 0 end.
Proof.
  induction n as [|n Hn IH] using div256_ind; [reflexivity|].
  rewrite (be_bytes_step n Hn).
  destruct (be_bytes (n / 256)) as [|h t]; cbn [app].
  - split; [|exact Hn]. lia.
  - split; [apply IH|exact Hn].
Qed.

Lemma be_bytes_no_lead0 n : no_lead0 (be_bytes n) = true.
Proof.
  pose proof (be_bytes_hd n) as H. destruct (be_bytes n) as [|h t]; [reflexivity|].
  cbn. destruct H as [H _]. apply negb_true_iff, N.eqb_neq. exact H.
Qed.

Lemma be_bytes_nil_iff n : be_bytes n = [] <-> n = 0.
Proof.
  split; intros H.
  - pose proof (be_bytes_hd n) as H1. rewrite H in H1. exact H1.
  - subst. reflexivity.
Qed.

Lemma be_bytes_len_le (k : nat) : forall n, n < 256 ^ N.of_nat k -> (length (be_bytes n) <= k)%nat.
Proof.
  induction k as [|k IH]; intros n Hn.
  - cbn in Hn. assert (n = 0) by lia. subst. cbn. lia.
  - destruct (N.eq_dec n 0) as [->|Hz]; [cbn; lia|].
    rewrite (be_bytes_step n Hz), app_length. cbn [length].
    rewrite Nat2N.inj_succ, N.pow_succ_r' in Hn.
    assert (n / 256 < 256 ^ N.of_nat k) by lia.
    specialize (IH _ H). lia.
Qed.

Lemma be_bytes_len_64 n : n < 2 ^ 64 -> lenN (be_bytes n) <= 8.
Proof.
  intros H. pose proof (be_bytes_len_le 8 n) as L.
  change (256 ^ N.of_nat 8) with (2 ^ 64) in L. specialize (L H). unfold lenN. lia.
Qed.

Lemma be_bytes_len_pos n : n <> 0 -> 1 <= lenN (be_bytes n).
Proof.
  intros H. pose proof (be_bytes_hd n) as H1.
  destruct (be_bytes n); [contradiction|]. rewrite lenN_cons. lia.
Qed.

(* canonical byte strings are exactly the images of be_bytes *)
Lemma be_decode_bytes l :
  bytesb l = true -> no_lead0 l = true -> be_bytes (be_decode l) = l.
Proof.
  induction l as [|b l IH] using rev_ind; intros Hb Hc; [reflexivity|].
  rewrite bytesb_app in Hb. apply andb_true_iff in Hb as [Hl Hb].
  cbn in Hb. rewrite andb_true_r in Hb. unfold byteb in Hb. apply N.ltb_lt in Hb.
  rewrite be_decode_snoc.
  assert (Hcl : no_lead0 l = true) by (destruct l; [reflexivity|exact Hc]).
  assert (Hnz : be_decode l * 256 + b <> 0).
  { destruct l as [|h t].
    - cbn in Hc. apply negb_true_iff, N.eqb_neq in Hc. cbn. lia.
    - cbn in Hc. apply negb_true_iff, N.eqb_neq in Hc.
      pose proof (be_decode_pos h t Hc).
      assert (0 < 256 ^ lenN t) by (apply N.neq_0_lt_0, N.pow_nonzero; lia). lia. }
  rewrite (be_bytes_step _ Hnz).
  replace ((be_decode l * 256 + b) / 256) with (be_decode l) by lia.
  replace ((be_decode l * 256 + b) mod 256) with b by lia.
  rewrite (IH Hl Hcl). reflexivity.
Qed.

(* uint64 values have at most 8 bytes, and 8 bytes decode below 2^64 *)
Lemma be_decode_lt_64 l : bytesb l = true -> lenN l <= 8 -> be_decode l < 2 ^ 64.
Proof.
  intros Hb Hl. pose proof (be_decode_bound l Hb).
  assert (256 ^ lenN l <= 256 ^ 8) by (apply N.pow_le_mono_r; lia).
  change (256 ^ 8) with (2 ^ 64) in *. lia.
Qed.
