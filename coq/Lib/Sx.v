(* Lib/Sx.v — the universal case/observation value exchanged between the Go
   harness and the executable Gallina models.

   One text line per case:   atom ::= hex-number | -hex-number | x<hex bytes>
                             sx   ::= atom | ( sx* )
   The OCaml driver (runner/sx_io.ml) and the Go harness (harness/hxlib/sx.go)
   parse/print exactly this type; every family defines  Cxx_run : sx -> sx
   in coq/Run/Cxx.v, which decodes the case, runs the model and encodes the
   observables.  Decoding failures are reported as [SErr], never hidden. *)
From Coq Require Export List NArith ZArith Bool.
Export ListNotations.

Inductive sx : Type :=
| SI (z : Z)            (* integer *)
| SB (b : list N)       (* byte string; each element < 256 *)
| SL (l : list sx).     (* list *)

(* A decode error: prints as (-1 <code>) and can never equal an implementation
   observation (implementations never print a leading -1 tag). *)
Definition SErr (code : Z) : sx := SL [SI (-1)%Z; SI code].

Definition sn (n : N) : sx := SI (Z.of_N n).
Definition snat (n : nat) : sx := SI (Z.of_nat n).
Definition sbool (b : bool) : sx := SI (if b then 1 else 0)%Z.

Definition sx_N (s : sx) : option N :=
  match s with SI z => if (z <? 0)%Z then None else Some (Z.to_N z) | _ => None end.
Definition sx_Z (s : sx) : option Z :=
  match s with SI z => Some z | _ => None end.
Definition sx_nat (s : sx) : option nat :=
  match sx_N s with Some n => Some (N.to_nat n) | None => None end.
Definition sx_bool (s : sx) : option bool :=
  match s with SI 0%Z => Some false | SI 1%Z => Some true | _ => None end.
Definition sx_bytes (s : sx) : option (list N) :=
  match s with SB b => Some b | _ => None end.
Definition sx_list (s : sx) : option (list sx) :=
  match s with SL l => Some l | _ => None end.

Fixpoint opt_map {A B} (f : A -> option B) (l : list A) : option (list B) :=
  match l with
  | [] => Some []
  | x :: r => match f x, opt_map f r with
              | Some y, Some r' => Some (y :: r')
              | _, _ => None
              end
  end.

Definition sx_list_of {A} (f : sx -> option A) (s : sx) : option (list A) :=
  match s with SL l => opt_map f l | _ => None end.

Definition sopt {A} (f : A -> sx) (o : option A) : sx :=
  match o with Some a => SL [f a] | None => SL [] end.
