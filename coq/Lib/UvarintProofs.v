(* Lib/UvarintProofs.v — round-trip and bound lemmas for Lib/Uvarint.v. *)
From GV Require Import Lib.Tactics Lib.Uvarint.
Local Open Scope N_scope.

Lemma wrap64_mod v : wrap64 v = v mod two64.
Proof.
  unfold wrap64. destruct (v <? two64) eqn:E; [|reflexivity].
  apply N.ltb_lt in E. symmetry. apply N.mod_small. exact E.
Qed.

Lemma wrap64_small v : v < two64 -> wrap64 v = v.
Proof. intros H. rewrite wrap64_mod. apply N.mod_small. exact H. Qed.

Lemma two64_pow : two64 = 2 ^ 64.
Proof. reflexivity. Qed.

(* lor of a low part and a shifted high part is their sum *)
Lemma lor_shift_add a c s :
  a < 2 ^ s -> N.lor a (c * 2 ^ s) = a + c * 2 ^ s.
Proof.
  intros Ha.
  assert (Hl : N.land a (c * 2 ^ s) = 0).
  { apply N.bits_inj. intros n. rewrite N.land_spec, N.bits_0.
    destruct (N.lt_ge_cases n s) as [Hn|Hn].
    - rewrite N.mul_pow2_bits_low by exact Hn. apply andb_false_r.
    - rewrite <- (N.mod_small a (2 ^ s)) by exact Ha.
      rewrite N.mod_pow2_bits_high by exact Hn. reflexivity. }
  rewrite N.add_nocarry_lxor by exact Hl. symmetry. apply N.lxor_lor. exact Hl.
Qed.

Lemma lor_wrap_shift a c s :
  a < 2 ^ s -> a + c * 2 ^ s < two64 ->
  N.lor a (wrap64 (N.shiftl c s)) = a + c * 2 ^ s.
Proof.
  intros Ha Hb. rewrite N.shiftl_mul_pow2. rewrite wrap64_small by lia.
  apply lor_shift_add. exact Ha.
Qed.

Lemma land_cont x : N.land (x mod 128 + 128) 127 = x mod 128.
Proof.
  change 127 with (N.ones 7). rewrite N.land_ones. change (2 ^ 7) with 128. lia.
Qed.

Lemma put_fuel_nonempty f x : (1 <= length (put_uvarint_fuel f x))%nat.
Proof. destruct f; cbn [put_uvarint_fuel]; [cbn; lia|]. destruct (x <? 128); cbn; lia. Qed.

Lemma put_fuel_len f x : (length (put_uvarint_fuel f x) <= S f)%nat.
Proof.
  revert x. induction f as [|f IH]; intros x; cbn [put_uvarint_fuel]; [cbn; lia|].
  destruct (x <? 128); cbn [length]; [lia|]. specialize (IH (x / 128)). lia.
Qed.

Lemma put_uvarint_nonempty x : (1 <= length (put_uvarint x))%nat.
Proof. apply put_fuel_nonempty. Qed.
Lemma put_uvarint_len x : (length (put_uvarint x) <= 10)%nat.
Proof. apply (put_fuel_len 9). Qed.

Lemma pow7S (i : nat) : 2 ^ (7 * N.of_nat (S i)) = 128 * 2 ^ (7 * N.of_nat i).
Proof.
  replace (7 * N.of_nat (S i)) with (7 + 7 * N.of_nat i) by lia.
  rewrite N.pow_add_r. reflexivity.
Qed.

(* decoding an encoding that starts at byte index i with accumulator acc *)
Lemma uvarint_go_put f : forall x i acc rest,
  (i + f = 9)%nat ->
  acc < 2 ^ (7 * N.of_nat i) ->
  acc + x * 2 ^ (7 * N.of_nat i) < two64 ->
  uvarint_go (put_uvarint_fuel f x ++ rest) i acc (7 * N.of_nat i) =
  UvOk (acc + x * 2 ^ (7 * N.of_nat i)) (i + length (put_uvarint_fuel f x)).
Proof.
  induction f as [|f IH]; intros x i acc rest Hi Hacc Hx.
  - assert (i = 9%nat) by lia. subst i. cbn [put_uvarint_fuel app uvarint_go].
    change (Nat.eqb 9 10) with false. change (Nat.eqb 9 9) with true.
    cbv iota. change (7 * N.of_nat 9) with 63 in *.
    assert (Hx1 : x <= 1).
    { change two64 with (2 * 2 ^ 63) in Hx. assert (0 < 2 ^ 63) by (apply N.neq_0_lt_0; apply N.pow_nonzero; lia). nia. }
    replace (x <? 128) with true by (symmetry; apply N.ltb_lt; lia).
    replace (1 <? x) with false by (symmetry; apply N.ltb_ge; lia).
    cbn [andb]. rewrite lor_wrap_shift by assumption. f_equal.
  - cbn [put_uvarint_fuel]. destruct (x <? 128) eqn:E.
    + cbn [app uvarint_go length].
      replace (Nat.eqb i 10) with false by (symmetry; apply Nat.eqb_neq; lia).
      rewrite E. replace (Nat.eqb i 9) with false by (symmetry; apply Nat.eqb_neq; lia).
      cbn [andb]. rewrite lor_wrap_shift by assumption. f_equal. lia.
    + apply N.ltb_ge in E. cbn [app uvarint_go length].
      replace (Nat.eqb i 10) with false by (symmetry; apply Nat.eqb_neq; lia).
      replace (x mod 128 + 128 <? 128) with false by (symmetry; apply N.ltb_ge; lia).
      rewrite land_cont.
      assert (Hp : 0 < 2 ^ (7 * N.of_nat i)) by (apply N.neq_0_lt_0; apply N.pow_nonzero; lia).
      assert (Hd : x = 128 * (x / 128) + x mod 128) by (apply N.div_mod; lia).
      assert (Hm : x mod 128 < 128) by (apply N.mod_lt; lia).
      rewrite lor_wrap_shift; [|assumption|nia].
      replace (7 * N.of_nat i + 7) with (7 * N.of_nat (S i)) by lia.
      rewrite IH; [|lia|rewrite pow7S; nia|rewrite pow7S; nia].
      f_equal; [rewrite pow7S; nia|lia].
Qed.

Theorem uvarint_put x rest :
  x < two64 -> uvarint (put_uvarint x ++ rest) = UvOk x (length (put_uvarint x)).
Proof.
  intros Hx. unfold uvarint, put_uvarint.
  pose proof (uvarint_go_put 9 x 0 0 rest eq_refl) as H.
  change (7 * N.of_nat 0) with 0 in H. change (2 ^ 0) with 1 in H.
  rewrite H by lia. f_equal. lia.
Qed.

(* whatever the bytes, a successful decode consumed between 1 and len(buf) bytes *)
Lemma uvarint_go_bound buf : forall i x s v n,
  uvarint_go buf i x s = UvOk v n -> (i < n <= i + length buf)%nat.
Proof.
  induction buf as [|b r IH]; intros i x s v n H; cbn [uvarint_go] in H; [discriminate|].
  destruct (Nat.eqb i 10); [discriminate|].
  destruct (b <? 128).
  - destruct (Nat.eqb i 9 && (1 <? b)); [discriminate|]. inversion H; subst. cbn [length]. lia.
  - apply IH in H. cbn [length]. lia.
Qed.

Lemma uvarint_bound buf v n : uvarint buf = UvOk v n -> (1 <= n <= length buf)%nat.
Proof. intros H. apply uvarint_go_bound in H. lia. Qed.
