(* Pool/LegacyInv4.v — structural invariant, part 4: add (incl. eviction), Add, SetGasTip. *)
From GV Require Import Lib.Tactics Pool.Legacy Pool.LegacyProofs Pool.LegacyInv Pool.LegacyInv2 Pool.LegacyInv3.
From Coq Require Import Sorting.Sorted.
Local Open Scope N_scope.

Lemma sm_put_replace : forall t l o, sorted l -> sm_get (t_nonce t) l = Some o ->
  forall x, In x (sm_put t l) <-> x = t \/ (In x l /\ x <> o).
Proof.
  unfold sorted. induction l as [|y l IH]; intros o Hs Hg x; [discriminate|].
  pose proof (StronglySorted_inv Hs) as [Hs' Hf]. rewrite Forall_forall in Hf.
  unfold sm_get in Hg. cbn [find] in Hg. cbn [sm_put].
  destruct (t_nonce y =? t_nonce t) eqn:E.
  - inversion Hg; subst o. apply N.eqb_eq in E.
    destruct (t_nonce t <? t_nonce y) eqn:E1; [lia|]. destruct (t_nonce t =? t_nonce y) eqn:E2; [|lia].
    cbn [In]. split.
    + intros [H|H]; [left; congruence|]. right. split; [right; exact H|]. intros Exy. rewrite Exy in H. pose proof (Hf y H) as Hlt. unfold nlt in Hlt. apply N.lt_irrefl in Hlt. exact Hlt.
    + intros [H|[[H|H] Hne]]; [left; congruence | congruence | right; exact H].
  - apply N.eqb_neq in E. fold (sm_get (t_nonce t) l) in Hg.
    pose proof (sm_get_In _ _ _ Hg) as [Ho1 Ho2].
    destruct (t_nonce t <? t_nonce y) eqn:E1.
    + pose proof (Hf o Ho1) as Hlt. unfold nlt in Hlt. lia.
    + destruct (t_nonce t =? t_nonce y) eqn:E2; [lia|]. cbn [In]. rewrite (IH o Hs' Hg x).
      split; [intros [H|[H|[H Hne]]]; [right; split; [left; exact H | intros ->; rewrite H in E; lia] | tauto | tauto] | intros [H|[[H|H] Hne]]; tauto].
Qed.

(* removeTx of the tx that queue.add has just replaced *)
Lemma remove_tx_replaced : forall k o s t',
  all_has o s = true ->
  (forall pl, p_pending s (t_from o) = Some pl -> sm_get (t_nonce o) (l_txs pl) = None) ->
  (exists ql, p_queue s (t_from o) = Some ql /\ sm_get (t_nonce o) (l_txs ql) = Some t' /\ t' <> o) ->
  fst (remove_tx (S k) o true s) = priced_removed 1 (all_remove o s).
Proof.
  intros k o s t' Hh Hp [ql [Hq [Hg Hne]]]. cbn [remove_tx]. rewrite Hh. cbn [negb].
  set (st2 := priced_removed 1 (all_remove o s)).
  pose proof (core_priced_removed 1 (all_remove o s)) as Hc. fold st2 in Hc. core_inv Hc.
  assert (P2 : p_pending st2 = p_pending s) by (rewrite Epend; unfold all_remove; destruct (all_has o s); reflexivity).
  assert (Q2 : p_queue st2 = p_queue s) by (rewrite Equeue; unfold all_remove; destruct (all_has o s); reflexivity).
  assert (Hqr : q_remove (t_from o) o st2 = st2).
  { unfold q_remove. rewrite Q2, Hq, Hg. apply tx_eqb_neq in Hne. rewrite Hne. reflexivity. }
  rewrite P2. destruct (p_pending s (t_from o)) as [pl|] eqn:Ep; [|rewrite Hqr; reflexivity].
  unfold list_remove, sm_remove. rewrite (Hp pl eq_refl). cbn [fst]. exact Hqr.
Qed.

Lemma list_add_ok_inv : forall t bump l old l', list_add t bump l = (AddOk old, l') ->
  old = sm_get (t_nonce t) (l_txs l) /\ l_txs l' = sm_put t (l_txs l) /\ l_strict l' = l_strict l.
Proof.
  intros t bump l old l' H. unfold list_add in H.
  destruct (match sm_get (t_nonce t) (l_txs l) with
            | Some o => if (t_feecap t <=? t_feecap o) || (t_tip t <=? t_tip o) then true
                        else (t_feecap t <? (100 + bump) * t_feecap o / 100) || (t_tip t <? (100 + bump) * t_tip o / 100)
            | None => false end); [discriminate|].
  destruct (U256 <=? cost t); [discriminate|].
  destruct (Z.of_N U256 <=? l_total l + Z.of_N (cost t))%Z; [discriminate|].
  inversion H; subst. repeat split; reflexivity.
Qed.

Lemma list_add_err_inv : forall t bump l r l', list_add t bump l = (r, l') -> (forall o, r <> AddOk o) -> l' = l.
Proof.
  intros t bump l r l' H Hr. unfold list_add in H.
  destruct (match sm_get (t_nonce t) (l_txs l) with
            | Some o => if (t_feecap t <=? t_feecap o) || (t_tip t <=? t_tip o) then true
                        else (t_feecap t <? (100 + bump) * t_feecap o / 100) || (t_tip t <? (100 + bump) * t_tip o / 100)
            | None => false end); [inversion H; reflexivity|].
  destruct (U256 <=? cost t); [inversion H; reflexivity|].
  destruct (Z.of_N U256 <=? l_total l + Z.of_N (cost t))%Z; [inversion H; reflexivity|].
  inversion H; subst. exfalso. eapply Hr. reflexivity.
Qed.

Lemma sm_get_put_same : forall t l, sorted l -> sm_get (t_nonce t) (sm_put t l) = Some t.
Proof.
  unfold sorted, sm_get. induction l as [|y l IH]; intros Hs; cbn [sm_put find].
  - rewrite N.eqb_refl. reflexivity.
  - destruct (t_nonce t <? t_nonce y) eqn:E1; [cbn [find]; rewrite N.eqb_refl; reflexivity|].
    destruct (t_nonce t =? t_nonce y) eqn:E2; [cbn [find]; rewrite N.eqb_refl; reflexivity|].
    cbn [find]. destruct (t_nonce y =? t_nonce t) eqn:E3; [lia|]. apply IH. apply StronglySorted_inv in Hs. tauto.
Qed.

(* a list into which t was put (replacing the tx of the same nonce, if any) *)
Lemma lok_put : forall c s a l l' t r, lok c s a l -> t_from t = a -> okt c t ->
  list_add t r l = (AddOk (sm_get (t_nonce t) (l_txs l)), l') -> lok c s a l'.
Proof.
  intros c s a l l' t r L Hf Hk E. destruct (list_add_ok_inv _ _ _ _ _ E) as [_ [Ht Hs]].
  split; [eapply list_add_wf; [apply (lk_wf _ _ _ _ L) | exact E] | rewrite Hs; apply (lk_strict _ _ _ _ L) |].
  intros x Hx. rewrite Ht in Hx. apply sm_put_In in Hx. destruct Hx as [->|Hx]; [tauto | apply (lk_mem _ _ _ _ L), Hx].
Qed.

Lemma put_members : forall t l, sorted l -> forall x,
  In x (sm_put t l) <-> x = t \/ (In x l /\ sm_get (t_nonce t) l <> Some x).
Proof.
  intros t l Hs x. destruct (sm_get (t_nonce t) l) as [o|] eqn:Eg.
  - rewrite (sm_put_replace t l o Hs Eg x). split; [intros [H|[H1 H2]]; [tauto | right; split; [exact H1 | congruence]] | intros [H|[H1 H2]]; [tauto | right; split; [exact H1 | congruence]]].
  - rewrite (sm_put_In_fresh t l Eg x). split; [intros [H|H]; [tauto | right; split; [exact H | discriminate]] | tauto].
Qed.

(* add: the tx goes to the queue (possibly replacing the queued tx of the same nonce) *)
Lemma add_enqueue_RS : forall k t st, SInv st -> okt (p_cfg st) t -> ~ In t (p_all st) ->
  (forall pl, p_pending st (t_from t) = Some pl -> sm_get (t_nonce t) (l_txs pl) = None) ->
  RS st (fst (enqueue_tx (S (S k)) t true st)).
Proof.
  intros k t st HS Hk Hnt Hnp. set (a := t_from t).
  cbn [enqueue_tx]. unfold q_add. fold a.
  set (l0 := match p_queue st a with Some l => l | None => new_list false end).
  assert (L0 : lok (p_cfg st) false a l0) by (unfold l0; destruct (p_queue st a) eqn:E; [apply (s_qw _ HS a t0 E) | apply lok_new]).
  assert (Hl0 : forall x, In x (l_txs l0) <-> in_opt x (p_queue st a)) by (intros x; unfold l0, in_opt; destruct (p_queue st a); [reflexivity | cbn; tauto]).
  assert (Ha : In a (c_accts (p_cfg st))) by apply Hk.
  destruct (list_add t (c_bump (p_cfg st)) l0) as [r l1] eqn:Ea.
  assert (Herr : (forall o, r <> AddOk o) -> SInv (put_queue a l0 st) /\ core (put_queue a l0 st) = core (put_queue a l0 st) /\
                 p_cfg (put_queue a l0 st) = p_cfg st /\ p_chain (put_queue a l0 st) = p_chain st).
  { intros _. unfold put_queue. rewrite (chk_ok _ _ _ _ _ L0). split; [|cbn; tauto].
    apply (S_upd1 st _ a (p_pending st a) (Some l0) HS); cbn; try reflexivity.
    - intros b. unfold upd. destruct (b =? a) eqn:E; [apply N.eqb_eq in E; subst; reflexivity | reflexivity].
    - intros l Hl. apply (s_pw _ HS a l Hl).
    - intros l Hl. inversion Hl; subst. tauto.
    - intros pl ql x Hp Hq Hx. inversion Hq; subst ql. apply Hl0 in Hx. unfold in_opt in Hx.
      destruct (p_queue st a) as [ql|] eqn:Eq; [|destruct Hx]. apply (s_disj _ HS a pl ql x Hp Eq Hx).
    - intros x. rewrite (s_union _ HS x). unfold inP, inQ. cbn [in_opt]. rewrite Hl0.
      destruct (N.eq_dec (t_from x) a) as [E|E]; [rewrite E; tauto | tauto].
    - exact (SInv_AInv _ HS).
    - exact (s_panic _ HS). }
  destruct r as [old| |].
  2:{ cbn [fst]. destruct (Herr ltac:(discriminate)) as [S' [_ [C' Ch']]]. split; [exact S' | tauto]. }
  2:{ cbn [fst]. destruct (Herr ltac:(discriminate)) as [S' [_ [C' Ch']]].
      eapply RS_core; [split; [exact S' | tauto] | apply core_set_ovf]. }
  clear Herr. destruct (list_add_ok_inv _ _ _ _ _ Ea) as [Hold [Ht1 _]]. subst old.
  pose proof (lok_put _ _ _ _ _ _ _ L0 eq_refl Hk Ea) as L1.
  pose proof (lw_sorted _ (lk_wf _ _ _ _ L0)) as Hso.
  unfold put_queue. rewrite (chk_ok _ _ _ _ _ L1).
  set (sq := set_queue st (upd (p_queue st) a (Some l1))).
  set (sb := match p_beats sq a with Some _ => sq | None => let '(now, s) := tick sq in set_beats s (upd (p_beats s) a (Some now)) end).
  assert (Hcb : core sb = core sq) by (unfold sb; destruct (p_beats sq a); reflexivity).
  core_inv Hcb.
  (* the state after the optional removeTx of the replaced tx *)
  set (s2 := match sm_get (t_nonce t) (l_txs l0) with Some o => fst (remove_tx (S k) o true sb) | None => sb end).
  assert (F2 : AInv s2 /\ (forall x, In x (p_all s2) <-> In x (p_all st) /\ sm_get (t_nonce t) (l_txs l0) <> Some x) /\
               p_cfg s2 = p_cfg st /\ p_chain s2 = p_chain st /\ p_pending s2 = p_pending st /\
               p_queue s2 = upd (p_queue st) a (Some l1) /\ p_panic s2 = p_panic st).
  { unfold s2. destruct (sm_get (t_nonce t) (l_txs l0)) as [o|] eqn:Eg.
    - pose proof (sm_get_In _ _ _ Eg) as [Ho1 Ho2].
      assert (Hoall : In o (p_all st)).
      { apply (s_union _ HS o). right. unfold inQ. rewrite (proj1 (lk_mem _ _ _ _ L0 o Ho1)). apply Hl0, Ho1. }
      assert (Hfo : t_from o = a) by apply (lk_mem _ _ _ _ L0 o Ho1).
      rewrite (remove_tx_replaced k o sb t).
      + pose proof (core_priced_removed 1 (all_remove o sb)) as Hc. core_inv Hc.
        assert (Ab : AInv sb) by (unfold AInv; rewrite Eall, Eslots; cbn; apply SInv_AInv, HS).
        destruct (all_remove_spec o sb Ab) as [A1 [M1 [C1 [Ch1 [P1 [Q1 [Pa1 _]]]]]]].
        unfold AInv in *. rewrite Eall0, Eslots0, Ecfg0, Echain0, Epend0, Equeue0, Epanic0, C1, Ch1, P1, Q1, Pa1.
        rewrite Ecfg, Echain, Epend, Equeue, Epanic. cbn.
        split; [exact A1|]. split; [|tauto]. intros x. rewrite M1, Eall. cbn. split; [intros [H1 H2]; split; [exact H1 | congruence] | intros [H1 H2]; split; [exact H1 | congruence]].
      + apply all_has_In. rewrite Eall. cbn. exact Hoall.
      + intros pl Hp. rewrite Epend in Hp. cbn in Hp. rewrite Hfo in Hp. rewrite Ho2. apply (Hnp pl Hp).
      + exists l1. rewrite Equeue, Hfo. cbn. unfold upd. rewrite N.eqb_refl. split; [reflexivity|].
        rewrite Ht1, Ho2. split; [apply sm_get_put_same, Hso | intros ->; contradiction].
    - unfold AInv. rewrite Eall, Eslots, Ecfg, Echain, Epend, Equeue, Epanic. cbn.
      split; [apply SInv_AInv, HS|]. split; [intros x; split; [intros H; split; [exact H | discriminate] | tauto] | tauto]. }
  destruct F2 as [A2 [M2 [C2 [Ch2 [P2 [Q2 Pa2]]]]]].
  assert (Hs2 : fst (let st2 := match sm_get (t_nonce t) (l_txs l0) with Some o => fst (remove_tx (S k) o true sb) | None => sb end in
                     (priced_put t (all_add t st2), Some match sm_get (t_nonce t) (l_txs l0) with Some _ => true | None => false end))
                = priced_put t (all_add t s2)) by reflexivity.
  fold sq. fold sb. cbv zeta. cbn [fst].
  assert (Hnt2 : ~ In t (p_all s2)) by (intros H; apply M2 in H; tauto).
  destruct (all_add_spec t s2 A2 Hnt2) as [A3 [M3 [C3 [Ch3 [P3 [Q3 [Pa3 _]]]]]]].
  eapply RS_core; [|apply core_priced_put].
  split; [|split; congruence].
  apply (S_upd1 st _ a (p_pending st a) (Some l1) HS).
  - congruence.
  - intros b. rewrite P3, P2. unfold upd. destruct (b =? a) eqn:E; [apply N.eqb_eq in E; subst; reflexivity | reflexivity].
  - intros b. rewrite Q3, Q2. reflexivity.
  - intros l Hl. apply (s_pw _ HS a l Hl).
  - intros l Hl. inversion Hl; subst. tauto.
  - intros pl ql x Hp Hq Hx. inversion Hq; subst ql. rewrite Ht1 in Hx. apply sm_put_In in Hx. destruct Hx as [->|Hx].
    + apply (Hnp pl Hp).
    + apply Hl0 in Hx. unfold in_opt in Hx. destruct (p_queue st a) as [ql|] eqn:Eq; [|destruct Hx]. apply (s_disj _ HS a pl ql x Hp Eq Hx).
  - intros x. rewrite M3, M2, (s_union _ HS x). unfold inP, inQ. cbn [in_opt]. rewrite Ht1, (put_members t _ Hso x), Hl0.
    destruct (N.eq_dec (t_from x) a) as [E|E].
    + rewrite E. split.
      * intros [->|[[H|H] Hne]]; left; (split; [assumption || reflexivity|]); tauto.
      * intros [[_ [H|[H|[H Hne]]]]|[Hne _]]; [| tauto | tauto | contradiction].
        right. split; [left; exact H|]. intros Hg. apply sm_get_In in Hg. destruct Hg as [Hg _].
        apply Hl0 in Hg. destruct (p_pending st a) as [pl|] eqn:Ep; [|destruct H]. destruct (p_queue st a) as [ql|] eqn:Eq; [|destruct Hg].
        eapply In_sm_get; [exact H | apply (s_disj _ HS a pl ql x Ep Eq Hg)].
    + split.
      * intros [->|[H Hne]]; [exfalso; apply E; reflexivity | right; tauto].
      * intros [[He _]|[_ H]]; [contradiction|]. right. split; [exact H|]. intros Hg. apply sm_get_In in Hg. destruct Hg as [Hg _].
        apply E. apply (lk_mem _ _ _ _ L0 x Hg).
  - exact A3.
  - rewrite Pa3, Pa2. apply (s_panic _ HS).
Qed.

(* add: the tx replaces the pending tx of the same nonce *)
Lemma add_replace_RS : forall t st l o old l' bump, SInv st -> okt (p_cfg st) t -> ~ In t (p_all st) ->
  p_pending st (t_from t) = Some l -> sm_get (t_nonce t) (l_txs l) = Some o ->
  list_add t bump l = (AddOk old, l') ->
  RS st (q_bump (t_from t) (priced_put t (all_add t
          (match old with Some o => priced_removed 1 (all_remove o (put_pending (t_from t) l' st))
                        | None => put_pending (t_from t) l' st end)))).
Proof.
  intros t st l o old l' bump HS Hk Hnt Ep Eg Ea. set (a := t_from t) in *.
  destruct (list_add_ok_inv _ _ _ _ _ Ea) as [Hold [Ht1 _]]. rewrite Eg in Hold. subst old.
  destruct (s_pw _ HS a l Ep) as [L0 Ha].
  assert (L1 : lok (p_cfg st) true a l') by (eapply lok_put; [exact L0 | reflexivity | exact Hk | rewrite Eg; exact Ea]).
  pose proof (lw_sorted _ (lk_wf _ _ _ _ L0)) as Hso.
  pose proof (sm_get_In _ _ _ Eg) as [Ho1 Ho2].
  unfold put_pending. rewrite (chk_ok _ _ _ _ _ L1).
  set (sp := set_pending st (upd (p_pending st) a (Some l'))).
  assert (Ap : AInv sp) by exact (SInv_AInv _ HS).
  destruct (all_remove_spec o sp Ap) as [A1 [M1 [C1 [Ch1 [P1 [Q1 [Pa1 _]]]]]]].
  pose proof (core_priced_removed 1 (all_remove o sp)) as Hc. core_inv Hc.
  set (s2 := priced_removed 1 (all_remove o sp)) in *.
  assert (A2 : AInv s2) by (unfold AInv; rewrite Eall, Eslots; exact A1).
  assert (Hnt2 : ~ In t (p_all s2)) by (rewrite Eall; intros H; apply M1 in H; cbn in H; tauto).
  destruct (all_add_spec t s2 A2 Hnt2) as [A3 [M3 [C3 [Ch3 [P3 [Q3 [Pa3 _]]]]]]].
  eapply RS_core; [|rewrite core_q_bump; apply core_priced_put].
  split; [|split; [rewrite C3, Ecfg, C1; reflexivity | rewrite Ch3, Echain, Ch1; reflexivity]].
  apply (S_upd1 st _ a (Some l') (p_queue st a) HS).
  - rewrite C3, Ecfg, C1. reflexivity.
  - intros b. rewrite P3, Epend, P1. reflexivity.
  - intros b. rewrite Q3, Equeue, Q1. cbn. unfold upd. destruct (b =? a) eqn:E; [apply N.eqb_eq in E; subst; reflexivity | reflexivity].
  - intros l0 Hl. inversion Hl; subst. tauto.
  - intros l0 Hl. apply (s_qw _ HS a l0 Hl).
  - intros pl ql x Hp Hq Hx. inversion Hp; subst pl. apply sm_get_none_intro. intros z Hz En. rewrite Ht1 in Hz.
    apply sm_put_In in Hz. pose proof (s_disj _ HS a l ql x Ep Hq Hx) as Hd. destruct Hz as [->|Hz].
    + eapply sm_get_none_notin; [exact Hd | exact Ho1 | congruence].
    + eapply sm_get_none_notin; [exact Hd | exact Hz | exact En].
  - intros x. rewrite M3, Eall, M1. cbn [p_all sp set_pending]. rewrite (s_union _ HS x). unfold inP, inQ. cbn [in_opt].
    rewrite Ht1, (sm_put_replace t _ o Hso Eg x).
    destruct (N.eq_dec (t_from x) a) as [E|E].
    + rewrite E, Ep. cbn [in_opt]. split.
      * intros [->|[[H|H] Hne]]; left; (split; [reflexivity|]); tauto.
      * intros [[_ [[H|[H Hne]]|H]]|[Hne _]]; [tauto | tauto | | contradiction].
        right. split; [right; exact H|]. intros ->. destruct (p_queue st a) as [ql|] eqn:Eq; [|destruct H].
        eapply In_sm_get; [exact Ho1 | apply (s_disj _ HS a l ql o Ep Eq H)].
    + split.
      * intros [->|[H Hne]]; [exfalso; apply E; reflexivity | right; tauto].
      * intros [[He _]|[_ H]]; [contradiction|]. right. split; [exact H|]. intros ->. apply E. apply (lk_mem _ _ _ _ L0 o Ho1).
  - exact A3.
  - rewrite Pa3, Epanic, Pa1. exact (s_panic _ HS).
Qed.

(* the two halves of LegacyPool.add, named (pool_add_unfold checks they are the model's) *)
Definition evict_of (t : tx) (st : pool) : option N * pool :=
  let c := p_cfg st in
  let full := (Z.of_N (c_gslots c + c_gqueue c) <? p_slots st + Z.of_N (t_slots t))%Z in
  if negb full then (None, st)
  else
    let '(under, st1) := priced_underpriced t st in
    if under then (Some E_UNDERPRICED, st1)
    else if c_gslots c / 4 <? p_changes st1 then (Some E_OVERFLOW, st1)
    else
      match priced_discard (p_slots st1 - Z.of_N (c_gslots c + c_gqueue c) + Z.of_N (t_slots t))%Z st1 with
      | (None, st2) => (Some E_OVERFLOW, st2)
      | (Some drop, st2) =>
          let replaces_pending :=
            is_gapped t st2 &&
            existsb (fun d => match p_pending st2 (t_from d) with
                              | Some l => l_contains (t_nonce d) l | None => false end) drop in
          if replaces_pending then
            (Some E_FUTUREREPLACE, fold_left (fun s d => priced_put d s) drop st2)
          else
            (None,
             fold_left (fun s d =>
                          let '(s', n) := remove_tx FUEL d false s in
                          set_changes s' (p_changes s' + N.of_nat n)) drop st2)
      end.

Definition tail_of (t : tx) (c : cfg) (st1 : pool) : pool * N * bool :=
  let a := t_from t in
  let in_pending := match p_pending st1 a with
                    | Some l => l_contains (t_nonce t) l | None => false end in
  if in_pending then
    match p_pending st1 a with
    | None => (st1, E_OK, false)
    | Some l =>
        match list_add t (c_bump c) l with
        | (AddOk old, l') =>
            let st2 := put_pending a l' st1 in
            let st3 := match old with
                       | Some o => priced_removed 1 (all_remove o st2)
                       | None => st2 end in
            let st4 := priced_put t (all_add t st3) in
            (q_bump a st4, E_OK, match old with Some _ => true | None => false end)
        | (AddUnderpriced, _) => (st1, E_REPLACEUNDER, false)
        | (AddOverflow, _) => (set_ovf st1, E_REPLACEUNDER, false)
        end
    end
  else
    match enqueue_tx FUEL t true st1 with
    | (st2, None) => (st2, E_REPLACEUNDER, false)
    | (st2, Some r) => (st2, E_OK, r)
    end.

Lemma pool_add_unfold : forall t st, pool_add t st =
  if all_has t st then (st, E_KNOWN, false)
  else let e := validate_state t st in
       if negb (e =? E_OK) then (st, e, false)
       else match evict_of t st with
            | (Some err, st1) => (st1, err, false)
            | (None, st1) => tail_of t (p_cfg st) st1
            end.
Proof. reflexivity. Qed.

Definition Good (st se : pool) : Prop := RS st se /\ (forall x, In x (p_all se) -> In x (p_all st)).

Lemma Good_core : forall st s1 s2, Good st s1 -> core s2 = core s1 -> Good st s2.
Proof. intros st s1 s2 [R H] Hc. split; [eapply RS_core; eassumption|]. core_inv Hc. rewrite Eall. exact H. Qed.

Lemma evict_Good : forall t st, SInv st -> Good st (snd (evict_of t st)).
Proof.
  intros t st HS. assert (G0 : Good st st) by (split; [apply RS_refl, HS | tauto]).
  unfold evict_of. destruct (negb _); [exact G0|].
  pose proof (core_priced_underpriced t st) as H1. destruct (priced_underpriced t st) as [under st1]. cbn [snd] in H1.
  pose proof (Good_core _ _ _ G0 H1) as G1.
  destruct under; [exact G1|]. destruct (_ <? _); [exact G1|].
  match goal with |- context [priced_discard ?z st1] => pose proof (core_priced_discard z st1) as H2; destruct (priced_discard z st1) as [[drop|] st2] end; cbn [snd] in H2;
    pose proof (Good_core _ _ _ G1 H2) as G2; [|exact G2].
  destruct (_ && _); cbn [snd].
  - clear -G2. revert st2 G2. induction drop as [|d drop IH]; intros s G; cbn [fold_left]; [exact G|].
    apply IH. eapply Good_core; [exact G | apply core_priced_put].
  - clear -G2. revert st2 G2. induction drop as [|d drop IH]; intros s G; cbn [fold_left]; [exact G|].
    apply IH. destruct G as [[S1 [C1 Ch1]] Hsub].
    destruct (remove_tx_SInv 4 d false s S1) as [S2 [M2 [C2 Ch2]]]. change (S (S 4)) with FUEL in *.
    destruct (remove_tx FUEL d false s) as [s' n]. cbn [fst] in *.
    eapply Good_core; [|apply core_set_changes].
    split; [split; [exact S2 | split; congruence] | intros x Hx; apply Hsub, M2, Hx].
Qed.

Lemma tail_RS : forall t c st1, SInv st1 -> okt (p_cfg st1) t -> ~ In t (p_all st1) -> RS st1 (fst (fst (tail_of t c st1))).
Proof.
  intros t c st1 HS Hk Hnt. unfold tail_of.
  destruct (p_pending st1 (t_from t)) as [l|] eqn:Ep.
  - unfold l_contains. destruct (sm_get (t_nonce t) (l_txs l)) as [o|] eqn:Eg.
    + destruct (list_add t (c_bump c) l) as [[old| |] l'] eqn:Ea; cbn [fst].
      * eapply add_replace_RS; eassumption.
      * apply RS_refl, HS.
      * eapply RS_core; [apply RS_refl, HS | apply core_set_ovf].
    + pose proof (add_enqueue_RS 4 t st1 HS Hk Hnt) as R. change (S (S 4)) with FUEL in R.
      destruct (enqueue_tx FUEL t true st1) as [s2 [r|]]; cbn [fst] in *; apply R; intros pl Hp; rewrite Ep in Hp; inversion Hp; subst; exact Eg.
  - pose proof (add_enqueue_RS 4 t st1 HS Hk Hnt) as R. change (S (S 4)) with FUEL in R.
    destruct (enqueue_tx FUEL t true st1) as [s2 [r|]]; cbn [fst] in *; apply R; intros pl Hp; rewrite Ep in Hp; discriminate.
Qed.

(* LegacyPool.add *)
Lemma pool_add_RS : forall t st, SInv st -> okt (p_cfg st) t -> RS st (fst (fst (pool_add t st))).
Proof.
  intros t st HS Hk. rewrite pool_add_unfold.
  destruct (all_has t st) eqn:Eh; [apply RS_refl, HS|]. cbv zeta.
  destruct (negb (validate_state t st =? E_OK)); [apply RS_refl, HS|].
  pose proof (evict_Good t st HS) as [[S1 [C1 Ch1]] Hsub]. destruct (evict_of t st) as [[err|] st1]; cbn [snd fst] in *.
  - split; [exact S1 | tauto].
  - eapply RS_step; [split; [exact S1 | tauto]|]. intros _. apply tail_RS; [exact S1 | rewrite C1; exact Hk |].
    intros H. apply Hsub in H. apply all_has_In in H. congruence.
Qed.

Lemma add_txs_locked_RS : forall txs errs st dirty, SInv st -> (forall t, In t txs -> okt (p_cfg st) t) ->
  RS st (fst (fst (add_txs_locked txs errs st dirty))).
Proof.
  induction txs as [|t ts IH]; intros errs st dirty HS Hk; cbn [add_txs_locked]; [apply RS_refl, HS|].
  destruct errs as [|e es]; [apply RS_refl, HS|].
  destruct (negb (e =? E_OK)).
  - pose proof (IH es st dirty HS (fun x Hx => Hk x (or_intror Hx))) as R.
    destruct (add_txs_locked ts es st dirty) as [[s' es'] d']. exact R.
  - pose proof (pool_add_RS t st HS (Hk t (or_introl eq_refl))) as R1.
    destruct (pool_add t st) as [[st1 e1] rep]. cbn [fst] in R1.
    match goal with |- context [add_txs_locked ts es st1 ?d] =>
      pose proof (fun S1 H => IH es st1 d S1 H) as R2; destruct (add_txs_locked ts es st1 d) as [[s' es'] d'] end.
    cbn [fst] in *. eapply RS_step; [exact R1|]. intros S1. apply R2; [exact S1|].
    intros x Hx. destruct R1 as [_ [C1 _]]. rewrite C1. apply Hk. right. exact Hx.
Qed.

Lemma run_reorg_promote_RS : forall dirty st, SInv st -> RS st (run_reorg_promote dirty st).
Proof.
  intros dirty st HS. unfold run_reorg_promote.
  eapply RS_core; [|apply core_set_changes].
  eapply RS_step; [apply promote_executables_RS, HS|]. intros S1.
  eapply RS_step; [apply truncate_pending_RS, S1|]. intros S2.
  destruct (truncate_queue_SInv _ S2) as [S3 [C3 [Ch3 _]]]. split; [exact S3 | tauto].
Qed.

(* LegacyPool.Add(txs, sync) *)
Lemma pool_Add_RS : forall txs st, SInv st -> (forall t, In t txs -> okt (p_cfg st) t) -> RS st (fst (pool_Add txs st)).
Proof.
  intros txs st HS Hk. unfold pool_Add. destruct (negb _); [apply RS_refl, HS|].
  match goal with |- context [add_txs_locked txs ?e st []] =>
    pose proof (add_txs_locked_RS txs e st [] HS Hk) as R1; destruct (add_txs_locked txs e st []) as [[st1 e1] d] end.
  cbn [fst] in *. eapply RS_step; [exact R1|]. intros S1. apply run_reorg_promote_RS, S1.
Qed.

(* LegacyPool.SetGasTip *)
Lemma pool_SetGasTip_RS : forall tip st, SInv st -> RS st (pool_SetGasTip tip st).
Proof.
  intros tip st HS. unfold pool_SetGasTip.
  assert (R0 : RS st (set_gastip st tip)) by (eapply RS_core; [apply RS_refl, HS | apply core_set_gastip]).
  destruct (p_gastip st <? tip); [|exact R0].
  eapply RS_core; [|apply core_priced_removed].
  generalize (filter (fun t => t_tip t <? tip) (p_all (set_gastip st tip))). intros drop.
  revert R0. generalize (set_gastip st tip). induction drop as [|d drop IH]; intros s R; cbn [fold_left]; [exact R|].
  apply IH. eapply RS_step; [exact R|]. intros S1.
  destruct (remove_tx_SInv 4 d false s S1) as [S2 [_ [C2 Ch2]]]. change (S (S 4)) with FUEL in *.
  split; [exact S2 | tauto].
Qed.

(* ---------- the public listing paths ---------- *)
Lemma lok_flatten : forall c s a l x l', lok c s a l -> list_flatten l = (x, l') ->
  lok c s a l' /\ x = l_txs l /\ l_txs l' = l_txs l.
Proof.
  intros c s a l x l' L E. destruct (list_flatten_spec _ _ _ (lk_wf _ _ _ _ L) E) as [Hx [W' [Ht [_ [Hs _]]]]].
  split; [|tauto]. split; [exact W' | rewrite Hs; apply (lk_strict _ _ _ _ L) | rewrite Ht; apply (lk_mem _ _ _ _ L)].
Qed.

Lemma flatten_pending_RS : forall a st, SInv st ->
  RS st (snd (flatten_pending a st)) /\
  fst (flatten_pending a st) = match p_pending st a with Some l => l_txs l | None => [] end.
Proof.
  intros a st HS. unfold flatten_pending. destruct (p_pending st a) as [l|] eqn:Ep; [|split; [apply RS_refl, HS | reflexivity]].
  destruct (list_flatten l) as [x l'] eqn:E. destruct (s_pw _ HS a l Ep) as [L Ha].
  destruct (lok_flatten _ _ _ _ _ _ L E) as [L' [Hx Ht]]. cbn [fst snd]. split; [|exact Hx].
  split; [|split; reflexivity].
  apply (S_upd1 st _ a (Some l') (p_queue st a) HS); cbn; try reflexivity.
  - intros b. unfold upd. destruct (b =? a) eqn:Eb; [apply N.eqb_eq in Eb; subst; reflexivity | reflexivity].
  - intros l0 Hl. inversion Hl; subst. tauto.
  - intros l0 Hl. apply (s_qw _ HS a l0 Hl).
  - intros pl ql t Hp Hq Ht'. inversion Hp; subst pl. rewrite Ht. apply (s_disj _ HS a l ql t Ep Hq Ht').
  - intros t. rewrite (s_union _ HS t). unfold inP, inQ. cbn [in_opt]. rewrite Ht.
    destruct (N.eq_dec (t_from t) a) as [Ea|Ea]; [rewrite Ea, Ep; cbn [in_opt]; tauto | tauto].
  - exact (SInv_AInv _ HS).
  - exact (s_panic _ HS).
Qed.

Lemma flatten_queue_RS : forall a st, SInv st ->
  RS st (snd (flatten_queue a st)) /\
  fst (flatten_queue a st) = match p_queue st a with Some l => l_txs l | None => [] end.
Proof.
  intros a st HS. unfold flatten_queue. destruct (p_queue st a) as [l|] eqn:Eq; [|split; [apply RS_refl, HS | reflexivity]].
  destruct (list_flatten l) as [x l'] eqn:E. destruct (s_qw _ HS a l Eq) as [L Ha].
  destruct (lok_flatten _ _ _ _ _ _ L E) as [L' [Hx Ht]]. cbn [fst snd]. split; [|exact Hx].
  split; [|split; reflexivity].
  apply (S_upd1 st _ a (p_pending st a) (Some l') HS); cbn; try reflexivity.
  - intros b. unfold upd. destruct (b =? a) eqn:Eb; [apply N.eqb_eq in Eb; subst; reflexivity | reflexivity].
  - intros l0 Hl. apply (s_pw _ HS a l0 Hl).
  - intros l0 Hl. inversion Hl; subst. tauto.
  - intros pl ql t Hp Hq Ht'. inversion Hq; subst ql. rewrite Ht in Ht'. apply (s_disj _ HS a pl l t Hp Eq Ht').
  - intros t. rewrite (s_union _ HS t). unfold inP, inQ. cbn [in_opt]. rewrite Ht.
    destruct (N.eq_dec (t_from t) a) as [Ea|Ea]; [rewrite Ea, Eq; cbn [in_opt]; tauto | tauto].
  - exact (SInv_AInv _ HS).
  - exact (s_panic _ HS).
Qed.

Lemma pool_ContentFrom_RS : forall a st, SInv st -> RS st (snd (pool_ContentFrom a st)).
Proof.
  intros a st HS. unfold pool_ContentFrom. destruct (flatten_pending_RS a st HS) as [R1 _].
  destruct (flatten_pending a st) as [p st1]. cbn [snd] in R1.
  eapply RS_step; [exact R1|]. intros S1. destruct (flatten_queue_RS a st1 S1) as [R2 _].
  destruct (flatten_queue a st1) as [q st2]. exact R2.
Qed.

Lemma content_fold_RS : forall accts st0 acc s, RS st0 s ->
  RS st0 (snd (fold_left (fun '(acc, s) a => let '(pq, s') := pool_ContentFrom a s in (acc ++ [pq], s')) accts (acc, s))).
Proof.
  induction accts as [|a accts IH]; intros st0 acc s R; cbn [fold_left snd]; [exact R|].
  pose proof (fun S1 => pool_ContentFrom_RS a s S1) as R1. destruct (pool_ContentFrom a s) as [pq s']. cbn [snd] in R1.
  apply IH. eapply RS_step; [exact R | exact R1].
Qed.
Lemma pool_Content_RS : forall st, SInv st -> RS st (snd (pool_Content st)).
Proof. intros st HS. unfold pool_Content. apply content_fold_RS, RS_refl, HS. Qed.

Lemma pending_fold_RS : forall accts st0 acc s, RS st0 s ->
  RS st0 (snd (fold_left (fun '(acc, s) a => let '(p, s') := flatten_pending a s in (acc ++ [p], s')) accts (acc, s))).
Proof.
  induction accts as [|a accts IH]; intros st0 acc s R; cbn [fold_left snd]; [exact R|].
  pose proof (fun S1 => proj1 (flatten_pending_RS a s S1)) as R1. destruct (flatten_pending a s) as [p s']. cbn [snd] in R1.
  apply IH. eapply RS_step; [exact R | exact R1].
Qed.
Lemma pool_Pending_RS : forall st, SInv st -> RS st (snd (pool_Pending st)).
Proof. intros st HS. unfold pool_Pending. apply pending_fold_RS, RS_refl, HS. Qed.

(* ---------- histories ---------- *)
Definition op_ok (c : cfg) (o : op) : Prop :=
  match o with
  | OpAdd txs => forall t, In t txs -> okt c t
  | OpSetGasTip _ | OpContent | OpContentFrom _ | OpPending => True
  | OpReset _ _ _ => False
  end.

Lemma SInv_init : forall c tip g, SInv (pool_init c tip g).
Proof.
  intros c tip g. split; cbn; try discriminate; try reflexivity.
  - intros t. unfold inP, inQ. cbn. tauto.
  - constructor.
Qed.

Lemma step_RS : forall st o, SInv st -> op_ok (p_cfg st) o -> RS st (step st o).
Proof.
  intros st [txs|b o n|tip| |a| ] HS Hok; cbn [step].
  - apply pool_Add_RS; assumption.
  - destruct Hok.
  - apply pool_SetGasTip_RS, HS.
  - apply pool_Content_RS, HS.
  - apply pool_ContentFrom_RS, HS.
  - apply pool_Pending_RS, HS.
Qed.

Lemma history_SInv : forall h st, SInv st -> Forall (op_ok (p_cfg st)) h ->
  SInv (run_history st h) /\ p_cfg (run_history st h) = p_cfg st.
Proof.
  unfold run_history. induction h as [|o h IH]; intros st HS Hok; cbn [fold_left]; [tauto|].
  inversion Hok as [|? ? Ho Hh]; subst. destruct (step_RS st o HS Ho) as [S1 [C1 _]].
  destruct (IH (step st o) S1) as [S2 C2]; [rewrite C1; exact Hh|]. split; [exact S2 | congruence].
Qed.
