(* Pool/BlobResetProofs.v — recheck, Reset and Init keep the per-account invariant Inv of
   Pool/BlobProofs.v (for the repaired code: legacy_gap = false). *)
From Coq Require Import List NArith ZArith Bool Lia Permutation Sorted.
From GV Require Import Lib.Tactics Pool.Blob Pool.BlobProofs Pool.BlobAddProofs Pool.BlobRollingProofs.
Import ListNotations.
Local Open Scope N_scope.

(* ------------------------------------------------------------------ frames *)
(* only account [a]'s index / spent entries may differ; the chain state is untouched *)
Definition frame (a : N) (p q : pool) : Prop :=
  (forall a2, a2 <> a -> aget (p_index q) a2 = aget (p_index p) a2 /\ aget (p_spent q) a2 = aget (p_spent p) a2) /\
  p_nonce q = p_nonce p /\ p_bal q = p_bal p.

Lemma frame_refl a p : frame a p p.
Proof. repeat split. Qed.
Lemma frame_trans a p q r : frame a p q -> frame a q r -> frame a p r.
Proof.
  intros [H1 [H2 H3]] [K1 [K2 K3]]. split; [|split; congruence].
  intros a2 Ha. destruct (H1 a2 Ha), (K1 a2 Ha). split; congruence.
Qed.
Lemma same_core_frame a p q : same_core p q -> frame a p q.
Proof.
  intros [Hi [Hs [Hn Hb]]]. split; [|split; assumption].
  intros a2 _. rewrite Hi, Hs. split; reflexivity.
Qed.
Lemma frame_nonce a p q a2 : frame a p q -> nonce_of q a2 = nonce_of p a2.
Proof. intros [_ [H _]]. unfold nonce_of. rewrite H. reflexivity. Qed.
Lemma frame_bal a p q a2 : frame a p q -> bal_of q a2 = bal_of p a2.
Proof. intros [_ [_ H]]. unfold bal_of. rewrite H. reflexivity. Qed.

Lemma neq_eqb a a2 : a2 <> a -> (a =? a2) = false.
Proof. intro H. apply N.eqb_neq. congruence. Qed.

Lemma frame_set_index a l p : frame a p (set_index (aset (p_index p) a l) p).
Proof.
  split; [|split; reflexivity]. intros a2 Ha. cbn [p_index p_spent set_index].
  rewrite aget_aset, (neq_eqb _ _ Ha). split; reflexivity.
Qed.
Lemma frame_del a p :
  frame a p (set_spent (adel (p_spent p) a) (set_index (adel (p_index p) a) p)).
Proof.
  split; [|split; reflexivity]. intros a2 Ha. cbn [p_index p_spent set_index set_spent].
  rewrite !aget_adel, (neq_eqb _ _ Ha). split; reflexivity.
Qed.

(* Inv survives a step that only touches account a and leaves it well-formed *)
Lemma acct_ok_frame a p q a2 : frame a p q -> a2 <> a -> acct_ok p a2 -> acct_ok q a2.
Proof.
  intros Hf Ha H. unfold acct_ok in *. rewrite (frame_nonce _ _ _ a2 Hf), (frame_bal _ _ _ a2 Hf).
  destruct Hf as [Hf _]. destruct (Hf a2 Ha) as [Hi Hs]. rewrite Hi, Hs. exact H.
Qed.

(* ------------------------------------------------------------------ spent bookkeeping *)
Lemma sum_cost_perm l l' : Permutation l l' -> sum_cost l = sum_cost l'.
Proof.
  induction 1 as [|x l l' _ IH|x y l|l l' l'' _ IH1 _ IH2]; try reflexivity.
  - change (sum_cost (x :: l)) with (m_cost x + sum_cost l). change (sum_cost (x :: l')) with (m_cost x + sum_cost l'). lia.
  - change (sum_cost (y :: x :: l)) with (m_cost y + (m_cost x + sum_cost l)).
    change (sum_cost (x :: y :: l)) with (m_cost x + (m_cost y + sum_cost l)). lia.
  - congruence.
Qed.

Lemma sum_cost_cons m l : sum_cost (m :: l) = m_cost m + sum_cost l.
Proof. reflexivity. Qed.

(* a step that removes one transaction's cost from account a's spent total *)
Definition dec_step (a : N) (step : meta -> pool -> res pool) : Prop :=
  forall m q q', step m q = Ok q' ->
    exists s, aget (p_spent q) a = Some s /\ aget (p_spent q') a = Some (sub256 s (m_cost m)) /\
              p_index q' = p_index q /\ frame a q q'.

Lemma unaccount_dec a : dec_step a (unaccount a).
Proof.
  intros m q q' H. apply unaccount_get in H. destruct H as [s [E1 [E2 [E3 [E4 E5]]]]].
  exists s. split; [exact E1|]. split; [rewrite E2, aget_aset, N.eqb_refl; reflexivity|]. split; [exact E3|].
  split; [|split; assumption]. intros a2 Ha. rewrite E2, E3, aget_aset, (neq_eqb _ _ Ha). split; reflexivity.
Qed.

Lemma offload_core id inc p q : offload id inc p = Ok q -> same_core p q.
Proof.
  unfold offload. intro H. inv_bind_as H o. destruct o as [it|]; [|inversion H; subst; apply same_core_refl].
  destruct (aget inc (t_id (i_tx it))); inversion H; subst; repeat split.
Qed.

Lemma dec_step_then a step (g : meta -> pool -> res pool) :
  dec_step a step -> (forall m q q', g m q = Ok q' -> same_core q q') ->
  dec_step a (fun m q => do q1 <- step m q ; g m q1).
Proof.
  intros Hs Hg m q q' H. inv_bind_as H q1. destruct (Hs m q q1 E) as [s [E1 [E2 [E3 E4]]]].
  pose proof (Hg m q1 q' H) as [Hi [Hsp [Hn Hb]]].
  exists s. split; [exact E1|]. split; [rewrite Hsp; exact E2|]. split; [congruence|].
  eapply frame_trans; [exact E4|]. apply same_core_frame. repeat split; assumption.
Qed.

Lemma fold_dec a step (Hs : dec_step a step) : forall l p p' s,
  fold_left (fun r m => do q <- r ; step m q) l (Ok p) = Ok p' ->
  aget (p_spent p) a = Some s -> sum_cost l <= s ->
  aget (p_spent p') a = Some (s - sum_cost l) /\ p_index p' = p_index p /\ frame a p p'.
Proof.
  induction l as [|m r IH]; intros p p' s H Hsp Hle; cbn [fold_left] in H.
  - inversion H; subst. change (sum_cost []) with 0. rewrite N.sub_0_r. split; [exact Hsp|]. split; [reflexivity | apply frame_refl].
  - cbn [bind] in H. destruct (step m p) as [p1|e] eqn:E.
    2:{ rewrite fold_err in H; [discriminate | intros; reflexivity]. }
    destruct (Hs m p p1 E) as [s0 [E1 [E2 [E3 E4]]]]. rewrite Hsp in E1. inversion E1; subst s0.
    rewrite sum_cost_cons in *. rewrite sub256_exact in E2 by lia.
    destruct (IH p1 p' (s - m_cost m) H E2 ltac:(lia)) as [K1 [K2 K3]].
    split; [rewrite K1; f_equal; lia|]. split; [congruence|]. eapply frame_trans; eauto.
Qed.

Lemma unaccount_all_spec a : forall l p p' s,
  unaccount_all a l p = Ok p' -> aget (p_spent p) a = Some s -> sum_cost l <= s ->
  aget (p_spent p') a = Some (s - sum_cost l) /\ p_index p' = p_index p /\ frame a p p'.
Proof.
  induction l as [|m r IH]; intros p p' s H Hsp Hle; cbn [unaccount_all] in H.
  - inversion H; subst. change (sum_cost []) with 0. rewrite N.sub_0_r. split; [exact Hsp|]. split; [reflexivity | apply frame_refl].
  - inv_bind_as H p1. destruct (unaccount_dec a m p p1 E) as [s0 [E1 [E2 [E3 E4]]]].
    rewrite Hsp in E1. inversion E1; subst s0. rewrite sum_cost_cons in *. rewrite sub256_exact in E2 by lia.
    destruct (IH p1 p' (s - m_cost m) H E2 ltac:(lia)) as [K1 [K2 K3]].
    split; [rewrite K1; f_equal; lia|]. split; [congruence|]. eapply frame_trans; eauto.
Qed.

(* a fold whose steps keep the core *)
Lemma fold_core {B} (step : B -> pool -> res pool)
      (Hs : forall m q q', step m q = Ok q' -> same_core q q') : forall l p p',
  fold_left (fun r m => do q <- r ; step m q) l (Ok p) = Ok p' -> same_core p p'.
Proof.
  induction l as [|m r IH]; intros p p' H; cbn [fold_left] in H.
  - inversion H; subst. apply same_core_refl.
  - cbn [bind] in H. destruct (step m p) as [p1|e] eqn:E.
    2:{ rewrite fold_err in H; [discriminate | intros; reflexivity]. }
    eapply same_core_trans; [eapply Hs; eauto | eapply IH; eauto].
Qed.

(* recheck's threshold loop: spent stays the sum of what is still listed *)
Lemma scan_spec a : forall rest prev acc p l p',
  recheck_scan a prev rest acc p = Ok (l, p') ->
  aget (p_spent p) a = Some (sum_cost acc + sum_cost rest) ->
  aget (p_spent p') a = Some (sum_cost l) /\ p_index p' = p_index p /\ frame a p p'.
Proof.
  induction rest as [|m r IH]; intros prev acc p l p' H Hsp; cbn [recheck_scan] in H.
  - inversion H; subst. change (sum_cost []) with 0 in Hsp. rewrite N.add_0_r in Hsp.
    split; [exact Hsp|]. split; [reflexivity | apply frame_refl].
  - rewrite sum_cost_cons in Hsp. destruct (m_nonce m =? wrap64 (m_nonce prev + 1)).
    + eapply IH; [exact H|]. rewrite sum_cost_app. change (sum_cost [ev_next prev m]) with (m_cost m + 0).
      rewrite Hsp. f_equal. lia.
    + destruct (m_nonce m =? m_nonce prev).
      * inv_bind_as H p1. inv_bind_as H p2.
        destruct (unaccount_dec a m p p1 E) as [s0 [E1 [E2 [E3 E4]]]].
        rewrite Hsp in E1. inversion E1; subst s0. rewrite sub256_exact in E2 by lia.
        apply store_del_core in E0. destruct E0 as [Hi [Hs [Hn Hb]]].
        destruct (IH prev acc p2 l p' H) as [K1 [K2 K3]].
        { rewrite Hs, E2. f_equal. lia. }
        split; [exact K1|]. split; [congruence|].
        eapply frame_trans; [exact E4|]. eapply frame_trans; [|exact K3].
        apply same_core_frame. repeat split; assumption.
      * inv_bind_as H p1. inv_bind_as H p2. inversion H; subst.
        destruct (unaccount_all_spec a (m :: r) p p1 _ E Hsp) as [K1 [K2 K3]].
        { rewrite sum_cost_cons. lia. }
        apply store_dels_core in E0. destruct E0 as [Hi [Hs [Hn Hb]]].
        split; [rewrite Hs, K1; f_equal; rewrite sum_cost_cons; lia|]. split; [congruence|].
        eapply frame_trans; [exact K3|]. apply same_core_frame. repeat split; assumption.
Qed.

(* popping from the tail *)
Lemma pop_spec a cond : forall fuel txs ids p txs' ids' p',
  pop_while fuel a cond txs ids p = Ok (txs', ids', p') ->
  aget (p_spent p) a = Some (sum_cost txs) ->
  aget (p_spent p') a = Some (sum_cost txs') /\ p_index p' = p_index p /\ frame a p p' /\
  (exists k, txs = txs' ++ k) /\ cond p' txs' = false.
Proof.
  induction fuel as [|f IH]; intros txs ids p txs' ids' p' H Hsp; cbn [pop_while] in H; [discriminate|].
  destruct (cond p txs) eqn:Ec.
  - destruct (last_opt txs) as [lastm|] eqn:El; [|discriminate].
    inv_bind_as H p1.
    assert (Hne : txs <> []) by (intro; subst; discriminate).
    destruct (removelast_app_last txs Hne) as [x [Ex Elx]]. rewrite El in Elx. inversion Elx; subst x.
    assert (Hsum : sum_cost txs = sum_cost (removelast txs) + m_cost lastm).
    { rewrite Ex at 1. rewrite sum_cost_app. change (sum_cost [lastm]) with (m_cost lastm + 0). lia. }
    destruct (unaccount_dec a lastm p p1 E) as [s0 [E1 [E2 [E3 E4]]]].
    rewrite Hsp in E1. inversion E1; subst s0. rewrite sub256_exact in E2 by lia.
    destruct (IH (removelast txs) _ p1 txs' ids' p' H) as [K1 [K2 [K3 [[k K4] K5]]]].
    { rewrite E2. f_equal. lia. }
    split; [exact K1|]. split; [congruence|]. split; [eapply frame_trans; eauto|].
    split; [|exact K5]. exists (k ++ [lastm]). rewrite Ex, K4, app_assoc. reflexivity.
  - inversion H; subst. split; [exact Hsp|]. split; [reflexivity|]. split; [apply frame_refl|].
    split; [exists []; rewrite app_nil_r; reflexivity | exact Ec].
Qed.

(* ------------------------------------------------------------------ sorted prefix *)
Lemma nonce_le_trans : Relations_1.Transitive nonce_le.
Proof. intros x y z. unfold nonce_le. lia. Qed.

Lemma filter_none next l : Forall (fun m => next <= m_nonce m) l -> filter (fun m => m_nonce m <? next) l = [].
Proof.
  induction 1 as [|x r Hx _ IH]; [reflexivity|]. cbn. apply N.ltb_ge in Hx. rewrite Hx. exact IH.
Qed.

(* on a nonce-sorted list the stale transactions form a prefix *)
Lemma stale_prefix next l : StronglySorted nonce_le l ->
  let stale := filter (fun m => m_nonce m <? next) l in
  l = stale ++ skipn (length stale) l /\ Forall (fun m => next <= m_nonce m) (skipn (length stale) l).
Proof.
  induction 1 as [|x r Hs IH Hall]; cbn zeta; [split; [reflexivity | constructor]|].
  cbn [filter]. destruct (m_nonce x <? next) eqn:E.
  - cbn [length skipn app]. destruct IH as [I1 I2]. split; [f_equal; exact I1 | exact I2].
  - apply N.ltb_ge in E.
    assert (Hr : Forall (fun m => next <= m_nonce m) r).
    { eapply Forall_impl; [|exact Hall]. intros m Hm. unfold nonce_le in Hm. lia. }
    rewrite (filter_none _ _ Hr). cbn. split; [reflexivity | constructor; assumption].
Qed.

(* ------------------------------------------------------------------ recheck *)
(* what recheck needs of the account it is called on: the spent total is the sum of the
   listed costs (nonces, order, gaps, duplicates, affordability are arbitrary) *)
Definition wf_acct (p : pool) (a : N) : Prop :=
  match aget (p_index p) a with
  | None => aget (p_spent p) a = None
  | Some l => l <> [] /\ aget (p_spent p) a = Some (sum_cost l)
  end.

Lemma acct_ok_wf p a : acct_ok p a -> wf_acct p a.
Proof. unfold acct_ok, wf_acct. destruct (aget (p_index p) a); [intuition | auto]. Qed.

Lemma fold_untrack_core : forall l p,
  same_core p (fold_left (fun q m => untrack m (sub_stored (m_size m) q)) l p).
Proof.
  induction l as [|m r IH]; intro p; cbn [fold_left]; [apply same_core_refl|].
  eapply same_core_trans; [|apply IH]. repeat split.
Qed.

(* the eviction fields of account a's list are prefix minima *)
Definition rk (q : pool) (a : N) : Prop := forall l, aget (p_index q) a = Some l -> rolling None l.
Lemma rk_none q a : aget (p_index q) a = None -> rk q a.
Proof. intros H l Hl. rewrite H in Hl. discriminate. Qed.

Lemma lasto_snoc o l x : lasto o (l ++ [x]) = Some x.
Proof. unfold lasto, last_opt. rewrite rev_app_distr. reflexivity. Qed.

Lemma scan_rolling a : forall rest prev acc p l p',
  recheck_scan a prev rest acc p = Ok (l, p') ->
  rolling None acc -> lasto None acc = Some prev -> rolling None l.
Proof.
  induction rest as [|m r IH]; intros prev acc p l p' H Hr Hl; cbn [recheck_scan] in H.
  - inversion H; subst. exact Hr.
  - destruct (m_nonce m =? wrap64 (m_nonce prev + 1)).
    + eapply IH; [exact H | | apply lasto_snoc].
      apply rolling_app; [exact Hr|]. rewrite Hl. apply roll_next; [symmetry; apply ev_next_idem | constructor].
    + destruct (m_nonce m =? m_nonce prev).
      * inv_bind_as H p1. inv_bind_as H p2. eapply IH; eauto.
      * inv_bind_as H p1. inv_bind_as H p2. inversion H; subst. exact Hr.
Qed.

Lemma del_result a p1 q :
  same_core (set_spent (adel (p_spent p1) a) (set_index (adel (p_index p1) a) p1)) q ->
  frame a p1 q /\ acct_ok q a /\ rk q a.
Proof.
  intro Hc. split; [|split].
  - eapply frame_trans; [apply frame_del | apply same_core_frame; exact Hc].
  - destruct Hc as [Hi [Hs _]]. unfold acct_ok. rewrite Hi, Hs. cbn [p_index p_spent set_index set_spent].
    rewrite !aget_adel, N.eqb_refl. reflexivity.
  - apply rk_none. destruct Hc as [Hi _]. rewrite Hi. cbn [p_index set_index set_spent]. rewrite aget_adel, N.eqb_refl. reflexivity.
Qed.

Lemma pop_len a : forall fuel txs ids p txs' ids' p',
  pop_while fuel a (fun _ l => Nat.ltb maxTxsPerAccount (length l)) txs ids p = Ok (txs', ids', p') ->
  (maxTxsPerAccount <= length txs)%nat -> (maxTxsPerAccount <= length txs')%nat.
Proof.
  induction fuel as [|f IH]; intros txs ids p txs' ids' p' H Hl; cbn [pop_while] in H; [discriminate|].
  destruct (Nat.ltb maxTxsPerAccount (length txs)) eqn:Ec.
  - destruct (last_opt txs); [|discriminate]. inv_bind_as H p1. eapply IH; [exact H|].
    apply Nat.ltb_lt in Ec. destruct txs as [|x r]; [cbn in Ec; lia|].
    assert (Hr : length (removelast (x :: r)) = length r).
    { destruct (exists_last (l := x :: r)) as [l' [y Ey]]; [discriminate|]. rewrite Ey, removelast_last.
      apply (f_equal (@length _)) in Ey. rewrite app_length in Ey. cbn in Ey. lia. }
    rewrite Hr. cbn in Ec. lia.
  - inversion H; subst. exact Hl.
Qed.

Section Recheck.
Variable prioE prioB : N -> N -> Z.

Lemma heap_opt_core (b : option (list (N * N))) p a q :
  match b with Some _ => heap_remove_addr prioE prioB p a | None => Ok p end = Ok q -> same_core p q.
Proof. destruct b; intro H; [eapply heap_remove_core; eauto | inversion H; subst; apply same_core_refl]. Qed.

(* recheck (repaired code) on any account whose spent total is consistent leaves the account
   well-formed with respect to the chain state and touches no other account *)
Lemma recheck_ok a incl p q :
  recheck prioE prioB false a incl p = Ok q -> wf_acct p a -> frame a p q /\ acct_ok q a /\ rk q a.
Proof.
  intros H Hwf. unfold recheck in H. unfold wf_acct in Hwf.
  destruct (aget (p_index p) a) as [txs0|] eqn:Ei.
  2:{ destruct incl; [|discriminate]. inversion H; subst. split; [apply frame_refl|].
      split; [unfold acct_ok; rewrite Ei; exact Hwf | apply rk_none; exact Ei]. }
  destruct Hwf as [Hne0 Hsp0].
  destruct (sort_metas_spec txs0) as [Hsorted Hperm].
  remember (sort_metas txs0) as txs eqn:Etxs. clear Etxs.
  cbv zeta in H.
  set (p0 := set_index (aset (p_index p) a txs) p) in *.
  assert (F0 : frame a p p0) by apply frame_set_index.
  assert (Hsp : aget (p_spent p0) a = Some (sum_cost txs)).
  { cbn [p_spent p0 set_index]. rewrite Hsp0, (sum_cost_perm _ _ Hperm). reflexivity. }
  assert (Hix : aget (p_index p0) a = Some txs).
  { cbn [p_index p0 set_index]. rewrite aget_aset, N.eqb_refl. reflexivity. }
  assert (Hnx : nonce_of p0 a = nonce_of p a) by reflexivity.
  destruct txs as [|first tl]; [discriminate|].
  destruct (last_opt (first :: tl)) as [lastm|] eqn:El; [|discriminate].
  set (next := nonce_of p0 a) in *.
  cut (frame a p0 q /\ acct_ok q a /\ rk q a).
  { intros [K1 K2]. split; [eapply frame_trans; eauto | exact K2]. }
  clearbody p0. clear F0 Hsp0 Ei Hne0 Hperm Hnx txs0 p.
  destruct ((next <? m_nonce first) || (m_nonce lastm <? next)) eqn:Egf.
  - (* dangling or filled: everything goes *)
    inv_bind_as H p1. apply fold_core in E.
    2:{ intros m q0 q' Hq. destruct incl as [inc|]; [destruct (m_nonce lastm <? next)|].
        - apply offload_core in Hq. eapply same_core_trans; [|exact Hq]. repeat split.
        - inversion Hq; subst. repeat split.
        - inversion Hq; subst. repeat split. }
    inv_bind_as H p3. apply heap_opt_core in E0. apply store_dels_core in H.
    destruct (del_result a p1 q (same_core_trans _ _ _ E0 H)) as [K1 K2].
    split; [eapply frame_trans; [apply same_core_frame; exact E | exact K1] | exact K2].
  - apply orb_false_iff in Egf. destruct Egf as [Eg Ef]. apply N.ltb_ge in Eg, Ef.
    inv_bind_as H r1. destruct r1 as [txs1 p1].
    assert (R1 : frame a p0 p1 /\ aget (p_index p1) a = Some txs1 /\ aget (p_spent p1) a = Some (sum_cost txs1) /\
                 Forall (fun m => next <= m_nonce m) txs1).
    { destruct (m_nonce first <? next) eqn:Eo.
      - inv_bind_as E pa. inv_bind_as E pb. inversion E; subst txs1 p1. clear E.
        apply Sorted_StronglySorted in Hsorted; [|exact nonce_le_trans].
        destruct (stale_prefix next _ Hsorted) as [Hsplit Hkeep]. cbv zeta in Hsplit, Hkeep.
        set (stale := filter (fun m => m_nonce m <? next) (first :: tl)) in *.
        set (keep := skipn (length stale) (first :: tl)) in *.
        assert (Hd : dec_step a (fun m q0 => do q1 <- unaccount a m q0 ;
                                   match incl with Some inc => offload (m_sid m) inc q1 | None => Ok q1 end)).
        { apply (dec_step_then a (unaccount a) (fun m q1 => match incl with Some inc => offload (m_sid m) inc q1 | None => Ok q1 end)).
          - apply unaccount_dec.
          - intros m q0 q' Hq. destruct incl; [eapply offload_core; eauto | inversion Hq; subst; apply same_core_refl]. }
        assert (Hsum : sum_cost (first :: tl) = sum_cost stale + sum_cost keep) by (rewrite Hsplit at 1; apply sum_cost_app).
        destruct (fold_dec a _ Hd stale p0 pa _ E0 Hsp ltac:(lia)) as [K1 [K2 K3]].
        apply store_dels_core in E1. destruct E1 as [Hi [Hs [Hn Hb]]].
        split; [|split; [|split]].
        + eapply frame_trans; [exact K3|].
          apply (frame_trans a pa pb); [apply same_core_frame; repeat split; assumption | apply frame_set_index].
        + cbn [p_index set_index]. rewrite aget_aset, N.eqb_refl. reflexivity.
        + cbn [p_spent set_index]. rewrite Hs, K1.
          transitivity (Some (sum_cost keep)); [f_equal; lia | reflexivity].
        + exact Hkeep.
      - inversion E; subst txs1 p1. apply N.ltb_ge in Eo. split; [apply frame_refl|]. split; [exact Hix|]. split; [exact Hsp|].
        apply Sorted_StronglySorted in Hsorted; [|exact nonce_le_trans].
        inversion Hsorted as [|? ? _ Hall]; subst. constructor; [exact Eo|].
        eapply Forall_impl; [|exact Hall]. intros m Hm. unfold nonce_le in Hm. lia. }
    clear E. destruct R1 as [F1 [Hix1 [Hsp1 Hge1]]].
    assert (Hn1 : nonce_of p1 a = next) by (unfold next; eapply frame_nonce; eauto).
    destruct txs1 as [|f1 rest1]; [discriminate|].
    cbn [negb andb] in H. inversion Hge1 as [|? ? Hf1 _]; subst.
    destruct (next <? m_nonce f1) eqn:Eg2.
    + (* the repaired gap test *)
      inv_bind_as H q3. apply heap_opt_core in E. apply store_dels_core in H.
      pose proof (fold_untrack_core (f1 :: rest1) p1) as Hq1.
      set (q1 := fold_left (fun q m => untrack m (sub_stored (m_size m) q)) (f1 :: rest1) p1) in *.
      destruct (del_result a q1 q (same_core_trans _ _ _ E H)) as [K1 K2].
      split; [|exact K2]. eapply frame_trans; [exact F1|]. eapply frame_trans; [apply same_core_frame; exact Hq1 | exact K1].
    + apply N.ltb_ge in Eg2. assert (Hf1n : m_nonce f1 = next) by lia.
      inv_bind_as H r2. destruct r2 as [txs2 p2].
      destruct (scan_spec a rest1 (ev_first f1) [ev_first f1] p1 txs2 p2 E) as [S1 [S2 S3]].
      { rewrite Hsp1. f_equal. rewrite !sum_cost_cons. change (sum_cost []) with 0.
        change (m_cost (ev_first f1)) with (m_cost f1). lia. }
      pose proof (recheck_scan_chain _ _ _ _ _ _ _ E (chain_one _) eq_refl) as Hch2.
      assert (Hr2 : rolling None txs2).
      { eapply scan_rolling; [exact E | | reflexivity]. apply roll_first; [symmetry; apply ev_first_idem | constructor]. }
      destruct (recheck_scan_prefix _ _ _ _ _ _ _ E) as [k2 Hk2].
      set (p2' := set_index (aset (p_index p2) a txs2) p2) in *.
      assert (F2 : frame a p0 p2').
      { eapply frame_trans; [exact F1|]. eapply frame_trans; [exact S3 | apply frame_set_index]. }
      assert (Hix2 : aget (p_index p2') a = Some txs2) by (cbn [p_index p2' set_index]; rewrite aget_aset, N.eqb_refl; reflexivity).
      assert (Hsp2 : aget (p_spent p2') a = Some (sum_cost txs2)) by exact S1.
      assert (Hst2 : starts next txs2) by (rewrite Hk2; cbn; exact Hf1n).
      assert (Hne2 : txs2 <> []) by (rewrite Hk2; discriminate).
      clearbody p2'. clear E S1 S2 S3 p2 Hix1 Hsp1 F1 Hn1 p1.
      inv_bind_as H r3. destruct r3 as [txs3 p3].
      assert (R3 : frame a p0 p3 /\
                   ((aget (p_index p3) a = None /\ aget (p_spent p3) a = None /\ txs3 = []) \/
                    (txs3 <> [] /\ aget (p_index p3) a = Some txs3 /\ aget (p_spent p3) a = Some (sum_cost txs3) /\
                     sum_cost txs3 <= bal_of p0 a /\ exists k, txs2 = txs3 ++ k))).
      { assert (Hb2 : bal_of p2' a = bal_of p0 a) by (eapply frame_bal; eauto).
        destruct (bal_of p2' a <? spent_of p2' a) eqn:Eo.
        - inv_bind_as E r. destruct r as [[txs3' ids] q0].
          destruct (pop_spec a _ _ _ _ _ _ _ _ E0 Hsp2) as [P1 [P2 [P3 [[k P4] P5]]]].
          apply N.ltb_ge in P5. unfold spent_of in P5. rewrite P1 in P5.
          inv_bind_as E q1. inv_bind_as E q2. inversion E; subst txs3 p3. clear E.
          apply store_dels_core in E2.
          destruct txs3' as [|x3 r3].
          + destruct (del_result a q0 q2) as [K1 [K2 _]].
            { eapply same_core_trans; [|exact E2]. destruct incl; [eapply heap_remove_core; eauto | inversion E1; subst; apply same_core_refl]. }
            split; [eapply frame_trans; [exact F2|]; eapply frame_trans; [exact P3 | exact K1]|].
            left. unfold acct_ok in K2. destruct (aget (p_index q2) a) eqn:Eq.
            * exfalso. destruct E2 as [Hi _]. destruct incl.
              -- apply heap_remove_core in E1. destruct E1 as [Hi1 _]. rewrite Hi, Hi1 in Eq.
                 cbn [p_index set_index set_spent] in Eq. rewrite aget_adel, N.eqb_refl in Eq. discriminate.
              -- inversion E1; subst. rewrite Hi in Eq.
                 cbn [p_index set_index set_spent] in Eq. rewrite aget_adel, N.eqb_refl in Eq. discriminate.
            * split; [reflexivity|]. split; [exact K2 | reflexivity].
          + inversion E1; subst q1. clear E1. destruct E2 as [Hi [Hs [Hn Hb]]].
            split.
            * eapply frame_trans; [exact F2|]. eapply frame_trans; [exact P3|].
              apply (frame_trans a q0 (set_index (aset (p_index q0) a (x3 :: r3)) q0));
                [apply frame_set_index | apply same_core_frame; repeat split; assumption].
            * right. split; [discriminate|]. split; [rewrite Hi; cbn [p_index set_index]; rewrite aget_aset, N.eqb_refl; reflexivity|].
              split; [rewrite Hs; exact P1|]. split; [|exists k; exact P4].
              rewrite <- Hb2. exact P5.
        - inversion E; subst txs3 p3. apply N.ltb_ge in Eo. unfold spent_of in Eo. rewrite Hsp2 in Eo.
          split; [exact F2|]. right. split; [exact Hne2|]. split; [exact Hix2|]. split; [exact Hsp2|].
          split; [rewrite <- Hb2; exact Eo | exists []; rewrite app_nil_r; reflexivity]. }
      clear E. destruct R3 as [F3 R3].
      (* per-account cap, final heap fix *)
      assert (Hfin : forall r4, same_core p3 r4 ->
                match incl with Some _ => if ahas (p_index r4) a then heap_fix_addr prioE prioB r4 a else Ok r4 | None => Ok r4 end = Ok q ->
                same_core p3 q).
      { intros r4 Hc Hq. destruct incl; [destruct (ahas (p_index r4) a)|].
        - eapply same_core_trans; [exact Hc | eapply heap_fix_core; eauto].
        - inversion Hq; subst. exact Hc.
        - inversion Hq; subst. exact Hc. }
      destruct R3 as [[Hi3 [Hs3 Ht3]] | [Hne3 [Hi3 [Hs3 [Hle3 [k3 Hk3]]]]]].
      * subst txs3. cbn [length Nat.ltb Nat.leb maxTxsPerAccount] in H. cbn [bind] in H.
        pose proof (Hfin p3 (same_core_refl _) H) as [Hi [Hs [Hn Hb]]].
        split; [eapply frame_trans; [exact F3 | apply same_core_frame; repeat split; assumption]|].
        split; [unfold acct_ok; rewrite Hi, Hs, Hi3; exact Hs3 | apply rk_none; rewrite Hi; exact Hi3].
      * assert (Hch3 : chain txs3) by (rewrite Hk3 in Hch2; eapply chain_app_l; eauto).
        assert (Hst3 : starts next txs3) by (rewrite Hk3 in Hst2; eapply starts_app; eauto).
        assert (Hr3 : rolling None txs3) by (rewrite Hk3 in Hr2; eapply rolling_app_l; eauto).
        destruct (Nat.ltb maxTxsPerAccount (length txs3)) eqn:Ecap.
        -- inv_bind_as H r4. inv_bind_as E r. destruct r as [[txs4 ids] q0]. inv_bind_as E q2. inversion E; subst r4. clear E.
           destruct (pop_spec a _ _ _ _ _ _ _ _ E0 Hs3) as [P1 [P2 [P3 [[k P4] P5]]]].
           apply Nat.ltb_lt in Ecap.
           pose proof (pop_len a _ _ _ _ _ _ _ E0 ltac:(lia)) as Hl4.
           apply store_dels_core in E1.
           assert (Hq : same_core q2 q).
           { destruct incl; [destruct (ahas (p_index q2) a)|].
             - eapply heap_fix_core; eauto.
             - inversion H; subst. apply same_core_refl.
             - inversion H; subst. apply same_core_refl. }
           pose proof (same_core_trans _ _ _ E1 Hq) as [Hi [Hs [Hn Hb]]].
           split; [|split].
           ++ eapply frame_trans; [exact F3|]. eapply frame_trans; [exact P3|].
              apply (frame_trans a q0 (set_index (aset (p_index q0) a txs4) q0));
                [apply frame_set_index | apply same_core_frame; repeat split; assumption].
           ++ unfold acct_ok. rewrite Hi, Hs. cbn [p_index p_spent set_index]. rewrite aget_aset, N.eqb_refl.
              assert (Hne4 : txs4 <> []) by (intro; subst; cbn in Hl4; unfold maxTxsPerAccount in Hl4; lia).
              assert (Hsum : sum_cost txs3 = sum_cost txs4 + sum_cost k) by (rewrite P4; apply sum_cost_app).
              split; [exact Hne4|]. split; [rewrite P4 in Hch3; eapply chain_app_l; eauto|].
              split; [|split].
              ** unfold nonce_of. rewrite Hn. fold (nonce_of (set_index (aset (p_index q0) a txs4) q0) a).
                 change (nonce_of (set_index (aset (p_index q0) a txs4) q0) a) with (nonce_of q0 a).
                 rewrite (frame_nonce _ _ _ a P3), (frame_nonce _ _ _ a F3). rewrite P4 in Hst3. eapply starts_app; eauto.
              ** exact P1.
              ** unfold bal_of. rewrite Hb. fold (bal_of (set_index (aset (p_index q0) a txs4) q0) a).
                 change (bal_of (set_index (aset (p_index q0) a txs4) q0) a) with (bal_of q0 a).
                 rewrite (frame_bal _ _ _ a P3), (frame_bal _ _ _ a F3). lia.
           ++ intros l Hl. rewrite Hi in Hl. cbn [p_index set_index] in Hl. rewrite aget_aset, N.eqb_refl in Hl.
              inversion Hl; subst l. rewrite P4 in Hr3. eapply rolling_app_l; eauto.
        -- cbn [bind] in H. pose proof (Hfin p3 (same_core_refl _) H) as [Hi [Hs [Hn Hb]]].
           split; [eapply frame_trans; [exact F3 | apply same_core_frame; repeat split; assumption]|].
           split; [|intros l Hl; rewrite Hi, Hi3 in Hl; inversion Hl; subst l; exact Hr3].
           unfold acct_ok, nonce_of, bal_of. rewrite Hi, Hs, Hn, Hb, Hi3.
           fold (nonce_of p3 a). fold (bal_of p3 a). rewrite (frame_nonce _ _ _ a F3), (frame_bal _ _ _ a F3).
           repeat split; assumption.
Qed.
End Recheck.

(* ------------------------------------------------------------------ reinject *)
Lemma wf_acct_frame a p q a2 : frame a p q -> a2 <> a -> wf_acct p a2 -> wf_acct q a2.
Proof.
  intros [Hf _] Ha H. unfold wf_acct in *. destruct (Hf a2 Ha) as [Hi Hs]. rewrite Hi, Hs. exact H.
Qed.
Lemma wf_acct_core p q a : same_core p q -> wf_acct p a -> wf_acct q a.
Proof. intros [Hi [Hs _]] H. unfold wf_acct in *. rewrite Hi, Hs. exact H. Qed.
Lemma acct_ok_core p q a : same_core p q -> acct_ok p a -> acct_ok q a.
Proof. intros [Hi [Hs [Hn Hb]]] H. unfold acct_ok, nonce_of, bal_of in *. rewrite Hi, Hs, Hn, Hb. exact H. Qed.

Lemma reinject_wf a h p q : reinject a h p = Ok q -> wf_acct p a -> frame a p q /\ wf_acct q a.
Proof.
  unfold reinject. intros H Hwf. inv_bind_as H r.
  set (p1 := set_limbo (fst r) p) in *.
  assert (C1 : same_core p p1) by repeat split.
  destruct (snd r) as [t|].
  2:{ inversion H; subst. split; [apply same_core_frame; exact C1 | eapply wf_acct_core; eauto]. }
  destruct (billy_put (p_store p1) (t_shelf t) (mkItem t 0)) as [[b id]|].
  2:{ inversion H; subst. split; [apply same_core_frame; exact C1 | eapply wf_acct_core; eauto]. }
  set (p2 := set_store b p1) in *.
  assert (C2 : same_core p p2) by repeat split.
  pose proof (wf_acct_core _ _ a C2 Hwf) as Hwf2. clearbody p2. clear C1 p1 E r.
  set (m := mkMeta t id 0 0 0) in *.
  inv_bind_as H p3. inversion H; subst q. clear H.
  cut (frame a p2 p3 /\ wf_acct p3 a).
  { intros [K1 K2]. split.
    - eapply frame_trans; [apply same_core_frame; exact C2|]. eapply frame_trans; [exact K1|]. apply same_core_frame. repeat split.
    - eapply wf_acct_core; [|exact K2]. repeat split. }
  unfold wf_acct in Hwf2. destruct (aget (p_index p2) a) as [l|] eqn:Ei.
  - destruct Hwf2 as [Hne Hsp]. apply add_spent_get in E. destruct E as [s [E1 [E2 [E3 [E4 E5]]]]].
    cbn [p_spent p_index p_nonce p_bal set_index] in *. rewrite Hsp in E1. inversion E1; subst s.
    split.
    + split; [|split; assumption]. intros a2 Ha. rewrite E2, E3, !aget_aset, (neq_eqb _ _ Ha). split; reflexivity.
    + unfold wf_acct. rewrite E3, E2, !aget_aset, N.eqb_refl. split; [destruct l; discriminate|].
      rewrite sum_cost_app. change (sum_cost [m]) with (t_cost t + 0). f_equal. lia.
  - destruct (t_cost t <? two256); [|discriminate]. inversion E; subst p3. split.
    + split; [|split; reflexivity]. intros a2 Ha. cbn [p_index p_spent set_index set_spent set_heap].
      rewrite !aget_aset, (neq_eqb _ _ Ha). split; reflexivity.
    + unfold wf_acct. cbn [p_index p_spent set_index set_spent set_heap]. rewrite !aget_aset, N.eqb_refl.
      split; [discriminate|]. change (sum_cost [m]) with (t_cost t + 0). f_equal. lia.
Qed.

Lemma fold_reinject a (f : btx -> bool) : forall l p q,
  fold_left (fun r2 t => do x <- r2 ; if f t then reinject a (bt_id t) x else Ok x) l (Ok p) = Ok q ->
  wf_acct p a -> frame a p q /\ wf_acct q a.
Proof.
  induction l as [|t r IH]; intros p q H Hwf; cbn [fold_left] in H.
  - inversion H; subst. split; [apply frame_refl | exact Hwf].
  - cbn [bind] in H. destruct (if f t then reinject a (bt_id t) p else Ok p) as [p1|e] eqn:E.
    2:{ rewrite fold_err in H; [discriminate | intros; reflexivity]. }
    assert (K : frame a p p1 /\ wf_acct p1 a).
    { destruct (f t); [eapply reinject_wf; eauto | inversion E; subst; split; [apply frame_refl | exact Hwf]]. }
    destruct K as [K1 K2]. destruct (IH p1 q H K2) as [L1 L2]. split; [eapply frame_trans; eauto | exact L2].
Qed.

(* ------------------------------------------------------------------ Reset *)
Lemma evict_gapped_core p : same_core p (evict_gapped p) /\ p_head (evict_gapped p) = p_head p.
Proof.
  assert (G : forall {B} (g : pool -> B -> pool),
             (forall q x, same_core q (g q x) /\ p_head (g q x) = p_head q) ->
             forall l p0, same_core p0 (fold_left g l p0) /\ p_head (fold_left g l p0) = p_head p0).
  { intros B g Hg. induction l as [|x r IH]; intro p0; cbn [fold_left]; [split; [apply same_core_refl | reflexivity]|].
    destruct (IH (g p0 x)) as [I1 I2]. destruct (Hg p0 x) as [G1 G2].
    split; [eapply same_core_trans; eauto | congruence]. }
  unfold evict_gapped. apply G. intros q [from txs]. split; [repeat split | reflexivity].
Qed.

Section Reset.
Variable prioE prioB : N -> N -> Z.
Variable nearE nearB : N -> N -> bool.

Lemma heap_reinit_core p base blob force q :
  heap_reinit prioE prioB nearE nearB p base blob force = Ok q -> same_core p q.
Proof.
  unfold heap_reinit. destruct (negb force && nearE (p_hbase p) base && nearB (p_hblob p) blob); intro H.
  - inversion H; subst. apply same_core_refl.
  - inv_bind_as H h. inversion H; subst. repeat split.
Qed.

(* the per-transactor step of Reset: reinject what the reorg lost, then recheck *)
Lemma reset_account (a : N) (f : btx -> bool) (inc : list btx) (p q q1 : pool) :
  fold_left (fun r2 t => do x <- r2 ; if f t then reinject a (bt_id t) x else Ok x) inc (Ok p) = Ok q1 ->
  forall incl, recheck prioE prioB false a incl q1 = Ok q ->
  wf_acct p a -> frame a p q /\ acct_ok q a.
Proof.
  intros H1 incl H2 Hwf. destruct (fold_reinject a f inc p q1 H1 Hwf) as [K1 K2].
  destruct (recheck_ok prioE prioB a incl q1 q H2 K2) as [L1 [L2 _]]. split; [eapply frame_trans; eauto | exact L2].
Qed.

(* chain consistency of a Reset: the reorg is not skipped (|oldNum - newNum| <= 64 and no
   missing parent), and an account without a transaction on either branch keeps its nonce
   and does not lose balance *)
Definition reset_guard (bs : list block) (newh : block) (p : pool) : Prop :=
  exists oldh ro, get_block bs (p_head p) = Some oldh /\ reorg bs oldh newh = Some ro /\
    forall a, ~ In a (ro_transactors ro) ->
      match aget (b_nonce newh) a with Some n => n | None => 0 end = nonce_of p a /\
      bal_of p a <= match aget (b_bal newh) a with Some n => n | None => 0 end.

Lemma reset_inv ll bs newh final p q :
  Inv p -> reset_guard bs newh p ->
  pool_reset prioE prioB nearE nearB false ll bs newh final p = Ok q -> Inv q.
Proof.
  intros HI [oldh [ro [Hg [Hr Hna]]]] H. unfold pool_reset in H.
  destruct (evict_gapped_core p) as [C0 Hh]. rewrite Hh, Hg in H. cbv zeta in H. rewrite Hr in H.
  set (pa := evict_gapped p) in *.
  set (pb := set_state (b_nonce newh) (b_bal newh) (b_id newh) pa) in *.
  assert (Hwf : forall a, wf_acct pb a).
  { intro a. pose proof (acct_ok_wf pa a (acct_ok_core _ _ a C0 (HI a))) as W. exact W. }
  assert (Hok : forall a, ~ In a (ro_transactors ro) -> acct_ok pb a).
  { intros a Ha. destruct (Hna a Ha) as [Hn Hb]. pose proof (acct_ok_core _ _ a C0 (HI a)) as Hp.
    destruct C0 as [_ [_ [Cn Cb]]].
    unfold acct_ok in *. cbn [p_index p_spent pb set_state].
    destruct (aget (p_index pa) a) as [l|]; [|exact Hp].
    destruct Hp as [P1 [P2 [P3 [P4 P5]]]].
    assert (Hn' : nonce_of pb a = nonce_of pa a).
    { unfold nonce_of at 1. cbn [p_nonce pb set_state]. rewrite Hn. unfold nonce_of. rewrite Cn. reflexivity. }
    assert (Hb' : bal_of pa a <= bal_of pb a).
    { unfold bal_of at 2. cbn [p_bal pb set_state]. unfold bal_of at 1. rewrite Cb. exact Hb. }
    rewrite Hn'. repeat split; try assumption. lia. }
  clearbody pb. clear HI Hna Hg Hh C0 pa p.
  inv_bind_as H p1. inv_bind_as E l. inv_bind_as H l2.
  apply heap_reinit_core in H. eapply inv_same_core; [|exact H].
  eapply inv_same_core with (p := p1); [|repeat split]. clear H E1 l2 q.
  set (pc := set_limbo l pb) in *.
  assert (Hwfc : forall a, wf_acct pc a) by (intro a; eapply wf_acct_core; [|apply Hwf]; repeat split).
  assert (Hokc : forall a, ~ In a (ro_transactors ro) -> acct_ok pc a)
    by (intros a Ha; eapply acct_ok_core; [|apply Hok; exact Ha]; repeat split).
  clearbody pc. clear Hwf Hok E0 l pb.
  revert pc Hwfc Hokc E. generalize (ro_transactors ro) as rem.
  induction rem as [|a0 rem IH]; intros x Hwf Hok H; cbn [fold_left] in H.
  - inversion H; subst. intro a. apply Hok. intro K; exact K.
  - cbn [bind] in H.
    match type of H with fold_left ?F rem ?X = _ => destruct X as [x2|e] eqn:Ex end.
    2:{ rewrite fold_err in H; [discriminate | intros; reflexivity]. }
    inv_bind_as Ex x1.
    destruct (reset_account a0 _ _ x x2 x1 E (Some (inclusions_of (ro_incl ro))) Ex (Hwf a0)) as [F A0].
    eapply IH; [| |exact H].
    + intro a. destruct (N.eq_dec a a0) as [->|Ha]; [apply acct_ok_wf; exact A0 | eapply wf_acct_frame; eauto].
    + intros a Ha. destruct (N.eq_dec a a0) as [->|Hne]; [exact A0|].
      eapply acct_ok_frame; [exact F | exact Hne|]. apply Hok. intros [K|K]; [congruence | exact (Ha K)].
Qed.
End Reset.
