(* Pool/LegacyInv7.v — after a Reset cycle every pending list starts at the state nonce of the new head. *)
From GV Require Import Lib.Tactics Pool.Legacy Pool.LegacyProofs Pool.LegacyInv Pool.LegacyInv2 Pool.LegacyInv3 Pool.LegacyInv4 Pool.LegacyInv5 Pool.LegacyInv6.
From Coq Require Import Sorting.Sorted.
Local Open Scope N_scope.

(* pending_front_gapless: no pending nonce below the state nonce, and a non-empty pending list contains it *)
Definition front_at (s : pool) (a : N) : Prop :=
  (forall x, in_opt x (p_pending s a) -> ch_nonce (p_chain s) a <= t_nonce x) /\
  ((exists x, in_opt x (p_pending s a)) -> exists x, in_opt x (p_pending s a) /\ t_nonce x = ch_nonce (p_chain s) a).
Definition Front (s : pool) : Prop := forall a, front_at s a.

Lemma demote_fold_front : forall accts st0 s (done : list N), RS st0 s -> (forall a, In a done -> front_at s a) ->
  forall a, In a (done ++ accts) -> front_at (fold_left (fun s a => demote_one a s) accts s) a.
Proof.
  induction accts as [|a accts IH]; intros st0 s done R Hd; cbn [fold_left].
  - intros b Hb. rewrite app_nil_r in Hb. apply Hd, Hb.
  - destruct R as [S1 [C1 Ch1]]. destruct (demote_one_RS a s S1) as [[S2 [C2 Ch2]] [Ho [_ [_ [Hlow [Hcont _]]]]]].
    intros b Hb. apply (IH st0 (demote_one a s) (done ++ [a])).
    + split; [exact S2 | split; congruence].
    + intros c Hc. unfold front_at. rewrite Ch2. destruct (N.eq_dec c a) as [->|Hne].
      * split; [exact Hlow|]. intros [x Hx]. destruct (p_pending (demote_one a s) a) as [l|] eqn:El; [|destruct Hx].
        destruct (Hcont l eq_refl) as [y [Hy1 Hy2]]. exists y. split; assumption.
      * apply in_app_iff in Hc. destruct Hc as [Hc|[Hc|[]]]; [|congruence]. rewrite (Ho c Hne). apply (Hd c Hc).
    + rewrite <- app_assoc. exact Hb.
Qed.

Lemma demote_unexecutables_Front : forall st, SInv st -> Front (demote_unexecutables st).
Proof.
  intros st HS b. destruct (demote_unexecutables_RS st HS) as [[S' [C' _]] _].
  unfold demote_unexecutables in *.
  destruct (p_pending (fold_left (fun s a => demote_one a s) (c_accts (p_cfg st)) st) b) as [l|] eqn:El.
  - destruct (s_pw _ S' b l El) as [_ Hb]. rewrite C' in Hb.
    apply (demote_fold_front (c_accts (p_cfg st)) st st [] (RS_refl _ HS) (fun a H => match H with end) b Hb).
  - unfold front_at. rewrite El. split; [intros x [] | intros [x []]].
Qed.

(* the lowest nonce of a sorted list sits at its head *)
Lemma sorted_min_head : forall h r y, sorted (h :: r) -> In y (h :: r) ->
  (forall x, In x (h :: r) -> t_nonce y <= t_nonce x) -> y = h.
Proof.
  intros h r y Hs Hy Hmin. destruct Hy as [->|Hy]; [reflexivity|]. apply StronglySorted_inv in Hs. destruct Hs as [_ Hf].
  rewrite Forall_forall in Hf. pose proof (Hf y Hy) as Hlt. unfold nlt in Hlt. pose proof (Hmin h (or_introl eq_refl)). lia.
Qed.

Lemma trunc_one_Front : forall a st, SInv st -> Front st -> Front (trunc_one a st).
Proof.
  intros a st HS HF b. destruct (trunc_one_RS a st HS) as [_ [_ Ch]]. pose proof (trunc_one_PSub a st) as Hsub.
  destruct (HF b) as [Hlow Hcont]. unfold front_at. rewrite Ch. split; [intros x Hx; apply Hlow, Hsub, Hx|].
  intros [x Hx]. destruct (Hcont (ex_intro _ x (Hsub b x Hx))) as [y [Hy1 Hy2]]. exists y. split; [|exact Hy2].
  (* y, the tx with the state nonce, survives the cap because it is the head of the list *)
  unfold trunc_one in *. destruct (p_pending st a) as [l|] eqn:Ep; [|exact Hy1].
  destruct (list_cap (Nat.pred (l_len l)) l) as [caps l'] eqn:Ec.
  pose proof (core_priced_removed (length caps) (fold_left (fun s t => pn_set_if_lower a (t_nonce t) (all_remove t s)) caps (put_pending a l' st))) as Hc.
  core_inv Hc. rewrite Epend in *.
  rewrite (fold_pend_same (fun s t => pn_set_if_lower a (t_nonce t) (all_remove t s))) in *;
    try (intros s t; pose proof (core_pn_set_if_lower a (t_nonce t) (all_remove t s)) as Hc2; core_inv Hc2; rewrite Epend0; apply pend_all_remove).
  rewrite pend_put_pending in *. unfold upd in *. destruct (b =? a) eqn:E; [|exact Hy1].
  apply N.eqb_eq in E. subst b. rewrite Ep in Hy1, Hlow. cbn [in_opt] in *.
  destruct (s_pw _ HS a l Ep) as [Lp _]. pose proof (lw_sorted _ (lk_wf _ _ _ _ Lp)) as Hso.
  unfold list_cap, sm_cap in Ec. destruct (Nat.leb (length (l_txs l)) (Nat.pred (l_len l))); inversion Ec; subst; cbn [with_txs l_txs] in *; [exact Hy1|].
  destruct (l_txs l) as [|h r] eqn:El; [destruct Hy1|].
  assert (y = h) by (apply (sorted_min_head h r y Hso Hy1); intros z Hz; rewrite Hy2; apply Hlow, Hz). subst y.
  destruct (Nat.pred (l_len l)) as [|k]; [destruct Hx | left; reflexivity].
Qed.

(* truncatePending keeps every property that one fairness step keeps *)
Section TruncPres.
  Variable Q : pool -> Prop.
  Hypothesis Q_one : forall a s, SInv s -> Q s -> Q (trunc_one a s).
  Hypothesis Q_fuel : forall s, Q s -> Q (set_fuel s).

  Let SQ (s : pool) : Prop := SInv s /\ Q s.

  Lemma tp_fold : forall offs p st, SQ st -> SQ (snd (fold_left (fun '(p, s) a => (Nat.pred p, trunc_one a s)) offs (p, st))).
  Proof.
    induction offs as [|a offs IH]; intros p st [S1 Q1]; cbn [fold_left snd]; [split; assumption|].
    apply IH. split; [apply (trunc_one_RS a st S1) | apply Q_one; assumption].
  Qed.
  Lemma tp_equalize : forall fuel g offs lb th p st, SQ st -> SQ (snd (trunc_equalize fuel g offs lb th p st)).
  Proof.
    induction fuel as [|k IH]; intros g offs lb th p st [S1 Q1]; cbn [trunc_equalize].
    - cbn [snd]. split; [eapply SInv_core; [apply core_set_fuel | exact S1] | apply Q_fuel, Q1].
    - destruct (_ && _); [|split; assumption].
      pose proof (tp_fold offs p st (conj S1 Q1)) as H1.
      destruct (fold_left (fun '(p0, s) a => (Nat.pred p0, trunc_one a s)) offs (p, st)) as [p' st']. apply IH, H1.
  Qed.
  Lemma tp_phase1 : forall fuel g sp offs p st, SQ st -> SQ (snd (trunc_phase1 fuel g sp offs p st)).
  Proof.
    intros fuel g sp. induction sp as [|[n off] rest IH]; intros offs p st H; cbn [trunc_phase1]; [exact H|].
    destruct (Nat.ltb g p); [|exact H]. destruct (rev offs) as [|lb r]; [apply IH, H|].
    pose proof (tp_equalize fuel g offs lb (pending_len off st) p st H) as H1.
    destruct (trunc_equalize fuel g offs lb (pending_len off st) p st) as [p' st']. apply IH, H1.
  Qed.
  Lemma tp_phase2 : forall fuel g a offs lo p st, SQ st -> SQ (snd (trunc_phase2 fuel g a offs lo p st)).
  Proof.
    induction fuel as [|k IH]; intros g a offs lo p st [S1 Q1]; cbn [trunc_phase2].
    - cbn [snd]. split; [eapply SInv_core; [apply core_set_fuel | exact S1] | apply Q_fuel, Q1].
    - destruct (_ && _); [|split; assumption].
      pose proof (tp_fold offs p st (conj S1 Q1)) as H1.
      destruct (fold_left (fun '(p0, s) a0 => (Nat.pred p0, trunc_one a0 s)) offs (p, st)) as [p' st']. apply IH, H1.
  Qed.
  Lemma truncate_pending_pres : forall st, SInv st -> Q st -> Q (truncate_pending st).
  Proof.
    intros st S1 Q1. unfold truncate_pending. destruct (Nat.leb _ _); [exact Q1|].
    match goal with |- context [trunc_phase1 ?f ?g ?sp ?o ?p ?s] =>
      pose proof (tp_phase1 f g sp o p s (conj S1 Q1)) as H1; destruct (trunc_phase1 f g sp o p s) as [[offenders p1] st1] end.
    cbn [snd] in H1. destruct (rev offenders) as [|lo r]; [apply H1|]. destruct (Nat.ltb _ p1); [|apply H1].
    apply (tp_phase2 _ _ _ _ _ _ _ H1).
  Qed.
End TruncPres.

Lemma Front_core : forall s s', core s' = core s -> Front s -> Front s'.
Proof. intros s s' Hc HF a. core_inv Hc. unfold front_at. rewrite Epend, Echain. apply HF. Qed.

(* after the Reset cycle, for every pair of heads and every structurally consistent pool *)
Lemma run_reorg_reset_Front : forall blocks old new st, SInv st -> blocks_ok (p_cfg st) blocks old new ->
  Front (run_reorg_reset blocks old new st).
Proof.
  intros blocks old new st HS Hok. unfold run_reorg_reset.
  destruct (pool_reset_RC blocks old new st HS Hok) as [S1 _].
  set (st1 := pool_reset blocks old new st) in *.
  pose proof (promote_executables_RS (queue_addresses st1) st1 S1) as [S2 _].
  set (st2 := promote_executables (queue_addresses st1) st1) in *.
  destruct (demote_unexecutables_RS st2 S2) as [[S3 _] P3]. pose proof (demote_unexecutables_Front st2 S2) as F3.
  set (st3 := demote_unexecutables st2) in *.
  set (st4 := priced_set_basefee (b_basefee new) st3).
  assert (S4 : SInv st4) by (eapply SInv_core; [apply core_priced_set_basefee | exact S3]).
  assert (F4 : Front st4) by exact F3.
  assert (P4 : forall a, pne_at st4 a) by (intros a l Hl; apply (P3 a l Hl)).
  destruct (set_all_nonces_RC st4 S4 P4) as [[S5 _] [Ch5 M5]].
  set (st5 := set_all_nonces st4) in *.
  assert (F5 : Front st5).
  { intros a. destruct (F4 a) as [Hl Hc]. unfold front_at. rewrite Ch5. split; [intros x Hx; apply Hl, M5, Hx|].
    intros [x Hx]. destruct (Hc (ex_intro _ x (proj1 (M5 a x) Hx))) as [y [Hy1 Hy2]]. exists y. split; [apply M5, Hy1 | exact Hy2]. }
  pose proof (truncate_pending_pres Front trunc_one_Front (fun s H => Front_core _ _ (core_set_fuel s) H) st5 S5 F5) as F6.
  pose proof (truncate_pending_RS st5 S5) as [S6 _].
  destruct (truncate_queue_SInv _ S6) as [_ [_ [Ch7 P7]]].
  intros a. unfold front_at.
  change (p_pending (set_changes (truncate_queue (truncate_pending st5)) 0)) with (p_pending (truncate_queue (truncate_pending st5))).
  change (p_chain (set_changes (truncate_queue (truncate_pending st5)) 0)) with (p_chain (truncate_queue (truncate_pending st5))).
  rewrite P7, Ch7. apply F6.
Qed.
