(* Pool/BlobReopenProofs.v — the pool-side half of "reopening after a clean shutdown reproduces the
   pool": recheck, as Init runs it, returns a well-formed account exactly as it was (same
   transactions in the same order, same store ids, eviction fields recomputed to the prefix
   minima, same spent), whatever order the store hands the entries back in, as long as their
   nonce-sorted list is the well-formed list. *)
From Coq Require Import List NArith ZArith Bool Lia Sorted.
From GV Require Import Lib.Tactics Pool.Blob Pool.BlobProofs Pool.BlobAddProofs Pool.BlobRollingProofs Pool.BlobResetProofs.
Import ListNotations.
Local Open Scope N_scope.

(* on consecutive nonces the threshold loop keeps everything and touches nothing *)
Lemma scan_keeps_all a : forall rest prev acc p,
  chain (prev :: rest) ->
  recheck_scan a prev rest acc p = Ok (acc ++ reev (Some prev) rest 0, p).
Proof.
  induction rest as [|m r IH]; intros prev acc p Hc; cbn [recheck_scan reev].
  - rewrite app_nil_r. reflexivity.
  - inversion Hc as [| |? ? ? Hn Hc']; subst.
    assert (E : (m_nonce m =? wrap64 (m_nonce prev + 1)) = true) by (apply N.eqb_eq; exact Hn).
    rewrite E. rewrite (IH (ev_next prev m) (acc ++ [ev_next prev m]) p).
    + rewrite <- app_assoc. reflexivity.
    + destruct r as [|m2 r2]; [constructor|]. inversion Hc' as [| |? ? ? Hn2 Hc2]; subst.
      constructor; [exact Hn2 | exact Hc2].
Qed.

Lemma last_opt_some {A} (l : list A) : l <> [] -> exists x, last_opt l = Some x /\ In x l.
Proof.
  intro H. destruct (removelast_app_last l H) as [x [E Hl]]. exists x. split; [exact Hl|].
  rewrite E. apply in_or_app. right. left. reflexivity.
Qed.

Section Reopen.
Variable prioE prioB : N -> N -> Z.

(* recheck as Init calls it (no inclusions): if the nonce-sorted entries of the account form a
   well-formed list s — consecutive, starting at the state nonce, affordable, within the cap —
   then recheck succeeds and leaves exactly s with recomputed eviction fields; nothing is dropped *)
Lemma recheck_keeps_wellformed a p l0 first tl :
  aget (p_index p) a = Some l0 ->
  sort_metas l0 = first :: tl ->
  chain (first :: tl) -> m_nonce first = nonce_of p a ->
  aget (p_spent p) a = Some (sum_cost l0) -> sum_cost l0 <= bal_of p a ->
  (length (first :: tl) <= maxTxsPerAccount)%nat ->
  recheck prioE prioB false a None p =
  Ok (set_index (aset (aset (p_index p) a (first :: tl)) a (reev None (first :: tl) 0)) p).
Proof.
  intros Hix Hs Hc Hst Hsp Hle Hcap. unfold recheck. rewrite Hix. cbv zeta. rewrite Hs.
  destruct (last_opt_some (first :: tl)) as [lastm [El Hin]]; [discriminate|]. rewrite El.
  set (p0 := set_index (aset (p_index p) a (first :: tl)) p).
  assert (Hn0 : nonce_of p0 a = m_nonce first) by (symmetry; exact Hst).
  destruct (sort_metas_spec l0) as [Hsorted Hperm]. rewrite Hs in Hsorted, Hperm.
  assert (Hlast : m_nonce first <= m_nonce lastm).
  { apply Sorted_StronglySorted in Hsorted; [|exact nonce_le_trans].
    inversion Hsorted as [|? ? _ Hall]; subst. destruct Hin as [<-|Hin]; [lia|].
    rewrite Forall_forall in Hall. exact (Hall _ Hin). }
  assert (B1 : ((nonce_of p0 a <? m_nonce first) || (m_nonce lastm <? nonce_of p0 a)) = false).
  { rewrite Hn0. apply orb_false_iff. split; apply N.ltb_ge; lia. }
  rewrite B1.
  assert (B2 : (m_nonce first <? nonce_of p0 a) = false) by (rewrite Hn0; apply N.ltb_irrefl).
  rewrite B2. cbn [bind negb andb].
  assert (B3 : (nonce_of p0 a <? m_nonce first) = false) by (rewrite Hn0; apply N.ltb_irrefl).
  rewrite B3.
  rewrite (scan_keeps_all a tl (ev_first first) [ev_first first] p0).
  2:{ destruct tl as [|m2 r2]; [constructor|]. inversion Hc as [| |? ? ? Hn2 Hc2]; subst. constructor; assumption. }
  cbn [bind app].
  set (txs2 := ev_first first :: reev (Some (ev_first first)) tl 0).
  set (p2 := set_index (aset (p_index p0) a txs2) p0).
  assert (Hcost : sum_cost (first :: tl) = sum_cost l0) by (symmetry; apply sum_cost_perm; exact Hperm).
  assert (B4 : (bal_of p2 a <? spent_of p2 a) = false).
  { apply N.ltb_ge. unfold spent_of. cbn [p_spent p2 p0 set_index]. rewrite Hsp. exact Hle. }
  rewrite B4. cbn [bind].
  assert (Hlen : length txs2 = length (first :: tl)).
  { unfold txs2. cbn [length]. f_equal. clear. generalize (Some (ev_first first)). induction tl as [|m r IH]; intro o; cbn; [reflexivity|]. f_equal. apply IH. }
  assert (B5 : Nat.ltb maxTxsPerAccount (length txs2) = false) by (apply Nat.ltb_ge; rewrite Hlen; exact Hcap).
  rewrite B5. cbn [bind]. reflexivity.
Qed.
End Reopen.

(* the eviction fields are determined by the transactions: two lists with the same transactions
   and store ids that both carry prefix minima are equal *)
Lemma rolling_unique : forall l l' o,
  rolling o l -> rolling o l' -> map m_tx l = map m_tx l' -> map m_sid l = map m_sid l' -> l = l'.
Proof.
  induction l as [|m r IH]; intros [|m' r'] o H H' Ht Hs; try discriminate; [reflexivity|].
  cbn in Ht, Hs. inversion Ht as [[Ht1 Ht2]]. inversion Hs as [[Hs1 Hs2]].
  assert (Em : m = m').
  { inversion H; subst; inversion H'; subst.
    - match goal with A : m = ev_first m, B : m' = ev_first m' |- _ => rewrite A, B end.
      unfold ev_first, with_ev. rewrite Ht1, Hs1. reflexivity.
    - match goal with A : m = ev_next _ m, B : m' = ev_next _ m' |- _ => rewrite A, B end.
      unfold ev_next, with_ev. rewrite Ht1, Hs1. reflexivity. }
  subst m'. f_equal. inversion H; subst; inversion H'; subst; eapply IH; eauto.
Qed.

(* the eviction fields alone are determined by the transactions (store ids may differ) *)
Definition evs (m : meta) : N * N * N := (m_evtip m, m_evfee m, m_evbfee m).

Lemma rolling_evs : forall l l' o o',
  rolling o l -> rolling o' l' -> map m_tx l = map m_tx l' -> option_map evs o = option_map evs o' ->
  map evs l = map evs l'.
Proof.
  induction l as [|m r IH]; intros [|m' r'] o o' H H' Ht Ho; try discriminate; [reflexivity|].
  cbn in Ht. inversion Ht as [[Ht1 Ht2]]. cbn [map].
  assert (Em : evs m = evs m').
  { inversion H; subst; inversion H'; subst; try discriminate.
    - match goal with A : m = ev_first m, B : m' = ev_first m' |- _ => rewrite A, B end.
      unfold evs, ev_first, with_ev. cbn. rewrite Ht1. reflexivity.
    - cbn in Ho. inversion Ho as [[E1 E2 E3]].
      match goal with A : m = ev_next _ m, B : m' = ev_next _ m' |- _ => rewrite A, B end.
      unfold evs, ev_next, with_ev. cbn. rewrite Ht1, E1, E2, E3. reflexivity. }
  rewrite Em. f_equal.
  inversion H; subst; inversion H'; subst; try discriminate;
    (eapply IH; [eassumption | eassumption | exact Ht2 | cbn; rewrite Em; reflexivity]).
Qed.

Section ReopenAccount.
Variable prioE prioB : N -> N -> Z.

(* The pool-side half of reopen_reproduces for one account.  [p] is the running pool, [x] the pool
   Init has built by tracking the store entries (any order, fresh store ids, fields unset) under
   the same chain state.  If the nonce-sorted tracked entries carry the transactions of p's list,
   recheck leaves the account with the same transactions in the same order, the same eviction
   fields and the same spent total as in the running pool. *)
Lemma reopen_account a p x s l0 s0 :
  aget (p_index p) a = Some s -> acct_ok p a -> rk p a -> (length s <= maxTxsPerAccount)%nat ->
  p_nonce x = p_nonce p -> p_bal x = p_bal p ->
  aget (p_index x) a = Some l0 -> sort_metas l0 = s0 -> map m_tx s0 = map m_tx s ->
  aget (p_spent x) a = Some (sum_cost l0) ->
  exists y s2, recheck prioE prioB false a None x = Ok y /\
    aget (p_index y) a = Some s2 /\ map m_tx s2 = map m_tx s /\ map evs s2 = map evs s /\
    aget (p_spent y) a = aget (p_spent p) a.
Proof.
  intros Hix Hok Hrk Hcap Hn Hb Hl0 Hs0 Htx Hsp.
  unfold acct_ok in Hok. rewrite Hix in Hok. destruct Hok as [Hne [Hc [Hst [Hsps Hle]]]].
  pose proof (Hrk s Hix) as Hroll.
  destruct s0 as [|first tl]; [destruct s; [contradiction | discriminate]|].
  destruct (sort_metas_spec l0) as [_ Hperm]. rewrite Hs0 in Hperm.
  assert (Hcost : sum_cost l0 = sum_cost s).
  { rewrite (sum_cost_perm _ _ Hperm). apply map_tx_cost. exact Htx. }
  assert (Hnon : map m_nonce (first :: tl) = map m_nonce s) by (apply map_tx_nonce; exact Htx).
  assert (Hc0 : chain (first :: tl)) by (eapply chain_ext; [symmetry; exact Hnon | exact Hc]).
  assert (Hst0 : m_nonce first = nonce_of x a).
  { destruct s as [|m0 r0]; [discriminate|]. cbn in Hnon, Hst. inversion Hnon as [[E1 E2]].
    unfold nonce_of. rewrite Hn. fold (nonce_of p a). congruence. }
  assert (Hle0 : sum_cost l0 <= bal_of x a).
  { unfold bal_of. rewrite Hb. fold (bal_of p a). lia. }
  assert (Hcap0 : (length (first :: tl) <= maxTxsPerAccount)%nat).
  { rewrite <- (map_length m_tx), Htx, map_length. exact Hcap. }
  eexists. exists (reev None (first :: tl) 0).
  split; [eapply recheck_keeps_wellformed; eauto|].
  cbn [p_index p_spent set_index]. rewrite aget_aset, N.eqb_refl.
  split; [reflexivity|]. split; [rewrite reev_tx; exact Htx|]. split.
  - eapply rolling_evs; [apply reev_rolling | exact Hroll | rewrite reev_tx; exact Htx | reflexivity].
  - rewrite Hsp, Hsps, Hcost. reflexivity.
Qed.
End ReopenAccount.
