(* Pool/LegacyInv3.v — structural invariant, part 3: promoteExecutables. *)
From GV Require Import Lib.Tactics Pool.Legacy Pool.LegacyProofs Pool.LegacyInv Pool.LegacyInv2.
From Coq Require Import Sorting.Sorted.
Local Open Scope N_scope.

Definition key (t : tx) : N * N := (t_from t, t_nonce t).

(* obligations of limbo txs that are about to be promoted *)
Record PO (st : pool) (T : list tx) : Prop := {
  po_ok : forall t, In t T -> okt (p_cfg st) t;
  po_np : forall t pl, In t T -> p_pending st (t_from t) = Some pl -> sm_get (t_nonce t) (l_txs pl) = None;
  po_nq : forall t ql, In t T -> p_queue st (t_from t) = Some ql -> sm_get (t_nonce t) (l_txs ql) = None;
  po_nd : NoDup (map key T) }.

Lemma NoDup_app_intro {A} (a b : list A) : NoDup a -> NoDup b -> (forall x, In x a -> ~ In x b) -> NoDup (a ++ b).
Proof.
  induction a as [|x a IH]; intros Ha Hb Hd; [exact Hb|]. inversion Ha as [|? ? Hx Ha']; subst. cbn [app]. constructor.
  - intros Hi. apply in_app_iff in Hi. destruct Hi as [Hi|Hi]; [contradiction | apply (Hd x (or_introl eq_refl) Hi)].
  - apply IH; [exact Ha' | exact Hb | intros y Hy; apply Hd; right; exact Hy].
Qed.

Lemma sorted_keys_NoDup : forall l, sorted l -> NoDup (map key l).
Proof.
  unfold sorted. induction l as [|x l IH]; intros H; cbn [map]; constructor; apply StronglySorted_inv in H; destruct H as [Hs Hf].
  - intros Hi. apply in_map_iff in Hi. destruct Hi as [y [Hk Hy]]. rewrite Forall_forall in Hf. pose proof (Hf y Hy) as Hlt.
    unfold nlt in Hlt. unfold key in Hk. inversion Hk. lia.
  - apply IH, Hs.
Qed.

(* promoteTx of a limbo tx *)
Lemma promote_tx_SL : forall st L T t,
  SL st L -> PO st (t :: T) -> In t L ->
  SL (promote_tx t st) (filter (fun y => negb (tx_eqb t y)) L) /\ PO (promote_tx t st) T /\
  p_queue (promote_tx t st) = p_queue st /\ p_cfg (promote_tx t st) = p_cfg st /\ p_chain (promote_tx t st) = p_chain st.
Proof.
  intros st L T t HS HP HtL. set (a := t_from t).
  pose proof (po_ok _ _ HP t (or_introl eq_refl)) as Hk.
  set (l0 := match p_pending st a with Some l => l | None => new_list true end).
  assert (L0 : lok (p_cfg st) true a l0) by (unfold l0; destruct (p_pending st a) eqn:E; [apply (l_pw _ _ HS a t0 E) | apply lok_new]).
  assert (N0 : sm_get (t_nonce t) (l_txs l0) = None) by (unfold l0; destruct (p_pending st a) eqn:E; [apply (po_np _ _ HP t t0 (or_introl eq_refl) E) | reflexivity]).
  destruct (list_add_fresh _ _ _ _ t (c_bump (p_cfg st)) L0 eq_refl Hk N0) as [l1 [Ha [Ht L1]]].
  unfold promote_tx. fold a. fold l0. rewrite Ha. unfold put_pending. rewrite (chk_ok _ _ _ _ _ L1).
  set (st1 := set_pending st (upd (p_pending st) a (Some l1))).
  set (st' := q_bump a (pn_set a (t_nonce t + 1) st1)).
  assert (Hc : core st' = core st1) by (unfold st'; rewrite core_q_bump, core_pn_set; reflexivity).
  core_inv Hc.
  assert (Hmem : forall x, In x (l_txs l1) <-> x = t \/ in_opt x (p_pending st a)).
  { intros x. rewrite Ht, (sm_put_In_fresh _ _ N0). unfold l0, in_opt. destruct (p_pending st a); [reflexivity | cbn; tauto]. }
  assert (HinP' : forall x, inP st' x <-> (t_from x = a /\ (x = t \/ inP st x)) \/ (t_from x <> a /\ inP st x)).
  { intros x. unfold inP. rewrite Epend. cbn. unfold upd. destruct (t_from x =? a) eqn:E.
    - apply N.eqb_eq in E. cbn [in_opt]. rewrite Hmem, E. intuition. - apply N.eqb_neq in E. intuition. }
  assert (HinQ' : forall x, inQ st' x <-> inQ st x) by (intros x; unfold inQ; rewrite Equeue; reflexivity).
  destruct (l_limbo _ _ HS t HtL) as [HtP HtQ].
  split; [|split; [|split; [rewrite Equeue; reflexivity | split; [rewrite Ecfg; reflexivity | rewrite Echain; reflexivity]]]].
  - apply (SL_upd1 st st' L _ a (Some l1) (p_queue st a) HS).
    + rewrite Ecfg. reflexivity.
    + intros b. rewrite Epend. reflexivity.
    + intros b. rewrite Equeue. cbn. unfold upd. destruct (b =? a) eqn:E; [apply N.eqb_eq in E; subst; reflexivity | reflexivity].
    + intros l Hl. inversion Hl; subst. split; [exact L1 | apply Hk].
    + intros l Hl. apply (l_qw _ _ HS a l Hl).
    + intros pl ql x Hp Hq Hx. inversion Hp; subst pl. apply sm_get_none_intro. intros z Hz En.
      apply Hmem in Hz. destruct Hz as [->|Hz].
      * eapply sm_get_none_notin; [apply (po_nq _ _ HP t ql (or_introl eq_refl) Hq) | exact Hx | congruence].
      * unfold in_opt in Hz. destruct (p_pending st a) as [pl|] eqn:Ep; [|destruct Hz].
        eapply sm_get_none_notin; [apply (l_disj _ _ HS a pl ql x Ep Hq Hx) | exact Hz | exact En].
    + intros x. rewrite Eall. cbn. rewrite (l_union _ _ HS x), HinP', HinQ', In_filter_ne.
      destruct (N.eq_dec (t_from x) a) as [E|E]; [|assert (x <> t) by (intros ->; apply E; reflexivity); tauto].
      destruct (tx_eqb x t) eqn:Ex; [apply tx_eqb_eq in Ex; subst x; tauto | apply tx_eqb_neq in Ex; tauto].
    + intros x Hx. apply In_filter_ne in Hx. destruct Hx as [Hx Hne]. destruct (l_limbo _ _ HS x Hx) as [H1 H2].
      rewrite HinP', HinQ'. split; [|exact H2]. intros [[_ [H|H]]|[_ H]]; tauto.
    + unfold AInv. rewrite Eall, Eslots. cbn. apply (l_ainv _ _ HS).
    + rewrite Epanic. cbn. apply (l_panic _ _ HS).
  - pose proof (po_nd _ _ HP) as Hnd. cbn [map] in Hnd. inversion Hnd as [|? ? Hkt HndT]; subst.
    split.
    + intros x Hx. rewrite Ecfg. cbn. apply (po_ok _ _ HP x (or_intror Hx)).
    + intros x pl Hx Hp. rewrite Epend in Hp. cbn in Hp. unfold upd in Hp. destruct (t_from x =? a) eqn:E.
      * apply N.eqb_eq in E. inversion Hp; subst pl. apply sm_get_none_intro. intros z Hz En.
        apply Hmem in Hz. destruct Hz as [->|Hz].
        -- apply Hkt. apply in_map_iff. exists x. split; [unfold key; fold a; congruence | exact Hx].
        -- unfold in_opt in Hz. destruct (p_pending st a) as [pl|] eqn:Ep; [|destruct Hz].
           rewrite <- E in Ep. eapply sm_get_none_notin; [apply (po_np _ _ HP x pl (or_intror Hx) Ep) | exact Hz | exact En].
      * apply (po_np _ _ HP x pl (or_intror Hx) Hp).
    + intros x ql Hx Hq. rewrite Equeue in Hq. apply (po_nq _ _ HP x ql (or_intror Hx) Hq).
    + exact HndT.
Qed.

Lemma promote_fold_SL : forall T st L,
  SL st L -> PO st T -> (forall t, In t T -> In t L) ->
  let st' := fold_left (fun s t => promote_tx t s) T st in
  (exists L', SL st' L' /\ (forall x, In x L' <-> In x L /\ ~ In x T)) /\
  p_queue st' = p_queue st /\ p_cfg st' = p_cfg st /\ p_chain st' = p_chain st.
Proof.
  induction T as [|t T IH]; intros st L HS HP HT; cbn [fold_left].
  - split; [exists L; split; [exact HS | intros x; cbn; tauto] | tauto].
  - destruct (promote_tx_SL st L T t HS HP (HT t (or_introl eq_refl))) as [S1 [P1 [Q1 [C1 Ch1]]]].
    pose proof (po_nd _ _ HP) as Hnd. cbn [map] in Hnd. inversion Hnd as [|? ? Hkt _]; subst.
    destruct (IH _ _ S1 P1) as [[L' [S' M']] [Q' [C' Ch']]].
    + intros x Hx. apply In_filter_ne. split; [apply HT; right; exact Hx|]. intros ->. apply Hkt. apply in_map. exact Hx.
    + split; [|repeat split; congruence]. exists L'. split; [exact S'|]. intros x. rewrite M', In_filter_ne. cbn [In].
      split; [intros [[H1 H2] H3]; split; [exact H1|]; intros [H|H]; [apply H2; congruence | apply H3, H] |].
      intros [H1 H2]. split; [split; [exact H1|]; intros ->; apply H2; left; reflexivity | intros H; apply H2; right; exact H].
Qed.

(* queue.promoteExecutables for one account *)
Lemma q_promote_one_SL : forall a st L T readies dropped st1,
  SL st L -> PO st T -> (forall t, In t T -> In t L) ->
  q_promote_one a st = (readies, dropped, st1) ->
  SL st1 (readies ++ dropped ++ L) /\ PO st1 (T ++ readies) /\
  (forall x, In x readies -> ~ In x dropped) /\ (forall x, In x readies \/ In x dropped -> inQ st x) /\
  (forall x, In x readies -> cost x <= ch_bal (p_chain st) (t_from x) /\ t_gas x <= ch_gaslimit (p_chain st) /\ ch_nonce (p_chain st) (t_from x) <= t_nonce x) /\
  p_pending st1 = p_pending st /\ p_cfg st1 = p_cfg st /\ p_chain st1 = p_chain st.
Proof.
  intros a st L T readies dropped st1 HS HP HT E. unfold q_promote_one in E.
  destruct (p_queue st a) as [l|] eqn:Eq.
  2:{ inversion E; subst. cbn [app]. rewrite app_nil_r. split; [exact HS|]. split; [exact HP|]. split; [intros x []|]. split; [intros x [[]|[]]|]. split; [intros x [] | tauto]. }
  destruct (l_qw _ _ HS a l Eq) as [Lq Ha].
  destruct (list_forward (ch_nonce (p_chain st) a) l) as [forwards l1] eqn:E1.
  destruct (list_filter (ch_bal (p_chain st) a) (ch_gaslimit (p_chain st)) l1) as [[drops inv] l2] eqn:E2.
  destruct (list_ready (pn_get a st) l2) as [rd l3] eqn:E3.
  destruct (list_cap (N.to_nat (c_aqueue (p_cfg st))) l3) as [caps l4] eqn:E4.
  inversion E; subst readies dropped st1; clear E.
  destruct (list_forward_spec _ _ _ _ _ _ _ Lq E1) as [L1 [M1 [D1 Hlow1]]].
  destruct (list_filter_spec _ _ _ _ _ _ _ _ _ L1 E2) as [L2 [M2 [D2 [_ [Hinv [_ Haff2]]]]]]. rewrite (Hinv eq_refl) in *.
  destruct (list_ready_spec _ _ _ _ _ _ _ L2 E3) as [L3 [M3 [D3 Srd]]].
  destruct (list_cap_spec _ _ _ _ _ _ _ L3 E4) as [L4 [M4 D4]].
  set (st1 := if l_empty l4 then chk l4 (del_queue a st) else put_queue a l4 st).
  assert (F1 : (forall b, p_queue st1 b = upd (p_queue st) a (stored l4) b) /\ p_pending st1 = p_pending st /\
               p_all st1 = p_all st /\ p_slots st1 = p_slots st /\ p_cfg st1 = p_cfg st /\
               p_chain st1 = p_chain st /\ p_panic st1 = p_panic st).
  { unfold st1, stored, put_queue. rewrite !(chk_ok _ _ _ _ _ L4). destruct (l_empty l4); cbn; repeat split; auto. }
  destruct F1 as [Q1 [P1 [Al1 [Sl1 [C1 [Ch1 Pa1]]]]]].
  assert (Hrd_l : forall x, In x rd -> In x (l_txs l)).
  { intros x Hx. apply M1. left. apply M2. left. apply M3. right. exact Hx. }
  assert (Hl4_l : forall x, In x (l_txs l4) -> In x (l_txs l)).
  { intros x Hx. apply M1. left. apply M2. left. apply M3. left. apply M4. left. exact Hx. }
  assert (Hmem : forall x, In x (l_txs l) <-> in_opt x (stored l4) \/ In x (rd ++ forwards ++ drops ++ caps)).
  { intros x. rewrite in_opt_stored, !in_app_iff, M1, M2, M3, M4. cbn [In]. tauto. }
  assert (Hdis : forall x, In x (rd ++ forwards ++ drops ++ caps) -> ~ in_opt x (stored l4)).
  { intros x Hx. rewrite in_opt_stored. intros H4. rewrite !in_app_iff in Hx.
    assert (H3 : In x (l_txs l3)) by (apply M4; left; exact H4).
    assert (H2 : In x (l_txs l2)) by (apply M3; left; exact H3).
    assert (H1 : In x (l_txs l1)) by (apply M2; left; exact H2).
    destruct Hx as [Hx|[Hx|[Hx|Hx]]]; [apply (D3 x Hx H3) | apply (D1 x Hx H1) | apply (D2 x (or_introl Hx) H2) | apply (D4 x Hx H4)]. }
  assert (Hrd_nd : forall x, In x rd -> ~ In x (forwards ++ drops ++ caps)).
  { intros x Hx Hd. rewrite !in_app_iff in Hd.
    assert (H2 : In x (l_txs l2)) by (apply M3; right; exact Hx).
    assert (H1 : In x (l_txs l1)) by (apply M2; left; exact H2).
    destruct Hd as [Hd|[Hd|Hd]]; [apply (D1 x Hd H1) | apply (D2 x (or_introl Hd) H2) |].
    apply (D3 x Hx). apply M4. right. exact Hd. }
  assert (HinQ : forall x, In x rd \/ In x (forwards ++ drops ++ caps) -> inQ st x).
  { intros x Hx. assert (Hxl : In x (l_txs l)) by (apply Hmem; right; apply in_app_iff; exact Hx).
    unfold inQ. rewrite (proj1 (lk_mem _ _ _ _ Lq x Hxl)), Eq. exact Hxl. }
  assert (Haffrd : forall x, In x rd -> cost x <= ch_bal (p_chain st) (t_from x) /\ t_gas x <= ch_gaslimit (p_chain st) /\ ch_nonce (p_chain st) (t_from x) <= t_nonce x).
  { intros x Hx. rewrite (proj1 (lk_mem _ _ _ _ Lq x (Hrd_l x Hx))).
    assert (H2 : In x (l_txs l2)) by (apply M3; right; exact Hx).
    destruct (Haff2 x H2) as [Hc Hg]. split; [exact Hc|]. split; [exact Hg|]. apply Hlow1. apply M2. left. exact H2. }
  split; [|split; [|split; [exact Hrd_nd | split; [exact HinQ | split; [exact Haffrd | tauto]]]]].
  - rewrite app_assoc.
    apply (SL_shrink_queue st st1 L a l (stored l4) (rd ++ forwards ++ drops ++ caps) HS Eq); try assumption.
    intros l0 Hl0. unfold stored in Hl0. destruct (l_empty l4); inversion Hl0; subst. exact L4.
  - pose proof (lw_sorted _ (lk_wf _ _ _ _ Lq)) as Hso.
    split.
    + intros t Ht. rewrite C1. apply in_app_iff in Ht. destruct Ht as [Ht|Ht]; [apply (po_ok _ _ HP t Ht) | apply (lk_mem _ _ _ _ Lq), Hrd_l, Ht].
    + intros t pl Ht Hp. rewrite P1 in Hp. apply in_app_iff in Ht. destruct Ht as [Ht|Ht]; [apply (po_np _ _ HP t pl Ht Hp)|].
      pose proof (Hrd_l t Ht) as Htl. destruct (lk_mem _ _ _ _ Lq t Htl) as [Hf _]. rewrite Hf in Hp.
      apply (l_disj _ _ HS a pl l t Hp Eq Htl).
    + intros t ql Ht Hq. rewrite Q1 in Hq. unfold upd in Hq. destruct (t_from t =? a) eqn:Ea.
      * apply N.eqb_eq in Ea. unfold stored in Hq. destruct (l_empty l4); inversion Hq; subst ql.
        apply in_app_iff in Ht. destruct Ht as [Ht|Ht].
        -- rewrite <- Ea in Eq. eapply sm_get_none_sub; [apply (po_nq _ _ HP t l Ht Eq) | exact Hl4_l].
        -- apply sm_get_none_intro. intros z Hz En. apply (D3 t Ht).
           assert (z = t) by (eapply sorted_nonce_inj; [exact Hso | apply Hl4_l, Hz | apply Hrd_l, Ht | exact En]). subst z.
           apply M4. left. exact Hz.
      * apply in_app_iff in Ht. destruct Ht as [Ht|Ht]; [apply (po_nq _ _ HP t ql Ht Hq)|].
        apply N.eqb_neq in Ea. exfalso. apply Ea. apply (lk_mem _ _ _ _ Lq), Hrd_l, Ht.
    + rewrite map_app. apply NoDup_app_intro; [apply (po_nd _ _ HP) | apply sorted_keys_NoDup, Srd |].
      intros k Hk1 Hk2. apply in_map_iff in Hk1. destruct Hk1 as [t [Hkt Ht]]. apply in_map_iff in Hk2. destruct Hk2 as [x [Hkx Hx]].
      subst k. unfold key in Hkx. inversion Hkx as [[Hf Hn]].
      pose proof (Hrd_l x Hx) as Hxl. destruct (lk_mem _ _ _ _ Lq x Hxl) as [Hfx _].
      assert (Eqt : p_queue st (t_from t) = Some l) by (rewrite <- Hf, Hfx; exact Eq).
      eapply sm_get_none_notin; [apply (po_nq _ _ HP t l Ht Eqt) | exact Hxl | exact Hn].
Qed.

Lemma promote_acc_SL : forall accts st L P D P' D' st1,
  SL st L -> PO st P -> (forall x, In x L <-> In x P \/ In x D) -> (forall x, In x P -> ~ In x D) ->
  (forall x, In x P -> cost x <= ch_bal (p_chain st) (t_from x) /\ t_gas x <= ch_gaslimit (p_chain st) /\ ch_nonce (p_chain st) (t_from x) <= t_nonce x) ->
  fold_left (fun '(p, d, s) a => let '(p1, d1, s1) := q_promote_one a s in (p ++ p1, d ++ d1, s1)) accts (P, D, st) = (P', D', st1) ->
  exists L1, SL st1 L1 /\ PO st1 P' /\ (forall x, In x L1 <-> In x P' \/ In x D') /\ (forall x, In x P' -> ~ In x D') /\
  (forall x, In x P' -> cost x <= ch_bal (p_chain st) (t_from x) /\ t_gas x <= ch_gaslimit (p_chain st) /\ ch_nonce (p_chain st) (t_from x) <= t_nonce x) /\
  p_pending st1 = p_pending st /\ p_cfg st1 = p_cfg st /\ p_chain st1 = p_chain st.
Proof.
  induction accts as [|a accts IH]; intros st L P D P' D' st1 HS HP HL Hd Haf E; cbn [fold_left] in E.
  - inversion E; subst. exists L. tauto.
  - destruct (q_promote_one a st) as [[p1 d1] s1] eqn:Eq.
    destruct (q_promote_one_SL a st L P p1 d1 s1 HS HP (fun t Ht => proj2 (HL t) (or_introl Ht)) Eq)
      as [S1 [P1 [Hd1 [HQ1 [Haf1 [Pe1 [C1 Ch1]]]]]]].
    destruct (IH s1 (p1 ++ d1 ++ L) (P ++ p1) (D ++ d1) P' D' st1 S1 P1) as [L1 [S' [PO' [M' [Dd' [Haf' [Pe' [C' Ch']]]]]]]].
    + intros x. rewrite !in_app_iff, HL. tauto.
    + intros x Hx Hx'. apply in_app_iff in Hx. apply in_app_iff in Hx'.
      assert (HLq : forall y, In y L -> ~ inQ st y) by (intros y Hy; apply (l_limbo _ _ HS y Hy)).
      destruct Hx as [Hx|Hx]; destruct Hx' as [Hx'|Hx'].
      * apply (Hd x Hx Hx').
      * apply (HLq x); [apply HL; left; exact Hx | apply HQ1; right; exact Hx'].
      * apply (HLq x); [apply HL; right; exact Hx' | apply HQ1; left; exact Hx].
      * apply (Hd1 x Hx Hx').
    + intros x Hx. rewrite Ch1. apply in_app_iff in Hx. destruct Hx as [Hx|Hx]; [apply Haf, Hx | apply Haf1, Hx].
    + exact E.
    + exists L1. split; [exact S'|]. split; [exact PO'|]. split; [exact M'|]. split; [exact Dd'|].
      split; [intros x Hx; rewrite <- Ch1; apply Haf', Hx|]. split; [congruence | split; congruence].
Qed.

(* promoteExecutables *)
Lemma promote_executables_RS : forall accts st, SInv st -> RS st (promote_executables accts st).
Proof.
  intros accts st HS. unfold promote_executables.
  destruct (fold_left (fun '(p, d, s) a => let '(p1, d1, s1) := q_promote_one a s in (p ++ p1, d ++ d1, s1)) accts ([], [], st))
    as [[P D] st1] eqn:E.
  destruct (promote_acc_SL accts st [] [] [] P D st1 (SL_of_SInv _ HS)) as [L1 [S1 [PO1 [M1 [D1 [_ [Pe1 [C1 Ch1]]]]]]]]; try exact E.
  { split; [intros t [] | intros t pl [] | intros t ql [] | constructor]. }
  { intros x. cbn. tauto. }
  { intros x []. }
  { intros x []. }
  destruct (promote_fold_SL P st1 L1 S1 PO1 (fun t Ht => proj2 (M1 t) (or_introl Ht))) as [[L2 [S2 M2]] [Q2 [C2 Ch2]]].
  set (st2 := fold_left (fun s t => promote_tx t s) P st1) in *.
  pose proof (SL_fold_all_remove (fun _ s => s) (fun _ _ => eq_refl) D st2 L2 S2) as H. cbv beta in H.
  destruct H as [[L3 [S3 M3]] [P3 [Q3 [C3 Ch3]]]].
  { intros x Hx. apply (l_limbo _ _ S2 x). apply M2. split; [apply M1; right; exact Hx | intros Hp; apply (D1 x Hp Hx)]. }
  set (st3 := fold_left (fun s t => all_remove t s) D st2) in *.
  assert (R3 : RS st st3).
  { split; [|split; congruence]. eapply SInv_of_SL; [exact S3|].
    intros t Ht. apply M3 in Ht. destruct Ht as [H1 H2]. apply M2 in H1. destruct H1 as [H1 H1']. apply M1 in H1. tauto. }
  eapply RS_core; [exact R3 | apply core_priced_removed].
Qed.
