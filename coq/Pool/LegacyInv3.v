(* Pool/LegacyInv3.v — structural invariant, part 3: promoteExecutables. *)
From GV Require Import Lib.Tactics Pool.Legacy Pool.LegacyProofs Pool.LegacyInv Pool.LegacyInv2.
From Coq Require Import Sorting.Sorted.
Local Open Scope N_scope.

Definition key (t : tx) : N * N := (t_from t, t_nonce t).

(* obligations of limbo txs that are about to be promoted *)
Record PO (st : pool) (T : list tx) : Prop := {
  po_ok : forall t, In t T -> okt (p_cfg st) t;
  po_np : forall t pl, In t T -> p_pending st (t_from t) = Some pl -> sm_get (t_nonce t) (l_txs pl) = None;
  po_nq : forall t ql, In t T -> p_queue st (t_from t) = Some ql -> sm_get (t_nonce t) (l_txs ql) = None;
  po_nd : NoDup (map key T) }.

Lemma NoDup_app_intro {A} (a b : list A) : NoDup a -> NoDup b -> (forall x, In x a -> ~ In x b) -> NoDup (a ++ b).
Proof.
  induction a as [|x a IH]; intros Ha Hb Hd; [exact Hb|]. inversion Ha as [|? ? Hx Ha']; subst. cbn [app]. constructor.
  - intros Hi. apply in_app_iff in Hi. destruct Hi as [Hi|Hi]; [contradiction | apply (Hd x (or_introl eq_refl) Hi)].
  - apply IH; [exact Ha' | exact Hb | intros y Hy; apply Hd; right; exact Hy].
Qed.

Lemma sorted_keys_NoDup : forall l, sorted l -> NoDup (map key l).
Proof.
  unfold sorted. induction l as [|x l IH]; intros H; cbn [map]; constructor; apply StronglySorted_inv in H; destruct H as [Hs Hf].
  - intros Hi. apply in_map_iff in Hi. destruct Hi as [y [Hk Hy]]. rewrite Forall_forall in Hf. pose proof (Hf y Hy) as Hlt.
    unfold nlt in Hlt. unfold key in Hk. inversion Hk. lia.
  - apply IH, Hs.
Qed.

(* promoteTx of a limbo tx *)
Lemma promote_tx_SL : forall st L T t,
  SL st L -> PO st (t :: T) -> In t L ->
  SL (promote_tx t st) (filter (fun y => negb (tx_eqb t y)) L) /\ PO (promote_tx t st) T /\
  p_queue (promote_tx t st) = p_queue st /\ p_cfg (promote_tx t st) = p_cfg st /\ p_chain (promote_tx t st) = p_chain st.
Proof.
  intros st L T t HS HP HtL. set (a := t_from t).
  pose proof (po_ok _ _ HP t (or_introl eq_refl)) as Hk.
  set (l0 := match p_pending st a with Some l => l | None => new_list true end).
  assert (L0 : lok (p_cfg st) true a l0) by (unfold l0; destruct (p_pending st a) eqn:E; [apply (l_pw _ _ HS a t0 E) | apply lok_new]).
  assert (N0 : sm_get (t_nonce t) (l_txs l0) = None) by (unfold l0; destruct (p_pending st a) eqn:E; [apply (po_np _ _ HP t t0 (or_introl eq_refl) E) | reflexivity]).
  destruct (list_add_fresh _ _ _ _ t (c_bump (p_cfg st)) L0 eq_refl Hk N0) as [l1 [Ha [Ht L1]]].
  unfold promote_tx. fold a. fold l0. rewrite Ha. unfold put_pending. rewrite (chk_ok _ _ _ _ _ L1).
  set (st1 := set_pending st (upd (p_pending st) a (Some l1))).
  set (st' := q_bump a (pn_set a (t_nonce t + 1) st1)).
  assert (Hc : core st' = core st1) by (unfold st'; rewrite core_q_bump, core_pn_set; reflexivity).
  core_inv Hc.
  assert (Hmem : forall x, In x (l_txs l1) <-> x = t \/ in_opt x (p_pending st a)).
  { intros x. rewrite Ht, (sm_put_In_fresh _ _ N0). unfold l0, in_opt. destruct (p_pending st a); [reflexivity | cbn; tauto]. }
  assert (HinP' : forall x, inP st' x <-> (t_from x = a /\ (x = t \/ inP st x)) \/ (t_from x <> a /\ inP st x)).
  { intros x. unfold inP. rewrite Epend. cbn. unfold upd. destruct (t_from x =? a) eqn:E.
    - apply N.eqb_eq in E. cbn [in_opt]. rewrite Hmem, E. intuition. - apply N.eqb_neq in E. intuition. }
  assert (HinQ' : forall x, inQ st' x <-> inQ st x) by (intros x; unfold inQ; rewrite Equeue; reflexivity).
  destruct (l_limbo _ _ HS t HtL) as [HtP HtQ].
  split; [|split; [|split; [rewrite Equeue; reflexivity | split; [rewrite Ecfg; reflexivity | rewrite Echain; reflexivity]]]].
  - apply (SL_upd1 st st' L _ a (Some l1) (p_queue st a) HS).
    + rewrite Ecfg. reflexivity.
    + intros b. rewrite Epend. reflexivity.
    + intros b. rewrite Equeue. cbn. unfold upd. destruct (b =? a) eqn:E; [apply N.eqb_eq in E; subst; reflexivity | reflexivity].
    + intros l Hl. inversion Hl; subst. split; [exact L1 | apply Hk].
    + intros l Hl. apply (l_qw _ _ HS a l Hl).
    + intros pl ql x Hp Hq Hx. inversion Hp; subst pl. apply sm_get_none_intro. intros z Hz En.
      apply Hmem in Hz. destruct Hz as [->|Hz].
      * eapply sm_get_none_notin; [apply (po_nq _ _ HP t ql (or_introl eq_refl) Hq) | exact Hx | congruence].
      * unfold in_opt in Hz. destruct (p_pending st a) as [pl|] eqn:Ep; [|destruct Hz].
        eapply sm_get_none_notin; [apply (l_disj _ _ HS a pl ql x Ep Hq Hx) | exact Hz | exact En].
    + intros x. rewrite Eall. cbn. rewrite (l_union _ _ HS x), HinP', HinQ', In_filter_ne.
      destruct (N.eq_dec (t_from x) a) as [E|E]; [|tauto].
      destruct (tx_eqb x t) eqn:Ex; [apply tx_eqb_eq in Ex; subst x; tauto | apply tx_eqb_neq in Ex; tauto].
    + intros x Hx. apply In_filter_ne in Hx. destruct Hx as [Hx Hne]. destruct (l_limbo _ _ HS x Hx) as [H1 H2].
      rewrite HinP', HinQ'. split; [|exact H2]. intros [[_ [H|H]]|[_ H]]; tauto.
    + unfold AInv. rewrite Eall, Eslots. cbn. apply (l_ainv _ _ HS).
    + rewrite Epanic. cbn. apply (l_panic _ _ HS).
  - pose proof (po_nd _ _ HP) as Hnd. cbn [map] in Hnd. inversion Hnd as [|? ? Hkt HndT]; subst.
    split.
    + intros x Hx. rewrite Ecfg. cbn. apply (po_ok _ _ HP x (or_intror Hx)).
    + intros x pl Hx Hp. rewrite Epend in Hp. cbn in Hp. unfold upd in Hp. destruct (t_from x =? a) eqn:E.
      * apply N.eqb_eq in E. inversion Hp; subst pl. apply sm_get_none_intro. intros z Hz En.
        apply Hmem in Hz. destruct Hz as [->|Hz].
        -- apply Hkt. apply in_map_iff. exists x. split; [unfold key; fold a; congruence | exact Hx].
        -- unfold in_opt in Hz. destruct (p_pending st a) as [pl|] eqn:Ep; [|destruct Hz].
           rewrite <- E in Ep. eapply sm_get_none_notin; [apply (po_np _ _ HP x pl (or_intror Hx) Ep) | exact Hz | exact En].
      * apply (po_np _ _ HP x pl (or_intror Hx) Hp).
    + intros x ql Hx Hq. rewrite Equeue in Hq. apply (po_nq _ _ HP x ql (or_intror Hx) Hq).
    + exact HndT.
Qed.
