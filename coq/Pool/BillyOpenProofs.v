(* Pool/BillyOpenProofs.v — correctness of the model of billy's Open (shelf.go compact, the
   two-directional loop): the onData callback receives exactly the items that are on disk,
   each once.  With Close (gap headers zeroed) this gives: Close + Open hands back exactly the
   live entries. *)
From Coq Require Import List NArith ZArith Bool Lia Permutation.
From GV Require Import Lib.Tactics Pool.Blob Pool.BlobProofs Pool.BlobRollingProofs.
Import ListNotations.

(* the items stored in slots [a, b) *)
Definition slot_items (sl : list (option item)) (i : nat) : list item :=
  match nth_error sl i with Some (Some it) => [it] | _ => [] end.
Definition R (sl : list (option item)) (a b : nat) : list item :=
  flat_map (slot_items sl) (seq a (b - a)).

Lemma R_empty sl a b : (b <= a)%nat -> R sl a b = [].
Proof. intro H. unfold R. replace (b - a)%nat with 0%nat by lia. reflexivity. Qed.

Lemma R_step sl a b : (a < b)%nat -> R sl a b = slot_items sl a ++ R sl (S a) b.
Proof. intro H. unfold R. replace (b - a)%nat with (S (b - S a)) by lia. reflexivity. Qed.

Lemma R_split sl a m b : (a <= m)%nat -> (m <= b)%nat -> R sl a b = R sl a m ++ R sl m b.
Proof.
  intros H1 H2. unfold R. replace (b - a)%nat with ((m - a) + (b - m))%nat by lia.
  rewrite seq_app, flat_map_app. replace (a + (m - a))%nat with m by lia. reflexivity.
Qed.

Lemma R_last sl a b : (a <= b)%nat -> R sl a (S b) = R sl a b ++ slot_items sl b.
Proof.
  intro H. rewrite (R_split sl a b (S b)) by lia. f_equal. unfold R.
  replace (S b - b)%nat with 1%nat by lia. cbn. apply app_nil_r.
Qed.

Lemma R_set sl g x a b : (g < a)%nat -> R (list_set sl g x) a b = R sl a b.
Proof.
  intro H. unfold R. generalize (b - a)%nat as k. intro k. revert a H.
  induction k as [|k IH]; intros a H; [reflexivity|]. cbn [seq flat_map]. rewrite IH by lia. f_equal.
  unfold slot_items. rewrite list_set_other by lia. reflexivity.
Qed.

(* nextGap: reports the data slots it passes, stops at the first slot without data or at cnt *)
Lemma next_gap_spec sl cnt : forall fuel g acc g' acc',
  next_gap fuel sl cnt g acc = (g', acc') -> (cnt - g < fuel)%nat ->
  (g <= g')%nat /\
  Permutation (map snd acc' ++ R sl g' cnt) (map snd acc ++ R sl g cnt) /\
  ((cnt <= g')%nat \/ slot_items sl g' = []).
Proof.
  induction fuel as [|f IH]; intros g acc g' acc' H Hf; [lia|]. cbn [next_gap] in H.
  destruct (Nat.leb cnt g) eqn:El.
  - inversion H; subst. apply Nat.leb_le in El. split; [lia|]. split; [reflexivity | left; exact El].
  - apply Nat.leb_gt in El. destruct (nth_error sl g) as [[it|]|] eqn:En.
    + apply IH in H; [|lia]. destruct H as [H1 [H2 H3]]. split; [lia|]. split; [|exact H3].
      rewrite H2. cbn [map snd]. rewrite (R_step sl g cnt El). unfold slot_items at 1. rewrite En.
      cbn [app]. apply Permutation_middle.
    + inversion H; subst. split; [lia|]. split; [reflexivity|]. right. unfold slot_items. rewrite En. reflexivity.
    + inversion H; subst. split; [lia|]. split; [reflexivity|]. right. unfold slot_items. rewrite En. reflexivity.
Qed.

(* prevData: the highest data slot above the gap, everything above it is empty *)
Lemma prev_data_spec sl gap : forall fuel slot fl moved,
  prev_data fuel sl slot gap = (fl, moved) -> (slot < fuel)%nat ->
  (fl <= slot)%nat /\ R sl (S fl) (S slot) = [] /\
  match moved with
  | Some it => (gap < fl)%nat /\ nth_error sl fl = Some (Some it)
  | None => (fl <= gap)%nat \/ fl = 0%nat
  end.
Proof.
  induction fuel as [|f IH]; intros slot fl moved H Hf; [lia|]. cbn [prev_data] in H.
  destruct (Nat.ltb gap slot && Nat.ltb 0 slot) eqn:Ec.
  - apply andb_true_iff in Ec. destruct Ec as [E1 E2]. apply Nat.ltb_lt in E1, E2.
    destruct (nth_error sl slot) as [[it|]|] eqn:En.
    + inversion H; subst. split; [lia|]. split; [apply R_empty; lia|]. split; assumption.
    + apply IH in H; [|lia]. destruct H as [H1 [H2 H3]]. split; [lia|]. split; [|exact H3].
      replace (S slot) with (S (S (slot - 1))) by lia. rewrite R_last by lia. rewrite H2.
      unfold slot_items. replace (S (slot - 1)) with slot by lia. rewrite En. reflexivity.
    + apply IH in H; [|lia]. destruct H as [H1 [H2 H3]]. split; [lia|]. split; [|exact H3].
      replace (S slot) with (S (S (slot - 1))) by lia. rewrite R_last by lia. rewrite H2.
      unfold slot_items. replace (S (slot - 1)) with slot by lia. rewrite En. reflexivity.
  - inversion H; subst. split; [lia|]. split; [apply R_empty; lia|].
    apply andb_false_iff in Ec. destruct Ec as [E|E]; apply Nat.ltb_ge in E; [left; exact E | right; lia].
Qed.

(* the loop reports everything that is still unreported below cnt *)
Lemma compact_loop_spec : forall fuel sl cnt gapped acc sl' cnt' acc',
  compact_loop fuel sl cnt gapped (cnt - 1) acc = (sl', cnt', acc') ->
  (cnt <= length sl)%nat -> (cnt - gapped < fuel)%nat ->
  Permutation (map snd acc') (map snd acc ++ R sl gapped cnt).
Proof.
  induction fuel as [|f IH]; intros sl cnt gapped acc sl' cnt' acc' H Hc Hf; [lia|]. cbn [compact_loop] in H.
  destruct (Nat.leb gapped (cnt - 1)) eqn:El.
  2:{ inversion H; subst. apply Nat.leb_gt in El. rewrite R_empty by lia. rewrite app_nil_r. reflexivity. }
  apply Nat.leb_le in El.
  destruct (next_gap (S (length sl)) sl cnt gapped acc) as [g acc1] eqn:Eg.
  destruct (next_gap_spec sl cnt _ _ _ _ _ Eg ltac:(lia)) as [G1 [G2 G3]].
  destruct (Nat.leb cnt g) eqn:Ecg.
  { inversion H; subst. apply Nat.leb_le in Ecg. rewrite R_empty in G2 by lia. rewrite app_nil_r in G2. exact G2. }
  apply Nat.leb_gt in Ecg. destruct G3 as [G3|G3]; [lia|].
  destruct (prev_data (S (length sl)) sl (cnt - 1) g) as [fl moved] eqn:Ep.
  destruct (prev_data_spec sl g _ _ _ _ Ep ltac:(lia)) as [P1 [P2 P3]].
  replace (S (cnt - 1)) with cnt in P2 by lia.
  destruct moved as [it|].
  - destruct P3 as [P3 P4].
    assert (Hfl : Nat.eqb fl 0 = false) by (apply Nat.eqb_neq; lia). rewrite Hfl in H.
    apply IH in H; [| rewrite list_set_length; lia | lia].
    rewrite H. cbn [map snd]. rewrite R_set by lia.
    (* unreported region: g (empty), (g, fl), fl (the moved item), (fl, cnt) empty *)
    etransitivity; [|exact G2].
    assert (E : R sl g cnt = R sl (S g) fl ++ [it]).
    { rewrite (R_step sl g cnt) by lia. rewrite G3. cbn [app]. rewrite (R_split sl (S g) fl cnt) by lia.
      rewrite (R_step sl fl cnt) by lia. rewrite P2, app_nil_r. unfold slot_items. rewrite P4. reflexivity. }
    rewrite E, app_assoc. apply Permutation_cons_append.
  - assert (HR : R sl g cnt = []).
    { rewrite (R_step sl g cnt) by lia. rewrite G3. cbn [app].
      destruct (Nat.le_gt_cases (S fl) (S g)) as [Hle|Hgt].
      - rewrite (R_split sl (S fl) (S g) cnt) in P2 by lia. apply app_eq_nil in P2. apply P2.
      - destruct P3 as [P3|P3]; lia. }
    rewrite HR, app_nil_r in G2.
    destruct (Nat.eqb fl 0) eqn:Hfl.
    + inversion H; subst. exact G2.
    + apply Nat.eqb_neq in Hfl. apply IH in H; [|lia|lia].
      rewrite H. rewrite R_empty by (destruct P3; lia). rewrite app_nil_r. exact G2.
Qed.

(* openShelf: the onData calls carry exactly the items on disk, each once *)
Lemma shelf_open_calls sl s calls :
  shelf_open sl = (s, calls) -> Permutation (map snd calls) (R sl 0 (length sl)).
Proof.
  unfold shelf_open. destruct (length sl) as [|n] eqn:El.
  - intro H. inversion H; subst. rewrite R_empty by lia. reflexivity.
  - destruct (compact_loop (S (S n)) sl (S n) 0 n []) as [[sl' cnt] acc] eqn:Ec.
    intro H. inversion H; subst.
    replace n with (S n - 1)%nat in Ec at 3 by lia.
    apply compact_loop_spec in Ec; [|lia|lia].
    rewrite map_rev. rewrite <- Permutation_rev. exact Ec.
Qed.

(* Close then Open: what is on disk after a clean shutdown are the live entries *)
Lemma close_walk (gaps : list N) : forall (l : list (option item)) st,
  flat_map (slot_items (map (fun '(i, o) => if existsb (N.eqb (N.of_nat i)) gaps then None else o)
                            (combine (seq st (length l)) l))) (seq 0 (length l)) =
  map snd (flat_map (fun '(i, o) => match o with
                                    | Some it => if existsb (N.eqb (N.of_nat i)) gaps then []
                                                 else [(mk_id (N.of_nat 0) (N.of_nat i), it)]
                                    | None => [] end) (combine (seq st (length l)) l)).
Proof.
  induction l as [|o r IH]; intro st; [reflexivity|].
  cbn [length seq combine map]. replace (seq 1 (length r)) with (map S (seq 0 (length r))) by apply seq_shift. cbn [flat_map].
  rewrite map_app, <- IH. f_equal.
  - unfold slot_items. cbn [nth_error]. destruct (existsb (N.eqb (N.of_nat st)) gaps); destruct o; reflexivity.
  - rewrite flat_map_concat_map, map_map, <- flat_map_concat_map. apply flat_map_ext. intro i. reflexivity.
Qed.

Lemma R_close_image s :
  R (shelf_close_image s) 0 (length (shelf_close_image s)) = map snd (shelf_live 0 s).
Proof.
  unfold shelf_close_image, shelf_live, R.
  rewrite map_length, combine_length, seq_length, Nat.min_id, Nat.sub_0_r. apply close_walk.
Qed.

Lemma shelf_live_items k s : map snd (shelf_live k s) = map snd (shelf_live 0 s).
Proof.
  unfold shelf_live. rewrite !flat_map_concat_map, !concat_map, !map_map. f_equal.
  apply map_ext. intros [i [it|]]; [|reflexivity]. destruct (existsb _ _); reflexivity.
Qed.

(* billy.Open on what a clean Close left on disk: the index callback receives exactly the live
   entries of the store, each once (store ids may differ: compaction moves entries) *)
Lemma billy_open_close_aux : forall (b : billy) k k' b' calls,
  billy_open_aux k (close_image b) = (b', calls) ->
  Permutation (map snd calls) (map snd (flat_map (fun '(j, s) => shelf_live j s) (combine (seq k' (length b)) b))).
Proof.
  induction b as [|s r IH]; intros k k' b' calls H; cbn [close_image map billy_open_aux] in H.
  - inversion H; subst. reflexivity.
  - destruct (shelf_open (shelf_close_image s)) as [s1 c1] eqn:Es.
    destruct (billy_open_aux (S k) (map shelf_close_image r)) as [b2 c2] eqn:Er.
    inversion H; subst. cbn [length seq combine flat_map]. rewrite !map_app. apply Permutation_app.
    + rewrite map_map. apply shelf_open_calls in Es. rewrite R_close_image in Es.
      rewrite shelf_live_items.
      replace (map (fun x : nat * item => snd (let '(i, it) := x in (mk_id (N.of_nat k) (N.of_nat i), it))) c1) with (map snd c1)
        by (apply map_ext; intros [i it]; reflexivity).
      exact Es.
    + eapply IH. exact Er.
Qed.

Theorem billy_open_close (b : billy) b' calls :
  billy_open (close_image b) = (b', calls) -> Permutation (map snd calls) (map snd (billy_live b)).
Proof. unfold billy_open, billy_live. apply billy_open_close_aux. Qed.
