(* Pool/LegacyThm.v — the statements of Properties/C41.v that are not literally a lemma of the
   Legacy* files (small wrappers, witness histories evaluated by vm_compute), so that the property
   file contains statements and [exact] only. *)
From GV Require Import Lib.Tactics Pool.Legacy Pool.LegacyProofs Pool.LegacyInv Pool.LegacyInv2 Pool.LegacyInv3 Pool.LegacyInv4 Pool.LegacyInv5 Pool.LegacyInv6 Pool.LegacyInv7 Pool.LegacyInv8 Pool.LegacyInv9 Pool.LegacyInv10 Pool.LegacyInv11.
Local Open Scope N_scope.

Lemma C41_promote_appends_stmt : forall l t s,
  contig s l -> t_nonce t = s + N.of_nat (length l) -> sm_put t l = l ++ [t] /\ contig s (l ++ [t]).
Proof. intros l t s H Ht. split; [eapply sm_put_append; eassumption | apply contig_app_one; assumption]. Qed.

Lemma C41_listing_is_index_stmt : forall a st, SInv st ->
  fst (flatten_pending a st) = match p_pending st a with Some l => l_txs l | None => [] end /\
  fst (flatten_queue a st) = match p_queue st a with Some l => l_txs l | None => [] end /\
  SInv (snd (pool_ContentFrom a st)) /\ SInv (snd (pool_Content st)) /\ SInv (snd (pool_Pending st)).
Proof.
  intros a st H. split; [apply (flatten_pending_RS a st H)|]. split; [apply (flatten_queue_RS a st H)|].
  split; [apply (pool_ContentFrom_RS a st H)|]. split; [apply (pool_Content_RS st H) | apply (pool_Pending_RS st H)].
Qed.

Lemma C41_removeTx_preserves_stmt : forall k t oob st, SInv st ->
  SInv (fst (remove_tx (S (S k)) t oob st)) /\
  (forall x, In x (p_all (fst (remove_tx (S (S k)) t oob st))) <-> In x (p_all st) /\ x <> t).
Proof. intros k t oob st H. destruct (remove_tx_SInv k t oob st H) as [H1 [H2 _]]. split; assumption. Qed.

Lemma C41_add_preserves_stmt : forall t st, SInv st -> okt (p_cfg st) t -> SInv (fst (fst (pool_add t st))).
Proof. intros t st H K. apply (pool_add_RS t st H K). Qed.

Lemma C41_addTxsLocked_preserves_stmt : forall txs errs st dirty, SInv st -> (forall t, In t txs -> okt (p_cfg st) t) ->
  SInv (fst (fst (add_txs_locked txs errs st dirty))).
Proof. intros txs errs st dirty H K. apply (add_txs_locked_RS txs errs st dirty H K). Qed.

Lemma C41_promoteExecutables_preserves_stmt : forall accts st, SInv st -> SInv (promote_executables accts st).
Proof. intros accts st H. apply (promote_executables_RS accts st H). Qed.

Lemma C41_truncatePending_preserves_stmt : forall st, SInv st -> SInv (truncate_pending st).
Proof. intros st H. apply (truncate_pending_RS st H). Qed.

Lemma C41_truncateQueue_preserves_stmt : forall st, SInv st -> SInv (truncate_queue st).
Proof. intros st H. apply (truncate_queue_SInv st H). Qed.

Lemma C41_Add_preserves_stmt : forall txs st, SInv st -> (forall t, In t txs -> okt (p_cfg st) t) -> SInv (fst (pool_Add txs st)).
Proof. intros txs st H K. apply (pool_Add_RS txs st H K). Qed.

Lemma C41_SetGasTip_preserves_stmt : forall tip st, SInv st -> SInv (pool_SetGasTip tip st).
Proof. intros tip st H. apply (pool_SetGasTip_RS tip st H). Qed.

Lemma C41_demoteUnexecutables_preserves_stmt : forall st, SInv st ->
  SInv (demote_unexecutables st) /\ (forall a l, p_pending (demote_unexecutables st) a = Some l -> l_txs l <> []).
Proof. intros st H. destruct (demote_unexecutables_RS st H) as [[S _] P]. split; [exact S | exact P]. Qed.

Lemma C41_reset_preserves_stmt : forall blocks old new st, SInv st -> blocks_ok (p_cfg st) blocks old new ->
  SInv (pool_reset blocks old new st).
Proof. intros blocks old new st H K. apply (pool_reset_RC blocks old new st H K). Qed.

Lemma C41_Reset_cycle_preserves_stmt : forall blocks old new st, SInv st -> blocks_ok (p_cfg st) blocks old new ->
  SInv (run_reorg_reset blocks old new st).
Proof. intros blocks old new st H K. apply (run_reorg_reset_RC blocks old new st H K). Qed.

Lemma C41_structural_inv_histories_partial_stmt : forall c tip g h,
  Forall (op_okR c) h -> SInv (run_history (pool_init c tip g) h).
Proof. intros c tip g h H. apply (history_SInv_all h (pool_init c tip g) (SInv_init c tip g) H). Qed.

Lemma C41_pending_affordable_histories_stmt : forall c tip g h, Forall (op_okR c) h ->
  let st := run_history (pool_init c tip g) h in
  forall b x, in_opt x (p_pending st b) ->
    t_from x = b /\ cost x <= ch_bal (p_chain st) (t_from x) /\ t_gas x <= ch_gaslimit (p_chain st) /\
    ch_nonce (p_chain st) (t_from x) <= t_nonce x.
Proof.
  intros c tip g h H st b x Hx.
  exact (history_PAff h (pool_init c tip g) (SInv_init c tip g) (PAff_init c tip g) H b x Hx).
Qed.

Lemma C41_Reset_cycle_front_gapless_stmt : forall blocks old new st, SInv st -> blocks_ok (p_cfg st) blocks old new ->
  let st' := run_reorg_reset blocks old new st in
  forall a, (forall x, in_opt x (p_pending st' a) -> ch_nonce (p_chain st') a <= t_nonce x) /\
            ((exists x, in_opt x (p_pending st' a)) ->
             exists x, in_opt x (p_pending st' a) /\ t_nonce x = ch_nonce (p_chain st') a).
Proof. intros blocks old new st H K st' a. exact (run_reorg_reset_Front blocks old new st H K a). Qed.

Definition cfg_roomy : cfg := mkCfg 10 16 64 16 64 [0; 1; 2].
Definition big : N := 1000000000000.
Definition g0 : block := mkBlock 0 65535 0 1000000 0 [0; 0; 0] [big; big; big] [].
Definition tA := mkTx 1 0 0 21000 10 5 0 1 21000.
Definition tB := mkTx 2 0 1 21000 11 5 900000 1 21000.
Definition tC := mkTx 3 0 2 21000 12 5 0 1 21000.
Definition tQ := mkTx 4 1 5 21000 13 5 0 1 21000.
Definition b1 : block := mkBlock 1 0 1 1000000 0 [2; 0; 0] [big; big; big] [tA; tB].
Definition b2 : block := mkBlock 2 0 1 1000000 0 [0; 0; 0] [600000; big; big] [].
Definition chain1 := [g0; b1; b2].
Definition h_gap : list op :=
  [OpAdd [tA]; OpAdd [tB]; OpAdd [tC]; OpReset chain1 g0 b1; OpReset chain1 b1 b2].
Lemma C41_pending_gapless_refuted_stmt :
  exists h, let st := run_history (pool_init cfg_roomy 1 g0) h in
    gapless_b st = false /\
    option_map (fun l => map t_nonce (l_txs l)) (p_pending st 0) = Some [0; 2] /\
    ch_nonce (p_chain st) 0 = 0.
Proof. exists h_gap. vm_compute. repeat split. Qed.

Definition g1 : block := mkBlock 0 65535 0 1000000 0 [0; 0; 0] [500000; big; big] [].
Definition tD := mkTx 5 0 0 21000 10 5 0 1 21000.
Definition tE := mkTx 6 0 2 21000 11 5 0 1 21000.
Definition tF := mkTx 7 0 1 21000 12 5 0 1 21000.
Definition h_overdraft : list op := [OpAdd [tD]; OpAdd [tE]; OpAdd [tF]].
Lemma C41_pending_total_affordable_refuted_stmt :
  exists h, let st := run_history (pool_init cfg_roomy 1 g1) h in
    total_affordable_b st = false /\ pool_inv_b st = true.
Proof. exists h_overdraft. vm_compute. split; reflexivity. Qed.

Definition cfg_tiny : cfg := mkCfg 10 1 1 1 1 [0; 1; 2].
Definition tP := mkTx 8 0 0 21000 100 100 0 1 21000.
Definition tOld := mkTx 9 1 3 21000 50 50 0 1 21000.
Definition tNew := mkTx 10 1 3 21000 51 51 0 1 21000.
Lemma C41_replacement_requires_bump_refuted_stmt :
  exists st, st = run_history (pool_init cfg_tiny 1 g0) [OpAdd [tP]; OpAdd [tOld]] /\
    all_has tOld st = true /\
    t_from tNew = t_from tOld /\ t_nonce tNew = t_nonce tOld /\
    t_feecap tNew < (100 + c_bump (p_cfg st)) * t_feecap tOld / 100 /\
    let '(st', errs) := pool_Add [tNew] st in
    errs = [E_OK] /\ all_has tNew st' = true /\ all_has tOld st' = false /\ pool_inv_b st' = true.
Proof. eexists. split; [reflexivity|]. vm_compute. repeat split. Qed.

Definition tR := mkTx 11 0 0 21000 20 9 0 1 21000.
Lemma C41_nonvacuous_stmt :
  let st := run_history (pool_init cfg_roomy 1 g0)
              [OpAdd [tA; tB; tC]; OpAdd [tQ]; OpAdd [tR]; OpAdd [mkTx 12 2 0 30000 9 9 5 1 21000];
               OpReset chain1 g0 b1; OpSetGasTip 2] in
  pool_inv_b st = true /\ limits_b st = true /\ lwf (new_list true) /\
  length (p_all st) = 3%nat /\ queue_count st = 1%nat.
Proof. split; [vm_compute; reflexivity|]. split; [vm_compute; reflexivity|]. split; [apply lwf_new|]. vm_compute. split; reflexivity. Qed.


(* pending_gapless + pendingNonces, over all guarded histories *)
Lemma C41_pending_gapless_histories_stmt : forall c tip g h, NoDup (c_accts c) -> hist_okG c (pool_init c tip g) h ->
  let st := run_history (pool_init c tip g) h in
  forall a, (forall l, p_pending st a = Some l -> contig (ch_nonce (p_chain st) a) (l_txs l)) /\
            pn_get a st = ch_nonce (p_chain st) a + N.of_nat (pending_len a st) /\
            (forall l t, p_pending st a = Some l -> last (map Some (l_txs l)) None = Some t -> pn_get a st = t_nonce t + 1).
Proof.
  intros c tip g h Hnd H st a.
  destruct (proj2 (history_SG_all h (pool_init c tip g) (conj (SInv_init c tip g) (GInv_init c tip g)) Hnd H) a) as [G1 G2].
  split; [exact G1|]. split; [exact G2|]. intros l t Hl Hlast. fold st in G1, G2. specialize (G1 l Hl).
  unfold pending_len in G2. rewrite Hl in G2. unfold l_len in G2.
  destruct (l_txs l) as [|x r] eqn:El; [discriminate|].
  destruct (last_contig r _ x G1) as [t' [H1 H2]]. rewrite Hlast in H1. inversion H1; subst t'. rewrite G2. lia.
Qed.

(* gapless + pendingNonces + no executable queue head, over histories without head changes *)
Lemma C41_no_executable_head_histories_partial_stmt : forall c tip g h, Forall (op_ok c) h ->
  let st := run_history (pool_init c tip g) h in
  forall a x, in_opt x (p_queue st a) -> pn_get a st < t_nonce x.
Proof.
  intros c tip g h H st a x Hx.
  exact (proj2 (proj2 (history_SGX h (pool_init c tip g) (conj (SInv_init c tip g) (conj (GInv_init c tip g) (NX_init c tip g))) H)) a x Hx).
Qed.

(* a dropped block of the (unconstrained) fake chain that contains a tx above the state nonce *)
Definition tX := mkTx 20 0 3 21000 14 5 0 1 21000.
Definition bx1 : block := mkBlock 1 0 1 1000000 0 [0; 0; 0] [big; big; big] [tX].
Definition bx2 : block := mkBlock 2 0 1 1000000 0 [0; 0; 0] [big; big; big] [].
Definition chainx := [g0; bx1; bx2].
Definition h_head : list op := [OpAdd [tA]; OpAdd [mkTx 21 0 1 21000 11 5 0 1 21000]; OpAdd [tC]; OpReset chainx g0 bx1; OpReset chainx bx1 bx2].
Lemma C41_no_executable_head_after_reset_refuted_stmt :
  exists h, let st := run_history (pool_init cfg_roomy 1 g0) h in
    option_map (fun l => map t_nonce (l_txs l)) (p_pending st 0) = Some [0; 1; 2] /\
    pn_get 0 st = 3 /\
    option_map (fun l => map t_nonce (l_txs l)) (p_queue st 0) = Some [3] /\
    ch_nonce (p_chain st) 0 = 0.
Proof. exists h_head. vm_compute. repeat split. Qed.
