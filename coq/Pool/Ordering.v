(* Pool/Ordering.v — executable model of /repo/core/txpool/txorder/ordering.go
   (txWithMinerFee, txByPriceAndTime, TransactionsByPriceAndNonce) and of the part
   of Go's standard library container/heap it uses (GOROOT/src/container/heap/
   heap.go: Init, Fix, Pop, up, down), transcribed on a list used as an array.

   Model only; proofs are in Pool/OrderingProofs.v.

   Conventions
   * A Go slice is a [list]; [nth_error]/[set_nth] are index reads and writes.  An
     out-of-range index is the explicit result [Panic] (Go: "index out of range").
   * [for] loops of container/heap are fuel-bounded; running out of fuel is the
     explicit result [OutOfFuel], proved unreachable in OrderingProofs.v.
   * Go's [int] is 64-bit; the only overflow container/heap guards against
     ([j1 < 0] in [down]) needs a slice of >= 2^62 elements and is not modelled.
   * uint256 fee arithmetic is [N]; the single subtraction is guarded by the
     comparison the code makes first, so it cannot wrap.
   * Go's map [txs] is an association list with unique keys; Go's randomised map
     iteration order in the constructor is the order of that list: theorems hold
     for every order. *)
From Coq Require Import List NArith ZArith Bool.
Import ListNotations.
Local Open Scope N_scope.

Inductive res (A : Type) : Type :=
| Ok (a : A)
| Panic        (* the Go code panics (index out of range) *)
| OutOfFuel.   (* model artefact; proved unreachable *)
Arguments Ok {A} a.
Arguments Panic {A}.
Arguments OutOfFuel {A}.

Definition bind {A B} (r : res A) (f : A -> res B) : res B :=
  match r with Ok a => f a | Panic => Panic | OutOfFuel => OutOfFuel end.
Notation "'do' x <- r ; k" := (bind r (fun x => k))
  (at level 200, x pattern, right associativity).

(* ------------------------------------------------------------------------- *)
(* container/heap on a list-as-array                                          *)

Section Heap.
  Context {A : Type}.
  Variable less : A -> A -> bool.   (* h.Less(i, j) = less h[i] h[j] *)

  (* h[i] = x  (no effect when i is out of range; callers check the index) *)
  Fixpoint set_nth (l : list A) (i : nat) (x : A) : list A :=
    match l, i with
    | [], _ => []
    | _ :: r, O => x :: r
    | a :: r, S i' => a :: set_nth r i' x
    end.

  (* txByPriceAndTime.Swap: s[i], s[j] = s[j], s[i] *)
  Definition swap (h : list A) (i j : nat) : res (list A) :=
    match nth_error h i, nth_error h j with
    | Some a, Some b => Ok (set_nth (set_nth h i b) j a)
    | _, _ => Panic
    end.

  (* txByPriceAndTime.Less on indices *)
  Definition less_at (h : list A) (i j : nat) : res bool :=
    match nth_error h i, nth_error h j with
    | Some a, Some b => Ok (less a b)
    | _, _ => Panic
    end.

  (* heap.go down(h, i0, n): the loop; returns the slice and the final i *)
  Fixpoint down_loop (fuel : nat) (h : list A) (i n : nat) : res (list A * nat) :=
    match fuel with
    | O => OutOfFuel
    | S f =>
        let j1 := (2 * i + 1)%nat in
        if (n <=? j1)%nat then Ok (h, i)                  (* j1 >= n || j1 < 0: break *)
        else
          let j2 := (j1 + 1)%nat in
          do c <- (if (j2 <? n)%nat then less_at h j2 j1 else Ok false);
          let j := if c then j2 else j1 in                (* left or right child *)
          do lt <- less_at h j i;
          if negb lt then Ok (h, i)                       (* !h.Less(j, i): break *)
          else do h' <- swap h i j; down_loop f h' j n
    end.

  (* heap.go down: returns i > i0 *)
  Definition down (h : list A) (i0 n : nat) : res (list A * bool) :=
    do (h', i) <- down_loop (S n) h i0 n; Ok (h', (i0 <? i)%nat).

  (* heap.go up(h, j).  i := (j - 1) / 2 — for j = 0 Go computes -1/2 = 0
     (truncation), which coincides with nat subtraction: (0 - 1) / 2 = 0. *)
  Fixpoint up_loop (fuel : nat) (h : list A) (j : nat) : res (list A) :=
    match fuel with
    | O => OutOfFuel
    | S f =>
        let i := ((j - 1) / 2)%nat in
        if (i =? j)%nat then Ok h
        else
          do lt <- less_at h j i;
          if negb lt then Ok h
          else do h' <- swap h i j; up_loop f h' i
    end.
  Definition up (h : list A) (j : nat) : res (list A) := up_loop (S j) h j.

  (* heap.go Init: for i := n/2 - 1; i >= 0; i-- { down(h, i, n) }.
     [init_loop k] performs the iterations i = k-1, ..., 0. *)
  Fixpoint init_loop (k : nat) (h : list A) (n : nat) : res (list A) :=
    match k with
    | O => Ok h
    | S i => do (h', _) <- down h i n; init_loop i h' n
    end.
  Definition heap_init (h : list A) : res (list A) :=
    let n := length h in init_loop (n / 2) h n.

  (* heap.go Fix: if !down(h, i, h.Len()) { up(h, i) } *)
  Definition heap_fix (h : list A) (i : nat) : res (list A) :=
    do (h', moved) <- down h i (length h);
    if negb moved then up h' i else Ok h'.

  (* heap.go Pop: n := h.Len() - 1; h.Swap(0, n); down(h, 0, n); return h.Pop()
     with txByPriceAndTime.Pop: x := old[n-1]; *s = old[0 : n-1].
     On the empty slice n = -1 and Swap(0, -1) panics. *)
  Definition heap_pop (h : list A) : res (A * list A) :=
    match length h with
    | O => Panic
    | S n =>
        do h1 <- swap h 0 n;
        do (h2, _) <- down h1 0 n;
        match nth_error h2 n with
        | Some x => Ok (x, firstn n h2)
        | None => Panic
        end
    end.
End Heap.

(* ------------------------------------------------------------------------- *)
(* ordering.go                                                                *)

(* txpool.LazyTransaction, projected on what ordering.go reads (GasFeeCap,
   GasTipCap, Time) plus an identity (Hash) and the nonce the caller sorted by;
   ordering.go itself never reads Hash or nonce. Time is an instant (ns). *)
Record tx := mkTx {
  tx_id : N; tx_nonce : N; tx_feecap : N; tx_tipcap : N; tx_time : Z }.

(* txWithMinerFee *)
Record item := mkItem { it_tx : tx; it_from : N; it_fee : N }.

(* newTxWithMinerFee; [None] = types.ErrGasFeeCapTooLow *)
Definition new_tx_with_miner_fee (t : tx) (from : N) (base_fee : option N) : option item :=
  match base_fee with
  | None => Some (mkItem t from (tx_tipcap t))
  | Some b =>
      if tx_feecap t <? b then None
      else
        let tip := tx_feecap t - b in        (* uint256 Sub; feeCap >= baseFee here *)
        Some (mkItem t from (if tx_tipcap t <? tip then tx_tipcap t else tip))
  end.

(* txByPriceAndTime.Less: higher fee first; equal fees: earlier time first *)
Definition less (a b : item) : bool :=
  match it_fee a ?= it_fee b with
  | Eq => (tx_time (it_tx a) <? tx_time (it_tx b))%Z
  | Gt => true
  | Lt => false
  end.

(* map[common.Address][]*LazyTransaction *)
Definition amap := list (N * list tx).

Fixpoint lookup (a : N) (m : amap) : option (list tx) :=
  match m with
  | [] => None
  | (b, v) :: r => if b =? a then Some v else lookup a r
  end.

(* m[a] = v *)
Fixpoint update (a : N) (v : list tx) (m : amap) : amap :=
  match m with
  | [] => [(a, v)]
  | (b, w) :: r => if b =? a then (b, v) :: r else (b, w) :: update a v r
  end.

(* delete(m, a) *)
Definition delete (a : N) (m : amap) : amap :=
  filter (fun p => negb (fst p =? a)) m.

(* TransactionsByPriceAndNonce (signer is unused by the methods modelled) *)
Record state := mkState {
  st_txs : amap; st_heads : list item; st_basefee : option N }.

(* NewTransactionsByPriceAndNonce: the loop
     for from, accTxs := range txs { wrapped, err := newTxWithMinerFee(accTxs[0], ...)
       if err != nil { delete(txs, from); continue }
       heads = append(heads, wrapped); txs[from] = accTxs[1:] }
   over the entries in iteration order [entries]; accTxs[0] panics on an empty list *)
Fixpoint new_loop (base_fee : option N) (entries : amap) (heads : list item) (txs : amap)
  : res (list item * amap) :=
  match entries with
  | [] => Ok (heads, txs)
  | (from, acc_txs) :: r =>
      match acc_txs with
      | [] => Panic
      | t0 :: rest =>
          match new_tx_with_miner_fee t0 from base_fee with
          | None => new_loop base_fee r heads (delete from txs)
          | Some w => new_loop base_fee r (heads ++ [w]) (update from rest txs)
          end
      end
  end.

Definition new_by_price_and_nonce (txs : amap) (base_fee : option N) : res state :=
  do (heads, txs') <- new_loop base_fee txs [] txs;
  do heads' <- heap_init less heads;
  Ok (mkState txs' heads' base_fee).

(* Peek: (tx, fees) of heads[0], nil when empty; the model also exposes [from] *)
Definition peek (t : state) : option item :=
  match st_heads t with [] => None | h0 :: _ => Some h0 end.

(* Pop: heap.Pop(&t.heads) *)
Definition pop (t : state) : res state :=
  do (_, hs) <- heap_pop less (st_heads t);
  Ok (mkState (st_txs t) hs (st_basefee t)).

(* Shift *)
Definition shift (t : state) : res state :=
  match st_heads t with
  | [] => Panic                                   (* t.heads[0] *)
  | h0 :: _ =>
      let acc := it_from h0 in
      match lookup acc (st_txs t) with
      | Some (t1 :: rest) =>
          match new_tx_with_miner_fee t1 acc (st_basefee t) with
          | Some w =>
              do hs <- heap_fix less (set_nth (st_heads t) 0 w) 0;
              Ok (mkState (update acc rest (st_txs t)) hs (st_basefee t))
          | None => pop t
          end
      | _ => pop t
      end
  end.

(* Empty *)
Definition empty (t : state) : bool :=
  match st_heads t with [] => true | _ => false end.

(* The block builder's loop (miner/worker.go commitTransactions): Peek; stop when
   nil; otherwise the caller decides Shift (included) or Pop (account unusable).
   [run] records each peeked item with the decision taken. *)
Inductive op := OShift | OPop.

Definition apply_op (o : op) (t : state) : res state :=
  match o with OShift => shift t | OPop => pop t end.

Fixpoint run (t : state) (script : list op) : res (list (item * op) * state) :=
  match script with
  | [] => Ok ([], t)
  | o :: r =>
      match peek t with
      | None => Ok ([], t)
      | Some it =>
          do t' <- apply_op o t;
          do (tr, t'') <- run t' r;
          Ok ((it, o) :: tr, t'')
      end
  end.

(* ------------------------------------------------------------------------- *)
(* Specification vocabulary (used by the statements in Properties/C43.v; none of
   it is executed by the iterator above)                                       *)

(* the fee check of newTxWithMinerFee passes *)
Definition affordable (bf : option N) (t : tx) : bool :=
  match bf with None => true | Some b => negb (tx_feecap t <? b) end.

(* effective miner tip: min(tipCap, feeCap - baseFee); the tip cap without base fee *)
Definition eff_fee (bf : option N) (t : tx) : N :=
  match bf with None => tx_tipcap t | Some b => N.min (tx_tipcap t) (tx_feecap t - b) end.

(* longest prefix of an account's list whose fee checks pass *)
Fixpoint afford_prefix (bf : option N) (l : list tx) : list tx :=
  match l with
  | [] => []
  | t :: r => if affordable bf t then t :: afford_prefix bf r else []
  end.

Definition txs_of (a : N) (m : amap) : list tx :=
  match lookup a m with Some l => l | None => [] end.

(* abstract iterator state: per live account, the remaining yieldable queue *)
Definition aqueues := list (N * list tx).

Definition aq_init (bf : option N) (pend : amap) : aqueues :=
  flat_map (fun p => match afford_prefix bf (snd p) with
                     | [] => []
                     | q => [(fst p, q)]
                     end) pend.

(* the current heads: first element of every live account's queue, with its fee *)
Definition head_items (bf : option N) (aq : aqueues) : list item :=
  flat_map (fun p => match snd p with
                     | [] => []
                     | t :: _ => [mkItem t (fst p) (eff_fee bf t)]
                     end) aq.

(* account [a]'s head was yielded and the caller chose [o]:
   Shift advances the account (dropping it when nothing yieldable is left),
   Pop drops the account *)
Definition astep (o : op) (a : N) (aq : aqueues) : aqueues :=
  flat_map (fun p => if fst p =? a
                     then match o, snd p with
                          | OShift, _ :: ((_ :: _) as r) => [(fst p, r)]
                          | _, _ => []
                          end
                     else [p]) aq.

Fixpoint aq_after (aq : aqueues) (tr : list (item * op)) : aqueues :=
  match tr with
  | [] => aq
  | (it, o) :: r => aq_after (astep o (it_from it) aq) r
  end.

(* the heads available after the yields/decisions [tr] on input [pend] *)
Definition avail (bf : option N) (pend : amap) (tr : list (item * op)) : list item :=
  head_items bf (aq_after (aq_init bf pend) tr).

(* the transactions of account [a] in a trace, in yield order *)
Definition proj (a : N) (tr : list (item * op)) : list tx :=
  map (fun p => it_tx (fst p)) (filter (fun p => it_from (fst p) =? a) tr).

(* account [a] was never popped in [tr] *)
Definition no_pop (a : N) (tr : list (item * op)) : Prop :=
  forall it, In (it, OPop) tr -> it_from it <> a.

Definition total_len (aq : aqueues) : nat :=
  fold_right (fun p n => (length (snd p) + n)%nat) O aq.

(* heap order on a list-as-array: no element is [less] than its parent *)
Definition heap_inv {A} (less : A -> A -> bool) (h : list A) : Prop :=
  forall j x y, (0 < j)%nat -> nth_error h j = Some x -> nth_error h ((j - 1) / 2) = Some y ->
                less x y = false.
