(* Pool/BlobLimboSound.v — group-level soundness of the limbo ("every entry is an inclusion in a
   block of the current chain above the finalised block") through the limbo operations that can
   be handled without the index/groups/store consistency invariant: push of an inclusion,
   getAndDrop, pull, finalize, and recheck called by Reset with the inclusions of reorg(). *)
From Coq Require Import List NArith ZArith Bool Lia.
From GV Require Import Lib.Tactics Pool.Blob Pool.BlobProofs Pool.BlobAddProofs Pool.BlobRollingProofs Pool.BlobResetProofs Pool.BlobLimboProofs Pool.BlobLimboReset Pool.BlobLimboFrame Pool.BlobLimboEntry Pool.BlobLimboRecheck.
Import ListNotations.
Local Open Scope N_scope.

(* the group of block [blk] lists store id [id] for transaction hash [h] *)
Definition gentry (l : limbo) (blk id h : N) : Prop :=
  exists g, aget (l_groups l) blk = Some g /\ aget g id = Some h.

(* transaction hash [h] is included in a block of height [blk] on the chain ending in [head] *)
Definition incl_ok (bs : list block) (head : block) (blk h : N) : Prop :=
  exists b t, reach bs head b /\ b_num b = blk /\ In t (b_txs b) /\ bt_id t = h.

Definition csound (bs : list block) (head : block) (l : limbo) : Prop :=
  forall blk id h, gentry l blk id h -> incl_ok bs head blk h.

Lemma limbo_set_entries l t blk b i h :
  gentry (limbo_set l t blk) b i h -> gentry l b i h \/ (b = blk /\ h = t_id t).
Proof.
  unfold limbo_set. destruct (billy_put _ _ _) as [[st id]|]; [|left; assumption].
  intros [g [Hg Hi]]. cbn [l_groups] in Hg. rewrite aget_aset in Hg. destruct (blk =? b) eqn:Eb.
  - apply N.eqb_eq in Eb. subst b. inversion Hg; subst g. clear Hg. rewrite aget_aset in Hi. destruct (id =? i) eqn:Ei.
    + inversion Hi; subst. right. split; reflexivity.
    + left. destruct (aget (l_groups l) blk) as [g0|] eqn:Eg; [exists g0; split; [exact Eg | exact Hi] | cbn in Hi; discriminate].
  - left. exists g. split; assumption.
Qed.

Lemma limbo_push_entries l t blk b i h :
  gentry (limbo_push l t blk) b i h -> gentry l b i h \/ (b = blk /\ h = t_id t).
Proof. unfold limbo_push. destruct (ahas _ _); [left; assumption | apply limbo_set_entries]. Qed.

Lemma limbo_get_drop_entries l id l' o b i h :
  limbo_get_drop l id = Ok (l', o) -> gentry l' b i h -> gentry l b i h.
Proof.
  unfold limbo_get_drop. intro H. inv_bind_as H x. destruct x as [it|]; [|inversion H; subst; auto].
  cbv zeta in H. inv_bind_as H st. inversion H; subst. clear H. intros [g [Hg Hi]]. cbn [l_groups] in Hg.
  destruct (adel (match aget (l_groups l) (i_block it) with Some g0 => g0 | None => [] end) id) as [|x r] eqn:Ed.
  - rewrite aget_adel in Hg. destruct (i_block it =? b); [discriminate|]. exists g. split; assumption.
  - rewrite aget_aset in Hg. destruct (i_block it =? b) eqn:Eb; [|exists g; split; assumption].
    inversion Hg; subst g. rewrite <- Ed in Hi. rewrite aget_adel in Hi. destruct (id =? i); [discriminate|].
    apply N.eqb_eq in Eb. subst b. destruct (aget (l_groups l) (i_block it)) as [g0|] eqn:Eg; [exists g0; split; [exact Eg | exact Hi] | cbn in Hi; discriminate].
Qed.

Lemma limbo_pull_entries l hh l' o b i h :
  limbo_pull l hh = Ok (l', o) -> gentry l' b i h -> gentry l b i h.
Proof.
  unfold limbo_pull. destruct (aget (l_index l) hh) as [id|]; [|intro H; inversion H; subst; auto].
  intro H. inv_bind_as H r. destruct r as [l1 o1]. inversion H; subst. cbn [fst]. eapply limbo_get_drop_entries; eauto.
Qed.

(* finalize: what is left is above the finalised block, and was there before *)
Lemma limbo_finalize_entries l final l' b i h :
  limbo_finalize l final = Ok l' -> gentry l' b i h -> final < b /\ gentry l b i h.
Proof.
  intros H [g [Hg Hi]]. destruct (limbo_finalize_spec _ _ _ H) as [F1 [F2 _]].
  destruct (N.le_gt_cases b final) as [K|K]; [rewrite (F1 b K) in Hg; discriminate|].
  split; [exact K|]. exists g. rewrite <- (F2 b K). split; assumption.
Qed.

Lemma pushed_sound bs head inc l l' :
  (forall h blk, aget inc h = Some blk -> incl_ok bs head blk h) ->
  pushed inc l l' -> csound bs head l -> csound bs head l'.
Proof.
  intros Hinc Hp Hs. induction Hp as [|l l1 it blk Hp IH Hi]; [exact Hs|].
  intros b i h He. apply limbo_push_entries in He. destruct He as [He|[-> ->]]; [exact (IH Hs _ _ _ He) | apply Hinc; exact Hi].
Qed.

Lemma inclusions_ok bs oldh newh ro :
  reorg bs oldh newh = Some ro ->
  forall h blk, aget (inclusions_of (ro_incl ro)) h = Some blk -> incl_ok bs newh blk h.
Proof.
  intros Hr h blk Hi. unfold inclusions_of in Hi. apply inclusions_of_sound in Hi. destruct Hi as [[t [Hin E]]|Hi]; [|discriminate].
  pose proof (reorg_incl_sound _ _ _ _ Hr) as Hf. rewrite Forall_forall in Hf.
  destruct (Hf _ Hin) as [b [Hb [Hn Ht]]]. exists b, t. repeat split; assumption.
Qed.

Section LimboSound.
Variable prioE prioB : N -> N -> Z.

(* recheck as Reset calls it keeps the limbo sound for the new chain *)
Theorem recheck_reset_sound lg bs oldh newh ro a p q :
  reorg bs oldh newh = Some ro ->
  recheck prioE prioB lg a (Some (inclusions_of (ro_incl ro))) p = Ok q ->
  csound bs newh (p_limbo p) -> csound bs newh (p_limbo q).
Proof.
  intros Hr H Hs. apply recheck_limbo in H. eapply pushed_sound; [eapply inclusions_ok; eauto | exact H | exact Hs].
Qed.

(* recheck as Init calls it does not touch the limbo *)
Theorem recheck_init_limbo lg a p q :
  recheck prioE prioB lg a None p = Ok q -> p_limbo q = p_limbo p.
Proof. intro H. apply recheck_limbo in H. exact H. Qed.

(* reinject only removes limbo entries *)
Lemma reinject_entries a hh p q b i h :
  reinject a hh p = Ok q -> gentry (p_limbo q) b i h -> gentry (p_limbo p) b i h.
Proof.
  unfold reinject. intro H. inv_bind_as H r. destruct r as [l1 o1]. cbn [fst snd] in H.
  intro Hg. cut (gentry l1 b i h); [eapply limbo_pull_entries; eauto|].
  destruct o1 as [t|]; [|inversion H; subst; exact Hg].
  destruct (billy_put _ _ _) as [[st id]|]; [|inversion H; subst; exact Hg].
  cbv zeta in H. inv_bind_as H p1.
  assert (K : p_limbo p1 = l1).
  { destruct (aget _ a).
    - apply add_spent_limbo in E0. rewrite E0. reflexivity.
    - destruct (_ <? _); [inversion E0; subst; reflexivity | discriminate]. }
  rewrite <- K. inversion H; subst. exact Hg.
Qed.
End LimboSound.
